// globals: lists every instruction of the package (in its current working tree) that writes to
// package-level state outside package initialisation: stores through an address derived from a
// package-level variable, map updates on a map loaded from one, and stores of whole globals.
// Output: one line per finding "<function> <kind> <global> <position>", sorted. Used by C20 (T1).
package main

import (
	"fmt"
	"go/types"
	"os"
	"sort"
	"strings"

	"golang.org/x/tools/go/packages"
	"golang.org/x/tools/go/ssa"
	"golang.org/x/tools/go/ssa/ssautil"
)

// rootGlobal follows address/pointer derivations back to a package-level variable
var seen map[ssa.Value]bool

func rootGlobalTop(v ssa.Value) *ssa.Global {
	seen = map[ssa.Value]bool{}
	g, _ := rootGlobal(v, 0).(*ssa.Global)
	return g
}

// rootParamTop: the parameter (or free variable) an address is derived from, if any
func rootParamTop(v ssa.Value) *ssa.Parameter {
	seen = map[ssa.Value]bool{}
	p, _ := rootGlobal(v, 0).(*ssa.Parameter)
	return p
}

func rootGlobal(v ssa.Value, depth int) ssa.Value {
	if depth > 40 || v == nil || seen[v] {
		return nil
	}
	seen[v] = true
	switch x := v.(type) {
	case *ssa.Global:
		return x
	case *ssa.Parameter:
		return x
	case *ssa.FieldAddr:
		return rootGlobal(x.X, depth+1)
	case *ssa.IndexAddr:
		return rootGlobal(x.X, depth+1)
	case *ssa.UnOp: // *g : a pointer / slice / map loaded from a global
		return rootGlobal(x.X, depth+1)
	case *ssa.Field:
		return rootGlobal(x.X, depth+1)
	case *ssa.Slice:
		return rootGlobal(x.X, depth+1)
	case *ssa.ChangeType:
		return rootGlobal(x.X, depth+1)
	case *ssa.Convert:
		return rootGlobal(x.X, depth+1)
	case *ssa.MakeInterface:
		return rootGlobal(x.X, depth+1)
	case *ssa.Phi:
		for _, e := range x.Edges {
			if g := rootGlobal(e, depth+1); g != nil {
				return g
			}
		}
		return nil
	case *ssa.Lookup:
		return rootGlobal(x.X, depth+1)
	case *ssa.Extract:
		return rootGlobal(x.Tuple, depth+1)
	case *ssa.Call:
		// a method called on a global that returns interior pointers (e.g. BiMap.Get) is not followed
		return nil
	}
	return nil
}

func main() {
	dir := "/repo"
	if len(os.Args) > 1 {
		dir = os.Args[1]
	}
	cfg := &packages.Config{Mode: packages.NeedName | packages.NeedFiles | packages.NeedCompiledGoFiles | packages.NeedImports | packages.NeedDeps | packages.NeedTypes | packages.NeedSyntax | packages.NeedTypesInfo | packages.NeedTypesSizes, Dir: dir, Tests: false}
	pkgs, err := packages.Load(cfg, ".")
	if err != nil || len(pkgs) == 0 || len(pkgs[0].Errors) > 0 {
		fmt.Fprintln(os.Stderr, "load failed:", err)
		if len(pkgs) > 0 {
			for _, e := range pkgs[0].Errors {
				fmt.Fprintln(os.Stderr, e)
			}
		}
		os.Exit(2)
	}
	prog, spkgs := ssautil.Packages(pkgs, ssa.InstantiateGenerics)
	target := spkgs[0]
	target.Build()
	var out []string
	var globals []string
	for _, m := range target.Members {
		if g, ok := m.(*ssa.Global); ok && !strings.HasPrefix(g.Name(), "init$") {
			globals = append(globals, g.Name())
		}
	}
	sort.Strings(globals)
	// all functions of the target package: members, methods, anonymous functions
	fns := map[*ssa.Function]bool{}
	var add func(f *ssa.Function)
	add = func(f *ssa.Function) {
		if f == nil || fns[f] {
			return
		}
		fns[f] = true
		for _, a := range f.AnonFuncs {
			add(a)
		}
	}
	for _, m := range target.Members {
		switch x := m.(type) {
		case *ssa.Function:
			add(x)
		case *ssa.Type:
			for _, t := range []types.Type{x.Type(), types.NewPointer(x.Type())} {
				ms := prog.MethodSets.MethodSet(t)
				for i := 0; i < ms.Len(); i++ {
					add(prog.MethodValue(ms.At(i)))
				}
			}
		}
	}
	// one level of parameter passing: which parameters does each function store through?
	storesVia := map[*ssa.Function]map[int]bool{}
	for fn := range fns {
		if fn.Blocks == nil {
			continue
		}
		idx := map[*ssa.Parameter]int{}
		for i, p := range fn.Params {
			idx[p] = i
		}
		for _, b := range fn.Blocks {
			for _, ins := range b.Instrs {
				var addr ssa.Value
				switch x := ins.(type) {
				case *ssa.Store:
					addr = x.Addr
				case *ssa.MapUpdate:
					addr = x.Map
				}
				if addr == nil {
					continue
				}
				if p := rootParamTop(addr); p != nil {
					if i, ok := idx[p]; ok {
						if storesVia[fn] == nil {
							storesVia[fn] = map[int]bool{}
						}
						storesVia[fn][i] = true
					}
				}
			}
		}
	}
	mutators := map[string]bool{"Set": true, "Store": true, "Delete": true}
	for fn := range fns {
		if fn.Pkg != target || fn.Blocks == nil {
			continue
		}
		name := fn.String()
		// package initialisation legitimately fills the tables
		if fn.Name() == "init" || strings.HasPrefix(fn.Name(), "init#") || (fn.Parent() != nil && strings.HasPrefix(fn.Parent().Name(), "init")) {
			continue
		}
		for _, b := range fn.Blocks {
			for _, ins := range b.Instrs {
				pos := prog.Fset.Position(ins.Pos())
				where := fmt.Sprintf("%s:%d", strings.TrimPrefix(pos.Filename, dir+"/"), pos.Line)
				switch x := ins.(type) {
				case *ssa.Store:
					if g := rootGlobalTop(x.Addr); g != nil && g.Pkg == target {
						out = append(out, fmt.Sprintf("%s store %s %s", name, g.Name(), where))
					}
				case *ssa.MapUpdate:
					if g := rootGlobalTop(x.Map); g != nil && g.Pkg == target {
						out = append(out, fmt.Sprintf("%s mapupdate %s %s", name, g.Name(), where))
					}
				case ssa.CallInstruction:
					com := x.Common()
					if callee := com.StaticCallee(); callee != nil {
						args := com.Args
						for i, a := range args {
							g := rootGlobalTop(a)
							if g == nil || g.Pkg != target {
								continue
							}
							if storesVia[callee][i] {
								out = append(out, fmt.Sprintf("%s call-stores-through-arg %s %s->%s", name, g.Name(), where, callee.Name()))
							}
							// mutating methods of library containers (astikit.BiMap.Set, sync.Map.Store …) on a global receiver
							if i == 0 && callee.Signature.Recv() != nil && mutators[callee.Name()] {
								out = append(out, fmt.Sprintf("%s mutating-method %s %s->%s", name, g.Name(), where, callee.Name()))
							}
						}
					}
				}
			}
		}
	}
	// state that needs no store instruction in the package to be mutable and shared:
	// (1) a package-level variable whose type holds a synchronisation primitive or a pool (sync.*, atomic.*, channels):
	//     such a variable exists to be mutated by concurrent callers;
	// (2) the address of a package-level variable handed to code the analysis does not see into - a dynamic call
	//     (function value, interface method), a function outside the package, a closure capture, a store of the address
	//     into the heap, a return value: whoever holds the address can write through it.
	var stateful func(t types.Type, depth int) string
	stateful = func(t types.Type, depth int) string {
		if depth > 4 || t == nil {
			return ""
		}
		switch x := t.(type) {
		case *types.Named:
			if o := x.Obj(); o != nil && o.Pkg() != nil && (o.Pkg().Path() == "sync" || o.Pkg().Path() == "sync/atomic") {
				return o.Pkg().Path() + "." + o.Name()
			}
			// the internals of other packages' types are their own concern (strings.Replacer, regexp.Regexp … are
			// documented safe for concurrent use); only the package's own types are looked into
			if o := x.Obj(); o == nil || o.Pkg() == nil || o.Pkg() != pkgs[0].Types {
				return ""
			}
			return stateful(x.Underlying(), depth+1)
		case *types.Pointer:
			return stateful(x.Elem(), depth+1)
		case *types.Slice:
			return stateful(x.Elem(), depth+1)
		case *types.Array:
			return stateful(x.Elem(), depth+1)
		case *types.Map:
			if r := stateful(x.Key(), depth+1); r != "" {
				return r
			}
			return stateful(x.Elem(), depth+1)
		case *types.Chan:
			return "chan"
		case *types.Struct:
			for i := 0; i < x.NumFields(); i++ {
				if r := stateful(x.Field(i).Type(), depth+1); r != "" {
					return r
				}
			}
		}
		return ""
	}
	for _, m := range target.Members {
		if g, ok := m.(*ssa.Global); ok && !strings.HasPrefix(g.Name(), "init$") {
			if r := stateful(g.Type(), 0); r != "" {
				out = append(out, fmt.Sprintf("%s stateful-type %s %s", "package", g.Name(), r))
			}
		}
	}
	// addrOf: is v the address of (part of) a package-level variable, without a load in between?
	var addrOf func(v ssa.Value, depth int) *ssa.Global
	addrOf = func(v ssa.Value, depth int) *ssa.Global {
		if depth > 10 || v == nil {
			return nil
		}
		switch x := v.(type) {
		case *ssa.Global:
			return x
		case *ssa.FieldAddr:
			return addrOf(x.X, depth+1)
		case *ssa.IndexAddr:
			// indexing a slice loaded from a global is a load; indexing an array global in place is not
			if _, isPtr := x.X.Type().Underlying().(*types.Pointer); isPtr {
				return addrOf(x.X, depth+1)
			}
			return nil
		case *ssa.ChangeType:
			return addrOf(x.X, depth+1)
		case *ssa.MakeInterface:
			return addrOf(x.X, depth+1)
		}
		return nil
	}
	for fn := range fns {
		if fn.Pkg != target || fn.Blocks == nil {
			continue
		}
		if fn.Name() == "init" || strings.HasPrefix(fn.Name(), "init#") || (fn.Parent() != nil && strings.HasPrefix(fn.Parent().Name(), "init")) {
			continue
		}
		name := fn.String()
		for _, b := range fn.Blocks {
			for _, ins := range b.Instrs {
				pos := prog.Fset.Position(ins.Pos())
				where := fmt.Sprintf("%s:%d", strings.TrimPrefix(pos.Filename, dir+"/"), pos.Line)
				report := func(kind string, v ssa.Value, extra string) {
					if g := addrOf(v, 0); g != nil && g.Pkg == target {
						out = append(out, fmt.Sprintf("%s %s %s %s%s", name, kind, g.Name(), where, extra))
					}
				}
				switch x := ins.(type) {
				case *ssa.Store:
					report("address-stored", x.Val, "")
				case *ssa.Return:
					for _, r := range x.Results {
						report("address-returned", r, "")
					}
				case *ssa.MakeClosure:
					for _, bnd := range x.Bindings {
						report("address-captured", bnd, "")
					}
				case *ssa.Send:
					report("address-sent", x.X, "")
				case ssa.CallInstruction:
					com := x.Common()
					callee := com.StaticCallee()
					for _, a := range com.Args {
						if callee == nil {
							report("address-to-dynamic-call", a, "")
						} else if callee.Pkg != target {
							report("address-to-foreign-call", a, "->"+callee.String())
						}
					}
					if com.IsInvoke() {
						report("address-to-dynamic-call", com.Value, "")
					}
				}
			}
		}
	}
	sort.Strings(out)
	fmt.Printf("globals %d %s\n", len(globals), strings.Join(globals, ","))
	for _, l := range out {
		fmt.Println("write", l)
	}
}
