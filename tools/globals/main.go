// globals: go/ssa fact extractor for C20 (T1). It loads the library (root package of the module in <dir>, built
// with -tags=verif like the harness, plus every module-internal package the root package imports) and prints
//
//	global <name>\t<type>        every package-level variable of the analysed packages with its type
//	internal <path>              module-internal packages in the import closure of the root package
//	ignored <file>               non-test .go files of the root directory excluded by build constraints
//	write <text>                 instructions (outside package initialisation) that write package-level state
//	handover <text>              places where a reference into package-level state leaves the analysed code
//	stateful <text>              package-level variables whose type (looked into across packages) holds state
//
// `write` lines carry positions and are expected to be empty; `handover` and `stateful` lines carry no positions,
// are de-duplicated and sorted, and are meant to be PINNED by a theorem (any new entry must be looked at).
//
// The derivation tracker is intra-procedural with summaries computed to a fixed point: which parameters /
// free variables a function writes through (any depth of calls), which roots its results point into, through
// which parameters it hands references to foreign or dynamic code, and which struct fields hold references
// loaded from package-level variables (field-based, flow-insensitive).
package main

import (
	"fmt"
	"go/token"
	"go/types"
	"os"
	"path/filepath"
	"regexp"
	"sort"
	"strings"

	"golang.org/x/tools/go/packages"
	"golang.org/x/tools/go/ssa"
	"golang.org/x/tools/go/ssa/ssautil"
)

// rootSet: *ssa.Global, *ssa.Parameter or *ssa.FreeVar a value may point into / be derived from
type rootSet map[ssa.Value]bool

type analysis struct {
	prog      *ssa.Program
	dir       string
	modPath   string
	rootTypes *types.Package
	analysed  map[*ssa.Package]bool
	fns       []*ssa.Function
	fnSet     map[*ssa.Function]bool
	sites     map[*ssa.Function][]*ssa.MakeClosure // where closures of a function are made
	allocSt   map[*ssa.Alloc][]*ssa.Store          // stores into (parts of) a local variable
	// summaries (fixed point)
	sharedFields  map[string]map[*ssa.Global]bool           // "Struct.field" -> globals whose memory the field may reference
	returnsShared map[*ssa.Function]rootSet                 // roots the results may point into
	writesVia     map[*ssa.Function]map[int]bool            // parameter (or len(Params)+k: free variable k) written through
	handsVia      map[*ssa.Function]map[int]map[string]bool // parameter handed to foreign / dynamic code: descriptions
	escapeMemo    map[*ssa.Function]bool
	skipMemo      map[*ssa.Function]bool
}

var initNumbered = regexp.MustCompile(`^init#\d+$`)

// ---------- types ----------

func pointerLike(t types.Type) bool { return pointerLike1(t, map[types.Type]bool{}) }

func pointerLike1(t types.Type, seen map[types.Type]bool) bool {
	if t == nil || seen[t] {
		return false
	}
	seen[t] = true
	switch x := t.(type) {
	case *types.Named:
		return pointerLike1(x.Underlying(), seen)
	case *types.Alias:
		return pointerLike1(types.Unalias(x), seen)
	case *types.Pointer, *types.Slice, *types.Map, *types.Chan, *types.Signature, *types.Interface, *types.TypeParam:
		return true
	case *types.Basic:
		return x.Kind() == types.UnsafePointer
	case *types.Array:
		return pointerLike1(x.Elem(), seen)
	case *types.Struct:
		for i := 0; i < x.NumFields(); i++ {
			if pointerLike1(x.Field(i).Type(), seen) {
				return true
			}
		}
	case *types.Tuple:
		for i := 0; i < x.Len(); i++ {
			if pointerLike1(x.At(i).Type(), seen) {
				return true
			}
		}
	}
	return false
}

func addressLike(t types.Type) bool { // pointerLike or an integer that may carry an address
	if pointerLike(t) {
		return true
	}
	if b, ok := t.Underlying().(*types.Basic); ok {
		return b.Kind() == types.Uintptr
	}
	return false
}

func (a *analysis) typeString(t types.Type) string {
	return types.TypeString(t, types.RelativeTo(a.rootTypes))
}

// ---------- functions ----------

func top(fn *ssa.Function) *ssa.Function {
	for fn.Parent() != nil {
		fn = fn.Parent()
	}
	return fn
}

func (a *analysis) pkgOf(fn *ssa.Function) *ssa.Package {
	t := top(fn)
	if t.Pkg != nil {
		return t.Pkg
	}
	if o := t.Origin(); o != nil && o.Pkg != nil {
		return o.Pkg
	}
	if obj := t.Object(); obj != nil && obj.Pkg() != nil { // wrappers, thunks, bound methods
		return a.prog.Package(obj.Pkg())
	}
	return nil
}

func (a *analysis) isAnalysed(fn *ssa.Function) bool {
	p := a.pkgOf(fn)
	return p != nil && a.analysed[p]
}

func isPkgInit(fn *ssa.Function) bool {
	return fn.Parent() == nil && fn.Signature.Recv() == nil && (fn.Name() == "init" || initNumbered.MatchString(fn.Name()))
}

// escapes: does the anonymous function fn outlive the call of its parent that creates it (stored, returned,
// passed on, started with go, bound into another closure)? Only an immediate call / defer does not escape.
func (a *analysis) escapes(fn *ssa.Function) bool {
	if v, ok := a.escapeMemo[fn]; ok {
		return v
	}
	res := false
	p := fn.Parent()
	if p != nil {
		isIt := func(v ssa.Value) bool {
			if v == fn {
				return true
			}
			if mc, ok := v.(*ssa.MakeClosure); ok && mc.Fn == fn {
				return true
			}
			return false
		}
		var ops []*ssa.Value
		for _, b := range p.Blocks {
			for _, ins := range b.Instrs {
				if _, ok := ins.(*ssa.MakeClosure); ok {
					continue // the creation itself
				}
				if _, ok := ins.(*ssa.DebugRef); ok {
					continue
				}
				ops = ins.Operands(ops[:0])
				for _, op := range ops {
					if op == nil || *op == nil || !isIt(*op) {
						continue
					}
					ok := false
					switch c := ins.(type) {
					case *ssa.Call:
						ok = isIt(c.Call.Value) && !argsHave(c.Call.Args, isIt)
					case *ssa.Defer:
						ok = isIt(c.Call.Value) && !argsHave(c.Call.Args, isIt)
					}
					if !ok {
						res = true
					}
				}
			}
		}
	}
	a.escapeMemo[fn] = res
	return res
}

// hand records that fn hands its parameter / free variable idx on as described; reports whether that is new
func (a *analysis) hand(fn *ssa.Function, idx int, desc string) bool {
	if a.handsVia[fn] == nil {
		a.handsVia[fn] = map[int]map[string]bool{}
	}
	if a.handsVia[fn][idx] == nil {
		a.handsVia[fn][idx] = map[string]bool{}
	}
	if a.handsVia[fn][idx][desc] {
		return false
	}
	a.handsVia[fn][idx][desc] = true
	return true
}

func argsHave(args []ssa.Value, f func(ssa.Value) bool) bool {
	for _, x := range args {
		if f(x) {
			return true
		}
	}
	return false
}

// skipped: the real package initialiser and the anonymous functions under it that cannot run after it
func (a *analysis) skipped(fn *ssa.Function) bool {
	if v, ok := a.skipMemo[fn]; ok {
		return v
	}
	res := false
	if fn.Parent() == nil {
		res = isPkgInit(fn)
	} else if isPkgInit(top(fn)) {
		res = true
		for f := fn; f.Parent() != nil; f = f.Parent() {
			if a.escapes(f) {
				res = false
				break
			}
		}
	}
	a.skipMemo[fn] = res
	return res
}

func static(com *ssa.CallCommon) *ssa.Function {
	if com.IsInvoke() {
		return nil
	}
	v := com.Value
	for {
		if ct, ok := v.(*ssa.ChangeType); ok {
			v = ct.X
			continue
		}
		break
	}
	switch f := v.(type) {
	case *ssa.Function:
		return f
	case *ssa.MakeClosure:
		if g, ok := f.Fn.(*ssa.Function); ok {
			return g
		}
	}
	return nil
}

func closureOf(com *ssa.CallCommon) *ssa.MakeClosure {
	v := com.Value
	for {
		if ct, ok := v.(*ssa.ChangeType); ok {
			v = ct.X
			continue
		}
		break
	}
	mc, _ := v.(*ssa.MakeClosure)
	return mc
}

// ---------- the derivation tracker ----------

type walker struct {
	a     *analysis
	out   rootSet
	seenV map[ssa.Value]bool // values walked
	seenC map[ssa.Value]bool // addresses whose content was taken
}

func (a *analysis) reach(v ssa.Value) rootSet {
	w := &walker{a: a, out: rootSet{}, seenV: map[ssa.Value]bool{}, seenC: map[ssa.Value]bool{}}
	w.walk(v)
	return w.out
}

// argReach: what a callee can reach through an argument: the argument itself and, when it is the address of a
// local variable, what that variable holds
func (a *analysis) argReach(v ssa.Value) rootSet {
	w := &walker{a: a, out: rootSet{}, seenV: map[ssa.Value]bool{}, seenC: map[ssa.Value]bool{}}
	w.walk(v)
	if _, ok := inPlaceBase(v).(*ssa.Alloc); ok {
		w.content(v)
	}
	return w.out
}

// inPlaceBase strips field / array-element selections that stay inside the same variable (no load)
func inPlaceBase(v ssa.Value) ssa.Value {
	for {
		switch x := v.(type) {
		case *ssa.FieldAddr:
			v = x.X
			continue
		case *ssa.IndexAddr:
			if _, isPtr := x.X.Type().Underlying().(*types.Pointer); isPtr {
				v = x.X
				continue
			}
		}
		return v
	}
}

func fieldKey(a *analysis, x ssa.Value, field int) string {
	t := x.Type()
	if p, ok := t.Underlying().(*types.Pointer); ok {
		t = p.Elem()
	}
	st, ok := t.Underlying().(*types.Struct)
	if !ok || field >= st.NumFields() {
		return ""
	}
	return a.typeString(t) + "." + st.Field(field).Name()
}

func (w *walker) addField(key string) {
	for g := range w.a.sharedFields[key] {
		w.out[g] = true
	}
}

// content: what the memory at address addr may reference
func (w *walker) content(addr ssa.Value) {
	if addr == nil || w.seenC[addr] {
		return
	}
	w.seenC[addr] = true
	v := addr
	for {
		switch x := v.(type) {
		case *ssa.FieldAddr:
			w.addField(fieldKey(w.a, x.X, x.Field))
			v = x.X
			continue
		case *ssa.IndexAddr:
			if _, isPtr := x.X.Type().Underlying().(*types.Pointer); isPtr {
				v = x.X
				continue
			}
		}
		break
	}
	switch b := v.(type) {
	case *ssa.Alloc:
		for _, st := range w.a.allocSt[b] {
			if pointerLike(st.Val.Type()) {
				w.walk(st.Val)
			}
		}
	case *ssa.FreeVar:
		fn := b.Parent()
		for k, fv := range fn.FreeVars {
			if fv == b {
				for _, mc := range w.a.sites[fn] {
					if k < len(mc.Bindings) {
						w.content(mc.Bindings[k])
					}
				}
			}
		}
	case *ssa.Phi:
		for _, e := range b.Edges {
			w.content(e)
		}
	}
}

func (w *walker) walk(v ssa.Value) {
	if v == nil || w.seenV[v] {
		return
	}
	w.seenV[v] = true
	switch x := v.(type) {
	case *ssa.Global:
		w.out[x] = true
	case *ssa.Parameter:
		w.out[x] = true
	case *ssa.FreeVar:
		w.out[x] = true
		fn := x.Parent()
		for k, fv := range fn.FreeVars {
			if fv == x {
				for _, mc := range w.a.sites[fn] {
					if k < len(mc.Bindings) {
						w.walk(mc.Bindings[k])
					}
				}
			}
		}
	case *ssa.Alloc:
		// the address of a local variable points into no package-level memory
	case *ssa.FieldAddr:
		w.walk(x.X)
	case *ssa.IndexAddr:
		w.walk(x.X)
	case *ssa.UnOp:
		switch x.Op {
		case token.MUL:
			if !addressLike(x.Type()) {
				return
			}
			w.walk(x.X)
			w.content(x.X)
		case token.ARROW:
		default:
		}
	case *ssa.Field:
		w.walk(x.X)
		w.addField(fieldKey(w.a, x.X, x.Field))
	case *ssa.Index:
		w.walk(x.X)
	case *ssa.Lookup:
		w.walk(x.X)
	case *ssa.Slice:
		w.walk(x.X)
	case *ssa.ChangeType:
		w.walk(x.X)
	case *ssa.Convert:
		w.walk(x.X)
	case *ssa.MultiConvert:
		w.walk(x.X)
	case *ssa.MakeInterface:
		w.walk(x.X)
	case *ssa.ChangeInterface:
		w.walk(x.X)
	case *ssa.SliceToArrayPointer:
		w.walk(x.X)
	case *ssa.TypeAssert:
		w.walk(x.X)
	case *ssa.Extract:
		w.walk(x.Tuple)
	case *ssa.Next:
		w.walk(x.Iter)
	case *ssa.Range:
		w.walk(x.X)
	case *ssa.Phi:
		for _, e := range x.Edges {
			w.walk(e)
		}
	case *ssa.BinOp:
		if addressLike(x.Type()) {
			w.walk(x.X)
			w.walk(x.Y)
		}
	case *ssa.MakeClosure:
		for _, b := range x.Bindings {
			w.walk(b)
		}
	case *ssa.Call:
		w.call(x)
	}
}

func (w *walker) call(x *ssa.Call) {
	if !addressLike(x.Type()) {
		return
	}
	com := x.Common()
	if b, ok := com.Value.(*ssa.Builtin); ok {
		switch b.Name() {
		case "append":
			// the result shares the backing array of the first argument; the appended elements are copies
			// (references among them are reported as a hand-over "appended", not followed)
			if len(com.Args) > 0 {
				w.walk(com.Args[0])
			}
		case "Add", "Slice", "SliceData", "StringData", "String", "min", "max":
			for _, arg := range com.Args {
				w.walk(arg)
			}
		}
		return
	}
	callee := static(com)
	if callee != nil && w.a.isAnalysed(callee) {
		mc := closureOf(com)
		for r := range w.a.returnsShared[callee] {
			switch r := r.(type) {
			case *ssa.Global:
				w.out[r] = true
			case *ssa.Parameter:
				for i, p := range callee.Params {
					if p == r && i < len(com.Args) {
						w.walk(com.Args[i])
						if _, ok := inPlaceBase(com.Args[i]).(*ssa.Alloc); ok {
							w.content(com.Args[i])
						}
					}
				}
			case *ssa.FreeVar:
				if mc != nil {
					for k, fv := range callee.FreeVars {
						if fv == r && k < len(mc.Bindings) {
							w.walk(mc.Bindings[k])
							w.content(mc.Bindings[k])
						}
					}
				}
			}
		}
		return
	}
	if callee == nil {
		// the result of a function value / interface method kept in package-level state belongs to that state
		w.walk(com.Value)
	}
}

// ---------- helpers on root sets ----------

func globalsOf(rs rootSet) []*ssa.Global {
	var out []*ssa.Global
	for r := range rs {
		if g, ok := r.(*ssa.Global); ok && !strings.HasPrefix(g.Name(), "init$") {
			out = append(out, g)
		}
	}
	sort.Slice(out, func(i, j int) bool { return out[i].String() < out[j].String() })
	return out
}

func (a *analysis) globalName(g *ssa.Global) string {
	if g.Pkg != nil && g.Pkg.Pkg == a.rootTypes {
		return g.Name()
	}
	if g.Pkg != nil {
		return a.relPkg(g.Pkg.Pkg.Path()) + "." + g.Name()
	}
	return g.Name()
}

func (a *analysis) relPkg(path string) string {
	return strings.TrimPrefix(path, a.modPath+"/")
}

// paramIndex: index of a parameter / free variable of fn in the summaries
func paramIndex(fn *ssa.Function, r ssa.Value) (int, bool) {
	switch r := r.(type) {
	case *ssa.Parameter:
		for i, p := range fn.Params {
			if p == r {
				return i, true
			}
		}
	case *ssa.FreeVar:
		for k, fv := range fn.FreeVars {
			if fv == r {
				return len(fn.Params) + k, true
			}
		}
	}
	return 0, false
}

// actual: the value a call passes for summary index idx of callee
func actual(com *ssa.CallCommon, callee *ssa.Function, idx int) ssa.Value {
	if idx < len(callee.Params) {
		if idx < len(com.Args) {
			return com.Args[idx]
		}
		return nil
	}
	if mc := closureOf(com); mc != nil {
		k := idx - len(callee.Params)
		if k < len(mc.Bindings) {
			return mc.Bindings[k]
		}
	}
	return nil
}

var mutators = map[string]bool{"Set": true, "Store": true, "Delete": true}

// foreign functions that set process-wide state whatever their arguments
func denied(callee *ssa.Function) bool {
	if callee.Pkg == nil {
		return false
	}
	p, n := callee.Pkg.Pkg.Path(), callee.Name()
	switch p {
	case "log":
		return strings.HasPrefix(n, "Set") && callee.Signature.Recv() == nil
	case "math/rand", "math/rand/v2":
		return n == "Seed" && callee.Signature.Recv() == nil
	case "os":
		return n == "Setenv" || n == "Unsetenv" || n == "Clearenv" || n == "Chdir"
	case "flag":
		return n == "Set" && callee.Signature.Recv() == nil
	}
	return false
}

// writeTargets: the values an instruction writes through (kind, target)
type writeT struct {
	kind string
	v    ssa.Value
	arg  bool // the target is an argument (argReach applies)
}

func writeTargets(ins ssa.Instruction) []writeT {
	switch x := ins.(type) {
	case *ssa.Store:
		return []writeT{{"store", x.Addr, false}}
	case *ssa.MapUpdate:
		return []writeT{{"mapupdate", x.Map, false}}
	case ssa.CallInstruction:
		com := x.Common()
		if b, ok := com.Value.(*ssa.Builtin); ok && len(com.Args) > 0 {
			switch b.Name() {
			case "copy", "append", "delete", "clear":
				return []writeT{{"builtin-write(" + b.Name() + ")", com.Args[0], true}}
			}
			return nil
		}
		if callee := static(com); callee != nil && callee.Signature.Recv() != nil && mutators[callee.Name()] && len(com.Args) > 0 {
			return []writeT{{"mutating-method(" + callee.Name() + ")", com.Args[0], true}}
		}
		if com.IsInvoke() && mutators[com.Method.Name()] {
			return []writeT{{"mutating-method(" + com.Method.Name() + ")", com.Value, true}}
		}
	}
	return nil
}

// isPointerLikeValue: a value that can carry a reference (an interface made from a non-reference does not)
func isPointerLikeValue(v ssa.Value) bool {
	if mi, ok := v.(*ssa.MakeInterface); ok {
		return pointerLike(mi.X.Type())
	}
	return pointerLike(v.Type())
}

// ---------- main ----------

func main() {
	dir := "/repo"
	if len(os.Args) > 1 {
		dir = os.Args[1]
	}
	if abs, err := filepath.Abs(dir); err == nil {
		dir = abs
	}
	cfg := &packages.Config{
		Mode: packages.NeedName | packages.NeedFiles | packages.NeedCompiledGoFiles | packages.NeedImports | packages.NeedDeps |
			packages.NeedTypes | packages.NeedSyntax | packages.NeedTypesInfo | packages.NeedTypesSizes | packages.NeedModule,
		Dir: dir, Tests: false, BuildFlags: []string{"-tags=verif"},
	}
	pkgs, err := packages.Load(cfg, "./...")
	if err != nil || len(pkgs) == 0 {
		fmt.Fprintln(os.Stderr, "load failed:", err)
		os.Exit(2)
	}
	var root *packages.Package
	for _, p := range pkgs {
		if p.Module != nil && p.PkgPath == p.Module.Path {
			root = p
		}
	}
	if root == nil {
		fmt.Fprintln(os.Stderr, "load failed: no root package of the module in", dir)
		os.Exit(2)
	}
	bad := false
	packages.Visit([]*packages.Package{root}, nil, func(p *packages.Package) {
		if p == root || (root.Module != nil && strings.HasPrefix(p.PkgPath, root.Module.Path+"/")) {
			for _, e := range p.Errors {
				fmt.Fprintln(os.Stderr, e)
				bad = true
			}
		}
	})
	if bad {
		fmt.Fprintln(os.Stderr, "load failed: errors in the analysed packages")
		os.Exit(2)
	}
	modPath := root.Module.Path
	// module-internal packages in the import closure of the root package
	var internal []*packages.Package
	packages.Visit([]*packages.Package{root}, nil, func(p *packages.Package) {
		if p != root && strings.HasPrefix(p.PkgPath, modPath+"/") {
			internal = append(internal, p)
		}
	})
	sort.Slice(internal, func(i, j int) bool { return internal[i].PkgPath < internal[j].PkgPath })

	prog, _ := ssautil.AllPackages(pkgs, ssa.InstantiateGenerics)
	prog.Build()
	a := &analysis{prog: prog, dir: dir, modPath: modPath, rootTypes: root.Types, analysed: map[*ssa.Package]bool{},
		fnSet: map[*ssa.Function]bool{}, sites: map[*ssa.Function][]*ssa.MakeClosure{}, allocSt: map[*ssa.Alloc][]*ssa.Store{},
		sharedFields: map[string]map[*ssa.Global]bool{}, returnsShared: map[*ssa.Function]rootSet{},
		writesVia: map[*ssa.Function]map[int]bool{}, handsVia: map[*ssa.Function]map[int]map[string]bool{},
		escapeMemo: map[*ssa.Function]bool{}, skipMemo: map[*ssa.Function]bool{}}
	rootSSA := prog.Package(root.Types)
	if rootSSA == nil {
		fmt.Fprintln(os.Stderr, "load failed: no ssa package for the root package")
		os.Exit(2)
	}
	a.analysed[rootSSA] = true
	for _, p := range internal {
		if sp := prog.Package(p.Types); sp != nil {
			a.analysed[sp] = true
		}
	}

	// ---- functions: everything the linker-style walk finds, plus members / methods / anonymous functions
	var add func(f *ssa.Function)
	add = func(f *ssa.Function) {
		if f == nil || a.fnSet[f] || f.Blocks == nil || !a.isAnalysed(f) {
			return
		}
		a.fnSet[f] = true
		for _, an := range f.AnonFuncs {
			add(an)
		}
	}
	for f := range ssautil.AllFunctions(prog) {
		add(f)
	}
	for sp := range a.analysed {
		for _, m := range sp.Members {
			switch x := m.(type) {
			case *ssa.Function:
				add(x)
			case *ssa.Type:
				for _, t := range []types.Type{x.Type(), types.NewPointer(x.Type())} {
					ms := prog.MethodSets.MethodSet(t)
					for i := 0; i < ms.Len(); i++ {
						add(prog.MethodValue(ms.At(i)))
					}
				}
			}
		}
	}
	for f := range a.fnSet {
		a.fns = append(a.fns, f)
	}
	sort.Slice(a.fns, func(i, j int) bool {
		if a.fns[i].String() != a.fns[j].String() {
			return a.fns[i].String() < a.fns[j].String()
		}
		return a.fns[i].Pos() < a.fns[j].Pos()
	})
	for _, fn := range a.fns {
		for _, b := range fn.Blocks {
			for _, ins := range b.Instrs {
				switch x := ins.(type) {
				case *ssa.MakeClosure:
					if g, ok := x.Fn.(*ssa.Function); ok {
						a.sites[g] = append(a.sites[g], x)
					}
				case *ssa.Store:
					if al, ok := inPlaceBase(x.Addr).(*ssa.Alloc); ok {
						a.allocSt[al] = append(a.allocSt[al], x)
					}
				}
			}
		}
	}

	// ---- summaries to a fixed point
	for iter := 0; iter < 40; iter++ {
		changed := false
		for _, fn := range a.fns {
			for _, b := range fn.Blocks {
				for _, ins := range b.Instrs {
					// fields that hold references loaded from package-level variables
					if st, ok := ins.(*ssa.Store); ok && isPointerLikeValue(st.Val) {
						var keys []string
						v := st.Addr
						for {
							if fa, ok := v.(*ssa.FieldAddr); ok {
								keys = append(keys, fieldKey(a, fa.X, fa.Field))
								v = fa.X
								continue
							}
							if ia, ok := v.(*ssa.IndexAddr); ok {
								if _, isPtr := ia.X.Type().Underlying().(*types.Pointer); isPtr {
									v = ia.X
									continue
								}
							}
							break
						}
						if len(keys) > 0 && !a.skipped(fn) {
							valRoots := a.reach(st.Val)
							for r := range valRoots {
								if i, ok := paramIndex(fn, r); ok {
									for _, k := range keys {
										if k != "" && a.hand(fn, i, "stored into "+k) {
											changed = true
										}
									}
								}
							}
							for _, g := range globalsOf(valRoots) {
								for _, k := range keys {
									if k == "" {
										continue
									}
									if a.sharedFields[k] == nil {
										a.sharedFields[k] = map[*ssa.Global]bool{}
									}
									if !a.sharedFields[k][g] {
										a.sharedFields[k][g] = true
										changed = true
									}
								}
							}
						}
					}
					// results
					if ret, ok := ins.(*ssa.Return); ok {
						for _, r := range ret.Results {
							if !isPointerLikeValue(r) {
								continue
							}
							for root := range a.reach(r) {
								if g, ok := root.(*ssa.Global); ok && strings.HasPrefix(g.Name(), "init$") {
									continue
								}
								if a.returnsShared[fn] == nil {
									a.returnsShared[fn] = rootSet{}
								}
								if !a.returnsShared[fn][root] {
									a.returnsShared[fn][root] = true
									changed = true
								}
							}
						}
					}
					// writes through parameters / free variables
					mark := func(rs rootSet) {
						for r := range rs {
							if i, ok := paramIndex(fn, r); ok {
								if a.writesVia[fn] == nil {
									a.writesVia[fn] = map[int]bool{}
								}
								if !a.writesVia[fn][i] {
									a.writesVia[fn][i] = true
									changed = true
								}
							}
						}
					}
					for _, wt := range writeTargets(ins) {
						if wt.arg {
							mark(a.argReach(wt.v))
						} else {
							mark(a.reach(wt.v))
						}
					}
					if ci, ok := ins.(ssa.CallInstruction); ok {
						com := ci.Common()
						callee := static(com)
						hand := func(v ssa.Value, desc string) {
							if v == nil || !isPointerLikeValue(v) {
								return
							}
							rs := a.argReach(v)
							for r := range rs {
								if i, ok := paramIndex(fn, r); ok {
									if a.hand(fn, i, desc) {
										changed = true
									}
								}
							}
							// a callee that keeps its argument in a field: the field now references what the argument reaches
							if k := strings.TrimPrefix(desc, "stored into "); k != desc && !a.skipped(fn) {
								for _, g := range globalsOf(rs) {
									if a.sharedFields[k] == nil {
										a.sharedFields[k] = map[*ssa.Global]bool{}
									}
									if !a.sharedFields[k][g] {
										a.sharedFields[k][g] = true
										changed = true
									}
								}
							}
						}
						if _, isBuiltin := com.Value.(*ssa.Builtin); isBuiltin {
							// handled by writeTargets
						} else if callee != nil && a.isAnalysed(callee) {
							for idx := range a.writesVia[callee] {
								if v := actual(com, callee, idx); v != nil {
									mark(a.argReach(v))
								}
							}
							for idx, descs := range a.handsVia[callee] {
								if v := actual(com, callee, idx); v != nil {
									for d := range descs {
										hand(v, d)
									}
								}
							}
						} else if callee != nil {
							for _, arg := range com.Args {
								hand(arg, "foreign "+callee.String())
							}
						} else {
							if com.IsInvoke() {
								hand(com.Value, "dynamic invoke "+com.Method.Name())
							} else {
								hand(com.Value, "dynamic call")
							}
							for _, arg := range com.Args {
								hand(arg, "dynamic arg")
							}
						}
					}
				}
			}
		}
		if !changed {
			break
		}
		if iter == 39 {
			fmt.Fprintln(os.Stderr, "summaries did not reach a fixed point in 40 rounds")
			os.Exit(2)
		}
	}

	// ---- reports
	var writes, handovers, statefulL []string
	hset := map[string]bool{}
	handover := func(s string) {
		if !hset[s] {
			hset[s] = true
			handovers = append(handovers, s)
		}
	}
	// addrOf: is v the address of (part of) a package-level variable, without a load in between?
	var addrOf func(v ssa.Value, depth int) *ssa.Global
	addrOf = func(v ssa.Value, depth int) *ssa.Global {
		if depth > 10 || v == nil {
			return nil
		}
		switch x := v.(type) {
		case *ssa.Global:
			return x
		case *ssa.FieldAddr:
			return addrOf(x.X, depth+1)
		case *ssa.IndexAddr:
			if _, isPtr := x.X.Type().Underlying().(*types.Pointer); isPtr {
				return addrOf(x.X, depth+1)
			}
			return nil
		case *ssa.ChangeType:
			return addrOf(x.X, depth+1)
		case *ssa.Convert:
			return addrOf(x.X, depth+1)
		case *ssa.MakeInterface:
			return addrOf(x.X, depth+1)
		}
		return nil
	}
	own := func(g *ssa.Global) bool { return g.Pkg != nil && a.analysed[g.Pkg] }
	for _, fn := range a.fns {
		if a.skipped(fn) {
			continue
		}
		name := fn.String()
		underInit := isPkgInit(top(fn))
		exported := fn.Parent() == nil && fn.Object() != nil && fn.Object().Exported()
		for _, b := range fn.Blocks {
			for _, ins := range b.Instrs {
				pos := prog.Fset.Position(ins.Pos())
				where := fmt.Sprintf("%s:%d", strings.TrimPrefix(pos.Filename, dir+"/"), pos.Line)
				// (1) writes
				for _, wt := range writeTargets(ins) {
					var rs rootSet
					if wt.arg {
						rs = a.argReach(wt.v)
					} else {
						rs = a.reach(wt.v)
					}
					for _, g := range globalsOf(rs) {
						if own(g) {
							writes = append(writes, fmt.Sprintf("%s %s %s %s", name, wt.kind, a.globalName(g), where))
						} else {
							writes = append(writes, fmt.Sprintf("%s foreign-global-%s %s %s", name, wt.kind, g.String(), where))
						}
					}
					if underInit {
						for r := range rs {
							if fv, ok := r.(*ssa.FreeVar); ok {
								writes = append(writes, fmt.Sprintf("%s captured-state-%s %s %s", name, wt.kind, fv.Name(), where))
							}
						}
					}
				}
				reportAddr := func(kind string, v ssa.Value, extra string) bool {
					if g := addrOf(v, 0); g != nil && own(g) {
						writes = append(writes, fmt.Sprintf("%s %s %s %s%s", name, kind, a.globalName(g), where, extra))
						return true
					}
					return false
				}
				// a reference (not the bare address) into package-level state handed on
				shared := func(v ssa.Value) []*ssa.Global {
					if v == nil || !isPointerLikeValue(v) || addrOf(v, 0) != nil {
						return nil
					}
					var out []*ssa.Global
					for _, g := range globalsOf(a.argReach(v)) {
						if own(g) {
							out = append(out, g)
						}
					}
					return out
				}
				switch x := ins.(type) {
				case *ssa.Store:
					if !reportAddr("address-stored", x.Val, "") {
						base := inPlaceBase(x.Addr)
						if al, ok := base.(*ssa.Alloc); !ok || al.Heap {
							dest := "memory of " + a.typeString(x.Addr.Type())
							if fa, ok := x.Addr.(*ssa.FieldAddr); ok {
								dest = fieldKey(a, fa.X, fa.Field)
							} else if ia, ok := x.Addr.(*ssa.IndexAddr); ok {
								dest = "element of " + a.typeString(ia.X.Type())
								if fa, ok := inPlaceBaseField(ia); ok {
									dest = "element of " + fieldKey(a, fa.X, fa.Field)
								}
							}
							for _, g := range shared(x.Val) {
								handover(fmt.Sprintf("stored %s as %s into %s", a.globalName(g), a.typeString(x.Val.Type()), dest))
							}
						}
					}
				case *ssa.MapUpdate:
					for _, g := range shared(x.Value) {
						handover(fmt.Sprintf("stored %s as %s into element of %s", a.globalName(g), a.typeString(x.Value.Type()), a.typeString(x.Map.Type())))
					}
				case *ssa.Return:
					for _, r := range x.Results {
						if !reportAddr("address-returned", r, "") && exported && fn.Synthetic == "" {
							for _, g := range shared(r) {
								handover(fmt.Sprintf("returned %s %s", strings.TrimPrefix(name, a.modPath+"."), a.globalName(g)))
							}
						}
					}
				case *ssa.MakeClosure:
					for _, bnd := range x.Bindings {
						reportAddr("address-captured", bnd, "")
					}
				case *ssa.Send:
					if !reportAddr("address-sent", x.X, "") {
						for _, g := range shared(x.X) {
							handover(fmt.Sprintf("sent %s", a.globalName(g)))
						}
					}
				case ssa.CallInstruction:
					com := x.Common()
					if bi, isBuiltin := com.Value.(*ssa.Builtin); isBuiltin {
						for _, arg := range com.Args {
							reportAddr("address-to-dynamic-call", arg, "")
						}
						if bi.Name() == "append" && len(com.Args) > 1 {
							if sl, ok := com.Args[1].Type().Underlying().(*types.Slice); ok && pointerLike(sl.Elem()) {
								for _, g := range shared(com.Args[1]) {
									handover(fmt.Sprintf("appended %s as %s", a.globalName(g), a.typeString(sl.Elem())))
								}
							}
						}
						break
					}
					callee := static(com)
					switch {
					case callee != nil && a.isAnalysed(callee):
						var idxs []int
						for idx := range a.writesVia[callee] {
							idxs = append(idxs, idx)
						}
						sort.Ints(idxs)
						for _, idx := range idxs {
							v := actual(com, callee, idx)
							if v == nil {
								continue
							}
							rs := a.argReach(v)
							for _, g := range globalsOf(rs) {
								if own(g) {
									writes = append(writes, fmt.Sprintf("%s call-stores-through-arg %s %s->%s", name, a.globalName(g), where, callee.Name()))
								} else {
									writes = append(writes, fmt.Sprintf("%s foreign-global-call-stores-through-arg %s %s->%s", name, g.String(), where, callee.Name()))
								}
							}
							if underInit {
								for r := range rs {
									if fv, ok := r.(*ssa.FreeVar); ok {
										writes = append(writes, fmt.Sprintf("%s captured-state-call-stores-through-arg %s %s->%s", name, fv.Name(), where, callee.Name()))
									}
								}
							}
						}
						for idx, descs := range a.handsVia[callee] {
							v := actual(com, callee, idx)
							for _, g := range shared(v) {
								for d := range descs {
									handover(fmt.Sprintf("%s <- %s (through %s)", d, a.globalName(g), callee.Name()))
								}
							}
						}
					case callee != nil:
						if denied(callee) {
							writes = append(writes, fmt.Sprintf("%s foreign-setter %s %s", name, callee.String(), where))
						}
						for _, arg := range com.Args {
							if !reportAddr("address-to-foreign-call", arg, "->"+callee.String()) {
								for _, g := range shared(arg) {
									handover(fmt.Sprintf("foreign %s <- %s", callee.String(), a.globalName(g)))
								}
							}
						}
					default:
						for _, arg := range com.Args {
							if !reportAddr("address-to-dynamic-call", arg, "") {
								for _, g := range shared(arg) {
									handover(fmt.Sprintf("dynamic arg <- %s", a.globalName(g)))
								}
							}
						}
						if com.IsInvoke() {
							if !reportAddr("address-to-dynamic-call", com.Value, "") {
								for _, g := range shared(com.Value) {
									handover(fmt.Sprintf("dynamic invoke %s <- %s", com.Method.Name(), a.globalName(g)))
								}
							}
						} else {
							for _, g := range shared(com.Value) {
								handover(fmt.Sprintf("dynamic call <- %s", a.globalName(g)))
							}
						}
					}
				}
			}
		}
	}

	// ---- package-level variables, their types, and state held by their types
	type gl struct{ name, typ string }
	var globals []gl
	var ssaGlobals []*ssa.Global
	for sp := range a.analysed {
		for _, m := range sp.Members {
			if g, ok := m.(*ssa.Global); ok && !strings.HasPrefix(g.Name(), "init$") {
				ssaGlobals = append(ssaGlobals, g)
			}
		}
	}
	sort.Slice(ssaGlobals, func(i, j int) bool { return a.globalName(ssaGlobals[i]) < a.globalName(ssaGlobals[j]) })
	// strict: own types only, sync.* / sync/atomic.* / channels (as before, without the depth cut)
	var strict func(t types.Type, seen map[types.Type]bool) string
	strict = func(t types.Type, seen map[types.Type]bool) string {
		if t == nil || seen[t] {
			return ""
		}
		seen[t] = true
		switch x := t.(type) {
		case *types.Alias:
			return strict(types.Unalias(x), seen)
		case *types.Named:
			if o := x.Obj(); o != nil && o.Pkg() != nil && (o.Pkg().Path() == "sync" || o.Pkg().Path() == "sync/atomic") {
				return o.Pkg().Path() + "." + o.Name()
			}
			if o := x.Obj(); o == nil || o.Pkg() == nil || !a.analysed[prog.Package(o.Pkg())] {
				return ""
			}
			return strict(x.Underlying(), seen)
		case *types.Pointer:
			return strict(x.Elem(), seen)
		case *types.Slice:
			return strict(x.Elem(), seen)
		case *types.Array:
			return strict(x.Elem(), seen)
		case *types.Map:
			if r := strict(x.Key(), seen); r != "" {
				return r
			}
			return strict(x.Elem(), seen)
		case *types.Chan:
			return "chan"
		case *types.Struct:
			for i := 0; i < x.NumFields(); i++ {
				if r := strict(x.Field(i).Type(), seen); r != "" {
					return r
				}
			}
		}
		return ""
	}
	// loose: looks into the types of other packages too; function and interface types are state of unknown kind
	var loose func(t types.Type, seen map[types.Type]bool) string
	loose = func(t types.Type, seen map[types.Type]bool) string {
		if t == nil || seen[t] {
			return ""
		}
		seen[t] = true
		switch x := t.(type) {
		case *types.Alias:
			return loose(types.Unalias(x), seen)
		case *types.Named:
			if o := x.Obj(); o != nil && o.Pkg() != nil && (o.Pkg().Path() == "sync" || o.Pkg().Path() == "sync/atomic") {
				return o.Pkg().Path() + "." + o.Name()
			}
			if r := loose(x.Underlying(), seen); r != "" {
				if o := x.Obj(); o != nil && o.Pkg() != nil && !a.analysed[prog.Package(o.Pkg())] && !strings.Contains(r, " in ") {
					return r + " in " + o.Pkg().Path() + "." + o.Name()
				}
				return r
			}
		case *types.Pointer:
			return loose(x.Elem(), seen)
		case *types.Slice:
			return loose(x.Elem(), seen)
		case *types.Array:
			return loose(x.Elem(), seen)
		case *types.Map:
			if r := loose(x.Key(), seen); r != "" {
				return r
			}
			return loose(x.Elem(), seen)
		case *types.Chan:
			return "chan"
		case *types.Signature:
			return "func"
		case *types.Interface:
			return "interface"
		case *types.Struct:
			for i := 0; i < x.NumFields(); i++ {
				if r := loose(x.Field(i).Type(), seen); r != "" {
					return r
				}
			}
		}
		return ""
	}
	for _, g := range ssaGlobals {
		t := g.Type().(*types.Pointer).Elem()
		globals = append(globals, gl{a.globalName(g), a.typeString(t)})
		if r := strict(t, map[types.Type]bool{}); r != "" {
			writes = append(writes, fmt.Sprintf("%s stateful-type %s %s", "package", a.globalName(g), r))
		} else if r := loose(t, map[types.Type]bool{}); r != "" {
			statefulL = append(statefulL, fmt.Sprintf("%s: %s", a.globalName(g), r))
		}
	}

	// ---- files of the root directory excluded by build constraints
	var ignored []string
	for _, f := range root.IgnoredFiles {
		b := filepath.Base(f)
		if strings.HasSuffix(b, ".go") && !strings.HasSuffix(b, "_test.go") {
			ignored = append(ignored, b)
		}
	}
	sort.Strings(ignored)

	sort.Strings(writes)
	writes = uniq(writes)
	sort.Strings(handovers)
	sort.Strings(statefulL)
	for _, g := range globals {
		fmt.Printf("global %s\t%s\n", g.name, g.typ)
	}
	for _, p := range internal {
		fmt.Println("internal", a.relPkg(p.PkgPath))
	}
	for _, f := range ignored {
		fmt.Println("ignored", f)
	}
	for _, l := range writes {
		fmt.Println("write", l)
	}
	for _, l := range handovers {
		fmt.Println("handover", l)
	}
	for _, l := range statefulL {
		fmt.Println("stateful", l)
	}
}

func inPlaceBaseField(ia *ssa.IndexAddr) (*ssa.FieldAddr, bool) {
	var v ssa.Value = ia
	for {
		switch x := v.(type) {
		case *ssa.FieldAddr:
			return x, true
		case *ssa.IndexAddr:
			if _, isPtr := x.X.Type().Underlying().(*types.Pointer); isPtr {
				v = x.X
				continue
			}
		}
		return nil, false
	}
}

func uniq(s []string) []string {
	var out []string
	for i, x := range s {
		if i == 0 || x != s[i-1] {
			out = append(out, x)
		}
	}
	return out
}
