module verif/tools/globals

go 1.22.0

toolchain go1.23.5

require golang.org/x/tools v0.29.0

require (
	golang.org/x/mod v0.22.0 // indirect
	golang.org/x/sync v0.10.0 // indirect
)
