/-! Spike: bufio.Scanner + newScanner split function, chunk independence -/

inductive Split where
  | more
  | stop
  | tok (adv : Nat) (t : List UInt8)
deriving Repr, DecidableEq

def isEOL (b : UInt8) : Bool := b == 10 || b == 13

def breakEOL : List UInt8 → List UInt8 × List UInt8
  | [] => ([], [])
  | b :: bs => if isEOL b then ([], b :: bs) else
      let r := breakEOL bs; (b :: r.1, r.2)

def splitLine (fixed : Bool) (data : List UInt8) (atEOF : Bool) : Split :=
  if atEOF && data.isEmpty then .stop else
  match breakEOL data with
  | (_, []) => if atEOF then .tok data.length data else .more
  | (p, b :: r) =>
    if b == 10 then .tok (p.length + 1) p else
    match r with
    | [] => if fixed && !atEOF then .more else .tok (p.length + 1) p
    | c :: _ => if c == 10 then .tok (p.length + 2) p else .tok (p.length + 1) p

theorem splitLine_tok_ne_nil {f d e adv t} (h : splitLine f d e = .tok adv t) : d ≠ [] := by
  intro hd; subst hd
  cases e <;> simp [splitLine, breakEOL] at h

def scan (fixed : Bool) (pending : List UInt8) (chunks : List (List UInt8)) : List (List UInt8) :=
  match h : splitLine fixed pending chunks.isEmpty with
  | .stop => []
  | .tok adv t => if hadv : adv = 0 then [] else t :: scan fixed (pending.drop adv) chunks
  | .more => match chunks with
    | [] => []
    | c :: cs => scan fixed (pending ++ c) cs
termination_by (chunks.length, pending.length)
decreasing_by
  · have := splitLine_tok_ne_nil h
    apply Prod.Lex.right
    cases pending with
    | nil => contradiction
    | cons a as => simp; omega
  · apply Prod.Lex.left; simp

#eval scan true [] [[104,105,13],[10,120]]
#eval scan false [] [[104,105,13],[10,120]]
#eval scan true [104,105,13,10,120] []

theorem breakEOL_cons_append {p a b r} (x : List UInt8) (h : breakEOL p = (a, b :: r)) :
    breakEOL (p ++ x) = (a, b :: r ++ x) := by
  induction p generalizing a with
  | nil => simp [breakEOL] at h
  | cons c cs ih =>
    simp only [breakEOL] at h ⊢
    simp only [List.cons_append, breakEOL]
    split
    · rename_i hc; simp [hc] at h; obtain ⟨rfl, rfl, rfl⟩ := h; simp
    · rename_i hc; simp [hc] at h
      obtain ⟨rfl, h2⟩ := h
      have := ih (a := (breakEOL cs).1) (by rw [← h2])
      simp [this]

theorem breakEOL_len {p a r} (h : breakEOL p = (a, r)) : a.length + r.length = p.length := by
  induction p generalizing a r with
  | nil => simp [breakEOL] at h; obtain ⟨rfl, rfl⟩ := h; rfl
  | cons c cs ih =>
    simp only [breakEOL] at h
    split at h
    · simp at h; obtain ⟨rfl, rfl⟩ := h; simp
    · simp at h; obtain ⟨rfl, rfl⟩ := h
      have := ih (a := (breakEOL cs).1) (r := (breakEOL cs).2) rfl
      simp; omega

/-- a token found before EOF stays the same token when more data is appended, whatever the EOF flag -/
theorem splitLine_tok_stable {p adv t} (h : splitLine true p false = .tok adv t) (x : List UInt8) (e : Bool) :
    splitLine true (p ++ x) e = .tok adv t ∧ adv ≤ p.length := by
  have hne := splitLine_tok_ne_nil h
  unfold splitLine at h ⊢
  have hemp : (e && (p ++ x).isEmpty) = false := by
    cases p with
    | nil => contradiction
    | cons => simp
  simp only [Bool.false_and, Bool.false_eq_true, ↓reduceIte] at h
  rw [hemp]; simp only [Bool.false_eq_true, ↓reduceIte]
  rcases hb : breakEOL p with ⟨a, r⟩
  rw [hb] at h
  cases r with
  | nil => simp at h
  | cons b r =>
    have hlen := breakEOL_len hb
    rw [breakEOL_cons_append x hb]
    simp only [List.cons_append] at h ⊢
    split at h
    · rename_i hb10; simp [hb10] at h ⊢; obtain ⟨rfl, rfl⟩ := h; simp at hlen ⊢; omega
    · rename_i hb10
      rw [if_neg hb10]
      cases r with
      | nil => simp at h
      | cons c r' =>
        simp only [List.cons_append] at h ⊢
        split at h <;> rename_i hc <;> simp [hc] at h ⊢ <;> obtain ⟨rfl, rfl⟩ := h <;> simp at hlen ⊢ <;> omega

theorem splitLine_eof_ne_more (p : List UInt8) : splitLine true p true ≠ .more := by
  unfold splitLine
  split
  · simp
  · rcases hb : breakEOL p with ⟨a, r⟩
    cases r with
    | nil => simp
    | cons b r =>
      simp only
      split
      · simp
      · cases r with
        | nil => simp
        | cons c r' => simp only; split <;> simp

theorem splitLine_noeof_ne_stop (p : List UInt8) : splitLine true p false ≠ .stop := by
  unfold splitLine
  simp only [Bool.false_and, Bool.false_eq_true, ↓reduceIte]
  rcases hb : breakEOL p with ⟨a, r⟩
  cases r with
  | nil => simp
  | cons b r =>
    simp only
    split
    · simp
    · cases r with
      | nil => simp
      | cons c r' => simp only; split <;> simp


theorem scan_tok {f p cs adv t} (h : splitLine f p cs.isEmpty = .tok adv t) (h0 : adv ≠ 0) :
    scan f p cs = t :: scan f (p.drop adv) cs := by
  rw [scan]; split <;> rename_i h' <;> rw [h] at h' <;> cases h'
  simp [h0]

theorem scan_more {f p c cs} (h : splitLine f p false = .more) :
    scan f p (c :: cs) = scan f (p ++ c) cs := by
  rw [scan]; split <;> rename_i h' <;> simp at h' <;> rw [h] at h' <;> cases h'

theorem tok_adv_pos {f p e adv t} (h : splitLine f p e = .tok adv t) : adv ≠ 0 := by
  have hne := splitLine_tok_ne_nil h
  unfold splitLine at h
  split at h
  · cases h
  · rcases hb : breakEOL p with ⟨a, r⟩
    rw [hb] at h
    cases r with
    | nil =>
      simp only at h
      split at h
      · cases h; cases p <;> simp_all
      · cases h
    | cons b r =>
      simp only at h
      split at h
      · cases h; omega
      · cases r with
        | nil => simp only at h; split at h <;> cases h; omega
        | cons c r' => simp only at h; split at h <;> cases h <;> omega

/-- C17 core: the token sequence is independent of the delivery schedule -/
theorem scan_chunk_independent (p : List UInt8) (cs : List (List UInt8)) :
    scan true p cs = scan true (p ++ cs.flatten) [] := by
  induction cs generalizing p with
  | nil => simp
  | cons c cs ih =>
    induction hn : p.length using Nat.strongRecOn generalizing p with
    | _ n ihn =>
      cases hs : splitLine true p false with
      | stop => exact absurd hs (splitLine_noeof_ne_stop p)
      | more => rw [scan_more hs, ih (p ++ c)]; simp
      | tok adv t =>
        have ⟨hst, hle⟩ := splitLine_tok_stable hs (c :: cs).flatten true
        have hne := splitLine_tok_ne_nil hs
        have h0 := tok_adv_pos hs
        rw [scan_tok (cs := c :: cs) (by simpa using hs) h0, scan_tok (cs := []) (by simpa using hst) h0]
        congr 1
        rw [List.drop_append_of_le_length hle]
        apply ihn (p.drop adv).length _ _ rfl
        subst hn
        cases p with
        | nil => contradiction
        | cons => simp; omega

#print axioms scan_chunk_independent
