/-! Spike: own itoa/atoi/split with round-trip lemmas over List Char -/

def digitChar (n : Nat) : Char := Char.ofNat (48 + n)

def itoaAux : Nat → Nat → List Char → List Char
  | 0, _, acc => acc
  | fuel+1, n, acc => if n < 10 then digitChar n :: acc else itoaAux fuel (n / 10) (digitChar (n % 10) :: acc)

/-- strconv.Itoa for naturals -/
def itoa (n : Nat) : List Char := itoaAux (n + 1) n []

def digitVal (c : Char) : Option Nat :=
  if '0' ≤ c ∧ c ≤ '9' then some (c.toNat - 48) else none

/-- strconv.Atoi on unsigned digit strings (no sign handling in the spike) -/
def atoiAux : List Char → Nat → Option Nat
  | [], acc => some acc
  | c :: cs, acc => match digitVal c with
    | some d => atoiAux cs (acc * 10 + d)
    | none => none

def atoi (s : List Char) : Option Nat := if s = [] then none else atoiAux s 0

theorem digitVal_digitChar {n : Nat} (h : n < 10) : digitVal (digitChar n) = some n := by
  have : n = 0 ∨ n = 1 ∨ n = 2 ∨ n = 3 ∨ n = 4 ∨ n = 5 ∨ n = 6 ∨ n = 7 ∨ n = 8 ∨ n = 9 := by omega
  rcases this with h|h|h|h|h|h|h|h|h|h <;> subst h <;> decide

theorem atoiAux_append (a b : List Char) (acc : Nat) :
    atoiAux (a ++ b) acc = (atoiAux a acc).bind (atoiAux b) := by
  induction a generalizing acc with
  | nil => simp [atoiAux]
  | cons c cs ih =>
    simp only [List.cons_append, atoiAux]
    cases digitVal c with
    | none => simp
    | some d => simp [ih]

/-- value of itoaAux with an accumulator that already reads as `v` over `k` digits -/
theorem atoiAux_itoaAux (fuel n : Nat) (acc : List Char) (hf : n < fuel) (a0 : Nat) :
    atoiAux (itoaAux fuel n acc) a0 = (atoiAux (itoaAux fuel n []) a0).bind (atoiAux acc) := by
  induction fuel generalizing n acc with
  | zero => omega
  | succ f ih =>
    simp only [itoaAux]
    split
    · simp [atoiAux]
      rename_i h
      simp [digitVal_digitChar h]
    · rename_i h
      have hlt : n / 10 < f := by omega
      rw [ih (n / 10) _ hlt, ih (n / 10) [digitChar (n % 10)] hlt]
      cases atoiAux (itoaAux f (n / 10) []) a0 with
      | none => simp
      | some v =>
        simp [atoiAux, digitVal_digitChar (Nat.mod_lt n (by decide : 10 > 0))]

theorem atoiAux_itoa_nil (fuel n : Nat) (hf : n < fuel) (a0 : Nat) (h0 : a0 = 0) :
    atoiAux (itoaAux fuel n []) a0 = some n := by
  induction fuel generalizing n with
  | zero => omega
  | succ f ih =>
    simp only [itoaAux]
    split
    · rename_i h; simp [atoiAux, digitVal_digitChar h, h0]
    · rename_i h
      have hlt : n / 10 < f := by omega
      rw [atoiAux_itoaAux f (n/10) _ hlt, ih (n / 10) hlt]
      simp [atoiAux, digitVal_digitChar (Nat.mod_lt n (by decide : 10 > 0))]
      omega

theorem itoaAux_ne_nil (fuel n : Nat) (acc) (hf : n < fuel) : itoaAux fuel n acc ≠ [] := by
  induction fuel generalizing n acc with
  | zero => omega
  | succ f ih =>
    simp only [itoaAux]; split
    · simp
    · exact ih _ _ (by omega)

theorem atoi_itoa (n : Nat) : atoi (itoa n) = some n := by
  unfold atoi itoa
  rw [if_neg (itoaAux_ne_nil _ _ _ (by omega))]
  exact atoiAux_itoa_nil _ _ (by omega) 0 rfl

/-- no digit string contains ':' — what makes splitting "hh:mm:ss" work -/
theorem itoa_digits (n : Nat) : ∀ c ∈ itoa n, (digitVal c).isSome := by
  unfold itoa
  suffices h : ∀ fuel n acc, n < fuel → (∀ c ∈ acc, (digitVal c).isSome) →
      ∀ c ∈ itoaAux fuel n acc, (digitVal c).isSome from h _ _ [] (by omega) (by simp)
  intro fuel
  induction fuel with
  | zero => intro n acc h; omega
  | succ f ih =>
    intro n acc hf hacc
    simp only [itoaAux]; split
    · rename_i h; intro c hc
      simp at hc; rcases hc with rfl | hc
      · simp [digitVal_digitChar h]
      · exact hacc c hc
    · apply ih _ _ (by omega)
      intro c hc; simp at hc; rcases hc with rfl | hc
      · simp [digitVal_digitChar (Nat.mod_lt n (by decide : 10 > 0))]
      · exact hacc c hc

#eval itoa 1234567
#eval atoi (itoa 90)
#print axioms atoi_itoa
#print axioms itoa_digits
