import Astisub.Driver.TTML
import Astisub.Driver.STL
import Astisub.Driver.Teletext
open Astisub Astisub.Driver Astisub.Proto Astisub.Driver.TTMLD

partial def loop (h : IO.FS.Stream) (tot judged cues : Nat) : IO (Nat × Nat × Nat) := do
  let line ← h.getLine
  if line.isEmpty then return (tot, judged, cues)
  let parts := line.trimAscii.toString.splitOn " | "
  let lhs := parts.headD ""
  let impl := ((parts.drop 1).headD "").splitOn " "
  match lhs.splitOn " " with
  | ["ttml.read", _] =>
    match pViews impl with
    | some v =>
      if v.toksOk && !ttmlOutside v.toks then
        match Spec.TTML.decode (specToks v.toks) with
        | some d => loop h (tot+1) (judged+1) (cues + (if d.cues.isEmpty then 0 else 1))
        | none => loop h (tot+1) judged cues
      else loop h (tot+1) judged cues
    | none => loop h (tot+1) judged cues
  | _ => loop h tot judged cues

def main : IO Unit := do
  let (t, j, c) ← loop (← IO.getStdin) 0 0 0
  IO.println s!"cases={t} spec-decodes={j} with-cues={c}"
