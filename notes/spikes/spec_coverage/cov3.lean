import Astisub.Driver.STL
open Astisub Astisub.Driver Astisub.Proto Astisub.Driver.STLD

partial def loop (h : IO.FS.Stream) (tot judged cues : Nat) : IO (Nat × Nat × Nat) := do
  let line ← h.getLine
  if line.isEmpty then return (tot, judged, cues)
  let parts := line.trimAscii.toString.splitOn " | "
  match (parts.headD "").splitOn " " with
  | ["stl.read", ig, doc] =>
    match decBytes doc with
    | some d =>
      match Spec.STL.decode (ig == "1") (toNats d) with
      | some g => loop h (tot+1) (judged+1) (cues + (if g.cues.isEmpty then 0 else 1))
      | none => loop h (tot+1) judged cues
    | none => loop h (tot+1) judged cues
  | _ => loop h tot judged cues

def main : IO Unit := do
  let (t, j, c) ← loop (← IO.getStdin) 0 0 0
  IO.println s!"cases={t} spec-decodes={j} with-cues={c}"
