import Astisub.Driver.SRT
import Astisub.Driver.VTT
import Astisub.Driver.SSA
import Astisub.Driver.STL
open Astisub Astisub.Driver Astisub.Proto

partial def loop (h : IO.FS.Stream) (tot judged cues : Nat) : IO (Nat × Nat × Nat) := do
  let line ← h.getLine
  if line.isEmpty then return (tot, judged, cues)
  let lhs := (line.splitOn " | ").headD ""
  match lhs.trimAscii.toString.splitOn " " with
  | ["srt.read", doc] =>
    match decBytes doc with
    | some d => match decodeLine d with
      | some t => match Spec.SRT.decode t with
        | some c => loop h (tot+1) (judged+1) (cues + (if c.isEmpty then 0 else 1))
        | none => loop h (tot+1) judged cues
      | none => loop h (tot+1) judged cues
    | none => loop h (tot+1) judged cues
  | ["vtt.read", doc] =>
    match decBytes doc with
    | some d => match decodeLine d with
      | some t => match Spec.VTT.decode t with
        | some c => loop h (tot+1) (judged+1) (cues + (if c.cues.isEmpty then 0 else 1))
        | none => loop h (tot+1) judged cues
      | none => loop h (tot+1) judged cues
    | none => loop h (tot+1) judged cues
  | ["ssa.read", doc] =>
    match decBytes doc with
    | some d => match decodeLine d with
      | some t => match Spec.SSA.decode t with
        | some c => loop h (tot+1) (judged+1) (cues + (if c.events.isEmpty then 0 else 1))
        | none => loop h (tot+1) judged cues
      | none => loop h (tot+1) judged cues
    | none => loop h (tot+1) judged cues
  | _ => loop h tot judged cues

def main : IO Unit := do
  let (t, j, c) ← loop (← IO.getStdin) 0 0 0
  IO.println s!"cases={t} spec-decodes={j} with-cues={c}"
