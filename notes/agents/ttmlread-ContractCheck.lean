import Astisub.Lemmas.TTMLRead2Defs
open Astisub Astisub.Driver Astisub.Proto Astisub.TTMLR

partial def loop (h : IO.FS.Stream) (n tot dec cls con bad : Nat) : IO Unit := do
  let line ← h.getLine
  if line.isEmpty then
    IO.println s!"lines={n} parsed={tot} decoded={dec} decoded&inClass={cls} decoded&inClass&contract={con} contractFails={bad}"
    return
  let toks := (line.trimAscii.toString.splitOn " ")
  let (_, impl) := splitBar toks
  match TTMLD.pViews impl with
  | none => loop h (n+1) tot dec cls con bad
  | some v =>
    if !v.toksOk then loop h (n+1) (tot+1) dec cls con bad else
    match Spec.TTML.decode (TTMLD.specToks v.toks) with
    | none => loop h (n+1) (tot+1) dec cls con bad
    | some _ =>
      if !InClass v.toks then loop h (n+1) (tot+1) (dec+1) cls con bad else
      if contractOk v.toks v.tin then loop h (n+1) (tot+1) (dec+1) (cls+1) (con+1) bad
      else do
        IO.println s!"CONTRACT FAILS at line {n+1}"
        loop h (n+1) (tot+1) (dec+1) (cls+1) con (bad+1)

def main : IO Unit := do
  let stdin ← IO.getStdin
  loop stdin 0 0 0 0 0 0
