import Astisub.Driver.TTML
import Astisub.Lemmas.TTMLDocXml
open Astisub Astisub.Driver Astisub.Proto Astisub.Driver.TTMLD Astisub.TTML

/-- compare the contract with the TTMLIn view the harness obtained from encoding/xml -/
def sameSub (a b : InSub) : Bool :=
  a.begins == b.begins && a.ends == b.ends && a.id == b.id && a.region == b.region && a.style == b.style &&
  a.attrs == b.attrs && a.toks == b.toks && a.toksOk == b.toksOk
def sameDef (a b : InDef) : Bool := a.id == b.id && a.style == b.style && a.attrs == b.attrs
def listAll2 {α} (f : α → α → Bool) : List α → List α → Bool
  | [], [] => true
  | a :: as, b :: bs => f a b && listAll2 f as bs
  | _, _ => false
def sameTIn (a b : TIn) : Bool :=
  a.framerate == b.framerate && a.tickrate == b.tickrate && a.lang == b.lang && a.title == b.title && a.copyright == b.copyright &&
  listAll2 sameDef a.regions b.regions && listAll2 sameDef a.styles b.styles && listAll2 sameSub a.subs b.subs

/-- 0 = agree, 1 = differ, 2 = skipped (outside the contract's domain), 3 = unparsable -/
def checkLine (line : String) : Nat :=
  let toks := (line.trimAscii.toString.splitOn " ")
  let (lhs, impl) := splitBar toks
  match lhs with
  | "ttml.write" :: _ind :: stoks =>
    match decSubs stoks with
    | some (s, []) =>
      if s.items.any fun it => it.startAt < 0 || it.endAt < 0 then 2 else
      if !rep s then 2 else
      match TTML.write s, impl with
      | some w, "ok" :: _bytes :: rest =>
        match pViews rest with
        | some v =>
          match v.tin, TTMLDoc.unmarshal (fun _ => []) w with
          | some t, some u => if sameTIn t u then 0 else 1
          | none, none => 0
          | _, _ => 1
        | none => 3
      | none, _ => 2
      | _, _ => 3
    | _ => 3
  | _ => 3

partial def loop (h : IO.FS.Stream) (c : Array Nat) (n : Nat) : IO (Array Nat) := do
  let line ← h.getLine
  if line.isEmpty then return c
  let r := checkLine line
  if r == 1 && c[1]! < 5 then IO.println s!"DIFF line {n+1}"
  loop h (c.modify r (· + 1)) (n + 1)

def main : IO UInt32 := do
  let stdin ← IO.getStdin
  let c ← loop stdin #[0,0,0,0] 0
  IO.println s!"agree={c[0]!} differ={c[1]!} skipped={c[2]!} unparsable={c[3]!}"
  return 0
