#!/usr/bin/env python3
# store_round.py PID K NAME  (source dir pattern /tmp/mut/<PID>r8-out/<K>: adjust the round suffix) "<seedtest output line>" ["history"]
import json,sys,re,shutil,os
P,K,N,out=sys.argv[1:5]
hist=sys.argv[5] if len(sys.argv)>5 else ""
D=f"/tmp/mut/{P}r8-out/{K}"
dst=f"/verif/seeded/{N}"
os.makedirs(dst,exist_ok=True)
shutil.copy(D+"/patch.diff",dst); shutil.copy(D+"/demo_test.go",dst)
m=json.load(open(D+"/meta.json"))
caught=re.findall(r'(C\d+):CAUGHT\(([^)]*)\)',out)
missed=re.findall(r'(C\d+):missed',out)
m['property']=P
m['confirmed']={
 "ran": f"bin/seedtest {P} seeded/{N} (git apply; go build; go test -count=1 ./... passes; demo fails with the change and passes without; bin/check quick; git checkout -- .)",
 "suite_passes_with_change": "suite_ok=1" in out,
 "demo_fails_with_change": "demo_fails_with_change=0" not in out,
 "demo_passes_without_change": "base=[ok" in out,
 "caught_by": [f"bin/check {c} quick ({r})" for c,r in caught],
 "missed_by": missed,
}
if hist: m['confirmed']['history']=hist
m['round']=8
json.dump(m,open(dst+"/meta.json",'w'),indent=1,ensure_ascii=False)
print("stored",N,caught,missed)
