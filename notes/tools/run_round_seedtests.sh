#!/bin/bash
for p in C03 C05 C06 C07 C08 C13 C16 C17 C18 C19; do
  for k in 1 2; do
    d=/tmp/mut/${p}r8-out/$k
    [ -f $d/patch.diff ] || { echo "seed $p $k: no patch"; continue; }
    /verif/bin/seedtest $p $d 2>&1 | tail -1
  done
done
echo ALLDONE
