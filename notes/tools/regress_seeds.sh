#!/bin/bash
cd /verif
for d in $(ls seeded | sort); do
  P=${d%%-*}
  /verif/bin/seedtest $P /verif/seeded/$d 2>&1 | sed 's/base=.*demo_fails/demo_fails/'
done
