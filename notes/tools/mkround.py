import json,subprocess,os,glob,sys
tag_suffix=sys.argv[1]; lo=int(sys.argv[2]); hi=int(sys.argv[3])
for n in range(lo,hi+1):
    pid=f'C{n:02d}'
    base=open(f'/tmp/mut/{pid}.prompt.txt').read()
    tried=[]
    for d in sorted(glob.glob(f'/verif/seeded/{pid}-*')):
        m=json.load(open(d+'/meta.json'))
        tried.append('- '+m['summary'][:400])
    tag=pid+tag_suffix
    s=base.replace(f'/tmp/mut/{pid}-out',f'/tmp/mut/{tag}-out').replace(f'/tmp/mut/{pid}-scratch',f'/tmp/mut/{tag}-scratch').replace(f'/tmp/mut/{pid} ',f'/tmp/mut/{tag} ')
    marker='\nTask: produce TWO different'
    assert marker in s
    extra="\nAlready tried by others for this property (produce changes of a DIFFERENT kind, touching other mechanisms or clauses of the statement — e.g. other fields, other syntactic variants, other operations / parameters / options, rarely used public API and option structs (OpenFile / Open options, STLOptions, TeletextOptions, SSAOptions, WriteToTTML options, Item.String, Color, Justification, Metadata fields, the propagate*Attributes functions), unusual but legal metadata and attribute combinations, Unicode corner cases, numeric formatting of attributes (floats, percentages, colours), interactions between two features or two formats, error paths that return a wrong but non-nil result):\n"+"\n".join(tried)+"\n\nIMPORTANT: never use `git stash` (the stash is shared between worktrees of one repository and other agents work in sibling worktrees); to test without your change use `git diff > /tmp/mut/"+tag+"-scratch/my.diff && git checkout -- .` and `git apply` it back.\n\n"
    s=s.replace(marker,extra+marker.lstrip('\n'),1)
    open(f'/tmp/mut/{tag}.prompt.txt','w').write(s)
    os.makedirs(f'/tmp/mut/{tag}-out/1',exist_ok=True); os.makedirs(f'/tmp/mut/{tag}-out/2',exist_ok=True); os.makedirs(f'/tmp/mut/{tag}-scratch',exist_ok=True)
    r=subprocess.run(['git','-C','/repo','worktree','add','--detach',f'/tmp/mut/{tag}','HEAD'],capture_output=True,text=True)
    print(pid,r.returncode,len(tried))
