#!/bin/bash
cd /verif
for n in 01 02 03 04 05 06 07 08 09 10 11 12 13 14 15 16 17 18 19 20; do
  P=C$n
  nums=$(ls -d seeded/$P-* | sed "s#seeded/$P-##" | grep -E '^[0-9]+$' | sort -n | head -n -4)
  extra=$(ls -d seeded/$P-* | sed "s#seeded/$P-##" | grep -vE '^[0-9]+$')
  for k in $nums $extra; do
    /verif/bin/seedtest $P /verif/seeded/$P-$k 2>&1 | tail -1 | sed 's/base=.*demo_fails/demo_fails/' | cut -c1-200
  done
done
