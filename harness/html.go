package main

import (
	"sort"
	"strings"

	"golang.org/x/net/html"
)

var htmlPieces = []string{
	"hello", " ", "world", "a < b", "x>y", "&amp;", "&", "&lt;", "&nbsp;", "é☃", "1", " ", "-->", "{\\an8}",
	"<b>", "</b>", "<i>", "</i>", "<u>", "</u>", "<B>", "</I >", "<font color=\"#ff0000\">", "<font color='red'>", "<font color=blue>", "</font>",
	"<font  size = 3 color = \"#00ff00\" >", "<font color>", "<font color=>", "<FONT COLOR=\"#ABCDEF\">",
	"<c.red.big>", "</c>", "<c>", "<v Bob>", "<v.loud Mary Ann>", "</v>", "<lang en>", "<ruby>", "<rt>", "<00:00:01.000>", "<01:02:03.456>",
	"<br/>", "<br />", "<b/>", "<a/b>", "<a b/>", "<", "</", "< b>", "<1>", "<>", "</>", "</1>", "</ b>", "<?x>", "<?", "<b", "</b", "<b x=\"1", "<b x='>'>", "<b x=\">\">",
	"<b =x>", "<b / >", "<b\t>", "<i\n>", "<x.y z=w>", "<a.b.c d e>",
}

var htmlOutOfClass = []string{"<!--c-->", "<!DOCTYPE x>", "<!x>", "<script>", "<style>", "<title>", "<textarea>", "<xmp>", "<iframe>", "<plaintext>", "<noscript>", "<font color=\"&amp;\">", "<![CDATA[x]]>"}

func randHTMLLine(r *rng, allowOut bool) string {
	var b strings.Builder
	for n := 1 + r.intn(7); n > 0; n-- {
		if allowOut && r.chance(1, 40) {
			b.WriteString(htmlOutOfClass[r.intn(len(htmlOutOfClass))])
			continue
		}
		b.WriteString(htmlPieces[r.intn(len(htmlPieces))])
	}
	return b.String()
}

func tokenizeGo(s string) string {
	z := html.NewTokenizer(strings.NewReader(s))
	var o []string
	for {
		tt := z.Next()
		if z.Err() != nil {
			break
		}
		raw := string(z.Raw())
		tok := z.Token()
		attrs := func() string {
			var kv []string
			for _, a := range tok.Attr {
				kv = append(kv, encStr(a.Key)+"="+encStr(a.Val))
			}
			if len(kv) == 0 {
				return "-"
			}
			return strings.Join(kv, ",")
		}
		switch tt {
		case html.TextToken:
			o = append(o, "T", encStr(raw))
		case html.StartTagToken:
			o = append(o, "S", encStr(raw), encStr(tok.Data), attrs())
		case html.EndTagToken:
			o = append(o, "E", encStr(raw), encStr(tok.Data))
		case html.SelfClosingTagToken:
			o = append(o, "C", encStr(raw), encStr(tok.Data), attrs())
		default:
			o = append(o, "O", encStr(raw))
		}
	}
	return strings.Join(o, " ")
}

func init() {
	streams["lib.html"] = stream{exec: func(a []string) string { return tokenizeGo(decStr(a[0])) }, gen: func(c *ctx) {
		r := newRng(c.seed, "lib.html")
		all := append(append([]string{}, htmlPieces...), htmlOutOfClass...)
		sort.Strings(all)
		for _, p := range all {
			c.do("lib.html " + encStr(p))
			c.do("lib.html " + encStr("x"+p+"y"))
			c.count("pieces")
		}
		n := 20000
		if c.thorough {
			n = 1000000
		}
		for i := 0; i < n; i++ {
			c.do("lib.html " + encStr(randHTMLLine(r, true)))
			c.count("random")
		}
	}}
}
