package main

import (
	"bytes"
	"errors"
	"fmt"
	"io"
	"io/ioutil"
	"os"
	"path/filepath"
	"reflect"
	"sort"
	"strconv"
	"strings"
	"time"
	"unicode/utf16"

	astisub "github.com/asticode/go-astisub"
)

// errFault is what a failing stream or destination returns. Real streams fail with all kinds of errors, some of them
// sentinels of the standard library (a truncated gzip stream or HTTP body ends in io.ErrUnexpectedEOF, a closed pipe in
// io.ErrClosedPipe …): the injected fault wraps one of them, chosen per case from the case line (execLine), so that a
// reader which takes a particular error identity for a regular end of stream is seen.
type faultError struct{}

func (*faultError) Error() string { return "harness: injected fault" }
func (*faultError) Unwrap() error { return faultDisguise }

var (
	errFault       error = &faultError{}
	faultDisguise  error
	faultDisguises = []error{nil, io.ErrUnexpectedEOF, io.ErrClosedPipe, os.ErrDeadlineExceeded, io.ErrShortBuffer, nil, os.ErrClosed}
)

func setFaultDisguise(line string) {
	h := uint32(2166136261)
	for i := 0; i < len(line); i++ {
		h = (h ^ uint32(line[i])) * 16777619
	}
	faultDisguise = faultDisguises[int(h>>3)%len(faultDisguises)]
}

// schedReader delivers a byte string according to a nominal schedule of chunk sizes (0 = a zero-length read).
// It records the effective schedule (what each Read call actually returned).
type schedReader struct {
	orig    []byte // for Seek(0, io.SeekStart): the teletext reader rewinds after finding the PID
	data    []byte
	sizes   []int // nominal sizes; when exhausted the rest is delivered in one go
	i       int
	end     string // "eof", "fault", "weof" (last bytes together with io.EOF), "wfault"
	limit   int    // fault offset (bytes delivered before the fault), -1 = none
	eff     []int
	done    bool
	pending int // remainder of the current nominal chunk that did not fit
}

// onlyReader hides every method but Read (no Seek, no Len, no WriteTo)
type onlyReader struct{ r io.Reader }

func (o onlyReader) Read(p []byte) (int, error) { return o.r.Read(p) }

// Seek supports rewinding to the start only (what go-astits' Rewind does)
func (r *schedReader) Seek(off int64, whence int) (int64, error) {
	if off != 0 || whence != io.SeekStart || r.orig == nil {
		return 0, errors.New("harness: unsupported seek")
	}
	r.data = append([]byte(nil), r.orig...)
	r.done, r.pending = false, 0
	return 0, nil
}

func (r *schedReader) Read(p []byte) (int, error) {
	if r.done {
		if r.end == "fault" || r.end == "wfault" {
			return 0, errFault
		}
		return 0, io.EOF
	}
	avail := len(r.data)
	if r.limit >= 0 && r.limit < avail {
		avail = r.limit
	}
	if avail == 0 {
		r.done = true
		if r.end == "fault" || r.end == "wfault" {
			return 0, errFault
		}
		return 0, io.EOF
	}
	n := r.pending
	if n == 0 {
		if r.i < len(r.sizes) {
			n = r.sizes[r.i]
			r.i++
			if n == 0 {
				r.eff = append(r.eff, 0)
				return 0, nil
			}
		} else {
			n = avail
		}
	}
	r.pending = 0
	if n > avail {
		n = avail
	}
	if n > len(p) {
		r.pending = n - len(p)
		n = len(p)
	}
	copy(p, r.data[:n])
	r.data = r.data[n:]
	if r.limit >= 0 {
		r.limit -= n
	}
	r.eff = append(r.eff, n)
	rest := len(r.data)
	if r.limit >= 0 && r.limit < rest {
		rest = r.limit
	}
	if rest == 0 && (r.end == "weof" || r.end == "wfault") {
		r.done = true
		if r.end == "wfault" {
			return n, errFault
		}
		return n, io.EOF
	}
	return n, nil
}

func encInts(xs []int) string {
	if len(xs) == 0 {
		return "-"
	}
	var o []string
	for _, x := range xs {
		o = append(o, strconv.Itoa(x))
	}
	return strings.Join(o, ",")
}

func decInts(s string) []int {
	if s == "-" {
		return nil
	}
	var o []int
	for _, f := range strings.Split(s, ",") {
		o = append(o, int(atoi64(f)))
	}
	return o
}

// randSizes builds a nominal schedule for a document of n bytes
func randSizes(r *rng, n int, kind int) []int {
	var o []int
	switch kind {
	case 0: // one byte at a time
		for i := 0; i < n; i++ {
			o = append(o, 1)
		}
	case 1: // random short reads with a few zero-length reads
		for got := 0; got < n; {
			if r.chance(1, 12) {
				for k := r.intn(3) + 1; k > 0; k-- {
					o = append(o, 0)
				}
			}
			s := 1 + r.intn(37)
			o = append(o, s)
			got += s
		}
	case 2: // halves
		for rem := n; rem > 0; {
			s := (rem + 1) / 2
			o = append(o, s)
			rem -= s
		}
	case 3: // 4096-aligned
		for got := 0; got < n; got += 4096 {
			o = append(o, 4096)
		}
	case 4: // a single split point
		o = append(o, r.intn(n+1))
	case 6: // a zero-length read before every read that returns data (hundreds of them over a document, never two in a row)
		step := 20 + r.intn(180)
		for got := 0; got < n; got += step {
			o = append(o, 0, step)
		}
	default: // everything at once
	}
	return o
}

func readWith(format string, rd io.Reader) (s *astisub.Subtitles, err error) {
	defer func() {
		if rec := recover(); rec != nil {
			s, err = nil, fmt.Errorf("PANIC: %v", rec)
		}
	}()
	switch format {
	case "srt":
		return astisub.ReadFromSRT(rd)
	case "vtt":
		return astisub.ReadFromWebVTT(rd)
	case "ssa":
		return astisub.ReadFromSSA(rd)
	case "stl":
		return astisub.ReadFromSTL(rd, astisub.STLOptions{})
	case "ttml":
		return astisub.ReadFromTTML(rd)
	case "ts":
		return astisub.ReadFromTeletext(rd, astisub.TeletextOptions{})
	}
	panic("format " + format)
}

func readTS(rd io.Reader, o astisub.TeletextOptions) (s *astisub.Subtitles, err error) {
	defer func() {
		if rec := recover(); rec != nil {
			s, err = nil, fmt.Errorf("PANIC: %v", rec)
		}
	}()
	return astisub.ReadFromTeletext(rd, o)
}

// tsPIDs: the PIDs (other than 0 and the null PID) of the 188-byte packets of a transport stream, at most 6
func tsPIDs(doc []byte) []int {
	var o []int
	seen := map[int]bool{0: true, 0x1fff: true}
	for i := 0; i+188 <= len(doc) && len(o) < 6; i += 188 {
		if doc[i] != 0x47 {
			continue
		}
		pid := int(doc[i+1]&0x1f)<<8 | int(doc[i+2])
		if !seen[pid] {
			seen[pid] = true
			o = append(o, pid)
		}
	}
	return o
}

func errClass(err error) string {
	if err == nil {
		return "ok"
	}
	if strings.HasPrefix(err.Error(), "PANIC") {
		return "panic"
	}
	if err == errImpure {
		return "impure"
	}
	if err == errNondet {
		return "nondeterministic"
	}
	return "err"
}

// sample documents: the repository's own test data plus line-ending variants
func sampleDocs() map[string][][]byte {
	o := map[string][][]byte{}
	files, _ := filepath.Glob("/repo/testdata/*")
	sort.Strings(files)
	for _, f := range files {
		ext := strings.TrimPrefix(filepath.Ext(f), ".")
		if ext == "ass" {
			ext = "ssa"
		}
		b, err := ioutil.ReadFile(f)
		if err != nil {
			continue
		}
		switch ext {
		case "srt", "vtt", "ssa":
			o[ext] = append(o[ext], b)
			lf := bytes.ReplaceAll(b, []byte("\r\n"), []byte("\n"))
			o[ext] = append(o[ext], bytes.ReplaceAll(lf, []byte("\n"), []byte("\r\n")))
			o[ext] = append(o[ext], bytes.ReplaceAll(lf, []byte("\n"), []byte("\r")))
		case "stl", "ttml":
			o[ext] = append(o[ext], b)
		}
	}
	// characters of two, three and four bytes: a read may end inside any of them
	o["srt"] = append(o["srt"], []byte("1\n00:00:01,000 --> 00:00:02,000\né 日本 😀 x 𝒳\n<i>😀</i>\n\n2\n00:00:03,000 --> 00:00:04,000\n😀😀\n"))
	o["vtt"] = append(o["vtt"], []byte("WEBVTT\n\n00:00:01.000 --> 00:00:02.000\n<v Zoé 😀>é 日本 😀 x 𝒳\n<i>😀</i>\n\nNOTE 😀\n\n00:00:03.000 --> 00:00:04.000\n😀😀\n"))
	o["ssa"] = append(o["ssa"], []byte("[Script Info]\nTitle: 😀 é\n\n[Events]\nFormat: Start, End, Text\nDialogue: 0:00:01.00,0:00:02.00,é 日本 😀 x 𝒳\\N😀\n"))
	// SSA documents of about 3 kB and 9 kB: long enough for the scanner to shift and refill its buffer while values
	// of the first lines are still held
	for _, n := range []int{24, 80} {
		var b bytes.Buffer
		b.WriteString("[Script Info]\n; a comment kept until the end\nTitle: A title that is kept until the end of the parse\nScriptType: v4.00+\nPlayResX: 384\n\n[V4+ Styles]\nFormat: Name, Fontname, Fontsize, PrimaryColour, Bold\n")
		for i := 0; i < 6; i++ {
			fmt.Fprintf(&b, "Style: Speaker %d,Arial Font %d,%d,&H00FFFF%02X,-1\n", i, i, 16+i, i)
		}
		b.WriteString("\n[Events]\nFormat: Layer, Start, End, Style, Name, MarginL, MarginR, MarginV, Effect, Text\n")
		for i := 0; i < n; i++ {
			fmt.Fprintf(&b, "Dialogue: 0,0:00:%02d.00,0:00:%02d.50,Speaker %d,Name %d,0,0,0,,This is the text of dialogue line number %d, with a comma\n", i%60, i%60, i%6, i, i)
		}
		o["ssa"] = append(o["ssa"], b.Bytes())
	}
	// TTML: content after the root element (a comment, white space, text) and a UTF-16 document with a byte order
	// mark and a character outside the BMP: whatever the reader makes of them, every delivery gives the same answer
	{
		base := `<tt xmlns="http://www.w3.org/ns/ttml"><body><div><p begin="00:00:01.000" end="00:00:02.000">emoji 😀 x</p></div></body></tt>`
		o["ttml"] = append(o["ttml"], []byte(base+"\n<!-- trailing comment -->\n"), []byte(base+"\ntrailing text"), []byte(base+strings.Repeat(" ", 5000)+"<!-- far -->x"))
		u16 := []byte{0xff, 0xfe}
		for _, r := range utf16.Encode([]rune(base)) {
			u16 = append(u16, byte(r), byte(r>>8))
		}
		o["ttml"] = append(o["ttml"], u16)
	}
	// transport streams carrying teletext: built by the harness (the repository has no sample)
	if ttSample != nil {
		for seed := uint64(0); seed < 3; seed++ {
			o["ts"] = append(o["ts"], ttSample(seed))
		}
	}
	return o
}

// ttSample is set by teletext.go
var ttSample func(seed uint64) []byte

func init() {
	// lib.scanner: the package's line scanner under a schedule; output = effective schedule, tokens, error kind
	streams["lib.scanner"] = stream{exec: func(a []string) string {
		rd := &schedReader{data: decBytes(a[1]), sizes: decInts(a[2]), end: a[0], limit: -1}
		toks, err := scanLines(rd)
		var ts []string
		for _, t := range toks {
			ts = append(ts, encBytes(t))
		}
		kind := "none"
		if err != nil {
			switch {
			case errors.Is(err, errFault):
				kind = "io"
			case strings.Contains(err.Error(), "token too long"):
				kind = "toolong"
			case errors.Is(err, io.ErrNoProgress):
				kind = "noprogress"
			default:
				kind = "other:" + err.Error()
			}
		}
		end := "eof"
		if a[0] == "fault" || a[0] == "wfault" {
			end = "fault"
		}
		parts := append([]string{end, encInts(rd.eff), strconv.Itoa(len(ts))}, ts...)
		return strings.Join(append(parts, kind), " ")
	}, gen: func(c *ctx) {
		if scanLines == nil {
			return
		}
		r := newRng(c.seed, "lib.scanner")
		n := 6000
		if c.thorough {
			n = 200000
		}
		alphabet := []byte("ab \r\n\r\n\n\rx\x1a\x00\r\n\n")
		for i := 0; i < n; i++ {
			ln := r.intn(40)
			if r.chance(1, 50) {
				ln = 4000 + r.intn(300)
			}
			doc := make([]byte, ln)
			for j := range doc {
				doc[j] = alphabet[r.intn(len(alphabet))]
			}
			end := []string{"eof", "eof", "weof", "fault", "wfault"}[r.intn(5)]
			sizes := randSizes(r, ln, r.intn(6))
			c.do(fmt.Sprintf("lib.scanner %s %s %s", end, encBytes(doc), encInts(sizes)))
			c.count("random")
		}
		// every single split point of CRLF-heavy documents
		for _, d := range []string{"hi\r\nx", "a\r\n\r\nb\r\n", "\r\n", "a\rb\nc\r\nd", "1\r\n00:00:01,000 --> 00:00:02,000\r\nhello\r\n\r\n",
			// control bytes that some systems take for an end-of-file mark are bytes like any other, wherever a read ends
			"a\x1ab\nc\n", "x\x1a", "\x1a\n\x1a", "a\x00b\x1a\r\nc", "1\n00:00:01,000 --> 00:00:02,000\nhe\x1allo\n\n2\n00:00:03,000 --> 00:00:04,000\nw\x04\x1a\n"} {
			for k := 0; k <= len(d); k++ {
				for _, end := range []string{"eof", "weof", "fault"} {
					c.do(fmt.Sprintf("lib.scanner %s %s %d", end, encBytes([]byte(d)), k))
					c.count("split-points")
				}
			}
		}
		// long lines around the 64 KiB token limit, and runs of zero-length reads around the limit of 100
		for _, ln := range []int{65534, 65535, 65536, 65537, 70000} {
			for _, tail := range []string{"\n", "\r\n", "\r", ""} {
				doc := append(bytes.Repeat([]byte("a"), ln), []byte(tail+"b\n")...)
				c.do(fmt.Sprintf("lib.scanner eof %s %s", encBytes(append([]byte("x\n"), doc...)), encInts(randSizes(r, len(doc), 3))))
				c.count("long-lines")
			}
		}
		// the same lengths as the last line of the input, with and without a CR, the end of input arriving with the
		// last bytes or on its own
		for _, ln := range []int{65534, 65535, 65536, 65537} {
			for _, tail := range []string{"", "\r"} {
				for _, end := range []string{"eof", "weof", "fault"} {
					doc := append([]byte("x\n"), append(bytes.Repeat([]byte("a"), ln), []byte(tail)...)...)
					c.do(fmt.Sprintf("lib.scanner %s %s %s", end, encBytes(doc), encInts(randSizes(r, len(doc), 2+r.intn(2)))))
					c.do(fmt.Sprintf("lib.scanner %s %s %d", end, encBytes(doc[2:]), len(doc)))
					c.count("long-last-line")
				}
			}
		}
		for _, z := range []int{99, 100, 101, 102} {
			sizes := []int{2}
			for i := 0; i < z; i++ {
				sizes = append(sizes, 0)
			}
			c.do(fmt.Sprintf("lib.scanner eof %s %s", encBytes([]byte("ab\ncd")), encInts(sizes)))
			c.count("empty-reads")
		}
	}}

	// io.sched: every reader under a delivery schedule vs. the all-at-once result
	streams["io.sched"] = stream{exec: func(a []string) string {
		doc := decBytes(a[1])
		base, berr := readWith(a[0], bytes.NewReader(doc))
		rd := &schedReader{orig: doc, data: append([]byte(nil), doc...), sizes: decInts(a[3]), end: a[2], limit: -1}
		got, gerr := readWith(a[0], rd)
		if errClass(berr) != errClass(gerr) {
			return fmt.Sprintf("diff class %s vs %s", errClass(berr), errClass(gerr))
		}
		if berr == nil && !reflect.DeepEqual(base, got) {
			return "diff value"
		}
		// the same through readers that cannot seek (pipes, sockets): all at once vs. the schedule
		base, berr = readWith(a[0], onlyReader{bytes.NewReader(doc)})
		got, gerr = readWith(a[0], onlyReader{&schedReader{data: append([]byte(nil), doc...), sizes: decInts(a[3]), end: a[2], limit: -1}})
		if errClass(berr) != errClass(gerr) {
			return fmt.Sprintf("diff class %s vs %s (readers without Seek)", errClass(berr), errClass(gerr))
		}
		if berr == nil && !reflect.DeepEqual(base, got) {
			return "diff value (readers without Seek)"
		}
		if a[0] == "ts" {
			// without Seek the teletext reader cannot rewind after looking for the PID: the PID is given (every PID
			// present in the stream is tried)
			for _, pid := range tsPIDs(doc) {
				o := astisub.TeletextOptions{PID: pid}
				base, berr := readTS(onlyReader{bytes.NewReader(doc)}, o)
				got, gerr := readTS(onlyReader{&schedReader{data: append([]byte(nil), doc...), sizes: decInts(a[3]), end: a[2], limit: -1}}, o)
				if errClass(berr) != errClass(gerr) {
					return fmt.Sprintf("diff class %s vs %s (readers without Seek, PID %d)", errClass(berr), errClass(gerr), pid)
				}
				if berr == nil && !reflect.DeepEqual(base, got) {
					return fmt.Sprintf("diff value (readers without Seek, PID %d)", pid)
				}
			}
		}
		return "same"
	}, gen: func(c *ctx) {
		r := newRng(c.seed, "io.sched")
		docs := sampleDocs()
		var fs []string
		for f := range docs {
			fs = append(fs, f)
		}
		sort.Strings(fs)
		for _, f := range fs {
			for di, d := range docs[f] {
				if !c.thorough && di%3 != int(c.seed)%3 && len(docs[f]) > 6 && len(d) > 1500 {
					continue // the quick tier takes a third of the larger documents per seed, and every small one
				}
				// every single split point (documents up to ~2 kB)
				step := 1
				if !c.thorough && len(d) > 700 {
					step = 3
				}
				for k := 0; k <= len(d); k += step {
					c.do(fmt.Sprintf("io.sched %s %s eof %d", f, encBytes(d), k))
					c.count("split-points")
				}
				for _, kind := range []int{0, 1, 2, 3, 6} {
					for _, end := range []string{"eof", "weof"} {
						c.do(fmt.Sprintf("io.sched %s %s %s %s", f, encBytes(d), end, encInts(randSizes(r, len(d), kind))))
						c.count("schedules")
					}
				}
				// mutated (mostly invalid) documents under random schedules
				nm := 10
				if c.thorough {
					nm = 200
				}
				for m := 0; m < nm; m++ {
					md := append([]byte(nil), d...)
					for k := r.intn(4) + 1; k > 0 && len(md) > 0; k-- {
						i := r.intn(len(md))
						switch r.intn(4) {
						case 0:
							md[i] = byte(r.intn(256))
						case 1:
							md = append(md[:i], md[i+1:]...)
						case 2:
							md = md[:i]
						default:
							md = append(md[:i], append([]byte("\r\n"), md[i:]...)...)
						}
					}
					c.do(fmt.Sprintf("io.sched %s %s %s %s", f, encBytes(md), []string{"eof", "weof"}[r.intn(2)], encInts(randSizes(r, len(md), 1+r.intn(4)))))
					c.count("mutated")
				}
			}
		}
		// large documents: buffer-boundary-aligned splits (4096 / 65536)
		big := bigSRT(3000)
		for _, kind := range []int{3, 1} {
			c.do(fmt.Sprintf("io.sched srt %s eof %s", encBytes(big), encInts(randSizes(r, len(big), kind))))
			c.count("large")
		}
		for _, k := range []int{4095, 4096, 4097, 65535, 65536, 65537} {
			c.do(fmt.Sprintf("io.sched srt %s eof %d", encBytes(big), k))
			c.count("large")
		}
		// a line as long as the scanner can hold, one byte less and one more, ended by each terminator or by the end
		// of the input: accepted or refused, the answer is the same for every delivery (the last bytes arriving with
		// or without the end of input in particular)
		for _, ln := range []int{65534, 65535, 65536} {
			for _, tail := range []string{"", "\r", "\n", "\r\n", "\r\nx\n"} {
				for fi, head := range []string{"1\n00:00:01,000 --> 00:00:02,000\n", "WEBVTT\n\n00:01.000 --> 00:02.000\n", "[Script Info]\n; "} {
					f := []string{"srt", "vtt", "ssa"}[fi]
					d := []byte(head + strings.Repeat("a", ln) + tail)
					for _, end := range []string{"eof", "weof"} {
						c.do(fmt.Sprintf("io.sched %s %s %s %s", f, encBytes(d), end, encInts(randSizes(r, len(d), r.intn(4)))))
						c.do(fmt.Sprintf("io.sched %s %s %s %d", f, encBytes(d), end, len(d)))
						c.count("long-lines")
					}
				}
			}
		}
	}}

	// io.fault: the stream fails with a non-EOF error after k bytes: every reader must return an error
	streams["io.fault"] = stream{exec: func(a []string) string {
		doc := decBytes(a[1])
		k := int(atoi64(a[2]))
		rd := &schedReader{orig: doc, data: append([]byte(nil), doc...), sizes: decInts(a[4]), end: a[3], limit: k}
		_, err := readWith(a[0], rd)
		if a[0] == "ts" && err != nil && k >= 0 {
			// the same with the PID given (no look-up pass, no rewind), through readers with and without Seek
			for _, pid := range tsPIDs(doc) {
				o := astisub.TeletextOptions{PID: pid}
				if _, e := readTS(&schedReader{orig: doc, data: append([]byte(nil), doc...), sizes: decInts(a[4]), end: a[3], limit: k}, o); e == nil {
					return fmt.Sprintf("ok-with-pid-%d", pid)
				}
				if _, e := readTS(onlyReader{&schedReader{data: append([]byte(nil), doc...), sizes: decInts(a[4]), end: a[3], limit: k}}, o); e == nil {
					return fmt.Sprintf("ok-with-pid-%d-noseek", pid)
				}
			}
		}
		return errClass(err)
	}, gen: func(c *ctx) {
		r := newRng(c.seed, "io.fault")
		docs := sampleDocs()
		var fs []string
		for f := range docs {
			fs = append(fs, f)
		}
		sort.Strings(fs)
		for _, f := range fs {
			for di, d := range docs[f] {
				if !c.thorough && di%3 != int(c.seed)%3 && len(docs[f]) > 6 && len(d) > 1500 {
					continue // the quick tier takes a third of the larger documents per seed, and every small one
				}
				maxK := len(d)
				if f == "ttml" { // up to the end of the root element
					if i := bytes.LastIndex(d, []byte("</tt>")); i >= 0 {
						maxK = i + 4
					}
				}
				step := 1
				if !c.thorough && len(d) > 700 {
					step = 3
				}
				for k := 0; k <= maxK; k += step {
					end := "fault"
					if r.chance(1, 4) && k > 0 {
						end = "wfault"
					}
					c.do(fmt.Sprintf("io.fault %s %s %d %s %s", f, encBytes(d), k, end, encInts(randSizes(r, k, []int{5, 1, 2, 4}[r.intn(4)]))))
					c.count("offsets")
				}
				// the stream fails right behind the last byte (instead of reporting the end of the input), and just
				// before it: never skipped by the step
				for _, k := range []int{maxK, maxK - 1, maxK - 2} {
					if k > 0 && step > 1 {
						for _, end := range []string{"fault", "wfault"} {
							c.do(fmt.Sprintf("io.fault %s %s %d %s %s", f, encBytes(d), k, end, encInts(randSizes(r, k, []int{5, 1, 2, 4}[r.intn(4)]))))
							c.count("offsets")
						}
					}
				}
			}
		}
		// lines of 2^16 .. 2^20 bytes: the reader cannot buffer them and must say so
		for _, ln := range []int{1 << 16, 1<<16 + 1, 70000, 1 << 17, 1 << 20} {
			if !c.thorough && ln > 1<<17 {
				continue
			}
			long := strings.Repeat("m 0 0 l 1 1 ", ln/12+1)[:ln]
			c.do(fmt.Sprintf("io.fault srt %s -1 eof -", encBytes([]byte("1\n00:00:01,000 --> 00:00:02,000\n"+long+"\n\n2\n00:00:03,000 --> 00:00:04,000\nx\n"))))
			c.do(fmt.Sprintf("io.fault vtt %s -1 eof -", encBytes([]byte("WEBVTT\n\n00:00:01.000 --> 00:00:02.000\n"+long+"\n\n00:00:03.000 --> 00:00:04.000\nx\n"))))
			c.do(fmt.Sprintf("io.fault ssa %s -1 eof -", encBytes([]byte("[Script Info]\nTitle: x\n\n[Events]\nFormat: Start, End, Text\nDialogue: 0:00:01.00,0:00:02.00,{\\p1}"+long+"\nDialogue: 0:00:03.00,0:00:04.00,x\n"))))
			c.do(fmt.Sprintf("io.fault ssa %s -1 eof -", encBytes([]byte("[Script Info]\nTitle: x\n\n[Fonts]\nfontname: a.ttf\n"+long+"\n\n[Events]\nFormat: Start, End, Text\nDialogue: 0:00:03.00,0:00:04.00,x\n"))))
			c.do(fmt.Sprintf("io.fault srt %s -1 eof -", encBytes([]byte(long+"\n1\n00:00:03,000 --> 00:00:04,000\nx\n"))))
			c.do(fmt.Sprintf("io.fault vtt %s -1 eof -", encBytes([]byte("WEBVTT\n\nNOTE "+long+"\n\n00:00:03.000 --> 00:00:04.000\nx\n"))))
			c.count("long-lines")
		}
	}}

	// io.wfault: the destination accepts k bytes and then fails
	// half of the lists carry styles and regions (several Style: lines, STYLE blocks, <style> elements: more writes)
	wfSubs := func(seed uint64, f string) *astisub.Subtitles {
		if seed%2 == 1 {
			s := genStyledSubs(newRng(seed, "styled"))
			if s.Metadata == nil {
				s.Metadata = &astisub.Metadata{Title: "t"}
			}
			return s
		}
		return genSubs(newRng(seed, "subs"), f)
	}
	streams["io.wfault"] = stream{exec: func(a []string) string {
		s := wfSubs(uint64(atoi64(a[1])), a[0])
		k := int(atoi64(a[2]))
		w := &faultWriter{cap: k}
		err := writeRaw(a[0], s, w)
		if a[0] == "ttml" {
			// the same destination fault under the writer's options
			for _, ind := range []string{"", "\t"} {
				w2 := &faultWriter{cap: k}
				var full2 bytes.Buffer
				if e := s.WriteToTTML(&full2, astisub.WriteToTTMLWithIndentOption(ind)); e == nil && k < full2.Len() {
					if e2 := s.WriteToTTML(w2, astisub.WriteToTTMLWithIndentOption(ind)); e2 == nil {
						return fmt.Sprintf("ok-incomplete-with-indent-%q", ind)
					}
				}
			}
		}
		if err != nil {
			return "err"
		}
		var full bytes.Buffer
		if e2 := writeWith(a[0], s, &full); e2 != nil {
			return "err-unfaulted"
		}
		if bytes.Equal(full.Bytes(), w.got) {
			return "ok-complete"
		}
		return "ok-incomplete"
	}, gen: func(c *ctx) {
		r := newRng(c.seed, "io.wfault")
		n := 30
		if c.thorough {
			n = 200
		}
		for _, f := range []string{"srt", "vtt", "ssa", "stl", "ttml"} {
			for i := 0; i < n; i++ {
				seed := r.intn(1 << 30)
				s := wfSubs(uint64(seed), f)
				var full bytes.Buffer
				if err := writeWith(f, s, &full); err != nil {
					continue
				}
				total := full.Len()
				step := 1
				if !c.thorough && total > 300 {
					step = total / 150
				}
				for k := 0; k < total; k += step {
					c.do(fmt.Sprintf("io.wfault %s %d %d %d", f, seed, k, total))
					c.count("offsets")
				}
				c.do(fmt.Sprintf("io.wfault %s %d %d %d", f, seed, total, total))
				c.do(fmt.Sprintf("io.wfault %s %d %d %d", f, seed, total+10, total))
			}
		}
	}}

	// io.wsize <format>: the destination receives the whole document whatever its size: a one-cue list whose text
	// grows one character at a time past three buffer sizes; the number of bytes handed over grows by one each time
	// and the document reads back with the full text (sampled)
	streams["io.wsize"] = stream{exec: func(a []string) string {
		f := a[0]
		mk := func(k int) *astisub.Subtitles {
			s := astisub.NewSubtitles()
			s.Items = append(s.Items, &astisub.Item{StartAt: time.Second, EndAt: 2 * time.Second,
				Lines: []astisub.Line{{Items: []astisub.LineItem{{Text: "x" + strings.Repeat("a", k)}}}}})
			return s
		}
		size := func(k int) (int, []byte, error) {
			w := &faultWriter{cap: 1 << 30}
			err := writeRaw(f, mk(k), w)
			return len(w.got), w.got, err
		}
		base, _, err := size(0)
		if err != nil {
			return "err " + errClass(err)
		}
		for k := 1; k <= 3*4096+64; k++ {
			n, doc, err := size(k)
			if err != nil {
				return fmt.Sprintf("err at k=%d %s", k, errClass(err))
			}
			if n != base+k {
				return fmt.Sprintf("size-jump k=%d delivered=%d want=%d", k, n, base+k)
			}
			if k%509 == 0 {
				back, err := readWith(f, bytes.NewReader(doc))
				if err != nil || len(back.Items) != 1 || len(back.Items[0].Lines) != 1 || len(back.Items[0].Lines[0].Items) != 1 ||
					len(back.Items[0].Lines[0].Items[0].Text) != k+1 {
					return fmt.Sprintf("read-back k=%d", k)
				}
			}
		}
		return "linear"
	}, gen: func(c *ctx) {
		for _, f := range []string{"srt", "vtt", "ssa", "ttml"} {
			c.do("io.wsize " + f)
			c.count("sweeps")
		}
	}}

	// io.file: the file-level helpers report missing / uncreatable files
	streams["io.file"] = stream{exec: func(a []string) string {
		dir, _ := ioutil.TempDir("", "verif-io-")
		defer os.RemoveAll(dir)
		switch a[0] {
		case "open-missing":
			_, err := astisub.OpenFile(filepath.Join(dir, "nope."+a[1]))
			return errClass(err)
		case "open-dir":
			p := filepath.Join(dir, "d."+a[1])
			os.Mkdir(p, 0755)
			_, err := astisub.OpenFile(p)
			return errClass(err)
		case "write-nodir":
			s := genSubs(newRng(1, "subs"), a[1])
			return errClass(s.Write(filepath.Join(dir, "missing-dir", "x."+a[1])))
		case "write-full":
			// the destination can be created but every write to it fails (device full)
			if _, err := os.Stat("/dev/full"); err != nil {
				return "no-dev-full"
			}
			p := filepath.Join(dir, "full."+a[1])
			if err := os.Symlink("/dev/full", p); err != nil {
				return "no-dev-full"
			}
			s := genSubs(newRng(1, "subs"), a[1])
			return errClass(s.Write(p))
		case "write-ok":
			// the file holds exactly what the format's writer produces
			s := genSubs(newRng(2, "subs"), a[1])
			p := filepath.Join(dir, "ok."+a[1])
			if err := s.Write(p); err != nil {
				return errClass(err)
			}
			var b bytes.Buffer
			f := a[1]
			if f == "ass" {
				f = "ssa"
			}
			if err := writeRaw(f, s, &b); err != nil {
				return "writer-" + errClass(err)
			}
			got, _ := ioutil.ReadFile(p)
			if !bytes.Equal(got, b.Bytes()) {
				return "file-differs"
			}
			return "ok"
		case "write-over":
			// the destination already exists and is longer than what is written now: nothing of the old file is left
			long, short := genSubs(newRng(3, "subs"), a[1]), genSubs(newRng(4, "subs"), a[1])
			for len(long.Items) < 6 {
				long.Items = append(long.Items, long.Items[len(long.Items)-1])
			}
			short.Items = short.Items[:1]
			p := filepath.Join(dir, "over."+a[1])
			if err := long.Write(p); err != nil {
				return errClass(err)
			}
			if err := short.Write(p); err != nil {
				return errClass(err)
			}
			var b bytes.Buffer
			f := a[1]
			if f == "ass" {
				f = "ssa"
			}
			if err := writeRaw(f, short, &b); err != nil {
				return "writer-" + errClass(err)
			}
			got, _ := ioutil.ReadFile(p)
			if !bytes.Equal(got, b.Bytes()) {
				return fmt.Sprintf("file-differs len=%d want=%d", len(got), b.Len())
			}
			return "ok"
		case "write-ext":
			s := genSubs(newRng(1, "subs"), "srt")
			err := s.Write(filepath.Join(dir, "x."+a[1]))
			if err == astisub.ErrInvalidExtension {
				return "invalid-extension"
			}
			if err == nil {
				return "dispatched"
			}
			return errClass(err)
		case "write-empty":
			err := astisub.NewSubtitles().Write(filepath.Join(dir, "x."+a[1]))
			if err == astisub.ErrNoSubtitlesToWrite {
				return "no-subtitles"
			}
			return errClass(err)
		case "open-ext":
			p := filepath.Join(dir, "x."+a[1])
			ioutil.WriteFile(p, []byte("1\n00:00:01,000 --> 00:00:02,000\nx\n"), 0644)
			_, err := astisub.OpenFile(p)
			if err == astisub.ErrInvalidExtension {
				return "invalid-extension"
			}
			return "dispatched"
		}
		panic("io.file op")
	}, gen: func(c *ctx) {
		for _, e := range []string{"srt", "ssa", "ass", "stl", "ttml", "vtt", "ts"} {
			c.do("io.file open-missing " + e)
			c.do("io.file open-dir " + e)
			if e != "ts" {
				c.do("io.file write-nodir " + e)
				c.do("io.file write-empty " + e)
				c.do("io.file write-full " + e)
				c.do("io.file write-ok " + e)
				c.do("io.file write-over " + e)
			}
		}
		for _, e := range []string{"txt", "sub", "srtx", "", "SRT", "Vtt", "ts"} {
			c.do("io.file write-ext " + e)
			c.do("io.file open-ext " + e)
		}
	}}
}

type faultWriter struct {
	cap int
	got []byte
}

func (w *faultWriter) Write(p []byte) (int, error) {
	room := w.cap - len(w.got)
	if room >= len(p) {
		w.got = append(w.got, p...)
		return len(p), nil
	}
	if room < 0 {
		room = 0
	}
	w.got = append(w.got, p[:room]...)
	return room, errFault
}

var errImpure = errors.New("IMPURE: the writer modified the cue list it was given")
var errNondet = errors.New("NONDET: writing the same list twice gave different bytes")

// writeWith writes s in the given format - twice, with a snapshot of the list around each call: a writer
// that modifies its input or whose second output differs is reported (C19 clauses, checked on every
// generated list of every codec stream)
func writeWith(format string, s *astisub.Subtitles, w io.Writer) error {
	before := canonSubs(s)
	var b1, b2 bytes.Buffer
	if err := writeRaw(format, s, &b1); err != nil {
		return err
	}
	if canonSubs(s) != before {
		return errImpure
	}
	if err := writeRaw(format, s, &b2); err != nil || !bytes.Equal(b1.Bytes(), b2.Bytes()) {
		return errNondet
	}
	_, err := w.Write(b1.Bytes())
	return err
}

func writeRaw(format string, s *astisub.Subtitles, w io.Writer) (err error) {
	defer func() {
		if rec := recover(); rec != nil {
			err = fmt.Errorf("PANIC: %v", rec)
		}
	}()
	switch format {
	case "srt":
		return s.WriteToSRT(w)
	case "vtt":
		return s.WriteToWebVTT(w)
	case "ssa":
		return s.WriteToSSA(w)
	case "stl":
		return s.WriteToSTL(w)
	case "ttml":
		return s.WriteToTTML(w)
	}
	panic("format " + format)
}

func bigSRT(n int) []byte {
	var b bytes.Buffer
	for i := 0; i < n; i++ {
		fmt.Fprintf(&b, "%d\r\n00:%02d:%02d,000 --> 00:%02d:%02d,500\r\nline %d of the big document\r\nsecond <i>line</i>\r\n\r\n", i+1, i/60%60, i%60, i/60%60, i%60, i)
	}
	return b.Bytes()
}

// genSubs: a small cue list with everything a writer of the given format needs
// largePlainSubs: a long list of plain cues (written documents well beyond 64 KiB)
func largePlainSubs(r *rng, n int) *astisub.Subtitles {
	s := astisub.NewSubtitles()
	var t int64
	words := []string{"hello", "world", "subtitle number", "a b c", "42", "the quick brown fox"}
	for i := 0; i < n; i++ {
		t += r.rangeI(0, 3000) * 1000000
		e := t + r.rangeI(1, 4000)*1000000
		it := &astisub.Item{StartAt: timeDur(t), EndAt: timeDur(e)}
		for l := 0; l < 1+r.intn(2); l++ {
			it.Lines = append(it.Lines, astisub.Line{Items: []astisub.LineItem{{Text: words[r.intn(len(words))] + " " + fmt.Sprint(i)}}})
		}
		s.Items = append(s.Items, it)
		t = e
	}
	return s
}

func genSubs(r *rng, format string) *astisub.Subtitles {
	s := astisub.NewSubtitles()
	n := 1 + r.intn(4)
	var t int64
	for i := 0; i < n; i++ {
		t += r.rangeI(0, 3000) * 1000000
		e := t + r.rangeI(1, 4000)*1000000
		it := &astisub.Item{StartAt: timeDur(t), EndAt: timeDur(e)}
		for l := 0; l < 1+r.intn(2); l++ {
			var ln astisub.Line
			for k := 0; k < 1+r.intn(2); k++ {
				ln.Items = append(ln.Items, astisub.LineItem{Text: []string{"hello", "world", "a & b", "x<y", "café"}[r.intn(5)]})
			}
			it.Lines = append(it.Lines, ln)
		}
		s.Items = append(s.Items, it)
		t = e
	}
	return s
}
