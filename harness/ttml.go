package main

import (
	"bytes"
	"encoding/xml"
	"fmt"
	"io"
	"reflect"
	"strconv"
	"strings"
	"unicode"

	astisub "github.com/asticode/go-astisub"
)

// TTML streams (C03).
//
// encoding/xml is a contract, not modelled (DESIGN 3.6). For every document the harness hands the
// Lean side three views, all produced by encoding/xml from the same bytes:
//   TOK  the namespace-resolved token list of the document up to the end of the root element
//        (input of the independent decoder Spec.TTML.decode)
//   XML  the fields of TTMLIn: the document decoded into a mirror of astisub.TTMLIn that re-uses the
//        package's exported types (TTMLInMetadata, TTMLInRegion, TTMLInStyle, TTMLInStyleAttributes and
//        their struct tags) and differs only in keeping the raw text of begin / end; for every <p> the
//        inner XML, the indentation-stripped string and the token list of "<p>"+stripped+"</p>"
//        (input of the reader model TTML.read)
//   RES  what ReadFromTTML returned for the bytes
//
//   tokens := T<n> tok* ok|err        tok := S x<space> x<local> <nattr> (x<space> x<local> x<value>)*
//                                            | E x<space> x<local> | C x<text> | O
//   tin    := err | ok <frameRate> <tickRate> x<lang> x<title> x<copyright> <n> hdr* <n> hdr* <n> sub*
//   hdr    := H x<id> x<style> attrs          attrs := A<n> Field=x<value>*  (fields of TTMLInStyleAttributes that are set)
//   sub    := P raw raw x<id> x<region> x<style> attrs x<innerxml> x<stripped> tokens
//   raw    := B<n> x<value>*                  (every value handed to UnmarshalText; n = 0: attribute absent)

type rawAttr struct{ vals []string }

func (r *rawAttr) UnmarshalText(b []byte) error { r.vals = append(r.vals, string(b)); return nil }

type mirrorSub struct {
	Begin  *rawAttr `xml:"begin,attr,omitempty"`
	End    *rawAttr `xml:"end,attr,omitempty"`
	ID     string   `xml:"id,attr,omitempty"`
	Items  string   `xml:",innerxml"`
	Region string   `xml:"region,attr,omitempty"`
	Style  string   `xml:"style,attr,omitempty"`
	astisub.TTMLInStyleAttributes
}

type mirrorTTMLIn struct {
	Framerate int                    `xml:"frameRate,attr"`
	Lang      string                 `xml:"lang,attr"`
	Metadata  astisub.TTMLInMetadata `xml:"head>metadata"`
	Regions   []astisub.TTMLInRegion `xml:"head>layout>region"`
	Styles    []astisub.TTMLInStyle  `xml:"head>styling>style"`
	Subtitles []mirrorSub            `xml:"body>div>p"`
	Tickrate  int                    `xml:"tickRate,attr"`
	XMLName   xml.Name               `xml:"tt"`
}

func encTok(t xml.Token) string {
	switch v := t.(type) {
	case xml.StartElement:
		o := []string{"S", encStr(v.Name.Space), encStr(v.Name.Local), strconv.Itoa(len(v.Attr))}
		for _, a := range v.Attr {
			o = append(o, encStr(a.Name.Space), encStr(a.Name.Local), encStr(a.Value))
		}
		return strings.Join(o, " ")
	case xml.EndElement:
		return "E " + encStr(v.Name.Space) + " " + encStr(v.Name.Local)
	case xml.CharData:
		return "C " + encStr(string(v))
	}
	return "O"
}

// xmlTokens tokenizes data; rootOnly stops after the end tag of the root element (the extent xml.Decoder.Decode reads)
func xmlTokens(data []byte, rootOnly bool) string {
	d := xml.NewDecoder(bytes.NewReader(data))
	var o []string
	status := "ok"
	depth := 0
	for {
		t, err := d.Token()
		if err == io.EOF {
			break
		}
		if err != nil {
			status = "err"
			break
		}
		o = append(o, encTok(t))
		switch t.(type) {
		case xml.StartElement:
			depth++
		case xml.EndElement:
			depth--
		}
		if rootOnly && depth == 0 {
			if _, ok := t.(xml.EndElement); ok {
				break
			}
		}
	}
	return strings.Join(append(append([]string{"T" + strconv.Itoa(len(o))}, o...), status), " ")
}

func encTTMLAttrs(a astisub.TTMLInStyleAttributes) string {
	v := reflect.ValueOf(a)
	var kv []string
	for i := 0; i < v.NumField(); i++ {
		f := v.Field(i)
		if f.IsNil() {
			continue
		}
		switch e := f.Elem(); e.Kind() {
		case reflect.String:
			kv = append(kv, v.Type().Field(i).Name+"="+encStr(e.String()))
		case reflect.Int:
			kv = append(kv, v.Type().Field(i).Name+"="+encStr(strconv.FormatInt(e.Int(), 10)))
		}
	}
	return strings.Join(append([]string{"A" + strconv.Itoa(len(kv))}, kv...), " ")
}

func encRaw(r *rawAttr) string {
	if r == nil {
		return "B0"
	}
	o := []string{"B" + strconv.Itoa(len(r.vals))}
	for _, v := range r.vals {
		o = append(o, encStr(v))
	}
	return strings.Join(o, " ")
}

// ttmlStrip is the "remove items indentation" step of ReadFromTTML (the model recomputes it and the
// driver refuses the case when the two disagree)
func ttmlStrip(s string) string {
	var o string
	for _, line := range strings.Split(s, "\n") {
		line = strings.TrimLeftFunc(line, unicode.IsSpace)
		if len(o) > 0 && len(line) > 0 && !strings.HasSuffix(o, ">") && !strings.HasPrefix(line, "<") {
			o += " "
		}
		o += line
	}
	return o
}

func ttmlTIn(doc []byte) string {
	var t mirrorTTMLIn
	if err := xml.NewDecoder(bytes.NewReader(doc)).Decode(&t); err != nil {
		return "err"
	}
	o := []string{"ok", strconv.Itoa(t.Framerate), strconv.Itoa(t.Tickrate), encStr(t.Lang), encStr(t.Metadata.Title), encStr(t.Metadata.Copyright)}
	o = append(o, strconv.Itoa(len(t.Regions)))
	for _, r := range t.Regions {
		o = append(o, "H", encStr(r.ID), encStr(r.Style), encTTMLAttrs(r.TTMLInStyleAttributes))
	}
	o = append(o, strconv.Itoa(len(t.Styles)))
	for _, r := range t.Styles {
		o = append(o, "H", encStr(r.ID), encStr(r.Style), encTTMLAttrs(r.TTMLInStyleAttributes))
	}
	o = append(o, strconv.Itoa(len(t.Subtitles)))
	for _, s := range t.Subtitles {
		st := ttmlStrip(s.Items)
		o = append(o, "P", encRaw(s.Begin), encRaw(s.End), encStr(s.ID), encStr(s.Region), encStr(s.Style), encTTMLAttrs(s.TTMLInStyleAttributes),
			encStr(s.Items), encStr(st), xmlTokens([]byte("<p>"+st+"</p>"), false))
	}
	return strings.Join(o, " ")
}

// ttmlViews = everything the Lean side needs about a document
func ttmlViews(doc []byte) string {
	return "TOK " + xmlTokens(doc, true) + " XML " + ttmlTIn(doc) + " RES " + readOut("ttml", doc)
}

/* ---------- generators ---------- */

var ttmlAttrNames = []string{"backgroundColor", "color", "direction", "display", "displayAlign", "extent", "fontFamily", "fontSize",
	"fontStyle", "fontWeight", "lineHeight", "opacity", "origin", "overflow", "padding", "showBackground", "textAlign",
	"textDecoration", "textOutline", "unicodeBidi", "visibility", "wrapOption", "writingMode", "zIndex"}

var ttmlAttrValues = map[string][]string{
	"extent":      {"100% 10%", "80% 23%", "50%", "10% -7%", "640px 480px", "", "a b c", "30%  5%", "50% ", " 50%", " "},
	"origin":      {"0% 90%", "10% 80%", " 5% 5% ", "12%", "", "1 2 3", "12% ", " 12%", "  "},
	"writingMode": {"lrtb", "tbrl", "tb", "rl", ""},
	"textAlign":   {"center", "left", "right", "start", ""},
	"zIndex":      {"0", "1", "-3", "42", "+7"},
	"color":       {"white", "#ff0000", "red", "rgba(1,2,3,4)", "a&b", "\"q\"", "é"},
}

func genTTMLAttrs(r *rng, max int) [][2]string {
	var o [][2]string
	if max == 0 || r.chance(1, 2) {
		return nil
	}
	n := 1 + r.intn(max)
	seen := map[string]bool{}
	for i := 0; i < n; i++ {
		k := ttmlAttrNames[r.intn(len(ttmlAttrNames))]
		if r.chance(1, 2) {
			k = []string{"extent", "origin", "writingMode", "textAlign", "color", "zIndex"}[r.intn(6)]
		}
		if seen[k] {
			continue
		}
		seen[k] = true
		v := "v" + strconv.Itoa(r.intn(9))
		if vs, ok := ttmlAttrValues[k]; ok {
			v = vs[r.intn(len(vs))]
		}
		o = append(o, [2]string{k, v})
	}
	return o
}

var ttmlWords = []string{"hello", "world", "Été", "日本語", "a & b", "1 < 2", "x > y", "two words", "42", "- dash", "emoji 😀", "q\"uote", "it's",
	"&amp;", " lead", "trail ", "  ", "é", "<b>", "]]>", "tab\there", "100%", "a", "", "&lt;", "x&nbsp;y"}

func ttmlWord(r *rng) string { return ttmlWords[r.intn(len(ttmlWords))] }

func xmlEsc(s string) string {
	var b bytes.Buffer
	xml.EscapeText(&b, []byte(s))
	return b.String()
}

// a time expression: any syntax form of the property's quantifier
func genTimeExpr(r *rng, fr, tr int, around int64) string {
	ms := around + r.rangeI(0, 4000)
	if ms < 0 {
		ms = 0
	}
	h, m, s, f := ms/3600000, ms/60000%60, ms/1000%60, ms%1000
	switch r.intn(12) {
	case 0, 1:
		return fmt.Sprintf("%02d:%02d:%02d.%03d", h, m, s, f)
	case 2:
		return fmt.Sprintf("%02d:%02d:%02d.%02d", h, m, s, f/10)
	case 3:
		return fmt.Sprintf("%02d:%02d:%02d.%d", h, m, s, f/100)
	case 4:
		return fmt.Sprintf("%02d:%02d:%02d", h, m, s)
	case 5:
		n := 100
		if fr > 0 {
			n = fr
		}
		return fmt.Sprintf("%02d:%02d:%02d:%02d", h, m, s, r.intn(n))
	case 6:
		// offset in seconds / milliseconds with a decimal fraction
		switch r.intn(4) {
		case 0:
			return fmt.Sprintf("%d.%03ds", ms/1000, f)
		case 1:
			return fmt.Sprintf("%dms", ms)
		case 2:
			return fmt.Sprintf("%d.%dms", ms, r.intn(1000000))
		default:
			return fmt.Sprintf("%d.%ds", ms/1000, r.intn(1000000000))
		}
	case 7:
		switch r.intn(3) {
		case 0:
			return fmt.Sprintf("%d.%dm", ms/60000, r.intn(100000))
		case 1:
			return fmt.Sprintf("%d.%dh", h, r.intn(100000))
		default:
			return fmt.Sprintf("%d%s", r.intn(100), []string{"h", "m", "s"}[r.intn(3)])
		}
	case 8:
		n := 25
		if fr > 0 {
			n = fr
		}
		return fmt.Sprintf("%df", ms*int64(n)/1000+int64(r.intn(3)))
	case 9:
		n := int64(10000000)
		if tr > 0 {
			n = int64(tr)
		}
		return fmt.Sprintf("%dt", ms*n/1000+r.rangeI(0, 999))
	case 10:
		// large values: the float path lost nanoseconds here
		if tr > 0 {
			return fmt.Sprintf("%dt", r.rangeI(0, 3600*100)*int64(tr)+r.rangeI(0, int64(tr)))
		}
		return fmt.Sprintf("%df", r.rangeI(0, 9000000))
	default:
		return fmt.Sprintf("%d.%03ds", r.rangeI(0, 359999), r.intn(1000))
	}
}

type ttmlNS struct {
	rootAttrs      string // namespace declarations
	el, tts, ttm   string // prefixes (with colon) for elements, styling attributes, metadata elements
	ttp            string
	idAttr         string
	declaredPrefix bool
}

func genTTMLNS(r *rng) ttmlNS {
	base := "http://www.w3.org/ns/ttml"
	if r.chance(1, 4) {
		base = "http://www.w3.org/2006/10/ttaf1"
	}
	ns := ttmlNS{tts: "tts:", ttm: "ttm:", ttp: "ttp:", idAttr: "xml:id"}
	if r.chance(1, 4) {
		ns.tts, ns.ttm, ns.ttp = "s:", "md:", "p:"
	}
	decl := fmt.Sprintf(` xmlns:%s="%s#styling" xmlns:%s="%s#metadata" xmlns:%s="%s#parameter"`,
		strings.TrimSuffix(ns.tts, ":"), base, strings.TrimSuffix(ns.ttm, ":"), base, strings.TrimSuffix(ns.ttp, ":"), base)
	switch r.intn(4) {
	case 0:
		ns.el = "tt:"
		decl = fmt.Sprintf(` xmlns:tt="%s"`, base) + decl
	default:
		decl = fmt.Sprintf(` xmlns="%s"`, base) + decl
	}
	ns.rootAttrs = decl
	return ns
}

func renderAttrs(r *rng, ns ttmlNS, pairs [][2]string) string {
	var b strings.Builder
	for _, p := range pairs {
		b.WriteString(" " + p[0] + `="` + strings.ReplaceAll(xmlEsc(p[1]), "\n", "&#xA;") + `"`)
	}
	return b.String()
}

func shuffle(r *rng, p [][2]string) [][2]string {
	for i := len(p) - 1; i > 0; i-- {
		j := r.intn(i + 1)
		p[i], p[j] = p[j], p[i]
	}
	return p
}

func prefixed(ns ttmlNS, attrs [][2]string) [][2]string {
	var o [][2]string
	for _, a := range attrs {
		o = append(o, [2]string{ns.tts + a[0], a[1]})
	}
	return o
}

// genTTMLDoc generates a well-formed document from a random ground truth (styles with arbitrary parent links
// forming a forest, regions, cues with lines of runs, inline tts attributes, metadata, frame / tick rate) under
// random rendering choices (time syntax per boundary, indentation, br inside / outside spans, prefixes).
func genTTMLDoc(r *rng) []byte {
	ns := genTTMLNS(r)
	indent := r.chance(1, 2)
	nl := func(depth int) string {
		if !indent {
			return ""
		}
		return "\n" + strings.Repeat("  ", depth)
	}
	fr := []int{0, 0, 24, 25, 30, 50, 60}[r.intn(7)]
	tr := []int{0, 0, 0, 1, 1000, 10000000, 90000}[r.intn(7)]
	var b strings.Builder
	if r.chance(1, 3) {
		b.WriteString(`<?xml version="1.0" encoding="UTF-8"?>` + nl(0))
	}
	root := [][2]string{}
	if fr > 0 {
		root = append(root, [2]string{ns.ttp + "frameRate", strconv.Itoa(fr)})
	}
	if tr > 0 {
		root = append(root, [2]string{ns.ttp + "tickRate", strconv.Itoa(tr)})
	}
	if r.chance(2, 3) {
		root = append(root, [2]string{"xml:lang", []string{"en", "fr", "zh", "ja", "no", "en-US", "fr-FR", "de", "", "e", "nor", "EN"}[r.intn(12)]})
	}
	b.WriteString("<" + ns.el + "tt" + ns.rootAttrs + renderAttrs(r, ns, shuffle(r, root)) + ">")
	// styles: a forest (parent chosen among all styles, no cycles needed by the reader; keep acyclic)
	nStyles := r.intn(5)
	var styleIDs []string
	for i := 0; i < nStyles; i++ {
		styleIDs = append(styleIDs, []string{"s", "style_", "S-", "é"}[r.intn(4)]+strconv.Itoa(i))
	}
	nRegions := r.intn(3)
	var regionIDs []string
	for i := 0; i < nRegions; i++ {
		regionIDs = append(regionIDs, "r"+strconv.Itoa(i))
	}
	hasMeta := r.chance(1, 2)
	if nStyles > 0 || nRegions > 0 || hasMeta || r.chance(1, 2) {
		b.WriteString(nl(1) + "<" + ns.el + "head>")
		if hasMeta {
			b.WriteString(nl(2) + "<" + ns.el + "metadata>")
			parts := []string{}
			if r.chance(2, 3) {
				parts = append(parts, "<"+ns.ttm+"title>"+xmlEsc("Title "+ttmlWord(r))+"</"+ns.ttm+"title>")
			}
			if r.chance(2, 3) {
				parts = append(parts, "<"+ns.ttm+"copyright>"+xmlEsc("(c) "+ttmlWord(r))+"</"+ns.ttm+"copyright>")
			}
			if len(parts) == 2 && r.bool() {
				parts[0], parts[1] = parts[1], parts[0]
			}
			for _, p := range parts {
				b.WriteString(nl(3) + p)
			}
			b.WriteString(nl(2) + "</" + ns.el + "metadata>")
		}
		if nStyles > 0 || r.chance(1, 3) {
			b.WriteString(nl(2) + "<" + ns.el + "styling>")
			for i, id := range styleIDs {
				at := [][2]string{{ns.idAttr, id}}
				if nStyles > 1 && r.chance(2, 3) {
					// any other style: shared parents and chains are frequent
					p := r.intn(nStyles)
					if p != i {
						at = append(at, [2]string{"style", styleIDs[p]})
					}
				}
				at = append(at, prefixed(ns, genTTMLAttrs(r, 4))...)
				b.WriteString(nl(3) + "<" + ns.el + "style" + renderAttrs(r, ns, shuffle(r, at)) + "/>")
			}
			b.WriteString(nl(2) + "</" + ns.el + "styling>")
		}
		if nRegions > 0 || r.chance(1, 3) {
			b.WriteString(nl(2) + "<" + ns.el + "layout>")
			for _, id := range regionIDs {
				at := [][2]string{{ns.idAttr, id}}
				if nStyles > 0 && r.chance(1, 2) {
					at = append(at, [2]string{"style", styleIDs[r.intn(nStyles)]})
				}
				at = append(at, prefixed(ns, genTTMLAttrs(r, 3))...)
				b.WriteString(nl(3) + "<" + ns.el + "region" + renderAttrs(r, ns, shuffle(r, at)) + "></" + ns.el + "region>")
			}
			b.WriteString(nl(2) + "</" + ns.el + "layout>")
		}
		b.WriteString(nl(1) + "</" + ns.el + "head>")
	}
	b.WriteString(nl(1) + "<" + ns.el + "body>")
	nDiv := 1
	if r.chance(1, 8) {
		nDiv = 2
	}
	var t int64
	for d := 0; d < nDiv; d++ {
		b.WriteString(nl(2) + "<" + ns.el + "div>")
		for c := r.intn(4); c > 0; c-- {
			if t != 0 || !r.chance(1, 6) { // often a first cue at the very start
				t += r.rangeI(0, 5000)
			}
			if r.chance(1, 10) {
				t += r.rangeI(0, 99) * 3600000
			}
			at := [][2]string{{"begin", genTimeExpr(r, fr, tr, t)}, {"end", genTimeExpr(r, fr, tr, t+2000)}}
			if r.chance(1, 3) {
				at = append(at, [2]string{ns.idAttr, "sub" + strconv.Itoa(c)})
			}
			if nRegions > 0 && r.chance(1, 2) {
				at = append(at, [2]string{"region", regionIDs[r.intn(nRegions)]})
			}
			if nStyles > 0 && r.chance(1, 2) {
				at = append(at, [2]string{"style", styleIDs[r.intn(nStyles)]})
			}
			at = append(at, prefixed(ns, genTTMLAttrs(r, 2))...)
			b.WriteString(nl(3) + "<" + ns.el + "p" + renderAttrs(r, ns, shuffle(r, at)) + ">")
			// children: lines of runs; a line break is a br element between runs or inside a span
			brTag := "<" + ns.el + "br/>"
			if r.chance(1, 6) {
				brTag = "<" + ns.el + "br></" + ns.el + "br>"
			}
			if r.chance(1, 8) {
				// a paragraph that holds nothing but character data (no span, no br), with entity and character references
				txt := xmlEsc(ttmlWord(r) + " & " + ttmlWord(r) + " < é")
				if r.bool() {
					txt = strings.ReplaceAll(txt, "é", []string{"&#233;", "&#xE9;"}[r.intn(2)])
				}
				b.WriteString(txt)
				if r.bool() {
					// the text starts on the line of the <p> tag and goes on, after a line break, on an indented line
					b.WriteString("<" + ns.el + "br/>" + nl(4) + xmlEsc("tail "+ttmlWord(r)+"x"))
				}
				b.WriteString("</" + ns.el + "p>")
				continue
			}
			nLines := 1 + r.intn(3)
			for l := 0; l < nLines; l++ {
				if l > 0 {
					b.WriteString(nl(4) + brTag)
					if r.chance(1, 8) {
						b.WriteString(nl(4) + brTag) // an empty line
					}
				}
				for k := r.intn(3) + 1; k > 0; k-- {
					txt := ttmlWord(r)
					if !indent && r.chance(1, 3) && strings.TrimSpace(txt) != "" {
						// text directly in the paragraph
						// followed by an element: two adjacent texts would be one text node
						b.WriteString(xmlEsc(txt))
						b.WriteString("<" + ns.el + "span>" + xmlEsc(ttmlWord(r)) + "</" + ns.el + "span>")
						continue
					}
					sat := [][2]string{}
					if nStyles > 0 && r.chance(1, 3) {
						sat = append(sat, [2]string{"style", styleIDs[r.intn(nStyles)]})
					}
					sat = append(sat, prefixed(ns, genTTMLAttrs(r, 2))...)
					sa := renderAttrs(r, ns, shuffle(r, sat))
					if indent && len(sat) > 0 && r.chance(1, 3) {
						// attributes wrapped on the next line (a line break inside the start tag)
						sa = nl(6) + strings.TrimPrefix(sa, " ")
					}
					b.WriteString(nl(4) + "<" + ns.el + "span" + sa + ">" + xmlEsc(txt))
					// line breaks inside the span
					for j := r.intn(6) - 3; j > 0; j-- {
						b.WriteString(brTag + xmlEsc(ttmlWord(r)))
					}
					b.WriteString("</" + ns.el + "span>")
				}
			}
			b.WriteString(nl(3) + "</" + ns.el + "p>")
		}
		b.WriteString(nl(2) + "</" + ns.el + "div>")
	}
	b.WriteString(nl(1) + "</" + ns.el + "body>" + nl(0) + "</" + ns.el + "tt>")
	if indent {
		b.WriteString("\n")
		if r.chance(1, 5) {
			return []byte(strings.ReplaceAll(b.String(), "\n", "\r\n"))
		}
	}
	return []byte(b.String())
}

// structural mutations: the error cases of the reader (unknown references, missing begin / end, bad times, …)
func mutateTTML(r *rng, d []byte) []byte {
	s := string(d)
	rep := func(old string, news ...string) {
		if i := strings.Index(s, old); i >= 0 {
			// replace one random occurrence
			var idx []int
			for j := 0; ; {
				k := strings.Index(s[j:], old)
				if k < 0 {
					break
				}
				idx = append(idx, j+k)
				j += k + len(old)
			}
			p := idx[r.intn(len(idx))]
			s = s[:p] + news[r.intn(len(news))] + s[p+len(old):]
		}
	}
	switch r.intn(10) {
	case 0:
		rep(` begin="`, ` start="`, ` Begin="`, ` x:begin="`, ` begin="00:00:01.000" p:begin="`)
	case 1:
		rep(` end="`, ` dur="`, ` end="x`, ` end="1.5`, ` end=" `)
	case 2:
		rep(` style="`, ` style="nope`, ` style="`, ` tts:style="`)
	case 3:
		rep(` region="`, ` region="nope`)
	case 4:
		rep(`zIndex="`, `zIndex="auto`, `zIndex=" `, `zIndex="`)
	case 5:
		rep(`br/>`, `BR/>`, `Br/>`, `br />`, `br>x</br>`, `br/><!-- c -->`)
	case 6:
		rep(`<span`, `<span><b>x</b>`, `<SPAN`, `<span xmlns:color="red"`, "<span\n")
	case 7:
		rep(`</span>`, `<i>nested<br/>deep</i></span>`, `</span> `, "</span>\n", `<![CDATA[<x>]]></span>`)
	case 8:
		rep(`:id="`, `:id="dup`, `:id="`, `:id="r0`)
	default:
		return mutateDoc(r, d)
	}
	return []byte(s)
}

var ttmlTimeSamples = []string{"00:01:05", "00:01:05:10", "1.001s", "2.3h", "201f", "4700023757t", "36000000001t", "12:34:56.789", "12:34:56:2",
	"123.4h", "123.4ms", "100f", "6t", "1:2:3", "01:05", "01:05.5", "5", "5.5", "", ":", "::", ":::", "1:2:3:4:5", "00:00:00:00", "99:59:59.999",
	"0.0s", "0s", "1.f", ".5s", "1.5", "1.5x", "1ms ", " 1ms", "1.5f", "2.9t", "18446744073709551616t", "9223372036854775808f", "9223372036854775807t",
	"9223372036854775807ns", "2562047.8h", "2562047.7h", "9223372036.854775807s", "9223372036.854775808s", "00:00:01.0000", "00:00:01.", "00:00:1.5",
	"-00:00:01.000", "00:-1:01.000", "+1:+2:+3.+4", "00:00:01,000", "00.5:00:01", "1.2.3s", "١s", "1h\n", "1H", "1.000000000000000000001s",
	"0.000000001s", "0.0000000019s", "0.0005ms", "00:00:00:99999999999999999999", "1:1:1: 5", "a:b:c:5", "00:00:01.5:10"}

func init() {
	// ttml.read: document bytes -> views of encoding/xml + what the reader returned
	streams["ttml.read"] = stream{exec: func(a []string) string { return ttmlViews(decBytes(a[0])) }, gen: func(c *ctx) {
		r := newRng(c.seed, "ttml.read")
		for _, d := range testdataDocs("ttml") {
			c.do("ttml.read " + encBytes(d))
			c.count("testdata")
			for k := 0; k < 20; k++ {
				c.do("ttml.read " + encBytes(mutateTTML(r, d)))
				c.count("testdata-mutated")
			}
		}
		n := 4000
		if c.thorough {
			n = 30000
		}
		for i := 0; i < n; i++ {
			d := genTTMLDoc(r)
			c.do("ttml.read " + encBytes(d))
			c.count("rendered")
			if i%2 == 0 {
				c.do("ttml.read " + encBytes(mutateTTML(r, d)))
				c.count("mutated")
			}
		}
	}}

	// ttml.write: indent option + canonical subs -> bytes written, views of the bytes, what the library's reader makes of them
	streams["ttml.write"] = stream{exec: func(a []string) string {
		s, _ := parseCanon(a[1:])
		var opts []astisub.WriteToTTMLOption
		if a[0] != "D" {
			opts = append(opts, astisub.WriteToTTMLWithIndentOption(decStr(a[0])))
		}
		var buf bytes.Buffer
		err := func() (err error) {
			defer func() {
				if rec := recover(); rec != nil {
					err = fmt.Errorf("PANIC: %v", rec)
				}
			}()
			return s.WriteToTTML(&buf, opts...)
		}()
		if err != nil {
			return errClass(err)
		}
		return "ok " + encBytes(buf.Bytes()) + " " + ttmlViews(buf.Bytes())
	}, gen: func(c *ctx) {
		r := newRng(c.seed, "ttml.write")
		n := 4000
		if c.thorough {
			n = 30000
		}
		for i := 0; i < n; i++ {
			s := genTTMLSubs(r)
			ind := "D"
			if r.chance(1, 2) {
				ind = encStr([]string{"", " ", "  ", "\t", "        ", "\n", " \t"}[r.intn(7)])
			}
			c.do("ttml.write " + ind + " " + canonSubs(s))
			c.count("generated")
		}
		c.do("ttml.write D " + canonSubs(largePlainSubs(r, 800)))
		c.count("large")
	}}
}

// genTTMLSubs: cue lists as the TTML reader (or another format's reader) would build them
func genTTMLSubs(r *rng) *astisub.Subtitles {
	s := astisub.NewSubtitles()
	mkAttrs := func(max int) *astisub.StyleAttributes {
		if r.chance(1, 3) {
			return nil
		}
		sa := &astisub.StyleAttributes{}
		v := reflect.ValueOf(sa).Elem()
		for _, p := range genTTMLAttrs(r, max) {
			name := "TTML" + strings.ToUpper(p[0][:1]) + p[0][1:]
			f := v.FieldByName(name)
			if p[0] == "zIndex" {
				z, err := strconv.Atoi(p[1])
				if err != nil {
					z = 3
				}
				f.Set(reflect.ValueOf(&z))
				continue
			}
			val := p[1]
			f.Set(reflect.ValueOf(&val))
		}
		if r.chance(1, 6) {
			// attributes of other formats are not carried by TTML
			sa.SRTBold = true
			sa.WebVTTAlign = "left"
		}
		return sa
	}
	nStyles := r.intn(5)
	var styles []*astisub.Style
	for i := 0; i < nStyles; i++ {
		st := &astisub.Style{ID: []string{"s", "style_", "é"}[r.intn(3)] + strconv.Itoa(i), InlineStyle: mkAttrs(4)}
		styles = append(styles, st)
		s.Styles[st.ID] = st
	}
	for i, st := range styles {
		if nStyles > 1 && r.chance(2, 3) {
			if p := r.intn(nStyles); p != i {
				st.Style = styles[p]
			}
		}
	}
	nRegions := r.intn(3)
	var regions []*astisub.Region
	for i := 0; i < nRegions; i++ {
		rg := &astisub.Region{ID: "r" + strconv.Itoa(i), InlineStyle: mkAttrs(3)}
		if nStyles > 0 && r.chance(1, 2) {
			rg.Style = styles[r.intn(nStyles)]
		}
		regions = append(regions, rg)
		s.Regions[rg.ID] = rg
	}
	if r.chance(2, 3) {
		s.Metadata = &astisub.Metadata{}
		if r.chance(2, 3) {
			s.Metadata.Title = "Title " + ttmlWord(r)
		}
		if r.chance(1, 2) {
			s.Metadata.TTMLCopyright = "(c) " + ttmlWord(r)
		}
		if r.chance(2, 3) {
			s.Metadata.Language = []string{astisub.LanguageEnglish, astisub.LanguageFrench, astisub.LanguageChinese, astisub.LanguageJapanese, astisub.LanguageNorwegian, "german", "en"}[r.intn(7)]
		}
		if r.chance(1, 4) {
			s.Metadata.Framerate = 25
		}
	}
	var t int64
	for c := r.intn(5); c > 0; c-- {
		if t != 0 || !r.chance(1, 6) {
			t += r.rangeI(0, 5000)
		}
		if r.chance(1, 10) {
			t += r.rangeI(0, 99) * 3600000
		}
		if t >= 100*3600000-20000 {
			t = 100*3600000 - 20000
		}
		e := t + r.rangeI(0, 9000)
		it := &astisub.Item{StartAt: timeDur(t * 1000000), EndAt: timeDur(e * 1000000), InlineStyle: mkAttrs(2)}
		if r.chance(1, 4) {
			it.StartAt += timeDur(r.rangeI(0, 999999))
			it.EndAt += timeDur(r.rangeI(0, 999999))
		}
		if nRegions > 0 && r.chance(1, 2) {
			it.Region = regions[r.intn(nRegions)]
		}
		if nStyles > 0 && r.chance(1, 2) {
			it.Style = styles[r.intn(nStyles)]
		}
		if r.chance(1, 40) {
			it.Style = &astisub.Style{ID: "dangling"}
		}
		for l := r.intn(4); l > 0; l-- {
			var ln astisub.Line
			for k := r.intn(4); k > 0; k-- {
				li := astisub.LineItem{Text: ttmlWord(r), InlineStyle: mkAttrs(2)}
				if r.chance(1, 400) {
					li.Text = "a\nb" // known finding: read back as two lines
				}
				if r.chance(1, 30) {
					li.Text = "cr\rtab\t nbsp"
				}
				if nStyles > 0 && r.chance(1, 3) {
					li.Style = styles[r.intn(nStyles)]
				}
				ln.Items = append(ln.Items, li)
			}
			it.Lines = append(it.Lines, ln)
		}
		s.Items = append(s.Items, it)
		t = e
	}
	return s
}
