package main

// C06 — teletext in MPEG-TS.  Ground truth (a page schedule) x multiplexing choices -> PES payloads
// (own teletext packet encoder: Hamming 8/4, odd parity, bit reversal) -> real transport streams
// (astits muxer) -> ReadFromTeletext.  See lean/Astisub/{Model,Spec,Driver}/Teletext.lean.

import (
	"bytes"
	"context"
	"fmt"
	"io/ioutil"
	"path/filepath"
	"sort"
	"strconv"
	"strings"

	astisub "github.com/asticode/go-astisub"
	"github.com/asticode/go-astits"
)

// ---------------------------------------------------------------- packet encoder (from ETS 300 706 / EN 300 472)

func rev8(b byte) byte {
	var o byte
	for i := 0; i < 8; i++ {
		if b&(1<<uint(i)) != 0 {
			o |= 1 << uint(7-i)
		}
	}
	return o
}

// ham84 encodes 4 data bits as a teletext Hamming 8/4 byte (bit 0 = first transmitted bit = P1)
func ham84(n int) byte {
	d1, d2, d3, d4 := n&1, n>>1&1, n>>2&1, n>>3&1
	p1 := 1 ^ d1 ^ d3 ^ d4
	p2 := 1 ^ d1 ^ d2 ^ d4
	p3 := 1 ^ d1 ^ d2 ^ d3
	p4 := 1 ^ p1 ^ d1 ^ p2 ^ d2 ^ p3 ^ d3 ^ d4
	return byte(p1 | d1<<1 | p2<<2 | d2<<3 | p3<<4 | d3<<5 | p4<<6 | d4<<7)
}

// oddPar adds the odd parity bit (bit 7) to a 7-bit character
func oddPar(c byte) byte {
	c &= 0x7f
	n := 0
	for i := 0; i < 7; i++ {
		n += int(c >> uint(i) & 1)
	}
	if n%2 == 0 {
		c |= 0x80
	}
	return c
}

// ham2418 encodes 18 data bits as a teletext Hamming 24/18 triplet (3 bytes, bit 0 of byte 0 first transmitted)
func ham2418(d uint32) [3]byte {
	var bit [25]uint32 // 1-indexed
	pos := []int{3, 5, 6, 7, 9, 10, 11, 12, 13, 14, 15, 17, 18, 19, 20, 21, 22, 23}
	for k, p := range pos {
		bit[p] = d >> uint(k) & 1
	}
	for _, p := range []int{1, 2, 4, 8, 16} {
		x := uint32(1)
		for q := 1; q <= 23; q++ {
			if q&p != 0 && q != p {
				x ^= bit[q]
			}
		}
		bit[p] = x
	}
	x := uint32(1)
	for q := 1; q <= 23; q++ {
		x ^= bit[q]
	}
	bit[24] = x
	var o [3]byte
	for q := 1; q <= 24; q++ {
		if bit[q] != 0 {
			o[(q-1)/8] |= 1 << uint((q-1)%8)
		}
	}
	return o
}

// a teletext packet as carried in a data unit: 44 bytes (field/line, framing code, address, 40 data bytes);
// every teletext byte is bit-reversed on its way into the transport stream
func ttPacket(mag, y int, data [40]byte, line byte) []byte {
	o := make([]byte, 44)
	o[0] = line
	o[1] = rev8(0x27) // framing code: 0xE4 in the stream
	a := (mag & 7) | (y&1)<<3
	o[2] = rev8(ham84(a))
	o[3] = rev8(ham84(y >> 1))
	for i, b := range data {
		o[4+i] = rev8(b)
	}
	return o
}

type ttHeader struct {
	mag, tens, units int
	erase, subtitle  bool
	serial           bool
	code             int // C12 | C13<<1 | C14<<2
	c7to10           int
	newsflash        bool
	sub              [4]int
}

func (h ttHeader) data() (d [40]byte) {
	d[0] = ham84(h.units)
	d[1] = ham84(h.tens)
	d[2] = ham84(h.sub[0] & 15)
	c4 := 0
	if h.erase {
		c4 = 8
	}
	d[3] = ham84(h.sub[1]&7 | c4)
	d[4] = ham84(h.sub[2] & 15)
	c56 := 0
	if h.newsflash {
		c56 |= 4
	}
	if h.subtitle {
		c56 |= 8
	}
	d[5] = ham84(h.sub[3]&3 | c56)
	d[6] = ham84(h.c7to10 & 15)
	s := 0
	if h.serial {
		s = 1
	}
	d[7] = ham84(s | h.code<<1)
	for i := 8; i < 40; i++ {
		d[i] = oddPar(' ')
	}
	return
}

// ---------------------------------------------------------------- ground truth

type ttRun struct {
	codes      []byte // 7-bit character codes 0x20..0x7f as transmitted and received
	color      int    // -1: none
	dh, dw, ds bool
}

type ttRow struct {
	y    int
	runs []ttRun
}

type ttInstance struct {
	pts  int64 // 90 kHz ticks
	rows []ttRow
}

type ttSchedule struct {
	mag, page int // page 0..99 (two decimal digits)
	code      int
	key       int // G0 designation (0 unless an X/28 or M/29 packet is sent)
	serial    bool
	inst      []ttInstance
}

func ptsNs(ticks int64) int64 { return ticks * 1000000000 / 90000 }

func flags(a, b, c bool) string {
	f := func(x bool) string {
		if x {
			return "1"
		}
		return "0"
	}
	return f(a) + f(b) + f(c)
}

// ttDesignated: the (G0 designation, national option code) pairs ETS 300 706 table 32 defines (as far as the package knows them)
func ttDesignated(key, code int) bool {
	switch key {
	case 0, 1, 2, 3:
		return code < 8
	case 4:
		return code < 7
	case 6:
		return code == 3 || code == 7
	case 8:
		return code == 0 || code == 1 || code == 7
	case 10:
		return code == 5 || code == 7
	}
	return false
}

// expected renders the cues the schedule denotes (G tokens); first/last are the extreme PTS of the PID.
// No ground truth is given when the designated character set does not exist (the text is then undefined).
func (s ttSchedule) expected(first, last int64) string {
	if !ttDesignated(s.key, s.code) {
		return ""
	}
	var o []string
	n := 0
	for k, in := range s.inst {
		if len(in.rows) == 0 {
			continue
		}
		n++
		end := last
		if k+1 < len(s.inst) {
			end = s.inst[k+1].pts
		}
		rows := append([]ttRow(nil), in.rows...)
		sort.SliceStable(rows, func(i, j int) bool { return rows[i].y < rows[j].y })
		o = append(o, "C", strconv.FormatInt(ptsNs(in.pts)-ptsNs(first), 10), strconv.FormatInt(ptsNs(end)-ptsNs(first), 10), strconv.Itoa(len(rows)))
		for _, r := range rows {
			o = append(o, "L", strconv.Itoa(len(r.runs)))
			for _, ru := range r.runs {
				col := "-"
				if ru.color >= 0 {
					col = strconv.Itoa(ru.color)
				}
				o = append(o, "R", col, flags(ru.dh, ru.dw, ru.ds), encBytes(ru.codes))
			}
		}
	}
	return strings.Join(append([]string{"G", strconv.Itoa(s.key), strconv.Itoa(s.code), strconv.Itoa(n)}, o...), " ")
}

var ttNational = []byte{0x23, 0x24, 0x40, 0x5b, 0x5c, 0x5d, 0x5e, 0x5f, 0x60, 0x7b, 0x7c, 0x7d, 0x7e}
var ttWords = []string{"Hello", "world", "WHAT?", "it's", "1 2 3", "- Yes.", "No!", "a", "I", "subtitle", "(music)", "42%", "x+y=z", "end.", "Où", "Zwölf"}

func genTTText(r *rng, max int) []byte {
	var b []byte
	for len(b) == 0 || (r.chance(1, 2) && len(b) < max-4) {
		if len(b) > 0 {
			b = append(b, ' ')
		}
		switch r.intn(4) {
		case 0: // national option positions
			for k := 1 + r.intn(3); k > 0; k-- {
				b = append(b, ttNational[r.intn(13)])
			}
		case 1: // any G0 character but space
			for k := 1 + r.intn(4); k > 0; k-- {
				b = append(b, byte(0x21+r.intn(0x5f)))
			}
		default:
			for _, c := range []byte(ttWords[r.intn(len(ttWords))]) {
				if c >= 0x21 && c < 0x7f {
					b = append(b, c)
				}
			}
		}
	}
	if len(b) > max {
		b = b[:max]
	}
	for len(b) > 0 && b[len(b)-1] == ' ' {
		b = b[:len(b)-1]
	}
	if len(b) == 0 {
		b = []byte{'x'}
	}
	return b
}

func genTTRow(r *rng, y int) ttRow {
	row := ttRow{y: y}
	n := 1
	if r.chance(1, 3) {
		n = 2 + r.intn(2)
	}
	budget := 30
	cur := ttRun{color: -1}
	if r.chance(1, 3) {
		cur.color = r.intn(8)
	}
	if r.chance(1, 5) {
		switch r.intn(3) {
		case 0:
			cur.dh = true
		case 1:
			cur.dw = true
		default:
			cur.ds = true
		}
	}
	for k := 0; k < n && budget > 3; k++ {
		if k > 0 { // change at least one attribute
			prev := cur
			for prev.color == cur.color && prev.dh == cur.dh && prev.dw == cur.dw && prev.ds == cur.ds {
				switch r.intn(5) {
				case 0, 1, 2:
					cur.color = r.intn(8)
				case 3: // grow the size flags
					switch r.intn(3) {
					case 0:
						cur.dh = true
					case 1:
						cur.dw = true
					default:
						cur.ds = true
					}
				default: // back to normal size (possibly one flag again)
					cur.dh, cur.dw, cur.ds = false, false, false
					if r.chance(1, 3) {
						cur.dh = true
					}
				}
			}
		}
		ru := cur
		ru.codes = genTTText(r, budget/(n-k)-2)
		if r.chance(1, 6) {
			ru.codes = append([]byte(" "), ru.codes...)
		}
		if r.chance(1, 6) {
			ru.codes = append(ru.codes, ' ')
		}
		budget -= len(ru.codes) + 3
		row.runs = append(row.runs, ru)
	}
	return row
}

// encodeRow renders a row as 40 parity-protected bytes; returns the row actually received when some
// characters are sent with a wrong parity bit (they vanish from the text)
func encodeRow(r *rng, row ttRow, badParity, afterBox bool) ([40]byte, ttRow) {
	var cells []byte
	got := ttRow{y: row.y}
	bad := map[int]bool{}
	emit := func(c ...byte) { cells = append(cells, c...) }
	for k := r.intn(3); k > 0; k-- {
		emit(' ')
	}
	cur := ttRun{color: -1}
	trans := func(to ttRun) {
		if to.color != cur.color && to.color >= 0 {
			emit(byte(to.color))
		}
		if (cur.dh && !to.dh) || (cur.dw && !to.dw) || (cur.ds && !to.ds) {
			emit(0x0c)
			cur.dh, cur.dw, cur.ds = false, false, false
		}
		if to.dh && !cur.dh {
			emit(0x0d)
		}
		if to.dw && !cur.dw {
			emit(0x0e)
		}
		if to.ds && !cur.ds {
			emit(0x0f)
		}
		cur = to
	}
	first := row.runs[0]
	pre := r.bool() // attributes of the first run before or after the start box
	if pre {
		trans(first)
	}
	emit(0x0b)
	if r.bool() {
		emit(0x0b)
	}
	for k, ru := range row.runs {
		if k > 0 || !pre {
			trans(ru)
		}
		g := ru
		g.codes = nil
		for _, c := range ru.codes {
			if badParity && c != ' ' && r.chance(1, 12) {
				bad[len(cells)] = true
			} else {
				g.codes = append(g.codes, c)
			}
			emit(c)
		}
		if len(strings.TrimSpace(string(g.codes))) > 0 {
			got.runs = append(got.runs, g)
		}
		if r.chance(1, 8) { // inert codes inside the box: flash, steady, conceal, mosaics ...
			emit([]byte{0x08, 0x09, 0x18, 0x1d, 0x11, 0x1c, 0x1b}[r.intn(7)])
		}
	}
	if r.chance(3, 4) {
		emit(0x0a)
		if r.bool() {
			emit(0x0a)
		}
	}
	if len(cells) > 40 {
		panic("row too long")
	}
	ended := len(cells) > 0 && cells[len(cells)-1] == 0x0a
	if ended && afterBox {
		// attribute codes and characters after the end box concern no boxed text
		for k := 1 + r.intn(3); k > 0 && len(cells) < 38; k-- {
			switch r.intn(3) {
			case 0:
				emit(byte(r.intn(8)))
			case 1:
				emit('z')
			default:
				emit(' ')
			}
		}
		if r.chance(1, 3) && len(cells) < 40 {
			if cur.dh {
				emit(0x0c)
			} else {
				emit(0x0d)
			}
		}
	}
	var d [40]byte
	for i := 0; i < 40; i++ {
		c := byte(' ')
		if i < len(cells) {
			c = cells[i]
		}
		d[i] = oddPar(c)
		if bad[i] {
			d[i] ^= 0x80
		}
	}
	return d, got
}

// ---------------------------------------------------------------- multiplex

type ttUnit struct {
	id   byte
	data []byte // 44 bytes for well-formed units
}

type ttPES struct {
	pts   int64
	units []ttUnit
	tail  []byte // bytes after the last complete data unit: too short to be one (stuffing, a cut unit); ignored
}

func (p ttPES) payload(ident byte) []byte {
	o := []byte{ident}
	for _, u := range p.units {
		o = append(o, u.id, byte(len(u.data)))
		o = append(o, u.data...)
	}
	return append(o, p.tail...)
}

type ttMux struct {
	pes []ttPES
	cur *ttPES
	r   *rng
}

func (m *ttMux) flush() {
	if m.cur != nil {
		m.pes = append(m.pes, *m.cur)
		m.cur = nil
	}
}

// add appends a unit to the current PES; start=true forces the unit to be the beginning of a group whose
// time is `pts` (a new PES is opened when the time differs)
func (m *ttMux) add(pts int64, u ttUnit) {
	if m.cur != nil && (m.cur.pts != pts || len(m.cur.units) >= 12 || m.r.chance(1, 5)) {
		m.flush()
	}
	if m.cur == nil {
		m.cur = &ttPES{pts: pts}
	}
	m.cur.units = append(m.cur.units, u)
}

// addTails leaves bytes after the last complete data unit of some PES payloads: too short to be a data unit
// (a stray byte, an id and a length that runs beyond the payload, a unit cut short). Such a payload is not
// well-formed EN 300 472 framing, so the cases carry no ground truth; the reader ignores the tail.
func addTails(r *rng, c *ttCase) {
	for i := range c.pes {
		if !r.chance(1, 3) {
			continue
		}
		switch r.intn(3) {
		case 0:
			c.pes[i].tail = []byte{[]byte{0xff, 0x03, 0x02, 0x00}[r.intn(4)]}
		case 1:
			c.pes[i].tail = []byte{0x03, 0x2c}
		default:
			c.pes[i].tail = append([]byte{0x03, 0x2c, 0xe7, 0xe4}, make([]byte, r.intn(20))...)
		}
	}
}

func subUnit(pkt []byte) ttUnit { return ttUnit{id: 0x03, data: pkt} }

func lineByte(r *rng) byte { return 0xc0 | byte(r.intn(2))<<5 | byte(7+r.intn(16)) }

func rawTriplet(t uint32) [3]byte { return [3]byte{byte(t), byte(t >> 8), byte(t >> 16)} }

// designation packet X/28 or M/29 in the convention the library reads (raw little-endian triplet, no 24/18 coding)
func desigPacket(r *rng, mag, y, dc int, t uint32) []byte {
	var d [40]byte
	d[0] = ham84(dc)
	tr := rawTriplet(t)
	// the library reads the stream bytes as they are: undo the bit reversal ttPacket applies
	d[1], d[2], d[3] = rev8(tr[0]), rev8(tr[1]), rev8(tr[2])
	for i := 4; i < 40; i++ {
		d[i] = byte(r.intn(256))
	}
	return ttPacket(mag, y, d, lineByte(r))
}

func noisePacket(r *rng, mag, y int) []byte {
	var d [40]byte
	d[0] = ham84(r.intn(16))
	for i := 1; i < 40; i++ {
		x := ham2418(uint32(r.intn(1 << 18)))
		d[i] = x[i%3]
	}
	return ttPacket(mag, y, d, lineByte(r))
}

func textPacket(r *rng, mag, y int, text string) []byte {
	var d [40]byte
	cells := append([]byte{0x0b, 0x0b}, []byte(text)...)
	for i := 0; i < 40; i++ {
		c := byte(' ')
		if i < len(cells) {
			c = cells[i]
		}
		d[i] = oddPar(c)
	}
	return ttPacket(mag, y, d, lineByte(r))
}

type ttCase struct {
	sched    ttSchedule
	pes      []ttPES
	auto     bool // page option 0
	wellForm bool
	varCode  bool // the national option changes between instances of the page: no single-code ground truth
}

func (c ttCase) pageOpt() int {
	if c.auto {
		return 0
	}
	return c.sched.mag*100 + c.sched.page
}

func (c ttCase) firstLast() (int64, int64) {
	f, l := c.pes[0].pts, c.pes[0].pts
	for _, p := range c.pes {
		if p.pts < f {
			f = p.pts
		}
		if p.pts > l {
			l = p.pts
		}
	}
	return f, l
}

// distractor emits a complete other page (header + rows) ; same magazine or not
func (m *ttMux) distractor(pts int64, s ttSchedule, sameMag bool, allowSubtitle bool, hexPage bool) {
	r := m.r
	mag := s.mag
	tens, units := s.page/10, s.page%10
	if !sameMag {
		for mag == s.mag {
			mag = 1 + r.intn(8)
		}
		if r.bool() { // same page number in another magazine
			tens, units = r.intn(10), r.intn(10)
		}
	} else {
		for tens == s.page/10 && units == s.page%10 {
			tens, units = r.intn(10), r.intn(10)
		}
	}
	if hexPage {
		switch {
		case sameMag && s.page/10 >= 1 && s.page%10 <= 5 && r.bool():
			tens, units = s.page/10-1, s.page%10+10 // a hexadecimal page number whose "decimal value" is the selected one
		case r.bool():
			tens = 10 + r.intn(6)
		default:
			units = 10 + r.intn(6)
		}
	}
	if tens == 15 && units == 15 {
		tens = 14
	}
	h := ttHeader{mag: mag, tens: tens, units: units, serial: s.serial, code: r.intn(8), subtitle: allowSubtitle && r.chance(1, 3), erase: r.bool()}
	m.add(pts, subUnit(ttPacket(mag, 0, h.data(), lineByte(r))))
	if r.chance(1, 3) {
		// the other page designates its own character set (X/28, format 1): none of the selected page's business, also
		// when both pages are in the same magazine
		key := []int{0, 1, 2, 3, 4, 6, 8, 10}[r.intn(8)]
		for key == s.key {
			key = []int{0, 1, 2, 3, 4, 6, 8, 10}[r.intn(8)]
		}
		t := uint32(key)<<10 | uint32(r.intn(8))<<7 | uint32(r.intn(8))<<4 | uint32(r.intn(1024))<<14
		m.add(pts, subUnit(desigPacket(r, mag, 28, []int{0, 4}[r.intn(2)], t)))
	}
	for k := r.intn(4); k > 0; k-- {
		m.add(pts, subUnit(textPacket(r, mag, 1+r.intn(24), "OTHER PAGE "+strconv.Itoa(mag*100+tens*10+units))))
	}
}

// genTTCase builds a schedule and one multiplex of it.  level 0: plain; 1: + distractors/stuffing; 2: + designation packets, bad parity
func genTTCase(r *rng, level int) ttCase {
	s := ttSchedule{mag: 1 + r.intn(8), page: r.intn(100), code: 0, serial: r.bool()}
	if r.chance(2, 3) {
		s.code = r.intn(8)
	}
	if s.mag == 8 && s.page == 88 && r.bool() {
		s.page = 89
	}
	c := ttCase{sched: s, auto: r.chance(1, 3), wellForm: true}
	m := &ttMux{r: r}
	pts := r.rangeI(0, 1<<20)
	if r.chance(1, 10) {
		pts = r.rangeI(0, 1<<33-1<<24)
	}
	zeroStart := r.chance(1, 8) // the clock starts with the stream: the first page instance is stamped 0
	if zeroStart {
		pts = 0
	}
	useX28 := level >= 2 && r.chance(1, 4)
	useM29 := level >= 2 && r.chance(1, 4)
	if useX28 || useM29 {
		s.key = []int{0, 1, 2, 3, 4, 6, 8, 10, 5, 7, 9}[r.intn(11)]
	}
	desig := func(y int) []byte {
		t := uint32(s.key)<<10 | uint32(r.intn(8))<<7 | uint32(r.intn(8))<<4 | uint32(r.intn(1024))<<14
		dc := []int{0, 4}[r.intn(2)]
		return desigPacket(r, s.mag, y, dc, t)
	}
	inert := func(pts int64) { // units that must not matter
		switch r.intn(6) {
		case 0:
			st := make([]byte, 44)
			for i := range st {
				st[i] = 0xff
			}
			m.add(pts, ttUnit{id: 0xff, data: st})
		case 1: // non-subtitle data unit carrying a row of the selected page
			m.add(pts, ttUnit{id: 0x02, data: textPacket(r, s.mag, 1+r.intn(24), "NOT A SUBTITLE")})
		case 2: // 8/30 broadcast service data
			m.add(pts, subUnit(noisePacket(r, 8, 30)))
		case 3: // X/26, X/27 enhancement / links of the current page
			m.add(pts, subUnit(noisePacket(r, s.mag, 26+r.intn(2))))
		case 4: // X/28 of a format or designation the reader does not use
			var d [40]byte
			d[0] = ham84([]int{1, 2, 3, 5}[r.intn(4)])
			for i := 1; i < 40; i++ {
				d[i] = byte(r.intn(256))
			}
			m.add(pts, subUnit(ttPacket(s.mag, 28, d, lineByte(r))))
		default: // other data unit ids
			m.add(pts, ttUnit{id: []byte{0xc3, 0xc4, 0xc5, 0x00}[r.intn(4)], data: noisePacket(r, s.mag, 1+r.intn(24))})
		}
	}
	n := r.intn(5)
	if level == 0 && n == 0 {
		n = 1
	}
	selected := false
	if level >= 1 && r.chance(1, 6) {
		// presentation times need not be monotonic: the stream opens with a PES that is later than the following ones
		inert(pts + r.rangeI(1, 90000))
	}
	for k := 0; k < n; k++ {
		// things between instances
		if level >= 1 {
			for j := r.intn(3); j > 0; j-- {
				if r.chance(1, 3) {
					pts += r.rangeI(0, 90000)
				}
				if r.bool() {
					m.distractor(pts, s, r.bool(), selected || !c.auto, level >= 2 && r.chance(1, 6))
				} else {
					inert(pts)
				}
			}
			if useM29 && r.bool() {
				m.add(pts, subUnit(desig(29)))
			}
		}
		if !(k == 0 && zeroStart && pts == 0) {
			pts += r.rangeI(1, 5*90000)
		}
		in := ttInstance{pts: pts}
		h := ttHeader{mag: s.mag, tens: s.page / 10, units: s.page % 10, serial: s.serial, code: s.code, subtitle: true, erase: r.bool(),
			c7to10: r.intn(16), newsflash: r.chance(1, 8), sub: [4]int{r.intn(16), r.intn(8), r.intn(16), r.intn(4)}}
		if !c.auto && r.chance(1, 4) {
			h.subtitle = false // an explicitly selected page need not be flagged
		}
		if level >= 1 && !useX28 && !useM29 && r.chance(1, 4) {
			// the national option (C12-C14) may change from one transmission of the page to the next
			h.code = r.intn(8)
			if h.code != s.code {
				c.varCode = true
			}
		}
		m.add(pts, subUnit(ttPacket(s.mag, 0, h.data(), lineByte(r))))
		selected = true
		nrows := 1 + r.intn(4)
		if r.chance(1, 5) {
			nrows = 0 // erase page
		}
		ys := map[int]bool{}
		var rows []ttRow
		for len(rows) < nrows {
			y := 1 + r.intn(24)
			if ys[y] {
				continue
			}
			ys[y] = true
			rows = append(rows, genTTRow(r, y))
		}
		if r.chance(3, 4) {
			sort.Slice(rows, func(i, j int) bool { return rows[i].y < rows[j].y })
		}
		upts := pts
		for _, row := range rows {
			if level >= 1 && r.chance(1, 6) {
				inert(upts)
			}
			if level >= 1 && !s.serial && r.chance(1, 5) {
				// parallel mode: packets of other magazines may be interleaved
				m.distractor(upts, s, false, true, false)
			}
			if useX28 && r.chance(1, 2) {
				m.add(upts, subUnit(desig(28)))
			}
			if level >= 1 && r.chance(1, 8) {
				upts += r.rangeI(1, 3000) // the instance continues in a later PES
			}
			d, got := encodeRow(r, row, level >= 2 && r.chance(1, 4), level >= 2 && r.chance(1, 4))
			m.add(upts, subUnit(ttPacket(s.mag, row.y, d, lineByte(r))))
			if len(got.runs) > 0 {
				in.rows = append(in.rows, got)
			} else {
				// every character of the row failed parity: a row without text (no line), but the instance is not empty
				in.rows = append(in.rows, ttRow{y: row.y})
			}
		}
		pts = upts
		s.inst = append(s.inst, in)
	}
	if level >= 1 {
		for j := r.intn(3); j > 0; j-- {
			pts += r.rangeI(0, 90000)
			if r.bool() {
				m.distractor(pts, s, r.bool(), selected || !c.auto, false)
			} else {
				inert(pts)
			}
		}
	}
	if level >= 1 && r.chance(1, 6) {
		back := r.rangeI(0, 45000)
		if back > pts {
			back = pts
		}
		inert(pts - back) // ... and may close with one that is earlier than the last
	}
	if s.key != 0 && selected {
		// the ground truth is written in a non-default set: make sure a magazine-level designation is on air
		m.add(pts, subUnit(desig(29)))
	}
	m.flush()
	if len(m.pes) == 0 {
		m.pes = []ttPES{{pts: pts}}
	}
	c.sched = s
	c.pes = m.pes
	return c
}

func (c ttCase) gTokens() string {
	if c.varCode {
		return ""
	}
	f, l := c.firstLast()
	return c.sched.expected(f, l)
}

// ---------------------------------------------------------------- transport stream

type ttTSOpts struct {
	pid        uint16
	otherFirst bool // an elementary stream without teletext descriptor is listed first in the PMT
	secondTT   bool // a second teletext PID (listed later) carries other pages
	video      bool
	period     int
	vbi        bool
	emptyDesc  bool // the teletext descriptor lists no page (zero-length descriptor)
	pcrOnly    bool // unused
}

func pesData(streamID uint8, pts int64, data []byte) *astits.PESData {
	return &astits.PESData{Data: data, Header: &astits.PESHeader{StreamID: streamID, OptionalHeader: &astits.PESOptionalHeader{
		MarkerBits: 2, PTSDTSIndicator: astits.PTSDTSIndicatorOnlyPTS, PTS: &astits.ClockReference{Base: pts}}}}
}

func ttDescriptor(vbi bool) *astits.Descriptor {
	d := &astits.DescriptorTeletext{Items: []*astits.DescriptorTeletextItem{{Language: []byte("eng"), Magazine: 0, Page: 88, Type: astits.TeletextTypeTeletextSubtitlePage}}}
	if vbi {
		return &astits.Descriptor{Tag: astits.DescriptorTagVBITeletext, Length: 5, VBITeletext: d}
	}
	return &astits.Descriptor{Tag: astits.DescriptorTagTeletext, Length: 5, Teletext: d}
}

func ttDescriptorOpt(vbi, empty bool) *astits.Descriptor {
	d := ttDescriptor(vbi)
	if empty {
		d.Length = 0
		if d.Teletext != nil {
			d.Teletext = &astits.DescriptorTeletext{}
		}
		if d.VBITeletext != nil {
			d.VBITeletext = &astits.DescriptorTeletext{}
		}
	}
	return d
}

func buildTS(r *rng, c ttCase, o ttTSOpts) []byte {
	var buf bytes.Buffer
	mx := astits.NewMuxer(context.Background(), &buf, astits.MuxerOptTablesRetransmitPeriod(o.period))
	if o.video {
		mx.AddElementaryStream(astits.PMTElementaryStream{ElementaryPID: 0x31, StreamType: astits.StreamTypeH264Video})
		mx.SetPCRPID(0x31)
	}
	if !o.video {
		mx.SetPCRPID(o.pid) // the muxer refuses to write a PMT without a PCR PID
	}
	if o.otherFirst {
		mx.AddElementaryStream(astits.PMTElementaryStream{ElementaryPID: o.pid - 1, StreamType: astits.StreamTypePrivateData})
	}
	mx.AddElementaryStream(astits.PMTElementaryStream{ElementaryPID: o.pid, StreamType: astits.StreamTypePrivateData,
		ElementaryStreamDescriptors: []*astits.Descriptor{ttDescriptorOpt(o.vbi, o.emptyDesc)}})
	if o.secondTT {
		mx.AddElementaryStream(astits.PMTElementaryStream{ElementaryPID: o.pid + 1, StreamType: astits.StreamTypePrivateData,
			ElementaryStreamDescriptors: []*astits.Descriptor{ttDescriptor(false)}})
	}
	for _, p := range c.pes {
		if o.video && r.chance(1, 2) {
			mx.WriteData(&astits.MuxerData{PID: 0x31, PES: pesData(0xe0, p.pts, []byte{0, 0, 0, 1, 9, 0xf0, byte(r.intn(256))})})
		}
		if o.otherFirst && r.chance(1, 3) {
			// the same page on a PID that is not announced as teletext
			q := ttPES{pts: p.pts + 7, units: []ttUnit{subUnit(ttPacket(c.sched.mag, 0, ttHeader{mag: c.sched.mag, tens: c.sched.page / 10, units: c.sched.page % 10, subtitle: true}.data(), 0xe7)),
				subUnit(textPacket(r, c.sched.mag, 5, "WRONG PID"))}}
			mx.WriteData(&astits.MuxerData{PID: o.pid - 1, PES: pesData(0xbd, q.pts, q.payload(0x10))})
		}
		if o.secondTT && r.chance(1, 3) {
			q := ttPES{pts: p.pts + 11, units: []ttUnit{subUnit(ttPacket(c.sched.mag, 0, ttHeader{mag: c.sched.mag, tens: c.sched.page / 10, units: c.sched.page % 10, subtitle: true}.data(), 0xe7)),
				subUnit(textPacket(r, c.sched.mag, 6, "SECOND TELETEXT PID"))}}
			mx.WriteData(&astits.MuxerData{PID: o.pid + 1, PES: pesData(0xbd, q.pts, q.payload(0x10))})
		}
		md := &astits.MuxerData{PID: o.pid, PES: pesData(0xbd, p.pts, p.payload(0x10))}
		if !o.video && r.chance(1, 3) {
			// the teletext PID is the programme's PCR PID here: some of its PES packets start in a TS packet whose
			// adaptation field carries a PCR (another time base than the PTS: cue times must come from the PTS)
			md.AdaptationField = &astits.PacketAdaptationField{HasPCR: true, PCR: &astits.ClockReference{Base: p.pts + 63000 + int64(r.intn(90000))}}
		}
		mx.WriteData(md)
	}
	return buf.Bytes()
}

// ---------------------------------------------------------------- the demultiplexer's view (contract)

// demuxRecord replays the calls ReadFromTeletext makes on the demultiplexer and prints what it delivered:
//
//	M n pid:tag,tag.. ...   PMT (elementary streams with their descriptor tags)
//	P pid streamid pts|- pcr|- x<payload>     PES
//	O other data, Z a nil data without error, E end of stream, X another error, R rewind (RX: rewind failed)
func demuxRecord(ts []byte, pidOpt int) string {
	var o []string
	dmx := astits.NewDemuxer(context.Background(), bytes.NewReader(ts))
	tok := func(d *astits.DemuxerData) (string, bool) {
		switch {
		case d == nil:
			return "Z", false
		case d.PMT != nil:
			s := []string{"M", strconv.Itoa(len(d.PMT.ElementaryStreams))}
			for _, es := range d.PMT.ElementaryStreams {
				var tags []string
				for _, dsc := range es.ElementaryStreamDescriptors {
					tags = append(tags, strconv.Itoa(int(dsc.Tag)))
				}
				s = append(s, fmt.Sprintf("%d:%s", es.ElementaryPID, strings.Join(tags, ",")))
			}
			return strings.Join(s, " "), true
		case d.PES != nil:
			pts, pcr, sid := "-", "-", "-"
			if d.PES.Header != nil {
				sid = strconv.Itoa(int(d.PES.Header.StreamID))
				if d.PES.Header.OptionalHeader != nil && d.PES.Header.OptionalHeader.PTS != nil {
					pts = strconv.FormatInt(d.PES.Header.OptionalHeader.PTS.Time().UnixNano(), 10)
				}
			}
			if d.FirstPacket != nil && d.FirstPacket.AdaptationField != nil && d.FirstPacket.AdaptationField.PCR != nil {
				pcr = strconv.FormatInt(d.FirstPacket.AdaptationField.PCR.Time().UnixNano(), 10)
			}
			return fmt.Sprintf("P %d %s %s %s %s", d.PID, sid, pts, pcr, encBytes(d.PES.Data)), false
		}
		return "O", false
	}
	pass := func(stopAtPMT bool) bool {
		for {
			d, err := dmx.NextData()
			if err != nil {
				if err == astits.ErrNoMorePackets {
					o = append(o, "E")
				} else {
					o = append(o, "X")
				}
				return false
			}
			t, pmt := tok(d)
			o = append(o, t)
			if pmt && stopAtPMT {
				return true
			}
		}
	}
	if pidOpt <= 0 {
		if !pass(true) {
			return strings.Join(o, " ")
		}
		if _, err := dmx.Rewind(); err != nil {
			o = append(o, "RX")
			return strings.Join(o, " ")
		}
		o = append(o, "R")
	}
	pass(false)
	return strings.Join(o, " ")
}

func ttReadOut(ts []byte, page, pid int) string {
	ans := guard(func() string {
		s, err := astisub.ReadFromTeletext(bytes.NewReader(ts), astisub.TeletextOptions{Page: page, PID: pid})
		if err != nil {
			return "err"
		}
		return "ok " + canonSubs(s)
	})
	rec := guard(func() string { return demuxRecord(ts, pid) })
	return ans + " D " + rec
}

func mutateBytes(r *rng, d []byte, lo int) []byte {
	md := append([]byte(nil), d...)
	for k := r.intn(3) + 1; k > 0 && len(md) > lo; k-- {
		i := lo + r.intn(len(md)-lo)
		switch r.intn(6) {
		case 0:
			md[i] = byte(r.intn(256))
		case 1:
			md[i] ^= 1 << uint(r.intn(8))
		case 2:
			md = md[:i]
		case 3:
			md = append(md[:i], md[i+1:]...)
		case 4:
			md = append(md[:i], append([]byte{byte(r.intn(256))}, md[i:]...)...)
		default:
			md[i] = []byte{0x00, 0xff, 0x03, 0x2c, 0xe4, 0x10, 0x02}[r.intn(7)]
		}
	}
	return md
}

// mutateTS damages whole 188-byte packets or single bytes of a transport stream
func mutateTS(r *rng, ts []byte) []byte {
	md := append([]byte(nil), ts...)
	n := len(md) / 188
	if n == 0 {
		return md
	}
	switch r.intn(8) {
	case 6, 7: // parity errors: the top bit of a few payload bytes is inverted (a character of a row then fails its check)
		for j := 1 + r.intn(12); j > 0; j-- {
			k := r.intn(n)
			md[k*188+4+r.intn(184)] ^= 0x80
		}
	case 0: // drop a packet
		k := r.intn(n)
		md = append(md[:k*188], md[(k+1)*188:]...)
	case 1: // truncate at a packet boundary
		md = md[:r.intn(n+1)*188]
	case 2: // duplicate a packet
		k := r.intn(n)
		md = append(md[:(k+1)*188], md[k*188:]...)
	case 3: // flip payload bytes (not the sync byte)
		for j := 1 + r.intn(4); j > 0; j-- {
			k := r.intn(n)
			md[k*188+4+r.intn(184)] ^= byte(1 + r.intn(255))
		}
	case 4: // change the PID of a packet to an unannounced one
		k := r.intn(n)
		md[k*188+1] = md[k*188+1]&0xe0 | 0x1e
		md[k*188+2] = byte(r.intn(256))
	default: // append a packet of an unknown PID with arbitrary payload
		p := make([]byte, 188)
		p[0], p[1], p[2], p[3] = 0x47, 0x40|0x1d, byte(r.intn(256)), 0x10
		for i := 4; i < 188; i++ {
			p[i] = byte(r.intn(256))
		}
		md = append(md, p...)
	}
	return md
}

func init() {
	// teletext.read: page pid x<ts> [G ...]  — the whole reader on a real transport stream
	streams["teletext.read"] = stream{exec: func(a []string) string {
		return ttReadOut(decBytes(a[2]), int(atoi64(a[0])), int(atoi64(a[1])))
	}, gen: func(c *ctx) {
		r := newRng(c.seed, "teletext.read")
		files, _ := filepath.Glob("/repo/testdata/*.ts")
		for _, f := range files {
			if b, err := ioutil.ReadFile(f); err == nil && len(b) < 4<<20 {
				c.do(fmt.Sprintf("teletext.read 0 0 %s", encBytes(b)))
				c.count("testdata")
			}
		}
		n := 600
		if c.thorough {
			n = 12000
		}
		for i := 0; i < n; i++ {
			tc := genTTCase(r, i%3)
			o := ttTSOpts{pid: uint16(0x100 + r.intn(0xe00)), otherFirst: r.chance(1, 3), secondTT: r.chance(1, 3), video: r.bool(),
				period: []int{1, 2, 5, 40}[r.intn(4)], vbi: r.chance(1, 5)}
			ts := buildTS(r, tc, o)
			pid := 0
			if r.bool() {
				pid = int(o.pid)
			}
			c.do(strings.TrimSpace(fmt.Sprintf("teletext.read %d %d %s %s", tc.pageOpt(), pid, encBytes(ts), tc.gTokens())))
			c.count("generated")
			if i%4 == 0 {
				c.do(fmt.Sprintf("teletext.read %d %d %s", tc.pageOpt(), pid, encBytes(mutateTS(r, ts))))
				c.count("mutated")
			}
			if i%8 == 1 { // payloads with bytes left over after the last data unit
				addTails(r, &tc)
				c.do(fmt.Sprintf("teletext.read %d %d %s", tc.pageOpt(), pid, encBytes(buildTS(r, tc, o))))
				c.count("tails")
			}
			if i%25 == 0 { // wrong options: a PID that carries no teletext, a page that is not on air
				c.do(fmt.Sprintf("teletext.read %d %d %s", tc.pageOpt(), 0x31, encBytes(ts)))
				c.do(fmt.Sprintf("teletext.read %d %d %s", 100+r.intn(800), pid, encBytes(ts)))
				c.count("options")
			}
		}
		// streams without PMT / without teletext descriptor / empty
		c.do("teletext.read 0 0 x")
		c.do("teletext.read 888 0 x")
		c.do("teletext.read 888 256 x")
		{
			var buf bytes.Buffer
			mx := astits.NewMuxer(context.Background(), &buf)
			mx.AddElementaryStream(astits.PMTElementaryStream{ElementaryPID: 0x31, StreamType: astits.StreamTypeH264Video})
			mx.SetPCRPID(0x31)
			mx.WriteData(&astits.MuxerData{PID: 0x31, PES: pesData(0xe0, 900, []byte{0, 0, 1, 9})})
			c.do("teletext.read 0 0 " + encBytes(buf.Bytes()))
			c.do("teletext.read 0 49 " + encBytes(buf.Bytes()))
			c.count("noteletext")
		}
	}}
}

// teletext reading as an independent operation of the concurrency batches (C20) and of the
// schedule / fault streams (C17, C18)
func ttSampleTS(seed uint64) (ts []byte, page, pid int) {
	r := newRng(seed, "tt-sample")
	tc := genTTCase(r, int(seed%3))
	o := ttTSOpts{pid: uint16(0x100 + r.intn(0xe00)), video: r.bool(), period: 5}
	return buildTS(r, tc, o), tc.pageOpt(), 0
}

func init() {
	ttSample = func(seed uint64) []byte { ts, _, _ := ttSampleTS(seed); return ts }
	extraConcOps = append(extraConcOps, func(seed uint64) string {
		ts, page, pid := ttSampleTS(seed % 40)
		s, err := astisub.ReadFromTeletext(bytes.NewReader(ts), astisub.TeletextOptions{Page: page, PID: pid})
		if err != nil {
			return "ts:err"
		}
		return "ts:" + canonSubs(s)
	})
}
