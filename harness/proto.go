package main

import (
	"encoding/hex"
	"fmt"
	"io"
	"os"
	"reflect"
	"strconv"
	"strings"
	"sync"
	"sync/atomic"
	"time"

	astisub "github.com/asticode/go-astisub"
)

func encStr(s string) string   { return "x" + hex.EncodeToString([]byte(s)) }
func encBytes(b []byte) string { return "x" + hex.EncodeToString(b) }

// mItem is the harness-side mirror of the Lean `Item`
type mItem struct {
	uid        int
	start, end int64
	pay        int
	lines      [][]string
}

func encLines(ls [][]string) string {
	if len(ls) == 0 {
		return "-"
	}
	var o []string
	for _, l := range ls {
		if len(l) == 0 {
			o = append(o, "-")
			continue
		}
		var rs []string
		for _, r := range l {
			rs = append(rs, encStr(r))
		}
		o = append(o, strings.Join(rs, ";"))
	}
	return strings.Join(o, "/")
}

func (m mItem) enc() string {
	return fmt.Sprintf("%d,%d,%d,%d,%s", m.uid, m.start, m.end, m.pay, encLines(m.lines))
}

func encMItems(xs []mItem) string {
	o := []string{strconv.Itoa(len(xs))}
	for _, x := range xs {
		o = append(o, x.enc())
	}
	return strings.Join(o, " ")
}

// refTable: the style and region objects each payload-carrying cue was built with (by payload); a cue, or a piece cut
// from it, must still refer to these very objects after an operation — not to another definition of the same identifier
type refPair struct {
	st *astisub.Style
	rg *astisub.Region
}

// one table per built list, found through the list's id table (lists are built concurrently by conc.batch)
var refTables sync.Map

type refEntry struct {
	ids map[*astisub.Item]int // kept alive here: its address is the key, and must not be handed to another list
	t   map[int]refPair
}

func refsOf(ids map[*astisub.Item]int) map[int]refPair {
	k := reflect.ValueOf(ids).Pointer()
	if e, ok := refTables.Load(k); ok {
		return e.(refEntry).t
	}
	e := refEntry{ids, map[int]refPair{}}
	refTables.Store(k, e)
	return e.t
}

// build turns an mItem into a real *astisub.Item whose every optional part carries the payload tag
func (m mItem) build() *astisub.Item {
	it := &astisub.Item{StartAt: time.Duration(m.start), EndAt: time.Duration(m.end)}
	if m.pay != 0 {
		c := "p" + strconv.Itoa(m.pay)
		it.Index = m.pay
		it.Comments = []string{"c" + strconv.Itoa(m.pay)}
		it.Style = &astisub.Style{ID: "s" + strconv.Itoa(m.pay)}
		it.Region = &astisub.Region{ID: "r" + strconv.Itoa(m.pay)}
		it.InlineStyle = &astisub.StyleAttributes{SRTColor: &c}
	}
	for li, l := range m.lines {
		var ln astisub.Line
		if m.pay != 0 {
			ln.VoiceName = "v" + strconv.Itoa(m.pay)
		}
		for k, r := range l {
			ln.Items = append(ln.Items, astisub.LineItem{Text: r, StartAt: runInstant(m.pay, li, k)})
		}
		it.Lines = append(it.Lines, ln)
	}
	return it
}

// runInstant: the in-cue instant (WebVTT inline timestamp) every run of a payload-carrying cue is given; the
// operations on the cue list never touch it
func runInstant(pay, line, run int) time.Duration {
	if pay == 0 {
		return 0
	}
	return time.Duration(pay*100+line*10+run+1) * time.Millisecond
}

// payOf recovers the payload tag of an item; 999999 = payload corrupted / inconsistent
func payOf(it *astisub.Item) int {
	if it.Index == 0 && it.Style == nil && it.Region == nil && it.InlineStyle == nil && len(it.Comments) == 0 {
		return 0
	}
	p := it.Index
	ps := strconv.Itoa(p)
	if p == 0 || it.Style == nil || it.Style.ID != "s"+ps || it.Region == nil || it.Region.ID != "r"+ps ||
		it.InlineStyle == nil || it.InlineStyle.SRTColor == nil || *it.InlineStyle.SRTColor != "p"+ps ||
		len(it.Comments) != 1 || it.Comments[0] != "c"+ps {
		return 999999
	}
	return p
}

// observe turns the items of a Subtitles back into mItems; uids come from pointer identity
func observe(items []*astisub.Item, ids map[*astisub.Item]int) []mItem {
	var o []mItem
	for _, it := range items {
		if it == nil {
			o = append(o, mItem{uid: 888888})
			continue
		}
		m := mItem{uid: ids[it], start: int64(it.StartAt), end: int64(it.EndAt), pay: payOf(it)}
		if ref, ok := refsOf(ids)[m.pay]; ok && m.pay != 0 && m.pay < 999990 && (it.Style != ref.st || it.Region != ref.rg) {
			m.pay = 999997 // same identifiers, other objects
		}
		for li, l := range it.Lines {
			var rs []string
			for k, r := range l.Items {
				rs = append(rs, r.Text)
				// the content of a cue includes its voices and the in-cue instants of its runs
				if m.pay != 0 && m.pay < 999990 && (r.StartAt != runInstant(m.pay, li, k) || l.VoiceName != "v"+strconv.Itoa(m.pay)) {
					m.pay = 999998
				}
			}
			m.lines = append(m.lines, rs)
		}
		o = append(o, m)
	}
	return o
}

// buildSubs builds a Subtitles from mItems. spare > 0 gives the Items slice spare capacity
// (the two aliasing regimes of append).
func buildSubs(xs []mItem, spare int) (*astisub.Subtitles, map[*astisub.Item]int) {
	s := astisub.NewSubtitles()
	ids := map[*astisub.Item]int{}
	s.Items = make([]*astisub.Item, 0, len(xs)+spare)
	for _, x := range xs {
		it := x.build()
		ids[it] = x.uid
		s.Items = append(s.Items, it)
		if x.pay != 0 {
			refsOf(ids)[x.pay] = refPair{it.Style, it.Region}
		}
	}
	if spare%2 == 1 {
		// the list declares, under the identifiers its cues use, definitions that are other objects than the ones the
		// cues refer to (what a merge leaves behind when both lists declared the identifier); and cues without payload
		// whose lines are a prefix of another's share its backing array (roll-up captions built from one block)
		for _, it := range s.Items {
			if it.Style != nil {
				s.Styles[it.Style.ID] = &astisub.Style{ID: it.Style.ID, InlineStyle: &astisub.StyleAttributes{SRTBold: true}}
			}
			if it.Region != nil {
				s.Regions[it.Region.ID] = &astisub.Region{ID: it.Region.ID, InlineStyle: &astisub.StyleAttributes{SRTBold: true}}
			}
		}
		for i, a := range s.Items {
			for j, b := range s.Items {
				if i != j && payOf(a) == 0 && payOf(b) == 0 && len(a.Lines) > 0 && len(a.Lines) < len(b.Lines) && reflect.DeepEqual(a.Lines, b.Lines[:len(a.Lines)]) {
					a.Lines = b.Lines[:len(a.Lines)]
					break
				}
			}
		}
		// metadata of the formats the list may have been read from: the operations on cues do not look at it
		s.Metadata = &astisub.Metadata{Framerate: 30, Title: "t", Language: astisub.LanguageFrench, STLTimecodeStartOfProgramme: 10 * time.Hour,
			WebVTTTimestampMap: &astisub.WebVTTTimestampMap{Local: 1500 * time.Millisecond, MpegTS: 900000}}
	}
	return s, ids
}

// guard runs f and converts a panic into a string outcome
// caseTimeout bounds one case (VERIF_CASE_TIMEOUT seconds, default 900): a call of the library that does not
// return is an answer ("TIMEOUT", which no model gives), not a stalled check
var caseTimeout = func() time.Duration {
	if v, err := strconv.Atoi(os.Getenv("VERIF_CASE_TIMEOUT")); err == nil && v > 0 {
		return time.Duration(v) * time.Second
	}
	return 900 * time.Second
}()

func guard(f func() string) string {
	done := make(chan string, 1)
	go func() {
		defer func() {
			if r := recover(); r != nil {
				done <- "PANIC"
			}
		}()
		done <- f()
	}()
	t := time.NewTimer(caseTimeout)
	defer t.Stop()
	select {
	case out := <-done:
		return out
	case <-t.C:
		atomic.AddInt32(&stuck, 1)
		return "TIMEOUT"
	}
}

func decStr(tok string) string {
	if len(tok) == 0 || tok[0] != 'x' {
		panic("decStr: " + tok)
	}
	b, err := hex.DecodeString(tok[1:])
	if err != nil {
		panic(err)
	}
	return string(b)
}

func decBytes(tok string) []byte { return []byte(decStr(tok)) }

func atoi64(s string) int64 {
	v, err := strconv.ParseInt(s, 10, 64)
	if err != nil {
		panic(err)
	}
	return v
}

func decLines(s string) [][]string {
	if s == "-" {
		return nil
	}
	var o [][]string
	for _, l := range strings.Split(s, "/") {
		if l == "-" {
			o = append(o, nil)
			continue
		}
		var rs []string
		for _, r := range strings.Split(l, ";") {
			rs = append(rs, decStr(r))
		}
		o = append(o, rs)
	}
	return o
}

func decMItem(tok string) mItem {
	f := strings.Split(tok, ",")
	if len(f) != 5 {
		panic("decMItem: " + tok)
	}
	return mItem{uid: int(atoi64(f[0])), start: atoi64(f[1]), end: atoi64(f[2]), pay: int(atoi64(f[3])), lines: decLines(f[4])}
}

// decMItems parses `n item1 … itemn` from the front of args and returns the rest
func decMItems(args []string) ([]mItem, []string) {
	n := int(atoi64(args[0]))
	var o []mItem
	for i := 0; i < n; i++ {
		o = append(o, decMItem(args[1+i]))
	}
	return o, args[1+n:]
}

// scanLines is the package's line scanner (set when built with the verif hooks)
var scanLines func(r io.Reader) ([][]byte, error)

func timeDur(ns int64) time.Duration { return time.Duration(ns) }
