//go:build verif
// +build verif

package main

import (
	astisub "github.com/asticode/go-astisub"
)

func init() {
	stlDumpTables = astisub.VerifDumpSTLTables
	stlEncodeText = astisub.VerifEncodeTextSTL
	stlDecode = astisub.VerifSTLDecode
	stlRow = astisub.VerifSTLRow
}

func init() {
	genSTLDoc = func(r *rng) []byte {
		return genSTLGT(r, stlSymbolBytes(), false).bytes()
	}
}
