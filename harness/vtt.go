package main

import (
	"bytes"
	"fmt"
	"strings"

	astisub "github.com/asticode/go-astisub"
)

// ---------------------------------------------------------------------------------------------
// ground truth of a WebVTT document (what C02 quantifies over)

type vttTag struct {
	name    string
	classes []string
	ann     string
}
type vttRun struct {
	text string
	tags []vttTag
	ts   int64 // inline timestamp in ms placed before the run, 0 = none
}
type vttLine struct {
	voice string
	runs  []vttRun
}
type vttCue struct {
	id         int // 0 = no identifier
	comments   [][]string
	start, end int64 // ms
	settings   [][2]string
	lines      []vttLine
}
type vttRegion struct {
	id       string
	settings [][2]string
}
type vttDoc struct {
	cues    []vttCue
	regions []vttRegion
	styles  [][]string
	tsmap   *[2]int64 // local ms, mpegts
	trailer []string  // a comment after the last cue
}

var vttWords = []string{"hello", "world", "Été", "日本語", "a & b", "1 < 2", "x > y", "no\u00a0break", "42", "7", "- dash", "emoji 😀",
	"q\"uote", "it's", "100%", "a b", "MAN:", "(sighs)", "♪ ♪", "x^3", "NOTEs", "Regional", "styled", "a:b", "1:2", "e=mc2", "{curly}"}

// words that look like block openers: well-formed cue text all the same
var vttTrickyWords = []string{"NOTE well", "STYLE matters", "Region: north", "X-TIMESTAMP-MAP is a header", "STYLE", "NOTE this"}

var vttTagPool = []vttTag{
	{name: "b"}, {name: "i"}, {name: "u"}, {name: "c"}, {name: "c", classes: []string{"red"}}, {name: "c", classes: []string{"blue"}},
	{name: "c", classes: []string{"yellow", "bg_blue"}}, {name: "lang", ann: "en"}, {name: "lang", ann: "fr-FR"}, {name: "ruby"}, {name: "rt"},
	{name: "i", classes: []string{"loud"}}, {name: "b", classes: []string{"x", "y", "z"}}, {name: "customed_tag", classes: []string{"class1"}},
	{name: "c", classes: []string{"red"}, ann: "note"},
	// class lists that are prefixes of one another
	{name: "c", classes: []string{"red", "big"}}, {name: "b", classes: []string{"x"}}, {name: "b", classes: []string{"x", "y"}},
	{name: "i", classes: []string{"loud", "red"}}, {name: "c", classes: []string{"red", "loud", "big", "red"}},
}

var vttVoices = []string{"Bob", "Roger Bingham", "中文", "Mary-Ann", "Dr. Who"}

func tagEq(a, b vttTag) bool {
	return a.name == b.name && a.ann == b.ann && strings.Join(a.classes, ".") == strings.Join(b.classes, ".") && len(a.classes) == len(b.classes)
}

func commonPrefix(a, b []vttTag) int {
	n := 0
	for n < len(a) && n < len(b) && tagEq(a[n], b[n]) {
		n++
	}
	return n
}

func genVTTStack(r *rng, prev []vttTag) []vttTag {
	// mostly related to the previous stack (shared prefixes exercise the open/close logic)
	var st []vttTag
	if len(prev) > 0 && r.chance(1, 2) {
		st = append(st, prev[:r.intn(len(prev)+1)]...)
	}
	for len(st) < 3 && r.chance(2, 5) {
		st = append(st, vttTagPool[r.intn(len(vttTagPool))])
	}
	return st
}

func genVTTDoc(r *rng, maxCues int, tricky bool) vttDoc {
	var d vttDoc
	ids := []string{"fred", "bill", "r1", "top", "Zed"}
	nr := r.intn(4)
	if r.chance(1, 3) {
		nr = 0
	}
	perm := []int{0, 1, 2, 3, 4}
	for i := range perm {
		j := i + r.intn(len(perm)-i)
		perm[i], perm[j] = perm[j], perm[i]
	}
	for i := 0; i < nr; i++ {
		rg := vttRegion{id: ids[perm[i]]}
		opts := [][2]string{{"width", []string{"40%", "50%", "100%"}[r.intn(3)]}, {"lines", []string{"3", "1", "12"}[r.intn(3)]},
			{"regionanchor", []string{"0%,100%", "100%,100%"}[r.intn(2)]}, {"viewportanchor", []string{"10%,90%", "90%,90%"}[r.intn(2)]}, {"scroll", "up"}}
		for _, o := range opts {
			if r.chance(2, 3) {
				rg.settings = append(rg.settings, o)
			}
		}
		// any order
		for i := range rg.settings {
			j := i + r.intn(len(rg.settings)-i)
			rg.settings[i], rg.settings[j] = rg.settings[j], rg.settings[i]
		}
		d.regions = append(d.regions, rg)
	}
	css := [][]string{{"::cue(b) {", "  color: peachpuff;", "}"}, {"::cue { color: red }"}, {"::cue(c) {", "color: white;", "}", "::cue(.loud) { font-size: 2em }"},
		{"::cue(v[voice=\"Bob\"]) { color: lime }"}, {"::cue(i) { font-size: 120%; opacity: 50% }"}, {"::cue(u) {", "  line-height: 110%;", "  content: \"%d %s %%\";", "}"}}
	for k := r.intn(3); k > 0 && r.chance(2, 3); k-- {
		d.styles = append(d.styles, css[r.intn(len(css))])
	}
	if r.chance(1, 4) {
		d.tsmap = &[2]int64{r.rangeI(0, 3) * 500, []int64{900000, 180000, 0, 324090000, 8589934591}[r.intn(5)]}
	}
	n := r.intn(maxCues + 1)
	var t int64
	for i := 0; i < n; i++ {
		if t != 0 || !r.chance(1, 6) { // often a first cue at the very start
			t += r.rangeI(0, 5000)
		}
		if r.chance(1, 15) {
			t += r.rangeI(0, 99) * 3600000
		}
		if t >= 100*3600000-20000 {
			t = 100*3600000 - 20000
		}
		e := t + r.rangeI(1, 9000)
		c := vttCue{start: t, end: e}
		if r.chance(3, 5) {
			c.id = i + 1
			if r.chance(1, 5) {
				c.id = 1 + r.intn(5000)
			}
		}
		for k := r.intn(3); k > 0 && r.chance(1, 3); k-- {
			var cm []string
			for l := 1 + r.intn(2); l > 0; l-- {
				cm = append(cm, vttWords[r.intn(len(vttWords))]+" "+vttWords[r.intn(len(vttWords))])
			}
			if r.chance(1, 4) { // a continuation line that looks like the opener of another block is comment text all the same
				cm = append(cm, []string{"STYLE matters", "Region: north", "X-TIMESTAMP-MAP is a header", "STYLE", "Regional", "STYLE x { }"}[r.intn(6)])
			}
			c.comments = append(c.comments, cm)
		}
		sopts := [][2]string{{"align", []string{"left", "middle", "start", "end"}[r.intn(4)]}, {"line", []string{"0", "-1", "50%", "84%,end"}[r.intn(4)]},
			{"position", []string{"10%", "10%,start", "50%,line-left"}[r.intn(3)]}, {"size", []string{"35%", "100%"}[r.intn(2)]}, {"vertical", []string{"rl", "lr"}[r.intn(2)]}}
		if len(d.regions) > 0 {
			sopts = append(sopts, [2]string{"region", d.regions[r.intn(len(d.regions))].id})
		}
		if r.chance(1, 2) {
			for _, o := range sopts {
				if r.chance(1, 3) {
					c.settings = append(c.settings, o)
				}
			}
			for i := range c.settings {
				j := i + r.intn(len(c.settings)-i)
				c.settings[i], c.settings[j] = c.settings[j], c.settings[i]
			}
		}
		var prev []vttTag
		for l := 1 + r.intn(3); l > 0; l-- {
			var line vttLine
			if r.chance(1, 4) {
				line.voice = vttVoices[r.intn(len(vttVoices))]
			}
			styled := r.chance(1, 2)
			for k := 1 + r.intn(3); k > 0; k-- {
				run := vttRun{text: vttWords[r.intn(len(vttWords))]}
				if tricky && r.chance(1, 6) {
					run.text = vttTrickyWords[r.intn(len(vttTrickyWords))]
				}
				if styled {
					run.tags = genVTTStack(r, prev)
					prev = run.tags
				} else {
					prev = nil
				}
				if r.chance(1, 6) {
					run.ts = t + r.rangeI(1, 5000)
					// neighbouring runs may carry the same instant (each one has its own timestamp in the document)
					if n := len(line.runs); n > 0 && line.runs[n-1].ts != 0 && r.chance(1, 2) {
						run.ts = line.runs[n-1].ts
					}
				} else if n := len(line.runs); n > 0 && line.runs[n-1].ts != 0 && r.chance(1, 3) {
					run.ts = line.runs[n-1].ts
				}
				line.runs = append(line.runs, run)
			}
			// runs are separated by a space that belongs to the earlier run
			for k := 0; k+1 < len(line.runs); k++ {
				if r.chance(2, 3) {
					line.runs[k].text += " "
				}
			}
			c.lines = append(c.lines, line)
		}
		d.cues = append(d.cues, c)
		t = e
	}
	if r.chance(1, 10) {
		d.trailer = []string{"the end"}
	}
	return d
}

func fmtVTTTime(r *rng, ms int64, canon bool) string {
	h, m, s, f := ms/3600000, ms/60000%60, ms/1000%60, ms%1000
	if !canon && h == 0 && r.bool() {
		return fmt.Sprintf("%02d:%02d.%03d", m, s, f)
	}
	return fmt.Sprintf("%02d:%02d:%02d.%03d", h, m, s, f)
}

func escVTT(r *rng, s string, canon bool) string {
	s = strings.NewReplacer("&", "&amp;", "<", "&lt;").Replace(s)
	if canon || r.bool() {
		s = strings.ReplaceAll(s, " ", "&nbsp;")
	}
	return s
}

func (t vttTag) open() string {
	s := t.name
	if len(t.classes) > 0 {
		s += "." + strings.Join(t.classes, ".")
	}
	if t.ann != "" {
		s += " " + t.ann
	}
	return "<" + s + ">"
}

type vttOpts struct {
	tsBeforeTags bool // inline timestamps may be put in front of the tags a run opens
}

// renderVTT renders the ground truth with the syntactic freedom C02 lists
func renderVTT(r *rng, d vttDoc, canon bool, o vttOpts) []byte {
	eol := "\n"
	var b strings.Builder
	if !canon {
		eol = []string{"\n", "\r\n", "\r"}[r.intn(3)]
		if r.bool() {
			b.WriteString("\ufeff")
		}
	}
	blank := func() {
		n := 1
		if !canon && r.chance(1, 4) {
			n = 2 + r.intn(2)
		}
		for ; n > 0; n-- {
			b.WriteString(eol)
		}
	}
	b.WriteString("WEBVTT")
	if !canon {
		b.WriteString([]string{"", " - a title", "\tfile", " "}[r.intn(4)])
	}
	b.WriteString(eol)
	regionLine := func(rg vttRegion) string {
		s := "Region: id=" + rg.id
		for _, kv := range rg.settings {
			s += " " + kv[0] + "=" + kv[1]
		}
		return s
	}
	regionsInHeader := !canon && len(d.regions) > 0 && r.chance(1, 3)
	if d.tsmap != nil {
		loc := fmt.Sprintf("LOCAL:%s", fmtVTTTime(r, d.tsmap[0], true))
		ts := fmt.Sprintf("MPEGTS:%d", d.tsmap[1])
		if !canon && r.bool() {
			b.WriteString("X-TIMESTAMP-MAP=" + ts + "," + loc + eol)
		} else {
			b.WriteString("X-TIMESTAMP-MAP=" + loc + "," + ts + eol)
		}
	}
	if regionsInHeader {
		for _, rg := range d.regions {
			b.WriteString(regionLine(rg) + eol)
		}
	}
	blank()
	for _, st := range d.styles {
		b.WriteString("STYLE" + eol)
		for _, l := range st {
			b.WriteString(l + eol)
		}
		blank()
	}
	if !regionsInHeader && len(d.regions) > 0 {
		for _, rg := range d.regions {
			b.WriteString(regionLine(rg) + eol)
		}
		blank()
	}
	writeComment := func(cm []string) {
		b.WriteString("NOTE " + cm[0] + eol)
		for _, l := range cm[1:] {
			if !canon && r.chance(1, 3) {
				b.WriteString("NOTE " + l + eol)
			} else {
				b.WriteString(l + eol)
			}
		}
		blank()
	}
	for _, c := range d.cues {
		for _, cm := range c.comments {
			writeComment(cm)
		}
		if c.id != 0 {
			if !canon && r.chance(1, 6) { // zero-padded numbering: still the decimal number
				b.WriteString(fmt.Sprintf("%0*d", 3+r.intn(3), c.id) + eol)
			} else {
				b.WriteString(fmt.Sprint(c.id) + eol)
			}
		} else if !canon && r.chance(1, 8) {
			// an identifier that is not a number (the cue then has none), digits beyond what an integer holds included
			b.WriteString([]string{"intro", "cue1", "1a", "#2", "99999999999999999999x", "18446744073709551615x", "18446744073709551616 y", "0x1f", "0b11", "1_000", "0o17"}[r.intn(11)] + eol)
		}
		arrow := " --> "
		if !canon {
			arrow = []string{" --> ", " --> ", "-->", "\t-->\t", "  -->  "}[r.intn(5)]
		}
		b.WriteString(fmtVTTTime(r, c.start, canon) + arrow + fmtVTTTime(r, c.end, canon))
		for _, kv := range c.settings {
			sep := " "
			if !canon {
				sep = []string{" ", "\t", "  "}[r.intn(3)]
			}
			b.WriteString(sep + kv[0] + ":" + kv[1])
		}
		b.WriteString(eol)
		// tag layout: 0 = every run closes what it opened beyond what the next run shares (within a line),
		// 1 = the same across the lines of the cue (tags stay open over line breaks), 2 = open until the end of the cue
		layout := 0
		if !canon {
			layout = r.intn(3)
		}
		var open []vttTag
		for li, line := range c.lines {
			if line.voice != "" {
				b.WriteString("<v " + line.voice + ">")
			}
			for k, run := range line.runs {
				p := commonPrefix(open, run.tags)
				for i := len(open) - 1; i >= p; i-- {
					b.WriteString("</" + open[i].name + ">")
				}
				open = open[:p]
				ts := ""
				if run.ts != 0 {
					ts = "<" + fmtVTTTime(r, run.ts, canon) + ">"
				}
				if o.tsBeforeTags && r.bool() {
					b.WriteString(ts)
					ts = ""
				}
				for _, t := range run.tags[p:] {
					b.WriteString(t.open())
					open = append(open, t)
				}
				b.WriteString(ts)
				b.WriteString(escVTT(r, run.text, canon))
				last := k == len(line.runs)-1
				if last && (layout == 0 || (li == len(c.lines)-1 && layout == 1)) {
					for i := len(open) - 1; i >= 0; i-- {
						b.WriteString("</" + open[i].name + ">")
					}
					open = nil
				}
			}
			if line.voice != "" && len(open) == 0 && !canon && r.chance(1, 3) {
				b.WriteString("</v>")
			}
			b.WriteString(eol)
		}
		blank()
	}
	if d.trailer != nil {
		writeComment(d.trailer)
	}
	s := b.String()
	if !canon && r.chance(1, 4) {
		// no line terminator at the very end, or that of the last line and nothing after it
		s = strings.TrimRight(s, "\r\n")
		if r.bool() {
			s += eol
		}
	}
	return []byte(s)
}

func mutateVTT(r *rng, d []byte) []byte {
	md := append([]byte(nil), d...)
	for k := r.intn(3) + 1; k > 0 && len(md) > 0; k-- {
		i := r.intn(len(md))
		switch r.intn(7) {
		case 0:
			al := "<>&-:,. \n\r0123456789abx/\"=%\t"
			md[i] = al[r.intn(len(al))]
		case 1:
			md = append(md[:i], md[i+1:]...)
		case 2:
			md = md[:i]
		case 3:
			md = append(md[:i], append([]byte("\n"), md[i:]...)...)
		case 4:
			j := r.intn(len(md))
			if i > j {
				i, j = j, i
			}
			md = append(md[:i], md[j:]...)
		case 5:
			ins := []string{"-->", "<b>", "</i>", "<c.red>", "\n\n", " ", "00:00:01.000", "<00:00:02.000>", "<", "&", "</", "\xff", "NOTE ", "STYLE\n", "Region: id=q\n",
				"region:q", "X-TIMESTAMP-MAP=LOCAL:00:00:00.000,MPEGTS:9\n", "<v X>", "</v>", "align:", " }", "WEBVTT\n", "Region: id=q w\n", "<v.a.b  Y Z >", "<i/>"}
			md = append(md[:i], append([]byte(ins[r.intn(len(ins))]), md[i:]...)...)
		default:
			j := r.intn(len(md))
			md = append(md, md[j:]...)
		}
	}
	return md
}

// ---------------------------------------------------------------------------------------------
// cue lists for the writer

func tagsOf(ts []vttTag) []astisub.WebVTTTag {
	var o []astisub.WebVTTTag
	for _, t := range ts {
		o = append(o, astisub.WebVTTTag{Name: t.name, Classes: t.classes, Annotation: t.ann})
	}
	return o
}

func setSetting(sa *astisub.StyleAttributes, k, v string) {
	switch k {
	case "align":
		sa.WebVTTAlign = v
	case "line":
		sa.WebVTTLine = v
	case "position":
		sa.WebVTTPosition = v
	case "size":
		sa.WebVTTSize = v
	case "vertical":
		sa.WebVTTVertical = v
	case "width":
		sa.WebVTTWidth = v
	case "lines":
		sa.WebVTTLines = int(atoi64(v))
	case "regionanchor":
		sa.WebVTTRegionAnchor = v
	case "viewportanchor":
		sa.WebVTTViewportAnchor = v
	case "scroll":
		sa.WebVTTScroll = v
	}
}

// vttSubsOf builds the cue list the reader would return for a ground truth, then moves part of it
// to where only the writer looks (referenced styles as fall-backs, nil inline styles, several
// styles with CSS, sub-millisecond instants, indexes that the writer must renumber)
func vttSubsOf(d vttDoc, r *rng) *astisub.Subtitles {
	s := astisub.NewSubtitles()
	for k, st := range d.styles {
		id := []string{"astisub-webvtt-default-style-id", "zz", "Another", "a0"}[k%4]
		if k > 0 && r.bool() {
			id = []string{"zz", "Another", "a0", "m"}[r.intn(4)]
		}
		if prev, ok := s.Styles[id]; ok {
			prev.InlineStyle.WebVTTStyles = append(prev.InlineStyle.WebVTTStyles, st...)
			continue
		}
		s.Styles[id] = &astisub.Style{ID: id, InlineStyle: &astisub.StyleAttributes{WebVTTStyles: append([]string(nil), st...)}}
	}
	fallbackStyle := func(kvs [][2]string, inline *astisub.StyleAttributes, id string) *astisub.Style {
		// move some settings from the inline style to a referenced style
		st := &astisub.Style{ID: id, InlineStyle: &astisub.StyleAttributes{}}
		for _, kv := range kvs {
			if kv[0] == "region" {
				continue
			}
			switch r.intn(3) {
			case 0: // only in the style
				setSetting(st.InlineStyle, kv[0], kv[1])
			case 1: // both: the inline one wins
				setSetting(inline, kv[0], kv[1])
				if kv[0] == "lines" {
					st.InlineStyle.WebVTTLines = 77
				} else {
					setSetting(st.InlineStyle, kv[0], "77%")
				}
			default:
				setSetting(inline, kv[0], kv[1])
			}
		}
		s.Styles[id] = st
		return st
	}
	for k, rg := range d.regions {
		reg := &astisub.Region{ID: rg.id, InlineStyle: &astisub.StyleAttributes{}}
		if r.chance(1, 4) {
			reg.Style = fallbackStyle(rg.settings, reg.InlineStyle, fmt.Sprintf("rs%d", k))
		} else {
			for _, kv := range rg.settings {
				setSetting(reg.InlineStyle, kv[0], kv[1])
			}
		}
		if len(rg.settings) == 0 && r.chance(1, 2) {
			reg.InlineStyle = nil
		}
		s.Regions[rg.id] = reg
	}
	if d.tsmap != nil {
		s.Metadata = &astisub.Metadata{WebVTTTimestampMap: &astisub.WebVTTTimestampMap{Local: timeDur(d.tsmap[0] * 1000000), MpegTS: d.tsmap[1]}}
	} else if r.chance(1, 5) {
		s.Metadata = &astisub.Metadata{Title: "t"}
	}
	for k, c := range d.cues {
		it := &astisub.Item{StartAt: timeDur(c.start * 1000000), EndAt: timeDur(c.end * 1000000), Index: c.id, InlineStyle: &astisub.StyleAttributes{}}
		if r.chance(1, 4) {
			it.StartAt += timeDur(r.rangeI(0, 999999))
			it.EndAt += timeDur(r.rangeI(0, 999999))
		}
		for _, cm := range c.comments {
			it.Comments = append(it.Comments, cm...)
		}
		var own [][2]string
		for _, kv := range c.settings {
			if kv[0] == "region" {
				it.Region = s.Regions[kv[1]]
			} else {
				own = append(own, kv)
			}
		}
		if r.chance(1, 4) {
			it.Style = fallbackStyle(own, it.InlineStyle, fmt.Sprintf("cs%d", k))
		} else {
			for _, kv := range own {
				setSetting(it.InlineStyle, kv[0], kv[1])
			}
		}
		if len(own) == 0 && r.chance(1, 2) {
			it.InlineStyle = nil
		}
		for _, line := range c.lines {
			ln := astisub.Line{VoiceName: line.voice}
			for _, run := range line.runs {
				li := astisub.LineItem{Text: run.text, StartAt: timeDur(run.ts * 1000000)}
				if len(run.tags) > 0 {
					li.InlineStyle = &astisub.StyleAttributes{WebVTTTags: tagsOf(run.tags)}
				} else if r.chance(1, 8) {
					li.InlineStyle = &astisub.StyleAttributes{}
				}
				if r.chance(1, 40) {
					if li.InlineStyle == nil {
						li.InlineStyle = &astisub.StyleAttributes{}
					}
					col := []string{"#ff0000", "#00FFFF", "#123456", "red"}[r.intn(4)]
					li.InlineStyle.TTMLColor = &col
				}
				ln.Items = append(ln.Items, li)
			}
			it.Lines = append(it.Lines, ln)
		}
		s.Items = append(s.Items, it)
	}
	return s
}

// the witnesses of D14 and friends, as runs of one line
var vttLineWitnesses = [][][]vttTag{
	{{{name: "c", classes: []string{"red"}}}, {{name: "c", classes: []string{"blue"}}}},
	{{{name: "b"}, {name: "i"}}, {{name: "c"}, {name: "i"}}},
	{{{name: "t1"}}, {{name: "t1"}, {name: "t2"}}, {{name: "t1"}}},
	{{{name: "lang", ann: "en"}}, {{name: "lang", ann: "fr"}}},
	{{{name: "b"}, {name: "i"}}, {{name: "b"}}, {{name: "b"}, {name: "i"}}},
	{{{name: "i"}}, nil, {{name: "i"}}},
	{{{name: "c", classes: []string{"loud", "red"}}}, {{name: "c", classes: []string{"loud"}}}},
	{{{name: "c", classes: []string{"loud"}}}, {{name: "c", classes: []string{"loud", "red"}}}, {{name: "c"}}},
}

func vttWitnessSubs(w [][]vttTag, ts bool) *astisub.Subtitles {
	s := astisub.NewSubtitles()
	it := &astisub.Item{StartAt: timeDur(1e9), EndAt: timeDur(2e9), InlineStyle: &astisub.StyleAttributes{}}
	var ln astisub.Line
	for k, tags := range w {
		li := astisub.LineItem{Text: string(rune('A' + k))}
		if len(tags) > 0 {
			li.InlineStyle = &astisub.StyleAttributes{WebVTTTags: tagsOf(tags)}
		}
		if ts && k > 0 {
			li.StartAt = timeDur(int64(k) * 1e9)
		}
		ln.Items = append(ln.Items, li)
	}
	it.Lines = []astisub.Line{ln}
	s.Items = []*astisub.Item{it}
	return s
}

func vttNiches() [][]byte {
	docs := []string{
		"WEBVTT\n\n00:01.000 --> 00:02.000\nhi\n",
		"WEBVTT\n\n00:01.000 -->\nhi\n",
		"WEBVTT\n\n00:01.000 --> 00:02.000 region:nowhere\nhi\n",
		"WEBVTT\n\n00:01.000 --> 00:02.000 align\nhi\n",
		"WEBVTT\n\nRegion: id=a  width=40%\n\n00:01.000 --> 00:02.000 region:a\nhi\n",
		"WEBVTT\n\nRegion: id=a lines=x\n",
		"WEBVTT\n\nRegion: id=a width=1%\nRegion: id=a width=2%\n\n00:01.000 --> 00:02.000 region:a\nhi\n",
		"no header at all\n\n00:01.000 --> 00:02.000\nhi\n",
		"",
		"WEBVTT",
		"\ufeffWEBVTT\n",
		"junk\nWEBVTT FILE\n\n1\n00:00:01.000 --> 00:00:02.000\nx\n",
		"WEBVTT\n1\n00:00:01.876-->00:0:03.390\nDuration without enclosing space\n\n2\n00:00:03.391-->00:00:06.567\talign:middle\nDuration with tab spaced styles",
		"WEBVTT\n\nSTYLE\n::cue { color: red }\n\n00:01.000 --> 00:02.000\n<b>open\n",
		"WEBVTT\n\nSTYLE\n::cue {\n\n color: red\n}\n\n1\n00:01.000 --> 00:02.000\nhi\n",
		"WEBVTT\n\nSTYLE\n::cue { color: red } /* c */\n\n1\n00:01.000 --> 00:02.000\nhi\n",
		"WEBVTT\n\nNOTE\nalone\n\n00:01.000 --> 00:02.000\nhi\n",
		"WEBVTT\n\nNOTE\n42\n\n00:01.000 --> 00:02.000\nhi\n",
		"WEBVTT\n\n00:01.000 --> 00:02.000\n<b><v Bob>x</v> y</b>\n",
		"WEBVTT\n\n00:01.000 --> 00:02.000\n<00:01.500><b>x</b>\n",
		"WEBVTT\n\n00:01.000 --> 00:02.000\na<00:01.500> <b>x</b><00:01.700>\n",
		"WEBVTT\n\n00:01.000 --> 00:02.000\nhi\n\nX-TIMESTAMP-MAP=LOCAL:00:00:00.000,MPEGTS:0\n",
		"WEBVTT\nX-TIMESTAMP-MAP=MPEGTS:foo,LOCAL:00:00:00.000\n",
		"WEBVTT\nX-TIMESTAMP-MAP=MPEGTS:1\n",
		"WEBVTT\nX-TIMESTAMP-MAP\n",
		"WEBVTT\nX-TIMESTAMP-MAP=local : 00:00:01.000 , Mpegts:-5,other:1\n",
		"WEBVTT\n\n99999999999999999999\n00:01.000 --> 00:02.000\nhi\n",
		"WEBVTT\n\n-3\n00:01.000 --> 00:02.000\nhi\n",
		"WEBVTT\n\n00:01.000 --> 00:02.000\nNOTE well\nSTYLE matters\n",
		"WEBVTT\n\n00:01.000 --> 00:02.000\n<c.red.big  note >x</c> <c.>y</c><c..a>z</c><a/b>w<a.b/c>v\n",
	}
	var o [][]byte
	for _, d := range docs {
		o = append(o, []byte(d))
	}
	return o
}

func init() {
	streams["vtt.read"] = stream{exec: func(a []string) string { return readOut("vtt", decBytes(a[0])) }, gen: func(c *ctx) {
		r := newRng(c.seed, "vtt.read")
		for _, d := range testdataDocs("vtt") {
			c.do("vtt.read " + encBytes(d))
			c.count("testdata")
		}
		for _, d := range vttNiches() {
			c.do("vtt.read " + encBytes(d))
			c.count("niches")
		}
		n := 1500
		if c.thorough {
			n = 150000
		}
		for i := 0; i < n; i++ {
			d := genVTTDoc(r, 5, i%4 == 3)
			for v := 0; v < 4; v++ {
				c.do("vtt.read " + encBytes(renderVTT(r, d, v == 0, vttOpts{tsBeforeTags: v == 3})))
				c.count("rendered")
			}
			if i%2 == 0 {
				c.do("vtt.read " + encBytes(mutateVTT(r, renderVTT(r, d, false, vttOpts{}))))
				c.count("mutated")
			}
		}
	}}

	// vtt.write: canonical subs -> bytes written, then what the library's own reader makes of them
	streams["vtt.write"] = stream{exec: func(a []string) string {
		s, _ := parseCanon(a)
		var buf bytes.Buffer
		if err := writeWith("vtt", s, &buf); err != nil {
			return errClass(err)
		}
		return "ok " + encBytes(buf.Bytes()) + " " + readOut("vtt", buf.Bytes())
	}, gen: func(c *ctx) {
		r := newRng(c.seed, "vtt.write")
		for _, w := range vttLineWitnesses {
			c.do("vtt.write " + canonSubs(vttWitnessSubs(w, false)))
			c.do("vtt.write " + canonSubs(vttWitnessSubs(w, true)))
			c.count("witnesses")
		}
		c.do("vtt.write " + canonSubs(astisub.NewSubtitles()))
		n := 2500
		if c.thorough {
			n = 250000
		}
		for i := 0; i < n; i++ {
			s := vttSubsOf(genVTTDoc(r, 4, i%4 == 3), r)
			c.do("vtt.write " + canonSubs(s))
			c.count("generated")
		}
		c.do("vtt.write " + canonSubs(largePlainSubs(r, 1500)))
		c.count("large")
		// what the reader returns for the test data is written again
		for _, d := range testdataDocs("vtt") {
			if s, err := readWith("vtt", bytes.NewReader(d)); err == nil && s != nil {
				c.do("vtt.write " + canonSubs(s))
				c.count("testdata")
			}
		}
	}}
}
