package main

import (
	"bytes"
	"fmt"
	"math"
	"strconv"
	"strings"
	"time"

	astisub "github.com/asticode/go-astisub"
)

// pool of line structures; several share the same Item.String() ("a - b", "")
var linePool = [][][]string{
	{{"a"}},
	{{"b"}},
	{{"a"}, {"b"}},
	{{"a - b"}},
	{{"a", " - ", "b"}},
	{{"é", " ☃"}},
	{},
	{{""}},
	{{"a", ""}},
	// an empty line is part of the text: "a", "a - " and " - a" are three different texts
	{{"a"}, {""}},
	{{""}, {"a"}},
	{{"a"}, {}},
	// texts that differ by letter case only are different texts
	{{"A"}},
	{{"É", " ☃"}},
	{{"a - B"}},
	{{"k"}},
	{{"\u212a"}},
}

type span struct{ s, e int64 }

// spans on the grid 0..g with s <= e
func gridSpans(g int64) []span {
	var o []span
	for s := int64(0); s <= g; s++ {
		for e := s; e <= g; e++ {
			o = append(o, span{s, e})
		}
	}
	return o
}

// enumLists calls fn on every list of exactly n cues over spans × texts (texts index into linePool)
func enumLists(n int, sp []span, texts []int, fn func([]mItem)) {
	cur := make([]mItem, n)
	var rec func(i int)
	rec = func(i int) {
		if i == n {
			cp := make([]mItem, n)
			copy(cp, cur)
			fn(cp)
			return
		}
		for _, s := range sp {
			for _, t := range texts {
				cur[i] = mItem{uid: i + 1, start: s.s, end: s.e, pay: i + 1, lines: linePool[t]}
				rec(i + 1)
			}
		}
	}
	rec(0)
}

// randList: ms-granular, unordered, overlapping; wf => start <= end
func randList(r *rng, maxN int, wf bool) []mItem {
	n := r.intn(maxN + 1)
	xs := make([]mItem, n)
	horizon := int64(3 * time.Hour)
	if r.chance(1, 3) {
		horizon = int64(20 * time.Second)
	}
	for i := range xs {
		s := r.rangeI(0, horizon/int64(time.Millisecond)) * int64(time.Millisecond)
		var l int64
		switch r.intn(4) {
		case 0:
			l = 0
		case 1:
			l = r.rangeI(0, 10) * int64(time.Millisecond)
		default:
			l = r.rangeI(0, 10000) * int64(time.Millisecond)
		}
		if r.chance(1, 8) { // nanosecond-granular
			s += r.rangeI(0, 999999)
			l += r.rangeI(0, 999999)
		}
		e := s + l
		if !wf && r.chance(1, 4) {
			e = s - r.rangeI(1, 5000)*int64(time.Millisecond)
		}
		xs[i] = mItem{uid: i + 1, start: s, end: e, pay: i + 1, lines: linePool[r.intn(len(linePool))]}
	}
	if n > 1 && r.chance(1, 2) { // make many equal starts / duplicates
		for k := 0; k < n/2; k++ {
			a, b := r.intn(n), r.intn(n)
			xs[a].start, xs[a].end = xs[b].start, xs[b].end
		}
	}
	return xs
}

func maxEnd(xs []mItem) int64 {
	var m int64
	for _, x := range xs {
		if x.end > m {
			m = x.end
		}
	}
	return m
}

func init() {
	streams["ops.add"] = stream{exec: func(a []string) string {
		d, spare := atoi64(a[0]), int(atoi64(a[1]))
		xs, _ := decMItems(a[2:])
		s, ids := buildSubs(xs, spare)
		s.Add(time.Duration(d))
		return encMItems(observe(s.Items, ids))
	}, gen: func(c *ctx) {
		run := func(d int64, xs []mItem, spare int) {
			c.do(fmt.Sprintf("ops.add %d %d %s", d, spare, encMItems(xs)))
		}
		// exhaustive: all lists of <= k cues on the grid 0..6, every d in [-8,8]
		k := 2
		if c.thorough {
			k = 3
		}
		sp := gridSpans(6)
		for n := 0; n <= k; n++ {
			enumLists(n, sp, []int{0}, func(xs []mItem) {
				for d := int64(-8); d <= 8; d++ {
					run(d, xs, 0)
					c.count("grid")
				}
			})
		}
		// a slice of the 3-cue grid in the quick tier
		r := newRng(c.seed, "ops.add")
		if !c.thorough {
			for i := 0; i < 20000; i++ {
				xs := make([]mItem, 3)
				for j := range xs {
					s := sp[r.intn(len(sp))]
					xs[j] = mItem{uid: j + 1, start: s.s, end: s.e, pay: j + 1, lines: linePool[0]}
				}
				run(r.rangeI(-8, 8), xs, r.intn(2))
				c.count("grid3-sample")
			}
		}
		nr := 20000
		if c.thorough {
			nr = 1000000
		}
		for i := 0; i < nr; i++ {
			wf := !r.chance(1, 10)
			xs := randList(r, 40, wf)
			me := maxEnd(xs)
			var d int64
			switch r.intn(4) {
			case 0: // around the ends of the cues: runs of dead cues
				if len(xs) > 0 {
					d = -xs[r.intn(len(xs))].end + r.rangeI(-2, 2)
				}
			case 1:
				d = r.rangeI(-me-1, 0)
			case 2:
				d = r.rangeI(0, int64(24*time.Hour))
			default:
				d = r.rangeI(-me-1, int64(24*time.Hour)/int64(time.Millisecond)) / 1000 * 1000
			}
			run(d, xs, r.intn(3))
			if wf {
				c.count("random-wf")
			} else {
				c.count("random-nonwf")
			}
		}
	}}

	// ops.add2: two shifts in a row on the same list (nothing is remembered from the first call)
	streams["ops.add2"] = stream{exec: func(a []string) string {
		d1, d2, spare := atoi64(a[0]), atoi64(a[1]), int(atoi64(a[2]))
		xs, _ := decMItems(a[3:])
		s, ids := buildSubs(xs, spare)
		s.Add(time.Duration(d1))
		s.Add(time.Duration(d2))
		return encMItems(observe(s.Items, ids))
	}, gen: func(c *ctx) {
		r := newRng(c.seed, "ops.add2")
		n := 8000
		if c.thorough {
			n = 400000
		}
		for i := 0; i < n; i++ {
			xs := randList(r, 6, true)
			d1 := -r.rangeI(0, maxEnd(xs)/int64(time.Millisecond)+10) * int64(time.Millisecond)
			d2 := -d1
			if r.chance(1, 3) {
				d2 = r.rangeI(-5000, 5000) * int64(time.Millisecond)
			}
			if r.chance(1, 5) {
				d1 = -d1
			}
			c.do(fmt.Sprintf("ops.add2 %d %d %d %s", d1, d2, r.intn(3), encMItems(xs)))
			c.count("random")
		}
	}}

	// ops.frag2: cut, move every cue by hand (the fields are public), cut again with the same period or a multiple
	streams["ops.frag2"] = stream{exec: func(a []string) string {
		f, g, shift, spare := atoi64(a[0]), atoi64(a[1]), atoi64(a[2]), int(atoi64(a[3]))
		xs, _ := decMItems(a[4:])
		s, ids := buildSubs(xs, spare)
		s.Fragment(time.Duration(f))
		for _, it := range s.Items {
			it.StartAt += time.Duration(shift)
			it.EndAt += time.Duration(shift)
		}
		s.Fragment(time.Duration(g))
		return encMItems(observe(s.Items, ids))
	}, gen: func(c *ctx) {
		r := newRng(c.seed, "ops.frag2")
		n := 6000
		if c.thorough {
			n = 300000
		}
		for i := 0; i < n; i++ {
			xs := randList(r, 5, true)
			for j := range xs {
				xs[j].start = r.rangeI(0, 20) * int64(time.Second)
				xs[j].end = xs[j].start + r.rangeI(0, 8)*int64(time.Second)
			}
			sortByStart(xs)
			f := r.rangeI(1, 5) * int64(time.Second)
			g := f * r.rangeI(1, 3)
			if r.chance(1, 6) {
				g = r.rangeI(1, 5) * int64(time.Second)
			}
			shift := r.rangeI(0, 2*f/int64(time.Millisecond)) * int64(time.Millisecond)
			c.do(fmt.Sprintf("ops.frag2 %d %d %d %d %s", f, g, shift, r.intn(3), encMItems(xs)))
			c.count("random")
		}
	}}

	streams["ops.forceduration"] = stream{exec: func(a []string) string {
		d, b, spare := atoi64(a[0]), a[1] == "1", int(atoi64(a[2]))
		xs, _ := decMItems(a[3:])
		s, ids := buildSubs(xs, spare)
		s.ForceDuration(time.Duration(d), b)
		out := encMItems(observe(s.Items, ids))
		// the caller owns what it got: it edits the cues the call created (the filler) in place, and the same call on
		// a fresh copy of the list must still answer the same
		for _, it := range s.Items {
			if _, old := ids[it]; !old && it != nil {
				for li := range it.Lines {
					for k := range it.Lines[li].Items {
						it.Lines[li].Items[k].Text = "THE END"
					}
				}
			}
		}
		s2, ids2 := buildSubs(xs, spare)
		s2.ForceDuration(time.Duration(d), b)
		if out2 := encMItems(observe(s2.Items, ids2)); out2 != out {
			return "second-call-differs " + out2
		}
		return out
	}, gen: func(c *ctx) {
		run := func(d int64, b bool, xs []mItem, spare int) {
			bi := 0
			if b {
				bi = 1
			}
			c.do(fmt.Sprintf("ops.forceduration %d %d %d %s", d, bi, spare, encMItems(xs)))
		}
		ms := int64(time.Millisecond)
		// exhaustive: ordered timelines (starts and ends non-decreasing) of <= k cues on 0..8 (ms), d in 1..10 ms
		k := 3
		if c.thorough {
			k = 4
		}
		sp := gridSpans(8)
		for n := 0; n <= k; n++ {
			enumLists(n, sp, []int{0}, func(xs []mItem) {
				for i := 1; i < len(xs); i++ {
					if xs[i].start < xs[i-1].start || xs[i].end < xs[i-1].end {
						return
					}
				}
				ys := make([]mItem, len(xs))
				for i, x := range xs {
					x.start *= ms
					x.end *= ms
					ys[i] = x
				}
				for d := int64(1); d <= 10; d++ {
					run(d*ms, false, ys, 0)
					run(d*ms, true, ys, 0)
					c.count("grid")
				}
			})
		}
		r := newRng(c.seed, "ops.forceduration")
		nr := 20000
		if c.thorough {
			nr = 1000000
		}
		for i := 0; i < nr; i++ {
			// ordered timeline with gaps and abutting cues
			n := r.intn(12)
			xs := make([]mItem, n)
			var t, pe int64
			for j := range xs {
				switch r.intn(3) {
				case 0: // abut
				case 1:
					t += r.rangeI(0, 3000) * ms
				default:
					t -= r.rangeI(0, 2000) * ms // overlap, but keep starts non-decreasing
					if j > 0 && t < xs[j-1].start {
						t = xs[j-1].start
					}
					if t < 0 {
						t = 0
					}
				}
				e := t + r.rangeI(0, 5000)*ms
				if e < pe {
					e = pe
				}
				xs[j] = mItem{uid: j + 1, start: t, end: e, pay: j + 1, lines: linePool[r.intn(len(linePool))]}
				pe = e
				t = e
			}
			var d int64
			switch r.intn(5) {
			case 0:
				if n > 0 {
					d = xs[r.intn(n)].start
				}
			case 1:
				if n > 0 {
					d = xs[r.intn(n)].end
				}
			case 2:
				d = pe + r.rangeI(0, 5000)*ms
			default:
				d = r.rangeI(1, pe/ms+10) * ms
			}
			if d < ms {
				d = ms
			}
			if r.chance(1, 6) {
				d += r.rangeI(-1, 1)
				if d < ms {
					d = ms
				}
			}
			run(d, r.bool(), xs, r.intn(3))
			c.count("random")
		}
	}}
}

var _ = astisub.NewSubtitles

func init() {
	streams["ops.order"] = stream{exec: func(a []string) string {
		xs, _ := decMItems(a[1:])
		s, ids := buildSubs(xs, int(atoi64(a[0])))
		s.Order()
		return encMItems(observe(s.Items, ids))
	}, gen: func(c *ctx) {
		r := newRng(c.seed, "ops.order")
		n := 30000
		if c.thorough {
			n = 1000000
		}
		for i := 0; i < n; i++ {
			xs := randList(r, 30, false)
			if r.chance(1, 2) { // many ties: starts from a tiny grid
				for j := range xs {
					xs[j].start = int64(r.intn(4))
					xs[j].end = xs[j].start + int64(r.intn(3))
				}
			}
			if r.chance(1, 50) { // instants at the ends of the range of time.Duration: comparing is not subtracting
				ext := []int64{math.MinInt64, math.MinInt64 + 1, -10 * int64(time.Second), -1, 0, 1, math.MaxInt64 - 5, math.MaxInt64}
				for j := range xs {
					xs[j].start = ext[r.intn(len(ext))]
					xs[j].end = xs[j].start
				}
			}
			c.do(fmt.Sprintf("ops.order %d %s", r.intn(3), encMItems(xs)))
			c.count("random")
		}
	}}

	streams["ops.fragment"] = stream{exec: func(a []string) string {
		f, spare := atoi64(a[0]), int(atoi64(a[1]))
		xs, _ := decMItems(a[2:])
		s, ids := buildSubs(xs, spare)
		s.Fragment(time.Duration(f))
		return encMItems(observe(s.Items, ids))
	}, gen: func(c *ctx) {
		run := func(f int64, xs []mItem, spare int) {
			c.do(fmt.Sprintf("ops.fragment %d %d %s", f, spare, encMItems(xs)))
		}
		// exhaustive: start-ordered lists of <= k cues on the grid, two texts, f in 1..5, both aliasing regimes
		type gr struct {
			n  int
			g  int64
			fs int64
		}
		grids := []gr{{0, 6, 4}, {1, 9, 5}, {2, 9, 5}, {3, 5, 4}}
		if c.thorough {
			grids = []gr{{0, 6, 5}, {1, 9, 5}, {2, 9, 5}, {3, 9, 5}, {4, 6, 5}}
		}
		for _, g := range grids {
			texts := []int{0, 1}
			if g.n >= 3 {
				texts = []int{0}
			}
			if c.thorough && g.n == 3 {
				texts = []int{0, 1}
			}
			enumLists(g.n, gridSpans(g.g), texts, func(xs []mItem) {
				for i := 1; i < len(xs); i++ {
					if xs[i].start < xs[i-1].start {
						return
					}
				}
				for f := int64(1); f <= g.fs; f++ {
					run(f, xs, 0)
					if len(xs) >= 2 {
						run(f, xs, 4)
					}
					c.count("grid")
				}
			})
		}
		r := newRng(c.seed, "ops.fragment")
		nr := 20000
		if c.thorough {
			nr = 1000000
		}
		for i := 0; i < nr; i++ {
			xs := randList(r, 12, true)
			sortByStart(xs)
			var f int64
			switch r.intn(4) {
			case 0:
				f = r.rangeI(1, 10) * int64(time.Second)
			case 1:
				f = r.rangeI(1, 5000) * int64(time.Millisecond)
			case 2:
				f = r.rangeI(100, 20000) * int64(time.Millisecond)
			default:
				f = r.rangeI(int64(500*time.Millisecond), int64(2*time.Hour))
			}
			// keep the number of pieces small
			if me := maxEnd(xs); me/f > 2000 {
				f = me/2000 + 1
			}
			run(f, xs, r.intn(6))
			c.count("random")
		}
	}}

	streams["ops.unfragment"] = stream{exec: func(a []string) string {
		xs, _ := decMItems(a[1:])
		s, ids := buildSubs(xs, int(atoi64(a[0])))
		s.Unfragment()
		return encMItems(observe(s.Items, ids))
	}, gen: func(c *ctx) {
		run := func(xs []mItem, spare int) {
			c.do(fmt.Sprintf("ops.unfragment %d %s", spare, encMItems(xs)))
		}
		type gr struct {
			n int
			g int64
			t []int
		}
		grids := []gr{{0, 5, []int{0}}, {1, 5, []int{0, 1}}, {2, 5, []int{0, 1}}, {3, 5, []int{0, 1}}, {4, 3, []int{0, 1}}}
		if c.thorough {
			grids = []gr{{0, 5, []int{0}}, {1, 7, []int{0, 1, 2}}, {2, 7, []int{0, 1, 3}}, {3, 7, []int{0, 1}}, {4, 5, []int{0, 1}}}
		}
		for _, g := range grids {
			enumLists(g.n, gridSpans(g.g), g.t, func(xs []mItem) {
				run(xs, 0)
				c.count("grid")
			})
		}
		r := newRng(c.seed, "ops.unfragment")
		nr := 20000
		if c.thorough {
			nr = 1000000
		}
		for i := 0; i < nr; i++ {
			xs := randList(r, 14, true)
			// few texts, clustered times so that touching is frequent
			nt := 1 + r.intn(3)
			pool := []int{0, 2, 3, 4, 6, 7}
			if r.chance(1, 3) { // texts that differ only by an empty line or an empty run
				pool = []int{0, 9, 10, 11, 8, 0}
			} else if r.chance(1, 4) { // or only by letter case
				pool = []int{0, 12, 5, 13, 15, 16}
				if r.bool() {
					pool = []int{3, 14, 0, 12, 15, 16}
				}
			}
			// roll-up captions: cues without payload whose lines are prefixes of one block share its backing array
			rollUp := r.chance(1, 8)
			if rollUp {
				pool = []int{0, 2, 9, 11, 2, 0}
			}
			for j := range xs {
				xs[j].lines = linePool[pool[r.intn(nt*2)%len(pool)]]
				if rollUp {
					xs[j].pay = 0
				}
				if r.chance(2, 3) {
					xs[j].start = r.rangeI(0, 30) * int64(time.Second)
					xs[j].end = xs[j].start + r.rangeI(0, 6)*int64(time.Second)
				}
			}
			if rollUp {
				run(xs, 1)
			} else {
				run(xs, r.intn(3))
			}
			c.count("random")
		}
	}}

	// fragment then unfragment (inverse law of C11)
	streams["ops.fragunfrag"] = stream{exec: func(a []string) string {
		f, spare := atoi64(a[0]), int(atoi64(a[1]))
		xs, _ := decMItems(a[2:])
		s, ids := buildSubs(xs, spare)
		s.Fragment(time.Duration(f))
		s.Unfragment()
		return encMItems(observe(s.Items, ids))
	}, gen: func(c *ctx) {
		r := newRng(c.seed, "ops.fragunfrag")
		nr := 20000
		if c.thorough {
			nr = 500000
		}
		for i := 0; i < nr; i++ {
			xs := randList(r, 10, true)
			nt := 1 + r.intn(3)
			for j := range xs {
				xs[j].lines = linePool[r.intn(nt)]
				if r.chance(2, 3) {
					xs[j].start = r.rangeI(0, 30) * int64(time.Second)
					xs[j].end = xs[j].start + r.rangeI(1, 6)*int64(time.Second)
				}
			}
			sortByStart(xs)
			f := r.rangeI(1, 5) * int64(time.Second)
			if r.chance(1, 3) {
				f = r.rangeI(300, 7000) * int64(time.Millisecond)
			}
			c.do(fmt.Sprintf("ops.fragunfrag %d %d %s", f, r.intn(3), encMItems(xs)))
			c.count("random")
		}
	}}

	streams["ops.merge"] = stream{exec: func(a []string) string {
		kind := a[0]
		xa, rest := decMItems(a[1:])
		xb, rest := decMItems(rest)
		ga, rest := decGraph(rest)
		gb, _ := decGraph(rest)
		// uids of B are offset by 1000 by the generator, so one id table serves both
		sa, ids := buildSubs(xa, 1)
		sb, idsb := buildSubs(xb, 0)
		for k, v := range idsb {
			ids[k] = v
		}
		for k, v := range refsOf(idsb) {
			refsOf(ids)[k] = v
		}
		da, db := ga.build(), gb.build()
		sa.Regions, sa.Styles, sb.Regions, sb.Styles = da.Regions, da.Styles, db.Regions, db.Styles
		switch kind { // receiver built without the constructor: both maps missing, or one of them
		case "1":
			sa.Regions, sa.Styles = nil, nil
		case "2":
			sa.Regions = nil
		case "3":
			sa.Styles = nil
		}
		// a cue whose style / region identifier is defined in its list's maps points to that very definition
		for _, sx := range []*astisub.Subtitles{sa, sb} {
			for _, it := range sx.Items {
				if it.Style != nil && sx.Styles != nil && sx.Styles[it.Style.ID] != nil {
					it.Style = sx.Styles[it.Style.ID]
				}
				if it.Region != nil && sx.Regions != nil && sx.Regions[it.Region.ID] != nil {
					it.Region = sx.Regions[it.Region.ID]
				}
				if p := payOf(it); p != 0 && p < 999990 {
					refsOf(ids)[p] = refPair{it.Style, it.Region}
				}
			}
		}
		type refs struct {
			st *astisub.Style
			rg *astisub.Region
		}
		var argRefs []refs
		for _, it := range sb.Items {
			argRefs = append(argRefs, refs{it.Style, it.Region})
		}
		sa.Merge(sb)
		for k, it := range sb.Items {
			if k < len(argRefs) && (it.Style != argRefs[k].st || it.Region != argRefs[k].rg) {
				return "ARG-CUE-REPOINTED: a cue of the argument refers to another definition after the merge"
			}
		}
		oa, ob := observeGraph(&astisub.Subtitles{Regions: sa.Regions, Styles: sa.Styles}), observeGraph(&astisub.Subtitles{Regions: sb.Regions, Styles: sb.Styles})
		out := encMItems(observe(sa.Items, ids)) + " " + encMItems(observe(sb.Items, ids)) + " " + oa.enc() + " " + ob.enc()
		// a second merge into the same receiver must still leave the first argument alone (no shared maps)
		sc := astisub.NewSubtitles()
		sc.Regions["zz"] = &astisub.Region{ID: "zz"}
		sc.Styles["zz"] = &astisub.Style{ID: "zz"}
		sc.Items = append(sc.Items, &astisub.Item{StartAt: 1, EndAt: 2})
		sa.Merge(sc)
		ob2 := observeGraph(&astisub.Subtitles{Regions: sb.Regions, Styles: sb.Styles})
		return out + " " + encMItems(observe(sb.Items, ids)) + " " + ob2.enc()
	}, gen: func(c *ctx) {
		r := newRng(c.seed, "ops.merge")
		nr := 20000
		if c.thorough {
			nr = 500000
		}
		for i := 0; i < nr; i++ {
			xa, xb := randList(r, 10, false), randList(r, 10, false)
			if r.chance(1, 2) {
				for j := range xa {
					xa[j].start = int64(r.intn(4))
				}
				for j := range xb {
					xb[j].start = int64(r.intn(4))
				}
			}
			for j := range xb {
				xb[j].uid += 1000
				xb[j].pay += 1000
			}
			ga, gb := randGraph(r, false, false), randGraph(r, false, false)
			// B's keys equal its ids (what every reader and constructor user produces) — or, now and then, they don't
			// (hand-built lists; the writers accept them), as long as no identifier is stored twice (the result would
			// follow the map's iteration order)
			uniq := func(ds []gDef) bool {
				seen := map[string]bool{}
				for _, d := range ds {
					if seen[d.id] {
						return false
					}
					seen[d.id] = true
				}
				return true
			}
			if !(r.chance(1, 4) && uniq(gb.regions) && uniq(gb.styles)) {
				for j := range gb.regions {
					gb.regions[j].key = gb.regions[j].id
				}
				for j := range gb.styles {
					gb.styles[j].key = gb.styles[j].id
				}
			}
			if len(xb) > 0 && r.chance(1, 3) {
				// a cue of B uses a style (a region) defined in B's maps, and A defines another one under the same identifier
				p := strconv.Itoa(xb[r.intn(len(xb))].pay)
				gb.styles = append(gb.styles, gDef{key: "s" + p, id: "s" + p, tag: 1})
				ga.styles = append(ga.styles, gDef{key: "s" + p, id: "s" + p, tag: 2})
				gb.regions = append(gb.regions, gDef{key: "r" + p, id: "r" + p, tag: 1})
				ga.regions = append(ga.regions, gDef{key: "r" + p, id: "r" + p, tag: 2})
			}
			kind := 0
			if r.chance(1, 4) {
				switch kind = 1 + r.intn(3); kind {
				case 1:
					ga.regions, ga.styles = nil, nil
				case 2:
					ga.regions = nil
				case 3:
					ga.styles = nil
				}
			}
			c.do(fmt.Sprintf("ops.merge %d %s %s %s %s", kind, encMItems(xa), encMItems(xb), ga.enc(), gb.enc()))
			c.count("random")
		}
	}}

	streams["ops.optimize"] = stream{exec: func(a []string) string {
		g, _ := decGraph(a)
		s := g.build()
		before := cueShot(s)
		s.Optimize()
		same := before == cueShot(s)
		// what is left can still be written and read back (every reference finds its definition)
		if len(s.Items) > 0 {
			for _, f := range []string{"ttml", "vtt"} {
				var b bytes.Buffer
				if err := writeRaw(f, s, &b); err == nil {
					if _, err := readWith(f, bytes.NewReader(b.Bytes())); err != nil && strings.Contains(err.Error(), "PANIC") {
						same = false
					} else if err != nil && !danglingBefore(g) {
						same = false
					}
				}
			}
		}
		return observeGraph(s).enc() + fmt.Sprintf(" same=%v", same)
	}, gen: func(c *ctx) {
		r := newRng(c.seed, "ops.optimize")
		nr := 40000
		if c.thorough {
			nr = 1000000
		}
		for i := 0; i < nr; i++ {
			g := randGraph(r, true, false)
			c.do("ops.optimize " + g.enc())
			c.count("random")
		}
	}}
}

// cueShot: everything of the cues that operations on styles and regions must leave alone (times, numbers,
// voices, run texts and in-cue instants)
func cueShot(s *astisub.Subtitles) string {
	var b strings.Builder
	for _, it := range s.Items {
		fmt.Fprintf(&b, "{%d %d %d", it.StartAt, it.EndAt, it.Index)
		for _, l := range it.Lines {
			b.WriteString("[" + l.VoiceName + "]")
			for _, r := range l.Items {
				fmt.Fprintf(&b, "%q@%d|", r.Text, r.StartAt)
			}
		}
		b.WriteString("}")
	}
	return b.String()
}

// danglingBefore: does the graph refer to a definition that does not exist (such a list cannot be read back whatever
// Optimize does)? Also true for graphs whose keys differ from the identifiers or that define one identifier twice.
func danglingBefore(g graph) bool {
	st, rg := map[string]bool{}, map[string]bool{}
	for _, d := range g.styles {
		if d.key != d.id || st[d.id] {
			return true
		}
		st[d.id] = true
	}
	for _, d := range g.regions {
		if d.key != d.id || rg[d.id] {
			return true
		}
		rg[d.id] = true
	}
	chainOK := func(c []string) bool {
		for _, id := range c {
			if !st[id] {
				return false
			}
		}
		return true
	}
	for _, d := range append(append([]gDef{}, g.styles...), g.regions...) {
		if !chainOK(d.chain) {
			return true
		}
	}
	for _, it := range g.items {
		if !chainOK(it.style) || (it.region != "" && !rg[it.region]) {
			return true
		}
		for _, r := range it.runs {
			if !chainOK(r) {
				return true
			}
		}
	}
	return false
}

func sortByStart(xs []mItem) {
	for i := 1; i < len(xs); i++ {
		for j := i; j > 0 && xs[j].start < xs[j-1].start; j-- {
			xs[j], xs[j-1] = xs[j-1], xs[j]
		}
	}
}

func init() {
	streams["ops.removestyling"] = stream{exec: func(a []string) string {
		g, _ := decGraph(a)
		s := g.build()
		type snap struct {
			st, en time.Duration
			idx    int
			txt    string
		}
		shot := func() []snap {
			var o []snap
			for _, it := range s.Items {
				t := ""
				for _, l := range it.Lines {
					t += "[" + l.VoiceName + "]"
					for _, r := range l.Items {
						t += r.Text + fmt.Sprintf("@%d|", r.StartAt)
					}
				}
				o = append(o, snap{it.StartAt, it.EndAt, it.Index, t})
			}
			return o
		}
		before := shot()
		s.RemoveStyling()
		after := shot()
		same := len(before) == len(after)
		for i := range before {
			if same && before[i] != after[i] {
				same = false
			}
		}
		clean := true
		for _, it := range s.Items {
			if it.InlineStyle != nil {
				clean = false
			}
			for _, l := range it.Lines {
				for _, r := range l.Items {
					if r.InlineStyle != nil {
						clean = false
					}
				}
			}
		}
		// a second list goes through the same operation and is merged with styled cues: none of this list's business
		res := observeGraph(s).enc()
		t := g.build()
		t.RemoveStyling()
		t.Merge(g.build())
		if observeGraph(s).enc() != res {
			same = false
		}
		return fmt.Sprintf("%s clean=%v same=%v", res, clean, same)
	}, gen: func(c *ctx) {
		r := newRng(c.seed, "ops.removestyling")
		nr := 10000
		if c.thorough {
			nr = 300000
		}
		for i := 0; i < nr; i++ {
			c.do("ops.removestyling " + randGraph(r, true, true).enc())
			c.count("random")
		}
	}}
}
