package main

import (
	"fmt"
	"time"

	astisub "github.com/asticode/go-astisub"
)

// pool of line structures; several share the same Item.String() ("a - b", "")
var linePool = [][][]string{
	{{"a"}},
	{{"b"}},
	{{"a"}, {"b"}},
	{{"a - b"}},
	{{"a", " - ", "b"}},
	{{"é", " ☃"}},
	{},
	{{""}},
	{{"a", ""}},
}

type span struct{ s, e int64 }

// spans on the grid 0..g with s <= e
func gridSpans(g int64) []span {
	var o []span
	for s := int64(0); s <= g; s++ {
		for e := s; e <= g; e++ {
			o = append(o, span{s, e})
		}
	}
	return o
}

// enumLists calls fn on every list of exactly n cues over spans × texts (texts index into linePool)
func enumLists(n int, sp []span, texts []int, fn func([]mItem)) {
	cur := make([]mItem, n)
	var rec func(i int)
	rec = func(i int) {
		if i == n {
			cp := make([]mItem, n)
			copy(cp, cur)
			fn(cp)
			return
		}
		for _, s := range sp {
			for _, t := range texts {
				cur[i] = mItem{uid: i + 1, start: s.s, end: s.e, pay: i + 1, lines: linePool[t]}
				rec(i + 1)
			}
		}
	}
	rec(0)
}

// randList: ms-granular, unordered, overlapping; wf => start <= end
func randList(r *rng, maxN int, wf bool) []mItem {
	n := r.intn(maxN + 1)
	xs := make([]mItem, n)
	horizon := int64(3 * time.Hour)
	if r.chance(1, 3) {
		horizon = int64(20 * time.Second)
	}
	for i := range xs {
		s := r.rangeI(0, horizon/int64(time.Millisecond)) * int64(time.Millisecond)
		var l int64
		switch r.intn(4) {
		case 0:
			l = 0
		case 1:
			l = r.rangeI(0, 10) * int64(time.Millisecond)
		default:
			l = r.rangeI(0, 10000) * int64(time.Millisecond)
		}
		if r.chance(1, 8) { // nanosecond-granular
			s += r.rangeI(0, 999999)
			l += r.rangeI(0, 999999)
		}
		e := s + l
		if !wf && r.chance(1, 4) {
			e = s - r.rangeI(1, 5000)*int64(time.Millisecond)
		}
		xs[i] = mItem{uid: i + 1, start: s, end: e, pay: i + 1, lines: linePool[r.intn(len(linePool))]}
	}
	if n > 1 && r.chance(1, 2) { // make many equal starts / duplicates
		for k := 0; k < n/2; k++ {
			a, b := r.intn(n), r.intn(n)
			xs[a].start, xs[a].end = xs[b].start, xs[b].end
		}
	}
	return xs
}

func maxEnd(xs []mItem) int64 {
	var m int64
	for _, x := range xs {
		if x.end > m {
			m = x.end
		}
	}
	return m
}

func init() {
	streams["ops.add"] = stream{exec: func(a []string) string {
		d, spare := atoi64(a[0]), int(atoi64(a[1]))
		xs, _ := decMItems(a[2:])
		s, ids := buildSubs(xs, spare)
		s.Add(time.Duration(d))
		return encMItems(observe(s.Items, ids))
	}, gen: func(c *ctx) {
		run := func(d int64, xs []mItem, spare int) {
			c.do(fmt.Sprintf("ops.add %d %d %s", d, spare, encMItems(xs)))
		}
		// exhaustive: all lists of <= k cues on the grid 0..6, every d in [-8,8]
		k := 2
		if c.thorough {
			k = 3
		}
		sp := gridSpans(6)
		for n := 0; n <= k; n++ {
			enumLists(n, sp, []int{0}, func(xs []mItem) {
				for d := int64(-8); d <= 8; d++ {
					run(d, xs, 0)
					c.count("grid")
				}
			})
		}
		// a slice of the 3-cue grid in the quick tier
		r := newRng(c.seed, "ops.add")
		if !c.thorough {
			for i := 0; i < 20000; i++ {
				xs := make([]mItem, 3)
				for j := range xs {
					s := sp[r.intn(len(sp))]
					xs[j] = mItem{uid: j + 1, start: s.s, end: s.e, pay: j + 1, lines: linePool[0]}
				}
				run(r.rangeI(-8, 8), xs, r.intn(2))
				c.count("grid3-sample")
			}
		}
		nr := 20000
		if c.thorough {
			nr = 1000000
		}
		for i := 0; i < nr; i++ {
			wf := !r.chance(1, 10)
			xs := randList(r, 40, wf)
			me := maxEnd(xs)
			var d int64
			switch r.intn(4) {
			case 0: // around the ends of the cues: runs of dead cues
				if len(xs) > 0 {
					d = -xs[r.intn(len(xs))].end + r.rangeI(-2, 2)
				}
			case 1:
				d = r.rangeI(-me-1, 0)
			case 2:
				d = r.rangeI(0, int64(24*time.Hour))
			default:
				d = r.rangeI(-me-1, int64(24*time.Hour)/int64(time.Millisecond)) / 1000 * 1000
			}
			run(d, xs, r.intn(3))
			if wf {
				c.count("random-wf")
			} else {
				c.count("random-nonwf")
			}
		}
	}}

	streams["ops.forceduration"] = stream{exec: func(a []string) string {
		d, b, spare := atoi64(a[0]), a[1] == "1", int(atoi64(a[2]))
		xs, _ := decMItems(a[3:])
		s, ids := buildSubs(xs, spare)
		s.ForceDuration(time.Duration(d), b)
		return encMItems(observe(s.Items, ids))
	}, gen: func(c *ctx) {
		run := func(d int64, b bool, xs []mItem, spare int) {
			bi := 0
			if b {
				bi = 1
			}
			c.do(fmt.Sprintf("ops.forceduration %d %d %d %s", d, bi, spare, encMItems(xs)))
		}
		ms := int64(time.Millisecond)
		// exhaustive: ordered timelines (starts and ends non-decreasing) of <= k cues on 0..8 (ms), d in 1..10 ms
		k := 3
		if c.thorough {
			k = 4
		}
		sp := gridSpans(8)
		for n := 0; n <= k; n++ {
			enumLists(n, sp, []int{0}, func(xs []mItem) {
				for i := 1; i < len(xs); i++ {
					if xs[i].start < xs[i-1].start || xs[i].end < xs[i-1].end {
						return
					}
				}
				ys := make([]mItem, len(xs))
				for i, x := range xs {
					x.start *= ms
					x.end *= ms
					ys[i] = x
				}
				for d := int64(1); d <= 10; d++ {
					run(d*ms, false, ys, 0)
					run(d*ms, true, ys, 0)
					c.count("grid")
				}
			})
		}
		r := newRng(c.seed, "ops.forceduration")
		nr := 20000
		if c.thorough {
			nr = 1000000
		}
		for i := 0; i < nr; i++ {
			// ordered timeline with gaps and abutting cues
			n := r.intn(12)
			xs := make([]mItem, n)
			var t, pe int64
			for j := range xs {
				switch r.intn(3) {
				case 0: // abut
				case 1:
					t += r.rangeI(0, 3000) * ms
				default:
					t -= r.rangeI(0, 2000) * ms // overlap, but keep starts non-decreasing
					if j > 0 && t < xs[j-1].start {
						t = xs[j-1].start
					}
					if t < 0 {
						t = 0
					}
				}
				e := t + r.rangeI(0, 5000)*ms
				if e < pe {
					e = pe
				}
				xs[j] = mItem{uid: j + 1, start: t, end: e, pay: j + 1, lines: linePool[r.intn(len(linePool))]}
				pe = e
				t = e
			}
			var d int64
			switch r.intn(5) {
			case 0:
				if n > 0 {
					d = xs[r.intn(n)].start
				}
			case 1:
				if n > 0 {
					d = xs[r.intn(n)].end
				}
			case 2:
				d = pe + r.rangeI(0, 5000)*ms
			default:
				d = r.rangeI(1, pe/ms+10) * ms
			}
			if d < ms {
				d = ms
			}
			if r.chance(1, 6) {
				d += r.rangeI(-1, 1)
				if d < ms {
					d = ms
				}
			}
			run(d, r.bool(), xs, r.intn(3))
			c.count("random")
		}
	}}
}

var _ = astisub.NewSubtitles
