package main

import (
	"bytes"
	"encoding/binary"
	"fmt"
	"strconv"
	"strings"
	"time"

	astisub "github.com/asticode/go-astisub"
)

// C05 — EBU STL.  Streams:
//   stl.read  <ignoreTCP 0|1> x<file>            -> ok <canonical subs> | err | panic
//   stl.write <yymmdd> <canonical subs>          -> ok x<bytes> <re-read: ok <subs>|err|panic> <x<bytes of writing the re-read value>|->  | err | panic
//   stl.enc   x<text>                            -> ok x<bytes> | panic              (encodeTextSTL; hook)
//   stl.dec   x<bytes>                           -> ok x<text> <pending accent byte> (stlCharacterHandler.decode; hook)
//   stl.row   <open 0|1> <accent byte> x<row>    -> ok <accent byte> <canonical subs with one item> | err | panic   (hook)
//   stl.kf    same as stl.write, judged without excluding the known-finding classes (witness replay only)
//   stl.tables                                   -> JSON dump of the package's tables (not a correspondence stream)

// hooks (set in stl_hooks.go under the build tag verif)
var (
	stlDumpTables func() string
	stlEncodeText func(string) []byte
	stlDecode     func(uint16, []byte) (string, string, error)
	stlRow        func(bool, string, []byte) (*astisub.Item, string, error)
)

const stlLatin = 12336

var stlAccentByte map[string]int // accent string -> the byte that produces it

// stlText decodes table bytes to text; without the hook only the ASCII part of the table is used
func stlText(b []byte) string {
	if stlDecode == nil {
		var o []byte
		for _, c := range b {
			if c >= 0x20 && c < 0x7f && c != 0x24 {
				o = append(o, c)
			}
		}
		return string(o)
	}
	t, _, _ := stlDecode(stlLatin, b)
	return t
}

func stlAccents() map[string]int {
	if stlAccentByte == nil {
		stlAccentByte = map[string]int{"": 0}
		for k := 0xc0; k <= 0xcf; k++ {
			if _, a, err := stlDecode(stlLatin, []byte{byte(k)}); err == nil && a != "" {
				stlAccentByte[a] = k
			}
		}
	}
	return stlAccentByte
}

func stlAccentString(b int) string {
	for s, k := range stlAccents() {
		if k == b {
			return s
		}
	}
	return ""
}

// ---------------------------------------------------------------------------------------------
// ground truth of an STL file and its rendering

type stlTC struct{ h, m, s, f int }

type stlBlock struct {
	user             bool // EBN 0xFE
	sgn, sn, ebn, cs int
	in, out          stlTC
	vp, jc, cf       int
	text             []byte // already laid out (rows joined by 0x8A), at most 112 bytes
}

type stlGT struct {
	cpn                              string
	fr                               int
	dsc                              byte
	cct, lc                          string
	opt, oet, tpt, tet, tn, tcd, slr string
	cd, rd                           string
	rn, tnb, tns, tng, mnc, mnr      string
	tcs                              byte
	tcp, tcf                         stlTC
	tnd, dsn                         byte
	co, pub, en, ecd                 string
	uda                              []byte
	blocks                           []stlBlock
}

func (t stlTC) text() string { return fmt.Sprintf("%02d%02d%02d%02d", t.h, t.m, t.s, t.f) }

func padField(s string, n int) []byte {
	b := []byte(s)
	if len(b) > n {
		b = b[:n]
	}
	for len(b) < n {
		b = append(b, ' ')
	}
	return b
}

func (g *stlGT) bytes() []byte {
	var o []byte
	o = append(o, padField(g.cpn, 3)...)
	o = append(o, padField(fmt.Sprintf("STL%02d.01", g.fr), 8)...)
	o = append(o, g.dsc)
	o = append(o, padField(g.cct, 2)...)
	o = append(o, padField(g.lc, 2)...)
	for _, f := range []string{g.opt, g.oet, g.tpt, g.tet, g.tn, g.tcd} {
		o = append(o, padField(f, 32)...)
	}
	o = append(o, padField(g.slr, 16)...)
	o = append(o, padField(g.cd, 6)...)
	o = append(o, padField(g.rd, 6)...)
	o = append(o, padField(g.rn, 2)...)
	o = append(o, padField(g.tnb, 5)...)
	o = append(o, padField(g.tns, 5)...)
	o = append(o, padField(g.tng, 3)...)
	o = append(o, padField(g.mnc, 2)...)
	o = append(o, padField(g.mnr, 2)...)
	o = append(o, g.tcs)
	o = append(o, padField(g.tcp.text(), 8)...)
	o = append(o, padField(g.tcf.text(), 8)...)
	o = append(o, g.tnd, g.dsn)
	o = append(o, padField(g.co, 3)...)
	o = append(o, padField(g.pub, 32)...)
	o = append(o, padField(g.en, 32)...)
	o = append(o, padField(g.ecd, 32)...)
	o = append(o, bytes.Repeat([]byte{' '}, 75)...)
	uda := append([]byte(nil), g.uda...)
	for len(uda) < 576 {
		uda = append(uda, ' ')
	}
	o = append(o, uda[:576]...)
	for _, b := range g.blocks {
		o = append(o, b.bytes()...)
	}
	return o
}

func (b *stlBlock) bytes() []byte {
	o := []byte{byte(b.sgn), byte(b.sn), byte(b.sn >> 8), byte(b.ebn), byte(b.cs),
		byte(b.in.h), byte(b.in.m), byte(b.in.s), byte(b.in.f), byte(b.out.h), byte(b.out.m), byte(b.out.s), byte(b.out.f),
		byte(b.vp), byte(b.jc), byte(b.cf)}
	if b.user {
		o[3] = 0xfe
	}
	t := append([]byte(nil), b.text...)
	for len(t) < 112 {
		t = append(t, 0x8f)
	}
	return append(o, t[:112]...)
}

var stlWordsASCII = []string{"Hello", "world", "subtitle", "a", "I", "42", "it's", "100%", "[x]", "Oui", "non", "#1", "a+b=c", "q?", "end.", "~", "@home", "x_y", "A&B", "<i>"}

// the bytes of the latin table by class (kept in sync with the package by the stl.dec stream, which is exhaustive)
func stlSymbolBytes() []byte {
	var o []byte
	if stlDecode == nil { // untagged build: the assigned symbols that do not depend on the hook
		return []byte{0xa1, 0xa2, 0xa3, 0xa5, 0xa7, 0xab, 0xb0, 0xb1, 0xbb, 0xbf, 0xd3, 0xe1, 0xe9, 0xf1, 0xf9, 0xfb}
	}
	for k := 0xa1; k <= 0xff; k++ {
		if k >= 0xc0 && k <= 0xcf {
			continue
		}
		if s, _, err := stlDecode(stlLatin, []byte{byte(k)}); err == nil && s != "" {
			o = append(o, byte(k))
		}
	}
	return o
}

var stlDiacritics = []byte{0xc1, 0xc2, 0xc3, 0xc4, 0xc5, 0xc6, 0xc7, 0xc8, 0xca, 0xcb, 0xcd, 0xce, 0xcf}

const stlLetters = "abcdefghijklmnopqrstuvwxyzABCDEFGHIJKLMNOPQRSTUVWXYZ"

// a word of table cells: ASCII, symbols of the upper half, diacritic+letter pairs
func genSTLWord(r *rng, sym []byte) []byte {
	switch r.intn(6) {
	case 0, 1:
		return []byte(stlWordsASCII[r.intn(len(stlWordsASCII))])
	case 2:
		var o []byte
		for k := 1 + r.intn(5); k > 0; k-- {
			if r.chance(1, 3) {
				o = append(o, stlDiacritics[r.intn(len(stlDiacritics))])
			}
			o = append(o, stlLetters[r.intn(len(stlLetters))])
		}
		return o
	case 3:
		var o []byte
		for k := 1 + r.intn(3); k > 0; k-- {
			o = append(o, sym[r.intn(len(sym))])
		}
		return o
	case 4:
		var o []byte
		for k := 1 + r.intn(4); k > 0; k-- {
			o = append(o, byte(0x21+r.intn(0x7e-0x21+1)))
		}
		return o
	default:
		w := []byte(stlWordsASCII[r.intn(len(stlWordsASCII))])
		return append([]byte{stlDiacritics[r.intn(len(stlDiacritics))]}, w...)
	}
}

// genSTLCleanWord: as genSTLWord, inside the class the independent decoder speaks about (a floating
// diacritic is always followed by a letter; no currency sign, see known finding D22; no no-break space)
func genSTLCleanWord(r *rng, sym []byte) []byte {
	for {
		w := genSTLWord(r, sym)
		ok := true
		for i, c := range w {
			if c == 0x24 || c == 0xa4 || c == 0xa0 || c == 0xa8 {
				ok = false
			}
			if c >= 0xc0 && c <= 0xcf && (i+1 >= len(w) || !strings.ContainsRune(stlLetters, rune(w[i+1]))) {
				ok = false
			}
		}
		if ok {
			return w
		}
	}
}

// one row of an open-subtitling text field: segments separated by style code sequences
func genSTLOpenRow(r *rng, sym []byte, clean bool) []byte {
	word := genSTLWord
	if clean {
		word = genSTLCleanWord
	}
	var o []byte
	for seg := 1 + r.intn(3); seg > 0; seg-- {
		for k := r.intn(3); k > 0; k-- {
			o = append(o, byte(0x80+r.intn(6)))
		}
		if r.chance(1, 6) {
			o = append(o, ' ')
		}
		for w := 1 + r.intn(3); w > 0; w-- {
			o = append(o, word(r, sym)...)
			if w > 1 || r.chance(1, 5) {
				o = append(o, ' ')
			}
		}
	}
	if r.chance(1, 3) {
		o = append(o, byte(0x81+2*r.intn(3)))
	}
	return o
}

// one row of a teletext text field: spacing attributes, a box, text with attribute changes inside.
// clean: one box, every size / style code changes the state (the class of the independent decoder)
func genSTLTeleRow(r *rng, sym []byte, wild, clean bool) []byte {
	word := genSTLWord
	if clean {
		word = genSTLCleanWord
	}
	var o []byte
	dh, dw, ds, col := false, false, false, -1
	sty := map[byte]int{0x80: -1, 0x82: -1, 0x84: -1} // -1 unset, 0 off, 1 on
	code := func() {
		switch r.intn(4) {
		case 0:
			c := byte(0x80 + r.intn(6))
			base, on := c&^1, int(c&1^1)
			if clean && sty[base] == on {
				c, on = c^1, on^1
			}
			sty[base] = on
			o = append(o, c)
		case 1:
			c := byte(0x0c + r.intn(4))
			if clean {
				switch {
				case c == 0x0c && !(dh || dw || ds):
					c = 0x0d
				case c == 0x0d && dh, c == 0x0e && dw, c == 0x0f && ds:
					c = 0x0c
				}
				if c == 0x0d && dh {
					return
				}
			}
			switch c {
			case 0x0c:
				dh, dw, ds = false, false, false
			case 0x0d:
				dh = true
			case 0x0e:
				dw = true
			case 0x0f:
				ds = true
			}
			o = append(o, c)
		default:
			c := r.intn(8)
			if clean && c == col {
				c = (c + 1 + r.intn(7)) % 8
			}
			col = c
			o = append(o, byte(c))
		}
	}
	if r.chance(2, 3) {
		o = append(o, 0x0d)
		dh = true
	}
	if r.chance(2, 3) {
		col = r.intn(8)
		o = append(o, byte(col))
	}
	box := 1 + r.intn(2)
	for k := 0; k < box; k++ {
		o = append(o, 0x0b)
	}
	for seg := 1 + r.intn(3); seg > 0; seg-- {
		if r.chance(1, 5) {
			o = append(o, ' ')
		}
		for w := 1 + r.intn(3); w > 0; w-- {
			o = append(o, word(r, sym)...)
			if w > 1 || r.chance(1, 5) {
				o = append(o, ' ')
			}
		}
		if seg > 1 {
			code()
		}
	}
	for k := r.intn(3); k > 0; k-- {
		o = append(o, 0x0a)
	}
	if clean && r.chance(1, 4) {
		// attribute codes after the end of the box, possibly a second box
		o = append(o, 0x0a)
		code()
		if r.bool() {
			o = append(o, 0x0b)
			o = append(o, word(r, sym)...)
			o = append(o, 0x0a)
		}
	}
	if wild && r.chance(1, 3) {
		// a second box on the same row, other control codes
		o = append(o, byte(r.intn(0x20)), 0x0b)
		o = append(o, genSTLWord(r, sym)...)
		o = append(o, 0x0a)
	}
	return o
}

func genSTLText(r *rng, dsc byte, sym []byte, wild, clean bool) []byte {
	var o []byte
	rows := 1 + r.intn(3)
	for k := 0; k < rows; k++ {
		var row []byte
		if dsc == '0' {
			row = genSTLOpenRow(r, sym, clean)
		} else {
			row = genSTLTeleRow(r, sym, wild, clean)
		}
		if len(o)+len(row)+1 > 112 {
			break
		}
		if k > 0 {
			o = append(o, 0x8a)
		}
		o = append(o, row...)
	}
	if wild && r.chance(1, 4) && len(o) > 0 {
		o[r.intn(len(o))] = byte(r.intn(256))
	}
	return o
}

func genSTLTC(r *rng, fr int) stlTC {
	t := stlTC{h: r.intn(24), m: r.intn(60), s: r.intn(60), f: r.intn(fr)}
	switch r.intn(8) {
	case 0:
		t.h = 0
	case 1:
		t.f = fr - 1
	case 2:
		t.m, t.s, t.f = 59, 59, fr-1
	}
	return t
}

var stlTitles = []string{"", "Title", "Le programme", "EPISODE 12", "A  B", "x", "0123456789012345678901234567890123456789", "tab\there", "caf\xc3\xa9", "\xa0nbsp\xa0", "end "}

func genSTLDate(r *rng) string {
	if r.chance(1, 10) {
		return ""
	}
	y, m := r.intn(100), 1+r.intn(12)
	d := 1 + r.intn(28)
	if r.chance(1, 4) {
		d = 1 + r.intn(31) // may be invalid for the month
	}
	return fmt.Sprintf("%02d%02d%02d", y, m, d)
}

func genSTLNum(r *rng, w int) string {
	if r.chance(1, 12) {
		return ""
	}
	max := 1
	for i := 0; i < w; i++ {
		max *= 10
	}
	s := fmt.Sprintf("%0*d", w, r.intn(max))
	if r.chance(1, 8) {
		s = strconv.Itoa(r.intn(max)) // not zero padded: left aligned, blanks after
	}
	return s
}

func genSTLGT(r *rng, sym []byte, wild bool) *stlGT {
	clean := !wild && r.chance(2, 3)
	g := &stlGT{cpn: []string{"850", "437", "860", "863", "865"}[r.intn(5)], fr: []int{25, 30}[r.intn(2)], dsc: "012"[r.intn(3)], cct: "00",
		lc: []string{"0F", "09", "1E", "69", "75", "0A", "  ", "0f", "FF"}[r.intn(9)], tcs: "01"[r.intn(2)], tnd: '1', dsn: '1'}
	pick := func() string {
		if clean {
			return stlTitles[r.intn(7)]
		}
		return stlTitles[r.intn(len(stlTitles))]
	}
	if clean {
		g.lc = []string{"0F", "09", "1E", "69", "75", "0A"}[r.intn(6)]
	}
	g.opt, g.oet, g.tpt, g.tet, g.tn, g.tcd, g.slr = pick(), pick(), pick(), pick(), pick(), pick(), pick()
	g.pub, g.en, g.ecd = pick(), pick(), pick()
	g.co = []string{"FRA", "NOR", "GBR", "", "US"}[r.intn(5)]
	g.cd, g.rd = genSTLDate(r), genSTLDate(r)
	g.rn, g.tnb, g.tns, g.tng, g.mnc, g.mnr = genSTLNum(r, 2), genSTLNum(r, 5), genSTLNum(r, 5), genSTLNum(r, 3), genSTLNum(r, 2), genSTLNum(r, 2)
	if clean {
		g.cd, g.rd = fmt.Sprintf("%02d%02d%02d", r.intn(100), 1+r.intn(12), 1+r.intn(28)), fmt.Sprintf("%02d02%02d", 4*r.intn(25), 28+r.intn(2))
		g.rn, g.tnb, g.tns, g.tng = fmt.Sprintf("%02d", r.intn(100)), fmt.Sprintf("%05d", r.intn(100000)), fmt.Sprintf("%05d", r.intn(100000)), "001"
		g.mnc, g.mnr = fmt.Sprintf("%02d", r.intn(100)), fmt.Sprintf("%02d", r.intn(100))
	}
	if r.chance(1, 2) {
		g.mnc, g.mnr = "40", "23"
	} else if r.chance(1, 2) {
		g.mnr = "11"
	}
	switch r.intn(3) {
	case 0:
		g.tcp = stlTC{}
	case 1:
		g.tcp = stlTC{h: r.intn(11)}
	default:
		g.tcp = genSTLTC(r, g.fr)
	}
	g.tcf = genSTLTC(r, g.fr)
	if r.chance(1, 6) {
		g.uda = []byte("user defined \xff\x00 area")
	}
	n := r.intn(5)
	for i := 0; i < n; i++ {
		b := stlBlock{sgn: r.intn(2), sn: i + 1, ebn: 0xff, cs: r.intn(4), in: genSTLTC(r, g.fr), out: genSTLTC(r, g.fr),
			vp: r.intn(24), jc: r.intn(4), cf: r.intn(2)}
		if g.dsc == '0' && r.bool() {
			b.vp = r.intn(100)
		}
		if r.chance(1, 6) {
			b.user = true
			b.text = []byte("private data \x01\x02\xc2")
		} else {
			b.text = genSTLText(r, g.dsc, sym, wild, clean)
		}
		if r.chance(1, 10) {
			b.ebn = r.intn(0xf0) // extension block numbers
		}
		g.blocks = append(g.blocks, b)
	}
	if wild {
		switch r.intn(8) {
		case 0:
			g.fr = []int{24, 50, 0, 99}[r.intn(4)]
		case 1:
			g.dsc = " 39A\xa0"[r.intn(5)]
		case 2:
			g.cct = []string{"01", "02", "0 ", "  "}[r.intn(4)]
		case 3:
			g.tnd = "0 x9\x85\xa0\xe9"[r.intn(7)]
		case 4:
			g.dsn = " +-\x85"[r.intn(4)]
		}
	}
	return g
}

func mutateSTL(r *rng, d []byte) []byte {
	md := append([]byte(nil), d...)
	for k := 1 + r.intn(3); k > 0 && len(md) > 0; k-- {
		switch r.intn(10) {
		case 0, 1, 2: // a byte of the fixed-format part of the GSI block
			if len(md) >= 448 {
				md[r.intn(448)] = []byte(" 0123456789+-xA\x00\xff\x85\xa0\xc2\xe2\x80")[r.intn(22)]
			}
		case 3: // blanks around a field: timecodes, numbers, dates
			if len(md) >= 448 {
				i := 224 + r.intn(50)
				md[i] = ' '
			}
		case 4:
			md[r.intn(len(md))] = byte(r.intn(256))
		case 5: // truncate
			md = md[:r.intn(len(md))]
		case 6: // drop or add bytes at the end
			md = append(md, bytes.Repeat([]byte{0x8f}, r.intn(130))...)
		case 7: // a byte of a TTI header
			if len(md) > 1024+16 {
				nb := (len(md) - 1024) / 128
				if nb > 0 {
					md[1024+128*r.intn(nb)+r.intn(16)] = byte(r.intn(256))
				}
			}
		case 8: // a control code or dangling diacritic in a text field
			if len(md) > 1024+128 {
				nb := (len(md) - 1024) / 128
				md[1024+128*r.intn(nb)+16+r.intn(112)] = []byte{0x00, 0x07, 0x0a, 0x0b, 0x1f, 0x80, 0x85, 0x8a, 0x8f, 0xc2, 0xc8, 0xc0, 0x7f, 0xa6, 0x24, 0xa8}[r.intn(16)]
			}
		default:
			if len(md) >= 272 {
				copy(md[256:264], []string{"        ", "0000    ", "  000000", "1000000 ", "-1000000", "00+10000", "99999999", "2359592\xa0"}[r.intn(8)])
			}
		}
	}
	return md
}

func stlReadOut(ignore bool, doc []byte) (s *astisub.Subtitles, out string) {
	defer func() {
		if rec := recover(); rec != nil {
			s, out = nil, "panic"
		}
	}()
	s, err := astisub.ReadFromSTL(deliveryFor(doc), astisub.STLOptions{IgnoreTimecodeStartOfProgramme: ignore})
	if err != nil {
		return nil, "err"
	}
	return s, "ok " + canonSubs(s)
}

func stlWriteBytes(s *astisub.Subtitles) (b []byte, out string) {
	defer func() {
		if rec := recover(); rec != nil {
			b, out = nil, "panic"
		}
	}()
	var buf bytes.Buffer
	switch err := writeWith("stl", s, &buf); err {
	case nil:
	case errImpure:
		return nil, "impure: the writer modified the cue list it was given"
	case errNondet:
		return nil, "nondet: writing the same list twice gave different bytes"
	default:
		return nil, "err"
	}
	return buf.Bytes(), "ok"
}

func init() {
	streams["stl.tables"] = stream{exec: func(a []string) string { return "" }, gen: func(c *ctx) {
		c.w.WriteString(stlDumpTables())
	}}

	streams["stl.read"] = stream{exec: func(a []string) string {
		_, out := stlReadOut(a[0] == "1", decBytes(a[1]))
		return out
	}, gen: func(c *ctx) {
		r := newRng(c.seed, "stl.read")
		sym := stlSymbolBytes()
		do := func(ignore bool, d []byte, kind string) {
			ig := "0"
			if ignore {
				ig = "1"
			}
			c.do("stl.read " + ig + " " + encBytes(d))
			c.count(kind)
		}
		for _, d := range testdataDocs("stl") {
			do(false, d, "testdata")
			do(true, d, "testdata")
			for k := 0; k < 20; k++ {
				do(r.bool(), mutateSTL(r, d), "testdata-mutated")
			}
		}
		// every table byte alone and every diacritic x table byte pair, for the three display standards and both rates
		for _, dsc := range []byte("012") {
			base := genSTLGT(r, sym, false)
			base.dsc, base.blocks = dsc, nil
			pre, post := []byte(nil), []byte(nil)
			if dsc != '0' {
				pre, post = []byte{0x0b, 0x0b}, []byte{0x0a, 0x0a}
			}
			for _, dia := range append([]byte{0}, stlDiacritics...) {
				var cells [][]byte
				for k := 0x20; k <= 0xff; k++ {
					if k == 0x8a || (k >= 0x80 && k <= 0x85) {
						continue
					}
					if dia == 0 {
						cells = append(cells, []byte{byte(k), ' '})
					} else {
						cells = append(cells, []byte{dia, byte(k), ' '})
					}
				}
				for len(cells) > 0 {
					t := append([]byte(nil), pre...)
					for len(cells) > 0 && len(t)+len(cells[0])+len(post) <= 112 {
						t = append(t, cells[0]...)
						cells = cells[1:]
					}
					t = append(t, post...)
					base.blocks = append(base.blocks, stlBlock{sn: len(base.blocks) + 1, ebn: 0xff, in: stlTC{0, 0, 1, 0}, out: stlTC{0, 0, 2, 0}, vp: 20, jc: 2, text: t})
				}
			}
			do(false, base.bytes(), "exhaustive-chars")
		}
		// timecodes: every frame number at h/m/s boundaries for both rates, with and without programme start
		for _, fr := range []int{25, 30} {
			g := genSTLGT(r, sym, false)
			g.fr, g.blocks = fr, nil
			g.tcp = stlTC{10, 0, 0, 0}
			for f := 0; f < fr; f++ {
				g.blocks = append(g.blocks, stlBlock{sn: f + 1, ebn: 0xff, in: stlTC{10, 0, 0, f}, out: stlTC{23, 59, 59, f}, vp: 1, jc: 1, text: []byte("x")})
			}
			do(false, g.bytes(), "frames")
			do(true, g.bytes(), "frames")
		}
		n := 1500
		if c.thorough {
			n = 60000
		}
		for i := 0; i < n; i++ {
			g := genSTLGT(r, sym, false)
			d := g.bytes()
			do(r.chance(1, 3), d, "rendered")
			if i%2 == 0 {
				do(r.chance(1, 3), genSTLGT(r, sym, true).bytes(), "rendered-wild")
			}
			if i%2 == 1 {
				do(r.chance(1, 3), mutateSTL(r, d), "mutated")
			}
		}
		if c.thorough {
			// every h:m:s:f
			for _, fr := range []int{25, 30} {
				g := genSTLGT(r, sym, false)
				g.fr, g.tcp = fr, stlTC{}
				for _, h := range []int{0, 9, 23} { // (the function-level sweep of all 24 h is ts.stl, C16)
					for m := 0; m < 60; m++ {
						g.blocks = nil
						for s := 0; s < 60; s++ {
							for f := 0; f < fr; f++ {
								g.blocks = append(g.blocks, stlBlock{ebn: 0xff, in: stlTC{h, m, s, f}, out: stlTC{h, m, s, f}, text: []byte{}})
							}
						}
						do(false, g.bytes(), "sweep")
					}
				}
			}
		}
	}}

	streams["stl.write"] = stream{exec: func(a []string) string {
		now, err := time.Parse("060102", a[0])
		if err != nil {
			panic(err)
		}
		astisub.Now = func() time.Time { return now }
		s, _ := parseCanon(a[1:])
		b, out := stlWriteBytes(s)
		if out != "ok" {
			return out
		}
		back, rd := stlReadOut(false, b)
		again := "-"
		if back != nil {
			if b2, o2 := stlWriteBytes(back); o2 == "ok" {
				again = encBytes(b2)
			} else {
				again = o2
			}
		}
		return "ok " + encBytes(b) + " " + rd + " " + again
	}, gen: func(c *ctx) {
		r := newRng(c.seed, "stl.write")
		sym := stlSymbolBytes()
		n := 1500
		if c.thorough {
			n = 60000
		}
		do := func(s *astisub.Subtitles, kind string) {
			c.do("stl.write 210304 " + canonSubs(s))
			c.count(kind)
		}
		// every character of the latin table and every diacritic x letter pair
		for _, dsc := range []string{"0", "1"} {
			for _, dia := range append([]byte{0}, stlDiacritics...) {
				var cells []string
				for k := 0x21; k <= 0xff; k++ {
					if dia != 0 && !strings.ContainsRune(stlLetters, rune(k)) {
						continue
					}
					in := []byte{byte(k)}
					if dia != 0 {
						in = []byte{dia, byte(k)}
					}
					if t := stlText(in); strings.TrimSpace(t) != "" {
						cells = append(cells, t)
					}
				}
				for len(cells) > 0 {
					k := 30
					if k > len(cells) {
						k = len(cells)
					}
					s := astisub.NewSubtitles()
					s.Metadata = &astisub.Metadata{Framerate: 25, STLDisplayStandardCode: dsc}
					s.Items = append(s.Items, &astisub.Item{StartAt: time.Second, EndAt: 2 * time.Second,
						Lines: []astisub.Line{{Items: []astisub.LineItem{{Text: strings.Join(cells[:k], " ")}}}}})
					cells = cells[k:]
					do(s, "exhaustive-chars")
				}
			}
		}
		for i := 0; i < n; i++ {
			do(genSTLSubs(r, sym), "generated")
		}
	}}

	// stl.kf: the writer case with the strict predicate (no known-finding class excluded); only replayed
	// on the witnesses of known_findings.json, generates nothing
	streams["stl.kf"] = stream{exec: streams["stl.write"].exec, gen: func(c *ctx) {}}

	streams["stl.enc"] = stream{exec: func(a []string) string {
		return "ok " + encBytes(stlEncodeText(decStr(a[0])))
	}, gen: func(c *ctx) {
		r := newRng(c.seed, "stl.enc")
		// every rune of the modelled domain alone, after a letter, and after a letter + mark
		for cp := rune(0); cp < 0x3000; cp++ {
			c.do("stl.enc " + encStr(string(cp)))
			c.do("stl.enc " + encStr("e"+string(cp)))
			if cp >= 0x300 && cp < 0x370 {
				c.do("stl.enc " + encStr("ǫ"+string(cp)+"́x"))
			}
			c.count("domain")
		}
		n := 3000
		if c.thorough {
			n = 300000
		}
		pool := []rune("aeiouAEOUcnszCNSZ $¤#éèêëñçåøßÆŒœΩΩÅKǗṩậ’“”«»♪—―\n\t ­\u0080\u0085\u008ạ̧̨̀́̂̃̄̆̇̈̊̋̌̕ͅ日本😀　ᄀ가")
		for i := 0; i < n; i++ {
			var s []rune
			for k := r.intn(8); k > 0; k-- {
				if r.chance(1, 8) {
					s = append(s, rune(r.intn(0x3000)))
				} else {
					s = append(s, pool[r.intn(len(pool))])
				}
			}
			c.do("stl.enc " + encStr(string(s)))
			c.count("random")
		}
	}}

	streams["stl.dec"] = stream{exec: func(a []string) string {
		o, acc, err := stlDecode(stlLatin, decBytes(a[0]))
		if err != nil {
			return "err"
		}
		return "ok " + encStr(o) + " " + strconv.Itoa(stlAccents()[acc])
	}, gen: func(c *ctx) {
		r := newRng(c.seed, "stl.dec")
		for k := 0; k < 256; k++ {
			c.do("stl.dec " + encBytes([]byte{byte(k)}))
			for _, d := range stlDiacritics {
				c.do("stl.dec " + encBytes([]byte{d, byte(k)}))
			}
			c.count("exhaustive")
		}
		if c.thorough {
			for a := 0; a < 256; a++ {
				for b := 0; b < 256; b++ {
					c.do("stl.dec " + encBytes([]byte{byte(a), byte(b), 'x'}))
				}
			}
		}
		for i := 0; i < 2000; i++ {
			b := make([]byte, r.intn(6))
			for k := range b {
				if r.bool() {
					b[k] = byte(0xc0 + r.intn(16))
				} else {
					b[k] = byte(r.intn(256))
				}
			}
			c.do("stl.dec " + encBytes(b))
			c.count("random")
		}
	}}

	streams["stl.row"] = stream{exec: func(a []string) string {
		acc, _ := strconv.Atoi(a[1])
		it, acc2, err := stlRow(a[0] == "1", stlAccentString(acc), decBytes(a[2]))
		if err != nil {
			return "err"
		}
		s := astisub.NewSubtitles()
		s.Items = append(s.Items, it)
		return "ok " + strconv.Itoa(stlAccents()[acc2]) + " " + canonSubs(s)
	}, gen: func(c *ctx) {
		r := newRng(c.seed, "stl.row")
		sym := stlSymbolBytes()
		n := 4000
		if c.thorough {
			n = 400000
		}
		for i := 0; i < n; i++ {
			open := r.bool()
			var row []byte
			switch r.intn(4) {
			case 0:
				row = genSTLOpenRow(r, sym, false)
			case 1:
				row = genSTLTeleRow(r, sym, true, false)
			default: // dense code soup
				al := []byte{0x00, 0x01, 0x07, 0x08, 0x0a, 0x0b, 0x0b, 0x0c, 0x0d, 0x0e, 0x0f, 0x10, 0x1f, ' ', ' ', 'a', 'b', 0x80, 0x81, 0x82, 0x83, 0x84, 0x85, 0x86, 0x8f, 0xc2, 0xc8, 0xa0, 0xe9, 0x7f}
				for k := r.intn(14); k > 0; k-- {
					row = append(row, al[r.intn(len(al))])
				}
			}
			acc := 0
			if r.chance(1, 5) {
				acc = int(stlDiacritics[r.intn(len(stlDiacritics))])
			}
			op := "0"
			if open {
				op = "1"
			}
			c.do(fmt.Sprintf("stl.row %s %d %s", op, acc, encBytes(row)))
			c.count("rows")
		}
	}}
}

// genSTLSubs: cue lists for the writer — metadata present / absent / inherited from another format,
// text in and out of the latin repertoire, styles, justification, vertical position
func genSTLSubs(r *rng, sym []byte) *astisub.Subtitles {
	s := astisub.NewSubtitles()
	// clean: inside the proviso of the write clause (open subtitling, repertoire text, values that fit)
	clean := r.chance(1, 2)
	mode := r.intn(5)
	if clean {
		mode = 4
	}
	switch mode {
	case 0: // absent
	case 1: // inherited from another format
		s.Metadata = &astisub.Metadata{Title: "From TTML", TTMLCopyright: "(c)", Language: []string{"french", "english", "fr", ""}[r.intn(4)]}
		if r.bool() {
			s.Metadata.Framerate = []int{24, 25, 30, 60}[r.intn(4)]
		}
	default:
		cd := time.Date(1970+r.intn(90), time.Month(1+r.intn(12)), 1+r.intn(28), 0, 0, 0, 0, time.UTC)
		rd := time.Date(1970+r.intn(90), time.Month(1+r.intn(12)), 1+r.intn(28), 0, 0, 0, 0, time.UTC)
		if r.chance(1, 8) { // a supplied date may be the zero time (blank GSI date field read back)
			cd = time.Time{}
		}
		if r.chance(1, 8) {
			rd = time.Time{}
		}
		pick := func() string {
			if clean {
				return []string{"", "Title", "Episode 3", "x", "A  B"}[r.intn(5)]
			}
			return []string{"", "Title", "Épisode 3", "A long title that does not fit in thirty-two bytes", " padded ", "x"}[r.intn(6)]
		}
		m := &astisub.Metadata{Framerate: []int{25, 30}[r.intn(2)], STLDisplayStandardCode: []string{"0", "0", "1", "2"}[r.intn(4)],
			Language:           []string{"french", "english", "norwegian", "japanese", "chinese", "klingon", ""}[r.intn(7)],
			STLCountryOfOrigin: []string{"FRA", "NOR", "", "USA1"}[r.intn(4)], Title: pick(), STLOriginalEpisodeTitle: pick(),
			STLTranslatedProgramTitle: pick(), STLTranslatedEpisodeTitle: pick(), STLTranslatorName: pick(), STLTranslatorContactDetails: pick(),
			STLSubtitleListReferenceCode: pick(), STLPublisher: pick(), STLEditorName: pick(), STLEditorContactDetails: pick(),
			STLRevisionNumber: r.intn(120)}
		if r.bool() {
			m.STLCreationDate = &cd
		}
		if r.bool() {
			m.STLRevisionDate = &rd
		}
		if r.bool() {
			v := []int{40, 38, 0, 7, 123}[r.intn(5)]
			m.STLMaximumNumberOfDisplayableCharactersInAnyTextRow = &v
		}
		if r.bool() {
			v := []int{23, 11, 0, 99}[r.intn(4)]
			m.STLMaximumNumberOfDisplayableRows = &v
		}
		if r.chance(1, 3) {
			fr := int64(m.Framerate)
			m.STLTimecodeStartOfProgramme = time.Duration(r.intn(11))*time.Hour + time.Duration((1e9*r.rangeI(0, fr-1)+fr-1)/fr)
		}
		if r.chance(1, 10) {
			m.Framerate = []int{0, 24}[r.intn(2)]
		}
		if r.chance(1, 10) {
			m.STLDisplayStandardCode = ""
		}
		if clean {
			m.Framerate, m.STLDisplayStandardCode, m.STLRevisionNumber = []int{25, 30}[r.intn(2)], "0", r.intn(100)
			m.STLCountryOfOrigin = []string{"FRA", "NOR", ""}[r.intn(3)]
			if m.STLMaximumNumberOfDisplayableCharactersInAnyTextRow != nil {
				*m.STLMaximumNumberOfDisplayableCharactersInAnyTextRow %= 100
			}
		}
		s.Metadata = m
	}
	var t int64
	if s.Metadata != nil {
		t = int64(s.Metadata.STLTimecodeStartOfProgramme)
	}
	for n := r.intn(5); n > 0; n-- {
		t += r.rangeI(0, 5000) * 1e6
		if r.chance(1, 6) {
			t += r.rangeI(0, 12) * 3600e9
		}
		if r.chance(1, 3) {
			t += r.rangeI(0, 999999)
		}
		e := t + r.rangeI(0, 9000)*1e6
		it := &astisub.Item{StartAt: time.Duration(t), EndAt: time.Duration(e)}
		t = e
		if r.chance(2, 3) {
			it.InlineStyle = &astisub.StyleAttributes{}
			if r.chance(2, 3) {
				j := astisub.Justification(r.intn(6))
				it.InlineStyle.STLJustification = &j
			}
			if r.chance(2, 3) {
				it.InlineStyle.STLPosition = &astisub.STLPosition{VerticalPosition: []int{0, 1, 12, 20, 23, 24, 99, 300, -2}[r.intn(9)], MaxRows: 23, Rows: 1}
			}
		}
		for l := 1 + r.intn(3); l > 0; l-- {
			var ln astisub.Line
			for k := 1 + r.intn(3); k > 0; k-- {
				var words []string
				for w := 1 + r.intn(3); w > 0; w-- {
					if clean {
						words = append(words, stlText(genSTLCleanWord(r, sym)))
					} else {
						words = append(words, stlText(genSTLWord(r, sym)))
					}
				}
				li := astisub.LineItem{Text: strings.TrimSpace(strings.Join(words, " "))}
				weird := r.intn(12)
				if clean {
					weird = 1
				}
				switch weird {
				case 0:
					li.Text = []string{"日本語", "emoji 😀", "$5 ¤", "́lead", "a\nb", " lead", "trail ", "", "  ", "dzǆ", "ẹ́"}[r.intn(11)]
				}
				if r.chance(1, 2) {
					li.InlineStyle = &astisub.StyleAttributes{}
					tf := func() *bool {
						switch r.intn(4) {
						case 0:
							b := true
							return &b
						case 1:
							b := false
							return &b
						}
						return nil
					}
					li.InlineStyle.STLItalics, li.InlineStyle.STLUnderline, li.InlineStyle.STLBoxing = tf(), tf(), tf()
				}
				ln.Items = append(ln.Items, li)
			}
			it.Lines = append(it.Lines, ln)
		}
		if r.chance(1, 6) && len(it.Lines) > 0 {
			// fill the text field: the encoded text ends just below, exactly at, or just beyond the
			// 112 bytes of a TTI block (rows joined by one byte, style codes and accents add a few)
			n := 0
			for _, ln := range it.Lines {
				n++
				for _, li := range ln.Items {
					n += len([]rune(li.Text))
				}
			}
			ln := &it.Lines[len(it.Lines)-1]
			li := &ln.Items[len(ln.Items)-1]
			var sb strings.Builder
			sb.WriteString(li.Text)
			for target := int(r.rangeI(100, 118)); n < target; n++ {
				if n%7 == 3 && n+1 < target {
					sb.WriteByte(' ')
				} else {
					sb.WriteByte(byte('a' + r.intn(26)))
				}
			}
			li.Text = sb.String()
		}
		s.Items = append(s.Items, it)
	}
	return s
}

var _ = binary.BigEndian
