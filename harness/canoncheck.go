package main

import (
	"fmt"
	"reflect"
	"sort"
	"strings"
	"time"

	astisub "github.com/asticode/go-astisub"
)

// canoncheck: does the canonical print of a cue list (the only thing the protocol carries of it) change when any
// single leaf of the library's data types changes?  A value is built with every pointer, slice and map populated,
// then each leaf reachable from *Subtitles is perturbed on its own.  The leaves the print does not show are listed;
// the expected list is pinned in canonBlind below, so that a new field of the library that the protocol would not
// carry is noticed (exit status 1) instead of silently escaping every stream.

// what the canonical print deliberately does not show: the content of an object a cue, run, region or style
// *refers to* (Item.Style, Item.Region, LineItem.Style, Region.Style, Style.Style) — the print carries the
// identifier of the referenced object, and the object itself is printed where it is owned (the Regions and Styles
// maps). Everything else must be shown.
func behindReference(path string) bool {
	for _, hop := range []string{".Style.", ".Region."} {
		if i := strings.Index(path, hop); i >= 0 && path[i+len(hop):] != "ID" {
			return true
		}
	}
	return false
}

func fillValue(v reflect.Value, depth int) {
	switch v.Kind() {
	case reflect.Ptr:
		if depth > 12 {
			return
		}
		if v.Type() == reflect.TypeOf((*astisub.Style)(nil)) && depth > 8 {
			return // parent links: one level
		}
		n := reflect.New(v.Type().Elem())
		fillValue(n.Elem(), depth+1)
		v.Set(n)
	case reflect.Struct:
		if v.Type() == reflect.TypeOf(time.Time{}) {
			v.Set(reflect.ValueOf(time.Date(2021, 3, 4, 0, 0, 0, 0, time.UTC)))
			return
		}
		for i := 0; i < v.NumField(); i++ {
			if v.Field(i).CanSet() {
				fillValue(v.Field(i), depth+1)
			}
		}
	case reflect.Slice:
		s := reflect.MakeSlice(v.Type(), 1, 1)
		fillValue(s.Index(0), depth+1)
		v.Set(s)
	case reflect.Map:
		m := reflect.MakeMap(v.Type())
		e := reflect.New(v.Type().Elem()).Elem()
		fillValue(e, depth+1)
		k := reflect.New(v.Type().Key()).Elem()
		k.SetString("k")
		if e.Kind() == reflect.Ptr && !e.IsNil() {
			if f := e.Elem().FieldByName("ID"); f.IsValid() {
				f.SetString("k")
			}
		}
		m.SetMapIndex(k, e)
		v.Set(m)
	case reflect.Bool:
		v.SetBool(true)
	case reflect.Int, reflect.Int64, reflect.Int32, reflect.Int16, reflect.Int8:
		v.SetInt(7)
	case reflect.Uint8, reflect.Uint16, reflect.Uint32, reflect.Uint64, reflect.Uint:
		v.SetUint(7)
	case reflect.Float64, reflect.Float32:
		v.SetFloat(1.5)
	case reflect.String:
		v.SetString("s")
	}
}

func perturb(v reflect.Value) bool {
	switch v.Kind() {
	case reflect.Bool:
		v.SetBool(!v.Bool())
	case reflect.Int, reflect.Int64, reflect.Int32, reflect.Int16, reflect.Int8:
		v.SetInt(v.Int() + 1000000)
	case reflect.Uint8, reflect.Uint16, reflect.Uint32, reflect.Uint64, reflect.Uint:
		v.SetUint(v.Uint() + 1)
	case reflect.Float64, reflect.Float32:
		v.SetFloat(v.Float() + 1)
	case reflect.String:
		v.SetString(v.String() + "z")
	default:
		return false
	}
	return true
}

// leaves calls f with the path of every leaf reachable from v; f perturbs through the value it is given
func leaves(v reflect.Value, path string, seen map[uintptr]bool, f func(path string, leaf reflect.Value)) {
	switch v.Kind() {
	case reflect.Ptr:
		if v.IsNil() || seen[v.Pointer()] {
			return
		}
		seen[v.Pointer()] = true
		leaves(v.Elem(), path, seen, f)
	case reflect.Struct:
		if v.Type() == reflect.TypeOf(time.Time{}) {
			f(path, v)
			return
		}
		for i := 0; i < v.NumField(); i++ {
			if v.Field(i).CanSet() {
				leaves(v.Field(i), path+"."+v.Type().Field(i).Name, seen, f)
			}
		}
	case reflect.Slice:
		for i := 0; i < v.Len(); i++ {
			leaves(v.Index(i), path+"[]", seen, f)
		}
	case reflect.Map:
		for _, k := range v.MapKeys() {
			leaves(v.MapIndex(k), path+"{}", seen, f)
		}
	default:
		f(path, v)
	}
}

func canonCheck() int {
	build := func() *astisub.Subtitles {
		s := &astisub.Subtitles{}
		fillValue(reflect.ValueOf(s).Elem(), 0)
		return s
	}
	base := canonSubs(build())
	var paths []string
	leaves(reflect.ValueOf(build()), "S", map[uintptr]bool{}, func(p string, _ reflect.Value) { paths = append(paths, p) })
	blind := map[string]bool{}
	for i, p := range paths {
		s := build()
		k := 0
		leaves(reflect.ValueOf(s), "S", map[uintptr]bool{}, func(q string, leaf reflect.Value) {
			if k == i {
				if leaf.Type() == reflect.TypeOf(time.Time{}) {
					leaf.Set(reflect.ValueOf(leaf.Interface().(time.Time).AddDate(0, 0, 1)))
				} else if !perturb(leaf) {
					blind[p+" (kind "+leaf.Kind().String()+" not perturbed)"] = true
				}
			}
			k++
		})
		if canonSubs(s) == base {
			blind[p] = true
		}
	}
	var bl []string
	for p := range blind {
		bl = append(bl, p)
	}
	sort.Strings(bl)
	rc, behind := 0, 0
	for _, p := range bl {
		if behindReference(p) {
			behind++
		} else {
			fmt.Println("UNOBSERVED", p)
			rc = 1
		}
	}
	if behind == 0 {
		fmt.Println("STALE-EXPECTATION nothing behind a reference was perturbed")
		rc = 1
	}
	fmt.Printf("canoncheck: %d leaves, %d not shown by the canonical print (all %d behind a reference: identifier shown instead)\n", len(paths), len(bl), behind)
	return rc
}
