package main

import (
	"bytes"
	"fmt"
	"io"
	"io/ioutil"
	"path/filepath"
	"strings"

	astisub "github.com/asticode/go-astisub"
)

// ground truth of a SubRip document
type srtRun struct {
	text    string
	b, i, u bool
	color   string
}
type srtCue struct {
	start, end int64 // ms
	lines      [][]srtRun
}

var srtWords = []string{"hello", "world", "Été", "日本語", "a & b", "1 < 2", "x > y", "no break", "42", "7", "- dash", "emoji 😀", "tab\there", "q\"uote", "it's", "&amp;", "&lt;b&gt;", "{\\an8}top", "é", "<3", "a <b", "100%"}

func genSRTCues(r *rng, maxCues int) []srtCue {
	n := r.intn(maxCues + 1)
	var cues []srtCue
	var t int64
	for i := 0; i < n; i++ {
		if !(i == 0 && r.chance(1, 6)) { // a first cue at the very start of the programme, often
			t += r.rangeI(0, 5000)
		}
		if r.chance(1, 20) {
			t += r.rangeI(0, 99) * 3600000
		}
		if t >= 100*3600000-20000 {
			t = 100*3600000 - 20000
		}
		e := t + r.rangeI(0, 9000)
		if r.chance(1, 12) {
			e = t
		}
		c := srtCue{start: t, end: e}
		for l := 1 + r.intn(3); l > 0; l-- {
			var line []srtRun
			for k := 1 + r.intn(3); k > 0; k-- {
				run := srtRun{text: srtWords[r.intn(len(srtWords))]}
				if r.chance(1, 3) {
					run.b = r.bool()
					run.i = r.bool()
					run.u = r.chance(1, 4)
					if r.chance(1, 3) {
						run.color = []string{"#ff0000", "red", "#00FF00", "#123abc"}[r.intn(4)]
					}
				}
				line = append(line, run)
			}
			c.lines = append(c.lines, line)
		}
		cues = append(cues, c)
		t = e
	}
	return cues
}

func fmtSRTTime(r *rng, ms int64, canon bool) string {
	h, m, s, f := ms/3600000, ms/60000%60, ms/1000%60, ms%1000
	sep := ","
	frac := fmt.Sprintf("%03d", f)
	if !canon {
		if r.chance(1, 3) {
			sep = "."
		}
		if f%10 == 0 && r.chance(1, 3) {
			frac = fmt.Sprintf("%02d", f/10)
			if f%100 == 0 && r.bool() {
				frac = fmt.Sprintf("%d", f/100)
			}
		}
	}
	return fmt.Sprintf("%02d:%02d:%02d%s%s", h, m, s, sep, frac)
}

func escSRT(s string) string {
	return strings.NewReplacer("&", "&amp;", "<", "&lt;", "\u00a0", "&nbsp;").Replace(s)
}

// renderSRT renders the ground truth with the syntactic freedom C01 lists
func renderSRT(r *rng, cues []srtCue, canon bool) []byte {
	eol := "\n"
	var b strings.Builder
	if !canon {
		eol = []string{"\n", "\r\n", "\r"}[r.intn(3)]
		if r.bool() {
			b.WriteString("\ufeff")
		}
	}
	for k, c := range cues {
		idx := fmt.Sprint(k + 1)
		if !canon {
			switch r.intn(5) {
			case 0:
				idx = "" // absent
			case 1:
				idx = []string{"abc", "x1", "12a", "#", "99999999999999999999x", "18446744073709551615x", "-18446744073709551616."}[r.intn(7)] // garbage
			case 2:
				idx = fmt.Sprint(r.intn(1000))
			}
		}
		if idx != "" {
			b.WriteString(idx + eol)
		}
		arrow := " --> "
		tail := ""
		if !canon {
			arrow = []string{" --> ", "-->", "  -->  ", " -->", "\t-->\t"}[r.intn(5)]
			if r.chance(1, 4) {
				tail = "  X1:100 X2:200 Y1:10 Y2:20"
			}
		}
		b.WriteString(fmtSRTTime(r, c.start, canon) + arrow + fmtSRTTime(r, c.end, canon) + tail + eol)
		// tag layout: 0 = closed per run, 1 = left open until the style changes (also across lines)
		layout := 0
		if !canon && r.chance(1, 3) {
			layout = 1
		}
		var open srtRun
		for _, line := range c.lines {
			for _, run := range line {
				if layout == 0 {
					if run.color != "" {
						b.WriteString("<font color=\"" + run.color + "\">")
					}
					if run.b {
						b.WriteString("<b>")
					}
					if run.i {
						b.WriteString("<i>")
					}
					if run.u {
						b.WriteString("<u>")
					}
					b.WriteString(escSRT(run.text))
					if run.u {
						b.WriteString("</u>")
					}
					if run.i {
						b.WriteString("</i>")
					}
					if run.b {
						b.WriteString("</b>")
					}
					if run.color != "" {
						b.WriteString("</font>")
					}
				} else {
					// emit only the differences with what is open
					if open.b && !run.b {
						b.WriteString("</b>")
					}
					if open.i && !run.i {
						b.WriteString("</i>")
					}
					if open.u && !run.u {
						b.WriteString("</u>")
					}
					if open.color != "" && open.color != run.color {
						b.WriteString("</font>")
						open.color = ""
					}
					if run.color != "" && open.color != run.color {
						b.WriteString("<font color=\"" + run.color + "\">")
					}
					if !open.b && run.b {
						b.WriteString("<B>")
					}
					if !open.i && run.i {
						b.WriteString("<i>")
					}
					if !open.u && run.u {
						b.WriteString("<u>")
					}
					b.WriteString(escSRT(run.text))
					open = srtRun{b: run.b, i: run.i, u: run.u, color: run.color}
				}
			}
			b.WriteString(eol)
		}
		blanks := 1
		if !canon {
			blanks = 1 + r.intn(3)
			if k == len(cues)-1 {
				blanks = r.intn(4)
			}
		}
		for j := 0; j < blanks; j++ {
			b.WriteString(eol)
		}
	}
	return []byte(b.String())
}

func mutateDoc(r *rng, d []byte) []byte {
	md := append([]byte(nil), d...)
	for k := r.intn(3) + 1; k > 0 && len(md) > 0; k-- {
		i := r.intn(len(md))
		switch r.intn(7) {
		case 0:
			al := "<>&-:,. \n\r0123456789abx/\"="
			md[i] = al[r.intn(len(al))]
		case 1:
			md = append(md[:i], md[i+1:]...)
		case 2:
			md = md[:i]
		case 3:
			md = append(md[:i], append([]byte("\n"), md[i:]...)...)
		case 4:
			j := r.intn(len(md))
			if i > j {
				i, j = j, i
			}
			md = append(md[:i], md[j:]...)
		case 5:
			ins := []string{"-->", "<b>", "</i>", "<font color=", "\n\n", " ", "00:00:01,000", "<", "&", "</", "\xff"}[r.intn(11)]
			md = append(md[:i], append([]byte(ins), md[i:]...)...)
		default:
			j := r.intn(len(md))
			md = append(md, md[j:]...)
		}
	}
	return md
}

// deliveryFor picks, from the document itself, how its bytes are delivered to the reader: all at once,
// one byte at a time, in 3-byte reads or in halves. The result must not depend on it (C17), so every
// codec stream also exercises line terminators and fixed-size blocks cut between two reads.
func deliveryFor(doc []byte) io.Reader {
	h := uint32(2166136261)
	for _, b := range doc {
		h = (h ^ uint32(b)) * 16777619
	}
	switch h % 4 {
	case 1:
		sizes := make([]int, len(doc))
		for i := range sizes {
			sizes[i] = 1
		}
		return &schedReader{data: append([]byte(nil), doc...), sizes: sizes, end: "eof", limit: -1}
	case 2:
		sizes := make([]int, len(doc)/3+1)
		for i := range sizes {
			sizes[i] = 3
		}
		return &schedReader{data: append([]byte(nil), doc...), sizes: sizes, end: "weof", limit: -1}
	case 3:
		var sizes []int
		for rem := len(doc); rem > 0; {
			n := (rem + 1) / 2
			sizes = append(sizes, n)
			rem -= n
		}
		return &schedReader{data: append([]byte(nil), doc...), sizes: sizes, end: "eof", limit: -1}
	}
	return bytes.NewReader(doc)
}

func readOut(format string, doc []byte) string {
	s, err := readWith(format, deliveryFor(doc))
	if err != nil {
		return errClass(err)
	}
	return "ok " + canonSubs(s)
}

func testdataDocs(ext string) [][]byte {
	var o [][]byte
	files, _ := filepath.Glob("/repo/testdata/*." + ext)
	for _, f := range files {
		if b, err := ioutil.ReadFile(f); err == nil {
			o = append(o, b)
		}
	}
	return o
}

func init() {
	streams["srt.read"] = stream{exec: func(a []string) string { return readOut("srt", decBytes(a[0])) }, gen: func(c *ctx) {
		r := newRng(c.seed, "srt.read")
		for _, d := range testdataDocs("srt") {
			c.do("srt.read " + encBytes(d))
			c.count("testdata")
		}
		n := 3000
		if c.thorough {
			n = 300000
		}
		for i := 0; i < n; i++ {
			cues := genSRTCues(r, 5)
			for v := 0; v < 4; v++ {
				c.do("srt.read " + encBytes(renderSRT(r, cues, v == 0)))
				c.count("rendered")
			}
			if i%3 == 0 {
				c.do("srt.read " + encBytes(mutateDoc(r, renderSRT(r, cues, false))))
				c.count("mutated")
			}
		}
	}}

	// srt.write: canonical subs -> bytes written, then what the library's own reader makes of them
	streams["srt.write"] = stream{exec: func(a []string) string {
		s, _ := parseCanon(a)
		var buf bytes.Buffer
		if err := writeWith("srt", s, &buf); err != nil {
			return errClass(err)
		}
		return "ok " + encBytes(buf.Bytes()) + " " + readOut("srt", buf.Bytes())
	}, gen: func(c *ctx) {
		r := newRng(c.seed, "srt.write")
		n := 3000
		if c.thorough {
			n = 300000
		}
		for i := 0; i < n; i++ {
			s := srtSubsOf(genSRTCues(r, 5), r)
			c.do("srt.write " + canonSubs(s))
			c.count("generated")
		}
		// documents well beyond the buffer sizes a writer may use (32 KiB, 64 KiB)
		for k := 0; k < 2; k++ {
			cues := genSRTCues(r, 5)
			for len(cues) < 700+300*k {
				cues = append(cues, genSRTCues(r, 5)...)
			}
			big := srtSubsOf(cues, r)
			for _, it := range big.Items { // keep the large list inside what the format carries, so that it is judged
				for li := range it.Lines {
					for k := range it.Lines[li].Items {
						if sa := it.Lines[li].Items[k].InlineStyle; sa != nil {
							sa.SRTPosition = 0
						}
					}
				}
			}
			c.do("srt.write " + canonSubs(big))
			c.count("large")
		}
	}}
}

// srtSubsOf builds the cue list the SRT reader would return for a ground truth, with a few things the
// format cannot carry sprinkled in (index, other formats' attributes, SRTPosition)
func srtSubsOf(cues []srtCue, r *rng) *astisub.Subtitles {
	s := astisub.NewSubtitles()
	for k, c := range cues {
		it := &astisub.Item{StartAt: timeDur(c.start * 1000000), EndAt: timeDur(c.end * 1000000), Index: k + 1}
		if r.chance(1, 4) { // sub-millisecond boundaries are truncated by the writer
			it.StartAt += timeDur(r.rangeI(0, 999999))
			it.EndAt += timeDur(r.rangeI(0, 999999))
		}
		for _, line := range c.lines {
			var ln astisub.Line
			for _, run := range line {
				li := astisub.LineItem{Text: run.text}
				if run.b || run.i || run.u || run.color != "" {
					li.InlineStyle = &astisub.StyleAttributes{SRTBold: run.b, SRTItalics: run.i, SRTUnderline: run.u}
					if run.color != "" {
						col := run.color
						li.InlineStyle.SRTColor = &col
					}
					if r.chance(1, 10) {
						li.InlineStyle.SRTPosition = byte(1 + r.intn(9))
					}
				} else if r.chance(1, 8) {
					li.InlineStyle = &astisub.StyleAttributes{}
				}
				ln.Items = append(ln.Items, li)
			}
			if len(ln.Items) >= 2 && r.chance(1, 10) {
				// a run that is nothing but a no-break space, between two other runs (written &nbsp;, which is text)
				nb := astisub.LineItem{Text: "\u00a0", InlineStyle: &astisub.StyleAttributes{SRTItalics: true}}
				ln.Items = append(ln.Items[:1], append([]astisub.LineItem{nb}, ln.Items[1:]...)...)
			}
			it.Lines = append(it.Lines, ln)
		}
		s.Items = append(s.Items, it)
	}
	return s
}
