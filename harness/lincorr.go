package main

import (
	"fmt"
	"math"
	"time"
)

func init() {
	// lib.f53: the float expressions of ApplyLinearCorrection, bit for bit
	streams["lib.f53"] = stream{exec: func(a []string) string {
		p, q, t, d1, a1 := atoi64(a[0]), atoi64(a[1]), atoi64(a[2]), atoi64(a[3]), atoi64(a[4])
		sl := float64(p) / float64(q)
		m := sl * float64(t)
		s := float64(d1) - sl*float64(a1)
		bits := func(x float64) uint64 {
			if x == 0 { // the model has one zero
				return 0
			}
			return math.Float64bits(x)
		}
		tr := func(x float64) string { // float -> int64 beyond the int64 range is implementation-defined
			if math.Abs(x) >= 4611686018427387904 {
				return "big"
			}
			return fmt.Sprint(int64(x))
		}
		return fmt.Sprintf("%d %d %s %d %s", bits(sl), bits(m), tr(m), bits(s), tr(s))
	}, gen: func(c *ctx) {
		r := newRng(c.seed, "lib.f53")
		n := 30000
		if c.thorough {
			n = 2000000
		}
		day := int64(24 * time.Hour)
		for i := 0; i < n; i++ {
			var p, q int64
			switch r.intn(5) {
			case 0: // NTSC/PAL ratios
				pq := [][2]int64{{25000, 23976}, {23976, 25000}, {30000, 29970}, {3, 2}, {1, 2}, {2, 1}, {1, 1}, {1001, 1000}}[r.intn(8)]
				k := r.rangeI(1, 1000000000)
				p, q = pq[0]*k, pq[1]*k
			case 1:
				q = r.rangeI(1, day)
				p = q/2 + r.rangeI(0, q+q/2)
			case 2:
				p, q = r.rangeI(-day, day), r.rangeI(1, day)
				if r.bool() {
					q = -q
				}
			case 3:
				p, q = r.rangeI(1, 1<<53), r.rangeI(1, 1<<53)
			default:
				p, q = r.rangeI(1, 1000), r.rangeI(1, 1000)
			}
			if p == 0 {
				p = 1
			}
			t := r.rangeI(0, day)
			switch r.intn(4) {
			case 0:
				t = t / 1000000 * 1000000
			case 1:
				t = []int64{0, 1, day, day - 1}[r.intn(4)]
			}
			c.do(fmt.Sprintf("lib.f53 %d %d %d %d %d", p, q, t, r.rangeI(0, day), r.rangeI(0, day)))
			c.count("random")
		}
	}}

	streams["ops.lincorr"] = stream{exec: func(a []string) string {
		xs, _ := decMItems(a[4:])
		s, ids := buildSubs(xs, 0)
		s.ApplyLinearCorrection(time.Duration(atoi64(a[0])), time.Duration(atoi64(a[1])), time.Duration(atoi64(a[2])), time.Duration(atoi64(a[3])))
		return encMItems(observe(s.Items, ids))
	}, gen: func(c *ctx) {
		r := newRng(c.seed, "ops.lincorr")
		n := 10000
		if c.thorough {
			n = 500000
		}
		day := int64(24 * time.Hour)
		ms := int64(time.Millisecond)
		for i := 0; i < n; i++ {
			// reference points with a slope in [0.5, 2]
			a1 := r.rangeI(0, day/2/ms) * ms
			a2 := a1 + r.rangeI(1, day/2/ms)*ms
			var num, den int64
			switch r.intn(5) {
			case 0:
				num, den = 25000, 23976
			case 1:
				num, den = 23976, 25000
			case 2:
				num, den = 30000, 29970
			case 3:
				num, den = 3, 2
			default:
				den = 1000000
				num = r.rangeI(500000, 2000000)
			}
			d1 := r.rangeI(0, day/4/ms) * ms
			d2 := d1 + (a2-a1)/den*num + (a2-a1)%den*num/den
			if r.chance(1, 4) { // nanosecond-granular reference points
				a1 += r.rangeI(0, 999999)
				d2 += r.rangeI(0, 999999)
			}
			if r.chance(1, 8) { // negative slope / swapped points are legal inputs too (a1 != a2)
				a1, a2 = a2, a1
				d1, d2 = d2, d1
			}
			if a1 == a2 {
				a2++
			}
			xs := randList(r, 6, true)
			for j := range xs {
				if xs[j].end > day {
					xs[j].end = day
				}
				if r.chance(1, 10) {
					xs[j].start, xs[j].end = 0, day
				}
				if r.chance(1, 10) {
					xs[j].start = a1
				}
				if r.chance(1, 10) && a1 > 1000000 { // a boundary within a millisecond of a reference point, not on it
					xs[j].start = a1 + r.rangeI(-999999, 999999)
					if xs[j].end < xs[j].start {
						xs[j].end = xs[j].start
					}
				}
				if r.chance(1, 10) {
					xs[j].end = a2
				}
			}
			if r.chance(1, 6) && a1 != a2 {
				// slope exactly 1 with a negative offset: cues that start before the offset must survive
				d2 = d1 + (a2 - a1)
				if d1 > a1 {
					a1, d1 = d1, a1
					a2, d2 = d2, a2
				}
				if len(xs) > 0 {
					xs[0].start, xs[0].end = 0, (a1-d1)/2+1
				}
				c.count("unit-slope")
			}
			if r.chance(1, 5) && len(xs) >= 2 && a1 != a2 {
				// a boundary that coincides with the *corrected* value of another boundary
				sl := float64(d2-d1) / float64(a2-a1)
				off := int64(float64(d1) - sl*float64(a1))
				k := r.intn(len(xs) - 1)
				v := int64(sl*float64(xs[k].end)) + off
				if v >= 0 && v < day {
					xs[k+1].start = v
					if xs[k+1].end < v {
						xs[k+1].end = v + 1000000
					}
					c.count("coinciding-boundaries")
				}
			}
			c.do(fmt.Sprintf("ops.lincorr %d %d %d %d %s", a1, d1, a2, d2, encMItems(xs)))
			c.count("random")
		}
	}}
}
