package main

import (
	"fmt"
	"math"
	"reflect"
	"sort"
	"strconv"
	"strings"
	"time"

	astisub "github.com/asticode/go-astisub"
)

// Canonical print of a *astisub.Subtitles (see lean/Astisub/Proto.lean, "canonical Subtitles"):
//   S <nitems> Item* <nregions> Def* <nstyles> Def* Attrs(metadata)
//   Item := I <index> <start> <end> <styleId|-> <regionId|-> Attrs <ncomments> x.. <nlines> Line*
//   Line := L x<voice> <nitems> LI*
//   LI   := T x<text> <startAt> <styleId|-> Attrs
//   Def  := D x<id> <x<ref>|-> Attrs           (ref = style of a region / parent of a style)
//   Attrs := N (nil pointer) | A<n> key=x<value>*   (only attributes that are set, sorted by key)
// Identifiers and values are hex(UTF-8) with an x prefix. Maps are printed sorted by key.

func refID(s *astisub.Style) string {
	if s == nil {
		return "-"
	}
	return encStr(s.ID)
}

// attrValue renders one struct field; ok=false means "unset"
func attrValue(v reflect.Value) (string, bool) {
	switch v.Kind() {
	case reflect.Ptr:
		if v.IsNil() {
			return "", false
		}
		switch x := v.Interface().(type) {
		case *astisub.Color:
			return x.SSAString(), true
		case *astisub.STLPosition:
			return fmt.Sprintf("%d,%d,%d", x.VerticalPosition, x.MaxRows, x.Rows), true
		case *time.Time:
			return x.Format("060102"), true
		case *astisub.WebVTTTimestampMap:
			return fmt.Sprintf("%d,%d", int64(x.Local), x.MpegTS), true
		}
		e := v.Elem()
		switch e.Kind() {
		case reflect.Bool:
			return strconv.FormatBool(e.Bool()), true
		case reflect.Int, reflect.Int64:
			return strconv.FormatInt(e.Int(), 10), true
		case reflect.Float64:
			return "f" + strconv.FormatUint(math.Float64bits(e.Float()), 10), true
		case reflect.String:
			return e.String(), true
		}
		return fmt.Sprint(e.Interface()), true
	case reflect.Bool:
		if !v.Bool() {
			return "", false
		}
		return "true", true
	case reflect.String:
		if v.String() == "" {
			return "", false
		}
		return v.String(), true
	case reflect.Int, reflect.Int64, reflect.Uint8:
		var n int64
		if v.Kind() == reflect.Uint8 {
			n = int64(v.Uint())
		} else {
			n = v.Int()
		}
		if n == 0 {
			return "", false
		}
		return strconv.FormatInt(n, 10), true
	case reflect.Slice:
		if v.Len() == 0 {
			return "", false
		}
		switch x := v.Interface().(type) {
		case []string:
			return strings.Join(x, "\n"), true
		case []astisub.WebVTTTag:
			var o []string
			for _, t := range x {
				s := t.Name
				if len(t.Classes) > 0 {
					s += "." + strings.Join(t.Classes, ".")
				}
				if t.Annotation != "" {
					s += " " + t.Annotation
				}
				o = append(o, s)
			}
			return strings.Join(o, "|"), true
		}
		return fmt.Sprint(v.Interface()), true
	}
	return fmt.Sprint(v.Interface()), true
}

func canonStruct(v reflect.Value) string {
	t := v.Type()
	var kv []string
	for i := 0; i < t.NumField(); i++ {
		if s, ok := attrValue(v.Field(i)); ok {
			kv = append(kv, t.Field(i).Name+"="+encStr(s))
		}
	}
	sort.Strings(kv)
	return strings.Join(append([]string{"A" + strconv.Itoa(len(kv))}, kv...), " ")
}

func canonAttrs(sa *astisub.StyleAttributes) string {
	if sa == nil {
		return "N"
	}
	return canonStruct(reflect.ValueOf(*sa))
}

func canonMeta(m *astisub.Metadata) string {
	if m == nil {
		return "N"
	}
	return canonStruct(reflect.ValueOf(*m))
}

func canonSubs(s *astisub.Subtitles) string {
	var o []string
	o = append(o, "S", strconv.Itoa(len(s.Items)))
	for _, it := range s.Items {
		reg := "-"
		if it.Region != nil {
			reg = encStr(it.Region.ID)
		}
		o = append(o, "I", strconv.Itoa(it.Index), strconv.FormatInt(int64(it.StartAt), 10), strconv.FormatInt(int64(it.EndAt), 10),
			refID(it.Style), reg, canonAttrs(it.InlineStyle), strconv.Itoa(len(it.Comments)))
		for _, c := range it.Comments {
			o = append(o, encStr(c))
		}
		o = append(o, strconv.Itoa(len(it.Lines)))
		for _, l := range it.Lines {
			o = append(o, "L", encStr(l.VoiceName), strconv.Itoa(len(l.Items)))
			for _, li := range l.Items {
				o = append(o, "T", encStr(li.Text), strconv.FormatInt(int64(li.StartAt), 10), refID(li.Style), canonAttrs(li.InlineStyle))
			}
		}
	}
	var rk []string
	for k, v := range s.Regions {
		if v != nil { // a nil definition is not a definition
			rk = append(rk, k)
		}
	}
	sort.Strings(rk)
	o = append(o, strconv.Itoa(len(rk)))
	for _, k := range rk {
		r := s.Regions[k]
		o = append(o, "D", encStr(r.ID), refID(r.Style), canonAttrs(r.InlineStyle))
	}
	var sk []string
	for k, v := range s.Styles {
		if v != nil {
			sk = append(sk, k)
		}
	}
	sort.Strings(sk)
	o = append(o, strconv.Itoa(len(sk)))
	for _, k := range sk {
		st := s.Styles[k]
		o = append(o, "D", encStr(st.ID), refID(st.Style), canonAttrs(st.InlineStyle))
	}
	o = append(o, canonMeta(s.Metadata))
	return strings.Join(o, " ")
}
