package main

import (
	"bytes"
	"fmt"
	"runtime/debug"
	"sort"
	"strings"
	"sync/atomic"
	"time"
	"unicode/utf8"

	astisub "github.com/asticode/go-astisub"
)

// C08: totality. Every reader on arbitrary / damaged input, every writer on any value of the public
// types: the answer must be a value or an error - never a panic, never a hang.

// classify runs f under recover and a watchdog
func classify(limit time.Duration, f func() error) string {
	done := make(chan string, 1)
	go func() {
		defer func() {
			if rec := recover(); rec != nil {
				if panicInDemuxer(string(debug.Stack())) {
					done <- "demuxer-crashed"
					return
				}
				done <- fmt.Sprintf("panic:%v", rec)
			}
		}()
		if err := f(); err != nil {
			done <- "err"
			return
		}
		done <- "ok"
	}()
	select {
	case r := <-done:
		if strings.HasPrefix(r, "panic:") {
			return "panic"
		}
		return r
	case <-time.After(limit):
		atomic.AddInt32(&stuck, 1)
		return "timeout"
	}
}

// panicInDemuxer: did the panic originate inside the third-party transport-stream demultiplexer
// (go-astits, possibly through go-astikit helpers it calls)? C08 only covers streams the demultiplexer
// gets through without itself crashing.
func panicInDemuxer(stack string) bool {
	lines := strings.Split(stack, "\n")
	after := false
	for _, l := range lines {
		if strings.HasPrefix(l, "panic(") {
			after = true
			continue
		}
		if !after || strings.HasPrefix(l, "\t") || strings.HasPrefix(l, "runtime.") {
			continue
		}
		if strings.Contains(l, "github.com/asticode/go-astikit") {
			continue
		}
		return strings.Contains(l, "github.com/asticode/go-astits")
	}
	return false
}

// lastTSPage: the subtitle page of the transport stream validDoc built last (the generator reads it right after)
var lastTSPage int

func totRead(format string, doc []byte, opt int) string {
	return classify(10*time.Second, func() error {
		var err error
		switch format {
		case "srt":
			_, err = astisub.ReadFromSRT(bytes.NewReader(doc))
		case "vtt":
			_, err = astisub.ReadFromWebVTT(bytes.NewReader(doc))
		case "ssa":
			if opt%4 == 3 {
				// the options are a public struct of optional callbacks: none set
				_, err = astisub.ReadFromSSAWithOptions(bytes.NewReader(doc), astisub.SSAOptions{})
			} else {
				_, err = astisub.ReadFromSSA(bytes.NewReader(doc))
			}
		case "stl":
			_, err = astisub.ReadFromSTL(bytes.NewReader(doc), astisub.STLOptions{IgnoreTimecodeStartOfProgramme: opt%2 == 1})
		case "ttml":
			_, err = astisub.ReadFromTTML(bytes.NewReader(doc))
		case "ts":
			_, err = astisub.ReadFromTeletext(bytes.NewReader(doc), astisub.TeletextOptions{Page: opt % 900, PID: (opt / 900) % 3 * 0x100})
		default:
			panic("format")
		}
		return err
	})
}

var totFormats = []string{"srt", "vtt", "ssa", "stl", "ttml", "ts"}

// validDoc: a document of the format from the C01..C06 generators
func validDoc(r *rng, f string) []byte {
	switch f {
	case "srt":
		return renderSRT(r, genSRTCues(r, 4), false)
	case "vtt":
		return renderVTT(r, genVTTDoc(r, 4, r.bool()), false, vttOpts{})
	case "ssa":
		return renderSSA(r, genSSADoc(r), false)
	case "stl":
		var d []byte
		if genSTLDoc != nil {
			d = genSTLDoc(r)
		} else {
			d, _ = genSourceDoc(r, "stl")
		}
		if len(d) >= 11 && r.chance(1, 5) {
			// a disk format code of the right shape with another number (frame rate 0, signed, hexadecimal …): the reader
			// refuses it or reads on, it never divides by what it parsed
			d = append([]byte(nil), d...)
			copy(d[3:11], []string{"STL00.01", "STL+0.01", "STL-1.01", "STL24.01", "STL50.01", "STL 0.01", "STL0x.01", "STL99.01", "STL00.00", "stl25.01"}[r.intn(10)])
		}
		return d
	case "ttml":
		return genTTMLDoc(r)
	case "ts":
		tc := genTTCase(r, r.intn(3))
		if r.chance(1, 3) {
			addTails(r, &tc)
		}
		lastTSPage = tc.sched.mag*100 + tc.sched.page
		return buildTS(r, tc, ttTSOpts{pid: uint16(0x100 + r.intn(0xe00)), video: r.bool(), period: 5, secondTT: r.chance(1, 4), vbi: r.chance(1, 4),
			emptyDesc: r.chance(1, 6)})
	}
	panic("format")
}

// shrinkField: one field of one line (between two of the separators the text formats use) is cut down to its first
// 0..2 bytes or to its last byte: "&H00FFFFFF" becomes "", "&", "&H" or "F" — what code that indexes into a value it
// expects to be longer trips over
func shrinkField(r *rng, d []byte) []byte {
	if len(d) == 0 {
		return d
	}
	const seps = ",:;= \t<>\"&{}\\\r\n"
	i := r.intn(len(d))
	a, b := i, i
	for a > 0 && !strings.ContainsRune(seps, rune(d[a-1])) {
		a--
	}
	for b < len(d) && !strings.ContainsRune(seps, rune(d[b])) {
		b++
	}
	if b-a < 2 {
		// a separator-only spot: widen to the neighbouring field including one separator
		for b < len(d) && b-a < 12 && d[b] != '\n' {
			b++
		}
	}
	field := d[a:b]
	if len(field) == 0 {
		return d
	}
	var keep []byte
	switch r.intn(4) {
	case 0:
	case 1:
		keep = field[:1]
	case 2:
		keep = field[:minI(2, len(field))]
	default:
		keep = field[len(field)-1:]
	}
	return append(append(append([]byte(nil), d[:a]...), keep...), d[b:]...)
}

func damage(r *rng, f string, d []byte) []byte {
	if f == "ts" && r.bool() { // damage that keeps the packet structure: most of what is interesting lies behind it
		d = mutateTS(r, d)
		if r.bool() {
			d = mutateTS(r, d)
		}
		return d
	}
	if f != "ts" && f != "stl" && r.chance(1, 4) {
		d = shrinkField(r, d)
		if r.bool() {
			return d
		}
	}
	switch r.intn(6) {
	case 0: // truncation
		if len(d) > 0 {
			return d[:r.intn(len(d))]
		}
	case 1: // splice of two documents (possibly of different formats)
		o := validDoc(r, totFormats[r.intn(len(totFormats))])
		if len(d) > 0 && len(o) > 0 {
			return append(append([]byte(nil), d[:r.intn(len(d))]...), o[r.intn(len(o)):]...)
		}
	case 2:
		if f == "ts" {
			return mutateTS(r, d)
		}
	case 3: // byte noise
		md := append([]byte(nil), d...)
		for k := 1 + r.intn(8); k > 0 && len(md) > 0; k-- {
			md[r.intn(len(md))] = byte(r.intn(256))
		}
		return md
	case 4: // repeat a slice many times
		if len(d) > 4 {
			i := r.intn(len(d) - 2)
			j := i + 1 + r.intn(minI(len(d)-i-1, 40))
			return append(append(append([]byte(nil), d[:j]...), bytes.Repeat(d[i:j], 1+r.intn(200))...), d[j:]...)
		}
	}
	return mutateDoc(r, d)
}

func minI(a, b int) int {
	if a < b {
		return a
	}
	return b
}

// weirdTexts: what the public Text field may hold
var weirdTexts = []string{"", " ", "plain", "́a", "́", "á̂̃", "\x00\x01\x1f", "tab\there", "line\nbreak", "cr\rlf\r\n", "😀𝒳", "\xff\xfe", "a & b < c > d", "<b>bold</b>", "{\\i1}x", "-->", "$¤Ω", strings.Repeat("long ", 60), " ", " ", "\ufeff", "\U0010ffff", "é", "é", "日本語", "&amp;", "]]>", "\x8a", "0\x0bx\x0a",
	// characters outside the Latin repertoire directly followed by (or decomposing into) a combining mark
	"Ёлка", "Йод", "😀\u0301", "日\u0301本", "\u0416\u0308", "Ω\u0301", "\u0301\u0301a"}

func weirdAttrs(r *rng) *astisub.StyleAttributes {
	if r.chance(1, 3) {
		return nil
	}
	sa := &astisub.StyleAttributes{}
	strp := func(s string) *string { return &s }
	if r.chance(1, 3) {
		sa.SRTColor = strp(weirdTexts[r.intn(len(weirdTexts))])
	}
	if r.chance(1, 4) {
		sa.SRTPosition = byte(r.intn(256))
	}
	if r.chance(1, 4) {
		sa.WebVTTTags = []astisub.WebVTTTag{{Name: []string{"", "b", "c", "v", "<"}[r.intn(5)], Annotation: append([]string{"", "", ""}, weirdTexts...)[r.intn(3+r.intn(2)*len(weirdTexts))], Classes: [][]string{{"", "x.y"}, {""}, nil, {"loud", "red"}, {"loud"}}[r.intn(5)]}}
	}
	if r.chance(1, 4) {
		sa.WebVTTStyles = []string{weirdTexts[r.intn(len(weirdTexts))]}
	}
	if r.chance(1, 4) {
		p := astisub.STLPosition{VerticalPosition: int(r.rangeI(-5, 300)), MaxRows: int(r.rangeI(-2, 100)), Rows: int(r.rangeI(-1, 5))}
		sa.STLPosition = &p
	}
	if r.chance(1, 4) {
		j := astisub.Justification(r.rangeI(-1, 7))
		sa.STLJustification = &j
	}
	if r.chance(1, 5) {
		b := r.bool()
		sa.STLBoxing, sa.STLItalics, sa.STLUnderline = &b, &b, &b
	}
	if r.chance(1, 5) {
		sa.SSAEffect = weirdTexts[r.intn(len(weirdTexts))]
		f := []float64{0, -1, 1e300, 0.1}[r.intn(4)]
		sa.SSAFontSize, sa.SSAAngle = &f, &f
		i := int(r.rangeI(-5, 5))
		sa.SSAAlignment, sa.SSAMarginLeft = &i, &i
		sa.SSAPrimaryColour = &astisub.Color{Red: 1}
	}
	if r.chance(1, 5) {
		sa.TTMLColor = strp(weirdTexts[r.intn(len(weirdTexts))])
		sa.TTMLExtent = strp([]string{"", "x", "1 2 3", "% %"}[r.intn(4)])
		sa.TTMLOrigin = strp([]string{"", " ", "10% 20%"}[r.intn(3)])
		z := int(r.rangeI(-3, 3))
		sa.TTMLZIndex = &z
	}
	if r.chance(1, 6) {
		sa.TeletextColor = astisub.ColorCyan
		n := int(r.rangeI(-3, 50))
		sa.TeletextSpacesAfter, sa.TeletextSpacesBefore = &n, &n
	}
	return sa
}

// weirdSubs: any value of the public cue-list types, every optional part possibly absent
func weirdSubs(r *rng) astisub.Subtitles {
	var s astisub.Subtitles
	if r.chance(2, 3) {
		s.Styles = map[string]*astisub.Style{}
		s.Regions = map[string]*astisub.Region{}
	}
	var styles []*astisub.Style
	var regions []*astisub.Region
	for i := r.intn(4); i > 0; i-- {
		st := &astisub.Style{ID: []string{"", "a", "b", "*Default", "x y", "é"}[r.intn(6)], InlineStyle: weirdAttrs(r)}
		if len(styles) > 0 && r.bool() {
			st.Style = styles[r.intn(len(styles))]
		}
		if r.chance(1, 10) {
			st.Style = st // self reference
		}
		styles = append(styles, st)
		if len(styles) >= 2 && r.chance(1, 8) { // a cycle through two or more styles (the TTML reader accepts such documents)
			styles[0].Style = st
			if st.Style == nil || st.Style == st {
				st.Style = styles[0]
			}
		}
		if s.Styles != nil && r.chance(3, 4) {
			s.Styles[st.ID] = st
		}
		if s.Styles != nil && r.chance(1, 8) { // a key that is not the definition's identifier; a nil definition
			if r.bool() {
				s.Styles["k"+st.ID] = st
			} else {
				s.Styles["nil"+st.ID] = nil
			}
		}
	}
	for i := r.intn(3); i > 0; i-- {
		rg := &astisub.Region{ID: []string{"", "r", "r 1", "é"}[r.intn(4)], InlineStyle: weirdAttrs(r)}
		if len(styles) > 0 && r.bool() {
			rg.Style = styles[r.intn(len(styles))]
		}
		regions = append(regions, rg)
		if s.Regions != nil && r.chance(3, 4) {
			s.Regions[rg.ID] = rg
		}
		if s.Regions != nil && r.chance(1, 8) {
			if r.bool() {
				s.Regions["k"+rg.ID] = rg
			} else {
				s.Regions["nil"+rg.ID] = nil
			}
		}
	}
	if r.chance(1, 2) {
		s.Metadata = &astisub.Metadata{Title: weirdTexts[r.intn(len(weirdTexts))], Language: []string{"", astisub.LanguageFrench, "klingon"}[r.intn(3)],
			Framerate: []int{0, 24, 25, 30, -1, 1000}[r.intn(6)], STLDisplayStandardCode: []string{"", "0", "1", "2", "9", "xx"}[r.intn(6)],
			SSAScriptType: []string{"", "v4.00", "v4.00+"}[r.intn(3)], STLTimecodeStartOfProgramme: time.Duration(r.rangeI(-3600, 90000)) * time.Second}
		if r.bool() {
			s.Metadata.WebVTTTimestampMap = &astisub.WebVTTTimestampMap{Local: time.Duration(r.rangeI(-5, 5)) * time.Second, MpegTS: r.rangeI(-10, 1000000)}
		}
		if r.bool() {
			s.Metadata.Comments = []string{weirdTexts[r.intn(len(weirdTexts))]}
		}
	}
	for i := r.intn(4); i > 0 || len(s.Items) == 0 && r.chance(9, 10); i-- {
		var it *astisub.Item
		if r.chance(1, 40) {
			s.Items = append(s.Items, &astisub.Item{}) // a zero item
			continue
		}
		it = &astisub.Item{StartAt: time.Duration(r.rangeI(-2, 400000)) * time.Second / 3, EndAt: time.Duration(r.rangeI(-2, 400000)) * time.Second / 3, Index: int(r.rangeI(-1, 5)), InlineStyle: weirdAttrs(r)}
		if r.chance(1, 20) {
			it.StartAt, it.EndAt = 1<<62, -(1 << 62)
		}
		if len(styles) > 0 && r.bool() {
			it.Style = styles[r.intn(len(styles))]
		}
		if len(regions) > 0 && r.bool() {
			it.Region = regions[r.intn(len(regions))]
		}
		if r.chance(1, 4) {
			it.Comments = []string{weirdTexts[r.intn(len(weirdTexts))], ""}
		}
		for l := r.intn(4); l > 0; l-- {
			ln := astisub.Line{VoiceName: []string{"", "Bob", "a>b", "\n"}[r.intn(4)]}
			for k := r.intn(4); k > 0; k-- {
				li := astisub.LineItem{Text: weirdTexts[r.intn(len(weirdTexts))], InlineStyle: weirdAttrs(r), StartAt: time.Duration(r.rangeI(-1, 3)) * time.Second}
				if len(styles) > 0 && r.chance(1, 3) {
					li.Style = styles[r.intn(len(styles))]
				}
				ln.Items = append(ln.Items, li)
			}
			if r.chance(1, 8) {
				// a family of neighbouring runs: tag stacks over one name whose class lists are prefixes of one
				// another, of every relative length (nil, empty and non-empty lists included)
				fam := []string{"loud", "red", "big"}
				name := []string{"c", "b", "", "v"}[r.intn(4)]
				for k := 2 + r.intn(3); k > 0; k-- {
					var tags []astisub.WebVTTTag
					for d := r.intn(3); d > 0; d-- {
						t := astisub.WebVTTTag{Name: name}
						if n := r.intn(5); n < 4 {
							t.Classes = append([]string{}, fam[:n]...)
						}
						tags = append(tags, t)
					}
					li := astisub.LineItem{Text: weirdTexts[r.intn(len(weirdTexts))]}
					if !r.chance(1, 6) {
						li.InlineStyle = &astisub.StyleAttributes{WebVTTTags: tags}
					}
					ln.Items = append(ln.Items, li)
				}
			}
			it.Lines = append(it.Lines, ln)
		}
		s.Items = append(s.Items, it)
		if len(s.Items) > 6 {
			break
		}
	}
	return s
}

func init() {
	// tot.read <format> <opt> x<bytes>
	streams["tot.read"] = stream{exec: func(a []string) string { return totRead(a[0], decBytes(a[2]), int(atoi64(a[1]))) }, gen: func(c *ctx) {
		r := newRng(c.seed, "tot.read")
		n := 1500
		if c.thorough {
			n = 150000
		}
		for i := 0; i < n; i++ {
			f := totFormats[r.intn(len(totFormats))]
			var d []byte
			kind := "damaged"
			switch r.intn(8) {
			case 0: // arbitrary bytes
				kind = "arbitrary"
				d = make([]byte, r.intn(2000))
				for j := range d {
					d[j] = byte(r.intn(256))
				}
				if f == "ts" && len(d) > 0 && r.bool() { // sync bytes every 188
					for j := 0; j < len(d); j += 188 {
						d[j] = 0x47
					}
				}
			case 1:
				kind = "valid"
				d = validDoc(r, f)
			default:
				d = validDoc(r, f)
				page := lastTSPage
				d = damage(r, f, d)
				if r.chance(1, 3) {
					d = damage(r, f, d)
				}
				lastTSPage = page
			}
			if len(d) > 300000 {
				d = d[:300000]
			}
			opt := r.intn(3000)
			if f == "ts" && kind != "arbitrary" {
				// the page the stream carries (given, or found by the reader), not one it does not carry: that is where
				// the damaged rows are looked at
				switch r.intn(3) {
				case 0:
					opt = 0
				case 1:
					opt = lastTSPage % 900
				}
			}
			c.do(fmt.Sprintf("tot.read %s %d %s", f, opt, encBytes(d)))
			c.count(f + "-" + kind)
		}
		// tiny inputs, exhaustively short prefixes of every sample document
		docs := sampleDocs()
		var fs []string
		for f := range docs {
			fs = append(fs, f)
		}
		sort.Strings(fs)
		for _, f := range fs {
			for _, d := range docs[f][:1] {
				for k := 0; k <= len(d) && k <= 300; k++ {
					c.do(fmt.Sprintf("tot.read %s 0 %s", f, encBytes(d[:k])))
					c.count("prefixes")
				}
			}
		}
		for _, f := range totFormats {
			c.do(fmt.Sprintf("tot.read %s 0 x", f))
		}
		// TTML time expressions in frames and ticks, whole and fractional, with the rates absent, zero, negative, huge
		for _, rate := range []string{"", ` ttp:frameRate="0"`, ` ttp:frameRate="-25"`, ` ttp:frameRate="25" ttp:tickRate="0"`, ` ttp:tickRate="-1"`,
			` ttp:frameRate="99999999999999999999"`, ` ttp:frameRate="x"`} {
			for _, tm := range []string{"12f", "12.5f", "0.5f", ".5f", "3t", "3.25t", "00:00:01:12", "00:00:01:12.5", "1.5h", "99999999999999999999f", "1e3f", "-1f"} {
				d := `<tt xmlns="http://www.w3.org/ns/ttml" xmlns:ttp="http://www.w3.org/ns/ttml#parameter"` + rate + `><body><div><p begin="` + tm + `" end="` + tm + `">x</p></div></body></tt>`
				c.do(fmt.Sprintf("tot.read ttml 0 %s", encBytes([]byte(d))))
				c.count("ttml-times")
			}
		}
		// SSA documents with junk lines in every section, read with the zero-value options
		for i := 0; i < 40; i++ {
			d := validDoc(r, "ssa")
			d = bytes.Replace(d, []byte("\nFormat:"), []byte("\nComment: a note\nStyl: x\njunk\nFormat:"), -1)
			d = append(d, []byte("\nComment: trailing\n[Unknown]\nx: y\n")...)
			c.do(fmt.Sprintf("tot.read ssa 3 %s", encBytes(d)))
			c.do(fmt.Sprintf("tot.read ssa 3 %s", encBytes(bytes.Replace(d, []byte("Format:"), []byte("Format:\nComment: after format\nStyl: y"), 1))))
			c.count("ssa-options")
		}
	}}

	// tot.write <format> <seed>
	streams["tot.write"] = stream{exec: func(a []string) string {
		s := weirdSubs(newRng(uint64(atoi64(a[1])), "weird"))
		return classify(10*time.Second, func() error {
			// the writers are called directly: writeRaw turns a panic into an error, which would hide it here
			var b bytes.Buffer
			switch a[0] {
			case "srt":
				return s.WriteToSRT(&b)
			case "vtt":
				return s.WriteToWebVTT(&b)
			case "ssa":
				return s.WriteToSSA(&b)
			case "stl":
				return s.WriteToSTL(&b)
			case "ttml":
				return s.WriteToTTML(&b)
			}
			panic("format")
		})
	}, gen: func(c *ctx) {
		r := newRng(c.seed, "tot.write")
		n := 1500
		if c.thorough {
			n = 200000
		}
		for i := 0; i < n; i++ {
			seed := r.intn(1 << 30)
			for _, f := range []string{"srt", "vtt", "ssa", "stl", "ttml"} {
				c.do(fmt.Sprintf("tot.write %s %d", f, seed))
				c.count(f)
			}
		}
	}}

	// tot.scale <format>: running time against input size (8x the size must not cost 40x the time)
	streams["tot.scale"] = stream{exec: func(a []string) string {
		f := a[0]
		unit := scaleUnit(f)
		measure := func(k int) time.Duration {
			d := scaleDoc(f, unit, k)
			best := time.Duration(1 << 62)
			for rep := 0; rep < 3; rep++ {
				t0 := time.Now()
				totRead(f, d, 0)
				if el := time.Since(t0); el < best {
					best = el
				}
			}
			return best
		}
		// find a base size that takes at least 10 ms
		k := 200
		for measure(k) < 10*time.Millisecond && k < 200000 {
			k *= 2
		}
		t1, t8 := measure(k), measure(8*k)
		if t1 > 0 && float64(t8)/float64(t1) > 40 && t8 > 400*time.Millisecond {
			return fmt.Sprintf("superlinear size=%d t=%v size=%d t=%v", k, t1, 8*k, t8)
		}
		return "linear"
	}, gen: func(c *ctx) {
		for _, f := range []string{"srt", "vtt", "ssa", "stl", "ttml"} {
			c.do("tot.scale " + f)
		}
	}}
}

// scaleUnit / scaleDoc: a document made of k repetitions of a unit cue
func scaleUnit(f string) []byte {
	switch f {
	case "srt":
		return []byte("1\n00:00:01,000 --> 00:00:02,000\n<i>hello</i> world\n\n")
	case "vtt":
		return []byte("NOTE c\n\n00:00:01.000 --> 00:00:02.000 align:left\n<v Bob><c.red>hello</c> world\n\n")
	case "ssa":
		return []byte("Dialogue: 0,0:00:01.00,0:00:02.00,Default,,0,0,0,,{\\i1}hello{\\i0} world\n")
	case "ttml":
		return []byte("<p begin=\"00:00:01.000\" end=\"00:00:02.000\"><span>hello</span><br/>world</p>\n")
	case "stl":
		b := make([]byte, 128)
		for i := range b {
			b[i] = 0x8f
		}
		b[3] = 0xff
		copy(b[16:], []byte("hello world"))
		return b
	}
	return nil
}

func scaleDoc(f string, unit []byte, k int) []byte {
	var b bytes.Buffer
	switch f {
	case "vtt":
		b.WriteString("WEBVTT\n\n")
	case "ssa":
		b.WriteString("[Script Info]\nTitle: x\n\n[V4 Styles]\nFormat: Name, Fontname\nStyle: Default,Arial\n\n[Events]\nFormat: Marked, Start, End, Style, Name, MarginL, MarginR, MarginV, Effect, Text\n")
	case "ttml":
		b.WriteString("<tt xmlns=\"http://www.w3.org/ns/ttml\"><body><div>\n")
	case "stl":
		d, _ := genSourceDoc(newRng(1, "scale"), "stl")
		b.Write(d[:1024])
	}
	for i := 0; i < k; i++ {
		b.Write(unit)
	}
	if f == "ttml" {
		b.WriteString("</div></body></tt>")
	}
	return b.Bytes()
}

var _ = utf8.RuneError
