//go:build verif
// +build verif

package main

import (
	"strconv"
	"strings"

	astisub "github.com/asticode/go-astisub"
)

func init() {
	ssaStyleFromString = func(content string, format []string) string {
		st, err := astisub.VerifSSAStyleFromString(content, format)
		if err != nil {
			return "err"
		}
		return "ok D " + encStr(st.ID) + " - " + canonAttrs(st.InlineStyle)
	}
	ssaEventLines = func(text string) string {
		ls, err := astisub.VerifSSAEventLines(text)
		if err != nil {
			return "err"
		}
		o := []string{strconv.Itoa(len(ls))}
		for _, l := range ls {
			o = append(o, "L", encStr(l.VoiceName), strconv.Itoa(len(l.Items)))
			for _, li := range l.Items {
				o = append(o, "T", encStr(li.Text), strconv.FormatInt(int64(li.StartAt), 10), refID(li.Style), canonAttrs(li.InlineStyle))
			}
		}
		return strings.Join(o, " ")
	}
	ssaColour = func(i string) string {
		c, err := astisub.VerifSSAColor(i)
		if err != nil {
			return "err"
		}
		if c == nil {
			return "nil"
		}
		return "ok " + c.SSAString()
	}
}
