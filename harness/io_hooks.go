//go:build verif
// +build verif

package main

import (
	"io"

	astisub "github.com/asticode/go-astisub"
)

func init() { scanLines = func(r io.Reader) ([][]byte, error) { return astisub.VerifScanLines(r) } }
