//go:build verif
// +build verif

package main

import (
	"fmt"
	"strconv"

	astisub "github.com/asticode/go-astisub"
)

// ttml.time: one time expression through TTMLInDuration.UnmarshalText + duration() with a frame and tick rate
func init() {
	streams["ttml.time"] = stream{exec: func(a []string) string {
		fr, _ := strconv.Atoi(a[1])
		tr, _ := strconv.Atoi(a[2])
		d, err := astisub.VerifTTMLParseTime(decStr(a[0]), fr, tr)
		if err != nil {
			return "err"
		}
		return "ok " + strconv.FormatInt(int64(d), 10)
	}, gen: func(c *ctx) {
		r := newRng(c.seed, "ttml.time")
		rates := []int{0, 1, 24, 25, 30, 50, 60, 1000, 90000, 10000000}
		for _, s := range ttmlTimeSamples {
			for _, fr := range []int{0, 25, 30} {
				for _, tr := range []int{0, 4, 10000000} {
					c.do(fmt.Sprintf("ttml.time %s %d %d", encStr(s), fr, tr))
					c.count("samples")
				}
			}
		}
		n := 20000
		if c.thorough {
			n = 2000000
		}
		for i := 0; i < n; i++ {
			fr, tr := rates[r.intn(7)], rates[r.intn(len(rates))]
			if r.chance(1, 2) {
				tr = 0
			}
			s := genTimeExpr(r, fr, tr, r.rangeI(0, 360000000))
			c.do(fmt.Sprintf("ttml.time %s %d %d", encStr(s), fr, tr))
			c.count("generated")
			if i%4 == 0 {
				c.do(fmt.Sprintf("ttml.time %s %d %d", encStr(string(mutateTTMLTime(r, s))), fr, tr))
				c.count("mutated")
			}
		}
		// every millisecond of a stretch, every syntax that can carry it exactly
		m := int64(20000)
		if c.thorough {
			m = 600000
		}
		for ms := int64(0); ms < m; ms++ {
			for _, s := range []string{fmt.Sprintf("%d.%03ds", ms/1000, ms%1000), fmt.Sprintf("%dms", ms),
				fmt.Sprintf("00:%02d:%02d.%03d", ms/60000, ms/1000%60, ms%1000), fmt.Sprintf("%dt", ms*10000)} {
				c.do(fmt.Sprintf("ttml.time %s 25 10000000", encStr(s)))
			}
			c.count("sweep")
		}
	}}
}

func mutateTTMLTime(r *rng, s string) []byte {
	b := []byte(s)
	if len(b) == 0 {
		return b
	}
	i := r.intn(len(b))
	switch r.intn(5) {
	case 0:
		al := "0123456789:.hmsft -+,"
		b[i] = al[r.intn(len(al))]
	case 1:
		b = append(b[:i], b[i+1:]...)
	case 2:
		al := "0123456789:.hmsft "
		b = append(b[:i], append([]byte{al[r.intn(len(al))]}, b[i:]...)...)
	case 3:
		b = b[:i]
	default:
		b = append(b, b[i:]...)
	}
	return b
}
