package main

import (
	"fmt"
	"sort"
	"strconv"
	"strings"
	"time"

	astisub "github.com/asticode/go-astisub"
)

// harness-side mirror of the Lean `Graph` (Model/Graph.lean): references are identifier chains
type gDef struct {
	key, id string
	chain   []string
	tag     int
}
type gItem struct {
	style  []string
	region string // "" = nil
	runs   [][]string
}
type graph struct {
	items           []gItem
	regions, styles []gDef
}

func encChain(c []string) string {
	if len(c) == 0 {
		return "-"
	}
	return strings.Join(c, ">")
}
func decChain(s string) []string {
	if s == "-" {
		return nil
	}
	return strings.Split(s, ">")
}

func (g graph) enc() string {
	o := []string{strconv.Itoa(len(g.items))}
	for _, it := range g.items {
		var rs []string
		for _, r := range it.runs {
			rs = append(rs, encChain(r))
		}
		reg := it.region
		if reg == "" {
			reg = "-"
		}
		o = append(o, encChain(it.style)+","+reg+","+strings.Join(rs, ";"))
	}
	for _, defs := range [][]gDef{g.regions, g.styles} {
		ds := append([]gDef(nil), defs...)
		sort.SliceStable(ds, func(i, j int) bool { return ds[i].key < ds[j].key })
		o = append(o, strconv.Itoa(len(ds)))
		for _, d := range ds {
			o = append(o, fmt.Sprintf("%s=%s:%s:%d", d.key, d.id, encChain(d.chain), d.tag))
		}
	}
	return strings.Join(o, " ")
}

func decGraph(a []string) (graph, []string) {
	var g graph
	n := int(atoi64(a[0]))
	a = a[1:]
	for i := 0; i < n; i++ {
		f := strings.Split(a[i], ",")
		it := gItem{style: decChain(f[0])}
		if f[1] != "-" {
			it.region = f[1]
		}
		if f[2] != "" {
			for _, r := range strings.Split(f[2], ";") {
				it.runs = append(it.runs, decChain(r))
			}
		}
		g.items = append(g.items, it)
	}
	a = a[n:]
	for k := 0; k < 2; k++ {
		n = int(atoi64(a[0]))
		a = a[1:]
		for i := 0; i < n; i++ {
			kv := strings.SplitN(a[i], "=", 2)
			f := strings.Split(kv[1], ":")
			d := gDef{key: kv[0], id: f[0], chain: decChain(f[1]), tag: int(atoi64(f[2]))}
			if k == 0 {
				g.regions = append(g.regions, d)
			} else {
				g.styles = append(g.styles, d)
			}
		}
		a = a[n:]
	}
	return g, a
}

// builder shares one *Style object per distinct chain, as a real document would
type builder struct{ memo map[string]*astisub.Style }

func (b *builder) style(chain []string, tag int) *astisub.Style {
	if len(chain) == 0 {
		return nil
	}
	k := strings.Join(chain, ">") + "#" + strconv.Itoa(tag)
	if s, ok := b.memo[k]; ok {
		return s
	}
	s := &astisub.Style{ID: chain[0], Style: b.style(chain[1:], 0)}
	if tag != 0 {
		s.InlineStyle = &astisub.StyleAttributes{SSAFontName: "t" + strconv.Itoa(tag)}
		if tag == 2 { // a style that carries a WebVTT stylesheet is a style like any other
			s.InlineStyle.WebVTTStyles = []string{"::cue(." + chain[0] + ") { color: red }"}
		}
	}
	b.memo[k] = s
	return s
}

func (g graph) build() *astisub.Subtitles {
	b := &builder{memo: map[string]*astisub.Style{}}
	s := astisub.NewSubtitles()
	regObjs := map[string]*astisub.Region{}
	for _, d := range g.regions {
		r := &astisub.Region{ID: d.id, Style: b.style(d.chain, 0)}
		if d.tag != 0 {
			r.InlineStyle = &astisub.StyleAttributes{SSAFontName: "t" + strconv.Itoa(d.tag)}
		}
		s.Regions[d.key] = r
		if _, ok := regObjs[d.id]; !ok {
			regObjs[d.id] = r
		}
	}
	for _, d := range g.styles {
		s.Styles[d.key] = b.style(append([]string{d.id}, d.chain...), d.tag)
	}
	for i, gi := range g.items {
		it := &astisub.Item{StartAt: 0, EndAt: 1000000000, Index: i + 1, Style: b.style(gi.style, 0)}
		if gi.region != "" {
			if r, ok := regObjs[gi.region]; ok {
				it.Region = r
			} else {
				it.Region = &astisub.Region{ID: gi.region} // dangling reference
			}
		}
		var ln astisub.Line
		for j, r := range gi.runs {
			// every run has its own text and its own in-cue instant (WebVTT inline timestamp): operations on styles leave both alone
			ln.Items = append(ln.Items, astisub.LineItem{Text: "t" + strconv.Itoa(j), StartAt: time.Duration(i*10+j) * 100 * time.Millisecond,
				Style: b.style(r, 0), InlineStyle: &astisub.StyleAttributes{SRTBold: true}})
			if j%2 == 1 {
				it.Lines = append(it.Lines, ln)
				ln = astisub.Line{VoiceName: "v"}
			}
		}
		if len(ln.Items) > 0 {
			it.Lines = append(it.Lines, ln)
		}
		it.InlineStyle = &astisub.StyleAttributes{SRTItalics: true}
		s.Items = append(s.Items, it)
	}
	return s
}

func chainOf(s *astisub.Style) []string {
	var o []string
	seen := map[*astisub.Style]bool{}
	for s != nil && !seen[s] {
		seen[s] = true
		o = append(o, s.ID)
		s = s.Style
	}
	return o
}

func tagOf(sa *astisub.StyleAttributes) int {
	if sa == nil {
		return 0
	}
	if strings.HasPrefix(sa.SSAFontName, "t") {
		return int(atoi64(sa.SSAFontName[1:]))
	}
	return 777
}

func observeGraph(s *astisub.Subtitles) graph {
	var g graph
	for _, it := range s.Items {
		gi := gItem{style: chainOf(it.Style)}
		if it.Region != nil {
			gi.region = it.Region.ID
		}
		for _, l := range it.Lines {
			for _, r := range l.Items {
				gi.runs = append(gi.runs, chainOf(r.Style))
			}
		}
		g.items = append(g.items, gi)
	}
	for k, r := range s.Regions {
		g.regions = append(g.regions, gDef{key: k, id: r.ID, chain: chainOf(r.Style), tag: tagOf(r.InlineStyle)})
	}
	for k, st := range s.Styles {
		g.styles = append(g.styles, gDef{key: k, id: st.ID, chain: chainOf(st.Style), tag: tagOf(st.InlineStyle)})
	}
	return g
}

// randGraph: a universe of styles s0..s(n-1) with parent links (forest, shared parents, chains of depth 0..4),
// regions r0.., items referring to them; unused and shared definitions; dangling references; rarely a cycle,
// a key that differs from the id, or a "twin" (same id, other ancestry = inconsistent pointer graph).
func randGraph(r *rng, withItems bool, twins bool) graph {
	ns := r.intn(7)
	parent := make([]int, ns)
	for i := range parent {
		parent[i] = -1
		if i > 0 && r.chance(3, 5) {
			parent[i] = r.intn(i) // forest: parent has a smaller index
		}
	}
	if ns >= 2 && r.chance(1, 20) { // cycle
		parent[0] = ns - 1
	}
	// identifiers are case-sensitive: now and then the styles come in pairs that differ by letter case only (s0 / S0)
	caseIDs := r.chance(1, 5)
	sid := func(i int) string {
		if caseIDs {
			return []string{"s", "S"}[i%2] + strconv.Itoa(i/2*2)
		}
		return "s" + strconv.Itoa(i)
	}
	chain := func(i int) []string {
		var o []string
		seen := map[int]bool{}
		for i >= 0 && !seen[i] {
			seen[i] = true
			o = append(o, sid(i))
			i = parent[i]
		}
		return o
	}
	ref := func() []string {
		if ns == 0 || r.chance(1, 4) {
			if r.chance(1, 6) {
				return []string{"sx" + strconv.Itoa(r.intn(2))} // dangling
			}
			return nil
		}
		c := chain(r.intn(ns))
		if twins && r.chance(1, 25) && len(c) > 1 { // twin: same id, different ancestry
			c = append([]string{c[0]}, "sx9")
		}
		return c
	}
	var g graph
	for i := 0; i < ns; i++ {
		if r.chance(4, 5) {
			c := chain(i)
			d := gDef{key: c[0], id: c[0], chain: c[1:], tag: r.intn(3)}
			if r.chance(1, 30) {
				d.key = "k" + d.key
			}
			g.styles = append(g.styles, d)
		}
	}
	nr := r.intn(5)
	rp := "r"
	if r.chance(1, 4) { // regions and styles are separate identifier spaces: the same names may occur in both
		rp = "s"
	}
	for i := 0; i < nr; i++ {
		d := gDef{key: rp + strconv.Itoa(i), id: rp + strconv.Itoa(i), chain: ref(), tag: r.intn(3)}
		if r.chance(1, 30) {
			d.key = "k" + d.key
		}
		g.regions = append(g.regions, d)
	}
	if withItems {
		ni := r.intn(5)
		if r.chance(1, 10) {
			ni = 0
		}
		for i := 0; i < ni; i++ {
			it := gItem{style: ref()}
			if r.chance(1, 2) {
				it.region = rp + strconv.Itoa(r.intn(nr+1))
			}
			for j := r.intn(4); j > 0; j-- {
				it.runs = append(it.runs, ref())
			}
			g.items = append(g.items, it)
		}
	}
	return g
}
