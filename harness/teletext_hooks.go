//go:build verif
// +build verif

package main

// function-level teletext streams (need the verif hooks of the repository)

import (
	"encoding/json"
	"fmt"
	"strconv"
	"strings"

	astisub "github.com/asticode/go-astisub"
)

func optU32(tok string) *uint32 {
	if tok == "-" {
		return nil
	}
	v := uint32(atoi64(tok))
	return &v
}

func u32Tok(r *rng, key int, present bool) string {
	if !present {
		return "-"
	}
	return strconv.FormatUint(uint64(uint32(key)<<10|uint32(r.intn(1024))<<14|uint32(r.intn(64))<<4), 10)
}

func ttPesLine(page int, pes []ttPES, ident byte) string {
	o := []string{"teletext.pes", strconv.Itoa(page), strconv.Itoa(len(pes))}
	for _, p := range pes {
		o = append(o, strconv.FormatInt(ptsNs(p.pts), 10), encBytes(p.payload(ident)))
	}
	return strings.Join(o, " ")
}

func init() {
	// teletext.pes: page n (pts x<payload>)* [G ...]  — the reader from the PES level on
	streams["teletext.pes"] = stream{exec: func(a []string) string {
		n := int(atoi64(a[1]))
		var pes []astisub.VerifTeletextPES
		for i := 0; i < n; i++ {
			pes = append(pes, astisub.VerifTeletextPES{PTS: atoi64(a[2+2*i]), Data: decBytes(a[3+2*i])})
		}
		return "ok " + canonSubs(astisub.VerifTeletextRun(int(atoi64(a[0])), pes))
	}, gen: func(c *ctx) {
		r := newRng(c.seed, "teletext.pes")
		n := 3000
		if c.thorough {
			n = 60000
		}
		for i := 0; i < n; i++ {
			tc := genTTCase(r, i%3)
			ident := byte(0x10 + r.intn(16))
			c.do(strings.TrimSpace(ttPesLine(tc.pageOpt(), tc.pes, ident) + " " + tc.gTokens()))
			c.count("generated")
			if i%2 == 0 { // byte-level damage inside the payloads
				var toks []string
				for _, p := range tc.pes {
					pl := p.payload(ident)
					if r.chance(1, 2) {
						pl = mutateBytes(r, pl, 0)
					}
					toks = append(toks, strconv.FormatInt(ptsNs(p.pts), 10), encBytes(pl))
				}
				c.do(fmt.Sprintf("teletext.pes %d %d %s", tc.pageOpt(), len(tc.pes), strings.Join(toks, " ")))
				c.count("mutated")
			}
			if i%10 == 0 { // another page than the one on air / not an EBU data identifier
				c.do(ttPesLine(100+r.intn(800), tc.pes, ident))
				c.do(ttPesLine(tc.pageOpt(), tc.pes, []byte{0x00, 0x0f, 0x20, 0xff}[r.intn(4)]))
				c.count("options")
			}
		}
		// D18 witnesses: first X/28, first M/29, short payloads / data units / packets
		x28 := desigPacket(r, 8, 28, 0, 0)
		m29 := desigPacket(r, 8, 29, 0, 0)
		hdr := ttPacket(8, 0, ttHeader{mag: 8, tens: 8, units: 8, subtitle: true}.data(), 0xe7)
		row := textPacket(r, 8, 20, "Hello")
		unit := func(p []byte) []byte { return append([]byte{0x03, byte(len(p))}, p...) }
		cat := func(ps ...[]byte) []byte {
			o := []byte{0x10}
			for _, p := range ps {
				o = append(o, p...)
			}
			return o
		}
		for _, w := range [][]byte{
			cat(unit(hdr), unit(x28), unit(row)), cat(unit(m29)), cat(unit(hdr), unit(row), unit(m29)), cat(unit(hdr), unit(m29), unit(x28), unit(row)),
			{}, {0x10}, {0x10, 0x03}, {0x10, 0x03, 0x00}, {0x10, 0x03, 0x01, 0xe7}, {0x10, 0x03, 0x02, 0xe7, 0xe4}, {0x10, 0x03, 0x03, 0xe7, 0xe4, hdr[2]},
			cat(unit(hdr[:4])), cat(unit(hdr[:5])), cat(unit(hdr[:9])), cat(unit(hdr[:11])), cat(unit(hdr[:12])), cat(unit(hdr), unit(row[:4])), cat(unit(hdr), unit(row[:30])),
			cat(unit(hdr), unit(x28[:4])), cat(unit(hdr), unit(x28[:5])), cat(unit(hdr), unit(x28[:7])), cat(unit(hdr), unit(x28[:8])), cat(unit(m29[:6])),
			cat(unit(hdr), unit(row))[:60], cat(unit(hdr), unit(row), []byte{0x03}),
		} {
			for _, page := range []int{888, 0} {
				c.do(fmt.Sprintf("teletext.pes %d 1 1000000000 %s", page, encBytes(w)))
				c.count("d18")
			}
		}
		c.do("teletext.pes 888 0")
		// witnesses of the defects repaired by fix-4 (parity), fix-5 (codes after the end box), fix-6 (hexadecimal page numbers)
		cells := func(cs []byte, bad int) (d [40]byte) {
			for k := 0; k < 40; k++ {
				ch := byte(' ')
				if k < len(cs) {
					ch = cs[k]
				}
				d[k] = oddPar(ch)
				if k == bad {
					d[k] ^= 0x80
				}
			}
			return
		}
		h820 := ttPacket(8, 0, ttHeader{mag: 8, tens: 2, units: 0, subtitle: true}.data(), 0xe7)
		one := func(cs []byte, bad int, g string) {
			pl := cat(unit(h820), unit(ttPacket(8, 20, cells(cs, bad), 0xe8)))
			c.do(fmt.Sprintf("teletext.pes 820 1 1000000000 %s G 0 0 1 C 0 0 1 %s", encBytes(pl), g))
			c.count("witness")
		}
		one([]byte{0x0b, 0x0b, 'H', 'e', 'l', 'l', 'o'}, 4, "L 1 R - 000 "+encStr("Helo"))
		one([]byte{0x0b, 'A', 0x0a, 0x01}, -1, "L 1 R - 000 "+encStr("A"))
		one([]byte{0x0b, 'A', 0x0a, 0x01, 0x0b, 'B'}, -1, "L 2 R - 000 "+encStr("A")+" R 1 000 "+encStr("B"))
		h81a := ttPacket(8, 0, ttHeader{mag: 8, tens: 1, units: 10}.data(), 0xe7)
		c.do(fmt.Sprintf("teletext.pes 820 3 0 %s 1000000000 %s 2000000000 %s G 0 0 1 C 0 2000000000 1 L 1 R - 000 %s",
			encBytes(cat(unit(h820), unit(textPacket(r, 8, 20, "Hi")))), encBytes(cat(unit(h81a), unit(textPacket(r, 8, 1, "OTHER")))),
			encBytes(cat(unit(noisePacket(r, 8, 30)))), encStr("Hi")))
		c.count("witness")
	}}

	// teletext.row: x28|- m29|- code x<row>  — parseTeletextRow / appendTeletextLineItem with the selected character set
	rowExec := func(a []string) string {
		it := astisub.VerifParseTeletextRow(optU32(a[0]), optU32(a[1]), uint8(atoi64(a[2])), decBytes(a[3]))
		return "ok " + canonSubs(&astisub.Subtitles{Items: []*astisub.Item{it}})
	}
	streams["teletext.row"] = stream{exec: rowExec, gen: func(c *ctx) {
		r := newRng(c.seed, "teletext.row")
		// the row of TestParseTeletextRow
		b := []byte("start")
		b = append(b, 0x0, 0xb)
		for k, w := range []string{"black", "red", "green", "yellow", "blue", "magenta", "cyan", "white"} {
			b = append(b, []byte(w)...)
			b = append(b, byte(k+1))
		}
		b = b[:len(b)-1]
		b = append(b, 0xd)
		b = append(b, []byte("double height")...)
		b = append(b, 0xe)
		b = append(b, []byte("double width")...)
		b = append(b, 0xf)
		b = append(b, []byte("double size")...)
		b = append(b, 0xc)
		b = append(b, []byte("reset")...)
		b = append(b, 0xa)
		b = append(b, []byte("end")...)
		c.do("teletext.row - - 0 " + encBytes(b))
		n := 8000
		if c.thorough {
			n = 160000
		}
		keys := []int{0, 1, 2, 3, 4, 6, 8, 10, 5, 7, 15}
		for i := 0; i < n; i++ {
			key := keys[r.intn(len(keys))]
			x28, m29 := r.chance(1, 3), r.chance(1, 3)
			k28, k29 := key, key
			if x28 && m29 && r.bool() {
				k29 = keys[r.intn(len(keys))]
			}
			code := r.intn(8)
			var row []byte
			switch i % 3 {
			case 0: // ground-truth row, received bytes (parity already checked): G tokens of a one-row cue
				tr := genTTRow(r, 1)
				d, got := encodeRow(r, tr, r.chance(1, 5), r.chance(1, 5))
				for _, x := range d {
					v := rev8(rev8(x)) // identity: the row stream works on received bytes
					if oddPar(v&0x7f) != v {
						v = 0xff // what parsePacketData stores for a character failing parity (after fix-2)
					} else {
						v &= 0x7f
					}
					row = append(row, v)
				}
				s := ttSchedule{code: code, inst: []ttInstance{{rows: []ttRow{got}}}}
				if x28 || (m29 && k29 == key) {
					s.key = key
				} else if m29 {
					s.key = k29
				}
				g := s.expected(0, 0)
				if len(got.runs) == 0 {
					g = ""
				}
				c.do(strings.TrimSpace(fmt.Sprintf("teletext.row %s %s %d %s %s", u32Tok(r, k28, x28), u32Tok(r, k29, m29), code, encBytes(row), g)))
				c.count("generated")
				continue
			case 1: // arbitrary cells, biased to codes
				for k := r.intn(41); k > 0; k-- {
					switch r.intn(4) {
					case 0:
						row = append(row, byte(r.intn(16)))
					case 1:
						row = append(row, ' ')
					case 2:
						row = append(row, byte(0x20+r.intn(0x60)))
					default:
						row = append(row, []byte{0x0b, 0x0a, 0x0d, 0x0c, 0x07, 0x10, 0x1f, 0x7f, 0xff, 0x80}[r.intn(10)])
					}
				}
			default:
				for k := r.intn(45); k > 0; k-- {
					row = append(row, byte(r.intn(256)))
				}
			}
			c.do(fmt.Sprintf("teletext.row %s %s %d %s", u32Tok(r, k28, x28), u32Tok(r, k29, m29), code, encBytes(row)))
			c.count("random")
		}
	}}

	// teletext.charset: x28|- m29|- code  — the 256 answers of the character decoder
	streams["teletext.charset"] = stream{exec: func(a []string) string {
		var o []string
		for _, b := range astisub.VerifTeletextCharset(optU32(a[0]), optU32(a[1]), uint8(atoi64(a[2]))) {
			o = append(o, encBytes(b))
		}
		return strings.Join(o, " ")
	}, gen: func(c *ctx) {
		r := newRng(c.seed, "teletext.charset")
		for key := 0; key < 16; key++ {
			for code := 0; code < 8; code++ {
				t := strconv.Itoa(key<<10 | r.intn(8)<<7)
				c.do(fmt.Sprintf("teletext.charset %s - %d", t, code))
				c.do(fmt.Sprintf("teletext.charset - %s %d", t, code))
				c.do(fmt.Sprintf("teletext.charset %s %d %d", t, r.intn(1<<24), code))
			}
		}
		for code := 0; code < 256; code++ {
			c.do(fmt.Sprintf("teletext.charset - - %d", code))
		}
		n := 300
		if c.thorough {
			n = 30000
		}
		for i := 0; i < n; i++ {
			c.do(fmt.Sprintf("teletext.charset %d %d %d", r.intn(1<<24), r.intn(1<<24), r.intn(8)))
		}
	}}

	// teletext.lib: ham <byte> | par <byte> | ident <byte>  — astikit's Hamming 8/4 and parity decoders, the data identifier test
	streams["teletext.lib"] = stream{exec: func(a []string) string {
		t := astisub.VerifDumpTeletextTables()
		b := int(atoi64(a[1]))
		switch a[0] {
		case "ham":
			return strconv.Itoa(t.Hamming[b])
		case "par":
			return strconv.FormatBool(t.Parity[b])
		default:
			return astisub.VerifTeletextPESDataType(uint8(b))
		}
	}, gen: func(c *ctx) {
		for b := 0; b < 256; b++ {
			c.do(fmt.Sprintf("teletext.lib ham %d", b))
			c.do(fmt.Sprintf("teletext.lib par %d", b))
			c.do(fmt.Sprintf("teletext.lib ident %d", b))
		}
	}}

	// teletext.known: witnesses of the known findings (not part of the C06 check: the answers below are the library's, the
	// expected ones are in fixes/known-*.md).  1: an X/28/0 format 1 packet whose triplet is Hamming 24/18 coded as ETS 300 706
	// requires, designating Greek (G0 designation 0110, national option 111); 2: the same row sent twice in one page instance
	streams["teletext.known"] = stream{exec: streams["teletext.pes"].exec, gen: func(c *ctx) {
		r := newRng(c.seed, "teletext.known")
		unit := func(p []byte) []byte { return append([]byte{0x03, byte(len(p))}, p...) }
		hdr := ttPacket(8, 0, ttHeader{mag: 8, tens: 2, units: 0, subtitle: true, code: 7}.data(), 0xe7)
		var d [40]byte
		d[0] = ham84(0)
		tr := ham2418(6<<10 | 7<<7)
		d[1], d[2], d[3] = tr[0], tr[1], tr[2]
		for i := 4; i < 40; i += 3 {
			x := ham2418(0)
			d[i], d[i+1], d[i+2] = x[0], x[1], x[2]
		}
		pl := []byte{0x10}
		for _, p := range [][]byte{hdr, ttPacket(8, 28, d, 0xe8), textPacket(r, 8, 20, "ABC")} {
			pl = append(pl, unit(p)...)
		}
		c.do("teletext.pes 820 1 0 " + encBytes(pl))
		pl = []byte{0x10}
		for _, p := range [][]byte{hdr, textPacket(r, 8, 20, "first"), textPacket(r, 8, 20, "second")} {
			pl = append(pl, unit(p)...)
		}
		c.do("teletext.pes 820 1 0 " + encBytes(pl))
	}}

	// teletext.tables: not a correspondence stream — dumps the tables of the running package as JSON (T1, see bin/gen_tables)
	streams["teletext.tables"] = stream{exec: func(a []string) string { return "" }, gen: func(c *ctx) {
		b, _ := json.Marshal(astisub.VerifDumpTeletextTables())
		c.emit(string(b))
	}}
}
