//go:build verif
// +build verif

package main

import (
	"strconv"
	"strings"

	astisub "github.com/asticode/go-astisub"
)

// function-level streams of the WebVTT codec (need the forwarders of verif_hooks_vtt.go)

var vttTagPieces = []string{"<", ">", "/", ".", " ", "\t", "b", "c", "v", "red", "big", "Bob", "a b", "<b>", "<c.red>", "</c>", "<v Bob>", "<v.loud Mary Ann>",
	"<c.red.big note>", "<a/b>", "<b x=\"1/2\">", "<b x=\">\">", "//", "..", " .", "<i/>", "<i />", "</", "< b>", "é", "中文", "\f", "<lang en-GB>", "x=\"</i>\"", "<c.>", "<c..a>"}

func init() {
	// vtt.tagre: webVTTRegexpTag.FindStringSubmatch -> sub-matches 2,3,4
	streams["vtt.tagre"] = stream{exec: func(a []string) string {
		m := astisub.VerifWebVTTTagSubmatch(decStr(a[0]))
		if m == nil {
			return "-"
		}
		return encStr(m[2]) + " " + encStr(m[3]) + " " + encStr(m[4])
	}, gen: func(c *ctx) {
		r := newRng(c.seed, "vtt.tagre")
		for _, p := range vttTagPieces {
			c.do("vtt.tagre " + encStr(p))
			c.count("pieces")
		}
		n := 20000
		if c.thorough {
			n = 1000000
		}
		for i := 0; i < n; i++ {
			var b strings.Builder
			if r.chance(3, 4) {
				b.WriteString("<")
			}
			for k := 1 + r.intn(6); k > 0; k-- {
				b.WriteString(vttTagPieces[r.intn(len(vttTagPieces))])
			}
			if r.chance(3, 4) {
				b.WriteString(">")
			}
			c.do("vtt.tagre " + encStr(b.String()))
			c.count("random")
		}
		// the start-tag raws the tokenizer really produces on random lines
		for i := 0; i < n/4; i++ {
			c.do("vtt.tagre " + encStr(randHTMLLine(r, false)))
			c.count("htmlline")
		}
	}}

	// vtt.texttok: parseTextWebVTTTextToken(line, pending) -> n (text startAt)* next
	streams["vtt.texttok"] = stream{exec: func(a []string) string {
		its, next := astisub.VerifParseTextWebVTTTextToken(decStr(a[0]), timeDur(atoi64(a[1])))
		o := []string{strconv.Itoa(len(its))}
		for _, it := range its {
			o = append(o, encStr(it.Text), strconv.FormatInt(int64(it.StartAt), 10))
		}
		o = append(o, strconv.FormatInt(int64(next), 10))
		return strings.Join(o, " ")
	}, gen: func(c *ctx) {
		r := newRng(c.seed, "vtt.texttok")
		pieces := []string{"<00:00:01.000>", "<01:02.345>", "<100:00:00.001>", "<1:02:03.456>", "<00:60:61.999>", "<00:00:01.00>", "<00:00:01.0000>", "<0:01.000>", "<00:01,000>",
			"<00:00:01.000", "00:00:01.000>", "<<00:02.000>>", "<12345678:00:00.000>", "<99999999999999999999:00:00.000>", "<٠٠:٠١.٠٠٠>",
			"a", " ", "text ", "&amp;", "&lt;", "&nbsp;", "&", "<", ">", "é", "日本", ":", ".", "0", "12", "<b>", "\t"}
		for _, p := range pieces {
			c.do("vtt.texttok " + encStr(p) + " 0")
			c.do("vtt.texttok " + encStr(p) + " 1500000000")
			c.count("pieces")
		}
		n := 20000
		if c.thorough {
			n = 1000000
		}
		for i := 0; i < n; i++ {
			var b strings.Builder
			for k := 1 + r.intn(6); k > 0; k-- {
				b.WriteString(pieces[r.intn(len(pieces))])
			}
			c.do("vtt.texttok " + encStr(b.String()) + []string{" 0", " 2500000000"}[r.intn(2)])
			c.count("random")
		}
	}}

	// vtt.tsmap: parseWebVTTTimestampMap -> err | ok local mpegts x<String()> offset
	streams["vtt.tsmap"] = stream{exec: func(a []string) string {
		m, err := astisub.VerifParseWebVTTTimestampMap(decStr(a[0]))
		if err != nil {
			return "err"
		}
		return "ok " + strconv.FormatInt(int64(m.Local), 10) + " " + strconv.FormatInt(m.MpegTS, 10) + " " + encStr(m.String()) + " " + strconv.FormatInt(int64(m.Offset()), 10)
	}, gen: func(c *ctx) {
		r := newRng(c.seed, "vtt.tsmap")
		fixed := []string{"X-TIMESTAMP-MAP=LOCAL:00:00:00.000,MPEGTS:180000", "X-TIMESTAMP-MAP=LOCAL:00:00:00.500,MPEGTS:180000", "X-TIMESTAMP-MAP=LOCAL:00:00:00.000,MPEGTS:324090000",
			"X-TIMESTAMP-MAP=MPEGTS:foo, LOCAL:00:00:00.000", "X-TIMESTAMP-MAP=MPEGTS:180000,LOCAL:bar", "X-TIMESTAMP-MAP=MPEGTS:180000,LOCAL", "X-TIMESTAMP-MAP=MPEGTS,LOCAL:00:00:00.000",
			"X-TIMESTAMP-MAP", "X-TIMESTAMP-MAP=", "X-TIMESTAMP-MAP=a=b", "X-TIMESTAMP-MAP= local : 00:01.5 , mpegts:7", "X-TIMESTAMP-MAP=MPEGTS: 7", "X-TIMESTAMP-MAP=MPEGTS:+7,MPEGTS:-8",
			"X-TIMESTAMP-MAP=MPEGTS:9223372036854775807", "X-TIMESTAMP-MAP=MPEGTS:9223372036854775808", "X-TIMESTAMP-MAP=other:1,LOCAL:01:00:00.000"}
		for _, f := range fixed {
			c.do("vtt.tsmap " + encStr(f))
			c.count("fixed")
		}
		keys := []string{"LOCAL", "MPEGTS", "local", "Mpegts", " LOCAL ", "X", ""}
		vals := []string{"00:00:00.000", "00:00:01.500", "01:02:03.004", "02:03.4", "7", "180000", "-1", "+2", "x", "", " 5", "99:59:59.999", "8589934591"}
		n := 5000
		if c.thorough {
			n = 200000
		}
		for i := 0; i < n; i++ {
			var parts []string
			for k := 1 + r.intn(3); k > 0; k-- {
				p := keys[r.intn(len(keys))]
				if r.chance(9, 10) {
					p += ":" + vals[r.intn(len(vals))]
				}
				parts = append(parts, p)
			}
			c.do("vtt.tsmap " + encStr("X-TIMESTAMP-MAP="+strings.Join(parts, ",")))
			c.count("random")
		}
		// String() of generated values parses back (checked by the driver against the model)
		for i := 0; i < n/5; i++ {
			m := astisub.WebVTTTimestampMap{Local: timeDur(r.rangeI(0, 360000000-1) * 1000000), MpegTS: r.rangeI(0, 1<<33)}
			c.do("vtt.tsmap " + encStr(m.String()))
			c.count("formatted")
		}
	}}

	// vtt.line: Line.webVTTBytes of every line of a canonical cue list -> x<bytes>
	streams["vtt.line"] = stream{exec: func(a []string) string {
		s, _ := parseCanon(a)
		var o []byte
		for _, it := range s.Items {
			for _, l := range it.Lines {
				o = append(o, astisub.VerifLineWebVTTBytes(l)...)
			}
		}
		return encBytes(o)
	}, gen: func(c *ctx) {
		r := newRng(c.seed, "vtt.line")
		for _, w := range vttLineWitnesses {
			c.do("vtt.line " + canonSubs(vttWitnessSubs(w, false)))
			c.do("vtt.line " + canonSubs(vttWitnessSubs(w, true)))
			c.count("witnesses")
		}
		n := 3000
		if c.thorough {
			n = 300000
		}
		for i := 0; i < n; i++ {
			c.do("vtt.line " + canonSubs(vttSubsOf(genVTTDoc(r, 2, false), r)))
			c.count("generated")
		}
	}}
}
