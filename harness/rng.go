package main

// splitmix64: every random choice of the harness derives from one state seeded by VERIF_SEED.
type rng struct{ s uint64 }

func newRng(seed uint64, stream string) *rng {
	r := &rng{s: seed*0x9E3779B97F4A7C15 + 0x1234567}
	for _, c := range []byte(stream) {
		r.s = r.s*1099511628211 ^ uint64(c)
		r.next()
	}
	return r
}

func (r *rng) next() uint64 {
	r.s += 0x9E3779B97F4A7C15
	z := r.s
	z = (z ^ (z >> 30)) * 0xBF58476D1CE4E5B9
	z = (z ^ (z >> 27)) * 0x94D049BB133111EB
	return z ^ (z >> 31)
}

// intn returns a value in [0,n)
func (r *rng) intn(n int) int {
	if n <= 0 {
		return 0
	}
	return int(r.next() % uint64(n))
}

// rangeI returns a value in [lo,hi]
func (r *rng) rangeI(lo, hi int64) int64 {
	if hi <= lo {
		return lo
	}
	return lo + int64(r.next()%uint64(hi-lo+1))
}

func (r *rng) bool() bool { return r.next()&1 == 1 }

// chance returns true with probability num/den
func (r *rng) chance(num, den int) bool { return r.intn(den) < num }
