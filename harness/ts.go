//go:build verif
// +build verif

package main

import (
	"bytes"
	"fmt"
	"strconv"
	"strings"
	"sync"
	"time"

	astisub "github.com/asticode/go-astisub"
)

func okErr(d time.Duration, err error) string {
	if err != nil {
		return "err"
	}
	return "ok " + strconv.FormatInt(int64(d), 10)
}

// mutateTime produces near-miss timestamp strings
func mutateTime(r *rng, s string) string {
	b := []rune(s)
	for k := r.intn(3) + 1; k > 0; k-- {
		if len(b) == 0 {
			break
		}
		i := r.intn(len(b))
		switch r.intn(9) {
		case 0:
			b = append(b[:i], b[i+1:]...)
		case 1:
			b = append(b[:i], append([]rune{[]rune(" \t :.,-+x5０ ")[r.intn(12)]}, b[i:]...)...)
		case 2:
			b[i] = []rune("0123456789:.,- ")[r.intn(15)]
		case 3:
			b = append([]rune{' '}, b...)
		case 4:
			b = append(b, ' ')
		case 5:
			b = b[:i]
		case 6:
			b = b[i:]
		case 7:
			b = append(b[:i], append([]rune(":"), b[i:]...)...)
		default:
			b = append(b[:i], append([]rune(strconv.Itoa(r.intn(100))), b[i:]...)...)
		}
	}
	return string(b)
}

func randInstant(r *rng) int64 {
	switch r.intn(6) {
	case 0:
		return r.rangeI(0, int64(100*time.Hour)-1)
	case 1:
		return r.rangeI(0, 360000-1) * int64(time.Second) // whole seconds
	case 2: // unit boundary +-1ns
		return max64(0, r.rangeI(0, 100*3600*1000-1)*int64(time.Millisecond)+r.rangeI(-1, 1))
	case 3: // k*10ms +-1ns
		return max64(0, r.rangeI(0, 100*3600*100-1)*int64(10*time.Millisecond)+r.rangeI(-1, 1))
	case 4: // special hours
		h := []int64{0, 1, 9, 10, 23, 24, 99}[r.intn(7)]
		return h*int64(time.Hour) + r.rangeI(0, int64(time.Hour)-1)
	default:
		return r.rangeI(0, int64(24*time.Hour)-1) / 1000000 * 1000000
	}
}

func max64(a, b int64) int64 {
	if a > b {
		return a
	}
	return b
}

func init() {
	fmtF := func(f string, t time.Duration) string {
		switch f {
		case "srt":
			return astisub.VerifFormatDurationSRT(t)
		case "ssa":
			return astisub.VerifFormatDurationSSA(t)
		case "vtt":
			return astisub.VerifFormatDurationWebVTT(t)
		case "ttml":
			return astisub.VerifTTMLFormatTime(t)
		}
		panic("fmt " + f)
	}
	parseF := func(f string, s string) string {
		switch f {
		case "srt":
			return okErr(astisub.VerifParseDurationSRT(s))
		case "ssa":
			return okErr(astisub.VerifParseDurationSSA(s))
		case "vtt":
			return okErr(astisub.VerifParseDurationWebVTT(s))
		}
		panic("parse " + f)
	}
	streams["ts.text"] = stream{exec: func(a []string) string {
		switch a[0] {
		case "fmt":
			return encStr(fmtF(a[1], time.Duration(atoi64(a[2]))))
		case "parse":
			return parseF(a[1], decStr(a[2]))
		case "rt": // format, parse back with the same format's reader, format again
			t := time.Duration(atoi64(a[2]))
			s := fmtF(a[1], t)
			var back string
			if a[1] == "ttml" {
				back = okErr(astisub.VerifTTMLParseTime(s, 0, 0))
			} else {
				back = parseF(a[1], s)
			}
			s2 := ""
			if strings.HasPrefix(back, "ok ") {
				s2 = fmtF(a[1], time.Duration(atoi64(back[3:])))
			}
			return encStr(s) + " " + back + " " + encStr(s2)
		case "gen": // generic parseDuration(i, sep, digits)
			return okErr(astisub.VerifParseDuration(decStr(a[3]), a[1], int(atoi64(a[2]))))
		}
		panic("ts.text op")
	}, gen: func(c *ctx) {
		r := newRng(c.seed, "ts.text")
		n := 30000
		if c.thorough {
			n = 2000000
		}
		fs := []string{"srt", "ssa", "vtt", "ttml"}
		for i := 0; i < n; i++ {
			t := randInstant(r)
			f := fs[r.intn(4)]
			c.do(fmt.Sprintf("ts.text rt %s %d", f, t))
			c.count("rt")
			if i%3 == 0 { // the same instant in every format, back to back (a segment boundary shared by two documents)
				for _, g := range fs {
					c.do(fmt.Sprintf("ts.text rt %s %d", g, t))
					c.count("rt-all-formats")
				}
			}
			if i%4 == 0 {
				pf := fs[r.intn(3)]
				s := fmtF(fs[r.intn(4)], time.Duration(t))
				switch r.intn(4) {
				case 0: // fewer fraction digits / mm:ss form
					if r.bool() {
						s = s[:len(s)-1-r.intn(2)]
					} else {
						s = s[3:]
					}
				case 1:
					s = strings.Replace(s, ",", ".", 1)
				case 2:
				default:
					s = mutateTime(r, s)
				}
				if r.chance(1, 3) {
					s = mutateTime(r, s)
				}
				c.do(fmt.Sprintf("ts.text parse %s %s", pf, encStr(s)))
				c.count("parse")
				if r.chance(1, 3) {
					sep := []string{",", ".", ":"}[r.intn(3)]
					c.do(fmt.Sprintf("ts.text gen %s %d %s", sep, 3, encStr(s)))
					c.count("gen")
				}
			}
		}
		// hour values of the property with both ends of every unit
		for _, h := range []int64{0, 1, 9, 10, 23, 24, 99} {
			for _, f := range fs {
				for _, off := range []int64{0, 1, 999999, 1000000, 9999999, 10000000, int64(time.Hour) - 1} {
					c.do(fmt.Sprintf("ts.text rt %s %d", f, h*int64(time.Hour)+off))
				}
			}
		}
	}}

	// ts.doc <format> <start end>...: the boundaries of a whole cue list through the format's writer and reader: every
	// boundary comes back truncated to the format's unit, whatever its neighbours are
	streams["ts.doc"] = stream{exec: func(a []string) string {
		s := astisub.NewSubtitles()
		for i := 1; i+1 < len(a); i += 2 {
			s.Items = append(s.Items, &astisub.Item{StartAt: time.Duration(atoi64(a[i])), EndAt: time.Duration(atoi64(a[i+1])),
				Lines: []astisub.Line{{Items: []astisub.LineItem{{Text: "x" + strconv.Itoa(i)}}}}})
		}
		if a[0] == "ssa" {
			s.Metadata = &astisub.Metadata{Title: "t"}
		}
		var b bytes.Buffer
		if err := writeRaw(a[0], s, &b); err != nil {
			return "werr"
		}
		back, err := readWith(a[0], bytes.NewReader(b.Bytes()))
		if err != nil {
			return "rerr"
		}
		var o []string
		for _, it := range back.Items {
			o = append(o, strconv.FormatInt(int64(it.StartAt), 10), strconv.FormatInt(int64(it.EndAt), 10))
		}
		return strings.Join(o, " ")
	}, gen: func(c *ctx) {
		// boundaries at the very origin: a cue that begins and / or ends at instant 0 is rendered like any other
		for _, f := range []string{"srt", "vtt", "ssa", "ttml"} {
			for _, ts := range []string{"0 0", "0 1", "0 0 0 20000000", "0 999999 1000000 1000000", "0 0 0 0", "5000000000 5000000000"} {
				c.do("ts.doc " + f + " " + ts)
			}
		}
		r := newRng(c.seed, "ts.doc")
		n := 400
		if c.thorough {
			n = 40000
		}
		for i := 0; i < n; i++ {
			f := []string{"srt", "vtt", "ssa", "ttml"}[r.intn(4)]
			unit := int64(1000000)
			if f == "ssa" {
				unit = 10000000
			}
			var ts []string
			t := r.rangeI(0, 3600*1000) * 1000000
			if r.chance(1, 4) {
				t = 0
			}
			for k := 1 + r.intn(4); k > 0; k-- {
				// a cue that ends just below a unit boundary, the next one starting just above it (or on it, or equal)
				e := (t/unit+1+r.rangeI(0, 300))*unit - r.rangeI(0, 2)*r.rangeI(1, unit-1)
				if e <= t {
					e = t + 1
				}
				if r.chance(1, 5) { // both boundaries of the cue inside one unit
					t = t/unit*unit + r.rangeI(0, unit/2)
					e = t + r.rangeI(1, unit/2-1)
				}
				if r.chance(1, 6) { // a cue of no length
					e = t
				}
				ts = append(ts, strconv.FormatInt(t, 10), strconv.FormatInt(e, 10))
				switch r.intn(4) {
				case 0:
					t = e
				case 1:
					t = (e/unit+1)*unit + r.rangeI(0, unit-1)*r.rangeI(0, 1)
				case 2:
					t = e + r.rangeI(1, unit-1)
				default:
					t = e + r.rangeI(0, 5000)*1000000
				}
			}
			c.do("ts.doc " + f + " " + strings.Join(ts, " "))
			c.count(f)
		}
	}}

	// exhaustive: every millisecond of [0, 24h) (thorough) or of a seeded 20-minute window (quick) for every text
	// format: the writer's rendering must parse back to the truncated instant, and re-render identically.
	// Checked in-process against the integer formula; the line carries the number of mismatches (model: 0).
	streams["ts.sweep"] = stream{exec: func(a []string) string {
		lo, hi := atoi64(a[1]), atoi64(a[2])
		f := a[0]
		unit := int64(time.Millisecond)
		if f == "ssa" {
			unit = int64(10 * time.Millisecond)
		}
		var bad int64
		var mu sync.Mutex
		var wg sync.WaitGroup
		const W = 16
		for w := 0; w < W; w++ {
			wg.Add(1)
			go func(w int) {
				defer wg.Done()
				var b int64
				for ms := lo + int64(w); ms < hi; ms += W {
					for _, d := range []int64{0, -1, 1} {
						t := ms*int64(time.Millisecond) + d
						if t < 0 {
							continue
						}
						s := fmtF(f, time.Duration(t))
						var back time.Duration
						var err error
						switch f {
						case "srt":
							back, err = astisub.VerifParseDurationSRT(s)
						case "ssa":
							back, err = astisub.VerifParseDurationSSA(s)
						case "vtt":
							back, err = astisub.VerifParseDurationWebVTT(s)
						case "ttml":
							back, err = astisub.VerifTTMLParseTime(s, 0, 0)
						}
						if err != nil || int64(back) != t-t%unit || fmtF(f, back) != s {
							b++
						}
					}
				}
				mu.Lock()
				bad += b
				mu.Unlock()
			}(w)
		}
		wg.Wait()
		return strconv.FormatInt(bad, 10)
	}, gen: func(c *ctx) {
		r := newRng(c.seed, "ts.sweep")
		for _, f := range []string{"srt", "ssa", "vtt", "ttml"} {
			if c.thorough {
				c.do(fmt.Sprintf("ts.sweep %s 0 86400000", f))
			} else {
				lo := r.rangeI(0, 86400000-1200000)
				c.do(fmt.Sprintf("ts.sweep %s %d %d", f, lo, lo+1200000))
				c.do(fmt.Sprintf("ts.sweep %s 0 100000", f))
			}
		}
	}}

	// the float path of formatDuration against the integer formula of the model:
	// fraction digits for every n = t mod 1e9 in [lo,hi) and both digit counts
	streams["ts.fracsweep"] = stream{exec: func(a []string) string {
		lo, hi := atoi64(a[0]), atoi64(a[1])
		var bad int64
		var mu sync.Mutex
		var wg sync.WaitGroup
		const W = 16
		for w := 0; w < W; w++ {
			wg.Add(1)
			go func(w int) {
				defer wg.Done()
				var b int64
				for n := lo + int64(w); n < hi; n += W {
					for _, k := range []int{2, 3} {
						// the real formatter: fraction digits of an instant n ns into a second
						s := astisub.VerifFormatDuration(time.Duration(n), ".", k)
						div := int64(1000000)
						if k == 2 {
							div = 10000000
						}
						v := n / div
						ok := len(s) == 9+k && s[:9] == "00:00:00."
						if ok {
							for j, p := k-1, v; j >= 0; j, p = j-1, p/10 {
								if s[9+j] != byte('0'+p%10) {
									ok = false
								}
							}
						}
						if !ok {
							b++
						}
					}
				}
				mu.Lock()
				bad += b
				mu.Unlock()
			}(w)
		}
		wg.Wait()
		return strconv.FormatInt(bad, 10)
	}, gen: func(c *ctx) {
		if c.thorough {
			c.do("ts.fracsweep 0 1000000000")
		} else {
			r := newRng(c.seed, "ts.fracsweep")
			lo := r.rangeI(0, 1000000000-5000000)
			c.do(fmt.Sprintf("ts.fracsweep %d %d", lo, lo+5000000))
			c.do("ts.fracsweep 0 2000000")
			c.do("ts.fracsweep 998000000 1000000000")
		}
	}}

	streams["ts.stl"] = stream{exec: func(a []string) string {
		fr := int(atoi64(a[1]))
		switch a[0] {
		case "fmt":
			return encStr(astisub.VerifFormatDurationSTL(time.Duration(atoi64(a[2])), fr))
		case "parse":
			return okErr(astisub.VerifParseDurationSTL(decStr(a[2]), fr))
		case "fmtb":
			b := astisub.VerifFormatDurationSTLBytes(time.Duration(atoi64(a[2])), fr)
			return fmt.Sprintf("%d,%d,%d,%d", b[0], b[1], b[2], b[3])
		case "parseb":
			var b [4]byte
			for i, f := range strings.Split(a[2], ",") {
				b[i] = byte(atoi64(f))
			}
			return strconv.FormatInt(int64(astisub.VerifParseDurationSTLBytes(b[:], fr)), 10)
		case "rt": // format -> parse -> format (text and binary)
			t := time.Duration(atoi64(a[2]))
			s := astisub.VerifFormatDurationSTL(t, fr)
			d, err := astisub.VerifParseDurationSTL(s, fr)
			s2 := ""
			if err == nil {
				s2 = astisub.VerifFormatDurationSTL(d, fr)
			}
			b := astisub.VerifFormatDurationSTLBytes(t, fr)
			db := astisub.VerifParseDurationSTLBytes(b, fr)
			b2 := astisub.VerifFormatDurationSTLBytes(db, fr)
			return fmt.Sprintf("%s %s %s %d,%d,%d,%d %d %d,%d,%d,%d", encStr(s), okErr(d, err), encStr(s2), b[0], b[1], b[2], b[3], int64(db), b2[0], b2[1], b2[2], b2[3])
		}
		panic("ts.stl op")
	}, gen: func(c *ctx) {
		r := newRng(c.seed, "ts.stl")
		// every frame boundary (+-1ns) of one seeded hour at both rates in quick, of 24h in thorough (sampled stride)
		for _, fr := range []int64{25, 30} {
			hours := []int64{r.rangeI(0, 23)}
			if c.thorough {
				hours = nil
				for h := int64(0); h < 24; h++ {
					hours = append(hours, h)
				}
			}
			for _, h := range hours {
				step := int64(7)
				if c.thorough {
					step = 1
				}
				for s := int64(0); s < 3600; s += step {
					for f := int64(0); f < fr; f++ {
						base := h*int64(time.Hour) + s*int64(time.Second) + (f*1000000000+fr-1)/fr
						for _, d := range []int64{-1, 0, 1} {
							if base+d >= 0 {
								c.do(fmt.Sprintf("ts.stl rt %d %d", fr, base+d))
							}
						}
					}
				}
			}
			c.count("frame-boundaries")
		}
		n := 20000
		if c.thorough {
			n = 1000000
		}
		for i := 0; i < n; i++ {
			fr := []int64{25, 30}[r.intn(2)]
			t := r.rangeI(0, int64(24*time.Hour)-1)
			c.do(fmt.Sprintf("ts.stl rt %d %d", fr, t))
			if i%5 == 0 {
				s := astisub.VerifFormatDurationSTL(time.Duration(t), int(fr))
				if r.bool() {
					b := []byte(s)
					b[r.intn(8)] = "0123456789 -+x"[r.intn(14)]
					s = string(b)
				}
				c.do(fmt.Sprintf("ts.stl parse %d %s", fr, encStr(s)))
				c.do(fmt.Sprintf("ts.stl parseb %d %d,%d,%d,%d", fr, r.intn(256), r.intn(256), r.intn(256), r.intn(256)))
			}
			c.count("random")
		}
	}}
}
