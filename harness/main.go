package main

import (
	"bufio"
	"flag"
	"fmt"
	"io/ioutil"
	"log"
	"os"
	"sort"
	"strings"
	"sync/atomic"
)

// a stream generates cases (gen) and runs the implementation on one case (exec).
// gen only builds the left-hand side of a protocol line; exec always works from the parsed
// line, so every emitted case can be replayed from its text alone.
type stream struct {
	gen  func(c *ctx)
	exec func(args []string) string
}

type ctx struct {
	w        *bufio.Writer
	seed     uint64
	thorough bool
	name     string
	n        int
	stats    map[string]int
	def      stream
	statsOut string
}

// stuck counts the calls of the library that did not return in time: each keeps a goroutine (and a core) busy
// for good, so after a few of them the stream is cut short — the cases written so far are judged, the stuck ones
// carry an answer no model gives
var stuck int32

// do executes one case on the implementation and emits `lhs | output`
func (c *ctx) do(lhs string) {
	out := execLine(c.def, lhs)
	c.emit(lhs + " | " + out)
	if atomic.LoadInt32(&stuck) >= 3 {
		c.finish()
		os.Exit(0)
	}
}

func (c *ctx) finish() {
	if cliDir != "" {
		os.RemoveAll(cliDir)
	}
	c.w.Flush()
	if c.statsOut != "" {
		sf, _ := os.Create(c.statsOut)
		var ks []string
		for k := range c.stats {
			ks = append(ks, k)
		}
		sort.Strings(ks)
		fmt.Fprintf(sf, "cases %d\n", c.n)
		for _, k := range ks {
			fmt.Fprintf(sf, "%s %d\n", k, c.stats[k])
		}
		sf.Close()
	}
}

func execLine(def stream, lhs string) string {
	toks := strings.Split(lhs, " ")
	refTables.Clear()
	setFaultDisguise(lhs)
	return guard(func() string { return def.exec(toks[1:]) })
}

func (c *ctx) emit(line string) {
	c.w.WriteString(line)
	c.w.WriteByte('\n')
	c.n++
}

func (c *ctx) count(k string) { c.stats[k]++ }

var streams = map[string]stream{}

var _ = strings.Split

func main() {
	log.SetOutput(ioutil.Discard)
	seed := flag.Uint64("seed", 1, "seed")
	tier := flag.String("tier", "quick", "quick|thorough")
	out := flag.String("out", "", "output file")
	statsOut := flag.String("stats", "", "stats file")
	flag.Parse()
	if flag.NArg() < 1 {
		var names []string
		for k := range streams {
			names = append(names, k)
		}
		sort.Strings(names)
		fmt.Println(names)
		os.Exit(2)
	}
	name := flag.Arg(0)
	if name == "canoncheck" {
		os.Exit(canonCheck())
	}
	if name == "replay" {
		// replay: read protocol lines (with or without `| output`) and re-execute them
		sc := bufio.NewScanner(os.Stdin)
		sc.Buffer(make([]byte, 1<<20), 1<<28)
		for sc.Scan() {
			line := strings.TrimSpace(sc.Text())
			if line == "" {
				continue
			}
			if i := strings.Index(line, " | "); i >= 0 {
				line = line[:i]
			} else if strings.HasSuffix(line, " |") {
				line = line[:len(line)-2]
			}
			op := strings.SplitN(line, " ", 2)[0]
			def, ok := streams[op]
			if !ok {
				fmt.Println(line + " | UNKNOWN-OP")
				continue
			}
			fmt.Println(line + " | " + execLine(def, line))
		}
		if cliDir != "" {
			os.RemoveAll(cliDir)
		}
		return
	}
	st, ok := streams[name]
	if !ok {
		fmt.Fprintln(os.Stderr, "unknown stream", name)
		os.Exit(2)
	}
	f := os.Stdout
	if *out != "" {
		var err error
		if f, err = os.Create(*out); err != nil {
			fmt.Fprintln(os.Stderr, err)
			os.Exit(2)
		}
		defer f.Close()
	}
	c := &ctx{w: bufio.NewWriterSize(f, 1<<20), seed: *seed, thorough: *tier == "thorough", name: name, stats: map[string]int{}, def: st, statsOut: *statsOut}
	st.gen(c)
	c.finish()
}
