package main

import (
	"bytes"
	"fmt"
	"io/ioutil"
	"os"
	"os/exec"
	"path/filepath"
	"strconv"
	"strings"
	"sync"
	"time"

	astisub "github.com/asticode/go-astisub"
)

// C07: any-to-any conversion through the file API (and the CLI binary), with operations in between.

var convFormats = []string{"srt", "ssa", "ass", "stl", "ttml", "vtt", "ts"}
var convDst = []string{"srt", "ssa", "ass", "stl", "ttml", "vtt"}

// plain words keep the text representable in every destination
// the last ones spell an entity: they are plain text, to be written escaped and read back as they are
var plainWords = []string{"Hello", "world", "How are you", "fine", "42", "Yes", "No", "subtitle", "line two", "ok", "a & b", "1 < 2", "&lt;", "x&nbsp;y", "&amp;"}

// mergeArgCues: the second document of a merge: two or three plain cues; for some seeds it lies far after the first
// document and stores its own cues latest first (a file need not be chronological)
func mergeArgCues(seed uint64) []srtCue {
	r := newRng(seed, "mergecues")
	cues := plainCues(r, 2+int(seed%2))
	if seed%3 == 0 {
		for i := range cues {
			cues[i].start += 3600000
			cues[i].end += 3600000
		}
		for i, j := 0, len(cues)-1; i < j; i, j = i+1, j-1 {
			cues[i], cues[j] = cues[j], cues[i]
		}
	}
	return cues
}

func plainCues(r *rng, n int) []srtCue {
	var cues []srtCue
	var t int64
	for i := 0; i < n; i++ {
		if t != 0 || !r.chance(1, 6) { // often a first cue at the very start
			t += r.rangeI(0, 4000)
		}
		e := t + r.rangeI(40, 6000)
		c := srtCue{start: t, end: e}
		for l := 1 + r.intn(2); l > 0; l-- {
			c.lines = append(c.lines, []srtRun{{text: plainWords[r.intn(len(plainWords))]}})
		}
		cues = append(cues, c)
		t = e
	}
	return cues
}

// genSourceDoc builds a document of the given format with the generators of C01..C06
func genSourceDoc(r *rng, f string) ([]byte, int) {
	page := 0
	switch f {
	case "srt":
		if r.bool() {
			return renderSRT(r, plainCues(r, 1+r.intn(4)), r.bool()), 0
		}
		return renderSRT(r, genSRTCues(r, 4), r.bool()), 0
	case "vtt":
		return renderVTT(r, genVTTDoc(r, 4, false), r.bool(), vttOpts{}), 0
	case "ssa", "ass":
		return renderSSA(r, genSSADoc(r), r.bool()), 0
	case "stl":
		// well-formed files: the repository's samples, or what the library writes for a plain list with
		// open-subtitling metadata (generated STL ground truths with arbitrary timecodes belong to C05)
		switch r.intn(3) {
		case 0:
			b, _ := ioutil.ReadFile("/repo/testdata/example-in.stl")
			return b, 0
		case 1:
			b, _ := ioutil.ReadFile("/repo/testdata/example-opn-in.stl")
			return b, 0
		}
		s, _ := astisub.ReadFromSRT(bytes.NewReader(renderSRT(r, plainCues(r, 1+r.intn(4)), true)))
		s.Metadata = &astisub.Metadata{Framerate: []int{25, 30}[r.intn(2)], STLDisplayStandardCode: "0", Title: "conv", Language: astisub.LanguageEnglish}
		if r.bool() { // a programme that does not start at zero (whole seconds: on a frame boundary at both rates)
			s.Metadata.STLTimecodeStartOfProgramme = time.Duration([]int64{1, 10, 3600, 36000}[r.intn(4)]) * time.Second
		}
		var b bytes.Buffer
		if err := s.WriteToSTL(&b); err != nil {
			panic(err)
		}
		return b.Bytes(), 0
	case "ttml":
		return genTTMLDoc(r), 0
	case "ts":
		tc := genTTCase(r, r.intn(2))
		o := ttTSOpts{pid: uint16(0x100 + r.intn(0xe00)), video: r.bool(), period: 5}
		page = tc.pageOpt()
		return buildTS(r, tc, o), page
	}
	panic("format " + f)
}

// genSTLDoc is set by stl_hooks.go (needs the table hook)
var genSTLDoc func(r *rng) []byte

func applyOps(s *astisub.Subtitles, ops []string) (args []string) {
	for _, op := range ops {
		p := strings.Split(op, ":")
		switch p[0] {
		case "add":
			s.Add(time.Duration(atoi64(p[1])))
		case "frag":
			s.Fragment(time.Duration(atoi64(p[1])))
		case "unfrag":
			s.Unfragment()
		case "order":
			s.Order()
		case "opt":
			s.Optimize()
		case "lin":
			s.ApplyLinearCorrection(time.Duration(atoi64(p[1])), time.Duration(atoi64(p[2])), time.Duration(atoi64(p[3])), time.Duration(atoi64(p[4])))
		case "merge":
			o, _ := astisub.ReadFromSRT(bytes.NewReader(renderSRT(newRng(uint64(atoi64(p[1])), "merge"), mergeArgCues(uint64(atoi64(p[1]))), true)))
			args = append(args, "ARG", canonSubs(o))
			s.Merge(o)
		case "-":
		default:
			panic("op " + op)
		}
	}
	return args
}

// fileStem: file names with more dots than the one before the extension (the codec is chosen by the
// extension, i.e. by what follows the last dot, whatever the rest of the name looks like)
func fileStem(base string, k int) string {
	switch (k / 3) % 4 {
	case 1:
		return base + ".v1.2"
	case 2:
		return "Show.S01E02." + base + ".en"
	case 3:
		return base + ".ttml.old"
	}
	return base
}

func caseVariant(ext string, k int) string {
	switch k % 3 {
	case 1:
		return strings.ToUpper(ext)
	case 2:
		return strings.ToUpper(ext[:1]) + ext[1:]
	}
	return ext
}

var cliOnce sync.Once
var cliPath string
var cliDir string // removed when the process ends (main)

// cliBinary builds the command-line tool from /repo's working tree once per process
func cliBinary() string {
	cliOnce.Do(func() {
		dir, _ := ioutil.TempDir("", "verif-cli-")
		cliDir = dir
		out := filepath.Join(dir, "astisub")
		cmd := exec.Command("go", "build", "-o", out, "./astisub")
		cmd.Dir = "/repo"
		cmd.Env = append(os.Environ(), "GOFLAGS=-mod=mod", "GOPROXY=off", "GOSUMDB=off", "GOTOOLCHAIN=local")
		if b, err := cmd.CombinedOutput(); err != nil {
			cliPath = "BUILD-FAILED " + string(b)
			return
		}
		cliPath = out
	})
	return cliPath
}

func cliArgs(ops []string, in, in2, out string, page int) (args []string, ok bool) {
	// the CLI applies exactly one operation
	if len(ops) > 1 {
		return nil, false
	}
	op := "-"
	if len(ops) == 1 {
		op = ops[0]
	}
	p := strings.Split(op, ":")
	dur := func(s string) string { return time.Duration(atoi64(s)).String() }
	switch p[0] {
	case "-":
		args = []string{"convert"}
	case "add":
		args = []string{"sync", "-s", dur(p[1])}
	case "frag":
		args = []string{"fragment", "-f", dur(p[1])}
	case "unfrag":
		args = []string{"unfragment"}
	case "opt":
		args = []string{"optimize"}
	case "lin":
		args = []string{"apply-linear-correction", "-a1", dur(p[1]), "-d1", dur(p[2]), "-a2", dur(p[3]), "-d2", dur(p[4])}
	case "merge":
		args = []string{"merge", "-i", in, "-i", in2, "-o", out}
		if page != 0 {
			args = append(args, "-p", fmt.Sprint(page))
		}
		return args, true
	default:
		return nil, false
	}
	args = append(args, "-i", in, "-o", out)
	if page != 0 {
		args = append(args, "-p", fmt.Sprint(page))
	}
	return args, true
}

func srtTime(ms int64) string {
	return fmt.Sprintf("%02d:%02d:%02d,%03d", ms/3600000, ms/60000%60, ms/1000%60, ms%1000)
}

func init() {
	// conv.pair <src> <dst> <casevariant> <page> <ops,comma separated> x<doc>
	// answer: SRC <canonical subs read from the source> OPS <after the operations> BACK <re-read destination> [CLI <re-read destination written by the CLI>]
	streams["conv.pair"] = stream{exec: func(a []string) string {
		src, dst, cv, page := a[0], a[1], int(atoi64(a[2])), int(atoi64(a[3]))
		ops := strings.Split(a[4], ",")
		doc := decBytes(a[5])
		dir, _ := ioutil.TempDir("", "verif-conv-")
		defer os.RemoveAll(dir)
		in := filepath.Join(dir, fileStem("in", cv)+"."+caseVariant(src, cv))
		ioutil.WriteFile(in, doc, 0644)
		s, err := astisub.Open(astisub.Options{Filename: in, Teletext: astisub.TeletextOptions{Page: page}})
		if err != nil {
			// a document the format's reader accepts must be accepted through its file name as well
			if _, derr := readAny(src, doc, page); derr == nil {
				return "OPENERR READABLE"
			}
			return "OPENERR"
		}
		o := []string{"SRC", canonSubs(s)}
		o = append(o, applyOps(s, ops)...)
		o = append(o, "OPS", canonSubs(s))
		out := filepath.Join(dir, fileStem("out", cv)+"."+caseVariant(dst, cv+1))
		if err := s.Write(out); err != nil {
			if err == astisub.ErrNoSubtitlesToWrite {
				return strings.Join(append(o, "NOSUBS"), " ")
			}
			return strings.Join(append(o, "WRITEERR"), " ")
		}
		// the conversion does not change the cue list: writing the destination a second time gives the same file
		first, _ := ioutil.ReadFile(out)
		if err := s.Write(out); err != nil {
			return strings.Join(append(o, "WRITEERR"), " ")
		}
		if second, _ := ioutil.ReadFile(out); !bytes.Equal(first, second) {
			return strings.Join(append(o, "REWRITE-DIFFERS"), " ")
		}
		back, err := astisub.OpenFile(out)
		if err != nil {
			return strings.Join(append(o, "REOPENERR"), " ")
		}
		o = append(o, "BACK", canonSubs(back))
		// the same through the command-line tool
		if cli := cliBinary(); !strings.HasPrefix(cli, "BUILD-FAILED") {
			in2 := filepath.Join(dir, "second.srt")
			if len(ops) == 1 && strings.HasPrefix(ops[0], "merge:") {
				seed := uint64(atoi64(strings.Split(ops[0], ":")[1]))
				ioutil.WriteFile(in2, renderSRT(newRng(seed, "merge"), mergeArgCues(seed), true), 0644)
			}
			out2 := filepath.Join(dir, fileStem("cli", cv)+"."+caseVariant(dst, cv+1))
			if args, ok := cliArgs(ops, in, in2, out2, page); ok {
				cmd := exec.Command(cli, args...)
				if err := cmd.Run(); err != nil {
					o = append(o, "CLI", "EXIT")
				} else if b2, err := astisub.OpenFile(out2); err != nil {
					o = append(o, "CLI", "REOPENERR")
				} else {
					o = append(o, "CLI", canonSubs(b2))
				}
			}
		} else {
			o = append(o, "CLI", "NOBINARY")
		}
		return strings.Join(o, " ")
	}, gen: func(c *ctx) {
		r := newRng(c.seed, "conv.pair")
		per := 15
		if c.thorough {
			per = 400
		}
		for _, src := range convFormats {
			for _, dst := range convDst {
				for i := 0; i < per; i++ {
					doc, page := genSourceDoc(r, src)
					// keep the number of fragments small: the period is chosen from the document's own time span
					var span int64 = 10000000000
					if rs, err := readAny(src, doc, page); err == nil {
						for _, it := range rs.Items {
							if int64(it.EndAt) > span {
								span = int64(it.EndAt)
							}
						}
					}
					var ops []string
					nops := []int{0, 0, 1, 1, 2, 3, 4}[r.intn(7)]
					for k := 0; k < nops; k++ {
						switch r.intn(8) {
						case 0:
							ops = append(ops, fmt.Sprintf("add:%d", r.rangeI(-3000, 5000)*1000000))
						case 1:
							ops = append(ops, fmt.Sprintf("frag:%d", (span/int64(20+r.intn(30))/1000000+1)*1000000))
						case 2:
							ops = append(ops, "unfrag")
						case 3:
							ops = append(ops, "order")
						case 4:
							ops = append(ops, "opt")
						case 5:
							ops = append(ops, fmt.Sprintf("merge:%d", r.intn(1000)))
						case 6:
							a1 := r.rangeI(1, 10) * 1000000000
							a2 := a1 + r.rangeI(10, 100)*1000000000
							ops = append(ops, fmt.Sprintf("lin:%d:%d:%d:%d", a1, a1+r.rangeI(0, 2)*1000000000, a2, a2+r.rangeI(0, 5)*1000000000))
						default:
							ops = append(ops, fmt.Sprintf("add:%d", r.rangeI(0, 2000)*1000000))
						}
					}
					if len(ops) == 0 {
						ops = []string{"-"}
					}
					c.do(fmt.Sprintf("conv.pair %s %s %d %d %s %s", src, dst, r.intn(12), page, strings.Join(ops, ","), encBytes(doc)))
					c.count(src + "->" + dst)
				}
			}
		}
		// one operation through the command-line tool on timelines where operations interact: identical texts on
		// touching, overlapping and nested cues (fragment must cut, not merge; unfragment must merge, not cut; sync ...)
		nrep := 12
		if c.thorough {
			nrep = 300
		}
		for i := 0; i < nrep; i++ {
			var b bytes.Buffer
			t := r.rangeI(0, 3) * 1000
			texts := []string{"la la", "la la", "b"}
			for k := 0; k < 2+r.intn(5); k++ {
				e := t + r.rangeI(1, 4)*1000
				fmt.Fprintf(&b, "%d\n%s --> %s\n%s\n\n", k+1, srtTime(t), srtTime(e), texts[r.intn(len(texts))])
				if r.chance(1, 4) { // nested
					fmt.Fprintf(&b, "%d\n%s --> %s\n%s\n\n", k+50, srtTime(t), srtTime(t+(e-t)/2), texts[r.intn(len(texts))])
				}
				switch r.intn(3) {
				case 0:
					t = e // touching
				case 1:
					t = e - (e-t)/2 // overlapping
				default:
					t = e + r.rangeI(0, 3)*1000
				}
			}
			op := []string{fmt.Sprintf("frag:%d", r.rangeI(1, 5)*1000000000), "unfrag", fmt.Sprintf("add:%d", -r.rangeI(0, 4)*1000000000), "order"}[r.intn(4)]
			dst := []string{"srt", "vtt"}[r.intn(2)]
			c.do(fmt.Sprintf("conv.pair srt %s %d 0 %s %s", dst, r.intn(12), op, encBytes(b.Bytes())))
			c.count("cli-interaction")
		}
		// a source whose metadata carries a frame rate the destination has no code for (TTML ttp:frameRate 24, 50, 60 to
		// EBU STL, which knows 25 and 30): boundaries off the 40 ms grid, so that the two rates count frames differently
		for _, fr := range []int{24, 50, 60, 30, 25} {
			for k := 0; k < 2; k++ {
				var b strings.Builder
				fmt.Fprintf(&b, `<tt xmlns="http://www.w3.org/ns/ttml" xmlns:ttp="http://www.w3.org/ns/ttml#parameter" ttp:frameRate="%d"><body><div>`, fr)
				t := r.rangeI(0, 50) * 20
				for i := 0; i < 3; i++ {
					e := t + 40 + r.rangeI(0, 200)*20
					fmt.Fprintf(&b, `<p begin="%d.%03ds" end="%d.%03ds">%s</p>`, t/1000, t%1000, e/1000, e%1000, plainWords[r.intn(10)])
					t = e + r.rangeI(0, 100)*20
				}
				b.WriteString(`</div></body></tt>`)
				for _, dst := range []string{"stl", "srt"} {
					c.do(fmt.Sprintf("conv.pair ttml %s %d 0 - %s", dst, r.intn(12), encBytes([]byte(b.String()))))
					c.count("frame-rates")
				}
			}
		}
		// inheritance chains of styles (and a region hanging on one) through optimize, then every destination
		for depth := 2; depth <= 5; depth++ {
			var b bytes.Buffer
			b.WriteString(`<tt xmlns="http://www.w3.org/ns/ttml" xmlns:tts="http://www.w3.org/ns/ttml#styling"><head><styling>`)
			for i := 0; i < depth; i++ {
				parent := ""
				if i > 0 {
					parent = fmt.Sprintf(` style="c%d"`, i-1)
				}
				fmt.Fprintf(&b, `<style xml:id="c%d"%s tts:color="#0000%02x"/>`, i, parent, i)
			}
			b.WriteString(`<style xml:id="unused" tts:color="red"/></styling><layout>`)
			fmt.Fprintf(&b, `<region xml:id="r" style="c%d"/></layout></head><body><div>`, depth-1)
			fmt.Fprintf(&b, `<p begin="00:00:01.000" end="00:00:02.000" style="c%d"><span>chain</span></p>`, depth-1)
			b.WriteString(`<p begin="00:00:03.000" end="00:00:04.000" region="r"><span>region</span></p></div></body></tt>`)
			for _, dst := range convDst {
				c.do(fmt.Sprintf("conv.pair ttml %s %d 0 opt %s", dst, r.intn(12), encBytes(b.Bytes())))
				c.count("style-chains")
			}
		}
	}}

	// ops.cli <frag|unfrag|add> <param ns> <items>: one operation through the command-line tool on a SubRip file
	streams["ops.cli"] = stream{exec: func(a []string) string {
		cli := cliBinary()
		if strings.HasPrefix(cli, "BUILD-FAILED") {
			return "NOBINARY"
		}
		xs, _ := decMItems(a[2:])
		dir, _ := ioutil.TempDir("", "verif-opscli-")
		defer os.RemoveAll(dir)
		var b bytes.Buffer
		for i, x := range xs {
			var ls []string
			for _, l := range x.lines {
				ls = append(ls, strings.Join(l, ""))
			}
			fmt.Fprintf(&b, "%d\n%s --> %s\n%s\n\n", i+1, srtTime(x.start/1000000), srtTime(x.end/1000000), strings.Join(ls, "\n"))
		}
		in, out := filepath.Join(dir, "in.srt"), filepath.Join(dir, "out.srt")
		ioutil.WriteFile(in, b.Bytes(), 0644)
		args := []string{map[string]string{"frag": "fragment", "unfrag": "unfragment", "add": "sync"}[a[0]]}
		switch a[0] {
		case "frag":
			args = append(args, "-f", time.Duration(atoi64(a[1])).String())
		case "add":
			args = append(args, "-s", time.Duration(atoi64(a[1])).String())
		}
		args = append(args, "-i", in, "-o", out)
		if err := exec.Command(cli, args...).Run(); err != nil {
			return "EXIT"
		}
		back, err := astisub.OpenFile(out)
		if err != nil {
			return "REOPENERR"
		}
		o := []string{strconv.Itoa(len(back.Items))}
		for _, it := range back.Items {
			var ls []string
			for _, l := range it.Lines {
				ls = append(ls, l.String())
			}
			o = append(o, fmt.Sprintf("%d,%d,%s", int64(it.StartAt), int64(it.EndAt), encStr(strings.Join(ls, "\n"))))
		}
		return strings.Join(o, " ")
	}, gen: func(c *ctx) {
		r := newRng(c.seed, "ops.cli")
		n := 40
		if c.thorough {
			n = 1500
		}
		texts := [][][]string{{{"la la"}}, {{"la la"}}, {{"b"}}, {{"c"}, {"d e"}}}
		for i := 0; i < n; i++ {
			var xs []mItem
			t := r.rangeI(0, 3) * 1000
			for k := 0; k < 1+r.intn(6); k++ {
				e := t + r.rangeI(1, 4)*1000
				xs = append(xs, mItem{uid: k + 1, start: t * 1000000, end: e * 1000000, lines: texts[r.intn(len(texts))]})
				switch r.intn(3) {
				case 0:
					t = e
				case 1:
					t = e - (e-t)/2
				default:
					t = e + r.rangeI(0, 3)*1000
				}
			}
			kind := []string{"frag", "unfrag", "add"}[r.intn(3)]
			par := r.rangeI(1, 5) * 1000000000
			if kind == "add" {
				par = r.rangeI(-6, 6) * 1000000000
				if par == 0 {
					par = 1000000000
				}
			}
			c.do(fmt.Sprintf("ops.cli %s %d %s", kind, par, encMItems(xs)))
			c.count(kind)
		}
	}}

	// ops.seq <op,op,...> <spare> <items>: a history of operations on one list, operations repeated (nothing is
	// remembered between calls)
	streams["ops.seq"] = stream{exec: func(a []string) string {
		xs, _ := decMItems(a[2:])
		s, ids := buildSubs(xs, int(atoi64(a[1])))
		for _, op := range strings.Split(a[0], ",") {
			p := strings.Split(op, ":")
			if p[0] == "force" {
				s.ForceDuration(time.Duration(atoi64(p[1])), p[2] == "1")
				continue
			}
			if p[0] == "selfmerge" {
				s.Merge(s) // every cue of the argument is added, also when the receiver already holds it
				continue
			}
			if p[0] == "swap" {
				// the caller re-times cues by hand between two calls (the fields are public): the first and the last
				// cue exchange their times, the number of cues stays
				if n := len(s.Items); n > 1 {
					a, b := s.Items[0], s.Items[n-1]
					a.StartAt, a.EndAt, b.StartAt, b.EndAt = b.StartAt, b.EndAt, a.StartAt, a.EndAt
				}
				continue
			}
			applyOps(s, []string{op})
		}
		return encMItems(observe(s.Items, ids))
	}, gen: func(c *ctx) {
		r := newRng(c.seed, "ops.seq")
		n := 6000
		if c.thorough {
			n = 300000
		}
		for i := 0; i < n; i++ {
			xs := randList(r, 6, true)
			for j := range xs {
				xs[j].start = r.rangeI(0, 20) * int64(time.Second)
				xs[j].end = xs[j].start + r.rangeI(0, 8)*int64(time.Second)
			}
			sortByStart(xs)
			f := r.rangeI(1, 5) * int64(time.Second)
			d := r.rangeI(-6, 6) * int64(time.Second)
			pool := []string{fmt.Sprintf("add:%d", d), fmt.Sprintf("add:%d", -d), fmt.Sprintf("frag:%d", f), fmt.Sprintf("frag:%d", 2*f), "unfrag", "order",
				fmt.Sprintf("force:%d:%d", r.rangeI(1, 30)*int64(time.Second), r.intn(2)), "lin:1000000000:2000000000:5000000000:8000000000",
				// the same reference spans as the correction above, other reference points
				"lin:3000000000:1000000000:7000000000:7000000000", "swap", "swap"}
			var ops []string
			for k := 2 + r.intn(3); k > 0; k-- {
				ops = append(ops, pool[r.intn(len(pool))])
			}
			if r.chance(1, 3) { // the same operation twice in a row
				ops = append(ops, ops[len(ops)-1])
			}
			if r.chance(1, 8) {
				// a list merged into itself holds every cue twice (the same objects: only as the last step, the model's
				// lists do not share cells)
				ops = append(ops, "selfmerge")
			}
			c.do(fmt.Sprintf("ops.seq %s %d %s", strings.Join(ops, ","), r.intn(3), encMItems(xs)))
			c.count("histories")
		}
	}}

	// conv.kf: same execution as conv.pair, judged with the strict text clause for every destination; generates
	// nothing, only replays the known-finding witness (destination STL under a teletext display standard)
	streams["conv.kf"] = stream{exec: streams["conv.pair"].exec, gen: func(c *ctx) {}}

	// conv.cli: flag validation of the command-line tool (exit status only)
	streams["conv.cli"] = stream{exec: func(a []string) string {
		cli := cliBinary()
		if strings.HasPrefix(cli, "BUILD-FAILED") {
			return "NOBINARY"
		}
		dir, _ := ioutil.TempDir("", "verif-cli-")
		defer os.RemoveAll(dir)
		in := filepath.Join(dir, "in.srt")
		ioutil.WriteFile(in, []byte("1\n00:00:01,000 --> 00:00:02,000\nhello\n"), 0644)
		var args []string
		outPath := filepath.Join(dir, "out.vtt")
		for _, t := range a {
			switch t {
			case "IN":
				args = append(args, in)
			case "IN2":
				in2 := filepath.Join(dir, "in2.srt")
				ioutil.WriteFile(in2, []byte("1\n00:00:03,000 --> 00:00:04,000\nworld\n"), 0644)
				args = append(args, in2)
			case "OUT":
				args = append(args, filepath.Join(dir, "out.vtt"))
			case "OUTBAD":
				outPath = filepath.Join(dir, "out.xyz")
				args = append(args, outPath)
			case "MISSING":
				args = append(args, filepath.Join(dir, "missing.srt"))
			default:
				args = append(args, t)
			}
		}
		err := exec.Command(cli, args...).Run()
		// "wrote" = the destination named on the command line exists afterwards (Write creates it first)
		_, serr := os.Stat(outPath)
		return fmt.Sprintf("exit-ok=%v wrote=%v", err == nil, serr == nil)
	}, gen: func(c *ctx) {
		for _, l := range []string{
			"convert -i IN -o OUT", "convert -i IN", "convert -o OUT", "convert -i MISSING -o OUT", "convert -i IN -o OUTBAD",
			"sync -i IN -o OUT -s 1s", "sync -i IN -o OUT -s 0s", "sync -i IN -o OUT", "sync -i IN -o OUT -s -500ms",
			"fragment -i IN -o OUT -f 2s", "fragment -i IN -o OUT -f 0s", "fragment -i IN -o OUT -f -1s", "fragment -i IN -o OUT",
			"unfragment -i IN -o OUT", "optimize -i IN -o OUT", "merge -i IN -i IN2 -o OUT", "merge -i IN -o OUT",
			"apply-linear-correction -i IN -o OUT -a1 1s -d1 2s -a2 5s -d2 7s", "apply-linear-correction -i IN -o OUT -a1 0s -d1 2s -a2 5s -d2 7s",
			"apply-linear-correction -i IN -o OUT -a1 1s -d1 2s -a2 5s", "bogus -i IN -o OUT", "-i IN -o OUT",
			// the whole run (Model/CLIRun): a shift that leaves no cue ends in the nothing-to-write error, one that
			// clamps the start still writes; the second input is opened only by merge
			"sync -i IN -o OUT -s -2s", "sync -i IN -o OUT -s -1500ms", "sync -i IN -o OUT -s -3s",
			"merge -i IN -i MISSING -o OUT", "merge -i MISSING -i IN2 -o OUT", "convert -i IN -i MISSING -o OUT",
			"bogus -i MISSING -o OUT", "fragment -i IN -i MISSING -o OUT -f 300ms", "unfragment -i IN -o OUTBAD",
		} {
			c.do("conv.cli " + l)
		}
	}}
}

func readAny(f string, doc []byte, page int) (s *astisub.Subtitles, err error) {
	defer func() {
		if rec := recover(); rec != nil {
			s, err = nil, fmt.Errorf("PANIC: %v", rec)
		}
	}()
	if f == "ts" {
		return astisub.ReadFromTeletext(bytes.NewReader(doc), astisub.TeletextOptions{Page: page})
	}
	if f == "ass" {
		f = "ssa"
	}
	return readWith(f, bytes.NewReader(doc))
}
