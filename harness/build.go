package main

import (
	"fmt"
	"math"
	"reflect"
	"strconv"
	"strings"
	"time"

	astisub "github.com/asticode/go-astisub"
)

// Inverse of canon.go: build a real *astisub.Subtitles from the canonical token form.

type tokReader struct {
	t []string
	i int
}

func (r *tokReader) next() string {
	if r.i >= len(r.t) {
		panic("canonical subs: unexpected end")
	}
	s := r.t[r.i]
	r.i++
	return s
}
func (r *tokReader) int() int { return int(atoi64(r.next())) }

func setField(f reflect.Value, val string) {
	switch f.Kind() {
	case reflect.String:
		f.SetString(val)
	case reflect.Bool:
		f.SetBool(val == "true")
	case reflect.Int, reflect.Int64:
		f.SetInt(atoi64(val))
	case reflect.Uint8:
		f.SetUint(uint64(atoi64(val)))
	case reflect.Slice:
		switch f.Interface().(type) {
		case []string:
			f.Set(reflect.ValueOf(strings.Split(val, "\n")))
		case []astisub.WebVTTTag:
			var tags []astisub.WebVTTTag
			for _, t := range strings.Split(val, "|") {
				var tag astisub.WebVTTTag
				head := t
				if i := strings.Index(t, " "); i >= 0 {
					head, tag.Annotation = t[:i], t[i+1:]
				}
				parts := strings.Split(head, ".")
				tag.Name = parts[0]
				if len(parts) > 1 {
					tag.Classes = parts[1:]
				}
				tags = append(tags, tag)
			}
			f.Set(reflect.ValueOf(tags))
		default:
			panic("setField slice " + f.Type().String())
		}
	case reflect.Ptr:
		switch f.Interface().(type) {
		case *astisub.Color:
			v, err := strconv.ParseUint(val, 16, 32)
			if err != nil {
				panic(err)
			}
			f.Set(reflect.ValueOf(&astisub.Color{Alpha: uint8(v >> 24), Blue: uint8(v >> 16), Green: uint8(v >> 8), Red: uint8(v)}))
		case *astisub.STLPosition:
			p := strings.Split(val, ",")
			f.Set(reflect.ValueOf(&astisub.STLPosition{VerticalPosition: int(atoi64(p[0])), MaxRows: int(atoi64(p[1])), Rows: int(atoi64(p[2]))}))
		case *time.Time:
			t, err := time.Parse("060102", val)
			if err != nil {
				panic(err)
			}
			if val == "010101" {
				// what the zero time prints as: a pointer to the zero time.Time is a supplied date too (ReadFromSTL
				// produces it for blank date fields)
				t = time.Time{}
			}
			f.Set(reflect.ValueOf(&t))
		case *astisub.WebVTTTimestampMap:
			p := strings.Split(val, ",")
			f.Set(reflect.ValueOf(&astisub.WebVTTTimestampMap{Local: time.Duration(atoi64(p[0])), MpegTS: atoi64(p[1])}))
		default:
			e := reflect.New(f.Type().Elem())
			switch e.Elem().Kind() {
			case reflect.Float64:
				b, err := strconv.ParseUint(strings.TrimPrefix(val, "f"), 10, 64)
				if err != nil {
					panic(err)
				}
				e.Elem().SetFloat(math.Float64frombits(b))
			default:
				setField(e.Elem(), val)
			}
			f.Set(e)
		}
	default:
		panic("setField kind " + f.Kind().String())
	}
}

func (r *tokReader) attrsInto(target reflect.Value) bool {
	a := r.next()
	if a == "N" {
		return false
	}
	n := int(atoi64(a[1:]))
	for i := 0; i < n; i++ {
		kv := strings.SplitN(r.next(), "=", 2)
		f := target.FieldByName(kv[0])
		if !f.IsValid() {
			panic("unknown attribute " + kv[0])
		}
		setField(f, decStr(kv[1]))
	}
	return true
}

func (r *tokReader) styleAttrs() *astisub.StyleAttributes {
	sa := &astisub.StyleAttributes{}
	if !r.attrsInto(reflect.ValueOf(sa).Elem()) {
		return nil
	}
	return sa
}

func (r *tokReader) ref() string {
	s := r.next()
	if s == "-" {
		return ""
	}
	return "\x00" + decStr(s) // marker: present (may be the empty id)
}

// parseCanon builds the Subtitles; references are resolved against the maps (a dangling
// reference gets a private object with that id)
func parseCanon(toks []string) (*astisub.Subtitles, []string) {
	r := &tokReader{t: toks}
	if r.next() != "S" {
		panic("canonical subs: no S")
	}
	s := astisub.NewSubtitles()
	type pend struct {
		style, region string
		it            *astisub.Item
		li            *astisub.LineItem
	}
	var pends []pend
	n := r.int()
	for i := 0; i < n; i++ {
		if r.next() != "I" {
			panic("canonical subs: no I")
		}
		it := &astisub.Item{Index: r.int()}
		it.StartAt = time.Duration(atoi64(r.next()))
		it.EndAt = time.Duration(atoi64(r.next()))
		st, rg := r.ref(), r.ref()
		it.InlineStyle = r.styleAttrs()
		for c := r.int(); c > 0; c-- {
			it.Comments = append(it.Comments, decStr(r.next()))
		}
		nl := r.int()
		type lp struct {
			l, k  int
			style string
		}
		var lps []lp
		for l := 0; l < nl; l++ {
			if r.next() != "L" {
				panic("canonical subs: no L")
			}
			ln := astisub.Line{VoiceName: decStr(r.next())}
			ni := r.int()
			for k := 0; k < ni; k++ {
				if r.next() != "T" {
					panic("canonical subs: no T")
				}
				li := astisub.LineItem{Text: decStr(r.next())}
				li.StartAt = time.Duration(atoi64(r.next()))
				ls := r.ref()
				li.InlineStyle = r.styleAttrs()
				ln.Items = append(ln.Items, li)
				if ls != "" {
					lps = append(lps, lp{l, k, ls})
				}
			}
			it.Lines = append(it.Lines, ln)
		}
		s.Items = append(s.Items, it)
		pends = append(pends, pend{style: st, region: rg, it: it})
		for _, p := range lps {
			pends = append(pends, pend{style: p.style, li: &it.Lines[p.l].Items[p.k]})
		}
	}
	type dref struct {
		ref string
		reg *astisub.Region
		sty *astisub.Style
	}
	var drefs []dref
	for k := 0; k < 2; k++ {
		n = r.int()
		for i := 0; i < n; i++ {
			if r.next() != "D" {
				panic("canonical subs: no D")
			}
			id := decStr(r.next())
			ref := r.ref()
			sa := r.styleAttrs()
			if k == 0 {
				rg := &astisub.Region{ID: id, InlineStyle: sa}
				s.Regions[id] = rg
				drefs = append(drefs, dref{ref: ref, reg: rg})
			} else {
				st := &astisub.Style{ID: id, InlineStyle: sa}
				s.Styles[id] = st
				drefs = append(drefs, dref{ref: ref, sty: st})
			}
		}
	}
	styleOf := func(ref string) *astisub.Style {
		id := ref[1:]
		if st, ok := s.Styles[id]; ok {
			return st
		}
		return &astisub.Style{ID: id}
	}
	for _, d := range drefs {
		if d.ref == "" {
			continue
		}
		if d.reg != nil {
			d.reg.Style = styleOf(d.ref)
		} else {
			d.sty.Style = styleOf(d.ref)
		}
	}
	for _, p := range pends {
		if p.style != "" {
			if p.it != nil {
				p.it.Style = styleOf(p.style)
			} else {
				p.li.Style = styleOf(p.style)
			}
		}
		if p.region != "" && p.it != nil {
			id := p.region[1:]
			if rg, ok := s.Regions[id]; ok {
				p.it.Region = rg
			} else {
				p.it.Region = &astisub.Region{ID: id}
			}
		}
	}
	m := &astisub.Metadata{}
	if r.attrsInto(reflect.ValueOf(m).Elem()) {
		s.Metadata = m
	}
	return s, r.t[r.i:]
}

var _ = fmt.Sprint
