module verif/harness

go 1.13

require github.com/asticode/go-astisub v0.0.0

replace github.com/asticode/go-astisub => /repo
