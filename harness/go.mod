module verif/harness

go 1.13

require (
	github.com/asticode/go-astisub v0.0.0
	github.com/asticode/go-astits v1.8.0
	golang.org/x/net v0.0.0-20200904194848-62affa334b73
)

replace github.com/asticode/go-astisub => /repo
