package main

import (
	"bytes"
	"fmt"
	"io/ioutil"
	"os"
	"path/filepath"
	"runtime"
	"sort"
	"strings"
	"sync"
	"time"

	astisub "github.com/asticode/go-astisub"
)

// one independent operation: builds its own inputs from its own seed and returns a digest of its result
type concOp func(seed uint64) string

func concOps() []concOp {
	docs := sampleDocs()
	var fs []string
	for f := range docs {
		fs = append(fs, f)
	}
	sort.Strings(fs)
	var ops []concOp
	for _, f := range fs {
		f := f
		ops = append(ops, func(seed uint64) string { // readers
			d := docs[f][int(seed)%len(docs[f])]
			return f + ":" + readOut(f, d)
		})
	}
	for _, f := range []string{"srt", "vtt", "ssa", "stl", "ttml"} {
		f := f
		ops = append(ops, func(seed uint64) string { // writers
			s := genSubs(newRng(seed, "subs"), f)
			var b bytes.Buffer
			if err := writeRaw(f, s, &b); err != nil {
				return f + ":w:" + errClass(err)
			}
			return f + ":w:" + encBytes(b.Bytes())
		})
	}
	// transformations on private lists
	tr := func(name string, fn func(s *astisub.Subtitles, r *rng)) concOp {
		return func(seed uint64) string {
			r := newRng(seed, name)
			xs := randList(r, 12, true)
			sortByStart(xs)
			s, ids := buildSubs(xs, int(seed%3))
			fn(s, r)
			return name + ":" + encMItems(observe(s.Items, ids))
		}
	}
	ops = append(ops,
		tr("add", func(s *astisub.Subtitles, r *rng) { s.Add(time.Duration(r.rangeI(-5000, 5000)) * time.Millisecond) }),
		tr("fragment", func(s *astisub.Subtitles, r *rng) { s.Fragment(time.Duration(r.rangeI(1, 5)) * time.Second) }),
		tr("unfragment", func(s *astisub.Subtitles, r *rng) { s.Unfragment() }),
		tr("order", func(s *astisub.Subtitles, r *rng) { s.Order() }),
		tr("force", func(s *astisub.Subtitles, r *rng) {
			s.ForceDuration(time.Duration(r.rangeI(1, 20000))*time.Millisecond, r.bool())
		}),
		tr("lincorr", func(s *astisub.Subtitles, r *rng) {
			s.ApplyLinearCorrection(time.Second, 2*time.Second, 5*time.Second, time.Duration(r.rangeI(6000, 9000))*time.Millisecond)
		}),
		tr("merge", func(s *astisub.Subtitles, r *rng) {
			o, _ := buildSubs(randList(r, 5, true), 0)
			s.Merge(o)
		}),
		func(seed uint64) string {
			g := randGraph(newRng(seed, "g"), true, false)
			s := g.build()
			s.Optimize()
			s2 := g.build()
			s2.RemoveStyling()
			return "opt:" + observeGraph(s).enc() + "|" + observeGraph(s2).enc()
		},
	)
	ops = append(ops,
		// calls that would leave something behind if the package kept state between calls: an STL text that ends
		// on a floating diacritic (nothing follows it), a TTML write with the indent option
		func(seed uint64) string {
			g := genSTLGT(newRng(seed%50, "stl-trail"), stlSymbolBytes(), false)
			g.dsc = '0'
			g.blocks = append(g.blocks, stlBlock{sn: len(g.blocks), ebn: 0xff, in: stlTC{1, 0, 0, 0}, out: stlTC{1, 0, 2, 0}, vp: 20, jc: 2,
				text: append([]byte("pending"), byte(0xc1+seed%15))})
			_, out := stlReadOut(false, g.bytes())
			return "stl-trail:" + out
		},
		func(seed uint64) string {
			s := genSubs(newRng(seed, "subs"), "ttml")
			var b bytes.Buffer
			if err := s.WriteToTTML(&b, astisub.WriteToTTMLWithIndentOption([]string{"\t", "  ", ""}[seed%3])); err != nil {
				return "ttml-indent:" + errClass(err)
			}
			return "ttml-indent:" + encBytes(b.Bytes())
		},
	)
	ops = append(ops, func(seed uint64) string {
		// two unrelated lists lose their styling; what is merged into one of them afterwards is none of the other's business
		ga, gb, gx := randGraph(newRng(seed, "rs-a"), true, false), randGraph(newRng(seed, "rs-b"), true, false), randGraph(newRng(seed%7, "rs-x"), true, false)
		a, b, x := ga.build(), gb.build(), gx.build()
		b.RemoveStyling()
		before := observeGraph(b).enc()
		a.RemoveStyling()
		a.Merge(x)
		return "rs-merge:" + before + "|" + observeGraph(b).enc()
	})
	ops = append(ops, func(seed uint64) string {
		// the rarely used script types of the SSA writer
		s := genSubs(newRng(seed, "subs"), "ssa")
		s.Metadata = &astisub.Metadata{SSAScriptType: []string{"v4.00+", "v4.00", ""}[seed%3]}
		var b bytes.Buffer
		if err := writeRaw("ssa", s, &b); err != nil {
			return "ssa-type:" + errClass(err)
		}
		return "ssa-type:" + encBytes(b.Bytes())
	})
	for _, f := range []string{"srt", "vtt", "ssa", "stl", "ttml"} {
		f := f
		ops = append(ops, func(seed uint64) string { // the file API: every call writes its own file
			s := genSubs(newRng(seed, "subs"), f)
			for len(s.Items) < 200 {
				s.Items = append(s.Items, s.Items[len(s.Items)%3])
			}
			dir, err := ioutil.TempDir("", "verif-conc-")
			if err != nil {
				return f + ":file:tmp"
			}
			defer os.RemoveAll(dir)
			p := filepath.Join(dir, fmt.Sprintf("out%d.%s", seed, f))
			if err := s.Write(p); err != nil {
				return f + ":file:" + errClass(err)
			}
			b, _ := ioutil.ReadFile(p)
			return f + ":file:" + fmt.Sprint(len(b)) + ":" + fnv(string(b))
		})
	}
	ops = append(ops,
		// languages: a document whose language tag is spelled in another letter case is read; a list in that language
		// is written
		func(seed uint64) string {
			lang := []string{"EN-US", "En", "fr-FR", "FR", "zh", "NO"}[seed%6]
			d := `<tt xmlns="http://www.w3.org/ns/ttml" xml:lang="` + lang + `"><body><div><p begin="00:00:01.000" end="00:00:02.000">x</p></div></body></tt>`
			return "ttml-lang-read:" + readOut("ttml", []byte(d))
		},
		func(seed uint64) string {
			s := genSubs(newRng(seed, "subs"), "ttml")
			s.Metadata = &astisub.Metadata{Language: []string{astisub.LanguageEnglish, astisub.LanguageFrench, astisub.LanguageChinese, astisub.LanguageNorwegian}[seed%4], Title: "t"}
			var b bytes.Buffer
			if err := writeRaw("ttml", s, &b); err != nil {
				return "ttml-lang-write:" + errClass(err)
			}
			return "ttml-lang-write:" + encBytes(b.Bytes())
		},
	)
	ops = append(ops, extraConcOps...)
	return ops
}

// extraConcOps lets other files (teletext) add operations
var extraConcOps []concOp

func init() {
	streams["conc.batch"] = stream{exec: func(a []string) string {
		seed, k, procs := uint64(atoi64(a[0])), int(atoi64(a[1])), int(atoi64(a[2]))
		ops := concOps()
		r := newRng(seed, "conc")
		type job struct {
			op   concOp
			seed uint64
		}
		jobs := make([]job, k)
		for i := range jobs {
			jobs[i] = job{ops[r.intn(len(ops))], r.next() % 1000}
		}
		want := make([]string, k)
		for i, j := range jobs {
			want[i] = guard(func() string { return j.op(j.seed) })
		}
		// run alone = whatever ran before: the same jobs one after the other in the opposite order
		for i := k - 1; i >= 0; i-- {
			j := jobs[i]
			if again := guard(func() string { return j.op(j.seed) }); again != want[i] {
				return fmt.Sprintf("diff sequential op=%d (the answer depends on the calls made before it)", i)
			}
		}
		old := runtime.GOMAXPROCS(procs)
		defer runtime.GOMAXPROCS(old)
		got := make([]string, k)
		var wg sync.WaitGroup
		start := make(chan struct{})
		perm := make([]int, k)
		for i := range perm {
			perm[i] = i
		}
		for i := k - 1; i > 0; i-- { // randomized start order
			j := r.intn(i + 1)
			perm[i], perm[j] = perm[j], perm[i]
		}
		for _, i := range perm {
			wg.Add(1)
			go func(i int) {
				defer wg.Done()
				<-start
				got[i] = guard(func() string { return jobs[i].op(jobs[i].seed) })
			}(i)
		}
		close(start)
		wg.Wait()
		for i := range want {
			if want[i] != got[i] {
				return fmt.Sprintf("diff op=%d", i)
			}
		}
		return "same"
	}, gen: func(c *ctx) {
		r := newRng(c.seed, "conc.batch")
		n := 60
		if c.thorough {
			n = 1500
		}
		for i := 0; i < n; i++ {
			c.do(fmt.Sprintf("conc.batch %d %d %d", r.intn(1<<30), 2+r.intn(31), []int{2, 4, 16}[r.intn(3)]))
			c.count("batches")
		}
	}}

	// det.dupid: style entries stored under distinct keys, several of which may carry the same Style.ID (Model/SSAStyleKeys):
	// twenty writes must agree, and the Style lines are those of the model (the entry with the greatest key wins)
	streams["det.dupid"] = stream{exec: func(a []string) string {
		build := func() *astisub.Subtitles {
			s := astisub.NewSubtitles()
			for _, t := range a {
				f := strings.Split(t, ",")
				s.Styles[f[0]] = &astisub.Style{ID: f[1], InlineStyle: &astisub.StyleAttributes{SSAFontName: f[2]}}
			}
			s.Items = append(s.Items, &astisub.Item{StartAt: time.Second, EndAt: 2 * time.Second, Lines: []astisub.Line{{Items: []astisub.LineItem{{Text: "x"}}}}})
			return s
		}
		var first []byte
		for i := 0; i < 20; i++ {
			var b bytes.Buffer
			if err := build().WriteToSSA(&b); err != nil {
				return "err"
			}
			if first == nil {
				first = b.Bytes()
			} else if !bytes.Equal(first, b.Bytes()) {
				return "differs"
			}
		}
		var out []string
		for _, l := range strings.Split(string(first), "\n") {
			if strings.HasPrefix(l, "Style: ") {
				f := strings.Split(strings.TrimPrefix(l, "Style: "), ",")
				if len(f) != 2 {
					return "columns"
				}
				out = append(out, f[0]+"="+f[1])
			}
		}
		return strings.Join(out, " ")
	}, gen: func(c *ctx) {
		c.do("det.dupid a,x,A b,x,B") // the witness of Props/C19c.pinned_depends_on_map_order (D32)
		c.do("det.dupid b,x,B a,x,A")
		r := newRng(c.seed, "det.dupid")
		n := 400
		if c.thorough {
			n = 20000
		}
		for i := 0; i < n; i++ {
			keys := []string{"a", "B", "c", "d", "e", "ee", "f"}
			for i := len(keys) - 1; i > 0; i-- {
				j := r.intn(i + 1)
				keys[i], keys[j] = keys[j], keys[i]
			}
			var toks []string
			for k := 0; k < 1+r.intn(6); k++ {
				toks = append(toks, fmt.Sprintf("%s,%s,F%d", keys[k], []string{"x", "y", "Z", "x"}[r.intn(4)], k))
			}
			c.do("det.dupid " + strings.Join(toks, " "))
		}
	}}

	// det.write: the same list written 50 times in this process, with all writer orders: identical bytes, list untouched
	streams["det.write"] = stream{exec: func(a []string) string {
		s, _ := parseCanon(a)
		// nil definitions are legal map values (every writer skips them); the canonical form cannot carry them, so they
		// are added here, and the snapshot counts the map entries
		if len(a)%2 == 0 {
			if s.Styles != nil && len(s.Styles) > 0 {
				s.Styles["~nil"] = nil
			}
			if s.Regions != nil {
				s.Regions["~nil"] = nil
			}
		}
		snap := func() string {
			return canonSubs(s) + fmt.Sprintf(" #styles=%d #regions=%d", len(s.Styles), len(s.Regions))
		}
		before := snap()
		// another caller's list, written in between: nothing of it may show in this list's output
		other := genSubs(newRng(7, "other"), "ssa")
		other.Metadata = &astisub.Metadata{Title: "other", SSAScriptType: "v4.00+", STLTimecodeStartOfProgramme: time.Hour}
		other.Styles["o"] = &astisub.Style{ID: "o", InlineStyle: &astisub.StyleAttributes{SSABold: func() *bool { b := true; return &b }(), WebVTTStyles: []string{"::cue(o) { color: red }"}}}
		other.Regions["o"] = &astisub.Region{ID: "o", InlineStyle: &astisub.StyleAttributes{WebVTTLines: 3}}
		formats := []string{"srt", "vtt", "ssa", "stl", "ttml"}
		first := map[string]string{}
		write := func(f string) string {
			var b bytes.Buffer
			if err := writeRaw(f, s, &b); err != nil {
				return errClass(err)
			}
			return encBytes(b.Bytes())
		}
		old := astisub.Now
		defer func() { astisub.Now = old }()
		// the clock matters only when the metadata does not supply both STL dates: when it does, the clock moves
		// between repetitions and the bytes must not
		suppliesDates := s.Metadata != nil && s.Metadata.STLCreationDate != nil && s.Metadata.STLRevisionDate != nil
		for rep := 0; rep < 50; rep++ {
			now := time.Date(2024, 3, 9, 10, 0, 0, 0, time.UTC)
			if suppliesDates && rep%2 == 1 {
				now = time.Date(2031, 12, 25, 23, 0, 0, 0, time.UTC)
			}
			astisub.Now = func() time.Time { return now }
			// a different writer order each repetition
			for k := 0; k < len(formats); k++ {
				f := formats[(k*(rep%4+1)+rep)%len(formats)]
				if rep%7 == 3 {
					// a write that fails half way (full destination) must leave nothing behind for the next one
					fw := &faultWriter{cap: 10 + rep}
					writeRaw(f, s, fw)
				}
				if rep%5 == 2 {
					var ob bytes.Buffer
					writeRaw(f, other, &ob)
				}
				if rep%6 == 4 && f == "ttml" {
					// a write with options in between (this list's or the other caller's): the next write without
					// options is what it was
					var ob bytes.Buffer
					s.WriteToTTML(&ob, astisub.WriteToTTMLWithIndentOption([]string{"\t", "", " "}[rep%3]))
					other.WriteToTTML(&ob, astisub.WriteToTTMLWithIndentOption("  "))
				}
				out := write(f)
				if prev, ok := first[f]; ok && prev != out {
					return "diff bytes " + f
				}
				first[f] = out
				if snap() != before {
					return "diff input-modified-by " + f
				}
			}
		}
		// digest of the outputs: compared across processes by the caller (bin/check runs the stream twice)
		var o []string
		for _, f := range formats {
			o = append(o, f+"="+fmt.Sprint(len(first[f]))+":"+fnv(first[f]))
		}
		return "same " + fmt.Sprint(o)
	}, gen: func(c *ctx) {
		r := newRng(c.seed, "det.write")
		n := 150
		if c.thorough {
			n = 5000
		}
		for i := 0; i < n; i++ {
			c.do("det.write " + canonSubs(genStyledSubs(r)))
			c.count("lists")
		}
	}}
}

func fnv(s string) string {
	h := uint64(14695981039346656037)
	for i := 0; i < len(s); i++ {
		h ^= uint64(s[i])
		h *= 1099511628211
	}
	return fmt.Sprintf("%016x", h)
}

// genStyledSubs: cue lists with 0..6 styles and regions of heterogeneous attribute subsets
func genStyledSubs(r *rng) *astisub.Subtitles {
	s := genSubs(r, "any")
	ns, nr := r.intn(7), r.intn(7)
	strp := func(v string) *string { return &v }
	intp := func(v int) *int { return &v }
	boolp := func(v bool) *bool { return &v }
	f64p := func(v float64) *float64 { return &v }
	mkAttrs := func() *astisub.StyleAttributes {
		if r.chance(1, 6) {
			return nil
		}
		sa := &astisub.StyleAttributes{}
		if r.bool() {
			sa.SSAFontName = []string{"Arial", "Times"}[r.intn(2)]
		}
		if r.bool() {
			sa.SSAFontSize = f64p(float64(8 + r.intn(20)))
		}
		if r.bool() {
			sa.SSABold = boolp(r.bool())
		}
		if r.bool() {
			sa.SSAPrimaryColour = &astisub.Color{Red: uint8(r.intn(256)), Green: 3}
		}
		if r.bool() {
			sa.SSAMarginLeft = intp(r.intn(50))
		}
		if r.bool() {
			sa.SSAOutline = f64p(float64(r.intn(4)))
		}
		if r.bool() {
			sa.TTMLColor = strp([]string{"#ff0000", "white", "#00ffff", "#00FFFF", "#ffff00", "#ff00ff", "#00ff00"}[r.intn(7)])
		}
		if r.bool() {
			sa.TTMLTextAlign = strp("center")
		}
		if r.bool() {
			sa.TTMLExtent = strp("80% 10%")
		}
		if r.bool() {
			sa.TTMLOrigin = strp("10% 80%")
		}
		if r.chance(1, 2) {
			// the same block may be held by several styles, with other blocks in between
			sa.WebVTTStyles = [][]string{{"::cue(b) {", "  color: peachpuff;", "}"}, {"::cue(i) { font-size: 120% }"}, {"::cue(b) {", "  color: peachpuff;", "}"},
				{"::cue { color: red }", "::cue(u) { color: blue }"}}[r.intn(4)]
		}
		if r.bool() {
			sa.WebVTTWidth = "40%"
			sa.WebVTTLines = 1 + r.intn(3)
		}
		if r.bool() {
			sa.WebVTTAlign = "left"
		}
		// attributes of the other codecs, as a list read from another format would carry them
		if r.chance(1, 3) {
			sa.SRTColor = strp([]string{"#ff0000", "#00ff00"}[r.intn(2)])
			if r.bool() {
				sa.TTMLColor = sa.SRTColor
			}
		}
		if r.chance(1, 4) {
			sa.SRTBold, sa.WebVTTBold = true, true
			sa.WebVTTTags = []astisub.WebVTTTag{{Name: "b"}}
		}
		if r.chance(1, 4) {
			sa.WebVTTTags = []astisub.WebVTTTag{{Name: "c", Classes: []string{"red"}}, {Name: "lang", Annotation: "en"}}
			if r.chance(1, 2) { // a class listed twice among others: the classes are written as they are listed
				sa.WebVTTTags[0].Classes = [][]string{{"red", "loud", "big", "red"}, {"a", "a"}, {"z", "y", "x", "w", "z", "v"}}[r.intn(3)]
			}
		}
		if r.chance(1, 4) {
			sa.SSAEffect = []string{"{\\i1}", "{\\an8}", "{\\b1\\c&HFF&}"}[r.intn(3)]
		}
		if r.chance(1, 5) {
			sa.STLItalics, sa.STLUnderline = boolp(r.bool()), boolp(r.bool())
		}
		if r.chance(1, 6) {
			sa.TeletextColor = astisub.ColorRed
		}
		return sa
	}
	var styleIDs, regionIDs []string
	idPool := []string{"style0", "Style0", "STYLE0", "title", "Title", "a", "A", "b1", "B1", "style3", "é", "É"}
	for i := 0; i < ns; i++ {
		id := fmt.Sprintf("style%d", i)
		if r.chance(1, 2) {
			id = idPool[r.intn(len(idPool))]
			if _, ok := s.Styles[id]; ok {
				id = fmt.Sprintf("style%d", i)
			}
		}
		st := &astisub.Style{ID: id, InlineStyle: mkAttrs()}
		if i > 0 && r.chance(1, 3) {
			st.Style = s.Styles[styleIDs[r.intn(len(styleIDs))]]
		}
		s.Styles[id] = st
		styleIDs = append(styleIDs, id)
	}
	for i := 0; i < nr; i++ {
		id := fmt.Sprintf("region%d", i)
		if r.chance(1, 2) {
			id = idPool[r.intn(len(idPool))]
			if _, ok := s.Regions[id]; ok {
				id = fmt.Sprintf("region%d", i)
			}
		}
		rg := &astisub.Region{ID: id, InlineStyle: mkAttrs()}
		if ns > 0 && r.chance(1, 3) {
			rg.Style = s.Styles[styleIDs[r.intn(ns)]]
		}
		s.Regions[id] = rg
		regionIDs = append(regionIDs, id)
	}
	for _, it := range s.Items {
		if ns > 0 && r.bool() {
			it.Style = s.Styles[styleIDs[r.intn(ns)]]
		}
		if nr > 0 && r.bool() {
			it.Region = s.Regions[regionIDs[r.intn(nr)]]
		}
		if r.bool() {
			it.InlineStyle = mkAttrs()
		}
		for li := range it.Lines {
			for k := range it.Lines[li].Items {
				if ns > 0 && r.chance(1, 3) {
					it.Lines[li].Items[k].Style = s.Styles[styleIDs[r.intn(ns)]]
				}
				if r.chance(1, 3) {
					it.Lines[li].Items[k].InlineStyle = mkAttrs()
				}
			}
		}
	}
	if len(s.Items) > 1 && r.chance(1, 4) {
		// a cue without text in front of cues with text (a writer that skips it must not compact the caller's list)
		s.Items[r.intn(len(s.Items)-1)].Lines = nil
	}
	if r.bool() {
		s.Metadata = &astisub.Metadata{Title: "t", Language: astisub.LanguageFrench, Framerate: 25}
		if r.bool() {
			d := time.Date(2020, 1, 2, 0, 0, 0, 0, time.UTC)
			if r.chance(1, 3) {
				d = time.Time{} // the zero time is a supplied date as well
			}
			s.Metadata.STLCreationDate = &d
			s.Metadata.STLRevisionDate = &d
		}
		if r.bool() {
			s.Metadata.SSAScriptType = "v4.00+"
		}
		if r.chance(1, 3) {
			s.Metadata.STLTimecodeStartOfProgramme = time.Duration([]int{1, 10}[r.intn(2)]) * time.Hour
			s.Metadata.STLDisplayStandardCode = "0"
		}
	}
	return s
}
