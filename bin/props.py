"""per-property configuration of bin/check"""

COMMON_TRUST = [
    "Lean 4.33.0 kernel (thorough tier: leanchecker re-check); accepted axioms: propext, Classical.choice, Quot.sound",
    "Lean compiler/runtime for the native driver that executes the model and the specification",
    "the Go harness (generators, canonical printers), bin/check (comparison) and the driver's parsers (the tie T2)",
    "Go semantics as modelled: int64 durations without overflow, slices/append, sort.SliceStable = any stable sort",
]

PROPS = {
    "C09": {
        "level_text": "Machine-checked Lean theorems over a loop-faithful model of Subtitles.Add, for every cue list and every d: the output equals the declarative specification (survivors = cues whose shifted end is > 0, in order, same identity and content, both boundaries moved by exactly d, start clamped at 0), exactly the dead cues are removed, and add(-d) after add(d) restores every cue that was neither clamped nor removed. The model is tied to /repo on every run by the ops.add correspondence stream (exhaustive small grids + random lists, both append aliasing regimes).",
        "level_note": "Trusted: Lean kernel; the hand-written model Ops.add and its tie (Go harness, driver, bin/check); int64 overflow excluded by range. The CLI path (main.go sync) is covered under C07.",
        "technique": "Lean 4 proof (induction over the cue list, filterMap refinement of the index-rewinding loop) + differential correspondence model vs. implementation",
        "props": ["Astisub.Props.C09"],
        "streams": [{"name": "ops.add"}],
        "trust": ["model: Ops.add is a hand-written zipper model of Subtitles.Add, tied to the code by the ops.add correspondence stream"],
        "assumptions": ["cue boundaries and d far below 2^62 ns (no int64 overflow)"],
    },
    "C14": {
        "level_text": "Machine-checked Lean theorems over a literal model of Subtitles.ForceDuration for every ordered timeline, every d >= 1 ms and both filler values; tied to /repo by the ops.forceduration correspondence stream.",
        "level_note": "Trusted: Lean kernel; the hand-written model and its tie; int64 overflow excluded by range.",
        "technique": "Lean 4 proof (induction over the timeline) + differential correspondence model vs. implementation",
        "props": ["Astisub.Props.C14"],
        "streams": [{"name": "ops.forceduration"}],
        "trust": ["model: Ops.forceDuration mirrors Subtitles.ForceDuration/Duration, tied by the ops.forceduration stream"],
        "assumptions": ["cue boundaries and d far below 2^62 ns (no int64 overflow)"],
    },
}


PROPS["C10"] = {
    "level_text": "Machine-checked Lean theorems over the model of Subtitles.Fragment (inner cutting loop + Order) for every cue list and every f > 0: the pieces of each cue are consecutive, carry its content, are cut at every multiple of f strictly inside it and nowhere else, the original pointer is the last piece; the result is a permutation of all pieces, ordered by start, and no cue strictly contains a multiple of f; cues without a multiple inside are untouched. Tied to /repo by the ops.fragment stream (exhaustive grids of the property, both append aliasing regimes, random ms-granular lists).",
    "level_note": "Trusted: Lean kernel; hand-written model Ops.cut/Ops.fragment and its tie; sort.SliceStable modelled as List.mergeSort (any stable sort gives the same list); int64 overflow excluded by range. The pinned tree violated the property (D19), repaired by a fix: commit.",
    "technique": "Lean 4 proof (loop invariant of the cutting loop with fuel, chain covering argument, permutation/sortedness of mergeSort) + differential correspondence",
    "props": ["Astisub.Props.C10"],
    "streams": [{"name": "ops.fragment"}],
    "trust": ["model: Ops.cut / Ops.fragment mirror the repaired Subtitles.Fragment, tied by the ops.fragment stream"],
    "assumptions": ["cue boundaries and f far below 2^62 ns"],
}
PROPS["C11"] = {
    "level_text": "Machine-checked Lean theorems over a loop-faithful model of Subtitles.Unfragment (order, outer i loop, inner j loop with merge-and-delete and early break) for every cue list: afterwards no two same-text cues touch, the set of texts on screen at every instant is unchanged, the result is an ordered sub-sequence of the ordered input in which kept cues have the same identity/start/content and a not-earlier end, and lists without mergeable pairs are untouched. The inverse law (unfragment after fragment) is validated by the ops.fragunfrag correspondence stream with the specification predicate, not proved.",
    "level_note": "Trusted: Lean kernel; hand-written model and its tie. Partial: the inverse law and the connected-components characterisation are checked by correspondence + executable predicate only.",
    "technique": "Lean 4 proof (strong induction over the outer loop, invariants of the inner loop: extension, sub-sequence, separation, display equivalence) + differential correspondence",
    "props": ["Astisub.Props.C11"],
    "streams": [{"name": "ops.unfragment"}, {"name": "ops.fragunfrag"}],
    "trust": ["model: Ops.absorb / Ops.unfragLoop mirror the loops of Subtitles.Unfragment; Item.String modelled as lines joined by ' - ', runs by ''"],
    "assumptions": ["cue boundaries far below 2^62 ns"],
}
PROPS["C12"] = {
    "level_text": "Machine-checked Lean theorems: Order is a permutation, sorted by start and stable (every already-sorted sub-sequence survives in order); Merge leaves in A exactly the cues of A and B, ordered, A ahead of B on equal starts, relative order inside A and inside B kept; the region/style maps after Merge satisfy lookup id = lookup_A id <|> lookup_B id and A's definitions are never replaced. Tied to /repo by the ops.order and ops.merge streams (many ties, receivers with nil maps, arbitrary identifier overlap; B is observed unchanged).",
    "level_note": "Trusted: Lean kernel; sort.SliceStable modelled as List.mergeSort; Go maps as association lists; the tie. The nil-map receiver panic of the pinned tree (D20) is repaired by a fix: commit.",
    "technique": "Lean 4 proof (core mergeSort lemmas: perm, pairwise, stability; induction over the argument's map) + differential correspondence",
    "props": ["Astisub.Props.C12"],
    "streams": [{"name": "ops.order"}, {"name": "ops.merge"}],
    "trust": ["model: Ops.order = List.mergeSort on start; Graph.mergeDefs mirrors the two range loops of Subtitles.Merge"],
    "assumptions": ["B's map keys equal its definitions' identifiers (IdKeyed) for the lookup law"],
}
PROPS["C13"] = {
    "level_text": "Machine-checked Lean theorems over a loop-faithful model of Optimize/removeUnusedRegionsAndStyles (marking loops incl. the visited-set early exit of the inheritance walk): for every reference graph in which one identifier names one definition, the result equals the declarative reachability specification (exactly the reachable styles and the referenced regions are kept, cues untouched), every remaining reference resolves, the operation is idempotent and the empty list is left alone; RemoveStyling leaves no region, style or reference. Tied to /repo by ops.optimize / ops.removestyling on random pointer graphs (depth 0..4, shared parents, unused/shared definitions, dangling refs, cycles).",
    "level_note": "Trusted: Lean kernel; pointer graphs modelled as identifier chains; the tie. Partial: the write->read clause of the property is exercised by the codec checks (C01-C05) and the conversion stream, not proved here. The pinned tree violated the property (D21: parents of used styles deleted), repaired by a fix: commit.",
    "technique": "Lean 4 proof (closure invariant of the early-exit marking loop under identifier consistency, fold characterisations) + differential correspondence",
    "props": ["Astisub.Props.C13"],
    "streams": [{"name": "ops.optimize"}, {"name": "ops.removestyling"}],
    "trust": ["model: Graph.optimize mirrors removeUnusedRegionsAndStyles with references as identifier chains"],
    "assumptions": ["one identifier names one definition (Consistent) for the exactness theorem; other graphs are only compared model-vs-code"],
}


PROPS["C16"] = {
    "level_text": "Machine-checked Lean theorems over the model of formatDuration/parseDuration and the per-format wrappers, for every instant 0 <= t < 100 h at nanosecond resolution: the rendering has exactly the canonical shape (two-digit HH<100, MM,SS<60, exactly 3 resp. 2 fraction digits); each format's own reader maps it back to t truncated to the format's unit (floor, multiple of the unit, monotone), and formatting the value read back gives the identical text. For STL at 25 and 30 fps (t < 24 h): fields h<24, m,s<60, f<fr; the value read back is within 1 ns of the frame instant and read-then-write changes no field. The float path of formatDuration is tied to the integer model by ts.fracsweep (all 10^9 values of t mod 1s in the thorough tier) and ts.sweep (every millisecond of 24 h in the thorough tier).",
    "level_note": "Trusted: Lean kernel; hand-written integer model of the float expression in formatDuration (validated exhaustively on the implementation, not proved from IEEE-754); strings/strconv re-implementations (lib streams); the tie. The pinned tree violated the STL clause at 30 fps (D16), repaired by a fix: commit. TTML offset/frames syntaxes are treated under C03.",
    "technique": "Lean 4 proof (explicit digit-string lemmas for Itoa/Atoi/Split/TrimSpace, omega over the field arithmetic) + differential correspondence incl. exhaustive sweeps on the implementation",
    "props": ["Astisub.Props.C16"],
    "streams": [{"name": "ts.text", "needs_hooks": True}, {"name": "ts.stl", "needs_hooks": True},
                {"name": "ts.fracsweep", "needs_hooks": True}, {"name": "ts.sweep", "needs_hooks": True}],
    "trust": ["model: Duration.format computes the fraction digits in integer arithmetic; Go goes through float64 (math.Floor(float64(n)/1e6/10^k)) - tie: exhaustive comparison on the implementation"],
    "assumptions": ["0 <= t < 100 h (24 h for STL)"],
}


PROPS["C17"] = {
    "level_text": "Machine-checked Lean theorems over a model of bufio.Scanner driven by the package's split function, for every delivery schedule (any chunk sizes, zero-length reads, data-with-EOF) and every byte string: unless the run hits the scanner's own limits, the tokens are exactly the lines of the bytes (LF, CRLF, lone CR), so every line-based reader - any function of the scanned lines and the scanner error - returns the same result for any two deliveries of the same bytes; the repaired split function waits for more data on a trailing CR while the pinned one produced a spurious empty line (witness); io.ReadFull block reads and the whole STL block structure depend on the bytes only. Tied to /repo by lib.scanner (effective schedules replayed in the model, incl. the 64 KiB and 100-empty-read limits) and by io.sched (all five stream readers under every single split point, one-byte, half, random, aligned and data-with-EOF schedules, valid and mutated documents, compared with the all-at-once result).",
    "level_note": "Trusted: Lean kernel; hand-written scanner/ReadFull models and their tie. TTML (encoding/xml) and teletext (go-astits) delegate buffering to libraries: for those the property is decided by the io.sched correspondence stream only (translation validation); the teletext reader is exercised under C06/C08. Pinned defects D1 (CR/LF split) and D2 (single Read per STL block) repaired by fix: commits.",
    "technique": "Lean 4 proof (outer induction on the schedule, inner strong induction on pending bytes; token stability under data extension) + differential correspondence under harness-controlled io.Reader wrappers",
    "props": ["Astisub.Props.C17"],
    "streams": [{"name": "lib.scanner", "needs_hooks": True}, {"name": "io.sched"}],
    "trust": ["model: Go.scan mirrors bufio.Scanner.Scan (buffer limit 65536, 100 empty reads, error latching) with the split function of newScanner; IO.readFull mirrors io.ReadFull"],
    "assumptions": ["runs of zero-length reads shorter than 100; lines shorter than 64 KiB (otherwise the scanner's own error, see C18)"],
}
PROPS["C18"] = {
    "level_text": "Machine-checked Lean theorems: a stream that ends in a non-EOF error leaves the scanner with a non-nil error for every schedule and fault offset, so a line-based reader that checks it (the repaired code) never returns a value, while the pinned readers provably swallowed it; a reader returns a value only if the stream ended in EOF and then it is the parse of all lines of all bytes (no partial success); a document with a line longer than the scanner's 64 KiB buffer always ends in an error; the STL block loop never ends cleanly on a faulting stream; a writer made of any sequence of Write calls reports an error iff the destination fails before the document is complete, and success means the complete document was delivered. Tied to /repo by io.fault (every fault offset of representative documents of five formats, lines of 2^16..2^20 bytes), io.wfault (every fault offset of five writers' output), io.file and lib.scanner.",
    "level_note": "Trusted: Lean kernel; scanner / ReadFull / Write-sequence models and their tie. TTML and teletext fault propagation is decided by correspondence only. Pinned defect D3 (scanner.Err() never consulted) and D4 (panic on a truncated timing line) repaired by fix: commits.",
    "technique": "Lean 4 proof (fault latching invariant of the scanner model, token-length bound, take/drop characterisation of Write sequences) + fault-injecting io.Reader/io.Writer correspondence",
    "props": ["Astisub.Props.C18"],
    "streams": [{"name": "lib.scanner", "needs_hooks": True}, {"name": "io.fault"}, {"name": "io.wfault"}, {"name": "io.file"}],
    "trust": ["model: IO.lineReader is the common shape of ReadFromSRT/WebVTT/SSA; IO.writeAll is a sequence of Write calls"],
    "assumptions": ["TTML: fault offsets up to the end of the root element"],
}


PROPS["C15"] = {
    "level_text": "Machine-checked Lean theorems (Mathlib, over Q) about the Go expression tree of ApplyLinearCorrection evaluated with any rounding function satisfying the standard model of floating-point arithmetic (monotone, relative error <= 2^-53, exact on integers up to 2^53): for all boundaries and reference points in [0,24 h] and |slope| <= 2 every boundary lands within 3 ns (<< 1 us) of the exact affine map through the two reference points (so a1 -> d1, a2 -> d2 within that bound), the map is monotone for a non-negative slope, every cue length is scaled by the slope to within 6 ns, and identity/content/order are untouched. The executable binary64 model (Go.Float53, round-to-nearest-even in integer arithmetic) is compared bit for bit with the hardware (lib.f53) and ops.lincorr compares the whole operation with the code; on a disagreement the exact rational predicate is evaluated in Lean on the implementation's output.",
    "level_note": "Partial: it is not proved that Go.Float53 (or the hardware) satisfies FloatModel - IEEE-754 binary64 conformance is assumed; overflow/subnormal ranges are outside the hypotheses. Trusted: Lean kernel + Mathlib (axioms propext, Classical.choice, Quot.sound), the tie.",
    "technique": "Lean 4 proof over Q of a forward error analysis under the standard floating-point model + bit-for-bit differential correspondence of an exact binary64 model",
    "props": ["Astisub.Props.C15"],
    "streams": [{"name": "lib.f53"}, {"name": "ops.lincorr"}],
    "trust": ["IEEE-754 binary64 round-to-nearest-even satisfies the standard model (FloatModel); Go.Float53 is validated bit for bit against the hardware, not proved to be a FloatModel"],
    "assumptions": ["boundaries, a1, d1 in [0, 24 h]; a1 != a2; |slope| <= 2"],
}


PROPS["C01"] = {
    "level_text": "Lean model of ReadFromSRT/parseTextSrt/WriteToSRT (loop state, running style, index heuristics, blank-line stripping, writer) over a partial model of the x/net/html tokenizer, plus an independent SubRip decoder (Spec.SRT.decode). Machine-checked for all inputs: unescape(escape t) = t and no '<' in written text (so &, <, NBSP survive), the written timing line reads back to the truncated instants with ',' and with '.', blank-line padding (between cues and at EOF) leaves exactly the text lines, consecutive numbering, empty list refused. The whole-document clauses (read of every rendering = denoted cues; write -> own reader and -> independent decoder = same cues) are decided on every run by the srt.read / srt.write streams: model vs implementation on generated ground truths x rendering choices (EOL kinds, BOM, index present/absent/garbage, blank padding, separators, 1-3 digits, spacing, coordinates, open / multi-line tags), mutated documents and the repository's test data, with the independent decoder evaluated on every case.",
    "level_note": "Partial: the document-level round-trip statements are not proved in Lean (they are checked by correspondence + independent decoder on every generated case); the x/net/html tokenizer is a partial hand-written model validated by lib.html (inputs outside its class are counted as unmodelled and not compared). Pinned defects D4 (panic on truncated timing line) and D5 (blank lines at EOF kept as empty lines) repaired by fix: commits.",
    "technique": "Lean 4 proof of the component laws (replacer induction, digit-string lemmas, list lemmas) + differential correspondence with an independent Lean decoder as oracle",
    "props": ["Astisub.Props.C01"],
    "streams": [{"name": "srt.read"}, {"name": "srt.write"}, {"name": "lib.html"}],
    "trust": ["model: SRT.read/SRT.write hand-written from srt.go; Go.tokenize partial model of golang.org/x/net/html; UTF-8 transport by Lean's String.fromUTF8?/toUTF8"],
    "assumptions": ["times in [0, 100 h); text without line terminators or '-->'"],
}

PROPS["C02"] = {
    "level_text": "Lean model of ReadFromWebVTT (header skipping, block state machine: NOTE comments, STYLE blocks with the CSS-brace heuristic, Region: lines, timing line + cue settings + region look-up, X-TIMESTAMP-MAP), parseTextWebVTT / parseTextWebVTTTextToken (tag stack over the partial x/net/html tokenizer model, voices, inline timestamps, the two regular expressions as hand-written recognisers) and WriteToWebVTT / Line.webVTTBytes / LineItem.webVTTBytes / cssColor (header, timestamp map, STYLE, sorted regions, settings with style fall-backs, tag emission), plus an independent WebVTT decoder (Spec.VTT.decode). Machine-checked for all inputs: the tag-emission law of the repaired writer (what a run leaves open is exactly the prefix the next run builds on, so tags are properly nested and the reader rebuilds every run's stack), escaping round trip and no '<' in written text, every written instant (cue boundaries, inline timestamps, LOCAL) reads back truncated to the millisecond, numbering / NOTE block placement, empty list refused, every region written ahead of the cues, blank line clears the tag stack and ends the block, inside a cue every line without '-->' is text, comment opening; cssColor table and recogniser examples by evaluation. The whole-document clauses (read of every rendering = what it denotes; write -> own reader and -> independent decoder = same things; cues numbered consecutively; region defined before use) are decided on every run by vtt.read / vtt.write: model vs implementation on generated ground truths (0..5 cues, 0..3 regions, STYLE blocks, timestamp map, comments, settings subsets, tag stacks of depth 0..3 with classes/annotations, inline timestamps, voices) x renderings (EOL kinds, BOM, mm:ss.ttt vs hh:mm:ss.ttt, ids present/absent, tabs/spaces before settings, header trailing text, blank padding, tags closed per line / left open over lines / until the end of the cue, timestamps before or after the tags), mutated documents, niche documents and the repository's test data, with the independent decoder evaluated on every case; vtt.tagre / vtt.texttok / vtt.tsmap / vtt.line tie the regular expressions, the text-token splitter, the timestamp-map parser/printer and the line writer function by function.",
    "level_note": "Partial: the document-level round-trip statements are not proved in Lean (checked by correspondence + independent decoder on every generated case); the x/net/html tokenizer and the two regexps are hand-written models validated by lib.html, vtt.tagre, vtt.texttok (inputs outside the tokenizer class or with numbers that could overflow int64 are counted as unmodelled). Pinned defects repaired by fix: commits: D13 (STYLE order follows map iteration, nil InlineStyle panics / drops region setting), D14 (tag emission compared names only), inline timestamp lost when a tag follows it, </v> pops an unrelated tag, cue text lines starting with NOTE/STYLE/Region:/X-TIMESTAMP-MAP taken for block starts, a bare NOTE line not recognised. Out of the decoder's class (reported, not repaired): &gt; &lrm; &rlm; are not decoded by the library; STYLE blocks whose last line does not end with '}' swallow the next block (CSS heuristic); REGION blocks of the current standard are not in the library's dialect.",
    "technique": "Lean 4 proof of the component laws (induction over tag stacks, list lemmas, reuse of the C01 escaping and C16 timestamp theorems, evaluation by decide) + differential correspondence with an independent Lean decoder as oracle",
    "props": ["Astisub.Props.C02"],
    "streams": [{"name": "vtt.read"}, {"name": "vtt.write"}, {"name": "lib.html"},
                {"name": "vtt.tagre", "needs_hooks": True}, {"name": "vtt.texttok", "needs_hooks": True},
                {"name": "vtt.tsmap", "needs_hooks": True}, {"name": "vtt.line", "needs_hooks": True}],
    "trust": ["model: VTT.read/VTT.write hand-written from webvtt.go; Go.tokenize partial model of golang.org/x/net/html; Go.tagRe / Go.tsAt hand-written recognisers of webVTTRegexpTag / webVTTRegexpInlineTimestamp; UTF-8 transport by Lean's String.fromUTF8?/toUTF8"],
    "assumptions": ["times in [0, 100 h); text without line terminators or '-->'; tag names alphanumeric, classes/annotations without markup characters; values of settings without white space or ':'"],
}

PROPS["C04"] = {
    "level_text": "Complete Lean model of the repaired ReadFromSSA / WriteToSSA (section switch, script info, Format-driven style and event rows, colour radix, boolean / integer / float fields, text splitting at \\N / \\n and at {...} override blocks with the library's greedy regular expression as a hand-written recogniser, '*'-prefixed style references, writer with union Format in sorted style order, fixed events Format, v4 / v4+ switch) over exact models of strconv.ParseFloat (plain decimals), FormatFloat('f',3 and -1), ParseInt(10/16) and Atoi, plus an independent Format-driven decoder (Spec.SSA.decode) with its own tables, scalar readers and override-block scanner. Machine-checked for all inputs: every column / script-info header the writer emits is read back as the same attribute (tables injective and complete, TertiaryColour = OutlineColour), written booleans read back unchanged (true stays true) and -1 is true, an empty style field leaves the attribute unset, split-at-comma inverts join for comma-free cells and the last Format column takes the rest of the row (commas in the text preserved, for any Format), the written event time reads back truncated to the centisecond, lines without ':' / anything in an unknown section / events other than Dialogue / non-Style lines of a styles section leave the reader state unchanged, '*'-prefixed style names resolve to the style without '*', an empty cue list is refused. The whole-document clauses (read of every rendering = what the independent decoder says it denotes; write -> own reader and -> independent decoder = same cues, styles and script info; write(read(write s)) = write s) are decided on every run by the ssa.read / ssa.write streams: model vs implementation on generated ground truths x rendering choices (column permutations and subsets in both Format lines, section-name spelling, v4 / v4+, H: vs HH: times, colour radix incl. negative decimals, EOL kinds, BOM, interleaved junk / comment / non-Dialogue lines, unknown sections, sections in unusual order), mutated documents and the repository's test data, with the specification predicate evaluated on every case; ssa.style / ssa.text / ssa.colour / ssa.float tie the row decoder, the text splitter, the colour reader and the float conversions to the code function by function.",
    "level_note": "Partial: the document-level statements are not proved in Lean (checked by correspondence + independent decoder on every generated case). Floats: ParseFloat is modelled for plain decimals up to 300 characters in the normal range (exponents, hex floats, inf/nan are counted as unmodelled); the shortest-digits search of FormatFloat(-1) is exact except at binade boundaries needing more than 17 digits. int64 wrap-around of absurd hour fields and lines that are not valid UTF-8 are outside the model (unmodelled). Pinned defects D9 (nil metadata / nil inline style panic the writer), D10 (booleans written 1, read true only for -1), D11 (runs joined with a space), D12 (map-order Format, empty fields rejected by the reader) and two further ones found here (a non-Dialogue event or a stray 'x: y' line in [Events] / [V4 Styles] made the whole read fail) are repaired by fix: commits.",
    "technique": "Lean 4 proof of the component laws (tables by decide, row / field laws by induction) + differential correspondence with an independent Lean decoder as oracle",
    "props": ["Astisub.Props.C04"],
    "streams": [{"name": "ssa.read"}, {"name": "ssa.write"}, {"name": "ssa.float"},
                {"name": "ssa.style", "needs_hooks": True}, {"name": "ssa.text", "needs_hooks": True},
                {"name": "ssa.colour", "needs_hooks": True}],
    "trust": ["model: SSA.read / SSA.write hand-written from the repaired ssa.go; Go/Numconv.lean models strconv float/int conversions (validated by ssa.float / ssa.colour, not proved from IEEE-754); UTF-8 transport by Lean's String.fromUTF8?/toUTF8; line splitting by the scanner model of C17"],
    "assumptions": ["times in [0, 100 h); row fields without ',' (except the last column), line breaks or surrounding blanks; event text without stray braces; style floats whose 3-decimal rendering is exact (write clause)"],
}


PROPS["C19"] = {
    "level_text": "The writer models are functions Subs -> bytes (same list, same bytes, argument untouched by construction). Machine-checked Lean theorems: sorting two enumerations of the same map by identifier gives the same list and identifier look-ups are enumeration-independent, hence the SRT, SSA and WebVTT writer models are invariant under every permutation of the Styles and Regions maps (any number of definitions, any attribute subsets) - i.e. the bytes do not depend on Go's map iteration order. Tied to /repo by det.write: cue lists with 0..6 styles/regions of heterogeneous attribute subsets written 50 times in all writer orders in one process (byte-identical, list snapshot unchanged after every write) and again in a second process (other hash seed; answers must be identical), with the STL clock injected; plus the per-codec *.write streams that compare the bytes with the models.",
    "level_note": "Partial: permutation invariance is proved for the SRT, SSA and WebVTT writer models; for TTML and STL (writer models of C03/C05) the determinism clause is decided by the det.write stream only. 'No writer modifies its input' is immediate in the model and observational on the code (canonical snapshot before/after). Pinned defects D12/D13 (SSA Format columns and WebVTT STYLE blocks in map order) repaired by fix: commits.",
    "technique": "Lean 4 proof (uniqueness of a sorted permutation under distinct identifiers: Perm.eq_of_pairwise over mergeSort) + repeated/cross-process differential runs",
    "props": ["Astisub.Props.C19"],
    "streams": [{"name": "det.write", "twice": True}],
    "trust": ["Go maps are modelled as association lists in arbitrary order with distinct keys"],
    "assumptions": ["map keys equal the definitions' identifiers"],
}
PROPS["C20"] = {
    "level_text": "Machine-checked Lean theorem: for any number of calls, each a finite list of steps that read shared state and update only their own private state, every interleaving leaves each call with exactly the result it computes alone. The structural premise (no instruction of the package writes package-level state outside initialisation) is a theorem over Generated/Globals.lean, which is regenerated on every run from /repo's working tree by a go/ssa extractor (stores through addresses derived from package-level variables, map updates, calls that store through such an argument, mutating container methods) - a change that caches into or patches a shared table breaks the proof obligation. Data races proper are searched dynamically: conc.batch runs multisets of independent readers, writers and transformations on 2..32 goroutines under the Go race detector with randomized start order and GOMAXPROCS in {2,4,16} and compares every result with the sequential run.",
    "level_note": "Partial by nature: no Lean model exhibits a Go data race; the theorem is about step interleavings under a structural no-shared-write premise. The extractor is intra-procedural plus one level of calls and does not look inside third-party packages (the lock-protected astikit.BiMap is read-only after init); the race detector only sees executed interleavings.",
    "technique": "Lean 4 proof (commutation/frame invariant over schedules) with a regenerated structural premise (go/ssa fact extractor) + dynamic race detection",
    "props": ["Astisub.Props.C20"],
    "streams": [{"name": "conc.batch", "race": True}],
    "generated": ["Astisub/Generated/Globals.lean"],
    "trust": ["tools/globals (go/ssa based extractor) lists every write to package-level state it can see; Go race detector"],
    "assumptions": ["calls do not share cue lists, readers or writers"],
}

PROPS["C06"] = {
    "level_text": "Lean model of the teletext reader from the demultiplexer's data upward (teletextPID, the data loop of ReadFromTeletext, process / parseDataUnit / parsePacket / parsePacketHeader / parsePacketData / parsePacket28And29, updateCharset over character tables regenerated from the running package on every run, teletextPage.parse, parseTeletextRow / appendTeletextLineItem) plus an independent decoder written from EN 300 472 / ETS 300 706 (Spec.Teletext.decode: own Hamming 8/4 and odd-parity coders, page-instance automaton, spacing attributes, national option positions). Machine-checked for all inputs: every Hamming 8/4 codeword of the independent encoder is decoded to its data bits by the library table, also with any single bit inverted; odd-parity characters are stored as themselves and with any single bit inverted as an invalid character that yields no text and leaves the row state unchanged; national option positions in range and equal to the thirteen of the standard; every entry of teletextCharsets has a G0 set and valid rows (96 / 13); for every designation the package knows the patched table of updateCharset equals the specification's direct look-up at every code; the row text law (text before the start box contributes nothing, boxed characters form one trimmed run); immunity of the page buffer against non-subtitle / short / wrongly framed data units, stuffing, non-EBU payloads, packets of other magazines, packets received while no page is open, headers of other pages; a header of the selected page closes the open instance at its time and opens a new one. The whole-stream clauses (one cue per non-empty instance of the selected or auto-detected page on the given or auto-detected PID, start/end = presentation times relative to the first one, rows in row order, runs split at colour and size codes) are decided on every run by teletext.read (real transport streams built with the astits muxer and the harness' own teletext packet encoder from a ground-truth page schedule x multiplexing choices, plus damaged streams) and teletext.pes (PES level, byte-level damage): model vs implementation, with the independent decoder and the schedule's ground truth evaluated on every case.",
    "level_note": "Partial: the whole-stream statement is not proved in Lean (correspondence + independent decoder + ground truth on every generated case); go-astits demultiplexing is a contract (the model runs on the DemuxerData sequence the real demuxer delivered, recorded by the harness with the same call sequence as the reader); X/28 and M/29 triplets are taken in the library's raw convention (no Hamming 24/18 decoding, known finding). Pinned defects repaired by fix: commits: D18 as fix-1 (nil dereference on first X/28 / M/29), fix-2 (index panics on short payloads / data units / packets), fix-3 (nil DemuxerData); new: fix-4 (parity failure read as the 'alpha black' code), fix-5 (attribute codes after the end box restyle the boxed text), fix-6 (hexadecimal page numbers mistaken for decimal pages), fix-7 (size attributes compared by pointer: spurious run splits losing blanks), fix-8 (serial mode: header of another magazine with the same page number did not end the page). Known findings: known-1 (triplets not Hamming 24/18 decoded), known-2 (a row sent twice in an instance is returned twice), known-3 (go-astits v1.8.0 panics on a corrupted PES header; compared as a contract).",
    "technique": "Lean 4 proof of the component laws (finite table laws by kernel evaluation, row / packet laws by induction and case analysis) + differential correspondence with an independent Lean decoder and generator ground truth as oracles",
    "props": ["Astisub.Props.C06"],
    "streams": [{"name": "teletext.read"}, {"name": "teletext.pes", "needs_hooks": True}, {"name": "teletext.row", "needs_hooks": True},
                {"name": "teletext.charset", "needs_hooks": True}, {"name": "teletext.lib", "needs_hooks": True}],
    "trust": ["model: Teletext.* hand-written from teletext.go; go-astits (TS/PES/PSI demultiplexing, PTS arithmetic) is a contract recorded per case; astikit's Hamming 8/4 and parity tables and the package's character tables are regenerated from the running package (bin/gen_tables) and compared on all 256 bytes by teletext.lib",
              "the character tables themselves (which glyph sits at which code) are taken from the package; only their shape, the ASCII part of Latin G0 and the selection rule are checked"],
    "assumptions": ["page option >= 0; presentation times as delivered by go-astits (33-bit PTS, no wrap-around handling)",
                    "Spec class: error-free Hamming-protected bytes, 44-byte data units, each row at most once per page instance, consistent character set designations"],
}

NOT_APPLICABLE = {p: "not built yet in this session (work in progress; see DESIGN.md section 11 for the build order)" for p in
                  ["C03","C05","C07","C08"]}
