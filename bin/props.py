"""per-property configuration of bin/check"""

COMMON_TRUST = [
    "Lean 4.33.0 kernel (thorough tier: leanchecker re-check); accepted axioms: propext, Classical.choice, Quot.sound",
    "Lean compiler/runtime for the native driver that executes the model and the specification",
    "the Go harness (generators, canonical printers), bin/check (comparison) and the driver's parsers (the tie T2)",
    "Go semantics as modelled: int64 durations without overflow, slices/append, sort.SliceStable = any stable sort",
]

PROPS = {
    "C09": {
        "level_text": "Machine-checked Lean theorems over a loop-faithful model of Subtitles.Add, for every cue list and every d: the output equals the declarative specification (survivors = cues whose shifted end is > 0, in order, same identity and content, both boundaries moved by exactly d, start clamped at 0), exactly the dead cues are removed, and add(-d) after add(d) restores every cue that was neither clamped nor removed. The model is tied to /repo on every run by the ops.add correspondence stream (exhaustive small grids + random lists, both append aliasing regimes).",
        "level_note": "Trusted: Lean kernel; the hand-written model Ops.add and its tie (Go harness, driver, bin/check); int64 overflow excluded by range. The CLI path (main.go sync) is covered under C07.",
        "technique": "Lean 4 proof (induction over the cue list, filterMap refinement of the index-rewinding loop) + differential correspondence model vs. implementation",
        "props": ["Astisub.Props.C09"],
        "streams": [{"name": "ops.add"}],
        "trust": ["model: Ops.add is a hand-written zipper model of Subtitles.Add, tied to the code by the ops.add correspondence stream"],
        "assumptions": ["cue boundaries and d far below 2^62 ns (no int64 overflow)"],
    },
    "_C14": {
        "level_text": "Machine-checked Lean theorems over a literal model of Subtitles.ForceDuration for every ordered timeline, every d >= 1 ms and both filler values; tied to /repo by the ops.forceduration correspondence stream.",
        "level_note": "Trusted: Lean kernel; the hand-written model and its tie; int64 overflow excluded by range.",
        "technique": "Lean 4 proof (induction over the timeline) + differential correspondence model vs. implementation",
        "props": ["Astisub.Props.C14"],
        "streams": [{"name": "ops.forceduration"}],
        "trust": ["model: Ops.forceDuration mirrors Subtitles.ForceDuration/Duration, tied by the ops.forceduration stream"],
        "assumptions": ["cue boundaries and d far below 2^62 ns (no int64 overflow)"],
    },
}

NOT_APPLICABLE = {p: "not built yet in this session (work in progress; see DESIGN.md section 11 for the build order)" for p in
                  ["C01","C02","C03","C04","C05","C06","C07","C08","C10","C11","C12","C13","C14","C15","C16","C17","C18","C19","C20"]}
