"""per-property configuration of bin/check"""

COMMON_TRUST = [
    "Lean 4.33.0 kernel (thorough tier: leanchecker re-check); accepted axioms: propext, Classical.choice, Quot.sound",
    "Lean compiler/runtime for the native driver that executes the model and the specification",
    "the Go harness (generators, canonical printers), bin/check (comparison) and the driver's parsers (the tie T2)",
    "Go semantics as modelled: int64 durations without overflow, slices/append, sort.SliceStable = any stable sort",
]

PROPS = {
    "C09": {
        "level_text": "Machine-checked Lean theorems over a loop-faithful model of Subtitles.Add, for every cue list and every d: the output equals the declarative specification (survivors = cues whose shifted end is > 0, in order, same identity and content, both boundaries moved by exactly d, start clamped at 0), exactly the dead cues are removed, and add(-d) after add(d) restores every cue that was neither clamped nor removed. The model is tied to /repo on every run by the ops.add correspondence stream (exhaustive small grids + random lists, both append aliasing regimes).",
        "level_note": "Trusted: Lean kernel; the hand-written model Ops.add and its tie (Go harness, driver, bin/check); int64 overflow excluded by range. The CLI path (main.go sync) is covered under C07.",
        "technique": "Lean 4 proof (induction over the cue list, filterMap refinement of the index-rewinding loop) + differential correspondence model vs. implementation",
        "props": ["Astisub.Props.C09"],
        "streams": [{"name": "ops.add"}],
        "trust": ["model: Ops.add is a hand-written zipper model of Subtitles.Add, tied to the code by the ops.add correspondence stream"],
        "assumptions": ["cue boundaries and d far below 2^62 ns (no int64 overflow)"],
    },
    "C14": {
        "level_text": "Machine-checked Lean theorems over a literal model of Subtitles.ForceDuration for every ordered timeline, every d >= 1 ms and both filler values; tied to /repo by the ops.forceduration correspondence stream.",
        "level_note": "Trusted: Lean kernel; the hand-written model and its tie; int64 overflow excluded by range.",
        "technique": "Lean 4 proof (induction over the timeline) + differential correspondence model vs. implementation",
        "props": ["Astisub.Props.C14"],
        "streams": [{"name": "ops.forceduration"}],
        "trust": ["model: Ops.forceDuration mirrors Subtitles.ForceDuration/Duration, tied by the ops.forceduration stream"],
        "assumptions": ["cue boundaries and d far below 2^62 ns (no int64 overflow)"],
    },
}


PROPS["C10"] = {
    "level_text": "Machine-checked Lean theorems over the model of Subtitles.Fragment (inner cutting loop + Order) for every cue list and every f > 0: the pieces of each cue are consecutive, carry its content, are cut at every multiple of f strictly inside it and nowhere else, the original pointer is the last piece; the result is a permutation of all pieces, ordered by start, and no cue strictly contains a multiple of f; cues without a multiple inside are untouched. Tied to /repo by the ops.fragment stream (exhaustive grids of the property, both append aliasing regimes, random ms-granular lists).",
    "level_note": "Trusted: Lean kernel; hand-written model Ops.cut/Ops.fragment and its tie; sort.SliceStable modelled as List.mergeSort (any stable sort gives the same list); int64 overflow excluded by range. The pinned tree violated the property (D19), repaired by a fix: commit.",
    "technique": "Lean 4 proof (loop invariant of the cutting loop with fuel, chain covering argument, permutation/sortedness of mergeSort) + differential correspondence",
    "props": ["Astisub.Props.C10"],
    "streams": [{"name": "ops.fragment"}],
    "trust": ["model: Ops.cut / Ops.fragment mirror the repaired Subtitles.Fragment, tied by the ops.fragment stream"],
    "assumptions": ["cue boundaries and f far below 2^62 ns"],
}
PROPS["C11"] = {
    "level_text": "Machine-checked Lean theorems over a loop-faithful model of Subtitles.Unfragment (order, outer i loop, inner j loop with merge-and-delete and early break) for every cue list: afterwards no two same-text cues touch, the set of texts on screen at every instant is unchanged, the result is an ordered sub-sequence of the ordered input in which kept cues have the same identity/start/content and a not-earlier end, and lists without mergeable pairs are untouched. The inverse law (unfragment after fragment) is validated by the ops.fragunfrag correspondence stream with the specification predicate, not proved.",
    "level_note": "Trusted: Lean kernel; hand-written model and its tie. Partial: the inverse law and the connected-components characterisation are checked by correspondence + executable predicate only.",
    "technique": "Lean 4 proof (strong induction over the outer loop, invariants of the inner loop: extension, sub-sequence, separation, display equivalence) + differential correspondence",
    "props": ["Astisub.Props.C11"],
    "streams": [{"name": "ops.unfragment"}, {"name": "ops.fragunfrag"}],
    "trust": ["model: Ops.absorb / Ops.unfragLoop mirror the loops of Subtitles.Unfragment; Item.String modelled as lines joined by ' - ', runs by ''"],
    "assumptions": ["cue boundaries far below 2^62 ns"],
}
PROPS["C12"] = {
    "level_text": "Machine-checked Lean theorems: Order is a permutation, sorted by start and stable (every already-sorted sub-sequence survives in order); Merge leaves in A exactly the cues of A and B, ordered, A ahead of B on equal starts, relative order inside A and inside B kept; the region/style maps after Merge satisfy lookup id = lookup_A id <|> lookup_B id and A's definitions are never replaced. Tied to /repo by the ops.order and ops.merge streams (many ties, receivers with nil maps, arbitrary identifier overlap; B is observed unchanged).",
    "level_note": "Trusted: Lean kernel; sort.SliceStable modelled as List.mergeSort; Go maps as association lists; the tie. The nil-map receiver panic of the pinned tree (D20) is repaired by a fix: commit.",
    "technique": "Lean 4 proof (core mergeSort lemmas: perm, pairwise, stability; induction over the argument's map) + differential correspondence",
    "props": ["Astisub.Props.C12"],
    "streams": [{"name": "ops.order"}, {"name": "ops.merge"}],
    "trust": ["model: Ops.order = List.mergeSort on start; Graph.mergeDefs mirrors the two range loops of Subtitles.Merge"],
    "assumptions": ["B's map keys equal its definitions' identifiers (IdKeyed) for the lookup law"],
}
PROPS["C13"] = {
    "level_text": "Machine-checked Lean theorems over a loop-faithful model of Optimize/removeUnusedRegionsAndStyles (marking loops incl. the visited-set early exit of the inheritance walk): for every reference graph in which one identifier names one definition, the result equals the declarative reachability specification (exactly the reachable styles and the referenced regions are kept, cues untouched), every remaining reference resolves, the operation is idempotent and the empty list is left alone; RemoveStyling leaves no region, style or reference. Tied to /repo by ops.optimize / ops.removestyling on random pointer graphs (depth 0..4, shared parents, unused/shared definitions, dangling refs, cycles).",
    "level_note": "Trusted: Lean kernel; pointer graphs modelled as identifier chains; the tie. Partial: the write->read clause of the property is exercised by the codec checks (C01-C05) and the conversion stream, not proved here. The pinned tree violated the property (D21: parents of used styles deleted), repaired by a fix: commit.",
    "technique": "Lean 4 proof (closure invariant of the early-exit marking loop under identifier consistency, fold characterisations) + differential correspondence",
    "props": ["Astisub.Props.C13"],
    "streams": [{"name": "ops.optimize"}, {"name": "ops.removestyling"}],
    "trust": ["model: Graph.optimize mirrors removeUnusedRegionsAndStyles with references as identifier chains"],
    "assumptions": ["one identifier names one definition (Consistent) for the exactness theorem; other graphs are only compared model-vs-code"],
}


PROPS["C16"] = {
    "level_text": "Machine-checked Lean theorems over the model of formatDuration/parseDuration and the per-format wrappers, for every instant 0 <= t < 100 h at nanosecond resolution: the rendering has exactly the canonical shape (two-digit HH<100, MM,SS<60, exactly 3 resp. 2 fraction digits); each format's own reader maps it back to t truncated to the format's unit (floor, multiple of the unit, monotone), and formatting the value read back gives the identical text. For STL at 25 and 30 fps (t < 24 h): fields h<24, m,s<60, f<fr; the value read back is within 1 ns of the frame instant and read-then-write changes no field. The float path of formatDuration is tied to the integer model by ts.fracsweep (all 10^9 values of t mod 1s in the thorough tier) and ts.sweep (every millisecond of 24 h in the thorough tier).",
    "level_note": "Trusted: Lean kernel; hand-written integer model of the float expression in formatDuration (validated exhaustively on the implementation, not proved from IEEE-754); strings/strconv re-implementations (lib streams); the tie. The pinned tree violated the STL clause at 30 fps (D16), repaired by a fix: commit. TTML offset/frames syntaxes are treated under C03.",
    "technique": "Lean 4 proof (explicit digit-string lemmas for Itoa/Atoi/Split/TrimSpace, omega over the field arithmetic) + differential correspondence incl. exhaustive sweeps on the implementation",
    "props": ["Astisub.Props.C16"],
    "streams": [{"name": "ts.text", "needs_hooks": True}, {"name": "ts.stl", "needs_hooks": True},
                {"name": "ts.fracsweep", "needs_hooks": True}, {"name": "ts.sweep", "needs_hooks": True}],
    "trust": ["model: Duration.format computes the fraction digits in integer arithmetic; Go goes through float64 (math.Floor(float64(n)/1e6/10^k)) - tie: exhaustive comparison on the implementation"],
    "assumptions": ["0 <= t < 100 h (24 h for STL)"],
}

NOT_APPLICABLE = {p: "not built yet in this session (work in progress; see DESIGN.md section 11 for the build order)" for p in
                  ["C01","C02","C03","C04","C05","C06","C07","C08","C15","C17","C18","C19","C20"]}
