import Astisub.Lemmas.STL2View
import Astisub.Props.C05doc

/-!
# C05 (documents, second part) — EBU STL: rows made of several runs, the independent decoder, rewriting

`Props/C05doc.lean` proves the block and file round trips of the model for cues with one run per row.  This file
removes that restriction and adds the two remaining whole-document clauses of the `stl.write` check, all for
display standard 0 (open subtitling) and for **all** inputs satisfying explicit decidable predicates:

* rows of several runs, each with its own italics / underline / boxing (`tti_roundtrip_multirun`: the statement
  left open in `C05doc`, now a theorem; `tti_roundtrip_runs`, `row_read_back`: the exact form — reading joins
  adjacent *unstyled* runs and changes nothing else; `tti_roundtrip_runs_exact`: nothing at all changes when no
  two unstyled runs are adjacent), lifted to whole files (`stl_roundtrip_multirun`, `…_text`);
* **W2**: the independent decoder `Spec.STL.decode`, applied to the bytes the writer model produces, accepts
  them and denotes `specDoc` (`decode_write`); it denotes the same timecodes, runs and metadata as the model of
  the library's reader returns (`read_agrees_with_decode`), stated with the views the `stl.write` stream compares
  (`Driver.STLD.linesView` / `specLines` / `runView` / `floorFrame`);
* **rewrite stability**: reading a written file and writing what was read changes no timecode byte of any TTI
  block, nor the programme-start field of the GSI block (`rewrite_keeps_timecodes`), at 25 and 30 fps, for any
  programme start.  Not proved, kept as a statement: byte equality of the whole TTI blocks
  (`rewrite_tti_blocks_Statement`).

Vocabulary (new here; defined in `Lemmas/STL2*.lean`; all predicates decidable, instances below):

* `MCue` — a cue whose rows are lists of runs (`RRun`: repertoire units + three style flags); `MCue.toW` is the cue
  as the writer sees it.  `RRun.okT r`: repertoire units, text not empty and without white space at its ends.
  `MCue.ok c`: every row has a run, every run is `okT`, the encoded text fits the 112-byte field.
* `lineSegs l : List (Str × O3)` — the runs both readers return for the row written from `l` (an executable
  function: text, and italics / underline / boxing as *unset / on / off*); `lineOf l` the library reader's `Line`,
  `runOf` the independent decoder's run.  `ttiCueM R G off c` — the cue the library reader returns for the block
  written from `c`; `specCueM fr G off c` — the cue the independent decoder denotes.
* `wv r = (text, (italics, underline, boxing))` — a written run as the check sees it; `mergePlain` joins every
  stretch of adjacent unstyled runs (texts separated by one blank); `wLine l = mergeRuns (l.map wv)`.
* `InDay T` — `0 ≤ T < 24 h` (a TTI timecode has no more room); `SpecOK g` — the GSI strings are printable ASCII
  and the two GSI timecodes lie within a day (the class of files `Spec.STL.decode` speaks about).
-/

namespace Astisub
namespace C05
open Go STL

instance (r : RRun) : Decidable r.okT := by unfold RRun.okT; infer_instance
instance {α} (l : List α) : Decidable (l ≠ []) := decidable_of_iff (l.isEmpty = false) (by cases l <;> simp)
instance (c : MCue) : Decidable c.ok := by unfold MCue.ok; infer_instance

/-! ## rows made of several runs -/

/-- **What reading does to a row.**  For every row of runs that are carried as they are (`okT`), the runs both
    readers return — seen as (text, italics on, underline on, boxing on) — are the runs written, with every
    stretch of adjacent unstyled runs joined into one run (texts separated by a blank).  Nothing else changes:
    styled runs are never merged, split, reordered or restyled. -/
theorem row_read_back (l : List RRun) (h : ∀ r ∈ l, r.okT) :
    (lineSegs l).map ev = mergePlain (l.map wv) :=
  lineSegs_view l (fun r hr => (h r hr).tr)

/-- the library reader's row parser returns exactly `lineSegs` (as one line), for any amount of padding after
    the row, and leaves no diacritic pending -/
theorem row_library (l : List RRun) (hne : l ≠ []) (h : ∀ r ∈ l, r.okT) (k : Nat) :
    STL.openRow none (lineBytes l ++ List.replicate k 0x8F) = some (some { items := (lineSegs l).map itemOf }, none) :=
  openRow_line l hne h k

/-- the independent decoder's row parser denotes exactly `lineSegs` on the same bytes -/
theorem row_decoder (l : List RRun) (h : ∀ r ∈ l, r.okT) (k : Nat) :
    Spec.STL.openRow (lineBytes l ++ List.replicate k 0x8F) {} [] [] = some ((lineSegs l).map runOf) :=
  spec_openRow_line l (fun r hr => (h r hr).1) k

/-- **TTI block round trip, rows of several runs (exact form).**  For every cue whose rows are non-empty lists of
    runs carried as they are and whose encoded text fits the field — whatever the times, justification, vertical
    position and subtitle number — the open-subtitling reader parses the 128 bytes the writer emits into exactly
    `ttiCueM`: times = frame instants minus the reader's programme start, attributes from the written
    justification code / vertical position byte / number of rows, and per row the line `lineOf` (the runs
    `lineSegs`); no diacritic is left pending. -/
theorem tti_roundtrip_runs (R : GSI) (G : WGSI) (off : Int) (idx : Nat) (c : MCue)
    (hfr : R.m.framerate = G.m.framerate) (hdsc : R.m.dsc = [0x30]) (hok : c.ok) :
    ttiItem R off none (ttiBytes G idx c.toW) = some (some (ttiCueM R G off c), none) :=
  ttiItem_ttiBytesM R G off idx c hfr hdsc hok

/-- the cue read back, field by field (definition of `ttiCueM`) -/
theorem ttiCueM_fields (R : GSI) (G : WGSI) (off : Int) (c : MCue) :
    ttiCueM R G off c =
      { startAt := frameInstant G.m.framerate (c.startAt + G.m.tcp) - off,
        endAt := frameInstant G.m.framerate (c.endAt + G.m.tcp) - off,
        attrs := itemAttrs (justCode c.just) (vpByte (c.vp.getD 20) G.m.dsc) (R.m.maxRows.getD 0) (max 1 c.rows.length),
        lines := c.rows.map fun l => { items := (lineSegs l).map itemOf } } := rfl

/-- … and its runs, in the check's view (text, `effSty`): the written runs with adjacent unstyled runs joined -/
theorem tti_runs_read_back (R : GSI) (G : WGSI) (off : Int) (c : MCue) (hok : c.ok) :
    (ttiCueM R G off c).lines.map (fun l => l.items.map fun li => (li.text, Driver.STLD.effSty li))
      = c.rows.map fun l => mergePlain (l.map wv) := by
  unfold ttiCueM
  simp only [List.map_map]
  apply List.map_congr_left
  intro l hl
  exact lineOf_runs l (hok.1 l hl).2

/-- **… exactly the runs written** when no two unstyled runs are adjacent in any row (in particular when adjacent
    runs differ in style): same number of runs per row, same texts, same effective styles -/
theorem tti_roundtrip_runs_exact (R : GSI) (G : WGSI) (off : Int) (c : MCue) (hok : c.ok)
    (hadj : ∀ l ∈ c.rows, noAdjPlain (l.map wv) = true) :
    (ttiCueM R G off c).lines.map (fun l => l.items.map fun li => (li.text, Driver.STLD.effSty li))
      = c.rows.map fun l => l.map wv := by
  rw [tti_runs_read_back R G off c hok]
  apply List.map_congr_left
  intro l hl
  exact mergePlain_id _ (wv_ne l (hok.1 l hl).2) (hadj l hl)

/-- **… and in the view the `stl.write` stream compares** (`Driver.STLD.linesView`: adjacent runs of equal effective
    style are one stretch of text): the lines read back are the lines written -/
theorem tti_linesView (R : GSI) (G : WGSI) (off : Int) (c : MCue) (hok : c.ok) :
    Driver.STLD.linesView (ttiCueM R G off c) = c.rows.map wLine :=
  linesView_ttiCueM R G off c (fun l hl => (hok.1 l hl).2)

/-- **`tti_roundtrip_multirun_Statement` of `Props/C05doc.lean` holds.**  (The hypothesis "no two blanks in a
    row" of that statement is not needed.) -/
theorem tti_roundtrip_multirun : tti_roundtrip_multirun_Statement := by
  intro R G off idx c hfr hdsc hl hfit
  have hlift : ∀ l ∈ c.lines, (l ≠ [] ∧ ∀ r ∈ l, RepText r.text ∧ trimSpace (str r.text) = str r.text ∧ r.text ≠ [] ∧
      ¬ Go.contains "  ".toList (str r.text) = true) → ∃ l' : List RRun, l'.map RRun.toW = l ∧ (l' ≠ [] ∧ ∀ r ∈ l', r.okT) := by
    intro l _ ⟨hne, hr⟩
    obtain ⟨l', e, hq⟩ := lift_list RRun.toW _ RRun.okT
      (fun r (hr : RepText' r.text ∧ trimSpace (str r.text) = str r.text ∧ r.text ≠ []) => lift_run r hr) l
      (fun r hr' => ⟨(hr r hr').1, (hr r hr').2.1, (hr r hr').2.2.1⟩)
    refine ⟨l', e, ?_, hq⟩
    intro e'; subst e'; exact hne e.symm
  obtain ⟨rows, hrows, hq⟩ := lift_list (fun l' : List RRun => l'.map RRun.toW)
    (fun l => l ∈ c.lines ∧ (l ≠ [] ∧ ∀ r ∈ l, RepText r.text ∧ trimSpace (str r.text) = str r.text ∧ r.text ≠ [] ∧
      ¬ Go.contains "  ".toList (str r.text) = true))
    (fun l' : List RRun => l' ≠ [] ∧ ∀ r ∈ l', r.okT) (fun l hl' => hlift l hl'.1 hl'.2) c.lines
    (fun l hl' => ⟨hl', hl l hl'⟩)
  let mc : MCue := { startAt := c.startAt, endAt := c.endAt, just := c.just, vp := c.vp, rows := rows }
  have hc : mc.toW = c := by
    obtain ⟨s, e, j, v, ls⟩ := c
    simp only [MCue.toW, mc] at hrows ⊢
    rw [hrows]
  have hok : mc.ok := ⟨hq, by rw [hc]; exact hfit⟩
  refine ⟨ttiCueM R G off mc, ?_, ?_⟩
  · rw [← hc]; exact tti_roundtrip_runs R G off idx mc hfr hdsc hok
  · have := tti_linesView R G off mc hok
    unfold Driver.STLD.linesView at this
    rw [this, ← hrows, List.map_map]
    apply List.map_congr_left
    intro l _
    simp only [Function.comp, wLine, List.map_map]
    rfl

/-! ## whole file, display standard 0, rows of several runs -/

/-- **File round trip.**  `C05.file_roundtrip` for cues with rows of several runs -/
theorem file_roundtrip_multirun (ig : Bool) (now : Date) (md : Option Meta) (cs : List MCue)
    (hG : GsiOK (newGSI now md (cs.map MCue.toW))) (hdsc : (newGSI now md (cs.map MCue.toW)).m.dsc = [0x30])
    (hok : ∀ c ∈ cs, c.ok) :
    STL.read ig (writeBody now md (cs.map MCue.toW))
      = .ok (readMeta ig (gsiBack (newGSI now md (cs.map MCue.toW))),
             cs.map fun c => ttiCueM (gsiBack (newGSI now md (cs.map MCue.toW))) (newGSI now md (cs.map MCue.toW))
               (readMeta ig (gsiBack (newGSI now md (cs.map MCue.toW)))).tcp c) :=
  read_writeBodyM ig now md cs hG hdsc hok

/-- **EBU STL round trip, display standard 0, rows of several runs (end to end).**  For every non-empty list of
    well-formed cues (`MCue.ok`) with non-negative times and every well-formed metadata (`MetaOK`, programme
    start ≥ 0): the writer model produces a file, and the reader model — with or without
    `IgnoreTimecodeStartOfProgramme` — reads it back into the normal form: metadata `gsiBack`, cues `ttiCueM`. -/
theorem stl_roundtrip_multirun (ig : Bool) (now : Date) (m : Meta) (cs : List MCue) (hne : cs ≠ [])
    (hm : MetaOK now m (firstStart (cs.map MCue.toW))) (htcp : 0 ≤ m.tcp)
    (hok : ∀ c ∈ cs, c.ok) (ht : ∀ c ∈ cs, MTimesOK m.tcp c) :
    ∃ b, write now (some m) (cs.map MCue.toW) = .ok b ∧
      STL.read ig b
        = .ok (readMeta ig (gsiBack (newGSI now (some m) (cs.map MCue.toW))),
               cs.map fun c => ttiCueM (gsiBack (newGSI now (some m) (cs.map MCue.toW))) (newGSI now (some m) (cs.map MCue.toW))
                 (readMeta ig (gsiBack (newGSI now (some m) (cs.map MCue.toW)))).tcp c) :=
  ⟨_, write_okM now m cs hne htcp hok ht,
    file_roundtrip_multirun ig now (some m) cs (newGSI_ok now m _ hm).1 (newGSI_ok now m _ hm).2 hok⟩

/-- **… the text comes back**, as the `stl.write` stream compares it (clause "text read back"): same number of
    cues, and for every cue the lines read (`Driver.STLD.linesView`) are the lines written -/
theorem stl_roundtrip_multirun_text (ig : Bool) (now : Date) (m : Meta) (cs : List MCue) (b : Bytes)
    (hm : MetaOK now m (firstStart (cs.map MCue.toW))) (hok : ∀ c ∈ cs, c.ok)
    (hw : write now (some m) (cs.map MCue.toW) = .ok b) :
    ∃ md items, STL.read ig b = .ok (md, items) ∧ items.length = cs.length ∧
      items.map Driver.STLD.linesView = cs.map fun c => c.rows.map wLine := by
  have hb : b = writeBody now (some m) (cs.map MCue.toW) := by
    unfold write at hw
    split at hw
    · cases hw
    · split at hw
      · cases hw
      · exact (Res.ok.inj hw).symm
  refine ⟨_, _, by rw [hb]; exact file_roundtrip_multirun ig now (some m) cs (newGSI_ok now m _ hm).1 (newGSI_ok now m _ hm).2 hok,
    by simp, ?_⟩
  rw [List.map_map]
  apply List.map_congr_left
  intro c hc
  exact tti_linesView _ _ _ c (hok c hc)

/-! ## W2: the independent decoder on written files -/

/-- **Independent decoder, one TTI block.**  On the 128 bytes the writer emits for a well-formed cue with at least
    one row and both instants (plus programme start) within a day, `Spec.STL.tti` denotes `specCueM`: the frame
    instants minus `off`, the justification code, the vertical position byte, the number of rows, and per row
    the runs `lineSegs` -/
theorem decoder_tti (fr : Nat) (G : WGSI) (off : Int) (idx : Nat) (c : MCue)
    (hfr : fr = 25 ∨ fr = 30) (hg : G.m.framerate = (fr : Int)) (hok : c.ok) (hne : c.rows ≠ [])
    (hs : InDay (c.startAt + G.m.tcp)) (he : InDay (c.endAt + G.m.tcp)) :
    Spec.STL.tti fr 0 off (ttiBytes G idx c.toW) = some (some (specCueM fr G off c)) :=
  spec_tti_ttiBytesM fr G off idx c hfr hg hok hne hs he

/-- **W2 (write → independent decoder).**  For every list of well-formed cues (each with at least one row, instants
    within a day) and metadata whose GSI block is well-formed (`GsiOK`), printable (`SpecOK`) and says "open
    subtitling", `Spec.STL.decode` accepts the written bytes and denotes `specDoc`: frame rate, display standard
    0, language code, the eleven text values, dates, revision number, maximum characters / rows, the programme
    start (0 when ignored) and the cues `specCueM` -/
theorem decode_write (ig : Bool) (now : Date) (md : Option Meta) (cs : List MCue)
    (hG : GsiOK (newGSI now md (cs.map MCue.toW))) (hS : SpecOK (newGSI now md (cs.map MCue.toW)))
    (hdsc : (newGSI now md (cs.map MCue.toW)).m.dsc = [0x30])
    (hok : ∀ c ∈ cs, c.ok ∧ c.rows ≠ [] ∧ InDay (c.startAt + (newGSI now md (cs.map MCue.toW)).m.tcp) ∧
      InDay (c.endAt + (newGSI now md (cs.map MCue.toW)).m.tcp)) :
    Spec.STL.decode ig (writeBody now md (cs.map MCue.toW)) = some (specDoc ig (newGSI now md (cs.map MCue.toW)) cs) := by
  rw [writeBody_eq]
  exact decode_body ig _ cs hG hS hdsc hok

/-- the document denoted, field by field (definition of `specDoc`) -/
theorem specDoc_fields (ig : Bool) (G : WGSI) (cs : List MCue) :
    specDoc ig G cs =
      { fr := G.m.framerate.toNat, dsc := 0, lang := G.langCode,
        texts := [G.m.title, G.m.origEpisode, G.m.translProgram, G.m.translEpisode, G.m.translName, G.m.translContact,
                  G.m.slr, G.m.country, G.m.publisher, G.m.editorName, G.m.editorContact],
        cd := dateT (G.m.creation.getD zeroDate), rd := dateT (G.m.revisionDate.getD zeroDate),
        rn := G.m.revisionNumber.toNat, mnc := (G.m.maxChars.getD 0).toNat, mnr := (G.m.maxRows.getD 0).toNat,
        tcpNs := if ig then 0 else frameInstant G.m.framerate G.m.tcp,
        cues := cs.map fun c => specCueM G.m.framerate.toNat G (if ig then 0 else frameInstant G.m.framerate G.m.tcp) c } := rfl

/-- **Reader and independent decoder agree on written files.**  Under the hypotheses of `decode_write`, the model
    of the library's reader and the independent decoder both accept the file the writer model produces, and
    * cue by cue they give the same two instants (clauses "timecodes read back" / "independent decoder: timecodes");
    * cue by cue the runs agree exactly — the check's view `runView` of every run the reader built is the run the
      decoder denotes (clause "cue text / styling" of `stl.read`) — hence also under `linesView` / `specLines`,
      where both are the lines written (clauses "text read back" / "independent decoder: text");
    * the metadata agrees: frame rate, display standard, the eleven text values, dates, revision number, maximum
      characters / rows, programme start (clause "independent decoder: metadata") -/
theorem read_agrees_with_decode (ig : Bool) (now : Date) (md : Option Meta) (cs : List MCue)
    (hG : GsiOK (newGSI now md (cs.map MCue.toW))) (hS : SpecOK (newGSI now md (cs.map MCue.toW)))
    (hdsc : (newGSI now md (cs.map MCue.toW)).m.dsc = [0x30])
    (hok : ∀ c ∈ cs, c.ok ∧ c.rows ≠ [] ∧ InDay (c.startAt + (newGSI now md (cs.map MCue.toW)).m.tcp) ∧
      InDay (c.endAt + (newGSI now md (cs.map MCue.toW)).m.tcp)) :
    ∃ m items d, STL.read ig (writeBody now md (cs.map MCue.toW)) = .ok (m, items) ∧
      Spec.STL.decode ig (writeBody now md (cs.map MCue.toW)) = some d ∧
      items.map (fun it => (it.startAt, it.endAt)) = d.cues.map (fun c => (c.startNs, c.endNs)) ∧
      items.map (fun it => it.lines.map fun l => l.items.map Driver.STLD.runView) = d.cues.map (·.lines) ∧
      items.map Driver.STLD.linesView = d.cues.map Driver.STLD.specLines ∧
      d.cues.map Driver.STLD.specLines = cs.map (fun c => c.rows.map wLine) ∧
      m.framerate = (d.fr : Int) ∧ m.dsc = [48 + d.dsc] ∧ m.tcp = d.tcpNs ∧
      [m.title, m.origEpisode, m.translProgram, m.translEpisode, m.translName, m.translContact, m.slr, m.country,
        m.publisher, m.editorName, m.editorContact] = d.texts ∧
      m.creation.map dateT = some d.cd ∧ m.revisionDate.map dateT = some d.rd ∧
      m.revisionNumber = (d.rn : Int) ∧ m.maxChars = some (d.mnc : Int) ∧ m.maxRows = some (d.mnr : Int) := by
  generalize hGd : newGSI now md (cs.map MCue.toW) = G at hG hS hdsc hok
  have hread := file_roundtrip_multirun ig now md cs (by rw [hGd]; exact hG) (by rw [hGd]; exact hdsc) (fun c hc => (hok c hc).1)
  have hdec := decode_write ig now md cs (by rw [hGd]; exact hG) (by rw [hGd]; exact hS) (by rw [hGd]; exact hdsc)
    (by rw [hGd]; exact hok)
  rw [hGd] at hread hdec
  obtain ⟨fr, hfrN, hfrI⟩ : ∃ fr : Nat, (fr = 25 ∨ fr = 30) ∧ G.m.framerate = (fr : Int) := by
    rcases hG.1 with e | e
    · exact ⟨25, Or.inl rfl, e⟩
    · exact ⟨30, Or.inr rfl, e⟩
  have hoff : (readMeta ig (gsiBack G)).tcp = if ig then 0 else frameInstant G.m.framerate G.m.tcp := by
    unfold readMeta gsiBack; cases ig <;> rfl
  obtain ⟨_, _, _, _, _, _, _, _, _, _, _, _, _, _, _, _, ⟨hrn0, _⟩, ⟨hmc0, _⟩, ⟨hmr0, _⟩, _, _⟩ := hG
  refine ⟨_, _, _, hread, hdec, ?_, ?_, ?_, ?_, ?_, ?_, ?_, ?_, ?_, ?_, ?_, ?_, ?_⟩
  · simp only [specDoc, List.map_map]
    apply List.map_congr_left
    intro c _
    simp only [Function.comp, ttiCueM, specCueM, hoff, hfrI, Int.toNat_natCast]
  · simp only [specDoc, List.map_map]
    apply List.map_congr_left
    intro c _
    simp only [Function.comp, ttiCueM, specCueM, List.map_map]
    apply List.map_congr_left
    intro l _
    simp only [Function.comp, lineOf, List.map_map]
    apply List.map_congr_left
    intro g _
    exact runView_itemOf g
  · simp only [specDoc, List.map_map]
    apply List.map_congr_left
    intro c hc
    simp only [Function.comp]
    rw [tti_linesView _ _ _ c (hok c hc).1, specLines_specCueM _ _ _ c (fun l hl => ((hok c hc).1.1 l hl).2)]
  · simp only [specDoc, List.map_map]
    apply List.map_congr_left
    intro c hc
    exact specLines_specCueM _ _ _ c (fun l hl => ((hok c hc).1.1 l hl).2)
  · unfold readMeta gsiBack specDoc; cases ig <;> simp [hfrI]
  · unfold readMeta gsiBack specDoc; cases ig <;> simp [hdsc]
  · rw [hoff]; rfl
  · unfold readMeta gsiBack specDoc; cases ig <;> rfl
  · unfold readMeta gsiBack specDoc; cases ig <;> rfl
  · unfold readMeta gsiBack specDoc; cases ig <;> rfl
  · unfold readMeta gsiBack specDoc; cases ig <;> simp <;> omega
  · unfold readMeta gsiBack specDoc; cases ig <;> simp <;> omega
  · unfold readMeta gsiBack specDoc; cases ig <;> simp <;> omega

/-- the check states the expected instants with `floorFrame`; it is the instant the reader computes (`frameInstant`),
    at both frame rates, for every instant below 256 h (negative instants are clamped to 0 by both) -/
theorem floorFrame_is_frameInstant (T : Int) (fr : Nat) (hfr : fr = 25 ∨ fr = 30) (h1 : T < 921600000000000) :
    Driver.STLD.floorFrame fr T = frameInstant (fr : Int) T :=
  floorFrame_eq T fr hfr h1

/-! ## rewrite stability -/

/-- **Reading a written file and writing it again changes no timecode** (file level; 25 and 30 fps; any programme
    start; with or without `IgnoreTimecodeStartOfProgramme`).  Let `out` be the file the writer model produces
    for well-formed cues whose instants (plus programme start) lie within a day, `(m2, items2)` what the reader
    model returns for `out`, and `again` any file the writer model produces from `m2` and the cues
    `items2.map Driver.STLD.cueOf` (the view of the read-back cues the `stl.write` stream hands to the writer),
    on whatever day.  Then the timecode-in / timecode-out bytes of every TTI block of `again`
    (`Driver.STLD.timecodes`: bytes 5–12 of every block) are those of `out`; and, if the programme start was not
    ignored and lies within a day, the programme-start field of the GSI block (bytes 256–263) is unchanged too.
    This is the clause "rewrite changes no timecode" of the stream, for all inputs. -/
theorem rewrite_keeps_timecodes (ig : Bool) (now now2 : Date) (m : Meta) (cs : List MCue) (out again : Bytes)
    (m2 : Meta) (items2 : List CItem)
    (hm : MetaOK now m (firstStart (cs.map MCue.toW))) (hok : ∀ c ∈ cs, c.ok)
    (hday : ∀ c ∈ cs, InDay (c.startAt + m.tcp) ∧ InDay (c.endAt + m.tcp))
    (hw : write now (some m) (cs.map MCue.toW) = .ok out)
    (hr : STL.read ig out = .ok (m2, items2))
    (hw2 : write now2 (some m2) (items2.map Driver.STLD.cueOf) = .ok again) :
    Driver.STLD.timecodes again = Driver.STLD.timecodes out ∧
    (ig = false → InDay m.tcp → (again.drop 256).take 8 = (out.drop 256).take 8) := by
  have hout : out = writeBody now (some m) (cs.map MCue.toW) := by
    unfold write at hw
    split at hw
    · cases hw
    · split at hw
      · cases hw
      · exact (Res.ok.inj hw).symm
  have hagain : again = writeBody now2 (some m2) (items2.map Driver.STLD.cueOf) := by
    unfold write at hw2
    split at hw2
    · cases hw2
    · split at hw2
      · cases hw2
      · exact (Res.ok.inj hw2).symm
  obtain ⟨hG, hdsc⟩ := newGSI_ok now m (cs.map MCue.toW) hm
  have hread := file_roundtrip_multirun ig now (some m) cs hG hdsc hok
  rw [← hout, hr] at hread
  have hinj := Res.ok.inj hread
  generalize hGd : newGSI now (some m) (cs.map MCue.toW) = G at hG hdsc hinj
  obtain ⟨fr, hfrN, hfrI⟩ : ∃ fr : Nat, (fr = 25 ∨ fr = 30) ∧ G.m.framerate = (fr : Int) := by
    rcases hG.1 with e | e
    · exact ⟨25, Or.inl rfl, e⟩
    · exact ⟨30, Or.inr rfl, e⟩
  have hGtcp : G.m.tcp = m.tcp := by rw [← hGd]; rfl
  have hm2 : m2 = readMeta ig (gsiBack G) := (Prod.mk.inj hinj).1
  have hitems : items2 = cs.map fun c => ttiCueM (gsiBack G) G (readMeta ig (gsiBack G)).tcp c := (Prod.mk.inj hinj).2
  have hm2fr : m2.framerate = (fr : Int) := by rw [hm2]; unfold readMeta gsiBack; cases ig <;> exact hfrI
  -- the second GSI block
  generalize hG2d : newGSI now2 (some m2) (items2.map Driver.STLD.cueOf) = G2
  have hG2fr : G2.m.framerate = (fr : Int) := by
    have hdfc : (dfcOf m2.framerate).isSome = true := by rw [hm2fr]; rcases hfrN with rfl | rfl <;> decide
    rw [← hG2d]; unfold newGSI; simp only [hdfc, if_true]; exact hm2fr
  have hG2tcp : G2.m.tcp = m2.tcp := by rw [← hG2d]; rfl
  have hfrT : G.m.framerate.toNat = fr := by rw [hfrI]; rfl
  have hfrT2 : G2.m.framerate.toNat = fr := by rw [hG2fr]; rfl
  have e1 : Driver.STLD.timecodes out = (cs.map MCue.toW).map fun c => tcBytes fr G.m.tcp c.startAt c.endAt := by
    rw [hout, timecodes_writeBody now (some m) _ G hGd, hfrT]
  have e2 : Driver.STLD.timecodes again
      = (items2.map Driver.STLD.cueOf).map fun c => tcBytes fr m2.tcp c.startAt c.endAt := by
    rw [hagain, timecodes_writeBody now2 (some m2) _ G2 hG2d, hfrT2, hG2tcp]
  constructor
  · rw [e1, e2, hitems, hm2]
    exact rewrite_tc (gsiBack G) G _ fr hfrN hfrI cs (by rw [hGtcp]; exact hday)
  · intro hig htcp
    have htcp2 : m2.tcp = frameInstant (fr : Int) m.tcp := by
      rw [hm2, hig]; unfold readMeta gsiBack; simp only [Bool.false_eq_true, if_false, hfrI, hGtcp]
    rw [hout, hagain, tcp_field_writeBody now (some m) _ G hGd, tcp_field_writeBody now2 (some m2) _ G2 hG2d,
      hfrT, hfrT2, hG2tcp, htcp2, hGtcp, formatSTL_rewrite m.tcp fr hfrN htcp.1 htcp.2]

/-- **UNPROVED — statement only** (the ideal form of rewrite stability; `rewrite_keeps_timecodes` is the proved part).
    For well-formed input the second write always succeeds and *every byte of every TTI block* is unchanged:
    subtitle number, both timecodes, vertical position, justification and the 112-byte text field (the reader
    joins adjacent unstyled runs and keeps "off" attributes, but the writer emits the same bytes for that).
    What is missing in the proof: the view `Driver.STLD.cueOf` of a read-back cue parses `STLJustification` and
    `STLPosition` with `String.toInt?`, which has no usable reduction lemmas here, and the text of the read-back
    runs has to be shown to be repertoire text again (joined runs = units with a blank unit in between).
    Evaluated (`#eval`, not a proof) on `Example2` and on a two-row variant with accents: holds. -/
def rewrite_tti_blocks_Statement : Prop :=
  ∀ (now now2 : Date) (m : Meta) (cs : List MCue), cs ≠ [] → MetaOK now m (firstStart (cs.map MCue.toW)) →
    (∀ c ∈ cs, c.ok ∧ c.rows ≠ []) → (∀ c ∈ cs, InDay (c.startAt + m.tcp) ∧ InDay (c.endAt + m.tcp)) → InDay m.tcp →
    (∀ c ∈ cs, (∃ j, c.just = some j ∧ 1 ≤ j ∧ j ≤ 4) ∧ (∃ v, c.vp = some v ∧ 0 ≤ v ∧ v < 256)) →
    ∃ out m2 items2 again, write now (some m) (cs.map MCue.toW) = .ok out ∧ STL.read false out = .ok (m2, items2) ∧
      write now2 (some m2) (items2.map Driver.STLD.cueOf) = .ok again ∧ again.drop 1024 = out.drop 1024

/-! ## the hypotheses are satisfiable (non-vacuity) -/

namespace Example2

/-- "N" in italics, "a" and "b" unstyled, "x" underlined — four runs on one row (first cue); a row
    "x" (underlined) + "b" (unstyled) in the second cue.  (Kept short: the kernel evaluates the NFD tables
    for every code point; accented text is exercised by `C05.Example` and covered by the theorems.) -/
def rA : RRun := { units := [charUnit (0x4E, [0x4E])], italics := true }
def rB : RRun := { units := [charUnit (0x61, [0x61])] }
def rC : RRun := { units := [charUnit (0x62, [0x62])] }
def rD : RRun := { units := [charUnit (0x78, [0x78])], underline := true }

def cue1 : MCue := { startAt := 1000000000, endAt := 2040000000, just := some 3, vp := some 20, rows := [[rA, rB, rC, rD]] }
def cue2 : MCue := { startAt := 3000000000, endAt := 4000000000, rows := [[rD, rC]] }

def gsi : WGSI := newGSI Example.day (some Example.meta1) [cue1.toW, cue2.toW]

example : rA.okT := by decide +kernel
example : rD.okT := by decide +kernel
example : cue1.ok := by decide +kernel
example : cue2.ok := by decide +kernel
example : cue1.rows ≠ [] := by decide
example : MetaOK Example.day Example.meta1 (firstStart [cue1.toW, cue2.toW]) := by decide +kernel
example : GsiOK gsi := by decide +kernel
example : SpecOK gsi := by decide +kernel
example : gsi.m.dsc = [0x30] := by decide +kernel
example : ∀ c ∈ [cue1, cue2], MTimesOK Example.meta1.tcp c := by decide
example : ∀ c ∈ [cue1, cue2], InDay (c.startAt + gsi.m.tcp) ∧ InDay (c.endAt + gsi.m.tcp) := by decide +kernel
example : InDay Example.meta1.tcp := by decide
/-- the row of the first cue has two adjacent unstyled runs (so reading joins them), the row of the second has none -/
example : noAdjPlain ([rA, rB, rC, rD].map wv) = false := by decide +kernel
example : ∀ l ∈ cue2.rows, noAdjPlain (l.map wv) = true := by decide +kernel
/-- what both readers return for the first row: "N" italics on; "a b" with italics *off*; "x" with italics
    off and underline on -/
example : lineSegs [rA, rB, rC, rD] =
    [("N".toList, (some true, none, none)), ("a b".toList, (some false, none, none)),
     ("x".toList, (some false, some true, none))] := by decide +kernel

end Example2

end C05
end Astisub
