import Astisub.Lemmas.VTT2Compat
import Astisub.Lemmas.VTT2View
import Astisub.Lemmas.VTT2Example

/-!
# C02 (write → read, complete document) — comments, regions, STYLE block, timestamp map

Continuation of `Props/C02doc.lean`.  All statements are about the models `VTT.write` /
`VTT.read` / `VTT.step` (`Model/VTT.lean`) and hold for **all** cue lists satisfying the decidable
proviso `DocOk` (each conjunct has a concrete example next to its definition in
`Lemmas/VTT2*.lean`; `VTT.exDoc` satisfies all of them at once: `docOk_example`).

* `written_lines` — the exact lines of ANY written document (no proviso besides a non-empty list).
* `comment_block_roundtrip`, `write_read_comments` — NOTE blocks; the statement `C02doc` left open.
* `region_roundtrip`, `regions_rebuilt`, `region_defined_before_use` — region definitions.
* `style_block_roundtrip`, `tsmap_roundtrip` — the CSS block and the `X-TIMESTAMP-MAP` header line.
* `write_read_doc`, `write_read_doc_bytes` — the final theorem, on text lines and on bytes as the
  `vtt.write` stream computes it; `wanted_fields`, `wanted_items_vs_check`,
  `wanted_regions_vs_check` say what `wanted2` is and how it relates to `Driver.vttWanted`.

Not here: `Spec.VTT.decode ∘ write` (the independent decoder) — see `decode_write_Statement`.
-/

namespace Astisub
namespace C02doc2
open Go VTT

/-! ### layout -/

/-- **Layout (any document).**  Whatever the cue list carries, the written text is the lines of
    `docLines2 s`, each terminated by a line feed: `WEBVTT`; the `X-TIMESTAMP-MAP` line if the
    metadata has a two-part value; blank + `STYLE` + the CSS lines if there are any; blank + one
    `Region: id=…` line per region in identifier order if there are regions; then for every cue a
    blank line, its `NOTE` block (`NOTE first`, the other lines, a blank line) if it has comments,
    its number, its timing line and its text lines. -/
theorem written_lines (s : Subs) (hne : s.items ≠ []) : write s = some (unlines (docLines2 s)) :=
  write_lines2 s hne

/-- the shape of `docLines2`, spelled out -/
theorem written_lines_shape (s : Subs) :
    docLines2 s = ("WEBVTT".toList :: tsmapLines s) ++ styleBlock s ++ regionBlock s ++ cuesLines2 s 0 s.items ∧
    (∀ k it rest, cuesLines2 s k (it :: rest)
        = ([] :: (commentLines it.comments ++ ([itoaNat (k + 1), cueTiming s it] ++ it.lines.map lineBody)))
          ++ cuesLines2 s (k + 1) rest) ∧
    (∀ c cs, commentLines (c :: cs) = ("NOTE ".toList ++ c) :: cs ++ [[]]) :=
  ⟨rfl, fun _ _ _ => rfl, fun _ _ => rfl⟩

/-! ### NOTE blocks (target 1) -/

/-- **Comment block.**  Outside a cue, the reader given the lines of a written comment block
    (`commentsOk`: every line non-empty, trimmed, without line break; lines after the first
    moreover without `-->`, not `NOTE` and not starting with `NOTE `; they MAY start with `STYLE`,
    `Region: ` or `X-TIMESTAMP-MAP`) appends exactly those lines to the pending comments and is
    outside any block again. -/
theorem comment_block_roundtrip (cs : List Str) (hok : commentsOk cs = true) (more : List (Option Str))
    (st : St) (hb : st.block = .none) :
    run st ((commentLines cs).map some ++ more)
      = run { st with comments := st.comments ++ cs, tags := if cs = [] then st.tags else [] } more :=
  run_commentLines cs hok more st hb

/-- **Write → read with comments.**  The statement `C02doc.write_read_comments_Statement`
    (cue lists whose cues carry NOTE blocks; no regions, STYLE block, timestamp map) holds. -/
theorem write_read_comments : C02doc.write_read_comments_Statement := write_read_comments_proof

/-! ### regions (target 2) -/

/-- **Region definition.**  Outside any block the written definition line of a region
    (`regionOk`: identifier and values non-empty without white space and `=`; `lines` the decimal
    of a non-zero `int`) defines the region with exactly the attributes written
    (`readRegion`: own attribute, else the referenced style's). -/
theorem region_roundtrip (s : Subs) (d : Def) (hok : regionOk s d = true) (st : St) (hb : st.block = .none) :
    step st (some (regionLine s d)) = .ok { st with regions := setDef st.regions (readRegion s d) } :=
  step_region s d hok st hb

/-- what `readRegion` is, field by field -/
theorem readRegion_fields (s : Subs) (d : Def) :
    (readRegion s d).id = d.id ∧ (readRegion s d).ref = none ∧
    (readRegion s d).attrs = some (mkAttrs [
      ("WebVTTLines", fallback d.attrs (styleAttrs s d.ref) "WebVTTLines"),
      ("WebVTTRegionAnchor", fallback d.attrs (styleAttrs s d.ref) "WebVTTRegionAnchor"),
      ("WebVTTScroll", fallback d.attrs (styleAttrs s d.ref) "WebVTTScroll"),
      ("WebVTTViewportAnchor", fallback d.attrs (styleAttrs s d.ref) "WebVTTViewportAnchor"),
      ("WebVTTWidth", fallback d.attrs (styleAttrs s d.ref) "WebVTTWidth")]) :=
  ⟨rfl, rfl, rfl⟩

/-- **Defined before use.**  In a `DocOk` document a cue that refers to a region `r` finds it
    defined earlier: the written lines are `pre ++ regionBlock ++ cue lines`, the region block holds
    the line `Region: id=r …` of a region of the list, and the cue's timing line is among the cue
    lines. -/
theorem region_defined_before_use (s : Subs) (hok : DocOk s = true) (it : CItem) (hit : it ∈ s.items)
    (r : Str) (hr : it.region = some r) :
    ∃ d ∈ s.regions, d.id = r ∧ ("Region: id=".toList ++ r) <+: regionLine s d ∧
      ∃ pre, docLines2 s = pre ++ regionBlock s ++ cuesLines2 s 0 s.items ∧
        regionLine s d ∈ regionBlock s ∧ cueTiming s it ∈ cuesLines2 s 0 s.items :=
  VTT.region_defined_before_use s hok it hit r hr

/-! ### STYLE block and timestamp map (target 3) -/

/-- **STYLE block.**  Outside any block and before any other STYLE block: blank line, `STYLE`, the
    CSS lines (`styleLineOk`: non-empty, trimmed, no `-->`, not the start of another block) — the
    reader is inside the style block holding exactly those lines. -/
theorem style_block_roundtrip (ls : List Str) (hls : ∀ l ∈ ls, styleLineOk l = true) (more : List (Option Str))
    (st : St) (hb : st.block = .none) (hs : st.styleSeen = false) :
    run st ((([] : Str) :: "STYLE".toList :: ls).map some ++ more)
      = run { st with block := .style, styleSeen := true, tags := [], styles := ls } more :=
  run_styleBlock ls hls more st hb hs

/-- **Timestamp map.**  The header line written for `LOCAL = l` (`0 ≤ l < 100 h`) and a tick count
    `m` that `Atoi` accepts parses back to `l` truncated to the millisecond and the value of `m`. -/
theorem tsmap_roundtrip (l : Int) (h0 : 0 ≤ l) (h1 : l < 360000000000000) (m : Str) (mv : Int)
    (ha : atoi m = some mv) :
    parseTsMap ("X-TIMESTAMP-MAP=LOCAL:".toList ++ Duration.formatVTT l ++ ",MPEGTS:".toList ++ m)
      = .ok (l - l % 1000000, mv) :=
  parseTsMap_tsLine _ m _ mv (format_facts l h0 h1).1 (atoi_signDig (by rw [ha]; rfl)) (format_facts l h0 h1).2.1
    (format_facts l h0 h1).2.2 ha

/-! ### the document (target 4) -/

/-- `DocOk` is satisfiable by a document that uses everything at once -/
theorem docOk_example : DocOk exDoc = true := exDoc_ok

/-- **Write → read, complete document.**  Every cue list satisfying `DocOk` is written; the text
    has no carriage return; the reader, given the text cut at its line feeds, returns `wanted2 s`. -/
theorem write_read_doc (s : Subs) (hok : DocOk s = true) :
    ∃ doc, write s = some doc ∧ '\r' ∉ doc ∧ read (textLines doc) = .ok (wanted2 s) :=
  read_write2 s hok

/-- **… on bytes**, exactly as the model side of the `vtt.write` stream computes it
    (`Driver.handleVTT`): UTF-8 encode, scanner model, decode each line, read. -/
theorem write_read_doc_bytes (s : Subs) (hok : DocOk s = true) (doc : Str) (hw : write s = some doc) :
    read (Driver.docLines (Driver.utf8 doc)) = .ok (wanted2 s) :=
  read_write_bytes2 s hok doc hw

/-- `wanted2`, field by field: cues numbered from 1 with instants truncated to the millisecond,
    the settings the writer resolved, the region reference and the comments kept, lines as
    `C02doc.line_roundtrip` describes; regions in identifier order, each `readRegion`; the CSS
    lines joined as `WebVTTStyles` of the default style; the timestamp map with `LOCAL` truncated. -/
theorem wanted_fields (s : Subs) :
    (wanted2 s).items = s.items.zipIdx.map (fun x =>
      { index := (x.2 : Int) + 1, startAt := x.1.startAt - x.1.startAt % 1000000,
        endAt := x.1.endAt - x.1.endAt % 1000000, region := x.1.region, comments := x.1.comments,
        lines := x.1.lines.map fun l => { voice := l.voice, items := l.items.map (readItem []) },
        attrs := some (mkAttrs [("WebVTTAlign", fallback x.1.attrs (styleAttrs s x.1.style) "WebVTTAlign"),
          ("WebVTTLine", fallback x.1.attrs (styleAttrs s x.1.style) "WebVTTLine"),
          ("WebVTTPosition", fallback x.1.attrs (styleAttrs s x.1.style) "WebVTTPosition"),
          ("WebVTTSize", fallback x.1.attrs (styleAttrs s x.1.style) "WebVTTSize"),
          ("WebVTTVertical", fallback x.1.attrs (styleAttrs s x.1.style) "WebVTTVertical")]) }) ∧
    (wanted2 s).regions = (VTT.sortDefs s.regions).map (readRegion s) ∧
    (wanted2 s).styles = (if (styleLines s).isEmpty then [] else
      [{ id := defaultStyleID,
         attrs := some (mkAttrs [("WebVTTStyles", some (join ['\n'] (styleLines s))), ("WebVTTTags", none)]) }]) ∧
    (wanted2 s).metadata = (tsmapVal s).map fun (l, m) => [("WebVTTTimestampMap".toList, itoa l ++ ',' :: itoa m)] :=
  ⟨rfl, rfl, rfl, rfl⟩

/-- **`wanted2` against the check.**  The cues of `wanted2 s` are the cues of `Driver.vttWanted s`
    (what the `vtt.write` stream expects back) in which the style references are dropped and each
    run's attributes are reduced to its tag stack — the two things WebVTT does not carry
    (`normCue`, `normRun`). -/
theorem wanted_items_vs_check (s : Subs) : (wanted2 s).items = (Driver.vttWanted s).items.map normCue :=
  wanted2_items s

/-- … and its regions are those of `Driver.vttWanted s` in identifier order (the check's view
    sorts them too) without their style reference. -/
theorem wanted_regions_vs_check (s : Subs) :
    (wanted2 s).regions = (VTT.sortDefs (Driver.vttWanted s).regions).map fun d => { d with ref := none } :=
  wanted2_regions s

/-! ### not proved (target 5, W2) -/

/-- UNPROVED (kept as the full target; evaluated on `VTT.exSubs` and variants only): the
    independent decoder `Spec.VTT.decode` accepts what the writer produces for a cue list without
    comments, regions, STYLE block and timestamp map, and denotes the cues the check expects
    (`Driver.vttView (Driver.vttWanted s)`, both sides normalised as `Driver.handleVTT` does).
    Two hypotheses are needed beyond `C02doc.write_read`: fewer than `2^62` cues (the decoder's
    identifier bound) and no inline timestamp strictly between 0 and 1 ms — the writer emits
    `<00:00:00.000>` for it, which the decoder reports as a timestamp `0` while the check's view of
    the truncated instant `0` is "no timestamp" (counter-example evaluated: `startAt := 500`). -/
def decode_write_Statement : Prop :=
  ∀ (s : Subs), s.items ≠ [] → (∀ it ∈ s.items, cueOk s it = true) → s.items.length < 2 ^ 62 →
    s.regions = [] → styleLines s = [] → SRT.kvGet s.metadata "WebVTTTimestampMap" = none →
    (∀ it ∈ s.items, ∀ l ∈ it.lines, ∀ li ∈ l.items, li.startAt = 0 ∨ 1000000 ≤ li.startAt) →
    ∀ doc, write s = some doc →
      (Driver.vttView (Driver.vttWanted s)).isSome = true ∧
      (Spec.VTT.decode doc).map Spec.VTT.norm = (Driver.vttView (Driver.vttWanted s)).map Spec.VTT.norm

end C02doc2
end Astisub
