import Astisub.Model.VTT
import Astisub.Props.C01
import Astisub.Props.C16

/-!
# C02 — WebVTT codec fidelity

`VTT.read` / `VTT.write` model `ReadFromWebVTT` / `WriteToWebVTT` (`webvtt.go`, after the repairs
recorded in the report).  This file proves, for **all** inputs, the component laws the property
is made of:

* tag emission (the repair of D14): what one run leaves open is exactly what the next run
  assumes open, so the written tags are properly nested whatever the two stacks are;
* escaping: `&`, `<`, U+00A0 survive write → read, and written text contains no `<` (it can be
  taken neither for a tag nor for an inline timestamp);
* cue timing and the timestamp map's `LOCAL` value written for any `0 ≤ t < 100 h` read back as
  the instant truncated to the millisecond;
* numbering, empty list refused, every region is written (in identifier order) ahead of the cues;
* the block state machine: a blank line clears the tag stack and — outside an unfinished CSS
  block — ends the block; inside a cue every non-blank line without `-->` is cue text, whatever
  it starts with (the repair of the `NOTE`/`STYLE`/`Region:`/`X-TIMESTAMP-MAP` dispatch);
* the `cssColor` table and recogniser examples of the two regular expressions, by evaluation.

The whole-document statements (`read ∘ render`, `read ∘ write`, `decode ∘ write`) are evaluated
by the `vtt.read` / `vtt.write` correspondence streams with the independent decoder
`Spec.VTT.decode` on every generated case; they are not proved here (partial: the `x/net/html`
tokenizer and the two regular expressions are hand-written models validated by `lib.html`,
`vtt.tagre`, `vtt.texttok`).
-/

namespace Astisub
namespace C02
open Go VTT List

/-! ### tag emission -/

theorem commonTags_le_left (a b : List Tag) : commonTags a b ≤ a.length := by
  induction a generalizing b with
  | nil => simp [commonTags]
  | cons x xs ih =>
    cases b with
    | nil => simp [commonTags]
    | cons y ys =>
      unfold commonTags
      split
      · have := ih ys; simp; omega
      · simp

theorem commonTags_comm (a b : List Tag) : commonTags a b = commonTags b a := by
  induction a generalizing b with
  | nil => cases b <;> simp [commonTags]
  | cons x xs ih =>
    cases b with
    | nil => simp [commonTags]
    | cons y ys =>
      unfold commonTags
      by_cases h : x = y
      · subst h; simp [ih ys]
      · have h' : ¬ y = x := fun e => h e.symm
        simp [h, h']

theorem commonTags_le_right (a b : List Tag) : commonTags a b ≤ b.length := by
  rw [commonTags_comm]; exact commonTags_le_left b a

theorem commonTags_self (a : List Tag) : commonTags a a = a.length := by
  induction a with
  | nil => simp [commonTags]
  | cons x xs ih => simp [commonTags, ih]

/-- the shared tags are the same tags (name, classes and annotation) in both stacks -/
theorem take_commonTags (a b : List Tag) : a.take (commonTags a b) = b.take (commonTags a b) := by
  induction a generalizing b with
  | nil => cases b <;> simp [commonTags]
  | cons x xs ih =>
    cases b with
    | nil => simp [commonTags]
    | cons y ys =>
      unfold commonTags
      by_cases h : x = y
      · subst h; simp [ih ys]
      · simp [h]

/-- **Tag emission.** After a run with stack `a` has closed the tags beyond what it shares with
    the next run (stack `b`), the tags still open are a prefix of `b`, and opening the tags of `b`
    beyond the shared ones yields exactly `b`: the stack the reader rebuilds for the next run. -/
theorem emission_nesting (a b : List Tag) :
    a.take (commonTags a b) ++ b.drop (commonTags b a) = b := by
  rw [take_commonTags, commonTags_comm b a, take_append_drop]

/-- two runs under the same stack are written without any tag between them -/
theorem emission_same (a : List Tag) : a.drop (commonTags a a) = [] := by
  rw [commonTags_self]; simp

/-- the first differing tag — same name or not — is closed and reopened (the pinned code compared
    names only: `[c.red]`,`[c.blue]` gave `<c.red>AB</c>`) -/
theorem emission_differ (x y : Tag) (xs ys : List Tag) (h : x ≠ y) : commonTags (x :: xs) (y :: ys) = 0 := by
  simp [commonTags, h]

/-! ### escaping -/

/-- **Escaping round trip.** `&`, `<`, U+00A0 — and every other character — survive unchanged -/
theorem text_roundtrip (t : Str) : SRT.unescapeHTML (SRT.escapeHTML t) = t := C01.unescape_escape t

/-- written text contains no `<`: it opens neither a tag nor an inline timestamp -/
theorem text_no_lt (t : Str) : '<' ∉ SRT.escapeHTML t := C01.escape_no_lt t

/-! ### instants -/

/-- cue boundaries, inline timestamps and the `LOCAL` value of the timestamp map are all written
    with `formatVTT` and read with `parseVTT` -/
theorem instant_roundtrip (t : Int) (h0 : 0 ≤ t) (h1 : t < 360000000000000) :
    Duration.parseVTT (Duration.formatVTT t) = some (t - t % 1000000) := C16.vtt_roundtrip t h0 h1

/-- `Offset` arithmetic of the timestamp map: 90 kHz ticks to nanoseconds (no remainder lost on
    whole multiples of 9 ticks = 100 µs) -/
theorem offset_exact (k : Int) : Int.tdiv (9 * k * 1000000000) 90000 = k * 100000 := by
  have : 9 * k * 1000000000 = 90000 * (k * 100000) := by omega
  rw [this, Int.mul_tdiv_cancel_left]; decide

/-! ### document shape -/

/-- an empty list is refused (`ErrNoSubtitlesToWrite`), anything else is written -/
theorem write_empty (s : Subs) : (write s).isNone ↔ s.items = [] := by
  unfold write
  cases h : s.items <;> simp

/-- **Numbering.** a cue without comments starts with its 1-based position in the list … -/
theorem cueBytes_number (s : Subs) (k : Nat) (it : CItem) (h : it.comments = []) :
    itoaNat (k + 1) <+: cueBytes s k it := by
  unfold cueBytes
  simp only [h, List.isEmpty_nil, if_true, nil_append, append_assoc]
  exact prefix_append _ _

/-- … and a cue with comments starts with its `NOTE` block, then a blank line, then the number -/
theorem cueBytes_comments (s : Subs) (k : Nat) (it : CItem) (h : it.comments ≠ []) :
    ("NOTE ".toList ++ (it.comments.map (· ++ ['\n'])).flatten ++ ['\n'] ++ itoaNat (k + 1)) <+: cueBytes s k it := by
  unfold cueBytes
  have : it.comments.isEmpty = false := by cases hc : it.comments <;> simp_all
  simp only [this, append_assoc]
  simp

/-- **Regions are defined.** every region of the cue list has its `Region: id=…` line in the
    regions block, which `write` places ahead of every cue -/
theorem region_written (s : Subs) (d : Def) (h : d ∈ s.regions) :
    regionBytes s d ∈ (VTT.sortDefs s.regions).map (regionBytes s) := by
  apply mem_map_of_mem
  unfold VTT.sortDefs
  exact (mergeSort_perm _ _).mem_iff.mpr h

theorem region_line_shape (s : Subs) (d : Def) : ("Region: id=".toList ++ d.id) <+: regionBytes s d := by
  unfold regionBytes
  simp only [append_assoc]
  exact prefix_append _ _

/-- the layout of the written document: header (with the timestamp map), STYLE block, regions,
    blank line, cues — regions strictly before the first cue -/
theorem write_layout (s : Subs) (h : s.items ≠ []) :
    write s = some ((header s
      ++ (if (styleLines s).isEmpty then [] else "STYLE\n".toList ++ join ['\n'] (styleLines s) ++ "\n\n".toList)
      ++ ((VTT.sortDefs s.regions).map (regionBytes s)).flatten
      ++ (if s.regions.isEmpty then [] else ['\n'])
      ++ (s.items.zipIdx.map fun (it, k) => cueBytes s k it).flatten).dropLast) := by
  unfold write
  have : s.items.isEmpty = false := by cases hc : s.items <;> simp_all
  simp [this]

/-! ### block state machine -/

/-- the state after a blank line -/
def blankStep (st : St) : St :=
  { st with block := if (st.block = .style && !st.styles.isEmpty && !(hasSuffix ['}'] (st.styles.getLast?.getD []))) = true then st.block else .none,
            tags := [] }

theorem step_blank (st : St) : step st (some []) = .ok (blankStep st) := by
  simp [step, blankStep, trimSpace, trimRight, trimLeft, hasPrefix, dropPrefix?]

/-- **Blank line.** the tag stack is cleared, no cue, comment or definition is lost -/
theorem blank_clears_tags (st : St) :
    (blankStep st).tags = [] ∧ flush (blankStep st) = flush st ∧ (blankStep st).comments = st.comments ∧
    (blankStep st).regions = st.regions ∧ (blankStep st).index = st.index := by
  simp [blankStep, flush]

/-- a blank line ends a cue, a comment and the no-block state; a CSS block ends when its last
    line ends with `}` (or when it is empty) -/
theorem blank_ends_block (st : St) (h : st.block ≠ .style ∨ st.styles = [] ∨ hasSuffix ['}'] (st.styles.getLast?.getD []) = true) :
    (blankStep st).block = .none := by
  unfold blankStep
  rcases h with h | h | h
  · simp [h]
  · simp [h]
  · simp [h]

/-- **Cue text.** inside a cue, a non-blank line without `-->` is parsed as text whatever it
    starts with (`NOTE `, `STYLE`, `Region: `, `X-TIMESTAMP-MAP` included) -/
theorem text_in_cue (st : St) (raw : Str) (hb : st.block = .text) (hne : trimSpace raw ≠ [])
    (harrow : contains arrow (trimSpace raw) = false) :
    step st (some raw) =
      match parseText (trimSpace raw) st.tags with
      | .ok (tags, l) =>
        .ok { st with tags := tags, cur := if l.items.isEmpty then st.cur else { st.cur with lines := st.cur.lines ++ [l] } }
      | .err => .err
      | .unmodelled => .unmodelled := by
  cases h : parseText (trimSpace raw) st.tags with
  | ok p => obtain ⟨tags, l⟩ := p; unfold step; simp [hb, hne, harrow, h]
  | err => unfold step; simp [hb, hne, harrow, h]
  | unmodelled => unfold step; simp [hb, hne, harrow, h]

/-- outside a cue a comment line opens a comment block and is recorded -/
theorem note_opens_comment (st : St) (c : Str) (hb : st.block ≠ .text) (hc : trimSpace ("NOTE ".toList ++ c) = "NOTE ".toList ++ c) :
    step st (some ("NOTE ".toList ++ c)) = .ok { st with block := .comment, comments := st.comments ++ [c] } := by
  unfold step
  have hp : hasPrefix "NOTE ".toList ("NOTE ".toList ++ c) = true := by
    simp [hasPrefix, dropPrefix?]
  have ht : trimPrefix "NOTE ".toList ("NOTE ".toList ++ c) = c := by
    simp [trimPrefix, dropPrefix?]
  have hn : ("NOTE ".toList ++ c = "NOTE".toList) = False := by
    simp
  simp only [hc, hp, ht, hb, ne_eq, not_false_eq_true, decide_true, Bool.true_and, Bool.or_true, if_true, hn, if_false]

/-! ### tables and recogniser examples (by evaluation) -/

theorem cssColor_table :
    cssColor "#00ffff".toList = "cyan".toList ∧ cssColor "#ffff00".toList = "yellow".toList ∧
    cssColor "#ff0000".toList = "red".toList ∧ cssColor "#ff00ff".toList = "magenta".toList ∧
    cssColor "#00ff00".toList = "lime".toList ∧ cssColor "#FF0000".toList = "red".toList ∧
    cssColor "#123456".toList = [] ∧ cssColor "red".toList = [] := by decide

theorem tagRe_examples :
    tagRe "<c.red.big note>".toList = some ("c".toList, ".red.big".toList, "note".toList) ∧
    tagRe "<v Roger Bingham>".toList = some ("v".toList, [], "Roger Bingham".toList) ∧
    tagRe "<b>".toList = some ("b".toList, [], []) ∧
    tagRe "<a/b>".toList = some ("a/b".toList, [], []) ∧
    tagRe "<b x=\"1/2\">".toList = none := by decide

theorem tsAt_examples :
    tsAt "00:01.500>x".toList = some ("00:01.500".toList, ['x']) ∧
    tsAt "100:00:01.500>".toList = some ("100:00:01.500".toList, []) ∧
    tsAt "0:00:01.500>".toList = none ∧ tsAt "00:01.50>".toList = none := by decide

def lineOf (r : SRT.Res (List Tag × Line)) : Option Line :=
  match r with
  | .ok (_, l) => some l
  | _ => none

/-- a timestamp separated from its text by a tag is kept for that text (the repair of the reader) -/
theorem pending_timestamp :
    (lineOf (parseText "<00:01.500><b>x</b>".toList [])).map (fun l => l.items.map (·.startAt)) = some [1500000000] := by
  decide

/-- the end of a voice span leaves the tag stack alone (the repair of `</v>`) -/
theorem voice_end_keeps_stack :
    (lineOf (parseText "<b><v Bob>x</v> y</b>".toList [])).map (fun l => l.voice) = some "Bob".toList ∧
    (lineOf (parseText "<b><v Bob>x</v> y</b>".toList [])).map
      (fun l => l.items.map fun it => (it.text, (tagsOfAttrs it.attrs).map (·.name))) = some [(['x'], [['b']]), ([' ', 'y'], [['b']])] := by
  decide

end C02
end Astisub
