import Astisub.Lemmas.OpsUnfragment
import Astisub.Props.C12

/-!
# C11 — Unfragment merges touching same-text cues and keeps the display

`Ops.unfragment` models `Subtitles.Unfragment` loop by loop (`absorb` = inner `j` loop with
merge-and-delete and early exit, `unfragLoop` = outer `i` loop).  Statements hold for every
cue list (any order, overlaps, duplicates, any number of texts, any length).
-/

namespace Astisub
namespace C11
open Ops Spec List

theorem unfragment_eq (xs : List Item) : unfragment xs = unfragLoop (order xs) := by
  unfold unfragment
  split
  · rename_i h
    match xs, h with
    | [], _ => simp [order, unfragLoop_nil]
    | [x], _ => simp [order, unfragLoop_cons, absorb, unfragLoop_nil]
  · rfl

theorem All2.mem_right {α β : Type} {r : α → β → Prop} {as : List α} {bs : List β}
    (h : All2 r as bs) : ∀ b ∈ bs, ∃ a ∈ as, r a b := by
  induction h with
  | nil => intro b hb; cases hb
  | cons hr _ ih =>
    intro b hb
    rcases mem_cons.mp hb with rfl | hb
    · exact ⟨_, by simp, hr⟩
    · obtain ⟨a, ha, hra⟩ := ih b hb
      exact ⟨a, by simp [ha], hra⟩

theorem All2.map_eq {α β γ : Type} {r : α → β → Prop} {as : List α} {bs : List β} (f : α → γ) (g : β → γ)
    (h : All2 r as bs) (hfg : ∀ a b, r a b → f a = g b) : as.map f = bs.map g := by
  induction h with
  | nil => rfl
  | cons hr _ ih => simp [hfg _ _ hr, ih]

abbrev SortedByStart (l : List Item) : Prop := l.Pairwise (fun a b => a.startAt ≤ b.startAt)

/-- after the loops no two cues with the same text touch or overlap -/
theorem unfragLoop_no_touch (l : List Item) (hs : SortedByStart l) :
    (unfragLoop l).Pairwise (fun a b => ¬ Touch a b) := by
  induction hn : l.length using Nat.strongRecOn generalizing l with
  | _ n ih =>
    cases l with
    | nil => rw [unfragLoop_nil]; exact Pairwise.nil
    | cons x xs =>
      rw [unfragLoop_cons]
      have hxs : SortedByStart xs := (pairwise_cons.mp hs).2
      have ht : SortedByStart (absorb x xs).2 := hxs.sublist (absorb_sublist x xs)
      have hlen := absorb_length x xs
      refine pairwise_cons.mpr ⟨?_, ih _ (by subst hn; simp; omega) _ ht rfl⟩
      intro z hz
      obtain ⟨sub, hsub, hf⟩ := unfragLoop_ext (absorb x xs).2
      obtain ⟨y, hy, hext⟩ := All2.mem_right hf z hz
      have hsep := absorb_sep x xs hxs y (hsub.subset hy)
      rintro ⟨h1, _, h3⟩
      rcases hsep with h | h
      · exact h (by rw [h1, hext.str])
      · rw [hext.2.1] at h3; omega

theorem no_touch (xs : List Item) : (unfragment xs).Pairwise (fun a b => ¬ Touch a b) := by
  rw [unfragment_eq]
  exact unfragLoop_no_touch _ (C12.order_sorted xs)

/-- the set of texts on screen at every instant is the same before and after -/
theorem unfragLoop_vis (l : List Item) (hs : SortedByStart l) (s : String) (t : Int) :
    (∃ it ∈ l, vis it s t) ↔ (∃ it ∈ unfragLoop l, vis it s t) := by
  induction hn : l.length using Nat.strongRecOn generalizing l with
  | _ n ih =>
    cases l with
    | nil => rw [unfragLoop_nil]
    | cons x xs =>
      rw [unfragLoop_cons]
      have hxs : SortedByStart xs := (pairwise_cons.mp hs).2
      have hx : ∀ y ∈ xs, x.startAt ≤ y.startAt := (pairwise_cons.mp hs).1
      have ht : SortedByStart (absorb x xs).2 := hxs.sublist (absorb_sublist x xs)
      have hlen := absorb_length x xs
      have ih' := ih _ (by subst hn; simp; omega) _ ht rfl
      rw [absorb_vis x xs hx s t]
      simp only [mem_cons, exists_eq_or_imp]
      exact or_congr Iff.rfl ih'

theorem on_screen (xs : List Item) (s : String) (t : Int) :
    onScreen xs s t ↔ onScreen (unfragment xs) s t := by
  rw [unfragment_eq, onScreen_iff, onScreen_iff, ← unfragLoop_vis _ (C12.order_sorted xs)]
  constructor
  · rintro ⟨it, hit, hv⟩; exact ⟨it, (C12.order_perm xs).mem_iff.mpr hit, hv⟩
  · rintro ⟨it, hit, hv⟩; exact ⟨it, (C12.order_perm xs).mem_iff.mp hit, hv⟩

/-- it does nothing else: the result is, in order, a sub-sequence of the ordered input in which
    each kept cue has the same identity, start, text and payload and an end that is not earlier -/
theorem only_merges (xs : List Item) :
    ∃ sub, sub <+ order xs ∧ All2 Ext sub (unfragment xs) := by
  rw [unfragment_eq]; exact unfragLoop_ext _

theorem uids_sublist (xs : List Item) :
    (unfragment xs).map (·.uid) <+ (order xs).map (·.uid) := by
  obtain ⟨sub, hsub, hf⟩ := only_merges xs
  rw [← All2.map_eq (·.uid) (·.uid) hf (fun a b h => h.1.symm)]
  exact hsub.map _

/-- cues are ordered by start afterwards -/
theorem ordered (xs : List Item) : SortedByStart (unfragment xs) := by
  obtain ⟨sub, hsub, hf⟩ := only_merges xs
  have hs : SortedByStart sub := (C12.order_sorted xs).sublist hsub
  have hm := All2.map_eq (·.startAt) (·.startAt) hf (fun a b h => h.2.1.symm)
  have : (sub.map (·.startAt)).Pairwise (· ≤ ·) := pairwise_map.mpr hs
  rw [hm] at this
  exact pairwise_map.mp this

/-- a list that is ordered and has no mergeable neighbour pairs (every later cue is `Sep`arated
    from every earlier one) is returned unchanged: cues with distinct texts or separated by a
    gap are untouched -/
theorem absorb_noop (cur : Item) (l : List Item) (h : ∀ y ∈ l, Sep cur y) : absorb cur l = (cur, l) := by
  induction l with
  | nil => simp [absorb]
  | cons x rest ih =>
    rw [absorb_cons]
    have hx := h x (by simp)
    have hr := ih (fun y hy => h y (by simp [hy]))
    have h1 : ¬ (cur.str = x.str ∧ cur.endAt ≥ x.startAt) := by
      rintro ⟨a, b⟩; rcases hx with hx | hx
      · exact hx a
      · omega
    simp only [h1, ↓reduceIte]
    split
    · rfl
    · rw [hr]

theorem unfragLoop_noop (l : List Item) (h : l.Pairwise Sep) : unfragLoop l = l := by
  induction l with
  | nil => exact unfragLoop_nil
  | cons x xs ih =>
    rw [unfragLoop_cons, absorb_noop x xs (pairwise_cons.mp h).1]
    simp only
    rw [ih (pairwise_cons.mp h).2]

theorem untouched (xs : List Item) (hs : SortedByStart xs) (h : xs.Pairwise Sep) : unfragment xs = xs := by
  rw [unfragment_eq, C12.order_of_sorted xs hs, unfragLoop_noop xs h]

/-- for well-formed cues in start order, "cannot be merged" is exactly "do not touch" -/
theorem sep_iff_not_touch (a b : Item) (hab : a.startAt ≤ b.startAt) (hb : b.startAt ≤ b.endAt) :
    Sep a b ↔ ¬ Touch a b := by
  unfold Sep Touch
  constructor
  · rintro (h | h) ⟨h1, _, h3⟩
    · exact h h1
    · omega
  · intro h
    by_cases hs : a.str = b.str
    · right
      by_cases hlt : a.endAt < b.startAt
      · exact hlt
      · exact absurd ⟨hs, by omega, by omega⟩ h
    · left; exact hs

end C11
end Astisub
