import Astisub.Model.TTML
import Astisub.Props.C16
import Astisub.Lemmas.TTMLTime

/-!
# C03 — TTML time expressions are resolved to the instant they mean

`TTML.timeExpr` / `TTML.duration` / `TTML.instant` (Model/TTML.lean) model
`TTMLInDuration.UnmarshalText` and `TTMLInDuration.duration()` of `ttml.go`.  Every form of a TTML
time expression — clock time `hh:mm:ss`, clock time with a 1–3 digit fraction, clock time with
frames `hh:mm:ss:ff`, offset time `<digits>[.<digits>]<metric>` with metric `h`, `m`, `s`, `ms`,
`f`, `t` (frames / ticks interpreted with the document's frame rate / tick rate) — is resolved to
the floor, in nanoseconds, of the exact rational instant it denotes: within 1 ns, and exactly
when that instant is a whole number of nanoseconds.  All statements are for every value of the
fields in the stated ranges.
-/

namespace Astisub
namespace C03
open Go Duration List TTML C16

/-! ## 1. frames / ticks → nanoseconds -/

theorem units_num_cast (n : Nat) (fp : Str) :
    ((n : Int) * (10 : Int) ^ fp.length + (natOfDigits fp : Int)) * 1000000000
      = (((n * 10 ^ fp.length + natOfDigits fp) * 1000000000 : Nat) : Int) := by
  simp only [Int.natCast_mul, Int.natCast_add, Int.natCast_pow]; rfl

theorem units_den_cast (rate : Nat) (fp : Str) :
    (10 : Int) ^ fp.length * (rate : Int) = ((10 ^ fp.length * rate : Nat) : Int) := by
  simp only [Int.natCast_mul, Int.natCast_pow]; rfl

/-- `ttmlUnitsDuration(n, F, rate)` is `⌊(n·10^k + F)·10⁹ / (10^k·rate)⌋`, `k` the number of fraction digits -/
theorem units_floor (n rate : Nat) (fp : Str) (_hr : 0 < rate) :
    unitsDuration (n : Int) fp (rate : Int)
      = (((n * 10 ^ fp.length + natOfDigits fp) * 1000000000 / (10 ^ fp.length * rate) : Nat) : Int) := by
  unfold unitsDuration
  rw [units_num_cast, units_den_cast, Int.tdiv_eq_ediv_of_nonneg (Int.natCast_nonneg _)]
  exact (Int.natCast_ediv _ _).symm

/-- without fraction digits: `⌊n·10⁹ / rate⌋` -/
theorem units_floor_nil (n rate : Nat) (hr : 0 < rate) :
    unitsDuration (n : Int) [] (rate : Int) = ((n * 1000000000 / rate : Nat) : Int) := by
  rw [units_floor n rate [] hr]
  simp only [length_nil, Nat.pow_zero, Nat.mul_one, Nat.one_mul, natOfDigits, foldl_nil, Nat.add_zero]

/-- `⌊N / rate⌋ · rate ≤ N < (⌊N / rate⌋ + 1) · rate` -/
theorem nat_floor_within (N rate : Nat) (hr : 0 < rate) :
    N / rate * rate ≤ N ∧ N < (N / rate + 1) * rate := by
  have h := Nat.div_add_mod N rate
  have hlt := Nat.mod_lt N hr
  rw [Nat.add_mul, Nat.one_mul, Nat.mul_comm (N / rate) rate]
  generalize rate * (N / rate) = a at *
  omega

/-- a (fractional) frame / tick count is resolved within one nanosecond: never late, less than
    1 ns early (`V·(10^k·rate) ≤ (n·10^k + F)·10⁹ < (V + 1)·(10^k·rate)`) -/
theorem units_within (n rate : Nat) (fp : Str) (hr : 0 < rate) :
    unitsDuration (n : Int) fp (rate : Int) * ((10 : Int) ^ fp.length * (rate : Int))
      ≤ ((n : Int) * (10 : Int) ^ fp.length + (natOfDigits fp : Int)) * 1000000000 ∧
    ((n : Int) * (10 : Int) ^ fp.length + (natOfDigits fp : Int)) * 1000000000
      < (unitsDuration (n : Int) fp (rate : Int) + 1) * ((10 : Int) ^ fp.length * (rate : Int)) := by
  rw [units_floor n rate fp hr, units_num_cast, units_den_cast]
  have hR : 0 < 10 ^ fp.length * rate := Nat.mul_pos (Nat.pow_pos (by decide)) hr
  have h := nat_floor_within ((n * 10 ^ fp.length + natOfDigits fp) * 1000000000) _ hR
  generalize (n * 10 ^ fp.length + natOfDigits fp) * 1000000000 = N at *
  generalize 10 ^ fp.length * rate = R at *
  exact_mod_cast h

/-- … and exactly when it is a whole number of nanoseconds -/
theorem units_exact (n rate : Nat) (fp : Str) (hr : 0 < rate)
    (hd : 10 ^ fp.length * rate ∣ (n * 10 ^ fp.length + natOfDigits fp) * 1000000000) :
    unitsDuration (n : Int) fp (rate : Int) * ((10 : Int) ^ fp.length * (rate : Int))
      = ((n : Int) * (10 : Int) ^ fp.length + (natOfDigits fp : Int)) * 1000000000 := by
  rw [units_floor n rate fp hr, units_num_cast, units_den_cast]
  have h := Nat.div_mul_cancel hd
  generalize (n * 10 ^ fp.length + natOfDigits fp) * 1000000000 = N at *
  generalize 10 ^ fp.length * rate = R at *
  exact_mod_cast h

/-- without fraction digits: `V·rate ≤ n·10⁹ < (V + 1)·rate`, equality when `rate ∣ n·10⁹` -/
theorem units_within_nil (n rate : Nat) (hr : 0 < rate) :
    unitsDuration (n : Int) [] (rate : Int) * (rate : Int) ≤ (n : Int) * 1000000000 ∧
    (n : Int) * 1000000000 < (unitsDuration (n : Int) [] (rate : Int) + 1) * (rate : Int) ∧
    (rate ∣ n * 1000000000 →
      unitsDuration (n : Int) [] (rate : Int) * (rate : Int) = (n : Int) * 1000000000) := by
  rw [units_floor_nil n rate hr]
  have h := nat_floor_within (n * 1000000000) rate hr
  have e : ((n : Int) * 1000000000) = ((n * 1000000000 : Nat) : Int) := by
    simp only [Int.natCast_mul]; rfl
  rw [e]
  refine ⟨?_, ?_, fun hd => ?_⟩
  · generalize n * 1000000000 = N at *; exact_mod_cast h.1
  · generalize n * 1000000000 = N at *; exact_mod_cast h.2
  · have h' := Nat.div_mul_cancel hd
    generalize n * 1000000000 = N at *; exact_mod_cast h'

/-! ## 4. `duration` -/

/-- ticks (a positive count or a fraction) win over everything else when the document has a tick rate -/
theorem duration_ticks_win (d : InDur) (fr tr : Int)
    (h : (d.ticks > 0 ∨ d.ticksFraction ≠ []) ∧ tr > 0) :
    duration d fr tr = unitsDuration d.ticks d.ticksFraction tr := by
  unfold duration
  rw [if_pos h]

/-- neither ticks nor frames: the clock / offset value itself -/
theorem duration_plain (d : InDur) (fr tr : Int) (ht : d.ticks = 0) (hf : d.frames = 0)
    (htf : d.ticksFraction = []) (hff : d.framesFraction = []) : duration d fr tr = d.d := by
  simp [duration, ht, hf, htf, hff]

/-- frames are added to the clock value when the document has a frame rate -/
theorem duration_frames (d : InDur) (fr tr : Int) (ht : d.ticks = 0) (htf : d.ticksFraction = [])
    (hf : (d.frames > 0 ∨ d.framesFraction ≠ []) ∧ fr > 0) :
    duration d fr tr = d.d + unitsDuration d.frames d.framesFraction fr := by
  unfold duration
  rw [if_neg (by simp [ht, htf]), if_pos hf]

/-- an expression without frames / ticks denotes its value whatever the rates are -/
theorem instant_plain {text : Str} {v : Int} (fr tr : Int) (h : timeExpr text = some { d := v }) :
    instant text fr tr = some v := by
  simp [instant, h, duration]

/-! ## 2. offset times -/

/-- the digit string of a list of decimal digits -/
def digitsOf (ds : List Nat) : Str := ds.map digitChar

theorem digitStr_digitsOf {ds : List Nat} (h : ∀ d ∈ ds, d < 10) : DigitStr (digitsOf ds) := by
  intro c hc
  obtain ⟨d, hd, rfl⟩ := mem_map.mp hc
  exact ⟨d, h d hd, rfl⟩

theorem digitsOf_ne_nil {ds : List Nat} (h : ds ≠ []) : digitsOf ds ≠ [] := by
  cases ds with
  | nil => exact absurd rfl h
  | cons _ _ => simp [digitsOf]

/-- `natOfDigits` of a digit string is its decimal value -/
theorem natOfDigits_digitsOf {ds : List Nat} (h : ∀ d ∈ ds, d < 10) :
    natOfDigits (digitsOf ds) = ds.foldl (fun a d => a * 10 + d) 0 := by
  have key : ∀ (ds : List Nat), (∀ d ∈ ds, d < 10) → ∀ acc,
      (ds.map digitChar).foldl (fun a c => a * 10 + (c.toNat - 48)) acc
        = ds.foldl (fun a d => a * 10 + d) acc := by
    intro ds
    induction ds with
    | nil => intro _ _; rfl
    | cons d ds ih =>
      intro hd acc
      simp only [map_cons, foldl_cons, digitChar_sub48 (hd d (by simp))]
      exact ih (fun x hx => hd x (by simp [hx])) _
  exact key ds h 0

/-- the integer and the fraction digits are concatenated: `ip.fp = natOfDigits (ip ++ fp) / 10^|fp|` -/
theorem natOfDigits_concat (ip fp : Str) :
    natOfDigits (ip ++ fp) = natOfDigits ip * 10 ^ fp.length + natOfDigits fp := by
  have key : ∀ (s : Str) (acc : Nat),
      s.foldl (fun a c => a * 10 + (c.toNat - 48)) acc
        = acc * 10 ^ s.length + s.foldl (fun a c => a * 10 + (c.toNat - 48)) 0 := by
    intro s
    induction s with
    | nil => intro acc; simp
    | cons c cs ih =>
      intro acc
      simp only [foldl_cons, length_cons]
      rw [ih (acc * 10 + (c.toNat - 48)), ih (0 * 10 + (c.toNat - 48)), Nat.pow_succ,
        Nat.add_mul, Nat.zero_mul, Nat.zero_add, Nat.add_assoc, Nat.mul_assoc, Nat.mul_comm 10]
  rw [natOfDigits_append, key fp (natOfDigits ip)]
  rfl

theorem metrics_eq : metrics = [['h'], ['m'], ['s'], ['m', 's'], ['f'], ['t']] := by
  simp [metrics]

/-- the offset-time recogniser splits `<digits><metric>` where it should -/
theorem offsetTime_print {ip m : Str} (hip : DigitStr ip) (hne : ip ≠ []) (hm : m ∈ metrics) :
    offsetTime (ip ++ m) = some (ip, [], m) := by
  rw [metrics_eq] at hm
  simp only [mem_cons, not_mem_nil, or_false] at hm
  rcases hm with rfl | rfl | rfl | rfl | rfl | rfl <;>
    (rw [offsetTime_plain hip hne _ (by decide) (by decide), metrics_eq]; rfl)

/-- … and `<digits>.<digits><metric>` -/
theorem offsetTime_print_frac {ip fp m : Str} (hip : DigitStr ip) (hne : ip ≠ [])
    (hfp : DigitStr fp) (hfne : fp ≠ []) (hm : m ∈ metrics) :
    offsetTime (ip ++ '.' :: fp ++ m) = some (ip, fp, m) := by
  rw [metrics_eq] at hm
  simp only [mem_cons, not_mem_nil, or_false] at hm
  rw [show ip ++ '.' :: fp ++ m = ip ++ '.' :: (fp ++ m) by simp]
  rcases hm with rfl | rfl | rfl | rfl | rfl | rfl <;>
    (rw [offsetTime_frac hip hne hfp hfne _ (by decide), metrics_eq]; rfl)

/-- the four time metrics (`f` and `t` are counts of frames / ticks) -/
def timeMetrics : List Str := ["h".toList, "m".toList, "s".toList, "ms".toList]

theorem timeMetrics_eq : timeMetrics = [['h'], ['m'], ['s'], ['m', 's']] := by
  simp [timeMetrics]

theorem timeMetrics_sub {m : Str} (h : m ∈ timeMetrics) :
    m ∈ metrics ∧ m ≠ "t".toList ∧ m ≠ "f".toList := by
  rw [timeMetrics_eq] at h
  simp only [mem_cons, not_mem_nil, or_false] at h
  rw [metrics_eq]
  rcases h with rfl | rfl | rfl | rfl <;> simp

/-- `<digits>.<digits>` with metric `h`, `m`, `s`, `ms`: the value is `N·timebase / 10^k` (integer
    division), `N` the digits read as one number and `k` the number of fraction digits -/
theorem offset_value {ip fp m : Str} (hip : DigitStr ip) (hne : ip ≠ []) (hfp : DigitStr fp)
    (hfne : fp ≠ []) (hm : m ∈ timeMetrics)
    (hV : (natOfDigits (ip ++ fp) : Int) * timebase m / (10 : Int) ^ fp.length ≤ 9223372036854775807) :
    timeExpr (ip ++ '.' :: fp ++ m)
      = some { d := (natOfDigits (ip ++ fp) : Int) * timebase m / (10 : Int) ^ fp.length } := by
  obtain ⟨hmm, ht, hf⟩ := timeMetrics_sub hm
  unfold timeExpr
  rw [offsetTime_print_frac hip hne hfp hfne hmm]
  simp only [ht, hf, ↓reduceIte, offsetDuration, hV, Option.map_some]

/-- `<digits>` with metric `h`, `m`, `s`, `ms`: exactly `N·timebase` -/
theorem offset_value_int {ip m : Str} (hip : DigitStr ip) (hne : ip ≠ []) (hm : m ∈ timeMetrics)
    (hV : (natOfDigits ip : Int) * timebase m ≤ 9223372036854775807) :
    timeExpr (ip ++ m) = some { d := (natOfDigits ip : Int) * timebase m } := by
  obtain ⟨hmm, ht, hf⟩ := timeMetrics_sub hm
  unfold timeExpr
  rw [offsetTime_print hip hne hmm]
  simp only [ht, hf, ↓reduceIte, offsetDuration, append_nil, length_nil, Int.pow_zero,
    Int.ediv_one, hV, Option.map_some]

/-- the value is the floor of the exact rational `N·tb / 10^k`: within one nanosecond … -/
theorem offset_within (N : Nat) (tb : Int) (k : Nat) :
    (N : Int) * tb / (10 : Int) ^ k * (10 : Int) ^ k ≤ (N : Int) * tb ∧
    (N : Int) * tb < ((N : Int) * tb / (10 : Int) ^ k + 1) * (10 : Int) ^ k := by
  have hpos : (0 : Int) < (10 : Int) ^ k := Int.pow_pos (by decide)
  exact ⟨Int.ediv_mul_le _ (Int.ne_of_gt hpos), Int.lt_ediv_add_one_mul_self _ hpos⟩

/-- … and exact when `N·tb / 10^k` is a whole number of nanoseconds -/
theorem offset_exact (N : Nat) (tb : Int) (k : Nat) (hd : (10 : Int) ^ k ∣ (N : Int) * tb) :
    (N : Int) * tb / (10 : Int) ^ k * (10 : Int) ^ k = (N : Int) * tb :=
  Int.ediv_mul_cancel hd

/-- `<digits>t` with a tick rate: `⌊n·10⁹ / tickrate⌋` nanoseconds, whatever the frame rate -/
theorem offset_ticks {ip : Str} (hip : DigitStr ip) (hne : ip ≠ []) (fr : Int) (tr : Nat)
    (hmax : natOfDigits ip ≤ 9223372036854775807) (htr : 0 < tr) :
    instant (ip ++ "t".toList) fr (tr : Int)
      = some ((natOfDigits ip * 1000000000 / tr : Nat) : Int) := by
  unfold instant timeExpr
  rw [offsetTime_print hip hne (by rw [metrics_eq]; simp)]
  simp only [↓reduceIte]
  rw [atoi_digits hip hne hmax]
  simp only [Option.map_some]
  by_cases h0 : natOfDigits ip = 0
  · rw [h0, duration_plain _ _ _ rfl rfl rfl rfl, Nat.zero_mul, Nat.zero_div]; rfl
  · rw [duration_ticks_win _ _ _ ⟨Or.inl (by simp only; omega), by omega⟩]
    simp only [units_floor_nil _ _ htr]

/-- `<digits>.<digits>t` with a tick rate: `⌊(I·10^k + F)·10⁹ / (10^k·tickrate)⌋` nanoseconds -/
theorem offset_ticks_frac {ip fp : Str} (hip : DigitStr ip) (hne : ip ≠ []) (hfp : DigitStr fp)
    (hfne : fp ≠ []) (fr : Int) (tr : Nat)
    (hmax : natOfDigits ip ≤ 9223372036854775807) (htr : 0 < tr) :
    instant (ip ++ '.' :: fp ++ "t".toList) fr (tr : Int)
      = some (((natOfDigits ip * 10 ^ fp.length + natOfDigits fp) * 1000000000
                / (10 ^ fp.length * tr) : Nat) : Int) := by
  unfold instant timeExpr
  rw [offsetTime_print_frac hip hne hfp hfne (by rw [metrics_eq]; simp)]
  simp only [↓reduceIte]
  rw [atoi_digits hip hne hmax]
  simp only [Option.map_some]
  rw [duration_ticks_win _ _ _ ⟨Or.inr hfne, by omega⟩]
  simp only [units_floor _ _ _ htr]

/-- `<digits>f` with a frame rate: `⌊n·10⁹ / framerate⌋` nanoseconds, whatever the tick rate -/
theorem offset_frames {ip : Str} (hip : DigitStr ip) (hne : ip ≠ []) (fr : Nat) (tr : Int)
    (hmax : natOfDigits ip ≤ 9223372036854775807) (hfr : 0 < fr) :
    instant (ip ++ "f".toList) (fr : Int) tr
      = some ((natOfDigits ip * 1000000000 / fr : Nat) : Int) := by
  have hft : ¬ ("f".toList = "t".toList) := by decide
  unfold instant timeExpr
  rw [offsetTime_print hip hne (by rw [metrics_eq]; simp)]
  simp only [hft, ↓reduceIte]
  rw [atoi_digits hip hne hmax]
  simp only [Option.map_some]
  by_cases h0 : natOfDigits ip = 0
  · rw [h0, duration_plain _ _ _ rfl rfl rfl rfl, Nat.zero_mul, Nat.zero_div]; rfl
  · rw [duration_frames _ _ _ rfl rfl ⟨Or.inl (by simp only; omega), by omega⟩]
    simp only [units_floor_nil _ _ hfr, Int.zero_add]

/-- `<digits>.<digits>f` with a frame rate: `⌊(I·10^k + F)·10⁹ / (10^k·framerate)⌋` nanoseconds -/
theorem offset_frames_frac {ip fp : Str} (hip : DigitStr ip) (hne : ip ≠ []) (hfp : DigitStr fp)
    (hfne : fp ≠ []) (fr : Nat) (tr : Int)
    (hmax : natOfDigits ip ≤ 9223372036854775807) (hfr : 0 < fr) :
    instant (ip ++ '.' :: fp ++ "f".toList) (fr : Int) tr
      = some (((natOfDigits ip * 10 ^ fp.length + natOfDigits fp) * 1000000000
                / (10 ^ fp.length * fr) : Nat) : Int) := by
  have hft : ¬ ("f".toList = "t".toList) := by decide
  unfold instant timeExpr
  rw [offsetTime_print_frac hip hne hfp hfne (by rw [metrics_eq]; simp)]
  simp only [hft, ↓reduceIte]
  rw [atoi_digits hip hne hmax]
  simp only [Option.map_some]
  rw [duration_frames _ _ _ rfl rfl ⟨Or.inr hfne, by omega⟩]
  simp only [units_floor _ _ _ hfr, Int.zero_add]

/-! ## 3. clock times -/

/-- a clock time is not an offset time, whatever follows the seconds -/
theorem hms_offsetTime (h m s : Nat) (hh : h < 100) (tail : Str) :
    offsetTime (dd h ++ ':' :: dd m ++ ':' :: dd s ++ tail) = none := by
  rw [show dd h ++ ':' :: dd m ++ ':' :: dd s ++ tail = dd h ++ ':' :: (dd m ++ ':' :: dd s ++ tail) by simp]
  exact offsetTime_colon (digitStr_dd hh) _

theorem hms_colons (h m s : Nat) (hh : h < 100) (hm : m < 100) (hs : s < 100) (tail : Str) :
    countColons (dd h ++ ':' :: dd m ++ ':' :: dd s ++ tail) = 2 + countColons tail := by
  simp only [countColons_append, countColons_colon, countColons_digits (digitStr_dd hh),
    countColons_digits (digitStr_dd hm), countColons_digits (digitStr_dd hs)]

theorem countColons_dot {fp : Str} (hfp : DigitStr fp) : countColons ('.' :: fp) = 0 := by
  have e : countColons ('.' :: fp) = countColons fp := by simp [countColons]
  rw [e, countColons_digits hfp]

/-- without frames the text goes to `parseDuration` -/
theorem timeExpr_clock {text : Str} (hoff : offsetTime text = none) (hcc : countColons text ≠ 3) :
    timeExpr text = (parse text '.' 3).map fun d => { d := d } := by
  unfold timeExpr
  rw [hoff]
  simp only [hcc, ↓reduceIte]

/-- **D8.** `hh:mm:ss` — three fields are never frames -/
theorem clock_plain (h m s : Nat) (hh : h < 100) (hm : m < 100) (hs : s < 100) :
    timeExpr (dd h ++ ':' :: dd m ++ ':' :: dd s)
      = some { d := (h : Int) * 3600000000000 + (m : Int) * 60000000000 + (s : Int) * 1000000000 } := by
  have hoff := hms_offsetTime h m s hh []
  have hcc := hms_colons h m s hh hm hs []
  rw [append_nil] at hoff hcc
  rw [timeExpr_clock hoff (by rw [hcc]; decide), parse_hms h m s hh hm hs]
  have e : (s : Int) * nsPerS + (m : Int) * nsPerMin + (h : Int) * nsPerH
      = (h : Int) * 3600000000000 + (m : Int) * 60000000000 + (s : Int) * 1000000000 := by
    unfold nsPerS nsPerMin nsPerH; omega
  rw [e]; rfl

/-- `hh:mm:ss.f…` with one to three fraction digits `F`: exactly `hms + F·10^(9-|F|)` ns -/
theorem clock_frac (h m s : Nat) (hh : h < 100) (hm : m < 100) (hs : s < 100)
    {fp : Str} (hfp : DigitStr fp) (hne : fp ≠ []) (hl : fp.length ≤ 3) :
    timeExpr (dd h ++ ':' :: dd m ++ ':' :: dd s ++ '.' :: fp)
      = some { d := (h : Int) * 3600000000000 + (m : Int) * 60000000000 + (s : Int) * 1000000000
                    + (natOfDigits fp : Int) * (10 : Int) ^ (3 - fp.length) * 1000000 } := by
  have hoff := hms_offsetTime h m s hh ('.' :: fp)
  have hcc := hms_colons h m s hh hm hs ('.' :: fp)
  rw [countColons_dot hfp] at hcc
  rw [timeExpr_clock hoff (by rw [hcc]; decide), parse_hms_frac h m s hh hm hs hfp hne hl]
  generalize (natOfDigits fp : Int) * (10 : Int) ^ (3 - fp.length) = F
  have e : F * nsPerMs + (s : Int) * nsPerS + (m : Int) * nsPerMin + (h : Int) * nsPerH
      = (h : Int) * 3600000000000 + (m : Int) * 60000000000 + (s : Int) * 1000000000 + F * 1000000 := by
    unfold nsPerMs nsPerS nsPerMin nsPerH; omega
  rw [e]; rfl

/-- `hh:mm:ss.fff` -/
theorem clock_frac3 (h m s f : Nat) (hh : h < 100) (hm : m < 100) (hs : s < 100) (hf : f < 1000) :
    timeExpr (canon3 h m s f '.')
      = some { d := (h : Int) * 3600000000000 + (m : Int) * 60000000000 + (s : Int) * 1000000000
                    + (f : Int) * 1000000 } := by
  have hoff := hms_offsetTime h m s hh ('.' :: ddd f)
  have hcc := hms_colons h m s hh hm hs ('.' :: ddd f)
  rw [countColons_dot (digitStr_ddd hf)] at hcc
  unfold canon3
  rw [timeExpr_clock hoff (by rw [hcc]; decide)]
  have hp := parse_canon3 h m s f hh hm hs hf '.' (Or.inl rfl)
  unfold canon3 at hp
  rw [hp]
  have e : (f : Int) * nsPerMs + (s : Int) * nsPerS + (m : Int) * nsPerMin + (h : Int) * nsPerH
      = (h : Int) * 3600000000000 + (m : Int) * 60000000000 + (s : Int) * 1000000000 + (f : Int) * 1000000 := by
    unfold nsPerMs nsPerS nsPerMin nsPerH; omega
  rw [e]; rfl

/-- `hh:mm:ss.ff` (hundredths) -/
theorem clock_frac2 (h m s f : Nat) (hh : h < 100) (hm : m < 100) (hs : s < 100) (hf : f < 100) :
    timeExpr (canon2 h m s f '.')
      = some { d := (h : Int) * 3600000000000 + (m : Int) * 60000000000 + (s : Int) * 1000000000
                    + (f : Int) * 10000000 } := by
  have hoff := hms_offsetTime h m s hh ('.' :: dd f)
  have hcc := hms_colons h m s hh hm hs ('.' :: dd f)
  rw [countColons_dot (digitStr_dd hf)] at hcc
  unfold canon2
  rw [timeExpr_clock hoff (by rw [hcc]; decide)]
  have hp := parse_canon2 h m s f hh hm hs hf '.' (Or.inl rfl)
  unfold canon2 at hp
  rw [hp]
  have e : (f : Int) * 10 * nsPerMs + (s : Int) * nsPerS + (m : Int) * nsPerMin + (h : Int) * nsPerH
      = (h : Int) * 3600000000000 + (m : Int) * 60000000000 + (s : Int) * 1000000000 + (f : Int) * 10000000 := by
    unfold nsPerMs nsPerS nsPerMin nsPerH; omega
  rw [e]; rfl

/-- `hh:mm:ss.f` (tenths) -/
theorem clock_frac1 (h m s f : Nat) (hh : h < 100) (hm : m < 100) (hs : s < 100) (hf : f < 10) :
    timeExpr (dd h ++ ':' :: dd m ++ ':' :: dd s ++ '.' :: [digitChar f])
      = some { d := (h : Int) * 3600000000000 + (m : Int) * 60000000000 + (s : Int) * 1000000000
                    + (f : Int) * 100000000 } := by
  have hd : DigitStr [digitChar f] := by
    intro c hc; simp at hc; exact ⟨f, hf, hc⟩
  have hv : natOfDigits [digitChar f] = f := by
    simp [natOfDigits, digitChar_sub48 hf]
  rw [clock_frac h m s hh hm hs hd (by simp) (by simp), hv]
  have e : (f : Int) * (10 : Int) ^ (3 - [digitChar f].length) * 1000000 = (f : Int) * 100000000 := by
    have : (10 : Int) ^ (3 - [digitChar f].length) = 100 := rfl
    rw [this]; omega
  rw [e]

/-- `hh:mm:ss:ff`: the clock value and the frame count -/
theorem clock_frames (h m s f : Nat) (hh : h < 100) (hm : m < 100) (hs : s < 100) (hf : f < 100) :
    timeExpr (dd h ++ ':' :: dd m ++ ':' :: dd s ++ ':' :: dd f)
      = some { d := (h : Int) * 3600000000000 + (m : Int) * 60000000000 + (s : Int) * 1000000000,
               frames := (f : Int) } := by
  have hoff := hms_offsetTime h m s hh (':' :: dd f)
  have hcc := hms_colons h m s hh hm hs (':' :: dd f)
  rw [countColons_colon, countColons_digits (digitStr_dd hf)] at hcc
  have hz : ".000".toList = '.' :: ddd 0 := by decide
  unfold timeExpr
  rw [hoff]
  simp only [hcc, ↓reduceIte]
  rw [clockFrames_digits _ (digitStr_dd hf) (by simp [dd])]
  simp only [atoi_dd hf, hz]
  have hp := parse_canon3 h m s 0 hh hm hs (by decide) '.' (Or.inl rfl)
  unfold canon3 at hp
  rw [hp]
  have e : ((0 : Nat) : Int) * nsPerMs + (s : Int) * nsPerS + (m : Int) * nsPerMin + (h : Int) * nsPerH
      = (h : Int) * 3600000000000 + (m : Int) * 60000000000 + (s : Int) * 1000000000 := by
    unfold nsPerMs nsPerS nsPerMin nsPerH; omega
  rw [e]; rfl

/-- `hh:mm:ss:ff` with a frame rate: the clock value plus `⌊f·10⁹ / framerate⌋` -/
theorem clock_frames_instant (h m s f : Nat) (hh : h < 100) (hm : m < 100) (hs : s < 100)
    (hf : f < 100) (hf0 : 0 < f) (fr : Nat) (hfr : 0 < fr) (tr : Int) :
    instant (dd h ++ ':' :: dd m ++ ':' :: dd s ++ ':' :: dd f) (fr : Int) tr
      = some ((h : Int) * 3600000000000 + (m : Int) * 60000000000 + (s : Int) * 1000000000
              + ((f * 1000000000 / fr : Nat) : Int)) := by
  unfold instant
  rw [clock_frames h m s f hh hm hs hf]
  simp only [Option.map_some]
  rw [duration_frames _ _ _ rfl rfl ⟨Or.inl (by simp only; omega), by omega⟩]
  simp only [units_floor_nil _ _ hfr]

/-- `hh:mm:ss:00`, or a document without frame rate: the clock value -/
theorem clock_frames_zero (h m s f : Nat) (hh : h < 100) (hm : m < 100) (hs : s < 100)
    (hf : f < 100) (fr tr : Int) (h0 : f = 0 ∨ fr ≤ 0) :
    instant (dd h ++ ':' :: dd m ++ ':' :: dd s ++ ':' :: dd f) fr tr
      = some ((h : Int) * 3600000000000 + (m : Int) * 60000000000 + (s : Int) * 1000000000) := by
  unfold instant
  rw [clock_frames h m s f hh hm hs hf]
  simp only [Option.map_some, duration]
  have h1 : ¬ (((0 : Int) > 0 ∨ ([] : Str) ≠ []) ∧ tr > 0) := by simp
  have h2 : ¬ (((f : Int) > 0 ∨ ([] : Str) ≠ []) ∧ fr > 0) := by
    simp only [ne_eq, not_true_eq_false, or_false]; omega
  simp only [h1, h2, ↓reduceIte]

/-! ## summary statements -/

/-- nanoseconds per unit of the four time metrics -/
theorem timebase_values :
    timebase "h".toList = 3600000000000 ∧ timebase "m".toList = 60000000000 ∧
    timebase "s".toList = 1000000000 ∧ timebase "ms".toList = 1000000 := by decide

/-- `⌊N / rate⌋ · rate = N` when `rate ∣ N` -/
theorem nat_floor_exact (N rate : Nat) (hd : rate ∣ N) : N / rate * rate = N :=
  Nat.div_mul_cancel hd

/-- **Offset time, time metrics.** `I.F<metric>` (`I`, `F` digit strings, `k = |F|`, metric `h`, `m`,
    `s` or `ms` with `tb` ns per unit) denotes, for every frame and tick rate, the floor `V` of the
    exact instant `(I·10^k + F)·tb / 10^k` ns: `V ≤ exact < V + 1`, with equality when the exact
    instant is a whole number of nanoseconds. -/
theorem offset_resolved {ip fp m : Str} (hip : DigitStr ip) (hne : ip ≠ []) (hfp : DigitStr fp)
    (hfne : fp ≠ []) (hm : m ∈ timeMetrics) (fr tr : Int)
    (hV : (natOfDigits (ip ++ fp) : Int) * timebase m / (10 : Int) ^ fp.length ≤ 9223372036854775807) :
    ∃ V : Int, instant (ip ++ '.' :: fp ++ m) fr tr = some V ∧
      V * (10 : Int) ^ fp.length
        ≤ ((natOfDigits ip * 10 ^ fp.length + natOfDigits fp : Nat) : Int) * timebase m ∧
      ((natOfDigits ip * 10 ^ fp.length + natOfDigits fp : Nat) : Int) * timebase m
        < (V + 1) * (10 : Int) ^ fp.length ∧
      ((10 : Int) ^ fp.length ∣ ((natOfDigits ip * 10 ^ fp.length + natOfDigits fp : Nat) : Int) * timebase m →
        V * (10 : Int) ^ fp.length
          = ((natOfDigits ip * 10 ^ fp.length + natOfDigits fp : Nat) : Int) * timebase m) := by
  rw [← natOfDigits_concat]
  exact ⟨_, instant_plain fr tr (offset_value hip hne hfp hfne hm hV),
    (offset_within _ _ _).1, (offset_within _ _ _).2, offset_exact _ _ _⟩

/-- **Offset time without fraction**, time metrics: exactly `I·tb` ns, for every frame and tick rate -/
theorem offset_resolved_int {ip m : Str} (hip : DigitStr ip) (hne : ip ≠ []) (hm : m ∈ timeMetrics)
    (fr tr : Int) (hV : (natOfDigits ip : Int) * timebase m ≤ 9223372036854775807) :
    instant (ip ++ m) fr tr = some ((natOfDigits ip : Int) * timebase m) :=
  instant_plain fr tr (offset_value_int hip hne hm hV)

/-- **Clock times** `hh:mm:ss` and `hh:mm:ss.f…` (1–3 fraction digits) denote exactly their value,
    for every frame and tick rate -/
theorem clock_resolved (h m s : Nat) (hh : h < 100) (hm : m < 100) (hs : s < 100) (fr tr : Int) :
    instant (dd h ++ ':' :: dd m ++ ':' :: dd s) fr tr
      = some ((h : Int) * 3600000000000 + (m : Int) * 60000000000 + (s : Int) * 1000000000) ∧
    ∀ fp : Str, DigitStr fp → fp ≠ [] → fp.length ≤ 3 →
      instant (dd h ++ ':' :: dd m ++ ':' :: dd s ++ '.' :: fp) fr tr
        = some ((h : Int) * 3600000000000 + (m : Int) * 60000000000 + (s : Int) * 1000000000
                + (natOfDigits fp : Int) * (10 : Int) ^ (3 - fp.length) * 1000000) :=
  ⟨instant_plain fr tr (clock_plain h m s hh hm hs),
   fun _ hfp hne hl => instant_plain fr tr (clock_frac h m s hh hm hs hfp hne hl)⟩

/-! ### the hypotheses are satisfiable: concrete instances through the executable model -/

example : instant "01:02:03".toList 25 0 = some 3723000000000 := by decide
example : instant "01:02:03.5".toList 25 0 = some 3723500000000 := by decide
example : instant "00:00:01:15".toList 30 0 = some 1500000000 := by decide
example : instant "1.5s".toList 0 0 = some 1500000000 := by decide
example : instant "90t".toList 0 90000 = some 1000000 := by decide
example : instant "1f".toList 30 0 = some 33333333 := by decide
example : instant "1.5f".toList 30 0 = some 50000000 := by decide
example : instant "0.5t".toList 0 10 = some 50000000 := by decide

/-! # Component laws of the TTML reader / writer -/

/-! ## B1. language table -/

/-- every language code of the table is read as its language -/
theorem languageOf_table : ∀ p ∈ TTML.languages, TTML.languageOf p.1 = some p.2 := by decide

/-- … and the writer maps the language back to the code -/
theorem langOut_table :
    ∀ p ∈ TTML.languages, TTML.langOut (some [("Language".toList, p.2)]) = some p.1 := by decide

/-- only the first two characters of `xml:lang` matter (`en-US` is `en`) -/
theorem languageOf_prefix (c1 c2 : Char) (rest : Str) :
    languageOf (c1 :: c2 :: rest) = languageOf [c1, c2] := rfl

/-- fewer than two characters: no language -/
theorem languageOf_short (s : Str) (h : s.length < 2) : languageOf s = none := by
  match s, h with
  | [], _ => rfl
  | [_], _ => rfl

/-! ## B5. parent links (D7): `lastWins` -/

theorem lastWins_aux (l : List Def) :
    ∀ acc : List Def, (∀ x ∈ acc, ∀ d ∈ l, x.id ≠ d.id) → (l.map (·.id)).Nodup →
      l.foldl (fun acc d => (acc.filter fun x => x.id != d.id) ++ [d]) acc = acc ++ l := by
  induction l with
  | nil => intro acc _ _; simp
  | cons d l ih =>
    intro acc hacc hnd
    rw [map_cons, nodup_cons] at hnd
    have hf : (acc.filter fun x => x.id != d.id) = acc := by
      rw [filter_eq_self]
      intro x hx
      have := hacc x hx d (by simp)
      simpa using this
    rw [foldl_cons, hf, ih (acc ++ [d]) ?_ hnd.2]
    · simp
    · intro x hx e he
      rcases mem_append.mp hx with hx | hx
      · exact hacc x hx e (by simp [he])
      · have hxd : x = d := by simpa using hx
        subst hxd
        intro heq
        exact hnd.1 (mem_map.mpr ⟨e, he, heq.symm⟩)

/-- with pairwise distinct identifiers every definition is kept, in order, with its own `ref` -/
theorem lastWins_nodup (l : List Def) (h : (l.map (·.id)).Nodup) : lastWins l = l := by
  unfold lastWins
  rw [lastWins_aux l [] (by simp) h]
  simp

/-- `lastWins` invents nothing -/
theorem lastWins_sub (l : List Def) : ∀ d ∈ lastWins l, d ∈ l := by
  have key : ∀ (l acc : List Def), ∀ d ∈ l.foldl (fun acc d => (acc.filter fun x => x.id != d.id) ++ [d]) acc,
      d ∈ acc ∨ d ∈ l := by
    intro l
    induction l with
    | nil => intro acc d hd; exact Or.inl hd
    | cons e l ih =>
      intro acc d hd
      rw [foldl_cons] at hd
      rcases ih _ d hd with h | h
      · rcases mem_append.mp h with h | h
        · exact Or.inl (mem_filter.mp h).1
        · exact Or.inr (by simp at h; simp [h])
      · exact Or.inr (by simp [h])
  intro d hd
  rcases key l [] d hd with h | h
  · simp at h
  · exact h

/-- the identifier defined last is present (it wins) -/
theorem lastWins_last (l : List Def) (d : Def) : d ∈ lastWins (l ++ [d]) := by
  unfold lastWins
  rw [foldl_append]
  simp

/-! ## B6. attribute table -/

theorem attrTable_length : attrTable.length = 24 := by decide

/-- the field names are pairwise distinct -/
theorem attrTable_fields_nodup : (attrTable.map (·.1)).Nodup := by decide

/-- the XML local names are pairwise distinct -/
theorem attrTable_names_nodup : (attrTable.map (·.2)).Nodup := by decide

/-- each XML local name is the field name with the first letter in lower case -/
theorem attrTable_lower : ∀ p ∈ attrTable,
    p.2.toList = (match p.1.toList with | c :: cs => c.toLower :: cs | [] => []) := by decide

/-! ## B3. `brTrick` -/

theorem brTrick_append (l₁ l₂ : List XTok) : brTrick (l₁ ++ l₂) = brTrick l₁ ++ brTrick l₂ := by
  induction l₁ with
  | nil => rfl
  | cons t l ih =>
    cases t with
    | start sp n a =>
      by_cases hb : isBr n = true
      · simp [brTrick, hb, ih]
      · simp [brTrick, hb, ih]
    | stop sp n => simp [brTrick, ih]
    | text s => simp [brTrick, ih]
    | other => simp [brTrick, ih]

/-- a `br` start tag gets a `"\n"` character-data token in front -/
theorem brTrick_br (sp n : Str) (a : List (Str × Str × Str)) (h : isBr n = true) :
    brTrick [.start sp n a] = [.text ['\n'], .start sp n a] := by
  simp [brTrick, h]

/-- any other token is passed through -/
theorem brTrick_other (t : XTok) (h : ∀ sp n a, t = .start sp n a → isBr n = false) :
    brTrick [t] = [t] := by
  cases t with
  | start sp n a => simp [brTrick, h sp n a rfl]
  | stop sp n => simp [brTrick]
  | text s => simp [brTrick]
  | other => simp [brTrick]

/-- `brTrick` only inserts `"\n"` character-data tokens -/
theorem brTrick_filter (l : List XTok) :
    (brTrick l).filter (fun t => t != .text ['\n']) = l.filter (fun t => t != .text ['\n']) := by
  induction l with
  | nil => rfl
  | cons t l ih =>
    cases t with
    | start sp n a =>
      by_cases hb : isBr n = true
      · simp [brTrick, hb, ih]
      · simp [brTrick, hb, ih]
    | stop sp n => simp [brTrick, ih]
    | text s => simp only [brTrick, filter_cons, ih]
    | other => simp [brTrick, ih]

/-! ## B2. line splitting: `linesLoop` -/

/-- the line item the reader makes of run `r` for the text piece `t` -/
def mkItem (r : InItem) (t : Str) : LItem :=
  { text := t, attrs := some (styleAttributes r.attrs), style := if r.style ≠ [] then some r.style else none }

/-- a `<br/>` element as `TTMLInItem` -/
def brItem : InItem := { name := "br".toList }

/-- ground-truth lines (lists of runs) as the item list the reader sees: lines separated by one `br` -/
def itemsOfLines : List (List InItem) → List InItem
  | [] => []
  | [l] => l
  | l :: l' :: ls => l ++ brItem :: itemsOfLines (l' :: ls)

/-- a run: not a `br`, a known (or no) style -/
def Run (styles : List Str) (r : InItem) : Prop :=
  isBr r.name = false ∧ (r.style = [] ∨ r.style ∈ styles)

/-- a run whose text has no line break -/
def GoodRun (styles : List Str) (r : InItem) : Prop := Run styles r ∧ '\n' ∉ r.text

theorem Run.styleOk {styles : List Str} {r : InItem} (h : Run styles r) :
    ¬ (r.style ≠ [] ∧ (!styles.contains r.style) = true) := by
  rintro ⟨h1, h2⟩
  rcases h.2 with e | e
  · exact h1 e
  · simp [e] at h2

/-- a `br` item closes the current line -/
theorem linesLoop_br (styles : List Str) (rest : List InItem) (done : List Line) (cur : List LItem) :
    linesLoop styles (brItem :: rest) done cur = linesLoop styles rest (done ++ [{ items := cur }]) [] := by
  have hb : isBr brItem.name = true := by decide
  rw [linesLoop]
  simp only [hb, ↓reduceIte]

/-- a run without line break is appended to the current line -/
theorem linesLoop_run (styles : List Str) (r : InItem) (hr : GoodRun styles r) (rest : List InItem)
    (done : List Line) (cur : List LItem) :
    linesLoop styles (r :: rest) done cur = linesLoop styles rest done (cur ++ [mkItem r r.text]) := by
  rw [linesLoop]
  simp only [hr.1.1, Bool.false_eq_true, ↓reduceIte, hr.1.styleOk, splitC_not_mem hr.2,
    getLast?_nil]
  rfl

theorem linesLoop_runs (styles : List Str) (l : List InItem) (hl : ∀ r ∈ l, GoodRun styles r)
    (rest : List InItem) (done : List Line) :
    ∀ cur : List LItem, linesLoop styles (l ++ rest) done cur
      = linesLoop styles rest done (cur ++ l.map fun r => mkItem r r.text) := by
  induction l with
  | nil => intro cur; simp
  | cons r l ih =>
    intro cur
    rw [cons_append, linesLoop_run styles r (hl r (by simp)), ih (fun x hx => hl x (by simp [hx]))]
    simp

theorem linesLoop_lines_aux (styles : List Str) (ls : List (List InItem)) :
    ∀ (l : List InItem) (done : List Line) (cur : List LItem),
      (∀ l' ∈ l :: ls, ∀ r ∈ l', GoodRun styles r) →
      linesLoop styles (itemsOfLines (l :: ls)) done cur
        = some (done ++ { items := cur ++ l.map fun r => mkItem r r.text }
            :: ls.map fun l' => ({ items := l'.map fun r => mkItem r r.text } : Line)) := by
  induction ls with
  | nil =>
    intro l done cur h
    have := linesLoop_runs styles l (h l (by simp)) [] done cur
    rw [append_nil] at this
    rw [itemsOfLines, this, linesLoop]
    rfl
  | cons l' ls ih =>
    intro l done cur h
    rw [itemsOfLines, linesLoop_runs styles l (h l (by simp)), linesLoop_br,
      ih l' _ [] (fun x hx => h x (by simp [hx]))]
    simp

/-- **Line splitting.** Lines (possibly empty) of runs separated by single `br` elements are read
    back as exactly those lines, run by run -/
theorem linesLoop_lines (styles : List Str) (ls : List (List InItem)) (hne : ls ≠ [])
    (h : ∀ l ∈ ls, ∀ r ∈ l, GoodRun styles r) :
    linesLoop styles (itemsOfLines ls) [] []
      = some (ls.map fun l => ({ items := l.map fun r => mkItem r r.text } : Line)) := by
  cases ls with
  | nil => exact absurd rfl hne
  | cons l ls =>
    rw [linesLoop_lines_aux styles ls l [] [] h]
    simp

/-- `strings.Split(strings.Join(segs, "\n"), "\n") = segs` for segments without line break -/
theorem splitC_join (first : Str) (more : List Str) (h : ∀ s ∈ first :: more, '\n' ∉ s) :
    splitC '\n' (join ['\n'] (first :: more)) = first :: more := by
  induction more generalizing first with
  | nil => simp only [join]; exact splitC_not_mem (h first (by simp))
  | cons b more ih =>
    have e : join ['\n'] (first :: b :: more) = first ++ '\n' :: join ['\n'] (b :: more) := by
      simp [join]
    rw [e, splitC_append _ (h first (by simp)), ih b (fun s hs => h s (by simp [hs]))]

/-- **`br` inside a span.** A run whose text is `first \n … \n last` (at least one line break)
    finishes the current line with `first`, contributes one line per middle segment, and leaves
    `last` as the current line: `|segs| - 1` line breaks -/
theorem linesLoop_segs (styles : List Str) (r : InItem) (hr : Run styles r) (first last : Str)
    (more : List Str) (hlast : more.getLast? = some last)
    (htext : r.text = join ['\n'] (first :: more)) (hseg : ∀ s ∈ first :: more, '\n' ∉ s)
    (rest : List InItem) (done : List Line) (cur : List LItem) :
    linesLoop styles (r :: rest) done cur
      = linesLoop styles rest
          (done ++ [{ items := cur ++ [mkItem r first] }]
            ++ (more.dropLast.map fun li => ({ items := [mkItem r li] } : Line)))
          [mkItem r last] := by
  rw [linesLoop]
  simp only [hr.1, Bool.false_eq_true, ↓reduceIte, hr.styleOk, htext, splitC_join first more hseg,
    hlast]
  rfl

/-- the two-segment case: `a \n b` gives two lines -/
theorem linesLoop_two (styles : List Str) (r : InItem) (hr : Run styles r) (a b : Str)
    (htext : r.text = a ++ '\n' :: b) (ha : '\n' ∉ a) (hb : '\n' ∉ b)
    (rest : List InItem) (done : List Line) (cur : List LItem) :
    linesLoop styles (r :: rest) done cur
      = linesLoop styles rest (done ++ [{ items := cur ++ [mkItem r a] }]) [mkItem r b] := by
  have := linesLoop_segs styles r hr a b [b] rfl (by simp [join, htext])
    (by intro s hs; simp at hs; rcases hs with rfl | rfl <;> assumption) rest done cur
  simpa using this

/-- a reference to a style that is not defined is an error -/
theorem linesLoop_unknown_style (styles : List Str) (r : InItem) (hbr : isBr r.name = false)
    (hs : r.style ≠ []) (hn : r.style ∉ styles) (rest : List InItem) (done : List Line)
    (cur : List LItem) : linesLoop styles (r :: rest) done cur = none := by
  rw [linesLoop]
  have hc : r.style ≠ [] ∧ (!styles.contains r.style) = true := ⟨hs, by simpa using hn⟩
  simp only [hbr, Bool.false_eq_true, ↓reduceIte]
  rw [if_pos hc]

/-! ## B4. `stripIndent` -/

theorem foldl_glue (f : Str → Str → Str) (ls : List Str)
    (hf : ∀ acc l, l ∈ ls → f acc l = acc ++ trimLeftSpace l) :
    ∀ acc, ls.foldl f acc = acc ++ (ls.map trimLeftSpace).flatten := by
  induction ls with
  | nil => intro acc; simp
  | cons l ls ih =>
    intro acc
    rw [foldl_cons, hf acc l (by simp), ih (fun a x hx => hf a x (by simp [hx]))]
    simp

/-- **Indentation between elements.** When every line is empty or starts with `<` after trimming
    (pure markup lines), removing the indentation is the concatenation of the trimmed lines — no
    space is inserted -/
theorem stripIndent_markup (ls : List Str) (hnl : ∀ l ∈ ls, '\n' ∉ l)
    (hm : ∀ l ∈ ls, trimLeftSpace l = [] ∨ (trimLeftSpace l).head? = some '<') :
    stripIndent (join ['\n'] ls) = (ls.map trimLeftSpace).flatten := by
  cases ls with
  | nil => simp [stripIndent, join, splitC, trimLeftSpace, trimLeft]
  | cons first more =>
    unfold stripIndent
    rw [splitC_join first more hnl, foldl_glue _ (first :: more) ?_ []]
    · simp
    · intro acc l hl
      rcases hm l hl with h | h
      · simp [h]
      · simp [h]

end C03
end Astisub
