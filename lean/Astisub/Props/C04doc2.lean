import Astisub.Props.C04doc
import Astisub.Spec.SSA
import Astisub.Lemmas.SSA2Info
import Astisub.Lemmas.SSA2Read
import Astisub.Lemmas.SSA2Fix
import Astisub.Lemmas.SSA2Fixpoint
import Astisub.Lemmas.SSA2Total
import Astisub.Lemmas.SSA2Spec

/-!
# C04 (document level) — SSA / ASS: write → read and the rewrite fixpoint, for whole documents

`Props/C04doc.lean` proves the round trips of rows, texts and of the styles / events sections, and
leaves two statements unproved (`write_read_Statement`, `rewrite_fixpoint_Statement`).  This file
proves both, for the model `SSA.write` / `SSA.read` of the repaired `ssa.go`, for **all** cue lists
satisfying the explicit decidable predicates `RepRead` / `RepFix`, with the explicit normal form
`SSA.norm`:

* `write_read`        : `read (lines (write s)) = norm s`                         (`RepRead s`)
* `rewrite_fixpoint`  : `write (norm s) = write s`                                (`RepFix s`)
* `write_read_write`  : reading the written text and writing the result gives the same text again
* `norm_stable`       : the normal form is what reading its own written text gives
* `writer_answers`, `norm_representable`, `norm_idem` : the writer answers on every `RepRead` cue list with
  a cue; the normal form is representable; normalising twice is normalising once

and the pieces they are made of: the invariant `first = false` of the scan loop, the script-info
block (all 15 keys, comments, `Timer` through `,`/`.`), `read`'s post-processing, `ofCanon ∘ canon`,
`newSSAScriptInfo ∘ metadata`, `newSSAStyleFromStyle ∘ style`, `newSSAEventFromItem ∘ ssaEvent.item`,
and "the runs of a line concatenate to the line" for every line.

Restriction that remains: `Timer` (like the style floats in `C04doc`) is covered through a decidable
predicate (`timerOK`: the double survives `FormatFloat(-1)` / `ParseFloat` in the `Numconv` model),
not through a general theorem about shortest formatting.  The independent decoder (`Spec.SSA.decode`)
is not treated here: see `decode_write_Statement` at the end (UNPROVED, statement only).
-/

namespace Astisub
namespace C04doc2
open Go SSA List

/-! ### 1. the scan loop -/

/-- **Invariant of the scan loop.** Whatever the state and the line, a successful iteration of
    `ReadFromSSA`'s loop leaves `first = false`: the byte-order mark is only looked for once. -/
theorem step_leaves_first_false (st st' : St) (l : Str) (h : step st l = .ok st') : st'.first = false :=
  step_first st st' l h

/-- … hence after any non-empty sequence of lines that is scanned without error. -/
theorem run_leaves_first_false (ls : List Str) (st st' : St) (h : run st ls = .ok st') (hne : ls ≠ []) :
    st'.first = false := run_first ls st st' h hne

/-! ### 2. the script-info block -/

/-- **`Timer`: `,` → `.` undoes `.` → `,`.** On a text without comma (such as a formatted number),
    the replacement `ssaScriptInfo.parse` applies undoes the one `ssaScriptInfo.bytes` applied. -/
theorem timer_separator_roundtrip (s : Str) (h : ',' ∉ s) :
    replaceAll [','] ['.'] (replaceAll ['.'] [','] s) = s := replaceAll_comma_dot s h

/-- `FormatFloat(f,'f',-1,64)` only emits digits, `-` and `.` (so no comma, no space, no line feed) -/
theorem shortest_float_chars (bits : Nat) (str : Str) (h : formatFloatShortest bits = some str) :
    ∀ c ∈ str, numChar c = true := formatFloatShortest_numChar bits str h

/-- **One key.** For each of the 15 keys and every good value (`SIOK`: of the key's type; 64-bit
    integer; `Timer` surviving shortest formatting; non-empty string that needs no trimming and has no
    line feed), the text written after `Header: ` needs no trimming, has no line feed, and
    `ssaScriptInfo.parse` reads it back as exactly this value. -/
theorem script_info_value_roundtrip (b : Info) (f : SI) (v : Val) (h : SIOK f v) :
    ∃ t, siText v = some t ∧ Trimmed t ∧ '\n' ∉ t ∧
      b.parse f.header.toList t = .ok { b with vals := b.vals.set f v } := parse_written b f v h

/-- **The block.** Whenever `ssaScriptInfo.bytes` succeeds on a good script info (`InfoOK`), its text
    is the line `[Script Info]` followed by lines without line feeds, and the scan loop, started in the
    reader's initial state, reads them without error into: section `[Script Info]`, `first = false`,
    the same comments, and the same value for every key (tabulated in the writer's key order). -/
theorem script_info_block_roundtrip (b : Info) (txt : Str) (hb : InfoOK b) (h : b.bytes = some txt) :
    ∃ infoLines, txt = unlines ("[Script Info]".toList :: infoLines) ∧ (∀ l ∈ infoLines, '\n' ∉ l) ∧
      run {} ("[Script Info]".toList :: infoLines)
        = .ok { sec := .scriptInfo, first := false, info := { comments := b.comments, vals := tabulate b SI.all } } :=
  run_info b txt hb h

/-- every key of the tabulated values has the value it had -/
theorem script_info_values_kept (b : Info) (f : SI) : (tabulate b SI.all).get f = b.vals.get f := tabulate_get b f

/-- non-vacuity: a script info with comments, a string with a colon, an integer, a `Timer`, the script type -/
def exInfo : Info :=
  { comments := ["made by hand".toList, "second comment".toList],
    vals := [(.playResX, .i 384), (.scriptType, .s "v4.00+".toList), (.timer, .f 0x4059000000000000),
             (.title, .s "An example: with colon".toList)] }

example : InfoOK exInfo := by decide +kernel
/-- `Timer` values: 100, 0.1 and 1/3 all survive shortest formatting … -/
example : timerOK 0x4059000000000000 = true := by decide +kernel
example : timerOK 0x3FB999999999999A = true := by decide +kernel
example : timerOK 0x3FD5555555555555 = true := by decide +kernel
/-- … an infinity does not (the predicate excludes something) -/
example : timerOK 0x7FF0000000000000 = false := by decide +kernel
/-- an empty string value is not good: the reader takes it for "unset" -/
example : ¬ SIOK .title (.s []) := by decide

/-! ### 3. write → read -/

/-- **The scan loop over the whole written document.** For a representable cue list, the lines of
    the written text take the reader from its initial state to: section `[Events]` with the writer's
    event Format, the script info, the sorted styles with their attributes in the Format's columns,
    and one normalised event per cue. -/
theorem scan_written_document (s : Subs) (out : Str) (hr : RepRead s) (h : write s = .ok out) :
    run {} (splitC '\n' out) = .ok
      { sec := .events, format := eventFormat (isV4plus s), first := false,
        info := { comments := (infoOfMeta s.metadata).comments, vals := tabulate (infoOfMeta s.metadata) SI.all },
        styles := (writerStyles s).map (fun st => { name := st.name, vals := pick st (formatFlds (writerStyles s)) }),
        events := (s.items.map eventOfItem).map (Event.norm "Dialogue".toList (isV4plus s)) } :=
  run_document s out hr h

/-- with distinct names `o.Styles[st.ID] = st` keeps every style -/
theorem style_map_keeps_distinct (l : List Style) (h : (l.map (·.name)).Nodup) : styleMap l = l := styleMap_nodup l h

/-- **Write → read (document level).** For every representable cue list (`RepRead`: good script info,
    good style cells, good event cells, texts and names that need no trimming and have no line feed,
    distinct style identifiers), if `WriteToSSA` answers `out` then `ReadFromSSA` on the lines of `out`
    answers exactly the normal form `norm s`: the cues rebuilt from the normalised events against the
    written style names, the sorted styles with their attributes, the metadata of the script info.
    This is `write_read_Statement` of `C04doc` for `Rep := RepRead`, `norm := SSA.norm`. -/
theorem write_read : C04doc.write_read_Statement RepRead norm :=
  fun s out hr h => SSA.write_read s out hr h

/-! ### 4. the rewrite fixpoint -/

/-- **`ofCanon ∘ canon = id`** on every value whose colour fits 32 bits and whose integer fits 64 bits -/
theorem ofCanon_canon_id (v : Val) (h : CanonOK v) : Val.ofCanon v.kind v.canon = v := ofCanon_canon v h

/-- looking a key up in the sorted attribute list `mkAttrs l` gives the value listed for it (keys distinct):
    the look-up goes through the merge sort -/
theorem lookup_through_sort (l : List (String × Option Str)) (hd : l.Pairwise (fun a b => a.1 ≠ b.1)) (k : String)
    (o : Option Str) (hm : (k, o) ∈ l) : kvGet (some (mkAttrs l)) k = o := kvGet_mkAttrs_mem l hd k o hm

/-- **Script info.** `newSSAScriptInfo (b.metadata()) = b` for the script info `b` of any metadata, when `b` is good -/
theorem script_info_of_metadata (m : Attrs) (h : InfoOK (infoOfMeta m)) :
    infoOfMeta (infoOfMeta m).metadata = infoOfMeta m := infoOfMeta_metadata m h

/-- **Styles.** `newSSAStyleFromStyle (st.style()) = st` for the style `st` of any definition, when its cells are good -/
theorem style_of_definition (d : Def) (h : StyleOK (styleOfDef d)) :
    styleOfDef (styleOfDef d).toDef = styleOfDef d := styleOfDef_toDef d h

/-- **Runs (all lines).** Whatever the line — stray braces included — the runs `ssaEvent.item` cuts it
    into (override blocks and the texts that follow them), concatenated the way the writer
    concatenates them, give the line back. -/
theorem runs_concatenate_to_line (L : Str) : flatRuns (lineRuns L) = L := flat_lineRuns L

/-- **Event → cue → event.** For an event of category `Dialogue` whose style is empty or names a
    style of the list (not `*Default`), whose set integers fit 64 bits and whose text is unchanged by
    the reader's line splitting, `newSSAEventFromItem (e.item()) = e`: all twelve fields. -/
theorem event_item_event (ids : List Str) (x : Event) (h : EventBack ids x) : eventOfItem (eventItem ids x) = x :=
  eventOfItem_eventItem ids x h

/-- a text made of lines without `\n` / `\N` that need no trimming is unchanged by the reader's line splitting -/
theorem textFix_of_lines (ls : List Str) (hne : ls ≠ []) (h : ∀ L ∈ ls, LineOK L) : TextFix (join "\\n".toList ls) := by
  unfold TextFix
  rw [textLines_join ls hne h]

/-- **Rewrite fixpoint.** For every cue list representable in the stronger sense `RepFix` (`RepRead`,
    and every cue names no style or a style of the list other than `*Default`, and its text is
    unchanged by the reader's line splitting), writing the normal form gives the same result as writing
    the cue list.  This is `rewrite_fixpoint_Statement` of `C04doc` for `Rep := RepFix`, `norm := SSA.norm`. -/
theorem rewrite_fixpoint : C04doc.rewrite_fixpoint_Statement RepFix norm :=
  fun s h => write_norm s h

/-- **write ∘ read ∘ write = write.** If `WriteToSSA` answers `out` for a `RepFix` cue list, then
    `ReadFromSSA` on the lines of `out` answers a cue list for which `WriteToSSA` answers `out` again
    (what the `ssa.write` check compares byte for byte). -/
theorem write_read_write (s : Subs) (out : Str) (h : RepFix s) (hw : write s = .ok out) :
    ∃ back, read (splitC '\n' out) = .ok back ∧ write back = .ok out :=
  ⟨norm s, SSA.write_read s out h.1 hw, by rw [write_norm s h, hw]⟩

/-- **The normal form is stable**: reading what is written for `norm s` gives `norm s` again. -/
theorem norm_stable (s : Subs) (out : Str) (h : RepFix s) (hw : write s = .ok out) :
    write (norm s) = .ok out ∧ read (splitC '\n' out) = .ok (norm s) :=
  ⟨by rw [write_norm s h, hw], SSA.write_read s out h.1 hw⟩

/-- **The writer answers.** For every `RepRead` cue list with at least one cue, `WriteToSSA` answers a
    text: the hypothesis `write s = .ok out` of the theorems above can always be met. -/
theorem writer_answers (s : Subs) (hr : RepRead s) (hne : s.items ≠ []) : ∃ out, write s = .ok out :=
  write_ok_of_rep s hr hne

/-- **What is read back is representable**: the normal form of a `RepFix` cue list is `RepRead`. -/
theorem norm_representable (s : Subs) (h : RepFix s) : RepRead (norm s) := repRead_norm s h

/-- **The normal form is a normal form**: `norm (norm s) = norm s` (at least one cue). -/
theorem norm_idem (s : Subs) (h : RepFix s) (hne : s.items ≠ []) : norm (norm s) = norm s := SSA.norm_idem s h hne

/-! ### 5. non-vacuity of `RepRead` / `RepFix` -/

/-- a cue list with comments, five script-info keys (string with a colon, integer, `Timer`, script type),
    two styles out of order (boolean, font name with a space, float, colour, negative integer), two cues
    (style reference, effect with `;`, margin, two lines, an override block, commas and a colon in the text;
    a cue with nothing set and an end after 1 h) -/
def exDoc : Subs :=
  { items := [{ startAt := 1000000000, endAt := 2500000000, style := some "Top".toList,
                attrs := some [("SSAEffect".toList, "Scroll up;20".toList), ("SSAMarginLeft".toList, "12".toList)],
                lines := [{ voice := "Bob".toList, items := [mkRun (none, "Hello, ".toList), mkRun (some "{\\i1}".toList, "world".toList)] },
                          { voice := "Bob".toList, items := [mkRun (none, "bye: now".toList)] }] },
              { startAt := 3000000000, endAt := 3723450000000,
                lines := [{ items := [mkRun (none, "second cue".toList)] }] }],
    styles := [{ id := "Top".toList, attrs := some [("SSABold".toList, "true".toList), ("SSAFontName".toList, "Arial Black".toList),
                                                     ("SSAFontSize".toList, "f4626322717216342016".toList),
                                                     ("SSAPrimaryColour".toList, "00ffffff".toList)] },
               { id := "Base".toList, attrs := some [("SSAMarginVertical".toList, "-5".toList)] }],
    metadata := some [("Comments".toList, "made by hand\nsecond comment".toList),
                      ("SSAPlayResX".toList, "384".toList),
                      ("SSAScriptType".toList, "v4.00+".toList),
                      ("SSATimer".toList, "f4636737291354636288".toList),
                      ("Title".toList, "An example: with colon".toList)] }

theorem exDoc_styles :
    writerStyles exDoc = [styleOfDef (exDoc.styles.getD 1 default), styleOfDef (exDoc.styles.getD 0 default)] := by
  simp [writerStyles, exDoc, mergeSort, strLt]

theorem exDoc_info : InfoOK (infoOfMeta exDoc.metadata) := by decide +kernel

theorem exDoc_stylesOK : ∀ st ∈ [styleOfDef (exDoc.styles.getD 1 default), styleOfDef (exDoc.styles.getD 0 default)],
    StyleOK st ∧ StyleTrimmed st ∧ StyleNL st := by decide +kernel

theorem exDoc_events : ∀ e ∈ exDoc.items.map eventOfItem, EventCells e ∧ Trimmed e.text ∧ EventNL e := by decide +kernel

theorem exDoc_fix : ∀ e ∈ exDoc.items.map eventOfItem,
    StyleRef ([styleOfDef (exDoc.styles.getD 1 default), styleOfDef (exDoc.styles.getD 0 default)].map (·.name)) e.style
      ∧ TextFix e.text := by decide +kernel

theorem exDoc_repFix : RepFix exDoc := by
  unfold RepFix RepRead styleIds
  rw [exDoc_styles]
  exact ⟨⟨exDoc_info, exDoc_stylesOK, exDoc_events, by decide⟩, exDoc_fix⟩

example : RepRead exDoc := exDoc_repFix.1

/-- the writer does answer a text for it (so the theorems above say something about it) -/
example : (match write exDoc with | .ok _ => true | _ => false) = true := by
  rw [write_eq]
  unfold writeCore
  rw [exDoc_styles]
  decide +kernel

/-- the predicates exclude something: a cue naming a style that is not in the list is `RepRead` but not `RepFix`
    (the reader drops the reference, so the rewritten row differs) -/
example : ¬ StyleRef ["Top".toList] "Bottom".toList := by decide
example : ¬ TextFix "a \\N b".toList := by decide

/-! ### 6. the independent decoder (W2): cells and lines proved, document stated -/

/-- the independent decoder reads every integer cell the writer emits (`strconv.Itoa`, any integer) as that integer -/
theorem decoder_reads_integers (v : Int) : Spec.SSA.intOf (itoa v) = some v := spec_intOf_itoa v

/-- the independent decoder reads every colour cell `&Haabbggrr` the writer emits as that 32-bit colour -/
theorem decoder_reads_colours (c : Nat) (h : c < 4294967296) : Spec.SSA.colourOf (colourString c) = some c :=
  spec_colourOf_colourString c h

/-- the independent decoder reads the boolean cells `1` / `0` the writer emits as true / false -/
theorem decoder_reads_booleans (b : Bool) : Spec.SSA.boolOf (if b then ['1'] else ['0']) = some b := spec_boolOf_cell b

/-- the independent decoder reads every `H:MM:SS.cc` the writer emits (instants below 100 h) as the
    instant in centiseconds, rounded down — the same instant `Event.norm` keeps -/
theorem decoder_reads_times (t : Int) (h : TimeOK t) : Spec.SSA.timeOf (Duration.formatSSA t) = some (t / 10000000) :=
  spec_timeOf_formatSSA t h

/-- the independent decoder splits a (trimmed) `Header: content` line of the writer into exactly this
    header and this content, as the model's reader does (`step_kv`) -/
theorem decoder_splits_key_value (hdr content : Str) (hh : HeaderOK hdr) (hc : Trimmed content) :
    Spec.SSA.keyValue (kvTrim hdr content) = some (hdr, content) := spec_keyValue_kvTrim hdr content hh hc

/-- UNPROVED (statement only). The independent decoder accepts what the writer produces and gives it
    the denotation the check expects: for a cue list with `Spec.SSA.denote s = some want`, the text
    `WriteToSSA` answers decodes (`Spec.SSA.decode`) to `want`, and the view of what the reader
    answers (`Spec.SSA.view (norm s)`) is `want` too.  Decided on every run by the `ssa.write`
    stream (`Driver.SSAD.writeOk`); not proved here. -/
def decode_write_Statement : Prop :=
  ∀ s out want, Spec.SSA.denote s = some want → write s = .ok out →
    Spec.SSA.decode out = some want ∧ Spec.SSA.view (norm s) = some want

end C04doc2
end Astisub
