import Astisub.Model.Teletext
import Astisub.Spec.Teletext

/-!
# C06 — Teletext in MPEG-TS: component laws

`Teletext.*` models `teletext.go` (after fix-1 … fix-8) from the demultiplexer's data upward;
`Spec.Teletext.*` is the independent decoder with its own Hamming 8/4 / odd parity coders.  Proved here, for
**all** inputs of the stated class:

* coding tables (regenerated from the running package): every Hamming 8/4 codeword of the independent encoder
  is decoded to its data bits, also with any single bit inverted; the model's decoder extends the
  specification's exact decoder; a character sent with odd parity is stored as itself, with any single bit
  inverted it is stored as the invalid character, which yields no text and leaves a row's state unchanged;
  bit reversal is an involution and is the same function in model and specification;
* character tables: the national option positions are inside G0 and are the thirteen positions of
  ETS 300 706; every entry of `teletextCharsets` has a G0 set (no nil dereference in `updateCharset`), its
  indexes are valid, every G0 has 96 and every national sub-set 13 entries; outside the national positions
  the Latin G0 is ASCII; for every designation the package knows, the model's patched table and the
  specification's direct look-up give the same character for every code 0x20..0x7f;
* rows: a boxed row of characters is one run holding the decoded text, trimmed (row text law); text before
  the start box contributes nothing;
* immunity: non-subtitle data units, data units shorter than a teletext packet, packets with a wrong framing
  code, row / enhancement packets of other magazines, non-EBU PES payloads and stuffing units never change
  the page buffer; a header of another page met while nothing is being received changes nothing either.

The whole-stream statement (one cue per non-empty instance, times, rows in order; `C06_pages` of DESIGN.md)
is decided on every run by the `teletext.read` / `teletext.pes` streams — model vs implementation, the
independent decoder and the harness' ground truth on every generated case — and is not proved here.
-/

namespace Astisub
namespace C06
open Go Teletext Generated.Teletext

/-! ## coding -/

/-- invert bit `k` of a byte -/
def flipBit (b k : Nat) : Nat := if b / 2 ^ k % 2 = 1 then b - 2 ^ k else b + 2 ^ k

theorem C06_hamming : ∀ n, n < 16 → hammingDecode (Spec.Teletext.reverseBits (Spec.Teletext.hammingEncode n)) = some n := by
  decide

set_option maxRecDepth 8192 in
theorem C06_hamming_single_error :
    ∀ n, n < 16 → ∀ k, k < 8 → hammingDecode (flipBit (Spec.Teletext.reverseBits (Spec.Teletext.hammingEncode n)) k) = some n := by
  decide

def extendsAt (b : Nat) : Bool :=
  match Spec.Teletext.hammingExact b with
  | some n => hammingDecode b == some n
  | none => true

set_option maxRecDepth 8192 in
/-- the library's decoder extends the specification's exact decoder -/
theorem C06_hamming_extends : ∀ b, b < 256 → ∀ n, Spec.Teletext.hammingExact b = some n → hammingDecode b = some n := by
  have h : ∀ b, b < 256 → extendsAt b = true := by decide
  intro b hb n hn
  have := h b hb
  simp [extendsAt, hn] at this
  exact this

set_option maxRecDepth 8192 in
theorem C06_reverse8_involutive : ∀ b, b < 256 → reverse8 (reverse8 b) = b := by decide

set_option maxRecDepth 8192 in
theorem C06_reverse8_spec : ∀ b, b < 256 → reverse8 b = Spec.Teletext.reverseBits b := by decide

set_option maxRecDepth 8192 in
theorem C06_parity : ∀ c, c < 128 →
    storeChar (Spec.Teletext.parityEncode c) = c ∧ Spec.Teletext.parityDecode (Spec.Teletext.parityEncode c) = some c := by
  decide

set_option maxRecDepth 8192 in
theorem C06_parity_single_error : ∀ c, c < 128 → ∀ k, k < 8 →
    storeChar (flipBit (Spec.Teletext.parityEncode c) k) = invalidChar ∧
    Spec.Teletext.parityDecode (flipBit (Spec.Teletext.parityEncode c) k) = none := by
  decide

set_option maxRecDepth 8192 in
/-- model and specification agree on every received byte: stored value = decoded character, invalid = parity failure -/
theorem C06_parity_agree : ∀ b, b < 256 →
    storeChar b = (match Spec.Teletext.parityDecode b with | some c => c | none => invalidChar) := by
  decide

theorem C06_invalid_no_text (c : Charset) : decodeChar c invalidChar = [] := by
  simp [decodeChar, invalidChar]

/-! ## character tables -/

theorem C06_national_in_range : ∀ p ∈ positions, p < 96 := by decide

theorem C06_national_positions : positions.map (· + 0x20) = Spec.Teletext.nationalPositions := by decide

def entryOk (e : Nat × Nat × Option Nat × Option Nat) : Bool :=
  (match e.2.2.1 with | some g => decide (g < g0Tables.length) | none => false) &&
  (match e.2.2.2 with | some n => decide (n < natTables.length) | none => true)

/-- every entry of `teletextCharsets` has a G0 set (no nil dereference in `updateCharset`) and valid table indexes -/
theorem C06_charsets_total : ∀ e ∈ charsets, entryOk e = true := by
  decide

theorem C06_default_valid : defaultG0 < g0Tables.length := by decide

theorem C06_g0_rows : ∀ t ∈ g0Tables, t.length = 96 := by decide

theorem C06_national_rows : ∀ t ∈ natTables, t.length = 13 := by decide

/-- outside the national option positions, the Latin G0 set is ASCII -/
theorem C06_latin_ascii : ∀ c, 0x20 ≤ c → c < 0x7f → c ∉ Spec.Teletext.nationalPositions →
    (g0Tables.getD defaultG0 []).getD (c - 0x20) [] = [c] := by
  have h : ∀ c, c < 0x7f → 0x20 ≤ c → c ∉ Spec.Teletext.nationalPositions → (g0Tables.getD defaultG0 []).getD (c - 0x20) [] = [c] := by decide
  intro c h1 h2 h3
  exact h c h2 h1 h3

/-- for one entry of `teletextCharsets`: the table `updateCharset` builds (copy of G0, thirteen positions patched) holds at
    every code 0x20..0x7f the character the specification looks up directly -/
def charsetAgrees (e : Nat × Nat × Option Nat × Option Nat) : Bool :=
  (List.range 96).all fun i =>
    Spec.Teletext.charOf e.1 e.2.1 (i + 0x20) == some (decodeChar (computeCharset (e.1 * 1024) e.2.1) (i + 0x20))

set_option maxRecDepth 100000 in
theorem C06_charset_agree : ∀ e ∈ charsets, charsetAgrees e = true := by
  decide

theorem mask_bit (j : Nat) : Nat.testBit 0x3f80 j = (decide (7 ≤ j) && decide (j < 14)) := by
  by_cases h : j < 14
  · have : j = 0 ∨ j = 1 ∨ j = 2 ∨ j = 3 ∨ j = 4 ∨ j = 5 ∨ j = 6 ∨ j = 7 ∨ j = 8 ∨ j = 9 ∨ j = 10 ∨ j = 11 ∨ j = 12 ∨ j = 13 := by omega
    rcases this with h | h | h | h | h | h | h | h | h | h | h | h | h | h <;> subst h <;> decide
  · have : 0x3f80 < 2 ^ j := Nat.lt_of_lt_of_le (by decide : 0x3f80 < 2 ^ 14) (Nat.pow_le_pow_right (by decide) (by omega))
    rw [Nat.testBit_lt_two_pow this]; simp [h]
/-- the table key `updateCharset` computes from a triplet is the designation the specification reads: bits 10..13 -/
theorem C06_key_of_triplet (t : Nat) : keyOf t = t / 1024 % 16 := by
  unfold keyOf
  have h16 : t / 1024 % 16 < 256 := by omega
  have : (t &&& 0x3f80) >>> 10 = t / 1024 % 16 := by
    apply Nat.eq_of_testBit_eq
    intro i
    rw [Nat.testBit_shiftRight, Nat.testBit_and, mask_bit, show (1024:Nat) = 2 ^ 10 by rfl, show (16:Nat) = 2 ^ 4 by rfl, Nat.testBit_mod_two_pow, Nat.testBit_div_two_pow]
    by_cases hi : i < 4
    · simp [hi, Nat.add_comm]
      intro _; omega
    · simp [hi]
      intro _ _; omega
  rw [this]; omega

/-! ## rows -/

/-- a displayable character or an inert code: not a colour, box or size code -/
def plain (v : Nat) : Prop := 0x10 ≤ v

theorem rowStep_plain (c : Charset) (s : RowSt) (v : Nat) (hv : 0x10 ≤ v) (hs : s.started = true) :
    rowStep c s v = { s with text := s.text ++ decodeChar c v } := by
  have h1 : ¬ v < 8 := by omega
  have h2 : v ≠ 0xa := by omega
  have h3 : v ≠ 0xb := by omega
  have h4 : v ≠ 0xc := by omega
  have h5 : v ≠ 0xd := by omega
  have h6 : v ≠ 0xe := by omega
  have h7 : v ≠ 0xf := by omega
  simp [rowStep, h1, h2, h3, h4, h5, h6, h7, hs]

theorem rowStep_unboxed (c : Charset) (s : RowSt) (v : Nat) (hv : 0x10 ≤ v) (hs : s.started = false) :
    rowStep c s v = s := by
  have h1 : ¬ v < 8 := by omega
  have h2 : v ≠ 0xa := by omega
  have h3 : v ≠ 0xb := by omega
  have h4 : v ≠ 0xc := by omega
  have h5 : v ≠ 0xd := by omega
  have h6 : v ≠ 0xe := by omega
  have h7 : v ≠ 0xf := by omega
  simp [rowStep, h1, h2, h3, h4, h5, h6, h7, hs]

theorem foldl_plain (c : Charset) : ∀ (cs : List Nat) (s : RowSt), (∀ v ∈ cs, 0x10 ≤ v) → s.started = true →
    cs.foldl (rowStep c) s = { s with text := s.text ++ cs.flatMap (decodeChar c) }
  | [], s, _, _ => by simp
  | v :: cs, s, h, hs => by
    have hv : 0x10 ≤ v := h v (by simp)
    rw [List.foldl_cons, rowStep_plain c s v hv hs, foldl_plain c cs _ (fun w hw => h w (by simp [hw])) (by simpa using hs)]
    simp [List.append_assoc]

theorem foldl_unboxed (c : Charset) : ∀ (cs : List Nat) (s : RowSt), (∀ v ∈ cs, 0x10 ≤ v) → s.started = false →
    cs.foldl (rowStep c) s = s
  | [], s, _, _ => by simp
  | v :: cs, s, h, hs => by
    have hv : 0x10 ≤ v := h v (by simp)
    rw [List.foldl_cons, rowStep_unboxed c s v hv hs, foldl_unboxed c cs s (fun w hw => h w (by simp [hw])) hs]

theorem rowStep_startBox (c : Charset) (s : RowSt) : rowStep c s 0xb = { s with started := true } := by
  simp [rowStep, decodeChar]

/-- row text law: characters before the start box contribute nothing; the boxed characters form one run holding
    the decoded text, trimmed, with the blanks around it counted -/
theorem C06_row_text (c : Charset) (pre cs : List Nat) (hp : ∀ v ∈ pre, 0x10 ≤ v) (hc : ∀ v ∈ cs, 0x10 ≤ v) :
    parseRow c (pre ++ 0xb :: cs) =
      (let text := cs.flatMap (decodeChar c)
       let items := appendItem [] text {}
       if items.isEmpty then none else some { items := items }) := by
  unfold parseRow
  rw [List.foldl_append, foldl_unboxed c pre _ hp rfl, List.foldl_cons, rowStep_startBox, foldl_plain c cs _ hc rfl]
  simp

theorem C06_invalid_inert (c : Charset) (s : RowSt) : rowStep c s invalidChar = s := by
  cases hs : s.started
  · exact rowStep_unboxed c s _ (by decide) hs
  · rw [rowStep_plain c s _ (by decide) hs]; simp [decodeChar, invalidChar]

/-! ## immunity -/

theorem C06_unit_not_subtitle (b : Buf) (i : List Nat) (id : Nat) (t : Int) (h : id ≠ 3) : parseDataUnit b i id t = b := by
  simp [parseDataUnit, h]

theorem C06_unit_short (b : Buf) (i : List Nat) (id : Nat) (t : Int) (h : i.length < 44) : parseDataUnit b i id t = b := by
  unfold parseDataUnit; split <;> simp [h]

theorem C06_unit_framing (b : Buf) (i : List Nat) (id : Nat) (t : Int) (h : nth i 1 ≠ 0xe4) : parseDataUnit b i id t = b := by
  unfold parseDataUnit; split <;> simp [h]

theorem C06_other_magazine (b : Buf) (i : List Nat) (mag y : Nat) (t : Int) (hy : y ≠ 0) (hm : mag ≠ b.mag) :
    parsePacket b i mag y t = b := by
  unfold parsePacket
  simp [hy, hm]
  cases hammingDecode (nth i 0) <;> simp

theorem C06_not_receiving (b : Buf) (i : List Nat) (mag y : Nat) (t : Int) (hy : y ≠ 0) (hy' : y ≠ 29) (hr : b.receiving = false) :
    parsePacket b i mag y t = b := by
  unfold parsePacket
  simp [hy, hy', hr]
  cases hammingDecode (nth i 0) <;> simp

theorem C06_not_ebu (b : Buf) (ident : Nat) (rest : List Nat) (t : Int) (h : ident < 0x10 ∨ 0x1f < ident) :
    process b (ident :: rest) t = (b, []) := by
  unfold process
  have : (decide (0x10 ≤ ident) && decide (ident ≤ 0x1f)) = false := by
    rcases h with h | h <;> simp <;> omega
  simp [this]

theorem C06_stuffing (n : Nat) (b : Buf) (id len : Nat) (rest : List Nat) (t : Int) (hid : id ≠ 3) (hl : len ≤ rest.length) :
    unitLoop (n + 1) b (id :: len :: rest) t = unitLoop n b (rest.drop len) t := by
  have : ¬ len > rest.length := by omega
  simp [unitLoop, this, C06_unit_not_subtitle b _ id t hid]

/-! ## page headers -/

/-- a header of another page (other number, hexadecimal number or other magazine) met while no page is being received and
    a page is selected changes nothing -/
theorem C06_other_page_header (b : Buf) (i : List Nat) (mag : Nat) (t : Int) (units tens : Nat)
    (hsel : ¬ (b.mag = 0 ∧ b.page = 0)) (hr : b.receiving = false)
    (hu : hammingDecode (nth i 0) = some units) (ht : hammingDecode (nth i 1) = some tens)
    (hother : tens > 9 ∨ units > 9 ∨ tens * 10 + units ≠ b.page ∨ mag ≠ b.mag) :
    parseHeader b i mag t = b := by
  unfold parseHeader
  rw [hu, ht]
  have hs : (decide (b.mag = 0) && decide (b.page = 0)) = false := by
    by_cases h1 : b.mag = 0 <;> by_cases h2 : b.page = 0 <;> simp [h1, h2]
    exact hsel ⟨h1, h2⟩
  simp only [hs]
  by_cases hff : (decide (tens = 15) && decide (units = 15)) = true
  · simp [hff]
  · simp only [hff]
    cases h7 : hammingDecode (nth i 7) with
    | none => simp
    | some cb =>
      simp [hr]
      intro h1 h2 h3 h4
      rcases hother with h | h | h | h
      · omega
      · omega
      · exact absurd h3 h
      · exact absurd h4 h

/-- a header of the selected page closes the instance being built at the header's time and opens a new one with the
    header's national option code -/
theorem C06_selected_header (b : Buf) (i : List Nat) (t : Int) (units tens cb : Nat)
    (hsel : ¬ (b.mag = 0 ∧ b.page = 0))
    (hu : hammingDecode (nth i 0) = some units) (ht : hammingDecode (nth i 1) = some tens)
    (h7 : hammingDecode (nth i 7) = some cb)
    (hd : tens ≤ 9 ∧ units ≤ 9) (hp : tens * 10 + units = b.page) :
    parseHeader b i b.mag t =
      { b with done := (match b.current with | some p => b.done ++ [{ p with end_ := t }] | none => b.done),
               receiving := true, current := some { charsetCode := cb >>> 1, start := t } } := by
  unfold parseHeader
  rw [hu, ht]
  have hs : (decide (b.mag = 0) && decide (b.page = 0)) = false := by
    by_cases h1 : b.mag = 0 <;> by_cases h2 : b.page = 0 <;> simp [h1, h2]
    exact hsel ⟨h1, h2⟩
  have hff : (decide (tens = 15) && decide (units = 15)) = false := by
    have : tens ≠ 15 := by omega
    simp [this]
  have h9 : ¬ 9 < tens := by omega
  have h8 : ¬ 9 < units := by omega
  simp [hs, hff, h7, h9, h8, hp]
  cases b.current <;> rfl

end C06
end Astisub
