import Astisub.Model.CLIRun
import Astisub.Props.C07
import Astisub.Props.C09
import Astisub.Props.C10
import Astisub.Props.C11
import Astisub.Props.C12

/-!
# Props/C07cli — the command-line tool executed (`astisub/main.go`), for every command line

C07's clause "the same holds … through the command-line tool … the result then matching the operations'
specifications composed; an unsupported extension yields the invalid-extension error and an empty cue list the
nothing-to-write error": the tool's outcome is a function of (sub-command, flags, destination extension, opened
inputs); it succeeds only when validation passed, the inputs opened, the extension is writable and a cue is left; and
what it hands to the writer is exactly the library operation's result, which the theorems of C09–C12 characterise.
`Model/CLIRun.run` is compared with the real binary by the streams `ops.cli`, `conv.cli` and the CLI leg of `conv.pair`.
(The first version of this model had `Write` refuse an empty list before creating the file; `conv.cli` showed the
binary leaves an empty destination behind — `os.Create` comes first — and the model was corrected.)
-/

namespace Astisub
namespace C07cli
open CLI Ops Spec Dispatch

theorem write_wrote {ext : String} {l xs : List Item} {c : Codec} (h : write ext l = .wrote c xs) :
    xs = l ∧ l ≠ [] ∧ writeCodec (lowerExt ext) = some c := by
  unfold write at h
  cases hc : writeCodec (lowerExt ext) with
  | none => simp [hc] at h
  | some c' =>
    simp only [hc] at h
    by_cases he : l.isEmpty
    · simp [he] at h
    · simp only [he, Bool.false_eq_true, ↓reduceIte, Outcome.wrote.injEq] at h
      refine ⟨h.2.symm, ?_, by rw [h.1]⟩
      intro hl; simp [hl] at he

/-- success (exit status 0) needs: validation passed, the first input opened, a writable extension, a cue left -/
theorem wrote_needs (cmd : String) (fl : Flags) (ext : String) (a b : Option (List Item)) (c : Codec) (xs : List Item)
    (h : run cmd fl ext a b = .wrote c xs) :
    (plan cmd fl).isSome ∧ a.isSome ∧ xs ≠ [] ∧ writeCodec (lowerExt ext) = some c := by
  unfold run at h
  by_cases hi : fl.inputs = 0
  · simp [hi] at h
  by_cases ho : fl.output = true
  · simp only [hi, ho, ↓reduceIte, Bool.not_true, Bool.false_eq_true] at h
    cases a with
    | none => simp at h
    | some f =>
      cases hp : plan cmd fl with
      | none => simp [hp] at h
      | some op =>
        have hw : ∀ l, write ext l = .wrote c xs → xs ≠ [] ∧ writeCodec (lowerExt ext) = some c := by
          intro l hl
          obtain ⟨h1, h2, h3⟩ := write_wrote hl
          exact ⟨h1 ▸ h2, h3⟩
        rw [hp] at h
        refine ⟨by simp, by simp, ?_⟩
        cases op <;> simp only at h <;> try exact hw _ h
        cases b with
        | none => simp at h
        | some s => exact hw _ h
  · simp [hi, ho] at h

/-- a refused command line (no `-i`, no `-o`, a flag the sub-command needs missing or not positive, an unknown
    sub-command) leaves the destination untouched, whatever the inputs hold -/
theorem refused_of_plan_none (cmd : String) (fl : Flags) (ext : String) (a b : Option (List Item))
    (h : plan cmd fl = none) : run cmd fl ext a b = .refused := by
  unfold run
  by_cases hi : fl.inputs = 0
  · simp [hi]
  by_cases ho : fl.output = true
  · simp only [hi, ho, ↓reduceIte, Bool.not_true, Bool.false_eq_true]
    cases a <;> simp [h]
  · simp [hi, ho]

/-- an input that cannot be opened is fatal before the sub-command is even looked at -/
theorem refused_of_unreadable_first (cmd : String) (fl : Flags) (ext : String) (b : Option (List Item)) :
    run cmd fl ext none b = .refused := by
  unfold run
  by_cases hi : fl.inputs = 0
  · simp [hi]
  · by_cases ho : fl.output = true <;> simp [hi, ho]

/-- the tool never hands an empty document to a writer -/
theorem never_writes_empty (cmd : String) (fl : Flags) (ext : String) (a b : Option (List Item)) (c : Codec) :
    run cmd fl ext a b ≠ .wrote c [] := by
  intro h; exact (wrote_needs cmd fl ext a b c [] h).2.2.1 rfl

/-- an unsupported destination extension (`.ts` included: there is no transport-stream writer) never succeeds -/
theorem bad_extension_fails (cmd : String) (fl : Flags) (ext : String) (a b : Option (List Item))
    (he : writeCodec (lowerExt ext) = none) : (run cmd fl ext a b).ok = false := by
  cases h : run cmd fl ext a b with
  | wrote c xs => have := (wrote_needs cmd fl ext a b c xs h).2.2.2; simp [he] at this
  | _ => rfl

theorem run_of_plan (cmd : String) (fl : Flags) (ext : String) (xs : List Item) (b : Option (List Item)) (op : Op)
    (hi : fl.inputs ≠ 0) (ho : fl.output = true) (hp : plan cmd fl = some op) (hm : op ≠ .merge) :
    run cmd fl ext (some xs) b = write ext (exec op xs []) := by
  unfold run
  simp only [hi, ho, ↓reduceIte, Bool.not_true, Bool.false_eq_true, hp]

/-- `convert` hands the cues to the destination writer untouched -/
theorem run_convert (fl : Flags) (ext : String) (xs : List Item) (b : Option (List Item))
    (hi : fl.inputs ≠ 0) (ho : fl.output = true) : run "convert" fl ext (some xs) b = write ext xs := by
  have hp : plan "convert" fl = some .convert := by unfold plan; simp [hi, ho]
  rw [run_of_plan "convert" fl ext xs b .convert hi ho hp (by simp)]; rfl

/-- `optimize` leaves the cue list as it is -/
theorem run_optimize (fl : Flags) (ext : String) (xs : List Item) (b : Option (List Item))
    (hi : fl.inputs ≠ 0) (ho : fl.output = true) : run "optimize" fl ext (some xs) b = write ext xs := by
  have hp : plan "optimize" fl = some .optimize := by unfold plan; simp [hi, ho]
  rw [run_of_plan "optimize" fl ext xs b .optimize hi ho hp (by simp)]; rfl

/-- `sync -s d` writes the specification of `Add(d)` (cues shifted by `+d`, those ending at or before zero removed,
    a negative start clamped); when no cue is left the tool fails with the nothing-to-write error -/
theorem run_sync (fl : Flags) (ext : String) (xs : List Item) (b : Option (List Item))
    (hi : fl.inputs ≠ 0) (ho : fl.output = true) (hs : fl.s ≠ 0) (hwf : WF xs) :
    run "sync" fl ext (some xs) b = write ext (addSpec fl.s xs) := by
  have hp : plan "sync" fl = some (.sync fl.s) := by rw [C07.cli_sync fl hi ho]; simp [hs]
  rw [run_of_plan "sync" fl ext xs b _ hi ho hp (by simp)]
  simp only [exec]; rw [C09.add_spec fl.s xs hwf]

/-- `fragment -f d`: what is written is the library's `Fragment(d)`, in which no cue strictly contains a multiple
    of `d` (with C10: every cue cut at every multiple, sorted, nothing else changed) -/
theorem run_fragment (fl : Flags) (ext : String) (xs : List Item) (b : Option (List Item))
    (hi : fl.inputs ≠ 0) (ho : fl.output = true) (hf : 0 < fl.f) :
    run "fragment" fl ext (some xs) b = write ext (fragment fl.f xs) ∧
      (∀ p ∈ fragment fl.f xs, ¬ ∃ k : Int, p.startAt < k * fl.f ∧ k * fl.f < p.endAt) := by
  have hp : plan "fragment" fl = some (.fragment fl.f) := by
    rw [C07.cli_fragment fl hi ho]; simp; omega
  exact ⟨by rw [run_of_plan "fragment" fl ext xs b _ hi ho hp (by simp)]; rfl,
    C10.fragment_no_strict_multiple fl.f hf xs⟩

/-- `unfragment`: no two cues of the written list touch with equal text -/
theorem run_unfragment (fl : Flags) (ext : String) (xs : List Item) (b : Option (List Item))
    (hi : fl.inputs ≠ 0) (ho : fl.output = true) :
    run "unfragment" fl ext (some xs) b = write ext (unfragment xs) ∧
      (unfragment xs).Pairwise (fun a b => ¬ Touch a b) := by
  have hp : plan "unfragment" fl = some .unfragment := by unfold plan; simp [hi, ho]
  exact ⟨by rw [run_of_plan "unfragment" fl ext xs b _ hi ho hp (by simp)]; rfl, C11.no_touch xs⟩

/-- `merge` needs both inputs readable; it writes a sorted permutation of the two cue lists together -/
theorem run_merge (fl : Flags) (ext : String) (xs ys : List Item) (hi : 2 ≤ fl.inputs) (ho : fl.output = true) :
    run "merge" fl ext (some xs) (some ys) = write ext (mergeItems xs ys) ∧
      (mergeItems xs ys).Perm (xs ++ ys) ∧
      run "merge" fl ext (some xs) none = .refused := by
  have hi0 : fl.inputs ≠ 0 := by omega
  have hp : plan "merge" fl = some .merge := by
    rw [(C07.cli_merge_and_unknown fl hi0 ho).1]; simp; omega
  refine ⟨?_, C12.merge_perm xs ys, ?_⟩ <;>
  · unfold run; simp only [hi0, ho, ↓reduceIte, Bool.not_true, Bool.false_eq_true, hp]; try rfl

/-- the second input is looked at by `merge` only: every other sub-command behaves the same whether or not it opens -/
theorem second_input_only_for_merge (cmd : String) (fl : Flags) (ext : String) (a b b' : Option (List Item))
    (h : plan cmd fl ≠ some .merge) : run cmd fl ext a b = run cmd fl ext a b' := by
  unfold run
  cases hp : plan cmd fl with
  | none => rfl
  | some op => cases op <;> first | rfl | exact absurd hp h

/-- `convert` reads none of the duration flags -/
theorem convert_ignores_durations (fl fl' : Flags) (ext : String) (a b : Option (List Item))
    (h1 : fl.inputs = fl'.inputs) (h2 : fl.output = fl'.output) :
    run "convert" fl ext a b = run "convert" fl' ext a b := by
  unfold run plan; simp only [h1, h2]

theorem write_ne_refused (ext : String) (l : List Item) : write ext l ≠ .refused := by
  unfold write
  cases writeCodec (lowerExt ext) with
  | none => simp
  | some c => by_cases h : l.isEmpty <;> simp [h]

/-- **exactly when the destination stays untouched**: the tool refuses iff the validation fails, or the first input
    does not open, or the sub-command is `merge` and the second input does not open -/
theorem refused_iff (cmd : String) (fl : Flags) (ext : String) (a b : Option (List Item)) :
    run cmd fl ext a b = .refused ↔
      plan cmd fl = none ∨ a = none ∨ (plan cmd fl = some .merge ∧ b = none) := by
  constructor
  · intro h
    cases hp : plan cmd fl with
    | none => exact Or.inl rfl
    | some op =>
      right
      cases a with
      | none => exact Or.inl rfl
      | some xs =>
        right
        have hio : fl.inputs ≠ 0 ∧ fl.output = true := by
          by_cases hi : fl.inputs = 0
          · have := C07.cli_needs_io cmd fl (Or.inl hi); rw [hp] at this; cases this
          · by_cases ho : fl.output = true
            · exact ⟨hi, ho⟩
            · have := C07.cli_needs_io cmd fl (Or.inr (by simpa using ho)); rw [hp] at this; cases this
        unfold run at h
        simp only [hio.1, hio.2, ↓reduceIte, Bool.not_true, Bool.false_eq_true, hp] at h
        cases op <;> simp only at h <;> try exact absurd h (write_ne_refused _ _)
        cases b with
        | none => exact ⟨rfl, rfl⟩
        | some ys => exact absurd h (write_ne_refused _ _)
  · rintro (h | h | ⟨h1, h2⟩)
    · exact refused_of_plan_none cmd fl ext a b h
    · subst h; exact refused_of_unreadable_first cmd fl ext b
    · subst h2
      unfold run
      by_cases hi : fl.inputs = 0
      · simp [hi]
      by_cases ho : fl.output = true
      · simp only [hi, ho, ↓reduceIte, Bool.not_true, Bool.false_eq_true, h1]
        cases a <;> rfl
      · simp [hi, ho]

/-- the destination exists afterwards exactly when the tool got as far as `Subtitles.Write` -/
theorem touched_iff (cmd : String) (fl : Flags) (ext : String) (a b : Option (List Item)) :
    (run cmd fl ext a b).touched = true ↔ run cmd fl ext a b ≠ .refused := by
  cases run cmd fl ext a b <;> simp [Outcome.touched]

/-- exit status 0 exactly when a non-empty cue list reached a writer -/
theorem ok_iff (cmd : String) (fl : Flags) (ext : String) (a b : Option (List Item)) :
    (run cmd fl ext a b).ok = true ↔ ∃ c xs, run cmd fl ext a b = .wrote c xs ∧ xs ≠ [] := by
  constructor
  · intro h
    cases hr : run cmd fl ext a b with
    | wrote c xs => exact ⟨c, xs, rfl, (wrote_needs cmd fl ext a b c xs hr).2.2.1⟩
    | _ => rw [hr] at h; simp [Outcome.ok] at h
  · rintro ⟨c, xs, h, _⟩; rw [h]; rfl

/-! non-vacuity: concrete command lines -/

private def c1 : Item := { uid := 1, startAt := 0, endAt := 3 * second, lines := [["a"]], pay := 0 }

example : run "fragment" { inputs := 1, output := true, f := 2 * second } "srt" (some [c1]) none =
    write "srt" (fragment (2 * second) [c1]) :=
  (run_fragment { inputs := 1, output := true, f := 2 * second } "srt" [c1] none (by decide) rfl (by decide)).1
example : run "sync" { inputs := 1, output := true, s := -5 * second } "VTT" (some [c1]) none = .nothingToWrite := by decide
example : run "sync" { inputs := 1, output := true } "vtt" (some [c1]) none = .refused := by decide
example : run "bogus" { inputs := 1, output := true } "vtt" (some [c1]) none = .refused := by decide
example : run "convert" { inputs := 1, output := true } "Ass" (some [c1]) none = .wrote .ssa [c1] := by decide
example : run "convert" { inputs := 1, output := true } "ts" (some [c1]) none = .badExtension := by decide
example : (run "convert" { inputs := 1, output := true } "xyz" (some []) none).touched = true := by decide

end C07cli
end Astisub
