import Astisub.Lemmas.SRTRead
import Astisub.Lemmas.SRTTokFuel
import Astisub.Lemmas.SRTMerge
import Astisub.Lemmas.SRTBytes
import Astisub.Lemmas.SRTSpec
import Astisub.Lemmas.SRTSpecView
import Astisub.Lemmas.SRTStable

/-!
# C01 (document level) — SubRip write → read round trip, for all representable cue lists

`Props/C01.lean` proves the component laws of the SubRip codec.  This file proves the
whole-document statement for the Lean model: for **every** cue list `s` that SubRip can carry
(`SRTDoc.Rep s`, a decidable predicate), reading the text the writer produces gives back `s` up to
the normalisation the format forces (`SRTDoc.norm s`).

Vocabulary (defined in `Lemmas/SRTDoc.lean`, all executable):

* `Rep s`  — at least one cue, not more than 2⁶³−1; both instants of every cue in `[0, 100 h)`;
  every line has at least one run; every run has some ink (a character other than white space, or a
  no-break space), no CR / LF / NUL, no `-->`, no `SRTPosition`; a colour (when set and not empty) has
  none of `" & >` CR LF NUL; no two *unstyled* runs are adjacent; a line does not begin or end with
  white space that `strings.TrimSpace` would remove.
* `norm s` — cue `k` gets index `k+1`; instants are truncated to the millisecond; every run keeps
  its text and gets the attributes the reader derives from bold / italics / underline / colour
  (`SRTBold`, `SRTColor`, `SRTItalics`, `SRTUnderline`, `TTMLColor`, `WebVTTBold`, `WebVTTItalics`,
  `WebVTTUnderline`, `WebVTTTags`); nothing is merged; what SubRip does not carry (styles, regions,
  metadata, voice, comments, inline style, other attributes) is dropped.
-/

namespace Astisub
namespace C01doc
open Go SRT SRTDoc List

/-! ## the tokenizer model on what the writer emits -/

/-- a non-empty text without `<` and NUL is a single text token -/
theorem tokenize_plain_text (t : Str) (hne : t ≠ []) (ht : ∀ c ∈ t, c ≠ '<' ∧ c ≠ '\x00') :
    tokenize t = .ok [Tok.text t] :=
  tokenize_text t hne (fun c hc => by simp [plainChar, (ht c hc).1, (ht c hc).2])

/-- `<b>` in front of anything is a start tag followed by the tokens of the rest (the same holds
    for `<i>`, `<u>`, `</b>`, `</i>`, `</u>`, `</font>` and `<font color="c">`: next theorem) -/
theorem tokenize_bold_then (rest : Str) :
    tokenize ("<b>".toList ++ rest) = (tokenize rest).prepend [Tok.startTag "<b>".toList "b".toList []] :=
  tokenize_b rest

/-- every tag the writer emits, in front of anything, is one token followed by the tokens of the rest -/
theorem tokenize_writer_tag_then (t : Tok) (hw : WriterTok t) (hnt : t.isText = false) (rest : Str) :
    tokenize (t.raw ++ rest) = (tokenize rest).prepend [t] :=
  tokenize_of_tag _ _ _ (fun fuel => tokLoop_writerTag t hw hnt fuel rest [] [])

/-- the colour tag: `<font color="c">` with `c` free of `"`, `&`, NUL is a start tag with the
    attribute `color = c` -/
theorem tokenize_font_then (c rest : Str) (hc : colorOK c = true) :
    tokenize ("<font color=\"".toList ++ c ++ "\">".toList ++ rest)
      = (tokenize rest).prepend
          [Tok.startTag ("<font color=\"".toList ++ c ++ "\">".toList) "font".toList [("color".toList, c)]] :=
  tokenize_font c rest hc

/-- a sequence of writer tokens (texts without `<`/NUL and the eight tags) in which no two texts are
    adjacent is exactly what the tokenizer returns for the concatenation of their raw texts -/
theorem tokenize_writer_markup (ts : List Tok) (hw : ∀ t ∈ ts, WriterTok t) (hadj : noAdjText ts = true) :
    tokenize (ts.flatMap Tok.raw) = .ok ts :=
  tokenize_writerToks ts hw hadj

/-! ## one line -/

/-- **Line.** the text the writer emits for a representable line is parsed back into the same runs
    (normalised attributes), and every tag is closed again: the running style is empty afterwards -/
theorem parse_written_line (l : Line) (h : RepLine l = true) :
    parseText (SRTDoc.lineStr l) {} = .ok (({} : Run), normLine l) :=
  parseText_lineStr l h

/-- … and the reader neither trims it, nor takes it for a timing line, nor for an empty line -/
theorem written_line_kept (l : Line) (h : RepLine l = true) :
    trimSpace (SRTDoc.lineStr l) = SRTDoc.lineStr l ∧ Go.contains arrow (SRTDoc.lineStr l) = false ∧ SRTDoc.lineStr l ≠ [] ∧
      '\n' ∉ SRTDoc.lineStr l ∧ '\r' ∉ SRTDoc.lineStr l :=
  ⟨trimSpace_lineStr l h, lineStr_no_arrow l h, lineStr_ne_nil l h,
   lineStr_no_break l h _ (Or.inl rfl), lineStr_no_break l h _ (Or.inr rfl)⟩

/-! ## the document -/

theorem rep_items {s : Subs} (h : Rep s = true) :
    ∃ it0 rest, s.items = it0 :: rest ∧ (∀ it ∈ it0 :: rest, RepItem it = true) ∧ (it0 :: rest).length ≤ int64Max := by
  simp only [Rep, Bool.and_eq_true, decide_eq_true_eq] at h
  cases hi : s.items with
  | nil => rw [hi] at h; simp at h
  | cons it0 rest =>
    rw [hi] at h
    exact ⟨it0, rest, rfl, List.all_eq_true.mp h.2, h.1.2⟩

/-- the written text is the document's lines, each followed by LF -/
theorem write_lines (s : Subs) (h : Rep s = true) :
    ∃ it0 rest, s.items = it0 :: rest ∧ write s = some (unlines (docLinesPad it0 rest 0)) ∧
      (∀ l ∈ docLinesPad it0 rest 0, '\n' ∉ l ∧ '\r' ∉ l) := by
  obtain ⟨it0, rest, hi, hrep, _⟩ := rep_items h
  refine ⟨it0, rest, hi, ?_, fun l hl => ⟨docLinesPad_no_break it0 rest 0 hrep _ (Or.inl rfl) l hl,
    docLinesPad_no_break it0 rest 0 hrep _ (Or.inr rfl) l hl⟩⟩
  have := write_eq_unlines it0 rest s.regions s.styles s.metadata
  rw [← hi] at this
  exact this

/-- **W1 (write → read), lines cut at every LF.** For every representable cue list, the reader
    applied to the lines of the written text (`strings.Split(doc, "\n")`: the LF behind the last line
    leaves a final empty line) returns the normal form of the cue list -/
theorem read_write (s : Subs) (h : Rep s = true) (doc : Str) (hw : write s = some doc) :
    SRT.read ((splitC '\n' doc).map some) = .ok (norm s) := by
  obtain ⟨it0, rest, hi, hrep, hlen⟩ := rep_items h
  obtain ⟨it0', rest', hi', hw', hnb⟩ := write_lines s h
  rw [hi] at hi'; cases hi'
  rw [hw] at hw'; cases hw'
  rw [splitC_unlines _ (fun l hl => (hnb l hl).1)]
  have : docLinesPad it0 rest 0 ++ [[]] = docLinesPad it0 rest 1 := by simp [docLinesPad]
  rw [this, read_docLinesPad it0 rest 1 hrep hlen, norm, hi]

/-- **W1, lines as a scanner delivers them.** the same for *any* list of lines whose LF-terminated
    concatenation is the written text (a final LF does not open a new line — `bufio.ScanLines`),
    followed by any number of empty lines -/
theorem read_write_lines (s : Subs) (h : Rep s = true) (doc : Str) (hw : write s = some doc)
    (ls : List Str) (hls : ∀ l ∈ ls, '\n' ∉ l) (hdoc : unlines ls = doc) (m : Nat) :
    SRT.read ((ls ++ List.replicate m []).map some) = .ok (norm s) := by
  obtain ⟨it0, rest, hi, hrep, hlen⟩ := rep_items h
  obtain ⟨it0', rest', hi', hw', hnb⟩ := write_lines s h
  rw [hi] at hi'; cases hi'
  rw [hw] at hw'; cases hw'
  have e : ls = docLinesPad it0 rest 0 := by
    have h1 := splitC_unlines ls hls
    rw [hdoc, splitC_unlines _ (fun l hl => (hnb l hl).1)] at h1
    exact (List.append_cancel_right h1).symm
  have : ls ++ List.replicate m [] = docLinesPad it0 rest m := by
    rw [e]; simp [docLinesPad]
  rw [this, read_docLinesPad it0 rest m hrep hlen, norm, hi]

/-- **W1 on bytes, as the check computes it.** UTF-8 encode the written text, cut the bytes into
    lines with the scanner model (`Go.linesOf`: `bufio.Scanner` with the package's split function, whole
    buffer), decode every line, read: the result is the normal form.  This is exactly the model side
    of the `srt.write` stream (`Driver.handleSRT`) -/
theorem read_write_bytes (s : Subs) (h : Rep s = true) (doc : Str) (hw : write s = some doc) :
    SRT.read (Driver.docLines (Driver.utf8 doc)) = .ok (norm s) := by
  obtain ⟨it0, rest, hi, hw', hnb⟩ := write_lines s h
  rw [hw] at hw'; cases hw'
  rw [docLines_utf8_unlines _ hnb]
  have := read_write_lines s h _ hw (docLinesPad it0 rest 0) (fun l hl => (hnb l hl).1) rfl 0
  simpa using this

/-- **W1, lines cut at LF, CRLF or lone CR** (the independent decoder's line splitter): same result -/
theorem read_write_splitLines (s : Subs) (h : Rep s = true) (doc : Str) (hw : write s = some doc) :
    SRT.read ((Spec.SRT.splitLines doc []).map some) = .ok (norm s) := by
  obtain ⟨it0, rest, hi, hw', hnb⟩ := write_lines s h
  rw [hw] at hw'; cases hw'
  rw [splitLines_unlines _ hnb]
  have := read_write_lines s h _ hw (docLinesPad it0 rest 0) (fun l hl => (hnb l hl).1) rfl 0
  simpa using this

/-- **W1 without the adjacency proviso.** When unstyled runs *are* adjacent the writer puts nothing
    between them and they come back as one run: for every cue list without `SRTPosition` whose merged
    form `mergeS s` is representable, reading the written text gives the normal form of the merged list -/
theorem read_write_merged (s : Subs) (hp : noPosition s = true) (h : Rep (mergeS s) = true) (doc : Str)
    (hw : write s = some doc) : SRT.read ((splitC '\n' doc).map some) = .ok (norm (mergeS s)) :=
  read_write (mergeS s) h doc (by rw [write_mergeS s hp]; exact hw)

/-- a line with two adjacent unstyled runs -/
def exampleAdjacent : Subs :=
  { items := [{ startAt := 0, endAt := 1000000000,
                lines := [{ items := [{ text := "a ".toList }, { text := "b".toList },
                                      { text := "c".toList, attrs := some [("SRTBold".toList, "true".toList)] }] }] }] }

example : Rep exampleAdjacent = false ∧ noPosition exampleAdjacent = true ∧ Rep (mergeS exampleAdjacent) = true := by
  decide

/-! ## the independent decoder -/

/-- **W2 (write → independent decoder).** For every representable cue list in which every cue has
    at least one line, the independent decoder `Spec.SRT.decode` accepts the written text and
    denotes the cues of `specView s`: instants in whole milliseconds (truncated), and for every run
    its text, bold / italics / underline and colour -/
theorem decode_write (s : Subs) (h : Rep s = true) (hl : ∀ it ∈ s.items, it.lines ≠ []) (doc : Str)
    (hw : write s = some doc) : Spec.SRT.decode doc = some (specView s) :=
  SRTDoc.decode_write s h hl doc hw

/-- the check's own view (`Driver.srtView`) of the normal form is that same list of cues: the
    library's reader (W1) and the independent decoder (W2) agree on the written text -/
theorem view_norm (s : Subs) (h : Rep s = true) : Driver.srtView (norm s) = some (specView s) :=
  srtView_norm s h

/-- **Reader and independent decoder agree** on what the writer produced -/
theorem read_agrees_with_decode (s : Subs) (h : Rep s = true) (hl : ∀ it ∈ s.items, it.lines ≠ []) (doc : Str)
    (hw : write s = some doc) :
    ∃ back, SRT.read (Driver.docLines (Driver.utf8 doc)) = .ok back ∧ Driver.srtView back = Spec.SRT.decode doc :=
  ⟨norm s, read_write_bytes s h doc hw, by rw [view_norm s h, decode_write s h hl doc hw]⟩

example : (∀ it ∈ exampleSubs.items, it.lines ≠ []) := by decide

/-! ## the normal form is stable -/

/-- **Second generation.** what was read back is itself representable, is its own normal form, and
    is written as the very same text: `write ∘ read ∘ write = write`, and `read ∘ write` is the identity
    on normal forms -/
theorem norm_stable (s : Subs) (h : Rep s = true) :
    Rep (norm s) = true ∧ norm (norm s) = norm s ∧ write (norm s) = write s :=
  ⟨rep_norm s h, norm_idem s, write_norm s h⟩

/-- reading what the writer makes of a normal form gives that normal form back, unchanged -/
theorem read_write_fixpoint (s : Subs) (h : Rep s = true) (doc : Str) (hw : write (norm s) = some doc) :
    SRT.read (Driver.docLines (Driver.utf8 doc)) = .ok (norm s) := by
  have := read_write_bytes (norm s) (rep_norm s h) doc hw
  rwa [norm_idem] at this

/-- the cues read back are numbered consecutively from 1 -/
theorem norm_numbered (s : Subs) : ∀ (k : Nat) (it : CItem), (norm s).items[k]? = some it → it.index = (k : Int) + 1 := by
  intro k it
  have key : ∀ (items : List CItem) (j k : Nat) (it : CItem), (normItems j items)[k]? = some it → it.index = ((j + k : Nat) : Int) + 1 := by
    intro items
    induction items with
    | nil => intro j k it h; simp [normItems] at h
    | cons a rest ih =>
      intro j k it h
      cases k with
      | zero => simp [normItems] at h; subst h; simp [normItem]
      | succ k =>
        simp only [normItems, List.getElem?_cons_succ] at h
        have := ih (j + 1) k it h
        rw [this]; congr 2; omega
  intro h
  have := key s.items 0 k it h
  simpa using this

/-- the normal form keeps the number of cues, lines and runs, and every run's text -/
theorem norm_texts (s : Subs) :
    (norm s).items.map (fun it => it.lines.map fun l => l.items.map (·.text))
      = s.items.map (fun it => it.lines.map fun l => l.items.map (·.text)) := by
  have key : ∀ (items : List CItem) (j : Nat),
      (normItems j items).map (fun it => it.lines.map fun l => l.items.map (·.text))
        = items.map (fun it => it.lines.map fun l => l.items.map (·.text)) := by
    intro items
    induction items with
    | nil => intro j; rfl
    | cons a rest ih =>
      intro j
      simp only [normItems, List.map_cons, ih]
      congr 1
      simp [normItem, normLine, normRun, Function.comp_def]
  exact key s.items 0

/-! ## every proviso of `Rep` is needed: witnesses

Each example is a cue list that violates exactly one clause of `Rep` (resp. of W2's extra proviso) and
for which the conclusion fails in the model.  (The bound on the number of cues cannot be witnessed.) -/

/-- one cue `[0 s, 1 s)` with one line made of the given runs -/
def oneLine (runs : List LItem) : Subs :=
  { items := [{ startAt := 0, endAt := 1000000000, lines := [{ items := runs }] }] }

/-- the texts that come back, cue by cue, line by line, run by run; `none` = the reader fails or the
    line leaves the tokenizer model -/
def textsBack (s : Subs) : Option (List (List (List Str))) :=
  match write s with
  | none => none
  | some doc =>
    match SRT.read ((splitC '\n' doc).map some) with
    | .ok r => some (r.items.map fun it => it.lines.map fun l => l.items.map (·.text))
    | _ => none

def decodeBack (s : Subs) : Option (List Spec.SRT.GCue) := (write s).bind Spec.SRT.decode

-- a line that begins with a blank: the reader trims it
example : textsBack (oneLine [{ text := " x".toList }]) = some [[["x".toList]]] := by decide
-- two adjacent unstyled runs come back as one
example : textsBack (oneLine [{ text := "a".toList }, { text := "b".toList }]) = some [[["ab".toList]]] := by decide
-- `-->` in a text: the line is taken for a timing line, the reader fails
example : textsBack (oneLine [{ text := "a --> b".toList }]) = none := by decide
-- `SRTPosition`: the tag `{\an8}` comes back as text
example : textsBack (oneLine [{ text := "a".toList, attrs := some [("SRTPosition".toList, "8".toList)] }])
    = some [[["{\\an8}a".toList]]] := by decide
-- a run without ink is dropped
example : textsBack (oneLine [{ text := " ".toList, attrs := some [("SRTBold".toList, "true".toList)] }, { text := "b".toList }])
    = some [[["b".toList]]] := by decide
-- LF inside a run: two lines come back
example : textsBack (oneLine [{ text := "a\nb".toList }]) = some [[["a".toList], ["b".toList]]] := by decide
-- CR inside a run: two lines come back once lines are cut the way a scanner does
example : (match write (oneLine [{ text := "a\rb".toList }]) with
    | some doc =>
      (match SRT.read ((Spec.SRT.splitLines doc []).map some) with
       | .ok r => some (r.items.map fun it => it.lines.map fun l => l.items.map (·.text))
       | _ => none)
    | none => none) = some [[["a".toList], ["b".toList]]] := by decide
-- NUL in a text, `&` in a colour: outside the tokenizer model
example : textsBack (oneLine [{ text := "a\x00b".toList }]) = none := by decide
example : textsBack (oneLine [{ text := "a".toList, attrs := some [("SRTColor".toList, "x&y".toList)] }]) = none := by decide
-- `"` in a colour: the attribute value ends there (`x"y` comes back as `x`)
example : (match tokenize "<font color=\"x\"y\">a</font>".toList with
    | .ok (Tok.startTag _ _ attrs :: _) => attrs.lookup "color".toList
    | _ => none) = some "x".toList := by decide
-- `>` in a colour, a cue without text: rejected by the independent decoder (W2 only)
example : decodeBack (oneLine [{ text := "a".toList, attrs := some [("SRTColor".toList, "x>y".toList)] }]) = none := by decide
example : decodeBack { items := [{ startAt := 0, endAt := 1, lines := [] }] } = none := by decide
-- an empty cue list is not written at all
example : write { items := [] } = none := by decide

end C01doc
end Astisub
