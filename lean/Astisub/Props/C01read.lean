import Astisub.Lemmas.SRTRead2Class

/-!
# C01 (read clause) — SubRip: the reader model returns what the independent decoder says the document denotes

`Props/C01doc.lean` proves the *write* clause at document level (reading what the writer wrote).  This
file proves the *read* clause for **all** documents, written or not: whenever the independent decoder
`Spec.SRT.decode` (written from the format description; `none` outside its class of well-formed
documents) accepts a document as the cues `cues`, the model of `ReadFromSRT` succeeds on the same bytes
and the view of its result (`Driver.srtView`, the comparison the `srt.read` stream makes on every case —
no normalisation, no merging of runs) is exactly `cues`.

Two explicit, decidable provisos:

* `Modelled doc` — the reader model answers (`ok` or `err`, not `unmodelled`).  It answers `unmodelled`
  only where the partial model of the HTML tokenizer (`Go.tokenize`) does: a NUL character outside a tag,
  `<!…`, a raw-text element (`<script>` …), `&` in an attribute value — inside the decoder's class this can
  only happen on an *index line* (any text is allowed there) or through a NUL; the `srt.read` stream
  gives the verdict `unmodelled` for exactly these cases.  `InClass text` (section 7) is a syntactic
  condition that implies it: no NUL on a line without `-->`, and no markup other than the emphasis tags
  (`read_clause_inClass`).
* `InRange cues` — the hours field of every time stamp fits Go's `int` (`hours ≤ 2⁶³−1`).  This one is a
  **finding**: the decoder reads hours with unbounded arithmetic, `strconv.Atoi` fails beyond 2⁶³−1, so
  for `99999999999999999999:00:00,000 --> …` the decoder answers and the reader fails
  (`inRange_needed`).  The unrestricted statement is kept as `read_clause_Statement` and refuted.

Layers (each a theorem for all inputs): bytes → lines (`bytes_to_lines`: the scanner model followed by
UTF-8 decoding of each line is the decoder's line splitter), time stamps (`timestamp_agrees`), timing
lines (`timing_line_agrees`), emphasis tags (`tag_agrees`), one text line with its running style
(`text_line_agrees`), the text lines of a cue (`cue_text_agrees`), one block (`block_agrees`), the first
line and the byte order mark (`first_line_bom`, `first_line_late_bom`), the document (`read_clause_text`,
`read_clause`, `read_spec_holds`, `read_clause_inClass`).  Nothing is left unproved; the one statement that
does not hold (`read_clause_Statement`) is refuted by a concrete document.

Vocabulary (`Lemmas/SRTRead2*.lean`): `stepG st line` — the loop body of `ReadFromSRT` on a line that has
been trimmed already (`step_is_stepG`); `runG` iterates it; `Good st cues n X` — the loop state holds the
cues `cues` (all but the last in `st.done`, the last being filled), followed by `n` place holders of
empty lines and by what an index line left (`X`); `TimingOK m s e` — the reader's timing-line branch
starts the cue `[s ms, e ms)` on line `m`; `HeadRel d m` — decoder's / reader's view of a first line;
`styOf` — a running style of the reader as a style of the decoder; `drvRun` — the run `Driver.srtView`
shows for an item.
-/

namespace Astisub
namespace C01read
open Go SRT SRTDoc SRTRead2
open Spec.SRT (GRun GCue Sty runsOf tagAt cueLines timing timeMs decodeBlock)

/-! ## the provisos -/

def isUnmodelled {α} : Res α → Bool
  | .unmodelled => true
  | _ => false

theorem ne_unmodelled {α} {r : Res α} (h : isUnmodelled r = false) : r ≠ .unmodelled := by
  intro e; rw [e] at h; cases h

/-- the reader model answers on this document (the `srt.read` stream's verdict is not `unmodelled`) -/
def Modelled (doc : List UInt8) : Bool := !isUnmodelled (SRT.read (Driver.docLines doc))

/-- the same for a text cut into lines by the decoder's splitter -/
def ModelledText (text : Str) : Bool := !isUnmodelled (SRT.read ((Spec.SRT.splitLines text []).map some))

/-- every hours field fits Go's `int`: `strconv.Atoi` accepts it -/
def InRange (cues : List GCue) : Bool :=
  cues.all fun c => decide (c.startMs / 3600000 ≤ int64Max) && decide (c.endMs / 3600000 ≤ int64Max)

theorem inRange_iff (cues : List GCue) : InRange cues = true ↔ ∀ c ∈ cues, InRangeCue c := by
  simp [InRange, InRangeCue, List.all_eq_true]

/-- instants below 2⁶³ ns (what a Go `time.Duration` can hold at all) are in range -/
theorem inRange_of_duration (cues : List GCue)
    (h : ∀ c ∈ cues, c.startMs * 1000000 ≤ int64Max ∧ c.endMs * 1000000 ≤ int64Max) : InRange cues = true := by
  rw [inRange_iff]
  intro c hc
  obtain ⟨h1, h2⟩ := h c hc
  unfold InRangeCue
  unfold int64Max at *
  omega

/-- a document with a byte order mark, a garbage index line, CRLF / lone CR line ends, `.` and short
    fractions, the `mm:ss` form, trailing coordinates, tags in both cases left open across lines, a colour -/
def exampleA : Str := "﻿ x\r\n0:01.5 --> 0:2.25 X1\r<b>a\nb</B><font color=\"red\">c\n".toList

/-- blank-line padding, an index line made of markup, no spaces around `-->`, a stray `<`, an entity -/
def exampleB : Str := "\n<i>\n1:2:3,4-->5:6:7.891\nd <3 &amp;\n\n".toList

/-- what they denote -/
def cuesA : List GCue :=
  [{ startMs := 1500, endMs := 2250,
     lines := [[{ text := "a".toList, bold := true, italic := false, underline := false, color := none }],
               [{ text := "b".toList, bold := true, italic := false, underline := false, color := none },
                { text := "c".toList, bold := false, italic := false, underline := false, color := some "red".toList }]] }]
def cuesB : List GCue :=
  [{ startMs := 3723400, endMs := 18367891,
     lines := [[{ text := "d <3 &".toList, bold := false, italic := false, underline := false, color := none }]] }]

set_option maxRecDepth 8192 in
example : Spec.SRT.decode exampleA = some cuesA := by decide
set_option maxRecDepth 8192 in
example : Spec.SRT.decode exampleB = some cuesB := by decide
example : InRange cuesA = true ∧ InRange cuesB = true := by decide
set_option maxRecDepth 8192 in
example : ModelledText exampleA = true := by decide
set_option maxRecDepth 8192 in
example : ModelledText exampleB = true := by decide

/-! ## 1. bytes → lines -/

/-- **Bytes to lines.**  For every byte string that is valid UTF-8 (decoding to `text`), cutting the bytes
    into lines with the scanner model (`bufio.Scanner` with the package's split function: LF, CRLF and lone
    CR end a line) and decoding each line gives exactly the lines the decoder's own splitter cuts `text`
    into; no line fails to decode -/
theorem bytes_to_lines (doc : List UInt8) (text : Str) (h : Driver.decodeLine doc = some text) :
    Driver.docLines doc = (Spec.SRT.splitLines text []).map some :=
  docLines_of_decodeLine doc text h

/-- the `Modelled` proviso can be checked on the text -/
theorem modelled_text (doc : List UInt8) (text : Str) (h : Driver.decodeLine doc = some text) :
    Modelled doc = ModelledText text := by
  unfold Modelled ModelledText
  rw [bytes_to_lines doc text h]

set_option maxRecDepth 8192 in
example : Modelled (Driver.utf8 exampleA) = true := by
  rw [modelled_text _ exampleA (decodeLine_utf8 exampleA)]
  decide

/-! ## 2. time stamps and timing lines -/

/-- **Time stamps.**  Every string the decoder reads as a time stamp of `ms` milliseconds (`,` or `.`,
    one to three fraction digits, `hh:mm:ss` or `mm:ss`, any number of hour digits, white space around) is
    parsed by the reader model (`parseDurationSRT`) as `ms` milliseconds, in nanoseconds — provided the
    hours fit Go's `int` -/
theorem timestamp_agrees (s : Str) (ms : Nat) (h : timeMs s = some ms) (hb : ms / 3600000 ≤ int64Max) :
    Duration.parseSRT s = some ((ms : Int) * 1000000) :=
  parseSRT_of_timeMs s ms h hb

/-- the loop body of `ReadFromSRT` is `stepG` on the prepared line: trimmed, and on the first line
    without a leading byte order mark -/
theorem step_is_stepG (st : St) (raw : Str) : step st (some raw) = stepG st (prepLine st.lineNum raw) :=
  step_eq st raw

/-- **Timing lines.**  On every line the decoder accepts as the timing line `[s ms, e ms)` (spacing around
    `-->`, trailing coordinates, all time stamp variants), from any state, the reader model starts a new
    cue with these instants, no lines and an empty running style -/
theorem timing_line_agrees (st : St) (line : Str) (s e : Nat) (h : timing line = some (s, e))
    (hs : s / 3600000 ≤ int64Max) (he : e / 3600000 ≤ int64Max) :
    ∃ st', stepG st line = .ok st' ∧ st'.cur.startAt = (s : Int) * 1000000 ∧ st'.cur.endAt = (e : Int) * 1000000 ∧
      st'.cur.lines = [] ∧ st'.curListed = true ∧ st'.sa = {} := by
  obtain ⟨left, right, rest1, endTok, rest2, hc, hsp, hf, h1, h2⟩ := timingOK_of_timing timeSim h hs he
  exact ⟨_, stepG_timing st line left right endTok rest1 rest2 _ _ hc hsp hf h1 h2, rfl, rfl, rfl, rfl, rfl⟩

/-! ## 3. text lines -/

/-- **Tags.**  Every tag the decoder recognises at the head of `'<' :: c :: tl` (`<b> <i> <u> </b> </i> </u>
    </font> <font color="v">`, letters in either case) is exactly one token of the tokenizer model, after
    which both scans resume at the same place; and the reader's `stepTok` changes its running style the way
    the decoder does, emitting nothing -/
theorem tag_agrees (c : Char) (tl : Str) (f : Sty → Sty) (after : Str)
    (h : Spec.SRT.tagAt ('<' :: c :: tl) = some (f, after)) (acc : Str) (out : List Tok) :
    ∃ t : Tok, tokStep ('<' :: c :: tl) acc out = .next after [] (t :: flushText acc out) ∧
      ∀ (r : Run) (items : List LItem),
        (stepTok (r, items) t).2 = items ∧ styOf (stepTok (r, items) t).1 = f (styOf r) :=
  tag_sim c tl f after h acc out

/-- **One text line.**  A non-blank line that the decoder turns into the runs `res.2`, starting from the
    running style `styOf sa` and ending in `res.1`, is parsed by the reader model (unless the tokenizer
    model is undefined on it) into items whose view is these runs, with the same running style afterwards:
    unterminated and multi-line tags are carried the same way -/
theorem text_line_agrees (l : Str) (sa : Run) (res : Sty × List GRun) (hne : trimSpace l ≠ [])
    (h : runsOf (l.length + 2) l (styOf sa) [] [] = some res) (hm : parseText l sa ≠ .unmodelled) :
    ∃ sa' items, parseText l sa = .ok (sa', { items := items }) ∧ styOf sa' = res.1 ∧ items.map drvRun = res.2 :=
  parseText_sim tagSim l sa res hne h hm

/-- **The text lines of a cue.**  While the reader is filling a cue (`AtCue`), text lines that the decoder
    turns into `ls` are appended as lines whose view is `ls`; nothing else of the state changes -/
theorem cue_text_agrees (text : List Str) (st : St) (cues : List GCue) (s e : Nat) (L : List Line)
    (ls : List (List GRun)) (h : AtCue st cues s e L) (hc : cueLines text (styOf st.sa) = some ls)
    (ht : ∀ t ∈ text, trimSpace t ≠ [] ∧ contains arrow t = false) (hm : runG st text ≠ .unmodelled) :
    ∃ st' L', runG st text = .ok st' ∧ AtCue st' cues s e (L ++ L') ∧ linesView L' = ls ∧ ∀ l ∈ L', Solid l :=
  text_sim tagSim text st cues s e L ls h hc ht hm

/-! ## 4. blocks -/

/-- **One block.**  From a loop state that holds the cues `cues` followed by `n` empty lines (`n ≥ 1` unless
    there is no cue yet), a block `d1 :: tl` of non-blank lines that the decoder turns into the cue `c`
    (optional index line — any text without `-->` —, timing line, text lines) takes the reader model to a
    state that holds `cues ++ [c]`.  (`m1` is the reader's view of the block's first line: `d1` itself,
    except on the first line of a document.) -/
theorem block_agrees {st : St} {cues : List GCue} {n : Nat} (hg : Good st cues n []) (hn : cues = [] ∨ 1 ≤ n)
    (d1 m1 : Str) (tl : List Str) (hrel : HeadRel d1 m1) (c : GCue) (hdec : decodeBlock (d1 :: tl) = some c)
    (hrange : InRangeCue c) (htl : ∀ l ∈ tl, trimSpace l ≠ []) (hm : runG st (m1 :: tl) ≠ .unmodelled) :
    ∃ st', runG st (m1 :: tl) = .ok st' ∧ Good st' (cues ++ [c]) 0 [] :=
  block_sim tagSim timeSim hg hn d1 m1 tl hrel c hdec hrange htl hm

/-- an empty line keeps the cues and adds a place holder; the final state's cue list (what `read`
    returns) is viewed as the cues the state holds -/
theorem blank_and_end {st : St} {cues : List GCue} {n : Nat} (hg : Good st cues n []) :
    (∃ st', stepG st [] = .ok st' ∧ Good st' cues (n + 1) []) ∧ Driver.srtView (finish st) = some cues :=
  ⟨good_blank hg, good_finish hg⟩

-- the invariant holds initially, and every line is related to itself
example : Good {} [] 0 [] := good_init
example : HeadRel "7".toList "7".toList := headRel_refl timeSim _

/-! ## 5. the first line -/

/-- a document that begins with a byte order mark: the decoder drops the mark and trims the first line,
    the reader trims first and then drops the mark — the line keeps its leading white space; both views
    are related as the block theorem needs -/
theorem first_line_bom (l : Str) : HeadRel (trimSpace l) (prepLine 0 (bomC :: l)) :=
  headRel_bom l

/-- a document that does not begin with a byte order mark: a mark that heads the first line after
    trimming is dropped by the reader only; such a line is an index line either way -/
theorem first_line_late_bom (l : Str) : HeadRel (trimSpace l) (prepLine 0 l) :=
  headRel_strip (trimSpace l)

/-! ## 6. documents -/

/-- **Read clause, on text.**  For every text the decoder accepts as `cues` (hours in range), on whose
    lines the reader model is defined: the reader model succeeds and the view of its result is `cues` -/
theorem read_clause_text (text : Str) (cues : List GCue) (h : Spec.SRT.decode text = some cues)
    (hr : InRange cues = true) (hm : ModelledText text = true) :
    ∃ s, SRT.read ((Spec.SRT.splitLines text []).map some) = .ok s ∧ Driver.srtView s = some cues :=
  read_decode_text text cues h ((inRange_iff cues).mp hr)
    (ne_unmodelled (by unfold ModelledText at hm; simpa using hm))

/-- **MAIN: the read clause, on bytes, as the `srt.read` stream evaluates it.**  For every byte string `doc`
    that is valid UTF-8 and that the independent decoder accepts as the cues `cues` (hours in range), if
    the reader model is defined on `doc`, then it succeeds — `ReadFromSRT` through the scanner model,
    line by line — and the view of the cue list it returns is exactly `cues` -/
theorem read_clause (doc : List UInt8) (text : Str) (cues : List GCue) (hd : Driver.decodeLine doc = some text)
    (h : Spec.SRT.decode text = some cues) (hr : InRange cues = true) (hm : Modelled doc = true) :
    ∃ s, SRT.read (Driver.docLines doc) = .ok s ∧ Driver.srtView s = some cues := by
  rw [modelled_text doc text hd] at hm
  rw [bytes_to_lines doc text hd]
  exact read_clause_text text cues h hr hm

/-- the predicate of the `srt.read` case of `Driver.handleSRT`, with the model's answer in place of the
    implementation's (the stream compares the two on every case) -/
def readSpec (doc : List UInt8) (r : Res Subs) : Bool :=
  match Driver.decodeLine doc with
  | none => true
  | some text =>
    match Spec.SRT.decode text with
    | none => true
    | some cues =>
      match r with
      | .ok s => Driver.srtView s == some cues
      | _ => false

/-- the hours proviso, on the document -/
def InRangeDoc (doc : List UInt8) : Bool :=
  match Driver.decodeLine doc with
  | none => true
  | some text => match Spec.SRT.decode text with
    | none => true
    | some cues => InRange cues

/-- **The stream's predicate holds for the model's answer** on every document on which the model answers
    and whose hours are in range -/
theorem read_spec_holds (doc : List UInt8) (hm : Modelled doc = true) (hr : InRangeDoc doc = true) :
    readSpec doc (SRT.read (Driver.docLines doc)) = true := by
  unfold readSpec
  unfold InRangeDoc at hr
  cases hd : Driver.decodeLine doc with
  | none => rfl
  | some text =>
    rw [hd] at hr
    simp only at hr ⊢
    cases hc : Spec.SRT.decode text with
    | none => rfl
    | some cues =>
      rw [hc] at hr
      simp only at hr ⊢
      obtain ⟨s, h1, h2⟩ := read_clause doc text cues hd hc hr hm
      rw [h1]
      simp [h2]

/-! ## 7. an explicit class inside the model -/

/-- **The explicit class.**  Every line as the reader prepares it (`readerLines`: cut at LF / CRLF / CR,
    trimmed, a byte order mark removed from the first) either contains `-->`, or has no NUL and — if it
    contains `<` at all — is made of text, stray `<` and the eight emphasis tags only (`LineClass`: judged by
    the decoder's own run scanner).  Relative to the decoder's class this excludes exactly: NUL characters
    on lines without `-->`, and index lines with other markup (`<x>`, `<!-- -->`, `<script>`, `</>` …) -/
def InClass (text : Str) : Bool := (readerLines text).all LineClass

/-- on the class the reader model is defined -/
theorem inClass_modelled (text : Str) (h : InClass text = true) : ModelledText text = true := by
  have := read_lineClass text (by simpa [InClass, List.all_eq_true] using h)
  unfold ModelledText
  cases hr : SRT.read ((Spec.SRT.splitLines text []).map some) with
  | ok s => rfl
  | err => rfl
  | unmodelled => exact absurd hr this

/-- **MAIN on the explicit class.**  For every valid UTF-8 byte string whose text is in the class and is
    accepted by the decoder as `cues` (hours in range): the reader model succeeds on the bytes and the
    view of its result is `cues` -/
theorem read_clause_inClass (doc : List UInt8) (text : Str) (cues : List GCue)
    (hd : Driver.decodeLine doc = some text) (h : Spec.SRT.decode text = some cues) (hr : InRange cues = true)
    (hc : InClass text = true) :
    ∃ s, SRT.read (Driver.docLines doc) = .ok s ∧ Driver.srtView s = some cues :=
  read_clause doc text cues hd h hr (by rw [modelled_text doc text hd]; exact inClass_modelled text hc)

set_option maxRecDepth 8192 in
example : InClass exampleA = true := by decide
set_option maxRecDepth 8192 in
example : InClass exampleB = true := by decide

/-- an index line with other markup: accepted by the decoder, outside `InClass`, still inside the model -/
def exampleC : Str := "<x>\n0:1,0 --> 0:2,0\ny".toList
/-- an index line that leaves the tokenizer model: accepted by the decoder, `unmodelled` for the reader -/
def exampleD : Str := "<!--\n0:1,0 --> 0:2,0\ny".toList

set_option maxRecDepth 8192 in
example : (Spec.SRT.decode exampleC).isSome = true ∧ InClass exampleC = false ∧ ModelledText exampleC = true := by
  decide
set_option maxRecDepth 8192 in
example : (Spec.SRT.decode exampleD).isSome = true ∧ InClass exampleD = false ∧ ModelledText exampleD = false := by
  decide

/-! ## 8. the hours proviso is needed (finding) -/

/-- the read clause without the hours proviso -/
def read_clause_Statement : Prop :=
  ∀ (doc : List UInt8) (text : Str) (cues : List GCue), Driver.decodeLine doc = some text →
    Spec.SRT.decode text = some cues → Modelled doc = true →
    ∃ s, SRT.read (Driver.docLines doc) = .ok s ∧ Driver.srtView s = some cues

/-- twenty digits of hours -/
def bigHours : Str := "99999999999999999999:00:00,000 --> 0:2,0\nx".toList

def isErr {α} : Res α → Bool
  | .err => true
  | _ => false

set_option maxRecDepth 8192 in
/-- the decoder accepts `bigHours` (as a cue that starts after about 10¹⁶ years), the reader model
    answers `err` (`strconv.Atoi: value out of range`) -/
theorem inRange_needed : (Spec.SRT.decode bigHours).isSome = true ∧
    isErr (SRT.read ((Spec.SRT.splitLines bigHours []).map some)) = true := by
  decide

/-- **Finding.** the unrestricted statement is false -/
theorem read_clause_Statement_false : ¬ read_clause_Statement := by
  intro hst
  obtain ⟨h1, h2⟩ := inRange_needed
  cases hc : Spec.SRT.decode bigHours with
  | none => rw [hc] at h1; cases h1
  | some cues =>
    have hd := decodeLine_utf8 bigHours
    have hl := bytes_to_lines _ _ hd
    have hm : Modelled (Driver.utf8 bigHours) = true := by
      unfold Modelled
      rw [hl]
      cases hr : SRT.read ((Spec.SRT.splitLines bigHours []).map some) with
      | err => rfl
      | ok s => rfl
      | unmodelled => rw [hr] at h2; cases h2
    obtain ⟨s, hs, _⟩ := hst _ _ _ hd hc hm
    rw [hl] at hs
    rw [hs] at h2
    cases h2

end C01read
end Astisub
