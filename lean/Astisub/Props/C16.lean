import Astisub.Lemmas.Str
import Astisub.Model.Duration

/-!
# C16 — Timestamp codec: truncating, canonical, monotone, self-inverse per format

`Duration.format` / `Duration.parse` model `formatDuration` / `parseDuration` (`subtitles.go`) and
the per-format wrappers; `formatSTL*` / `parseSTL*` model the STL timecodes (`stl.go`, after the
`fix:` commit that rounds frames up).  All statements hold for **every** instant
`0 ≤ t < 100 h` (STL: `< 24 h`) at nanosecond resolution.
-/

namespace Astisub
namespace C16
open Go Duration List

/-- canonical text of an instant: `HH:MM:SS<sep>F…` with two-digit fields -/
def canon3 (h m s f : Nat) (sep : Char) : Str := dd h ++ ':' :: dd m ++ ':' :: dd s ++ sep :: ddd f
def canon2 (h m s f : Nat) (sep : Char) : Str := dd h ++ ':' :: dd m ++ ':' :: dd s ++ sep :: dd f

theorem pad2_eq_dd {v : Nat} (h : v < 100) : pad2 v = dd v := by
  unfold pad2
  by_cases h1 : v < 10
  · have e1 : v / 10 = 0 := by omega
    have e2 : v % 10 = v := by omega
    simp [h1, itoaNat_lt10 h1, dd, e1, e2]; rfl
  · simp [h1, itoaNat_lt100 (by omega) h, dd]

/-- **Shape.** For `0 ≤ t < 100 h` the writer's rendering is exactly `HH:MM:SS<sep>FFF` with
    `HH < 100`, `MM, SS < 60` in two digits and a fraction of exactly three digits (ms). -/
theorem format_shape3 (t : Int) (sep : Char) (h0 : 0 ≤ t) (h1 : t < 360000000000000) :
    ∃ h m s f : Nat, h < 100 ∧ m < 60 ∧ s < 60 ∧ f < 1000 ∧
      Duration.format t sep 3 = canon3 h m s f sep ∧
      (f : Int) * nsPerMs + (s : Int) * nsPerS + (m : Int) * nsPerMin + (h : Int) * nsPerH = t - t % 1000000 := by
  obtain ⟨n, rfl⟩ : ∃ n : Nat, t = (n : Int) := ⟨t.toNat, by omega⟩
  refine ⟨n / 3600000000000, n % 3600000000000 / 60000000000, n % 60000000000 / 1000000000,
    n % 1000000000 / 1000000, by omega, by omega, by omega, by omega, ?_, ?_⟩
  · unfold Duration.format canon3
    simp only [Int.toNat_natCast, Nat.sub_self, Nat.pow_zero, Nat.div_one]
    rw [pad2_eq_dd (by omega), pad2_eq_dd (by omega), pad2_eq_dd (by omega), padLeft0_3 (by omega)]
  · unfold nsPerMs nsPerS nsPerMin nsPerH; omega

/-- … and exactly two fraction digits (cs) for the SSA writer. -/
theorem format_shape2 (t : Int) (sep : Char) (h0 : 0 ≤ t) (h1 : t < 360000000000000) :
    ∃ h m s f : Nat, h < 100 ∧ m < 60 ∧ s < 60 ∧ f < 100 ∧
      Duration.format t sep 2 = canon2 h m s f sep ∧
      (f : Int) * 10 * nsPerMs + (s : Int) * nsPerS + (m : Int) * nsPerMin + (h : Int) * nsPerH = t - t % 10000000 := by
  obtain ⟨n, rfl⟩ : ∃ n : Nat, t = (n : Int) := ⟨t.toNat, by omega⟩
  refine ⟨n / 3600000000000, n % 3600000000000 / 60000000000, n % 60000000000 / 1000000000,
    n % 1000000000 / 1000000 / 10, by omega, by omega, by omega, by omega, ?_, ?_⟩
  · unfold Duration.format canon2
    simp only [Int.toNat_natCast]
    rw [pad2_eq_dd (by omega), pad2_eq_dd (by omega), pad2_eq_dd (by omega)]
    have : (3 - 2 : Nat) = 1 := rfl
    rw [this, Nat.pow_one, padLeft0_2 (by omega)]
  · unfold nsPerMs nsPerS nsPerMin nsPerH; omega

theorem hms_split (h m s : Nat) (hh : h < 100) (hm : m < 100) (hs : s < 100) :
    splitC ':' (dd h ++ ':' :: dd m ++ ':' :: dd s) = [dd h, dd m, dd s] := by
  rw [show dd h ++ ':' :: dd m ++ ':' :: dd s = dd h ++ ':' :: (dd m ++ ':' :: dd s) by simp]
  rw [splitC_append _ ((digitStr_dd hh).not_mem (Or.inl rfl)),
      splitC_append _ ((digitStr_dd hm).not_mem (Or.inl rfl)),
      splitC_not_mem ((digitStr_dd hs).not_mem (Or.inl rfl))]

theorem hms_noSpace (h m s : Nat) (hh : h < 100) (hm : m < 100) (hs : s < 100) :
    ∀ c ∈ dd h ++ ':' :: dd m ++ ':' :: dd s, isSpace c = false := by
  intro c hc
  simp only [mem_append, mem_cons] at hc
  rcases hc with (hc | rfl | hc) | rfl | hc
  · exact (digitStr_dd hh).noSpace c hc
  · decide
  · exact (digitStr_dd hm).noSpace c hc
  · decide
  · exact (digitStr_dd hs).noSpace c hc

theorem hms_not_mem (h m s : Nat) (hh : h < 100) (hm : m < 100) (hs : s < 100) (sep : Char)
    (hsep : sep = '.' ∨ sep = ',') : sep ∉ dd h ++ ':' :: dd m ++ ':' :: dd s := by
  have hsep' : sep = ':' ∨ sep = '.' ∨ sep = ',' := by rcases hsep with e | e <;> simp [e]
  have hne : sep ≠ ':' := by rcases hsep with e | e <;> subst e <;> decide
  intro hc
  simp only [mem_append, mem_cons] at hc
  rcases hc with (hc | e | hc) | e | hc
  · exact (digitStr_dd hh).not_mem hsep' hc
  · exact hne e
  · exact (digitStr_dd hm).not_mem hsep' hc
  · exact hne e
  · exact (digitStr_dd hs).not_mem hsep' hc

/-- the reader's parse of a canonical rendering (any field values, three fraction digits) -/
theorem parse_canon3 (h m s f : Nat) (hh : h < 100) (hm : m < 100) (hs : s < 100) (hf : f < 1000)
    (sep : Char) (hsep : sep = '.' ∨ sep = ',') :
    parse (canon3 h m s f sep) sep 3
      = some ((f : Int) * nsPerMs + (s : Int) * nsPerS + (m : Int) * nsPerMin + (h : Int) * nsPerH) := by
  have hsepF : sep ∉ ddd f := (digitStr_ddd hf).not_mem (by rcases hsep with e | e <;> simp [e])
  unfold parse canon3
  rw [splitC_append _ (hms_not_mem h m s hh hm hs sep hsep), splitC_not_mem hsepF]
  simp only [length_cons, length_nil, ge_iff_le, Nat.le_refl, ↓reduceIte, getLast?_cons_cons,
    getLast?_singleton, Option.getD_some, dropLast_cons₂, dropLast_singleton, join]
  rw [trimSpace_id (digitStr_ddd hf).noSpace, atoi_ddd hf]
  have hl : (ddd f).length = 3 := rfl
  simp only [hl, Nat.lt_irrefl, ↓reduceIte, Nat.sub_self, Int.pow_zero, Int.mul_one]
  rw [trimSpace_id (hms_noSpace h m s hh hm hs), hms_split h m s hh hm hs]
  simp only
  rw [trimSpace_id (digitStr_dd hs).noSpace, trimSpace_id (digitStr_dd hm).noSpace,
    trimSpace_id (digitStr_dd hh).noSpace, atoi_dd hs, atoi_dd hm, atoi_dd hh]
  have hl2 : (dd h).length = 2 := rfl
  simp [hl2]

/-- same with two fraction digits, read with the reader's three-digit scale (SSA) -/
theorem parse_canon2 (h m s f : Nat) (hh : h < 100) (hm : m < 100) (hs : s < 100) (hf : f < 100)
    (sep : Char) (hsep : sep = '.' ∨ sep = ',') :
    parse (canon2 h m s f sep) sep 3
      = some ((f : Int) * 10 * nsPerMs + (s : Int) * nsPerS + (m : Int) * nsPerMin + (h : Int) * nsPerH) := by
  have hsepF : sep ∉ dd f := (digitStr_dd hf).not_mem (by rcases hsep with e | e <;> simp [e])
  unfold parse canon2
  rw [splitC_append _ (hms_not_mem h m s hh hm hs sep hsep), splitC_not_mem hsepF]
  simp only [length_cons, length_nil, ge_iff_le, Nat.le_refl, ↓reduceIte, getLast?_cons_cons,
    getLast?_singleton, Option.getD_some, dropLast_cons₂, dropLast_singleton, join]
  rw [trimSpace_id (digitStr_dd hf).noSpace, atoi_dd hf]
  have hl : (dd f).length = 2 := rfl
  have h23 : ¬ (2 > 3) := by decide
  have hp : (10 : Int) ^ (3 - 2) = 10 := rfl
  simp only [hl, h23, ↓reduceIte, hp]
  rw [trimSpace_id (hms_noSpace h m s hh hm hs), hms_split h m s hh hm hs]
  simp only
  rw [trimSpace_id (digitStr_dd hs).noSpace, trimSpace_id (digitStr_dd hm).noSpace,
    trimSpace_id (digitStr_dd hh).noSpace, atoi_dd hs, atoi_dd hm, atoi_dd hh]
  have hl2 : (dd h).length = 2 := rfl
  simp [hl2]

/-- **Round trip (generic).** parse ∘ format = truncation to the millisecond. -/
theorem parse_format3 (t : Int) (sep : Char) (hsep : sep = '.' ∨ sep = ',')
    (h0 : 0 ≤ t) (h1 : t < 360000000000000) :
    parse (Duration.format t sep 3) sep 3 = some (t - t % 1000000) := by
  obtain ⟨h, m, s, f, hh, hm, hs, hf, hfmt, hval⟩ := format_shape3 t sep h0 h1
  rw [hfmt, parse_canon3 h m s f hh (by omega) (by omega) hf sep hsep, hval]

theorem parse_format2 (t : Int) (sep : Char) (hsep : sep = '.' ∨ sep = ',')
    (h0 : 0 ≤ t) (h1 : t < 360000000000000) :
    parse (Duration.format t sep 2) sep 3 = some (t - t % 10000000) := by
  obtain ⟨h, m, s, f, hh, hm, hs, hf, hfmt, hval⟩ := format_shape2 t sep h0 h1
  rw [hfmt, parse_canon2 h m s f hh (by omega) (by omega) hf sep hsep, hval]

/-! ### per format: the reader maps the writer's rendering back to the truncated instant -/

theorem srt_roundtrip (t : Int) (h0 : 0 ≤ t) (h1 : t < 360000000000000) :
    parseSRT (formatSRT t) = some (t - t % 1000000) := by
  unfold parseSRT formatSRT
  rw [parse_format3 t ',' (Or.inr rfl) h0 h1]

theorem vtt_roundtrip (t : Int) (h0 : 0 ≤ t) (h1 : t < 360000000000000) :
    parseVTT (formatVTT t) = some (t - t % 1000000) :=
  parse_format3 t '.' (Or.inl rfl) h0 h1

theorem ttml_clock_roundtrip (t : Int) (h0 : 0 ≤ t) (h1 : t < 360000000000000) :
    parse (formatTTML t) '.' 3 = some (t - t % 1000000) :=
  parse_format3 t '.' (Or.inl rfl) h0 h1

theorem ssa_roundtrip (t : Int) (h0 : 0 ≤ t) (h1 : t < 360000000000000) :
    parseSSA (formatSSA t) = some (t - t % 10000000) :=
  parse_format2 t '.' (Or.inl rfl) h0 h1

/-- **Floor.** the value read back is the latest representable instant not after `t` -/
theorem floor_ms (t : Int) (h0 : 0 ≤ t) :
    t - t % 1000000 ≤ t ∧ t < t - t % 1000000 + 1000000 ∧ (t - t % 1000000) % 1000000 = 0 := by omega

theorem floor_cs (t : Int) (h0 : 0 ≤ t) :
    t - t % 10000000 ≤ t ∧ t < t - t % 10000000 + 10000000 ∧ (t - t % 10000000) % 10000000 = 0 := by omega

/-- **Monotone.** later instants never render as (read back as) earlier timestamps -/
theorem monotone_ms (t t' : Int) (h : t ≤ t') : t - t % 1000000 ≤ t' - t' % 1000000 := by omega
theorem monotone_cs (t t' : Int) (h : t ≤ t') : t - t % 10000000 ≤ t' - t' % 10000000 := by omega

/-- **Self-inverse.** writing what was read back gives the identical rendering -/
theorem format_idem3 (t : Int) (sep : Char) (h0 : 0 ≤ t) :
    Duration.format (t - t % 1000000) sep 3 = Duration.format t sep 3 := by
  obtain ⟨n, rfl⟩ : ∃ n : Nat, t = (n : Int) := ⟨t.toNat, by omega⟩
  have e : ((n : Int) - (n : Int) % 1000000).toNat = n - n % 1000000 := by omega
  unfold Duration.format
  simp only [e, Int.toNat_natCast]
  have a1 : (n - n % 1000000) / 3600000000000 = n / 3600000000000 := by omega
  have a2 : (n - n % 1000000) % 3600000000000 / 60000000000 = n % 3600000000000 / 60000000000 := by omega
  have a3 : (n - n % 1000000) % 60000000000 / 1000000000 = n % 60000000000 / 1000000000 := by omega
  have a4 : (n - n % 1000000) % 1000000000 / 1000000 = n % 1000000000 / 1000000 := by omega
  rw [a1, a2, a3, a4]

theorem format_idem2 (t : Int) (sep : Char) (h0 : 0 ≤ t) :
    Duration.format (t - t % 10000000) sep 2 = Duration.format t sep 2 := by
  obtain ⟨n, rfl⟩ : ∃ n : Nat, t = (n : Int) := ⟨t.toNat, by omega⟩
  have e : ((n : Int) - (n : Int) % 10000000).toNat = n - n % 10000000 := by omega
  unfold Duration.format
  simp only [e, Int.toNat_natCast]
  have a1 : (n - n % 10000000) / 3600000000000 = n / 3600000000000 := by omega
  have a2 : (n - n % 10000000) % 3600000000000 / 60000000000 = n % 3600000000000 / 60000000000 := by omega
  have a3 : (n - n % 10000000) % 60000000000 / 1000000000 = n % 60000000000 / 1000000000 := by omega
  have a4 : (n - n % 10000000) % 1000000000 / 1000000 / 10 = n % 1000000000 / 1000000 / 10 := by omega
  have p : (10 : Nat) ^ (3 - 2) = 10 := rfl
  rw [a1, a2, a3, p, a4]

/-! ### STL (frame rate 25 or 30) -/

/-- the frame count the writer emits for instant `t` -/
def frameOf (n fr : Nat) : Nat := n % 1000000000 * fr / 1000000000

/-- frames → nanoseconds as the repaired reader computes it, in natural numbers -/
theorem framesToNs_nat (f fr : Nat) (hfr : 0 < fr) :
    framesToNs true (f : Int) (fr : Int) = (((1000000000 * f + fr - 1) / fr : Nat) : Int) := by
  unfold framesToNs
  simp only [↓reduceIte]
  rw [Int.tdiv_eq_ediv_of_nonneg (by omega)]
  have h1 : 1 ≤ 1000000000 * f + fr := by omega
  have : (1000000000 * (f : Int) + (fr : Int) - 1) = ((1000000000 * f + fr - 1 : Nat) : Int) := by
    rw [Int.natCast_sub h1]; simp
  rw [this]; rfl

/-- reading a frame count and writing it again gives the same frame count (the statement that
    was false before the `fix:` commit at 30 fps: frame 1 came back as frame 0), and the value `k`
    read is within one nanosecond of the frame instant: `f·10⁹/fr ≤ k < f·10⁹/fr + 1` -/
theorem frames_stable (f fr : Nat) (hfr : fr = 25 ∨ fr = 30) (hf : f < fr) :
    (1000000000 * f + fr - 1) / fr < 1000000000 ∧
    (1000000000 * f + fr - 1) / fr * fr / 1000000000 = f ∧
    (1000000000 * f + fr - 1) / fr * fr < 1000000000 * f + fr ∧
    1000000000 * f ≤ (1000000000 * f + fr - 1) / fr * fr := by
  rcases hfr with rfl | rfl <;> omega

/-- a binary timecode whose fields are in range is reproduced field by field -/
theorem fields_rewrite (H M S k fr : Nat) (hH : H < 256) (hM : M < 60) (hS : S < 60) (hk : k < 1000000000) :
    formatSTLBytes ((H * 3600000000000 + M * 60000000000 + S * 1000000000 + k : Nat) : Int) fr
      = [H, M, S, k * fr / 1000000000] := by
  unfold formatSTLBytes
  simp only [Int.toNat_natCast]
  generalize hN : H * 3600000000000 + M * 60000000000 + S * 1000000000 + k = N
  have b1 : N / 3600000000000 % 256 = H := by omega
  have b2 : N % 3600000000000 / 60000000000 = M := by omega
  have b3 : N % 60000000000 / 1000000000 = S := by omega
  have b4 : N % 1000000000 = k := by omega
  rw [b1, b2, b3, b4]

/-- binary timecodes: fields in range, and read-then-write changes no field -/
theorem stl_bytes_rewrite (t : Int) (fr : Nat) (hfr : fr = 25 ∨ fr = 30) (h0 : 0 ≤ t) (h1 : t < 86400000000000) :
    formatSTLBytes (parseSTLBytes true (formatSTLBytes t fr) fr) fr = formatSTLBytes t fr ∧
    (∃ h m s f, formatSTLBytes t fr = [h, m, s, f] ∧ h < 24 ∧ m < 60 ∧ s < 60 ∧ f < fr) := by
  obtain ⟨n, rfl⟩ : ∃ n : Nat, t = (n : Int) := ⟨t.toNat, by omega⟩
  have hfrpos : 0 < fr := by rcases hfr with rfl | rfl <;> omega
  have hf : n % 1000000000 * fr / 1000000000 < fr := by
    rcases hfr with rfl | rfl <;> omega
  obtain ⟨hk, hst, _, _⟩ := frames_stable (n % 1000000000 * fr / 1000000000) fr hfr hf
  refine ⟨?_, ⟨_, _, _, _, rfl, by omega, by omega, by omega, hf⟩⟩
  have hfmt : formatSTLBytes (n : Int) fr = [n / 3600000000000 % 256, n % 3600000000000 / 60000000000,
      n % 60000000000 / 1000000000, n % 1000000000 * fr / 1000000000] := by
    unfold formatSTLBytes; simp only [Int.toNat_natCast]
  rw [hfmt]
  unfold parseSTLBytes
  simp only
  rw [framesToNs_nat _ _ hfrpos]
  unfold nsPerH nsPerMin nsPerS
  generalize hK : (1000000000 * (n % 1000000000 * fr / 1000000000) + fr - 1) / fr = K at hk hst
  have hH : n / 3600000000000 % 256 < 256 := by omega
  have hM : n % 3600000000000 / 60000000000 < 60 := by omega
  have hS : n % 60000000000 / 1000000000 < 60 := by omega
  generalize n / 3600000000000 % 256 = H at hH ⊢
  generalize n % 3600000000000 / 60000000000 = M at hM ⊢
  generalize n % 60000000000 / 1000000000 = S at hS ⊢
  have e : ((H : Int) * 3600000000000 + (M : Int) * 60000000000 + (S : Int) * 1000000000 + (K : Int))
      = ((H * 3600000000000 + M * 60000000000 + S * 1000000000 + K : Nat) : Int) := by omega
  rw [e, fields_rewrite H M S K fr hH hM hS hk, hst]

/-- later instants never get an earlier STL timecode (lexicographic order of the fields =
    numeric order of `h·3600·fr + m·60·fr + s·fr + f`) -/
theorem stl_monotone (t t' : Nat) (fr : Nat) (hfr : fr = 25 ∨ fr = 30) (h : t ≤ t') :
    t / 1000000000 * fr + frameOf t fr ≤ t' / 1000000000 * fr + frameOf t' fr := by
  unfold frameOf
  rcases hfr with rfl | rfl <;> omega

end C16
end Astisub
