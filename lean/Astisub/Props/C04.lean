import Astisub.Model.SSA
import Astisub.Lemmas.Str
import Astisub.Props.C16

/-!
# C04 — SSA / ASS codec fidelity

`SSA.read` / `SSA.write` model `ReadFromSSA` / `WriteToSSA` of the repaired `ssa.go`.  This file
proves, for **all** inputs, the component laws the property is made of:

* the Format line decides: every column name the writer can emit is understood by the reader as
  the same attribute, `TertiaryColour` is the v4 spelling of `OutlineColour`, the writer's columns
  are pairwise distinct;
* booleans: what the writer emits for `true` / `false` is read back as `true` / `false`
  ("true booleans stay true"), and `-1` is true;
* rows: splitting at `,` inverts joining with `,` for comma-free cells, and the last Format column
  takes the rest of the row — commas in the event text are preserved, whatever the columns are;
* colours: the `&Haabbggrr` text written for any 32-bit colour is read back as the same colour;
* event times: the written `HH:MM:SS.cc` is read back as the instant truncated to the centisecond;
* ignored input: a line without `:` changes nothing, nothing of an unknown section is looked at,
  events other than `Dialogue` are not even parsed;
* `*`-prefixed style references resolve to the style without the `*`;
* an empty cue list is refused.

The whole-document clauses (read of every rendering = what `Spec.SSA.decode` says; write → own
reader and → independent decoder = same cues / styles / script info; write ∘ read ∘ write = write)
are decided on every run by the `ssa.read` / `ssa.write` streams with the specification predicate
evaluated on every case; they are not proved here.
-/

namespace Astisub
namespace C04
open Go SSA List

/-! ### the Format line decides -/

/-- every column the writer can put in a styles Format line is read as the same attribute -/
theorem col_roundtrip (f : Fld) : colOfName f.col.toList = some (.fld f) := by
  cases f <;> decide

/-- `TertiaryColour` (v4) and `OutlineColour` (v4+) are the same attribute -/
theorem tertiary_is_outline : colOfName "TertiaryColour".toList = colOfName "OutlineColour".toList := by decide

/-- `Name` is the style's name -/
theorem name_col : colOfName "Name".toList = some .name := by decide

/-- the 23 attributes are all there, each once -/
theorem fld_all_complete (f : Fld) : f ∈ Fld.all := by cases f <;> decide

theorem fld_all_nodup : Fld.all.Nodup := by decide

/-- no two attributes share a column name or a `StyleAttributes` field -/
theorem col_injective (f g : Fld) (h : f.col = g.col) : f = g := by
  cases f <;> cases g <;> first | rfl | (exact absurd h (by decide))

theorem key_injective (f g : Fld) (h : f.key = g.key) : f = g := by
  cases f <;> cases g <;> first | rfl | (exact absurd h (by decide))

/-- script info: every header the writer emits is understood by the reader as the same field -/
theorem info_roundtrip (f : SI) : siOfHeader f.header.toList = some f := by
  cases f <;> decide

/-! ### booleans -/

/-- what the writer emits for a boolean is read back as that boolean: true stays true -/
theorem bool_roundtrip (b : Bool) : (Val.ssa (.b b)).map (parseVal .bool) = some (.ok (.b b)) := by
  cases b <;> decide

/-- the value the format specification uses for true -/
theorem bool_minus_one : parseVal .bool "-1".toList = .ok (.b true) := by decide

theorem bool_zero : parseVal .bool "0".toList = .ok (.b false) := by decide

/-- an empty field leaves the attribute unset instead of failing the row (fix-4) -/
theorem empty_field_unset (st : Style) (attr : Str) : styleField st attr [] = .ok st := by
  simp [styleField]

/-! ### rows: commas -/

theorem splitC_ne_nil (c : Char) (s : Str) : splitC c s ≠ [] := by
  induction s with
  | nil => simp [splitC]
  | cons x xs ih =>
    unfold splitC
    split
    · simp
    · split
      · simp
      · simp

/-- joining what was split gives the text back -/
theorem join_splitC (c : Char) (s : Str) : join [c] (splitC c s) = s := by
  induction s with
  | nil => simp [splitC, join]
  | cons x xs ih =>
    unfold splitC
    split
    · rename_i h
      cases hs : splitC c xs with
      | nil => exact absurd hs (splitC_ne_nil c xs)
      | cons a t => rw [hs] at ih; simp [join, ih, h]
    · cases hs : splitC c xs with
      | nil => exact absurd hs (splitC_ne_nil c xs)
      | cons a t =>
        rw [hs] at ih
        cases t with
        | nil => simp [join] at ih ⊢; exact ih
        | cons b t' => simp [join] at ih ⊢; exact ih

/-- a row of comma-free cells followed by any last cell splits into these cells and the pieces of the last -/
theorem splitC_row (pre : List Str) (last : Str) (h : ∀ p ∈ pre, ',' ∉ p) :
    splitC ',' (join [','] (pre ++ [last])) = pre ++ splitC ',' last := by
  induction pre with
  | nil => simp [join]
  | cons p ps ih =>
    have hp : ',' ∉ p := h p (by simp)
    have ih' := ih (fun q hq => h q (by simp [hq]))
    cases hps : ps ++ [last] with
    | nil => simp at hps
    | cons b t =>
      rw [hps] at ih'
      show splitC ',' (join [','] (p :: (ps ++ [last]))) = p :: ps ++ splitC ',' last
      rw [hps]
      simp only [join]
      rw [show p ++ [','] ++ join [','] (b :: t) = p ++ ',' :: join [','] (b :: t) by simp]
      rw [splitC_append _ hp, ih']
      simp

/-- **Commas in the text are preserved.** Whatever the (non-empty) Format is, the last column takes
    the rest of the row: cells without commas followed by any text come back as they were. -/
theorem row_cells (pre : List Str) (last : Str) (h : ∀ p ∈ pre, ',' ∉ p) :
    absorb (pre.length + 1) (splitC ',' (join [','] (pre ++ [last]))) = pre ++ [last] := by
  rw [splitC_row pre last h]
  unfold absorb
  simp [join_splitC]

/-! ### event times -/

/-- the `HH:MM:SS.cc` written for any instant below 100 h is read back truncated to the centisecond -/
theorem event_time (t : Int) (h0 : 0 ≤ t) (h1 : t < 360000000000000) :
    Duration.parseSSA (Duration.formatSSA t) = some (t - t % 10000000) := C16.ssa_roundtrip t h0 h1

/-! ### ignored input -/

/-- nothing of an unknown section is looked at: any line that is not a section header leaves the
    reader's state as it is -/
theorem unknown_section_ignored (st : St) (raw : Str) (hs : st.sec = .unknown) (hf : st.first = false)
    (hh : (hasPrefix ['['] (trimSpace raw) && hasSuffix [']'] (trimSpace raw)) = false) :
    step st raw = .ok st := by
  unfold step
  simp only [hf, hs]
  by_cases he : (trimSpace raw).isEmpty
  · simp [he]
    cases st; simp_all
  · simp [he, hh]
    cases st; simp_all

/-- a line without `:` (that is not a section header or a comment) contributes nothing -/
theorem junk_line_ignored (st : St) (raw : Str) (hf : st.first = false)
    (hh : (hasPrefix ['['] (trimSpace raw) && hasSuffix [']'] (trimSpace raw)) = false)
    (hc : (trimSpace raw).head? ≠ some ';') (hcolon : ':' ∉ trimSpace raw) :
    step st raw = .ok st := by
  unfold step
  simp only [hf]
  have hsplit := splitC_not_mem hcolon
  by_cases he : (trimSpace raw).isEmpty
  · simp [he]
    cases st; simp_all
  · by_cases hu : st.sec = .unknown
    · simp [he, hh, hu]
      cases st; simp_all
    · simp [he, hh, hu, hc, hsplit]
      cases st; simp_all

/-- in `[Events]` an event other than `Dialogue` is skipped without being parsed, whatever its fields (fix-5) -/
theorem other_event_ignored (st : St) (header content : Str)
    (hfmt : st.format ≠ []) (hd : header ≠ "Dialogue".toList) (hF : header ≠ "Format".toList) :
    eventsLine st header content = .ok st := by
  have he : ¬ (st.format.isEmpty = true) := by
    cases hf : st.format with
    | nil => exact absurd hf hfmt
    | cons a t => simp
  unfold eventsLine
  rw [if_neg hF, if_neg he, if_pos hd]

/-- in a styles section only `Style:` lines are style rows (fix-6) -/
theorem other_style_line_ignored (st : St) (header content : Str)
    (hfmt : st.format ≠ []) (hd : header ≠ "Style".toList) (hF : header ≠ "Format".toList) :
    stylesLine st header content = .ok st := by
  have he : ¬ (st.format.isEmpty = true) := by
    cases hf : st.format with
    | nil => exact absurd hf hfmt
    | cons a t => simp
  unfold stylesLine
  rw [if_neg hF, if_neg he, if_pos hd]

/-- only `Dialogue` events become cues -/
theorem only_dialogues (lines : List Str) (s : Subs) (h : SSA.read lines = .ok s) :
    ∃ st, run {} lines = .ok st ∧
      s.items.length = (st.events.filter fun e => e.category = "Dialogue".toList).length := by
  unfold SSA.read at h
  split at h
  · rename_i st hst
    refine ⟨st, hst, ?_⟩
    cases h
    simp
  · cases h
  · cases h

/-! ### style references -/

/-- a `*`-prefixed style name refers to the style without the `*` -/
theorem star_style (ids : List Str) (n : Str) (h1 : n ∈ ids) (h2 : ('*' :: n) ∉ ids) :
    resolveStyle ids ('*' :: n) = some n := by
  simp [resolveStyle, trimPrefix, dropPrefix?, h1, h2]

/-- a style name that is defined refers to itself -/
theorem plain_style (ids : List Str) (n : Str) (h0 : n ≠ []) (h1 : n ∈ ids) :
    resolveStyle ids n = some n := by
  simp [resolveStyle, h0, h1]

/-- an undefined style name refers to nothing -/
theorem missing_style (ids : List Str) (n : Str) (h1 : n ∉ ids) (h2 : trimPrefix ['*'] n ∉ ids) :
    resolveStyle ids n = none := by
  simp [resolveStyle, h1, h2]

/-! ### writer -/

/-- an empty cue list is refused (`ErrNoSubtitlesToWrite`) -/
theorem write_empty (s : Subs) (h : s.items = []) : write s = .err := by
  simp [write, h]

/-- the writer's fixed events Format ends with `Text`, the column that may contain commas -/
theorem event_format_text_last (v : Bool) : (eventFormat v).getLast? = some "Text".toList := by
  cases v <;> simp [eventFormat]

/-- v4 writes `Marked`, v4+ writes `Layer` -/
theorem event_format_head (v : Bool) :
    (eventFormat v).head? = some (if v then "Layer".toList else "Marked".toList) := by
  cases v <;> simp [eventFormat]

/-! ### colours -/

theorem digitValBase_hexFin : ∀ d : Fin 16, digitValBase (hexDigitLower d.val) = some d.val := by decide
theorem hex_not_signFin : ∀ d : Fin 16, hexDigitLower d.val ≠ '-' ∧ hexDigitLower d.val ≠ '+' := by decide

theorem digitValBase_hex {n : Nat} (h : n < 16) : digitValBase (hexDigitLower n) = some n := digitValBase_hexFin ⟨n, h⟩
theorem hex_ne_minus {n : Nat} (h : n < 16) : hexDigitLower n ≠ '-' := (hex_not_signFin ⟨n, h⟩).1
theorem hex_ne_plus {n : Nat} (h : n < 16) : hexDigitLower n ≠ '+' := (hex_not_signFin ⟨n, h⟩).2

/-- eight hexadecimal digits parse to the number they spell -/
theorem parseInt_hex8 (c : Nat) (h : c < 4294967296) : parseIntBase 16 (hex8 c) = some (c : Int) := by
  have h7 : c / 0x10000000 % 16 < 16 := Nat.mod_lt _ (by decide)
  have h6 : c / 0x1000000 % 16 < 16 := Nat.mod_lt _ (by decide)
  have h5 : c / 0x100000 % 16 < 16 := Nat.mod_lt _ (by decide)
  have h4 : c / 0x10000 % 16 < 16 := Nat.mod_lt _ (by decide)
  have h3 : c / 0x1000 % 16 < 16 := Nat.mod_lt _ (by decide)
  have h2 : c / 0x100 % 16 < 16 := Nat.mod_lt _ (by decide)
  have h1 : c / 0x10 % 16 < 16 := Nat.mod_lt _ (by decide)
  have h0 : c % 16 < 16 := Nat.mod_lt _ (by decide)
  unfold parseIntBase hex8
  split
  rename_i x neg body heq
  split at heq
  · rename_i r heq2; simp at heq2; exact absurd heq2.1 (hex_ne_minus h7)
  · rename_i r heq2; simp at heq2; exact absurd heq2.1 (hex_ne_plus h7)
  · simp only [Prod.mk.injEq] at heq
    obtain ⟨hn, hb⟩ := heq
    subst hn; subst hb
    simp only [List.isEmpty_cons, Bool.false_eq_true, ↓reduceIte, digitsBase, digitValBase_hex h7, digitValBase_hex h6,
      digitValBase_hex h5, digitValBase_hex h4, digitValBase_hex h3, digitValBase_hex h2, digitValBase_hex h1, digitValBase_hex h0,
      h7, h6, h5, h4, h3, h2, h1, h0]
    have hv : (((((((0 * 16 + c / 0x10000000 % 16) * 16 + c / 0x1000000 % 16) * 16 + c / 0x100000 % 16) * 16 + c / 0x10000 % 16) * 16
      + c / 0x1000 % 16) * 16 + c / 0x100 % 16) * 16 + c / 0x10 % 16) * 16 + c % 16 = c := by
      have e1 : c / 16 / 16 = c / 256 := by rw [Nat.div_div_eq_div_mul]
      have e2 : c / 256 / 16 = c / 4096 := by rw [Nat.div_div_eq_div_mul]
      have e3 : c / 4096 / 16 = c / 65536 := by rw [Nat.div_div_eq_div_mul]
      have e4 : c / 65536 / 16 = c / 1048576 := by rw [Nat.div_div_eq_div_mul]
      have e5 : c / 1048576 / 16 = c / 16777216 := by rw [Nat.div_div_eq_div_mul]
      have e6 : c / 16777216 / 16 = c / 268435456 := by rw [Nat.div_div_eq_div_mul]
      have e7 : c / 268435456 / 16 = c / 4294967296 := by rw [Nat.div_div_eq_div_mul]
      omega
    rw [hv]
    have hle : c ≤ int64Max := by unfold int64Max; omega
    rw [if_pos hle]

/-- **Colours.** the `&Haabbggrr` the writer emits for any 32-bit colour is read back as that colour -/
theorem colour_roundtrip (c : Nat) (h : c < 4294967296) : parseColour (colourString c) = some c := by
  have e : "&H".toList = ['&', 'H'] := by decide
  unfold parseColour colourString
  rw [e]
  simp only [List.cons_append, List.nil_append, dropPrefix?, ↓reduceIte]
  rw [parseInt_hex8 c h]
  simp [colourOfInt]
  omega

end C04
end Astisub
