import Astisub.Lemmas.C13WRStrip
import Astisub.Lemmas.C13WRSsa

/-!
# C13 (write → read) — what is written after `Optimize` / `RemoveStyling` still reads back

`Props/C13.lean` proves `Optimize` on the *graph* model (`Model/Graph.lean`: references are identifier
chains).  The codecs work on the cue model `Subs` (`Model/Subs.lean`: references are identifiers, the
definitions carry a parent reference).  This file connects the two and proves the clause C13 left to
the streams: *the optimized list can still be written and read back with the same cues as before.*

* `graphOf`, `optimize_commutes`, `removeStyling_commutes` — the abstraction `Subs → Graph` the
  `ops.optimize` stream implicitly uses (harness `observeGraph`), and `Optimize` / `RemoveStyling` on
  `Subs` (`optimizeSubs`, `removeStylingSubs`: only definitions are removed / only styling is removed)
  commute with it.  No consistency hypothesis: dangling references and cyclic parent links included.
* `optimize_keeps`, `optimize_refs_resolve`, `optimize_twice`, `optimize_cues_untouched` — on `Subs`.
* `ttml_optimized_reads_back`, `vtt_optimized_reads_back`, `srt_optimized_same_document` — the
  write → read clause through `C03doc.write_read`, `C02doc2.write_read_doc`, `SRT.write`.
* `vtt_css_block_can_break` — the one proviso that is **not** preserved (see the report).
* `ssa_optimized_reads_back`, `ssa_star_default_corner` — SSA / ASS, and the corner where the cues read
  back differ (`*Default`).
* `removeStyling_clean`, `removeStyling_same`, `removeStyling_*_representable`, `…_reads_back`.
* `optimize_meets_spec` — loop model = declarative specification on every graph that comes from a cue list.

Not here: STL (its document theorems are stated on the STL types, not on `Subs`); `RemoveStyling` followed
by the SSA writer.

Provisos and a value satisfying each: `refsOk`, `styleIdsDistinct`, `TTMLDoc.rep`, `TTMLDoc.xmlCarries`
(`TTMLDoc.sample`); `VTT.DocOk` (`VTT.exDoc`); `ttmlPlainOk` (`TTMLDoc.sample`), `vttPlainOk` (`VTT.exDoc`).
-/

namespace Astisub
namespace C13doc
open Go List C13WR

/-! ### non-vacuity of the provisos -/

example : refsOk TTMLDoc.sample = true := by decide
example : styleIdsDistinct TTMLDoc.sample = true := by decide
example : refsOk VTT.exDoc = true := by decide
example : ttmlPlainOk TTMLDoc.sample = true := by decide
example : vttPlainOk VTT.exDoc = true := by decide
example : refsOk { items := [{ startAt := 0, endAt := 1, style := some "nowhere".toList, lines := [] }] } = false := by decide

/-- a list in which something goes and something stays only through inheritance: cue → `c` → `b` → `a`,
    its run → `e`, its region `r` → `f`; `d` (a sibling under `a`), region `q` and its style `g` are unused -/
def exGraph : Subs :=
  { items := [{ startAt := 0, endAt := 1000000000, style := some "c".toList, region := some "r".toList,
                lines := [{ items := [{ text := "x".toList, style := some "e".toList }] }] }],
    regions := [{ id := "r".toList, ref := some "f".toList }, { id := "q".toList, ref := some "g".toList }],
    styles := [{ id := "a".toList }, { id := "b".toList, ref := some "a".toList }, { id := "c".toList, ref := some "b".toList },
               { id := "d".toList, ref := some "a".toList }, { id := "e".toList }, { id := "f".toList }, { id := "g".toList }] }

example : optimizeSubs exGraph
    = { exGraph with
        regions := [{ id := "r".toList, ref := some "f".toList }],
        styles := [{ id := "a".toList }, { id := "b".toList, ref := some "a".toList }, { id := "c".toList, ref := some "b".toList },
                   { id := "e".toList }, { id := "f".toList }] } := by decide

/-! ### 1. the bridge between `Subs` and the graph model -/

/-- **What `graphOf` is.**  Every cue becomes: the identifier chain read through its style reference
    (`chainOf`: the identifier referred to, then the parent of the style it names, … cut at the first
    identifier met twice; a reference that names no definition is a chain of length one), its region
    identifier, and the chain of every run in reading order.  Every region / style definition becomes a
    map entry keyed by its identifier, holding the chain of its style / parent reference; attributes
    are forgotten. -/
theorem graphOf_fields (s : Subs) :
    (graphOf s).items = s.items.map (fun it =>
      { style := (chainOf s.styles it.style).map sid, region := it.region.map sid,
        runs := (it.lines.flatMap fun l => l.items.map (·.style)).map fun r => (chainOf s.styles r).map sid }) ∧
    (graphOf s).regions = s.regions.map (fun d =>
      (sid d.id, { id := sid d.id, style := (chainOf s.styles d.ref).map sid, tag := 0 })) ∧
    (graphOf s).styles = s.styles.map (fun d =>
      (sid d.id, { id := sid d.id, parent := (chainOf s.styles d.ref).map sid, tag := 0 })) :=
  ⟨rfl, rfl, rfl⟩

/-- the chain of a reference: nothing for no reference; otherwise the identifier referred to, followed
    by what is read through the parent reference of the (first) definition carrying it — never twice
    the same identifier -/
theorem chainOf_shape (st : List Def) :
    chainOf st none = [] ∧
    (∀ id, ∃ rest, chainOf st (some id) = id :: rest) ∧
    (∀ x, (chainOf st x).Nodup) ∧
    (∀ x id p, id ∈ chainOf st x → parentRef st id = some p → p ∈ chainOf st x) :=
  ⟨chainOf_none st, fun id => ⟨_, chainOf_some st id⟩, fun x => (chain_nodup st _ _ x).1,
   fun x id p h hp => chainOf_parent st x id h p hp⟩

/-- **What `optimizeSubs` is.**  An empty list is left alone.  Otherwise the cues and the metadata are
    untouched; the regions kept are those whose identifier some cue refers to; the styles kept are
    those whose identifier lies on the chain of a reference made by a cue, a run or a kept region. -/
theorem optimizeSubs_fields (s : Subs) :
    (s.items = [] → optimizeSubs s = s) ∧
    (optimizeSubs s).items = s.items ∧ (optimizeSubs s).metadata = s.metadata ∧
    (s.items ≠ [] →
      (optimizeSubs s).regions = s.regions.filter (fun d => decide (d.id ∈ s.items.filterMap (·.region))) ∧
      (optimizeSubs s).styles = s.styles.filter (fun d => decide (d.id ∈ usedStyleIds s))) ∧
    (∀ y, y ∈ usedStyleIds s ↔ ∃ r ∈ rootRefs s, y ∈ chainOf s.styles r) := by
  refine ⟨fun h => optimizeSubs_of_empty s (by simp [h]), optimizeSubs_items s, optimizeSubs_metadata s, ?_,
    fun y => mem_usedStyleIds⟩
  intro hne
  have he : s.items.isEmpty = false := by cases h : s.items <;> simp_all
  rw [optimizeSubs_of_ne s he]
  exact ⟨rfl, rfl⟩

/-- **Bridge (Optimize).**  Abstracting the optimized cue list gives exactly what the loop-faithful
    graph model of `Subtitles.Optimize` returns on the abstracted cue list — for every cue list with
    pairwise distinct style identifiers: any references (dangling ones too), any parent links
    (cycles too: no `Consistent` hypothesis is needed on the image of `graphOf`). -/
theorem optimize_commutes (s : Subs) (hnd : styleIdsDistinct s = true) :
    Graph.optimize (graphOf s) = graphOf (optimizeSubs s) :=
  optimize_graphOf s (by simpa [styleIdsDistinct] using hnd)

/-- **Model = specification on the image.**  On every graph that comes from a cue list the loop model
    equals the declarative closure `Spec.optimizeSpec` — with no hypothesis at all.  `C13.optimize_spec`
    needs `Consistent`; the chains of `graphOf exCycle` (two styles that are each other's parent) are not
    consistent, yet the equality holds there too. -/
theorem optimize_meets_spec (s : Subs) : Graph.optimize (graphOf s) = Spec.optimizeSpec (graphOf s) :=
  optimize_spec_graphOf s

/-- a cue styled `a`, its run styled `b`, `a` and `b` each other's parent, `c` unused -/
def exCycle : Subs :=
  { items := [{ startAt := 0, endAt := 1, style := some "a".toList,
                lines := [{ items := [{ text := "x".toList, style := some "b".toList }] }] }],
    styles := [{ id := "a".toList, ref := some "b".toList }, { id := "b".toList, ref := some "a".toList }, { id := "c".toList }] }

example : Spec.consistentB (graphOf exCycle) = false := by decide
example : (graphOf exCycle).items = [{ style := ["a", "b"], region := none, runs := [["b", "a"]] }] := by decide
example : (optimizeSubs exCycle).styles = [{ id := "a".toList, ref := some "b".toList }, { id := "b".toList, ref := some "a".toList }] := by
  decide

/-- **Bridge (RemoveStyling).**  The same for `RemoveStyling`, for every cue list. -/
theorem removeStyling_commutes (s : Subs) : Graph.removeStyling (graphOf s) = graphOf (removeStylingSubs s) :=
  removeStyling_graphOf s

/-! ### 2. `Optimize` on `Subs` -/

/-- cues are untouched — in particular everything the harness snapshots (`same=`): instants, numbers,
    voices, run texts and in-cue instants -/
theorem optimize_cues_untouched (s : Subs) :
    (optimizeSubs s).items = s.items ∧ cueShot (optimizeSubs s) = cueShot s :=
  ⟨optimizeSubs_items s, cueShot_optimizeSubs s⟩

/-- **Only definitions go, and only unused ones.**  The definition lists after `Optimize` are sublists
    of those before (same order, every kept definition unchanged); on a list with at least one cue a
    style is kept iff its identifier is reachable, a region iff some cue refers to it. -/
theorem optimize_keeps (s : Subs) :
    (optimizeSubs s).styles <+ s.styles ∧ (optimizeSubs s).regions <+ s.regions ∧
    (s.items.isEmpty = false → ∀ d,
      (d ∈ (optimizeSubs s).styles ↔ d ∈ s.styles ∧ d.id ∈ usedStyleIds s) ∧
      (d ∈ (optimizeSubs s).regions ↔ d ∈ s.regions ∧ d.id ∈ usedRegionIds s)) :=
  ⟨optimizeSubs_styles_sublist s, optimizeSubs_regions_sublist s,
   fun he d => ⟨mem_optimizeSubs_styles s he d, mem_optimizeSubs_regions s he d⟩⟩

/-- **Every reference still resolves.**  If every reference made in the list names a definition
    (`refsOk`: style of a cue / run / region, parent of a style, region of a cue) and style identifiers
    are pairwise distinct, the same holds after `Optimize`. -/
theorem optimize_refs_resolve (s : Subs) (hnd : styleIdsDistinct s = true) (h : refsOk s = true) :
    refsOk (optimizeSubs s) = true ∧ styleIdsDistinct (optimizeSubs s) = true := by
  refine ⟨refsOk_optimizeSubs s hnd h, ?_⟩
  simp only [styleIdsDistinct, decide_eq_true_eq] at hnd ⊢
  exact hnd.sublist ((optimizeSubs_styles_sublist s).map _)

/-- … reference by reference, without asking anything of the other references: a style that was
    defined and is referred to by a cue, by a run, by a kept region, or (identifiers distinct) as the
    parent of a kept style is still defined; so is a region a cue refers to. -/
theorem optimize_ref_kept (s : Subs) :
    (∀ it ∈ s.items, ∀ v, some v ∈ itemRefs it → v ∈ s.styles.map (·.id) → v ∈ (optimizeSubs s).styles.map (·.id)) ∧
    (∀ it ∈ s.items, ∀ v, it.region = some v → v ∈ s.regions.map (·.id) → v ∈ (optimizeSubs s).regions.map (·.id)) ∧
    (∀ d ∈ (optimizeSubs s).regions, ∀ v, d.ref = some v → v ∈ s.styles.map (·.id) → v ∈ (optimizeSubs s).styles.map (·.id)) ∧
    ((s.styles.map (·.id)).Nodup →
      ∀ d ∈ (optimizeSubs s).styles, ∀ v, d.ref = some v → v ∈ s.styles.map (·.id) → v ∈ (optimizeSubs s).styles.map (·.id)) :=
  ⟨fun it hit v hr hv => itemRef_kept s it hit v hr hv, fun it hit v hr hv => itemRegion_kept s it hit v hr hv,
   fun d hd v hr hv => regionRef_kept s d hd v hr hv, fun hnd d hd v hr hv => styleRef_kept s hnd d hd v hr hv⟩

/-- doing it twice changes nothing more (every cue list) -/
theorem optimize_twice (s : Subs) : optimizeSubs (optimizeSubs s) = optimizeSubs s := optimizeSubs_idem s

/-! ### 3. the optimized list is written and read back -/

/-- the two TTML provisos survive `Optimize` -/
theorem ttml_proviso_kept (s : Subs) :
    (TTMLDoc.rep s = true → TTMLDoc.rep (optimizeSubs s) = true) ∧
    (TTMLDoc.xmlCarries s = true → TTMLDoc.xmlCarries (optimizeSubs s) = true) :=
  ⟨rep_optimizeSubs s, xmlCarries_optimizeSubs s⟩

/-- **TTML.**  For every cue list TTML can carry (`TTMLDoc.rep`: at least one cue, distinct identifiers,
    references empty or defined, instants in `[0, 100 h)`, …; XML-legal character data): the optimized
    list is written by `WriteToTTML`, `ReadFromTTML` of what `encoding/xml` delivers for it (the
    contract of `C03doc`, any inner-XML bytes `ix`) returns `norm (optimizeSubs s)`, the un-optimized
    list reads back as `norm s`, and the two results have the same cues and the same metadata; the
    styles / regions read back are the read-back forms of exactly the kept definitions. -/
theorem ttml_optimized_reads_back (ix : List TTML.XTok → Str) (s : Subs) (h : TTMLDoc.rep s = true)
    (hl : TTMLDoc.xmlCarries s = true) :
    (∃ w, TTML.write (optimizeSubs s) = some w ∧
      TTML.read (TTMLDoc.unmarshal ix w) = .ok (TTMLDoc.norm (optimizeSubs s))) ∧
    (∃ w₀, TTML.write s = some w₀ ∧ TTML.read (TTMLDoc.unmarshal ix w₀) = .ok (TTMLDoc.norm s)) ∧
    (TTMLDoc.norm (optimizeSubs s)).items = (TTMLDoc.norm s).items ∧
    (TTMLDoc.norm (optimizeSubs s)).metadata = (TTMLDoc.norm s).metadata ∧
    (∀ d, d ∈ (TTMLDoc.norm (optimizeSubs s)).styles ↔
      ∃ d₀ ∈ s.styles, d₀.id ∈ usedStyleIds s ∧ TTMLDoc.normDef d₀ = d) ∧
    (∀ d, d ∈ (TTMLDoc.norm (optimizeSubs s)).regions ↔
      ∃ d₀ ∈ s.regions, d₀.id ∈ usedRegionIds s ∧ TTMLDoc.normDef d₀ = d) := by
  have he : s.items.isEmpty = false := (C03doc.rep_attrsOkAll s h).1
  refine ⟨C03doc.write_read ix _ (rep_optimizeSubs s h) (xmlCarries_optimizeSubs s hl),
    C03doc.write_read ix s h hl, ?_, ?_, ?_, ?_⟩
  · simp only [TTMLDoc.norm, optimizeSubs_items]
  · simp only [TTMLDoc.norm, optimizeSubs_metadata]
  · intro d
    simp only [TTMLDoc.norm, mem_map]
    constructor
    · rintro ⟨d₀, hd₀, rfl⟩
      have := (mem_optimizeSubs_styles s he d₀).mp ((mergeSort_perm _ _).mem_iff.mp hd₀)
      exact ⟨d₀, this.1, this.2, rfl⟩
    · rintro ⟨d₀, h1, h2, rfl⟩
      exact ⟨d₀, (mergeSort_perm _ _).mem_iff.mpr ((mem_optimizeSubs_styles s he d₀).mpr ⟨h1, h2⟩), rfl⟩
  · intro d
    simp only [TTMLDoc.norm, mem_map]
    constructor
    · rintro ⟨d₀, hd₀, rfl⟩
      have := (mem_optimizeSubs_regions s he d₀).mp ((mergeSort_perm _ _).mem_iff.mp hd₀)
      exact ⟨d₀, this.1, this.2, rfl⟩
    · rintro ⟨d₀, h1, h2, rfl⟩
      exact ⟨d₀, (mergeSort_perm _ _).mem_iff.mpr ((mem_optimizeSubs_regions s he d₀).mpr ⟨h1, h2⟩), rfl⟩

/-- **WebVTT.**  For every cue list WebVTT can carry (`VTT.DocOk`) whose CSS block can still be closed
    after `Optimize` (`styleEndOk (optimizeSubs s)`: the last CSS line that is left ends with `}` — see
    `vtt_css_block_can_break`): the optimized list is written, the text has no carriage return, the
    reader returns `wanted2 (optimizeSubs s)`; the cues in it are exactly those read back from the
    un-optimized list (every setting was resolved through a style that is kept), and every kept region
    is read back with the attributes it had before. -/
theorem vtt_optimized_reads_back (s : Subs) (hok : VTT.DocOk s = true)
    (hend : VTT.styleEndOk (optimizeSubs s) = true) :
    (∃ doc, VTT.write (optimizeSubs s) = some doc ∧ '\r' ∉ doc ∧
      VTT.read (VTT.textLines doc) = .ok (VTT.wanted2 (optimizeSubs s))) ∧
    (∃ doc₀, VTT.write s = some doc₀ ∧ VTT.read (VTT.textLines doc₀) = .ok (VTT.wanted2 s)) ∧
    (VTT.wanted2 (optimizeSubs s)).items = (VTT.wanted2 s).items ∧
    (VTT.wanted2 (optimizeSubs s)).metadata = (VTT.wanted2 s).metadata ∧
    (VTT.wanted2 (optimizeSubs s)).regions = (VTT.sortDefs (optimizeSubs s).regions).map (VTT.readRegion s) := by
  refine ⟨C02doc2.write_read_doc _ (docOk_optimizeSubs s hok hend), ?_, wanted2_items_optimizeSubs s, ?_,
    wanted2_regions_optimizeSubs s⟩
  · obtain ⟨doc, h1, _, h3⟩ := C02doc2.write_read_doc s hok
    exact ⟨doc, h1, h3⟩
  · simp only [VTT.wanted2, VTT.tsmapVal, optimizeSubs_metadata]

/-- the region a cue refers to is still defined before it is used in the written WebVTT document
    (the reader's "Unknown region" error cannot occur) -/
theorem vtt_optimized_region_defined (s : Subs) (hok : VTT.DocOk s = true)
    (hend : VTT.styleEndOk (optimizeSubs s) = true) (it : CItem) (hit : it ∈ s.items) (r : Str)
    (hr : it.region = some r) :
    ∃ d ∈ (optimizeSubs s).regions, d.id = r ∧ VTT.regionLine (optimizeSubs s) d ∈ VTT.regionBlock (optimizeSubs s) := by
  obtain ⟨d, hd, hid, _, _, _, hin, _⟩ := C02doc2.region_defined_before_use _ (docOk_optimizeSubs s hok hend) it
    (by rw [optimizeSubs_items]; exact hit) r hr
  exact ⟨d, hd, hid, hin⟩

/-- **`DocOk` alone is not preserved.**  `cssSplit` (one cue referring to style `a` whose CSS is
    `::cue {`; the closing `}` is the CSS of style `b`, which nothing refers to) satisfies `DocOk`;
    `Optimize` deletes `b`, the CSS block that is left cannot be closed, `DocOk` fails: in the reader
    model a `STYLE` block whose last line does not end with `}` is not ended by the blank line after it. -/
theorem vtt_css_block_can_break :
    VTT.DocOk cssSplit = true ∧ VTT.styleEndOk (optimizeSubs cssSplit) = false ∧
    VTT.DocOk (optimizeSubs cssSplit) = false ∧
    VTT.styleLines cssSplit = ["::cue {".toList, "}".toList] ∧
    VTT.styleLines (optimizeSubs cssSplit) = ["::cue {".toList] :=
  ⟨docOk_not_preserved.1, docOk_not_preserved.2.1, docOk_not_preserved.2.2, cssSplit_styleLines, cssSplit_styleLines_opt⟩

/-- **SubRip** does not look at definitions: the optimized list is written to the very same document
    (so `C01doc.read_write` applies unchanged) -/
theorem srt_optimized_same_document (s : Subs) :
    SRT.write (optimizeSubs s) = SRT.write s ∧ SRTDoc.Rep (optimizeSubs s) = SRTDoc.Rep s ∧
    SRTDoc.norm (optimizeSubs s) = SRTDoc.norm s := by
  simp only [SRT.write, SRTDoc.Rep, SRTDoc.norm, optimizeSubs_items, and_self]

/-! ### 4. `RemoveStyling` on `Subs` -/

/-- **Clean.**  No region, no style; no cue has a style reference, a region reference or inline
    attributes; no run has a style reference or inline attributes. -/
theorem removeStyling_clean (s : Subs) :
    (removeStylingSubs s).regions = [] ∧ (removeStylingSubs s).styles = [] ∧
    ∀ it ∈ (removeStylingSubs s).items, it.style = none ∧ it.region = none ∧ it.attrs = none ∧
      ∀ l ∈ it.lines, ∀ li ∈ l.items, li.style = none ∧ li.attrs = none := by
  refine ⟨rfl, rfl, ?_⟩
  intro it hit
  obtain ⟨it0, _, rfl⟩ := mem_map.mp hit
  refine ⟨rfl, rfl, rfl, ?_⟩
  intro l hl li hli
  obtain ⟨l0, _, rfl⟩ := mem_map.mp hl
  obtain ⟨li0, _, rfl⟩ := mem_map.mp hli
  exact ⟨rfl, rfl⟩

/-- **Same.**  Cue by cue, in order: number, instants and comments; line by line the voice; run by run the
    text and the in-cue instant — all as before (the harness's `same=` snapshot is `cueShot`); the
    metadata too. -/
theorem removeStyling_same (s : Subs) :
    cueShot (removeStylingSubs s) = cueShot s ∧
    (removeStylingSubs s).items.map (·.comments) = s.items.map (·.comments) ∧
    (removeStylingSubs s).metadata = s.metadata := by
  refine ⟨cueShot_removeStylingSubs s, ?_, rfl⟩
  simp [removeStylingSubs, stripItem, Function.comp_def]

/-- a list without references trivially has all its references resolved -/
theorem removeStyling_refs_resolve (s : Subs) : refsOk (removeStylingSubs s) = true := by
  simp only [refsOk, removeStylingSubs, Bool.and_eq_true, all_eq_true, all_nil, and_true, map_nil]
  intro it hit
  obtain ⟨it0, _, rfl⟩ := mem_map.mp hit
  refine ⟨?_, rfl⟩
  intro r hr
  have : r = none := by
    simp only [itemRefs, runRefs_stripItem, mem_cons, mem_map] at hr
    rcases hr with h | ⟨_, _, h⟩
    · exact h
    · exact h.symm
  subst this; rfl

/-- **Representable whenever times and text are (TTML).**  After `RemoveStyling` the TTML proviso is
    exactly `ttmlPlainOk`: at least one cue, instants in `[0, 100 h)`, no line feed inside a run.  In
    particular a list TTML could carry with its styling can be carried without. -/
theorem removeStyling_ttml_representable (s : Subs) :
    TTMLDoc.rep (removeStylingSubs s) = ttmlPlainOk s ∧
    (TTMLDoc.rep s = true → TTMLDoc.rep (removeStylingSubs s) = true) ∧
    (TTMLDoc.xmlCarries s = true → TTMLDoc.xmlCarries (removeStylingSubs s) = true) :=
  ⟨rep_removeStylingSubs s, rep_removeStylingSubs_of_rep s, xmlCarries_removeStylingSubs s⟩

/-- … and it is written and read back -/
theorem removeStyling_ttml_reads_back (ix : List TTML.XTok → Str) (s : Subs) (h : ttmlPlainOk s = true)
    (hl : TTMLDoc.xmlCarries s = true) :
    ∃ w, TTML.write (removeStylingSubs s) = some w ∧
      TTML.read (TTMLDoc.unmarshal ix w) = .ok (TTMLDoc.norm (removeStylingSubs s)) :=
  C03doc.write_read ix _ (by rw [rep_removeStylingSubs]; exact h) (xmlCarries_removeStylingSubs s hl)

/-- **Representable whenever times and text are (WebVTT).**  After `RemoveStyling` the WebVTT proviso
    `DocOk` is exactly `vttPlainOk`: at least one and at most `int64` cues; per cue the comment block,
    the instants and — on the lines stripped of their attributes — voice and text; the timestamp map
    of the metadata.  No condition on regions, styles, settings or tags is left. -/
theorem removeStyling_vtt_representable (s : Subs) : VTT.DocOk (removeStylingSubs s) = vttPlainOk s :=
  docOk_removeStylingSubs s

/-- … and it is written and read back -/
theorem removeStyling_vtt_reads_back (s : Subs) (h : vttPlainOk s = true) :
    ∃ doc, VTT.write (removeStylingSubs s) = some doc ∧ '\r' ∉ doc ∧
      VTT.read (VTT.textLines doc) = .ok (VTT.wanted2 (removeStylingSubs s)) :=
  C02doc2.write_read_doc _ (by rw [docOk_removeStylingSubs]; exact h)

/-- **Representable whenever times and text are (SubRip).**  `SRTDoc.Rep` only looks at the cues: after
    `RemoveStyling` it is the proviso of the stripped cues. -/
theorem removeStyling_srt_representable (s : Subs) :
    SRTDoc.Rep (removeStylingSubs s)
      = (!s.items.isEmpty && decide (s.items.length ≤ int64Max) && s.items.all fun it => SRTDoc.RepItem (stripItem it)) :=
  srtRep_removeStylingSubs s

/-! ### 5. SSA / ASS -/

/-- the SSA proviso survives `Optimize` -/
theorem ssa_proviso_kept (s : Subs) (h : SSA.RepRead s) : SSA.RepRead (optimizeSubs s) := repRead_optimizeSubs s h

example : SSA.RepRead C04doc2.exDoc := C04doc2.exDoc_repFix.1

/-- **SSA / ASS.**  For every cue list SSA can carry (`SSA.RepRead`): whatever `WriteToSSA` answers for the
    optimized list is read back as `SSA.norm (optimizeSubs s)`.  If moreover the style every cue names
    is defined and no cue is styled `*Default`, the cues read back are those read back from the
    un-optimized list. -/
theorem ssa_optimized_reads_back (s : Subs) (out : Str) (hr : SSA.RepRead s)
    (hw : SSA.write (optimizeSubs s) = .ok out) :
    SSA.read (splitC '\n' out) = .ok (SSA.norm (optimizeSubs s)) ∧
    ((∀ it ∈ s.items, ∀ v, it.style = some v → v ∈ s.styles.map (·.id)) →
     (∀ it ∈ s.items, it.style ≠ some "*Default".toList) →
      (SSA.norm (optimizeSubs s)).items = (SSA.norm s).items) :=
  ⟨C04doc2.write_read _ out (repRead_optimizeSubs s hr) hw, ssaNorm_items_optimizeSubs s⟩

/-- **The `*Default` corner.**  `ssaEvent` renames the style `*Default` to `Default` when a cue is written.
    `starDefault` has a cue styled `*Default` and an unused style `Default`: read back from SSA the cue
    names `Default` before `Optimize`; `Optimize` deletes `Default` and the cue read back names no
    style.  Hence the hypothesis above. -/
theorem ssa_star_default_corner :
    (SSA.norm starDefault).items.map (·.style) = [some "Default".toList] ∧
    (SSA.norm (optimizeSubs starDefault)).items.map (·.style) = [none] := ssa_star_default_differs

end C13doc
end Astisub
