import Astisub.Lemmas.TTMLW2Back
import Astisub.Lemmas.TTMLW2Indent
import Astisub.Props.C03doc

/-!
# C03 (W2) — TTML: the independent decoder reads what the writer wrote

The `ttml.write` case of `Driver.handleTTML` evaluates, for every cue list `s` with `Driver.TTMLD.rep s`:

    toksOk ∧ (decode (specToks toks) = some d ∧ normDoc d = docOf s) ∧ (the reader's answer b: readOk (docOf s) b ∧ …)

where `toks` are the name-space-resolved tokens of the written bytes; the model's answer that is compared with them
(indentation dropped) is `resolve w`, `w = TTML.write s`.  This file proves the **first clause for the model's answer**:
for every cue list of the decidable class `TTMLW2.repW`, the independent decoder `Spec.TTML.decode` (written from the TTML
description) run on `specToks (resolve w)` accepts and returns a document whose normal form is exactly `docOf s`.
It then adds the second clause for the reader model's answer, and carries the first clause over to the indented tokens.

**Route.**  Direct (Route A): the decoder's state machine is run over the writer's token sequence — root element,
`metadata`, `styling`, `layout`, every `p` with its `span`s and `br`s — and its final checks are discharged.  **No
contract about `encoding/xml` is used**: the statement is about the two pure functions `TTML.write` and
`Spec.TTML.decode` and the driver's `resolve` / `specToks`.

**The class** `repW s` (`Lemmas/TTMLW2Doc.lean`) = the proviso of the check (`Driver.TTMLD.rep s`) and in addition
* at least one cue (otherwise `WriteToTTML` refuses), style / region identifiers pairwise distinct (map keys in Go; the
  decoder rejects a document that defines an identifier twice);
* `zIndex` in canonical integer form (`*int` in Go: always canonical there), `needs_zcanon`;
* no line feed in the text of a run (known finding `ttml-newline-in-text-becomes-line-break`, `needs_text`), in an
  attribute value, an identifier or a reference (`needs_attr`: the decoder's class excludes a line feed in any
  attribute value, `Driver.TTMLD.rep` does not — see the report).
Instants: any `0 ≤ t` (hour fields of any width), as in `Driver.TTMLD.rep`.

* `decode_write`      — MAIN.
* `writeFirst_model`  — MAIN as the first clause of the driver's predicate.
* `writeCheck_model`  — the whole predicate (both clauses) for the model's answers `resolve w` and `TTMLDoc.norm s`, on the
  class `repB` = `repW` + every `zIndex` within 64 bits + instants below 100 h (the class of `C03doc.write_read`); only
  the conjunct "the reader model answers `norm s`" uses the `encoding/xml` contract `TTMLDoc.unmarshal` (it is
  `C03doc.write_read`).  `classes`: `repB → repW ∧ Driver.TTMLD.rep ∧ TTMLDoc.rep`; `read_back`: `readOk (docOf s) (norm s)`.
* `indentation`       — for ALL token lists: the decoder's answer does not change when the indentation tokens that
  `Driver.TTMLD.dropIndent` removes are removed (`indentOk`); `writeFirst_agree`: hence the first clause holds on the tokens
  of the written bytes whenever they agree with the model's answer.
* layer by layer: `tokens`, `time`, `styling_attributes`, `definition`, `paragraph_start`, `span_start`, `root`,
  `state_machine`, `final_checks`, `normal_form`.
-/

namespace Astisub
namespace C03w2
open Go TTML TTMLW2
open Driver.TTMLD (specToks resolve docOf normDoc ttmlAttrsOf)

/-! ## 0. the class is inhabited; its extra provisos are needed -/

/-- two styles (one with a parent, a colour and a `zIndex`), a region, a cue with a style, a region, an inline attribute,
    three lines (the second one empty), an empty run, white space; a cue without lines; language and title -/
def sample : Subs :=
  { items := [{ startAt := 1500000001, endAt := 359999999999999, style := some "b".toList, region := some "r".toList, attrs := some [("TTMLOrigin".toList, "10% 20%".toList)], lines := [{ items := [{ text := "x".toList, style := some "a".toList }, { text := [], attrs := some [("TTMLColor".toList, "blue".toList)] }] }, { items := [] }, { items := [{ text := " y ".toList }] }] }, { startAt := 0, endAt := 1, lines := [] }],
    styles := [{ id := "b".toList, ref := some "a".toList }, { id := "a".toList, attrs := some [("TTMLColor".toList, "red".toList), ("TTMLZIndex".toList, "-7".toList)] }],
    regions := [{ id := "r".toList, ref := some "a".toList }],
    metadata := some [("Language".toList, "french".toList), ("Title".toList, "T".toList)] }

set_option maxRecDepth 100000 in
/-- non-vacuity of both classes: `repW`, and `repB` = `repW` + every `zIndex` within 64 bits + instants below 100 h -/
theorem sample_ok : repW sample = true ∧ zFitAll sample = true ∧ timeAll sample = true := by decide +kernel

/-- on `s`: the writer answers and the decoder does **not** return `docOf s` -/
def refutes (s : Subs) : Bool :=
  match write s with
  | some w => decide ((Spec.TTML.decode (specToks (resolve w))).map normDoc ≠ some (docOf s))
  | none => false

def plain : CItem := { startAt := 0, endAt := 1000000, lines := [{ items := [{ text := "x".toList }] }] }

/-- an instant of 100 h and more (three-digit hour field) -/
def sampleLong : Subs := { items := [{ plain with startAt := 360000000000000, endAt := 3600000000000000001 }] }

set_option maxRecDepth 100000 in
example : repW sampleLong = true ∧ timeAll sampleLong = false := by decide +kernel


/-- a line feed in the text of a run (the known finding): the decoder rejects the document -/
def cexText : Subs := { items := [{ plain with lines := [{ items := [{ text := "a\nb".toList }] }] }] }
/-- a line feed in an attribute value: outside the decoder's class -/
def cexAttr : Subs := { items := [{ plain with attrs := some [("TTMLColor".toList, "a\nb".toList)] }] }
/-- a `zIndex` that is an integer but not in canonical form: the decoder answers the canonical form -/
def cexZ : Subs := { items := [{ plain with attrs := some [("TTMLZIndex".toList, "+7".toList)] }] }

set_option maxRecDepth 100000 in
/-- every proviso of `repW` about line feeds and `zIndex` is needed: without it the decoder does not return `docOf s` -/
theorem needs_text : refutes cexText = true := by decide +kernel
set_option maxRecDepth 100000 in
theorem needs_attr : refutes cexAttr = true := by decide +kernel
set_option maxRecDepth 100000 in
theorem needs_zcanon : refutes cexZ = true := by decide +kernel

set_option maxRecDepth 100000 in
/-- the check's own proviso `Driver.TTMLD.rep` excludes the last two (it was tightened after this pass found them:
    no line feed in attribute values, identifiers and references; canonical `zIndex`; distinct identifiers); a line
    feed in a run's text is the recorded known finding and stays inside `rep` -/
theorem rep_excludes : Driver.TTMLD.rep cexAttr = false ∧ Driver.TTMLD.rep cexZ = false ∧ Driver.TTMLD.rep cexText = true := by
  decide +kernel

set_option maxRecDepth 100000 in
/-- the proviso of the write → read theorem (`TTMLDoc.rep`, `C03doc.write_read`) does not exclude the last two either:
    it asks for an integer `zIndex`, not a canonical one, and says nothing about line feeds in attribute values -/
theorem docRep_not_enough : TTMLDoc.rep cexZ = true ∧ TTMLDoc.rep cexAttr = true := by decide +kernel

/-! ## 1. MAIN -/

/-- **W2 for TTML.**  For every cue list `s` of the class `repW`: `WriteToTTML` (model) succeeds with an element tree
    `w`, and the independent decoder, run on the tokens the driver prints for it (`specToks (resolve w)`: names resolved
    to name spaces, no indentation), accepts and returns `docW s` — the cues in order with both instants truncated to
    the millisecond (exact rationals with denominator 1), their style / region references, styling attributes and
    lines of runs (text, style reference, styling attributes; a cue without lines has one empty line); the styles and
    the regions in identifier order; title, copyright and the language code — and the normal form of that document
    is the document `docOf s` the `ttml.write` check expects.  No assumption about `encoding/xml`. -/
theorem decode_write (s : Subs) (h : repW s = true) :
    ∃ w, write s = some w ∧ Spec.TTML.decode (specToks (resolve w)) = some (docW s) ∧ normDoc (docW s) = docOf s := by
  simp only [repW, Bool.and_eq_true, List.all_eq_true, decide_eq_true_eq, Bool.not_eq_true'] at h
  obtain ⟨⟨⟨⟨⟨⟨hrep, hne⟩, hsn⟩, hrn⟩, hst⟩, hrg⟩, hit⟩ := h
  refine ⟨_, TTMLDoc.write_eq s hne, ?_, normDoc_docW s⟩
  obtain ⟨buf, hrun⟩ := run_written s hst hrg hit _ (TTMLDoc.write_eq s hne)
  rw [specToks_resolve]
  exact decode_of_run _ _ hrun rfl (finalOk_docW s hrep hsn hrn)

/-- the first clause of the predicate of the `ttml.write` case of `Driver.handleTTML`, on the tokens `toks` -/
def writeFirst (s : Subs) (toks : List XTok) (toksOk : Bool) : Bool :=
  toksOk &&
  (match Spec.TTML.decode (specToks toks) with
   | some d => normDoc d == docOf s
   | none => false)

/-- **The first clause of the driver's predicate holds for the model's answer.** -/
theorem writeFirst_model (s : Subs) (h : repW s = true) :
    ∃ w, write s = some w ∧ writeFirst s (resolve w) true = true := by
  obtain ⟨w, hw, hd, hn⟩ := decode_write s h
  refine ⟨w, hw, ?_⟩
  simp only [writeFirst, hd, hn, Bool.true_and, beq_self_eq_true]

/-! ## 2. the whole predicate of the `ttml.write` check, for the model's answers -/

/-- the predicate of the `ttml.write` case of `Driver.handleTTML` once the answer has been parsed: `toks` / `toksOk` the
    tokens of the written bytes, `back` what the reader answered on them (`none`: not `ok` + a cue list) -/
def writeCheck (s : Subs) (toks : List XTok) (toksOk : Bool) (back : Option Subs) : Bool :=
  if !Driver.TTMLD.rep s then true else
  let want := docOf s
  toksOk &&
  (match Spec.TTML.decode (specToks toks) with
   | some d => normDoc d == want
   | none => false) &&
  (match back with
   | some b => Driver.TTMLD.readOk want b && b.items.length == s.items.length
   | none => false)

/-- non-vacuity of the larger class -/
example : repB sample = true := by
  simp only [repB, sample_ok.1, sample_ok.2.1, sample_ok.2.2, Bool.and_self]

/-- **The classes.**  `repB s` (this file) implies both the proviso of the check (`Driver.TTMLD.rep`) and the proviso of
    the write → read theorem `C03doc.write_read` (`TTMLDoc.rep`); `repW s` is `repB s` without the 64-bit bound. -/
theorem classes (s : Subs) (h : repB s = true) :
    repW s = true ∧ Driver.TTMLD.rep s = true ∧ TTMLDoc.rep s = true := by
  have hw : repW s = true := by
    simp only [repB, Bool.and_eq_true] at h; exact h.1.1
  refine ⟨hw, ?_, rep_of_repB s h⟩
  simp only [repW, Bool.and_eq_true] at hw
  exact hw.1.1.1.1.1.1

/-- **The second clause for the model's answer**: the cue list `TTMLDoc.norm s` the reader model returns for the
    written document passes `readOk` against `docOf s`, and has as many cues as `s`. -/
theorem read_back (s : Subs) (h : repB s = true) :
    Driver.TTMLD.readOk (docOf s) (TTMLDoc.norm s) = true ∧ (TTMLDoc.norm s).items.length = s.items.length :=
  ⟨readOk_norm s h, by simp [TTMLDoc.norm]⟩

/-- **The `ttml.write` predicate holds for the model's answers.**  For every cue list of the class `repB`: the writer
    model answers `w`; the reader model, fed with what `encoding/xml` delivers for the written tree (the contract
    `TTMLDoc.unmarshal ix`, for every `ix`: the only assumption, and only this conjunct depends on it), answers
    `norm s`; and the predicate of the check, evaluated on the model's tokens `resolve w` and on that answer, is true:
    the independent decoder returns `docOf s` up to the order of definitions, and the re-read cue list passes `readOk`
    against `docOf s` with the same number of cues. -/
theorem writeCheck_model (ix : List XTok → Str) (s : Subs) (h : repB s = true) :
    ∃ w, write s = some w ∧ TTML.read (TTMLDoc.unmarshal ix w) = .ok (TTMLDoc.norm s) ∧
      writeCheck s (resolve w) true (some (TTMLDoc.norm s)) = true := by
  obtain ⟨hw, hrep, hdoc⟩ := classes s h
  obtain ⟨w, hwr, hd, hn⟩ := decode_write s hw
  obtain ⟨hne, hok⟩ := C03doc.rep_attrsOkAll s hdoc
  obtain ⟨w', hw', hu⟩ := TTMLDoc.unmarshal_write ix s hne hok
  have e : w' = w := by rw [hwr] at hw'; exact (Option.some.inj hw').symm
  subst e
  obtain ⟨hb1, hb2⟩ := read_back s h
  refine ⟨w', hwr, by rw [hu]; exact TTMLDoc.read_tinOfSubs ix s hdoc, ?_⟩
  simp only [writeCheck, hrep, Bool.not_true, Bool.false_eq_true, if_false, hd, hn, beq_self_eq_true, hb1, hb2,
    Bool.and_self]

/-! ## 3. from the model's tokens to the tokens of the written bytes: indentation -/

def st (n : String) (a : List TTMLW2.XAttr) : XTok := .start [] n.toList a
def en (n : String) : XTok := .stop [] n.toList
def tx (s : String) : XTok := .text s.toList
def at_ (sp : Str) (n v : String) : TTMLW2.XAttr := (sp, n.toList, v.toList)

/-- a document as `Encoder.Indent` lays it out: a line feed and blanks between elements, none inside `span`, `br` -/
def indented : List XTok :=
  [st "tt" [], tx "\n  ", st "body" [], tx "\n    ", st "div" [], tx "\n      ",
   st "p" [at_ [] "begin" "00:00:01.000", at_ [] "end" "00:00:02.000"], tx "\n        ",
   st "span" [], tx " x ", en "span", tx "\n        ", st "br" [], en "br",
   tx "\n      ", en "p", tx "\n    ", en "div", tx "\n  ", en "body",
   tx "\n", en "tt"]

set_option maxRecDepth 100000 in
/-- non-vacuity: the layout satisfies `indentOk`, `dropIndent` removes the nine layout tokens, the decoder accepts -/
example : indentOk indented [] = true ∧ (Driver.TTMLD.dropIndent indented []).length + 9 = indented.length ∧
    (Spec.TTML.decode (specToks indented)).isSome = true := by decide +kernel

/-- **The decoder does not see the indentation** (for ALL token lists, written or not).  If every character-data token
    that `Driver.TTMLD.dropIndent` removes (white space only, outside `span` / `title` / `copyright`) holds a line feed and
    is not directly inside a `br` (`indentOk`, decidable), the decoder gives the same answer on the tokens and on the
    tokens without them. -/
theorem indentation (toks : List XTok) (h : indentOk toks [] = true) :
    Spec.TTML.decode (specToks toks) = Spec.TTML.decode (specToks (Driver.TTMLD.dropIndent toks [])) :=
  decode_dropIndent toks h

/-- **The first clause on the tokens of the written bytes.**  Whenever those tokens, indentation dropped, are the
    model's answer — the comparison the `ttml.write` case makes — and their layout is `Encoder.Indent`'s (`indentOk`),
    the first clause of the check holds for them (the clause as the driver evaluates it: on the tokens *with* their
    indentation). -/
theorem writeFirst_agree (s : Subs) (h : repW s = true) (toks : List XTok) (w : List WTok) (hw : write s = some w)
    (hag : Driver.TTMLD.dropIndent toks [] = resolve w) (hind : indentOk toks [] = true) :
    writeFirst s toks true = true := by
  obtain ⟨w', hw', hd, hn⟩ := decode_write s h
  have e : w' = w := by rw [hw] at hw'; exact (Option.some.inj hw').symm
  subst e
  simp only [writeFirst, indentation toks hind, hag, hd, hn, Bool.true_and, beq_self_eq_true]

/-! ## 4. layer by layer -/

/-- **Tokens.**  What the decoder is fed for a writer token: element names resolved (`ttm:` to the metadata name space,
    everything else to the TTML name space), attribute names resolved (`xmlns[:p]` declarations, `xml:`, `tts:`, no
    prefix = no name space). -/
theorem tokens (w : List WTok) : specToks (resolve w) = w.map sTok := specToks_resolve w

/-- **Time.**  The `begin` / `end` text of any instant `0 ≤ t` (hour field of two or more digits) denotes — under every
    frame and tick rate — exactly `t` truncated to the millisecond, and holds no line feed. -/
theorem time (t : Int) (h0 : 0 ≤ t) (fr tr : Nat) :
    Spec.TTML.denote (Duration.formatTTML t) fr tr = some ((t - t % 1000000).toNat, 1) ∧
    Spec.TTML.hasNL (Duration.formatTTML t) = false :=
  denote_formatTTML_any t h0 fr tr

/-- **Styling attributes.**  On an attribute list `E ++ tts:*` where `E` holds no styling attribute, the decoder reads
    the styling attributes the driver's view `ttmlAttrsOf` shows of `a` (proviso: canonical `zIndex`). -/
theorem styling_attributes (E : List TTMLW2.XAttr) (a : Attrs) (hE : Plain E) (hz : zCanon a = true) :
    Spec.TTML.styling (E ++ outR a) = some (ttmlAttrsOf a) :=
  styling_written E a hE hz

/-- **Definitions.**  The start tag of a `style` / `region` (identifier not empty, parent / style reference not the
    empty string, no line feed) is decoded into identifier, reference and attributes; no attribute value holds a line
    feed. -/
theorem definition (d : Def) (h : defW d = true) :
    Spec.TTML.mkDef ((TTMLDoc.headerAttrs d).map rAttr) = some (toG d) ∧ nlAttr ((TTMLDoc.headerAttrs d).map rAttr) = false :=
  mkDef_header d h

/-- **The start tag of a cue.** `begin`, `end` occur once and denote the truncated instants; `style`, `region` are
    absent or the references; the styling attributes are the cue's. -/
theorem paragraph_start (it : CItem) (h : cueHeadW it = true) (fr tr : Nat) :
    Spec.TTML.attr? ((TTMLDoc.pAttrs it).map rAttr) "begin" = some (some (Duration.formatTTML it.startAt)) ∧
    Spec.TTML.attr? ((TTMLDoc.pAttrs it).map rAttr) "end" = some (some (Duration.formatTTML it.endAt)) ∧
    Spec.TTML.ref? ((TTMLDoc.pAttrs it).map rAttr) "style" = some it.style ∧
    Spec.TTML.ref? ((TTMLDoc.pAttrs it).map rAttr) "region" = some it.region ∧
    Spec.TTML.styling ((TTMLDoc.pAttrs it).map rAttr) = some (ttmlAttrsOf it.attrs) ∧
    Spec.TTML.denote (Duration.formatTTML it.startAt) fr tr = some ((it.startAt - it.startAt % 1000000).toNat, 1) ∧
    Spec.TTML.denote (Duration.formatTTML it.endAt) fr tr = some ((it.endAt - it.endAt % 1000000).toNat, 1) ∧
    nlAttr ((TTMLDoc.pAttrs it).map rAttr) = false :=
  p_fields it h fr tr

/-- **The start tag of a run.** -/
theorem span_start (li : LItem) (h : runW li = true) :
    Spec.TTML.ref? (spanAttrs li) "style" = some li.style ∧ Spec.TTML.styling (spanAttrs li) = some (ttmlAttrsOf li.attrs) ∧
    nlAttr (spanAttrs li) = false :=
  span_fields li h

/-- **The root element**: no frame rate, no tick rate (so `0`), `xml:lang` the language code or absent. -/
theorem root (m : Attrs) :
    Spec.TTML.natAttr (rootR m) "frameRate" = some 0 ∧ Spec.TTML.natAttr (rootR m) "tickRate" = some 0 ∧
    Spec.TTML.attr? (rootR m) "lang" = (TTMLDoc.normRef (langOut m)).map some ∧ nlAttr (rootR m) = false :=
  root_fields m

/-- **One cue.**  From the state inside `div`, the tokens of a cue (`<p …>`, one `span` per run, `br` between two
    lines, `</p>`) append exactly the cue `cueG it` to the document. -/
theorem paragraph (doc : Spec.TTML.GDoc) (buf : Str) (it : CItem) (h : cueW it = true) :
    Spec.TTML.run ((subToks it).map sTok) (mkS pDiv doc buf)
      = some (mkS pDiv { doc with cues := doc.cues ++ [cueG it] } buf) :=
  run_sub doc buf it h

/-- **The state machine over the whole document** ends, finished, with the document `docW s`. -/
theorem state_machine (s : Subs) (hst : ∀ d ∈ s.styles, defW d = true) (hrg : ∀ d ∈ s.regions, defW d = true)
    (hit : ∀ it ∈ s.items, cueW it = true) (w : List WTok) (hw : write s = some w) :
    ∃ buf, Spec.TTML.run (w.map sTok) {} = some { mkS [] (docW s) buf with finished := true } :=
  run_written s hst hrg hit w hw

/-- **The decoder's final checks** (identifiers distinct, references defined) pass on `docW s`. -/
theorem final_checks (s : Subs) (hrep : Driver.TTMLD.rep s = true) (hsn : (s.styles.map Def.id).Nodup)
    (hrn : (s.regions.map Def.id).Nodup) : TTMLR.finalOk (docW s) = true :=
  finalOk_docW s hrep hsn hrn

/-- **Normal form** (for all `s`): sorting the definitions of `docW s` by identifier changes nothing, the language code
    the writer emits is the one the specification's table gives; so `normDoc (docW s)` is `docOf s`. -/
theorem normal_form (s : Subs) : normDoc (docW s) = docOf s := normDoc_docW s

end C03w2
end Astisub
