import Astisub.Model.SRT
import Astisub.Model.VTT
import Astisub.Model.SSA

/-!
# C19 — Writers are pure and deterministic

The writer models are *functions* `Subs → bytes`: writing twice gives the same bytes and the
argument is untouched by construction.  What remains to be proved is that the bytes do not
depend on the **order in which the Go runtime iterates the `Styles` and `Regions` maps**: a Go map
is modelled as an association list in arbitrary order, so the statement is invariance of every
writer under permutation of these lists (identifiers distinct, as in any map).
For the pinned tree this was false for SSA (Format columns followed map order) and WebVTT (STYLE
blocks followed map order); both writers now sort by identifier.
-/

namespace Astisub
namespace C19
open List

def leId (a b : Def) : Bool := !strLt b.id a.id

theorem ofList_inj {a b : List Char} (h : String.ofList a = String.ofList b) : a = b := by
  have := congrArg String.toList h
  simpa using this

theorem leId_trans (a b c : Def) : leId a b → leId b c → leId a c := by
  unfold leId strLt
  simp only [Bool.not_eq_true', decide_eq_false_iff_not]
  intro h1 h2 h3
  have := String.le_trans (String.not_lt.mp h1) (String.not_lt.mp h2)
  exact absurd h3 (String.not_lt.mpr this)

theorem leId_total (a b : Def) : (leId a b || leId b a) = true := by
  unfold leId strLt
  simp only [Bool.or_eq_true, Bool.not_eq_true', decide_eq_false_iff_not]
  rcases String.le_total (String.ofList a.id) (String.ofList b.id) with h | h
  · exact Or.inl (String.not_lt.mpr h)
  · exact Or.inr (String.not_lt.mpr h)

theorem leId_antisymm (a b : Def) : leId a b → leId b a → a.id = b.id := by
  unfold leId strLt
  simp only [Bool.not_eq_true', decide_eq_false_iff_not]
  intro h1 h2
  exact ofList_inj (String.le_antisymm (String.not_lt.mp h1) (String.not_lt.mp h2))

/-- **Map order is irrelevant.** Sorting two enumerations of the same map (same definitions in
    any order, identifiers distinct) gives the same list. -/
theorem sort_perm_invariant (l₁ l₂ : List Def) (hp : l₁ ~ l₂) (hn : (l₁.map (·.id)).Nodup) :
    l₁.mergeSort leId = l₂.mergeSort leId := by
  apply Perm.eq_of_pairwise (le := fun a b => leId a b = true)
  · intro a b ha hb hab hba
    have hid := leId_antisymm a b hab hba
    have ha' : a ∈ l₁ := mem_mergeSort.mp ha
    have hb' : b ∈ l₁ := hp.mem_iff.mpr (mem_mergeSort.mp hb)
    -- distinct identifiers: same id ⇒ same definition
    have key : ∀ (l : List Def), (l.map (·.id)).Nodup → ∀ x ∈ l, ∀ y ∈ l, x.id = y.id → x = y := by
      intro l
      induction l with
      | nil => intro _ x hx; cases hx
      | cons z zs ih =>
        intro hnd x hx y hy hxy
        simp only [map_cons, nodup_cons, mem_map, not_exists, not_and] at hnd
        rcases mem_cons.mp hx with rfl | hx' <;> rcases mem_cons.mp hy with rfl | hy'
        · rfl
        · exact absurd hxy.symm (hnd.1 y hy')
        · exact absurd hxy (hnd.1 x hx')
        · exact ih hnd.2 x hx' y hy' hxy
    exact key l₁ hn a ha' b hb' hid
  · exact pairwise_mergeSort leId_trans leId_total l₁
  · exact pairwise_mergeSort leId_trans leId_total l₂
  · exact (mergeSort_perm l₁ leId).trans (hp.trans (mergeSort_perm l₂ leId).symm)

/-- a look-up by identifier does not depend on the enumeration order either -/
theorem find_perm_invariant (l₁ l₂ : List Def) (hp : l₁ ~ l₂) (hn : (l₁.map (·.id)).Nodup) (id : List Char) :
    l₁.find? (·.id = id) = l₂.find? (·.id = id) := by
  induction hp with
  | nil => rfl
  | cons x _ ih =>
    simp only [map_cons, nodup_cons] at hn
    simp only [find?_cons]
    split
    · rfl
    · exact ih hn.2
  | swap x y l =>
    simp only [map_cons, nodup_cons, mem_cons, not_or] at hn
    simp only [find?_cons]
    by_cases hx : x.id = id <;> by_cases hy : y.id = id
    · exact absurd (hy.trans hx.symm) hn.1.1
    · simp [hx, hy]
    · simp [hx, hy]
    · simp [hx, hy]
  | trans h1 _ ih1 ih2 =>
    rw [ih1 hn, ih2 ((h1.map _).nodup_iff.mp hn)]

/-- two cue lists that differ only in the enumeration order of their style and region maps -/
structure SameUpToMapOrder (s₁ s₂ : Subs) : Prop where
  items : s₁.items = s₂.items
  metadata : s₁.metadata = s₂.metadata
  styles : s₁.styles ~ s₂.styles
  regions : s₁.regions ~ s₂.regions
  stylesNodup : (s₁.styles.map (·.id)).Nodup
  regionsNodup : (s₁.regions.map (·.id)).Nodup

/-- SubRip: the writer does not look at styles, regions or metadata at all -/
theorem srt_deterministic (s₁ s₂ : Subs) (h : SameUpToMapOrder s₁ s₂) : SRT.write s₁ = SRT.write s₂ := by
  unfold SRT.write; rw [h.items]

/-- SSA: the Format line and the style rows are built from the styles in identifier order -/
theorem ssa_deterministic (s₁ s₂ : Subs) (h : SameUpToMapOrder s₁ s₂) : SSA.write s₁ = SSA.write s₂ := by
  unfold SSA.write
  have hs := sort_perm_invariant _ _ h.styles h.stylesNodup
  unfold leId at hs
  rw [h.items, h.metadata, hs]

/-- WebVTT: STYLE blocks and regions are emitted in identifier order, style look-ups are by identifier -/
theorem vtt_deterministic (s₁ s₂ : Subs) (h : SameUpToMapOrder s₁ s₂) : VTT.write s₁ = VTT.write s₂ := by
  have hs := sort_perm_invariant _ _ h.styles h.stylesNodup
  have hr := sort_perm_invariant _ _ h.regions h.regionsNodup
  unfold leId at hs hr
  have hsa : ∀ ref, VTT.styleAttrs s₁ ref = VTT.styleAttrs s₂ ref := by
    intro ref
    unfold VTT.styleAttrs
    cases ref with
    | none => rfl
    | some id => simp only; rw [find_perm_invariant _ _ h.styles h.stylesNodup id]
  have hcue : ∀ k it, VTT.cueBytes s₁ k it = VTT.cueBytes s₂ k it := by
    intro k it; unfold VTT.cueBytes; simp only [hsa]
  have hreg : ∀ d, VTT.regionBytes s₁ d = VTT.regionBytes s₂ d := by
    intro d; unfold VTT.regionBytes; simp only [hsa]
  have hemp : s₁.regions.isEmpty = s₂.regions.isEmpty := by
    have := h.regions.length_eq
    cases h1 : s₁.regions <;> cases h2 : s₂.regions <;> simp_all
  have hreg' : VTT.regionBytes s₁ = VTT.regionBytes s₂ := funext hreg
  unfold VTT.write VTT.styleLines VTT.header VTT.sortDefs
  simp only [h.items, h.metadata, hs, hr, hemp, hcue, hreg']

end C19
end Astisub
