import Astisub.Lemmas.F53Exec
import Astisub.Props.C15

/-!
# C15 (float) — the executable binary64 model is an instance of the abstract float model

`Props/C15.lean` proves the 3 ns bound, monotonicity and length scaling of linear correction over an
abstract `FloatModel`. This file closes the gap to the executable model `Go/Float53.lean` (the one
the `lib.f53` / `ops.lincorr` streams compare bit for bit with the hardware):

* `Dy.val d = m · 2^e` is the rational a dyadic stands for; `F53.rnd : ℚ → ℚ` is round-to-nearest,
  ties-to-even, 53 significant bits, defined mathematically (floor, `Int.log`) for every rational;
* `Dy.round`, `Dy.ofInt`, `Dy.mul`, `Dy.sub`, `Dy.div` compute exactly `rnd` of the exact result
  (for `div` this is the sticky-bit argument), `Dy.trunc` is `C15.tr`;
* `rnd` is monotone, has relative error ≤ 2⁻⁵³ and fixes integers up to 2⁵³: it is a `FloatModel`
  (`binary64`);
* hence `LinCorr.apply1` *is* `C15.applyA binary64` when the integer → float conversions are exact,
  and `C15.close`, `C15.monotone`, `C15.length_scaled` hold for the executable model.

The model has no exponent bounds (no overflow, no subnormals), so none of the statements about
`Dy` needs a range hypothesis; the only hypotheses are the ones on integer operands (|n| ≤ 2⁵³).
-/

namespace Astisub
namespace C15float
open Go F53

/-! ## 1. `Dy.round` -/

/-- `Dy.round` computes round-to-nearest-even to 53 bits: its value is `rnd` of the input's value. -/
theorem round_eq_rnd (d : Dy) : d.round.val = rnd d.val := round_val d

/-- Rounding changes a value by at most 2⁻⁵³ of its magnitude. -/
theorem round_rel_error (d : Dy) : |d.round.val - d.val| ≤ |d.val| / 2 ^ 53 := by
  rw [round_val]
  have := rnd_err d.val
  rwa [mul_one_div] at this

/-- … more precisely by at most half a unit in the last place (`2^ex` is the spacing of doubles
    around the value). -/
theorem round_half_ulp (d : Dy) : |d.round.val - d.val| ≤ 2 ^ ex d.val / 2 := by
  rw [round_val]; exact rnd_err_ulp d.val

/-- the significand already fits in 53 bits -/
def Fits53 (d : Dy) : Prop := d.m.natAbs < 2 ^ 53

instance (d : Dy) : Decidable (Fits53 d) := by unfold Fits53; infer_instance

example : Fits53 ⟨-6004799503160661, -52⟩ := by decide
example : ¬ Fits53 ⟨2 ^ 60 + 1, 0⟩ := by decide

/-- A dyadic whose significand fits in 53 bits is returned unchanged (the same record, not just
    the same value). -/
theorem round_id (d : Dy) (h : Fits53 d) : d.round = d :=
  round_small d ((bitlen_le_iff _ _).mpr h)

/-- Rounding preserves order. -/
theorem round_monotone (d₁ d₂ : Dy) (h : d₁.val ≤ d₂.val) : d₁.round.val ≤ d₂.round.val := by
  rw [round_val, round_val]; exact rnd_mono h

/-- Rounding depends only on the value, not on how it is written as `m · 2^e`. -/
theorem round_repr_indep (d₁ d₂ : Dy) (h : d₁.val = d₂.val) : d₁.round.val = d₂.round.val :=
  round_val_congr h

/-- The result is a binary64 significand: at most 53 bits, or exactly 2⁵³ (rounding carried out of
    the top bit; that is the double 1.0 · 2^(e+53)). -/
theorem round_fits (d : Dy) : d.round.m.natAbs ≤ 2 ^ 53 := round_m_le d

/-- Rounding twice is rounding once. -/
theorem round_idempotent (d : Dy) : d.round.round.val = d.round.val := round_round_val d

/-- sanity of `rnd` on concrete numbers: a tie goes to the even neighbour, 3/4 ulp goes up, and
    1/3 is the familiar `0x3FD5555555555555`. -/
example : rnd (2 ^ 53 + 1) = 2 ^ 53 := by
  have h := round_val ⟨2 ^ 53 + 1, 0⟩
  rw [show Dy.round ⟨2 ^ 53 + 1, 0⟩ = ⟨2 ^ 52, 1⟩ by decide] at h
  norm_num [Dy.val] at h
  norm_num; exact h.symm
example : rnd (2 ^ 53 + 3) = 2 ^ 53 + 4 := by
  have h := round_val ⟨2 ^ 53 + 3, 0⟩
  rw [show Dy.round ⟨2 ^ 53 + 3, 0⟩ = ⟨2 ^ 52 + 2, 1⟩ by decide] at h
  norm_num [Dy.val] at h
  norm_num; exact h.symm
example : rnd (1 / 3) = 6004799503160661 / 2 ^ 54 := by
  have h := div_val ⟨1, 0⟩ ⟨3, 0⟩
  rw [show Dy.div ⟨1, 0⟩ ⟨3, 0⟩ = ⟨6004799503160661, -54⟩ by decide] at h
  norm_num [Dy.val] at h
  rw [← h]; norm_num

/-! ## 2. The operations -/

/-- `float64(n)` is `rnd n` … -/
theorem ofInt_eq_rnd (n : ℤ) : (Dy.ofInt n).val = rnd n := ofInt_val n

/-- … and exact for |n| ≤ 2⁵³. -/
theorem ofInt_exact (n : ℤ) (h : |n| ≤ 2 ^ 53) : (Dy.ofInt n).val = n := by
  rw [ofInt_val, rnd_int n h]

example : |(86400000000000 : ℤ)| ≤ 2 ^ 53 := by decide
example : |(-(2 : ℤ) ^ 53)| ≤ 2 ^ 53 := by decide

/-- `x * y` is the correctly rounded product. -/
theorem mul_correct (x y : Dy) : (Dy.mul x y).val = rnd (x.val * y.val) := mul_val x y

/-- `x - y` is the correctly rounded difference. -/
theorem sub_correct (x y : Dy) : (Dy.sub x y).val = rnd (x.val - y.val) := sub_val x y

/-- `x / y` is the correctly rounded quotient (guard bits + sticky bit lose nothing). For `y = 0`
    the model returns 0, which is also what `/` on ℚ gives. -/
theorem div_correct (x y : Dy) : (Dy.div x y).val = rnd (x.val / y.val) := div_val x y

/-- `x / y` is within relative error 2⁻⁵³ of the exact quotient. -/
theorem div_rel_error (x y : Dy) :
    |(Dy.div x y).val - x.val / y.val| ≤ |x.val / y.val| / 2 ^ 53 := by
  rw [div_val]
  have := rnd_err (x.val / y.val)
  rwa [mul_one_div] at this

/-! ## 3. Truncation -/

/-- Go's float → integer conversion in the model is truncation toward zero of the value. -/
theorem trunc_eq_tr (x : Dy) : x.trunc = C15.tr x.val := trunc_val x

/-! ## 4. The executable model is a `FloatModel`; linear correction -/

/-- binary64 round-to-nearest-even (unbounded exponent) satisfies the abstract float model of
    `Props/C15.lean`: monotone, relative error ≤ 2⁻⁵³, exact on integers up to 2⁵³. -/
def binary64 : C15.FloatModel where
  fl := rnd
  mono := fun _ _ h => rnd_mono h
  err := fun x => by unfold C15.u; exact rnd_err x
  exactInt := fun n h => rnd_int n h

/-- the executable slope is the abstract one when both differences convert exactly -/
theorem slope_eq (a1 d1 a2 d2 : ℤ) (hD : |d2 - d1| ≤ 2 ^ 53) (hA : |a2 - a1| ≤ 2 ^ 53) :
    (LinCorr.slope a1 d1 a2 d2).val = C15.slopeA binary64 a1 d1 a2 d2 := by
  rw [slope_val_rnd, rnd_int _ hD, rnd_int _ hA]
  rfl

/-- **The executable linear correction is the abstract expression tree instantiated with
    binary64**, whenever the five integer → float conversions are exact (all operands at most 2⁵³
    in magnitude: about 104 days in nanoseconds). Every theorem of `Props/C15.lean` about
    `applyA F` therefore speaks about `LinCorr.apply1` in that range. -/
theorem apply1_eq_applyA (a1 d1 a2 d2 t : ℤ)
    (hD : |d2 - d1| ≤ 2 ^ 53) (hA : |a2 - a1| ≤ 2 ^ 53)
    (ha1 : |a1| ≤ 2 ^ 53) (hd1 : |d1| ≤ 2 ^ 53) (ht : |t| ≤ 2 ^ 53) :
    LinCorr.apply1 a1 d1 a2 d2 t = C15.applyA binary64 a1 d1 a2 d2 t := by
  rw [apply1_unfold, slope_eq a1 d1 a2 d2 hD hA, rnd_int _ ht, rnd_int _ ha1, rnd_int _ hd1]
  rfl

example : |(3604099000000 : ℤ) - 1500000000| ≤ 2 ^ 53 ∧ |(3600000000000 : ℤ) - 1000000000| ≤ 2 ^ 53
    ∧ |(1000000000 : ℤ)| ≤ 2 ^ 53 ∧ |(1500000000 : ℤ)| ≤ 2 ^ 53 ∧ |(1800000000000 : ℤ)| ≤ 2 ^ 53 := by
  decide

/-- **Closeness, executable model, under exactly the hypotheses of `C15.close`.** For instants in
    `[−24 h, 24 h]` and an exact slope of magnitude at most 2, `LinCorr.apply1` — the function the
    streams compare with the Go code — lands within 3 ns of the exact affine map of
    `Model/LinCorr.lean`. The reference differences `d2 − d1`, `a2 − a1` may be arbitrarily large
    (their conversion to float is then inexact, a case the abstract tree `applyA` does not model);
    the bound still holds. -/
theorem close_exec (a1 d1 a2 d2 t : ℤ)
    (ht : |(t : ℚ)| ≤ C15.day) (ha1 : |(a1 : ℚ)| ≤ C15.day) (hd1 : |(d1 : ℚ)| ≤ C15.day)
    (hs : |((d2 - d1 : ℤ) : ℚ) / ((a2 - a1 : ℤ) : ℚ)| ≤ 2) :
    |(LinCorr.apply1 a1 d1 a2 d2 t : ℚ) - LinCorr.exact a1 d1 a2 d2 t| ≤ 3 := by
  have hu : (0 : ℚ) ≤ C15.u := le_of_lt C15.u_pos
  have e0 : |(LinCorr.slope a1 d1 a2 d2).val - ((d2 - d1 : ℤ) : ℚ) / ((a2 - a1 : ℤ) : ℚ)| ≤ 10 * C15.u := by
    have h := C15.slope_err binary64 ((d2 - d1 : ℤ) : ℚ) ((a2 - a1 : ℤ) : ℚ)
    have : |((d2 - d1 : ℤ) : ℚ) / ((a2 - a1 : ℤ) : ℚ)| * (5 * C15.u) ≤ 2 * (5 * C15.u) :=
      mul_le_mul_of_nonneg_right hs (by linarith)
    rw [slope_val_rnd]
    have h' : |rnd (rnd ((d2 - d1 : ℤ) : ℚ) / rnd ((a2 - a1 : ℤ) : ℚ))
        - ((d2 - d1 : ℤ) : ℚ) / ((a2 - a1 : ℤ) : ℚ)|
        ≤ |((d2 - d1 : ℤ) : ℚ) / ((a2 - a1 : ℤ) : ℚ)| * (5 * C15.u) := h
    linarith
  have h := C15.close_core binary64 _ _ a1 d1 t hs e0 ht ha1 hd1
  rw [apply1_unfold, rnd_int _ (int_le_of_day ht), rnd_int _ (int_le_of_day ha1),
    rnd_int _ (int_le_of_day hd1), exact_eq]
  unfold C15.exact
  exact h

/-- non-vacuity: a correction by +0.1 % anchored at 1 s and 1 h satisfies every hypothesis -/
example :
    let a1 : ℤ := 1000000000; let d1 : ℤ := 1500000000
    let a2 : ℤ := 3600000000000; let d2 : ℤ := 3604099000000; let t : ℤ := 1800000000000
    |(t : ℚ)| ≤ C15.day ∧ |(a1 : ℚ)| ≤ C15.day ∧
      |(d1 : ℚ)| ≤ C15.day ∧ |((d2 - d1 : ℤ) : ℚ) / ((a2 - a1 : ℤ) : ℚ)| ≤ 2 := by
  refine ⟨?_, ?_, ?_, ?_⟩ <;> norm_num [C15.day, abs_le]

/-- the computed slope is non-negative when the exact one is (no range condition) -/
theorem slope_nonneg_exec (a1 d1 a2 d2 : ℤ)
    (h : 0 ≤ ((d2 - d1 : ℤ) : ℚ) / ((a2 - a1 : ℤ) : ℚ)) : 0 ≤ (LinCorr.slope a1 d1 a2 d2).val := by
  rw [slope_val_rnd]
  apply rnd_nonneg
  rcases div_nonneg_iff.mp h with ⟨h1, h2⟩ | ⟨h1, h2⟩
  · exact div_nonneg (rnd_nonneg h1) (rnd_nonneg h2)
  · exact div_nonneg_of_nonpos (rnd_nonpos h1) (rnd_nonpos h2)

/-- **Order, executable model.** With a non-negative computed slope, `apply1` preserves the order
    of instants — for all integers, no range condition. -/
theorem monotone_exec (a1 d1 a2 d2 t t' : ℤ)
    (hpos : 0 ≤ (LinCorr.slope a1 d1 a2 d2).val) (h : t ≤ t') :
    LinCorr.apply1 a1 d1 a2 d2 t ≤ LinCorr.apply1 a1 d1 a2 d2 t' := by
  rw [apply1_unfold, apply1_unfold]
  have h1 : rnd (t : ℚ) ≤ rnd (t' : ℚ) := rnd_mono (by exact_mod_cast h)
  have h2 := C15.tr_mono (rnd_mono (mul_le_mul_of_nonneg_left h1 hpos))
  omega

/-- **Length, executable model.** every cue's length is scaled by the exact slope to within 6 ns -/
theorem length_scaled_exec (a1 d1 a2 d2 s e : ℤ)
    (hs' : |(s : ℚ)| ≤ C15.day) (he : |(e : ℚ)| ≤ C15.day) (ha1 : |(a1 : ℚ)| ≤ C15.day)
    (hd1 : |(d1 : ℚ)| ≤ C15.day)
    (hsl : |((d2 - d1 : ℤ) : ℚ) / ((a2 - a1 : ℤ) : ℚ)| ≤ 2) :
    |((LinCorr.apply1 a1 d1 a2 d2 e - LinCorr.apply1 a1 d1 a2 d2 s : ℤ) : ℚ)
        - ((e : ℚ) - s) * (((d2 - d1 : ℤ) : ℚ) / ((a2 - a1 : ℤ) : ℚ))| ≤ 6 := by
  have h1 := close_exec a1 d1 a2 d2 e he ha1 hd1 hsl
  have h2 := close_exec a1 d1 a2 d2 s hs' ha1 hd1 hsl
  rw [exact_eq] at h1 h2
  have : ((LinCorr.apply1 a1 d1 a2 d2 e - LinCorr.apply1 a1 d1 a2 d2 s : ℤ) : ℚ)
        - ((e : ℚ) - s) * (((d2 - d1 : ℤ) : ℚ) / ((a2 - a1 : ℤ) : ℚ))
      = ((LinCorr.apply1 a1 d1 a2 d2 e : ℚ) - C15.exact a1 d1 a2 d2 e)
        - ((LinCorr.apply1 a1 d1 a2 d2 s : ℚ) - C15.exact a1 d1 a2 d2 s) := by
    unfold C15.exact; push_cast; ring
  rw [this]
  have h1' := abs_le.mp h1
  have h2' := abs_le.mp h2
  rw [abs_le]
  constructor <;> linarith [h1'.1, h1'.2, h2'.1, h2'.2]

end C15float
end Astisub
