import Astisub.Lemmas.Scan
import Astisub.Model.IO
import Astisub.Model.SRT
import Astisub.Props.C17

/-!
# C08 — Totality: no reader or writer ever panics or hangs

Every model function of this development is a *total* Lean function: Lean's termination checker has
accepted each loop (structural recursion, explicit fuel, or a well-founded measure such as
`(chunks, pending bytes)` for the scanner), so "never loops forever" holds of the models by
construction.  This file adds what totality alone does not say:

* **step bounds** — the scanner that the three line-based readers are built on performs at most one
  token per input byte, and the STL block loop at most one block per 128 bytes: running time
  proportional to the input for the loops the package itself owns;
* **guards** — the inputs on which the pinned code panicked are answered by an error in the model
  of the repaired code, for *every* instantiation of the offending shape (not just the witness).

That the Go code itself never panics or hangs — including inside `x/net/html`, `encoding/xml`,
`regexp`, `go-astits`, whose code is not modelled — is decided by the `tot.read` / `tot.write` /
`tot.scale` streams (arbitrary bytes, structure-aware damage of valid documents of all six formats
incl. transport streams with malformed PES payloads inside a valid packet layer, every public-type
value with optional parts absent and hostile text; outcome class and a watchdog), not by a theorem.
-/

namespace Astisub
namespace C08
open Go IO List

/-! ### step bounds -/

theorem splitLine_adv_le {f : Bool} {p : List UInt8} {e : Bool} {adv : Nat} {t : List UInt8}
    (h : splitLine f p e = .tok adv t) : adv ≤ p.length := by
  unfold splitLine at h
  split at h
  · cases h
  · rcases hb : breakEOL p with ⟨a, r⟩
    have hl := breakEOL_len hb
    rw [hb] at h
    cases r with
    | nil => simp only at h; split at h <;> cases h; omega
    | cons b r =>
      simp only at h
      split at h
      · cases h; simp at hl; omega
      · cases r with
        | nil => simp only at h; split at h <;> cases h; simp at hl; omega
        | cons c r' => simp only at h; split at h <;> cases h <;> simp at hl <;> omega

/-- at end of input the scanner yields at most one token per pending byte -/
theorem drain_steps (f : Bool) (p : List UInt8) : (drain f p).length ≤ p.length := by
  induction hn : p.length using Nat.strongRecOn generalizing p with
  | _ n ih =>
    cases hs : splitLine f p true with
    | tok adv tk =>
      rw [drain_tok hs]
      have hne := splitLine_tok_ne_nil hs
      have h0 := tok_adv_pos hs
      have hle := splitLine_adv_le hs
      have hlt : (p.drop adv).length < n := by
        subst hn
        cases p with
        | nil => contradiction
        | cons => simp; omega
      have := ih _ hlt (p.drop adv) rfl
      simp at this ⊢; omega
    | more => rw [drain]; split <;> rename_i h' <;> rw [hs] at h' <;> first | cases h' | simp
    | stop => rw [drain]; split <;> rename_i h' <;> rw [hs] at h' <;> first | cases h' | simp

/-- the same with the too-long test of the repaired split function (`drainL`) -/
theorem drainL_steps (f : Bool) (p : List UInt8) : (drainL f p).1.length ≤ p.length := by
  induction hn : p.length using Nat.strongRecOn generalizing p with
  | _ n ih =>
    cases hl : (f && lineTooLong p) with
    | true =>
      have hf : f = true := by cases f <;> simp_all
      subst hf
      rw [drainL_long (by simpa using hl)]; simp
    | false =>
      by_cases hp : p = []
      · subst hp; rw [drainL_nil]; simp
      · obtain ⟨adv, tk, hs⟩ := splitLine_eof_tok f hp
        rw [drainL_tok hl hs]
        have hlt := drop_tok_lt hs
        have := ih _ (by subst hn; exact hlt) (p.drop adv) rfl
        simp only [List.length_cons]; omega

/-- **Linear step bound of the line scanner**: under every delivery schedule the number of tokens
    (= iterations of the reader's loop) is at most the number of bytes delivered -/
theorem scan_steps (f : Bool) (p : List UInt8) (cs : List (List UInt8)) (e : End) (k : Nat) :
    (scan f p cs e k).1.length ≤ p.length + cs.flatten.length := by
  induction cs generalizing p k with
  | nil => rw [scan_nil]; simpa using drainL_steps f p
  | cons c cs ih =>
    induction hn : p.length using Nat.strongRecOn generalizing p k with
    | _ n ihn =>
      cases hl : (f && lineTooLong p) with
      | true =>
        have hf : f = true := by cases f <;> simp_all
        subst hf
        rw [scan_long (by simpa using hl)]; simp
      | false =>
      cases hs : splitLine f p false with
      | stop => exact absurd hs (splitLine_noeof_ne_stop f p)
      | more =>
        rw [scan_more hl hs]
        split
        · simp
        · split
          · split
            · have := drainL_steps f p; simp at this ⊢; omega
            · have := ih p (k + 1); simp at this ⊢; omega
          · split
            · have := drainL_steps f p; simp at this ⊢; omega
            · have := ih (p ++ c) 0; simp at this ⊢; omega
      | tok adv tk =>
        have hne := splitLine_tok_ne_nil hs
        have h0 := tok_adv_pos hs
        have hle := splitLine_adv_le hs
        rw [scan_tok hl hs]
        have hlt : (p.drop adv).length < n := by
          subst hn
          cases p with
          | nil => contradiction
          | cons => simp; omega
        have := ihn _ hlt (p.drop adv) 0 rfl
        simp at this ⊢; omega

/-- the STL block loop reads at most one block per 128 bytes of input -/
theorem tti_steps (e : End) (fuel : Nat) (cs : List (List UInt8)) :
    (ttiBlocks e fuel cs).1.length * 128 ≤ cs.flatten.length := by
  induction fuel generalizing cs with
  | zero => simp [ttiBlocks]
  | succ fuel ih =>
    unfold ttiBlocks
    simp only
    split
    · rename_i h128
      have hspec := C17.readFull_spec 128 cs
      have := ih (readFull 128 cs).2
      rw [hspec.2, List.length_drop] at this
      have hl : (readFull 128 cs).1.length ≤ cs.flatten.length := by rw [hspec.1, List.length_take]; omega
      simp only [List.length_cons]
      omega
    · split <;> (try split) <;> simp

/-! ### guards (regressions of the panics of the pinned code, for every instantiation) -/

/-- D4: a timing line with nothing after `-->` is an error, whatever precedes it and whatever the state -/
theorem srt_nothing_after_arrow (st : SRT.St) (raw left : Str) (rest : List Str)
    (h1 : contains SRT.arrow (if st.lineNum + 1 = 1 then trimPrefix SRT.bom (trimSpace raw) else trimSpace raw) = true)
    (h2 : splitOn SRT.arrow (if st.lineNum + 1 = 1 then trimPrefix SRT.bom (trimSpace raw) else trimSpace raw) = left :: [] :: rest) :
    (match SRT.step st (some raw) with | .err => true | _ => false) = true := by
  unfold SRT.step
  simp only [h1, ↓reduceIte, h2]
  simp [fields, fieldsAux]

/-- a line that is not valid UTF-8 is an error, never a crash -/
theorem srt_invalid_utf8 (st : SRT.St) : (match SRT.step st none with | .err => true | _ => false) = true := rfl

/-- the SRT writer refuses an empty list and otherwise always produces bytes (nil styles, nil
    metadata, any text): it has no failing path -/
theorem srt_write_total (s : Subs) : s.items ≠ [] → (SRT.write s).isSome := by
  intro h; unfold SRT.write
  cases hi : s.items with
  | nil => exact absurd hi h
  | cons a as => simp

/-- `IO.lineReader` turns every scanner outcome into a value or an error -/
theorem reader_answers {α : Type} (parse : List (List UInt8) → Outcome α) (r : List (List UInt8) × Option ScanErr) :
    (∃ v, lineReader true parse r = .ok v) ∨ lineReader true parse r = .err := by
  unfold lineReader
  cases parse r.1 with
  | err => exact Or.inr rfl
  | ok v => by_cases h : (true && r.2.isSome) = true
            · simp [h]
            · simp [h]

end C08
end Astisub
