import Astisub.Lemmas.TeleDecode
import Astisub.Lemmas.TeleLife
import Astisub.Lemmas.TeleBoxed
import Astisub.Lemmas.TeleFinal

/-!
# C06 (documents) — Teletext: the reader model agrees with the independent decoder, from data units to cues

`Props/C06.lean` proves the component laws (Hamming 8/4, parity, tables, one boxed row, immunity).  This file
composes them, for **all** inputs of the stated classes, into statements that relate the model of `teletext.go`
(`Teletext.*`, `Model/Teletext.lean`) to the independent decoder (`Spec.Teletext.*`, `Spec/Teletext.lean`):

1. **Framing** — `framing`, `framing_spec`, `framing_units`: the data-unit loop of `process` visits exactly the units the
   specification cuts out of the PES data field, in order, and only subtitle units reach the packet parser.
2. **Packet address** — `packet_address`: magazine and packet number of model and specification are equal.
3. **Packets** — `packet_header` (page number digits, subtitle flag C6→`cb&8`, serial flag, national option code),
   `packet_agree` (every packet kind): `parseDataUnit` on 44 bytes = `applyPacket` on the packet the specification
   decodes; `pes_agree`: the same for a whole PES payload.
4. **Rows** — `row_runs`: the raw runs of the model's row parser are the specification's runs (same attributes, text
   = codes decoded in the character set), for every row; `row_line` / `row_views`: the model's line and the
   specification's line of a row are built from the same non-blank raw runs; `row_item_text`: an item and its
   `VRun` carry the same text; `row_boxed`: the simplest rows, explicitly; `charset_solid`, `charset_agrees`: what is
   needed of the tables holds for every table the character decoder can build.
5. **Page life cycle** — `page_life` (model: start = time of the opening header, end = time of the next one),
   `page_step` / `stream_simulation` (model's page buffer and the specification's automaton stay related packet by
   packet and PES by PES), `stream_pages`, `stream_times`, `stream_key`.
6. **End to end from the PES level** — `stream`: for every stream in the specification's class (`inClass`,
   decidable), `runPES` and `Spec.Teletext.decode` are both determined by the same list of instances, and cue by
   cue, row by row by the same non-blank raw runs: the model turns each into a line item (`itemOf`), the
   specification into a `VRun` (`denote ∘ viewM`).

7. **What the driver judges** — `view_item`: the driver's `viewItem` reads the item of a raw run back as that run's
   `VRun`; `stream_view`: for every stream in the class, `Driver.TT.viewSubs (runPES page pes) = decode page pes`
   — the first conjunct of the driver's `specOk` for `teletext.pes`, with the model's answer in place of the
   implementation's; `read_view`: the same for `teletext.read` (`readLoop` on what the demultiplexer delivered).

Nothing is left as an unproved statement.  Outside this file's reach (and decided on every run by the streams):
that the implementation's printed answer is the model's (`compareS`), the canonical print / parse round trip of
`Proto`, the demultiplexer, and the comparison with the harness' ground truth.

Vocabulary (all in `Lemmas/Tele*.lean`, all predicates decidable):
`Bytes l` — all elements below 256; `encodeUnits us` — the bytes `id, len, data…` of data units;
`isSubtitleUnit u` — id 3, at least 44 bytes, framing code 0xe4; `applyPacket t b p` — the model's page buffer after a
packet, written on the fields of the *specification's* packet `p`; `storedCell` — the value `parsePacketData` stores
for a received cell (`0xff` for a parity failure); `CellsOK` — cells are 7-bit values; `modelRuns c row` — the raw runs
(style, untrimmed text) the model hands to `appendTeletextLineItem`; `specRuns cells` — the specification's runs
before blank ones are dropped; `viewM` / `viewS c` — both as (attributes, text); `nonblank`, `itemOf`, `denote`;
`Solid c`, `Agrees key code c`; `PRel P b s`, `ARel a s` — the simulation relations; `pageOf`, `finalInsts`;
`rawCue`-style functions `cueRaw`, `modelOf`, `specOf`.
-/

namespace Astisub
namespace C06
open Go Teletext Generated.Teletext

/-! ## 1. Framing -/

/-- **Framing (specification side).**  The specification cuts the bytes of any list of complete data units
    (`id, len, len bytes` each) back into exactly that list; and whatever it cuts out of a data field is a list of
    units whose bytes are the field. -/
theorem framing_spec (us : List DUnit) :
    Spec.Teletext.dataUnits (encodeUnits us).length (encodeUnits us) = some us ∧
    ∀ (data : List Nat) (vs : List DUnit), Spec.Teletext.dataUnits data.length data = some vs → data = encodeUnits vs :=
  ⟨dataUnits_encodeUnits us _ (Nat.le_refl _), fun data vs h => dataUnits_some _ data vs h⟩

/-- **Framing (loop).**  Whenever the specification can cut a data field into units `us`, the model's data-unit loop
    hands exactly these units to `parseDataUnit`, in order (`feedUnits` is that left fold). -/
theorem framing_units (fuel : Nat) (b : Buf) (data : List Nat) (t : Int) (us : List DUnit)
    (h : Spec.Teletext.dataUnits fuel data = some us) :
    unitLoop fuel b data t = feedUnits t b us :=
  unitLoop_dataUnits fuel b data t us h

/-- **Framing.**  For a PES payload made of an EBU data identifier (0x10..0x1f) followed by complete data units `us`:
    `process` is the left fold of `parseDataUnit` over the *subtitle* units of `us` only (id 3, at least 44 bytes,
    framing code 0xe4) — units with other ids, short units, stuffing and units with another framing code are
    skipped — and it hands over the pages finished on the way. -/
theorem framing (b : Buf) (ident : Nat) (us : List DUnit) (t : Int) (hid : 0x10 ≤ ident ∧ ident ≤ 0x1f) :
    process b (ident :: encodeUnits us) t =
      ({ feedUnits t b (us.filter isSubtitleUnit) with done := [] }, (feedUnits t b (us.filter isSubtitleUnit)).done) := by
  rw [process_dataUnits b ident _ t us hid (dataUnits_encodeUnits us _ (Nat.le_refl _)), ← feedUnits_filter]

/-- non-vacuity: a subtitle unit and a stuffing unit -/
example : isSubtitleUnit (3, 0x02 :: 0xe4 :: List.replicate 42 0) = true ∧ isSubtitleUnit (0xff, [0xff, 0xff]) = false := by
  decide

/-! ## 2. Packet address -/

/-- **Packet address.**  For every subtitle unit (all bytes, at least 44 of them, framing code 0xe4) whose two address
    bytes are error-free Hamming 8/4 codewords for the specification (values `a`, `b`): the model runs its packet
    parser on the 40 bytes after the address with the magazine `a mod 8` (0 ↦ 8) and the packet number
    `a div 8 + 2·b` — the specification's `specAddress a b`, which is what `decodePacket` uses. -/
theorem packet_address (b : Buf) (f : List Nat) (t : Int) (a b2 : Nat) (hb : Bytes f) (hlen : 44 ≤ f.length)
    (hfc : f.getD 1 0 = 0xe4)
    (ha : Spec.Teletext.hammingExact (f.getD 2 0) = some a) (hb2 : Spec.Teletext.hammingExact (f.getD 3 0) = some b2) :
    parseDataUnit b f 3 t = parsePacket b (f.drop 4) (specAddress a b2).1 (specAddress a b2).2 t ∧
    specAddress a b2 = (if a % 8 = 0 then 8 else a % 8, a / 8 + b2 * 2) := by
  refine ⟨?_, rfl⟩
  rw [parseDataUnit_address b f t a b2 hlen hfc (hamming_of_exact f hb 2 a ha) (hamming_of_exact f hb 3 b2 hb2),
    address_table a (hammingExact_lt _ _ ha) b2 (hammingExact_lt _ _ hb2)]

/-- non-vacuity: a byte list and a valid codeword -/
example : Bytes [0x02, 0xe4, 0x0b] ∧ Spec.Teletext.hammingExact 0x0b = some 8 := by decide

/-! ## 3. Packets -/

/-- **Page header.**  For the 40 data bytes `d` of a header packet whose page-units, page-tens, and the control bytes
    at offsets 5 and 7 are error-free codewords for the specification (`u`, `tn`, `c5`, `c7`): the model's
    `parsePacketHeader` is `headerStep` on the specification's header fields — tens, units, subtitle flag
    `c5 div 8 mod 2`, magazine-serial flag `c7 mod 2`, national option code `c7 div 2`. -/
theorem packet_header (b : Buf) (d : List Nat) (mag : Nat) (t : Int) (u tn c5 c7 : Nat) (hb : Bytes d)
    (h0 : Spec.Teletext.hammingExact (d.getD 0 0) = some u) (h1 : Spec.Teletext.hammingExact (d.getD 1 0) = some tn)
    (h5 : Spec.Teletext.hammingExact (d.getD 5 0) = some c5) (h7 : Spec.Teletext.hammingExact (d.getD 7 0) = some c7) :
    parseHeader b d mag t = headerStep b t mag tn u (decide (c5 / 8 % 2 = 1)) (decide (c7 % 2 = 1)) (c7 / 2) :=
  parseHeader_eq b d mag t u tn c5 c7 (hamming_of_exact d hb 0 u h0) (hamming_of_exact d hb 1 tn h1)
    (hamming_of_exact d hb 5 c5 h5) (hamming_of_exact d hb 7 c7 h7) (hammingExact_lt _ _ h5) (hammingExact_lt _ _ h7)

/-- **Packet agreement.**  For every 44-byte data field (all bytes) that the specification decodes into a packet `p` —
    a page header, a row with its parity-checked cells, an X/28 or M/29 designation packet, or another packet — the
    model's `parseDataUnit` changes the page buffer exactly as `applyPacket` prescribes for `p`: the model's reaction
    depends on the 44 bytes only through the specification's reading of them. -/
theorem packet_agree (b : Buf) (f : List Nat) (t : Int) (p : Spec.Teletext.Packet) (hb : Bytes f)
    (h : Spec.Teletext.decodePacket f = some p) :
    parseDataUnit b f 3 t = applyPacket t b p :=
  parseDataUnit_decodePacket b f t p hb h

/-- what `decodePacket` returns is well formed: magazine 1..8, rows 1..25, designation packets 28/29, 7-bit cells -/
theorem packet_wellformed (f : List Nat) (p : Spec.Teletext.Packet) (h : Spec.Teletext.decodePacket f = some p) :
    PacketOK p ∧ PacketCells p :=
  ⟨decodePacket_ok f p h, decodePacket_cells f p h⟩

/-- **PES agreement.**  For every PES payload (all bytes) that the specification cuts into data units and decodes into
    the packets `ps`: `process` leaves the page buffer where `applyPacket` leaves it after `ps` (finished pages handed
    over). -/
theorem pes_agree (b : Buf) (payload : List Nat) (t : Int) (ps : List Spec.Teletext.Packet) (hb : Bytes payload)
    (hdone : b.done = []) (h : Spec.Teletext.pesPackets payload = some ps) :
    process b payload t = ({ ps.foldl (applyPacket t) b with done := [] }, (ps.foldl (applyPacket t) b).done) :=
  process_pesPackets b payload t ps hb hdone h

/-! ## 4. Rows -/

/-- **Run agreement.**  For every row of received cells (7-bit values or parity failures) and every character table
    `c`: the raw runs of the model's row parser on the stored row (`0xff` for a parity failure) are the
    specification's runs on the cells — same number of runs, same colour / double height / width / size, and each
    text is the run's character codes decoded in `c`.  Spacing attributes (colours, sizes, start / end box), text
    outside the box, control codes and parity failures are covered. -/
theorem row_runs (c : Charset) (cells : List (Option Nat)) (hx : CellsOK cells) :
    (modelRuns c (cells.map storedCell)).map viewM = (specRuns cells).map (viewS c) ∧
    Spec.Teletext.rowRuns cells = some ((specRuns cells).filter fun r => r.codes.any (· != 0x20)) :=
  ⟨modelRuns_specRuns c cells hx, rowRuns_specRuns cells⟩

/-- **The model's line.**  `parseTeletextRow` returns one item (`itemOf`) per non-blank raw run, and no line when
    there is none. -/
theorem row_line (c : Charset) (row : List Nat) :
    parseRow c row =
      (let items := ((modelRuns c row).filter fun r => nonblank (viewM r)).map itemOf
       if items.isEmpty then none else some { items := items }) :=
  parseRow_items c row

/-- **The specification's line.**  For a solid table `c` that agrees with the specification's look-up for
    (key, code): the runs the specification views for a row are the denotations of the model's non-blank raw runs —
    the same list `row_line` makes items of. -/
theorem row_views (key code : Nat) (c : Charset) (cells : List (Option Nat)) (hs : Solid c) (ha : Agrees key code c)
    (hx : CellsOK cells) :
    (Spec.Teletext.rowRuns cells).bind (fun runs => Spec.Teletext.mapM (Spec.Teletext.viewRun key code) runs) =
      some ((((modelRuns c (cells.map storedCell)).filter fun r => nonblank (viewM r)).map viewM).map denote) :=
  Teletext.row_views key code c cells hs ha hx

/-- **Item and `VRun` of a raw run.**  For every raw run of a row: the item's text (Go's `TrimSpace`) is the `VRun`'s
    text (blanks stripped), the `VRun`'s attributes are those the style denotes, and its blank counts are the numbers
    the item records in `TeletextSpacesBefore` / `TeletextSpacesAfter`. -/
theorem row_item_text (c : Charset) (hs : Solid c) (cells : List (Option Nat)) (hx : CellsOK cells) :
    ∀ r ∈ modelRuns c (cells.map storedCell),
      (itemOf r).text = (denote (viewM r)).text ∧ (denote (viewM r)).attr = attrOf r.1 ∧
      (denote (viewM r)).before = countLeading r.2 ∧ (denote (viewM r)).after = countLeading r.2.reverse := by
  intro r hr
  obtain ⟨codes, hp, he⟩ := modelRuns_decoded c cells hx r hr
  exact item_denote c hs r codes hp he

/-- **Boxed rows (`C06_row_text` on both sides).**  A row with one start box and otherwise only plain cells
    (parity failures or values from 0x10 on): the specification sees one run with default attributes holding the
    character codes after the start box (`textCodes`), the model one item holding these codes decoded. -/
theorem row_boxed (c : Charset) (pre cs : List (Option Nat)) (hp : ∀ x ∈ pre, Plain x) (hc : ∀ x ∈ cs, Plain x)
    (hx : CellsOK cs) :
    Spec.Teletext.rowRuns (pre ++ some 0xb :: cs) =
      some (if (textCodes cs).any (· != 0x20) then [{ attr := {}, codes := textCodes cs }] else []) ∧
    parseRow c ((pre ++ some 0xb :: cs).map storedCell) =
      (let items := appendItem [] (dec c (textCodes cs)) {}
       if items.isEmpty then none else some { items := items }) :=
  ⟨rowRuns_boxed pre cs hp hc, parseRow_boxed c pre cs hp hc hx⟩

/-- **Every table the character decoder can build is solid**: code 0x20 is the blank and every other code
    0x21..0x7f is one character that is not white space — so `TrimSpace` strips exactly the blanks and a decoded text
    is blank exactly when all its codes are 0x20. -/
theorem charset_solid (triplet code : Nat) : Solid (computeCharset triplet code) :=
  computeCharset_solid triplet code

/-- **Table agreement for any triplet.**  For every designation the package knows, whatever the other bits of the
    X/28 – M/29 triplet: the table `updateCharset` builds and the specification's look-up give the same characters on
    0x20..0x7f. -/
theorem charset_agrees (triplet code : Nat) (hk : (lookupCharset (keyOf triplet) code).isSome = true) :
    Agrees (keyOf triplet) code (computeCharset triplet code) :=
  computeCharset_agrees triplet code hk

/-- non-vacuity: a row with colour, box and a parity failure; the default table is solid and agrees -/
example : CellsOK [some 0x03, some 0x0b, some 0x48, none, some 0x49, some 0x0a] := by decide
example : Solid latinG0 ∧ Agrees 0 0 (computeCharset 0 0) := ⟨solid_latin, computeCharset_agrees 0 0 (by decide)⟩
example : Plain none ∧ Plain (some 0x41) ∧ ¬ Plain (some 0x03) := by decide
example : PacketOK (.row 8 20 [some 0x48, none]) ∧ PacketCells (.row 8 20 [some 0x48, none]) ∧
    RowsOK [(20, [some 0x48]), (22, [none, some 0x7f])] ∧ Printable [0x20, 0x48, 0x7f] := by decide

/-! ## 5. Page life cycle -/

/-- **Life of a page instance (model).**  With a page selected: a header of that page at `t1`, then any row packets,
    then the next header of that page at `t2`.  Exactly one more page is finished than after the first header; it
    started at `t1`, ends at `t2` and has the first header's national option code; a new instance with the second
    header's code is open from `t2`. -/
theorem page_life (b : Buf) (t1 t t2 : Int) (tens units : Nat) (sub1 ser1 sub2 ser2 : Bool) (code1 code2 : Nat)
    (rows : List Spec.Teletext.Packet)
    (hsel : ¬ (b.mag = 0 ∧ b.page = 0)) (ht : tens ≤ 9) (hu : units ≤ 9) (hp : tens * 10 + units = b.page)
    (hrows : ∀ p ∈ rows, isRow p = true) :
    let b1 := applyPacket t1 b (.header b.mag tens units sub1 ser1 code1)
    let b2 := rows.foldl (applyPacket t) b1
    let b3 := applyPacket t2 b2 (.header b.mag tens units sub2 ser2 code2)
    ∃ p, b3.done = b1.done ++ [p] ∧ p.start = t1 ∧ p.end_ = t2 ∧ p.charsetCode = code1 ∧
      b3.current = some { charsetCode := code2, start := t2 } ∧ b3.receiving = true :=
  two_headers b t1 t t2 tens units sub1 ser1 sub2 ser2 code1 code2 rows hsel ht hu hp hrows

/-- **One packet keeps model and specification together.**  If the page buffer `b` and the automaton state `s` are
    related (`PRel`: same selected page, same open flag, the page under construction is the open instance, finished
    pages = closed instances with their ends, remembered triplets carry designations the specification met), then
    after any well-formed packet they still are — unless the specification leaves its class (a row sent twice in
    one instance). -/
theorem page_step (P : List Page) (b : Buf) (s : Spec.Teletext.St) (h : PRel P b s) (t : Int)
    (p : Spec.Teletext.Packet) (hp : PacketOK p) :
    (Spec.Teletext.step t s p).bad = true ∨ PRel P (applyPacket t b p) (Spec.Teletext.step t s p) :=
  h.packet t p hp

/-- **Stream simulation.**  From the initial states for a page option below 25600 (0 = automatic), after any list of
    PES packets (all bytes) that the specification can cut and decode, the model's accumulator and the
    specification's automaton are related (`ARel`), unless the specification has left its class. -/
theorem stream_simulation (page : Nat) (pes : List (Int × List Nat)) (pk : List (Int × List Spec.Teletext.Packet))
    (hpage : page < 25600) (hb : ∀ p ∈ pes, Bytes p.2) (hpk : specPackets pes = some pk) :
    (runSpec { sel := Spec.Teletext.selOf page } pk).bad = true ∨
      ARel (runAcc { buf := newBuf page } pes) (runSpec { sel := Spec.Teletext.selOf page } pk) :=
  stream_sim pes pk _ _ (ARel.init page hpage) hb hpk

/-- **The pages the model parses are the specification's instances**: finished pages with the times of the closing
    headers, then the open one ending at the last presentation time. -/
theorem stream_pages (a : Acc) (s : Spec.Teletext.St) (h : ARel a s) :
    finalPages a = (finalInsts s (a.last.getD 0)).map fun ie => pageOf ie.1 ie.2 :=
  finish_pages a s h

/-- **Time origin and last time** are the minimum and the maximum presentation time, as the specification
    computes them. -/
theorem stream_times (page : Nat) (t0 : Int) (d0 : List Nat) (pes : List (Int × List Nat)) :
    (runAcc { buf := newBuf page } ((t0, d0) :: pes)).first = some ((pes.map (·.1)).foldl min t0) ∧
    (runAcc { buf := newBuf page } ((t0, d0) :: pes)).last = some ((pes.map (·.1)).foldl max t0) :=
  first_last page t0 d0 pes

/-- **Character set designation.**  When the designations the specification met do not contradict each other, the
    table key `updateCharset` derives from the remembered X/28 – M/29 triplets is the specification's. -/
theorem stream_key (a : Acc) (s : Spec.Teletext.St) (h : ARel a s) (hk : s.keys.any (· != s.keys.headD 0) = false) :
    keyOf (tripletOf a.buf.x28 a.buf.m29) = s.keys.headD 0 :=
  key_agrees a s h hk

/-! ## 6. End to end from the PES level -/

/-- The specification's class of streams, decidable: the page option is below 25600, payloads are bytes, every payload
    is cut into complete data units whose subtitle units decode (no Hamming errors in protected bytes), no row is
    sent twice in an instance, the character set designations do not contradict each other, and the package knows
    the designation of every instance that has rows. -/
def inClass (page : Nat) (pes : List (Int × List Nat)) : Bool :=
  decide (page < 25600) && pes.all (fun p => decide (Bytes p.2)) &&
  match specPackets pes, pes with
  | some pk, (t0, _) :: rest =>
    let s := runSpec { sel := Spec.Teletext.selOf page } pk
    !s.bad && !s.keys.any (· != s.keys.headD 0) &&
    ((finalInsts s ((rest.map (·.1)).foldl max t0)).filter fun ie => !ie.1.rows.isEmpty).all fun ie =>
      (lookupCharset (s.keys.headD 0) ie.1.code).isSome
  | _, _ => false

/-- **End to end.**  For every non-empty stream of PES packets in the specification's class, with `s` the final state
    of the specification's automaton, `first` / `last` the minimum / maximum presentation time, `key` the
    designation, and `L` the instances that have rows (finished ones with the time of their closing header, the
    open one with `last`):

    * the model returns one cue per instance of `L`, in order: start and end are the instance's relative to `first`,
      and the lines are, row by row in row order, the items (`itemOf`) of the row's non-blank raw runs
      (`modelOf`, `cueRaw`);
    * the specification denotes one cue per instance of `L`: the same times, and the lines are the `VRun`s
      (`denote ∘ viewM`) of *the same* raw runs (`specOf`), normalised.

    By `row_item_text` an item and the `VRun` of a raw run carry the same text, attributes and blank counts. -/
theorem stream (page : Nat) (t0 : Int) (d0 : List Nat) (pes : List (Int × List Nat))
    (h : inClass page ((t0, d0) :: pes) = true) :
    ∃ pk, specPackets ((t0, d0) :: pes) = some pk ∧
      let s := runSpec { sel := Spec.Teletext.selOf page } pk
      let first := (pes.map (·.1)).foldl min t0
      let last := (pes.map (·.1)).foldl max t0
      let key := s.keys.headD 0
      let L := (finalInsts s last).filter fun ie => !ie.1.rows.isEmpty
      runPES page ((t0, d0) :: pes) = { items := L.map (modelOf key first) } ∧
      Spec.Teletext.decode page ((t0, d0) :: pes) = some (L.map (specOf key first)) := by
  unfold inClass at h
  cases hpk : specPackets ((t0, d0) :: pes) with
  | none => simp [hpk] at h
  | some pk =>
    simp only [hpk, Bool.and_eq_true, decide_eq_true_eq, List.all_eq_true, Bool.not_eq_true'] at h
    obtain ⟨⟨hpage, hb⟩, ⟨hbad, hkeys⟩, hknown⟩ := h
    exact ⟨pk, rfl, stream_agree page t0 d0 pes pk hpage hb hpk hbad hkeys hknown⟩

/-- the empty stream: no cue on either side -/
theorem stream_empty (page : Nat) : runPES page [] = { items := [] } ∧ Spec.Teletext.decode page [] = some [] :=
  Teletext.stream_empty page

/-! ### non-vacuity: a concrete stream in the class -/

/-- a stream byte carrying a Hamming 8/4 protected nibble / an odd-parity character (the specification's encoders) -/
def ham (n : Nat) : Nat := Spec.Teletext.reverseBits (Spec.Teletext.hammingEncode n)
def par (c : Nat) : Nat := Spec.Teletext.parityEncode c

/-- a subtitle data unit: magazine (1..8), packet number, 40 data bytes -/
def unitOf (mag y : Nat) (d : List Nat) : DUnit := (3, [0x02, 0xe4, ham (mag % 8 + y % 2 * 8), ham (y / 2)] ++ d)

def headerData (tens units c5 c7 : Nat) : List Nat :=
  [ham units, ham tens, ham 0, ham 0, ham 0, ham c5, ham 0, ham c7] ++ List.replicate 32 (par 0x20)

def rowData (cs : List Nat) : List Nat := (cs ++ List.replicate (40 - cs.length) 0x20).map par

/-- page 888 with the subtitle flag at 1000 ns, a stuffing unit, row 20 "yellow, start box, HI, end box"; the next header
    of page 888 at 3000 ns -/
def exampleStream : List (Int × List Nat) :=
  [ (1000, 0x10 :: encodeUnits [unitOf 8 0 (headerData 8 8 8 0), (0xff, [0xff, 0xff]),
                                unitOf 8 20 (rowData [0x0b, 0x0b, 0x03, 0x48, 0x49, 0x0a])]),
    (3000, 0x10 :: encodeUnits [unitOf 8 0 (headerData 8 8 8 0)]) ]

example : inClass 888 exampleStream = true ∧ inClass 0 exampleStream = true := by decide +kernel

/-! ## 7. What the driver judges -/

/-- **`viewItem ∘ itemOf`.**  For a raw run whose colour (if any) is one of the eight teletext colours, the driver reads
    the line item `appendTeletextLineItem` builds back as: the attributes the style denotes, the item's trimmed text,
    and the blank counts — through the sorted key/value list, the colour table and `toString` / `String.toNat?`. -/
theorem view_item (r : MRun) (h : ∀ col, r.1.color = some col → col < 8) :
    Driver.TT.viewItem (itemOf r) =
      some { attr := attrOf r.1, text := Go.trimSpace r.2, before := countLeading r.2, after := countLeading r.2.reverse } :=
  viewItem_itemOf r h

/-- **The driver's view of the model's answer is what the stream denotes.**  For every non-empty stream in the
    specification's class, the cues the driver reads out of the model's answer (`viewSubs`) are exactly the cues of
    the independent decoder, which exist. -/
theorem stream_view (page : Nat) (t0 : Int) (d0 : List Nat) (pes : List (Int × List Nat))
    (h : inClass page ((t0, d0) :: pes) = true) :
    Driver.TT.viewSubs (runPES page ((t0, d0) :: pes)) = Spec.Teletext.decode page ((t0, d0) :: pes) ∧
    (Spec.Teletext.decode page ((t0, d0) :: pes)).isSome = true := by
  unfold inClass at h
  cases hpk : specPackets ((t0, d0) :: pes) with
  | none => simp [hpk] at h
  | some pk =>
    simp only [hpk, Bool.and_eq_true, decide_eq_true_eq, List.all_eq_true, Bool.not_eq_true'] at h
    obtain ⟨⟨hpage, hb⟩, ⟨hbad, hkeys⟩, hknown⟩ := h
    refine ⟨viewSubs_runPES page t0 d0 pes pk hpage hb hpk hbad hkeys hknown, ?_⟩
    rw [(stream_agree page t0 d0 pes pk hpage hb hpk hbad hkeys hknown).2]; rfl

/-- the empty stream -/
theorem stream_view_empty (page : Nat) : Driver.TT.viewSubs (runPES page []) = Spec.Teletext.decode page [] := rfl

/-- **`teletext.read`.**  On what the demultiplexer delivered in the reading pass (ended by `ErrNoMorePackets`), the
    reader's data loop is `runPES` on the PES packets of the chosen PID with stream id 0xbd and a time stamp (the
    driver's `pesOf`); so for every such record whose PES packets are in the specification's class, the driver's view
    of the model's answer is what the stream denotes. -/
theorem read_view (page pid : Nat) (pass : List Data) :
    readLoop page pid pass true = .ok (runPES page (Driver.TT.pesOf pid pass)) ∧
    ∀ t0 d0 pes, Driver.TT.pesOf pid pass = (t0, d0) :: pes → inClass page ((t0, d0) :: pes) = true →
      Driver.TT.viewSubs (runPES page (Driver.TT.pesOf pid pass)) = Spec.Teletext.decode page (Driver.TT.pesOf pid pass) := by
  refine ⟨readLoop_runPES page pid pass, ?_⟩
  intro t0 d0 pes he h
  rw [he]
  exact (stream_view page t0 d0 pes h).1

end C06
end Astisub
