import Astisub.Model.STL
import Astisub.Spec.STL
import Astisub.Props.C16
import Astisub.Lemmas.Str

/-!
# C05 — EBU STL codec: component laws

Statements about `Model/STL.lean` (the model of `stl.go` that the `stl.*` correspondence streams tie to
the code on every run) and the regenerated tables `Generated/STLTables.lean`.

* tables (checked entry-wise by `decide` on the regenerated data): the ASCII half of the Latin table,
  injectivity, the 13 floating diacritics, and — for every table character the writer is claimed to
  carry and every letter × diacritic pair — `decode (encode c) = c`;
* framing, for all inputs: a written file is one 1024-byte GSI block plus one 128-byte TTI block per cue;
* rows: the row splitter inverts the writer's join, user-data blocks are skipped;
* text, for all inputs: printable ASCII text (without `$`) is encoded byte for byte and decoded back,
  by induction over the text with the pending-diacritic state as invariant;
* text, for all inputs over the whole repertoire: any sequence of units (carried table characters, letters
  with one floating diacritic) is written as the units' bytes and read back unchanged (`repertoire_roundtrip`);
* GSI text fields, for all values: blank padding by the writer + `TrimSpace` by the reader is the identity on
  values that start and end with a graphic ASCII character (`field_roundtrip`);
* timecodes, for both frame rates and every instant below 24 h: reading a written timecode and writing
  it again (with any programme-start offset subtracted and added back) gives the same four bytes.

The whole-document statements (read ∘ render, write → read, write → independent decoder) are not
proved here; they are decided on every run by `stl.read` / `stl.write` with `Spec.STL.decode`.
-/

namespace Astisub
namespace C05
open Go STL

/-! ## tables -/

/-- the Latin table is ISO 646 on 0x20–0x7E except the currency sign at 0x24 -/
theorem table_ascii : ∀ k, k < 0x7F → 0x20 ≤ k → k ≠ 0x24 → tableGet k = some [k] := by
  decide +kernel

/-- 0x24 is the currency sign `¤`, `$` sits at 0xA4 (ISO 6937) -/
theorem table_currency : tableGet 0x24 = some [0xA4] ∧ tableGet 0xA4 = some [0x24] := by decide +kernel

/-- control codes, the style codes, the line break and the padding byte are not characters -/
theorem table_no_codes : ∀ k, k < 0xA0 → (k < 0x20 ∨ 0x7F ≤ k) → tableGet k = none := by
  decide +kernel

/-- no two bytes of the table denote the same string -/
theorem table_injective : (Generated.STL.cct12336.map (·.2)).Nodup := by decide +kernel

/-- no byte occurs twice in the table -/
theorem table_keys_nodup : (Generated.STL.cct12336.map (·.1)).Nodup := by decide +kernel

/-- the floating diacritics are exactly 13 bytes of 0xC1–0xCF, each a single combining mark of class ≠ 0 -/
theorem table_diacritics :
    (Generated.STL.cct12336.filter fun e => isAccentByte e.1).map (·.1)
      = [0xC1, 0xC2, 0xC3, 0xC4, 0xC5, 0xC6, 0xC7, 0xC8, 0xCA, 0xCB, 0xCD, 0xCE, 0xCF] ∧
    ∀ e ∈ Generated.STL.cct12336, isAccentByte e.1 = true → e.2.length = 1 ∧ cccOf (e.2.headD 0) ≠ 0 := by
  decide +kernel

/-- decoding a whole byte string with one handler -/
def decodeAll : Option Nat → Bytes → List Nat × Option Nat
  | acc, [] => ([], acc)
  | acc, k :: ks =>
    let r := decode acc k
    let r' := decodeAll r.2 ks
    (r.1 ++ r'.1, r'.2)

/-- the characters the writer is claimed to carry: every table character except the floating
    diacritics themselves and the two currency signs (known finding D22) -/
def carried : List (Nat × List Nat) :=
  Generated.STL.cct12336.filter fun e => !isAccentByte e.1 && e.1 != 0x24 && e.1 != 0xA4

/-- a unit of repertoire text together with its bytes in the file -/
structure Unit where
  text : List Nat
  bytes : Bytes

def charUnit (e : Nat × List Nat) : Unit := ⟨e.2, [e.1]⟩
def accentUnit (a l : Nat) : Unit := ⟨nfcPair l a, [a, l]⟩

def nfdGo (out : List Nat) (t : List Nat) : List Nat := (t.flatMap decomp).foldl nfdStep out

/-- the first decomposed character of `t` is a starter -/
def startsStarter (t : List Nat) : Bool :=
  match t.flatMap decomp with
  | s :: _ => cccOf s == 0
  | [] => false

/-- the first character of the normalised text is not a floating diacritic (it pushes a byte of its own) -/
def startsBase (t : List Nat) : Bool :=
  match nfd t with
  | s :: _ => (Generated.STL.unicodeInv.lookup s).isSome || (Generated.STL.diacriticInv.lookup s).isNone
  | [] => false

/-- the unit is written as its bytes, read back as its text, and is self-contained for NFD and for
    the writer's diacritic swap -/
def Unit.good (u : Unit) : Prop :=
  encodeText u.text = u.bytes ∧ decodeAll none u.bytes = (u.text, none) ∧ startsStarter u.text = true ∧ startsBase u.text = true

def goodB (u : Unit) : Bool :=
  decide (encodeText u.text = u.bytes) && decide (decodeAll none u.bytes = (u.text, none)) && startsStarter u.text && startsBase u.text

theorem goodB_good (u : Unit) (h : goodB u = true) : u.good := by
  unfold goodB at h
  simp only [Bool.and_eq_true, decide_eq_true_eq] at h
  exact ⟨h.1.1.1, h.1.1.2, h.1.2, h.2⟩

def letters : List Nat := (List.range 26).map (· + 0x41) ++ (List.range 26).map (· + 0x61)
def accents : List Nat := [0xC1, 0xC2, 0xC3, 0xC4, 0xC5, 0xC6, 0xC7, 0xC8, 0xCA, 0xCB, 0xCD, 0xCE, 0xCF]

/-- table check, entry by entry: every carried table character is a good unit -/
theorem char_units_good : ∀ e ∈ carried, goodB (charUnit e) = true := by
  decide +kernel

/-- table check, pair by pair: every letter carrying one of the 13 diacritics is a good unit -/
theorem accent_units_good : ∀ a ∈ accents, ∀ l ∈ letters, goodB (accentUnit a l) = true := by
  decide +kernel

/-- **every carried table character survives write → read**: its encoding is the one byte of the
    table, which decodes to it -/
theorem char_roundtrip : ∀ e ∈ carried, encodeText e.2 = [e.1] ∧ decodeAll none [e.1] = (e.2, none) := by
  intro e he
  have := goodB_good _ (char_units_good e he)
  exact ⟨this.1, this.2.1⟩

/-- **every letter × diacritic pair**: the reader composes `diacritic, letter` into `nfcPair`, the writer
    turns that text back into the same two bytes, diacritic first -/
theorem accent_roundtrip : ∀ a ∈ accents, ∀ l ∈ letters,
    decodeAll none [a, l] = (nfcPair l a, none) ∧ encodeText (nfcPair l a) = [a, l] := by
  intro a ha l hl
  have := goodB_good _ (accent_units_good a ha l hl)
  exact ⟨this.2.1, this.1⟩

/-- known finding D22 as a theorem about the tables: `$` is written as 0x24, which reads back as `¤`;
    `¤` is written as 0xA8, which the reader's table does not know -/
theorem currency_not_carried :
    encodeText [0x24] = [0x24] ∧ decodeAll none [0x24] = ([0xA4], none) ∧
    encodeText [0xA4] = [0xA8] ∧ decodeAll none [0xA8] = ([], none) := by
  decide +kernel

/-! ## framing -/

theorem padR_length (f n : Nat) (s : Bytes) : (padR f n s).length = n := by
  unfold padR; simp; omega

theorem padL_length (f n : Nat) (s : Bytes) : (padL f n s).length = n := by
  unfold padL; simp; omega

theorem num_length (w : Nat) (v : Int) : (num w v).length = w := padL_length _ _ _

/-- the GSI block is 1024 bytes, whatever the metadata -/
theorem gsiBytes_length (g : WGSI) : (gsiBytes g).length = 1024 := by
  unfold gsiBytes
  simp only [List.length_append, padR_length, num_length, List.length_replicate, List.length_cons, List.length_nil]

theorem formatSTLBytes_length (t : Int) (fr : Nat) : (Duration.formatSTLBytes t fr).length = 4 := by
  unfold Duration.formatSTLBytes; simp

/-- a TTI block is 128 bytes, whatever the cue -/
theorem ttiBytes_length (g : WGSI) (k : Nat) (c : WCue) : (ttiBytes g k c).length = 128 := by
  unfold ttiBytes
  simp [padR_length, formatSTLBytes_length]

theorem flatten_const_length {α} (l : List α) (f : α → Bytes) (n : Nat) (h : ∀ a, (f a).length = n) :
    ((l.map f).flatten).length = n * l.length := by
  induction l with
  | nil => simp
  | cons a as ih => simp [h a, ih, Nat.mul_succ]; omega

theorem body_length (g : WGSI) (cues : List (WCue × Nat)) :
    (gsiBytes g ++ (cues.map fun (c, k) => ttiBytes g (k + 1) c).flatten).length = 1024 + 128 * cues.length := by
  rw [List.length_append, gsiBytes_length,
    flatten_const_length cues (fun (c, k) => ttiBytes g (k + 1) c) 128 (fun ⟨c, k⟩ => ttiBytes_length g (k + 1) c)]

/-- **Framing.** A written file is one 1024-byte GSI block plus one 128-byte TTI block per cue -/
theorem write_length (now : Date) (md : Option Meta) (cues : List WCue) (b : Bytes)
    (h : write now md cues = .ok b) : b.length = 1024 + 128 * cues.length := by
  unfold write at h
  split at h
  · cases h
  · split at h
    · cases h
    · have hb := Res.ok.inj h
      rw [← hb]
      unfold writeBody
      rw [body_length, List.length_zipIdx]

/-- an empty cue list is refused -/
theorem write_empty (now : Date) (md : Option Meta) : write now md [] = .err := by
  unfold write; simp

/-! ## blocks and rows -/

/-- **User data.** A TTI block with extension block number 0xFE produces no cue and leaves the
    character handler alone -/
theorem userdata_skipped (g : GSI) (off : Int) (acc : Option Nat) (p : Bytes) (h : p.getD 3 0 = 0xFE) :
    ttiItem g off acc p = some (none, acc) := by
  have hc : (p.getD 3 0 == 0xFE) = true := by rw [h]; rfl
  unfold ttiItem
  rw [if_pos hc]

theorem splitRows_cons_ne (x : Nat) (xs : Bytes) (h : x ≠ 0x8A) :
    splitRows (x :: xs) = (match splitRows xs with | [] => [[x]] | r :: t => (x :: r) :: t) := by
  conv => lhs; unfold splitRows
  have : (x == 0x8A) = false := by simpa using h
  simp only [this]
  rfl

theorem splitRows_append (r : Bytes) (rest : Bytes) (hr : ∀ x ∈ r, x ≠ 0x8A) :
    splitRows (r ++ 0x8A :: rest) = r :: splitRows rest := by
  induction r with
  | nil => conv => lhs; unfold splitRows
           simp
  | cons x xs ih =>
    have hx : x ≠ 0x8A := hr x (by simp)
    rw [List.cons_append, splitRows_cons_ne _ _ hx, ih (fun y hy => hr y (by simp [hy]))]

theorem splitRows_single (r : Bytes) (hr : ∀ x ∈ r, x ≠ 0x8A) : splitRows r = [r] := by
  induction r with
  | nil => rfl
  | cons x xs ih =>
    have hx : x ≠ 0x8A := hr x (by simp)
    rw [splitRows_cons_ne _ _ hx, ih (fun y hy => hr y (by simp [hy]))]

/-- **Rows.** Splitting at the line-break code inverts the writer's join of the rows -/
theorem splitRows_join (rows : List Bytes) (hne : rows ≠ []) (h : ∀ r ∈ rows, ∀ x ∈ r, x ≠ 0x8A) :
    splitRows (joinN [0x8A] rows) = rows := by
  induction rows with
  | nil => exact absurd rfl hne
  | cons r rs ih =>
    cases rs with
    | nil => simpa [joinN] using splitRows_single r (h r (by simp))
    | cons r2 rs' =>
      have : joinN [0x8A] (r :: r2 :: rs') = r ++ 0x8A :: joinN [0x8A] (r2 :: rs') := by simp [joinN]
      rw [this, splitRows_append r _ (h r (by simp)), ih (by simp) (fun r' hr' => h r' (by simp [hr']))]

/-! ## text: printable ASCII, for all inputs -/

/-- printable ASCII without `$` (0x24 is `¤` in ISO 6937, known finding D22) -/
def plain (c : Nat) : Prop := 0x20 ≤ c ∧ c < 0x7F ∧ c ≠ 0x24

theorem enc_lookup_plain : ∀ c, c < 0x7F → 0x20 ≤ c →
    Generated.STL.unicodeInv.lookup c = none ∧ Generated.STL.diacriticInv.lookup c = none := by
  decide +kernel

theorem nfd_fold_plain (s : List Nat) (hs : ∀ c ∈ s, c < 0x80) (out : List Nat) :
    s.foldl nfdStep out = s.reverse ++ out := by
  induction s generalizing out with
  | nil => simp
  | cons c cs ih =>
    have hc : c < 0x80 := hs c (by simp)
    have : nfdStep out c = c :: out := by simp [nfdStep, cccOf, hc]
    rw [List.foldl_cons, this, ih (fun y hy => hs y (by simp [hy]))]
    simp

theorem flatMap_decomp_plain (s : List Nat) (hs : ∀ c ∈ s, c < 0x80) : s.flatMap decomp = s := by
  induction s with
  | nil => simp
  | cons c cs ih =>
    have hc : c < 0x80 := hs c (by simp)
    simp [List.flatMap_cons, decomp, hc, ih (fun y hy => hs y (by simp [hy]))]

/-- NFD leaves ASCII text alone -/
theorem nfd_plain (s : List Nat) (hs : ∀ c ∈ s, c < 0x80) : nfd s = s := by
  unfold nfd
  rw [flatMap_decomp_plain s hs, nfd_fold_plain s hs]
  simp

theorem enc_fold_plain (s : List Nat) (hs : ∀ c ∈ s, plain c) (out : Bytes) :
    s.foldl encStep out = s.reverse ++ out := by
  induction s generalizing out with
  | nil => simp
  | cons c cs ih =>
    obtain ⟨h1, h2, _⟩ := hs c (by simp)
    obtain ⟨e1, e2⟩ := enc_lookup_plain c h2 h1
    have hm : c % 256 = c := by omega
    have : encStep out c = c :: out := by simp [encStep, e1, e2, hm]
    rw [List.foldl_cons, this, ih (fun y hy => hs y (by simp [hy]))]
    simp

/-- **Writer, ASCII.** Printable ASCII text is written byte for byte -/
theorem encodeText_plain (s : List Nat) (hs : ∀ c ∈ s, plain c) : encodeText s = s := by
  unfold encodeText
  rw [nfd_plain s (fun c hc => by have := hs c hc; unfold plain at this; omega), enc_fold_plain s hs]
  simp

theorem decode_plain (c : Nat) (hc : plain c) : decode none c = ([c], none) := by
  obtain ⟨h1, h2, h3⟩ := hc
  have ht := table_ascii c h2 h1 h3
  have ha : isAccentByte c = false := by unfold isAccentByte; simp; omega
  simp [decode, ht, ha]

/-- **Reader, ASCII.** … and read back character for character, with no diacritic left pending -/
theorem decodeAll_plain (s : List Nat) (hs : ∀ c ∈ s, plain c) : decodeAll none s = (s, none) := by
  induction s with
  | nil => rfl
  | cons c cs ih =>
    simp [decodeAll, decode_plain c (hs c (by simp)), ih (fun y hy => hs y (by simp [hy]))]

/-- **Text round trip (ASCII), for every text**: `decode (encode t) = t` -/
theorem text_roundtrip_plain (s : List Nat) (hs : ∀ c ∈ s, plain c) :
    decodeAll none (encodeText s) = (s, none) := by
  rw [encodeText_plain s hs, decodeAll_plain s hs]

/-- the open-subtitling row loop on plain bytes only appends the decoded characters -/
theorem openFold_plain (row : Bytes) (hs : ∀ c ∈ row, plain c) (st : RowSt) (hacc : st.acc = none) :
    openFold st row = some { st with text := st.text ++ str row, acc := none } := by
  induction row generalizing st with
  | nil =>
    cases st
    simp_all [openFold, str]
  | cons c cs ih =>
    have hc := hs c (by simp)
    obtain ⟨h1, h2, h3⟩ := hc
    have hstep : openStep st c = some { st with text := st.text ++ str [c], acc := none } := by
      have hcode : stlCode st.sty c = none := by
        unfold stlCode
        have : ¬ c = 0x80 ∧ ¬ c = 0x81 ∧ ¬ c = 0x82 ∧ ¬ c = 0x83 ∧ ¬ c = 0x84 ∧ ¬ c = 0x85 := by omega
        simp [this.1, this.2.1, this.2.2.1, this.2.2.2.1, this.2.2.2.2.1, this.2.2.2.2.2]
      have hlo : ¬ c ≤ 0x1F := by omega
      unfold openStep
      simp only [hlo, if_false, hcode, hacc, decode_plain c (hs c (by simp))]
    rw [openFold, hstep]
    simp only
    rw [ih (fun y hy => hs y (by simp [hy])) _ rfl]
    simp [str]

/-- **Rows, ASCII.** A row of printable ASCII (not blank) is read as one line with one run: the text
    with the blanks at both ends removed, no style attribute set -/
theorem openRow_plain (row : Bytes) (hs : ∀ c ∈ row, plain c) (hnb : trimSpace (str row) ≠ []) :
    openRow none row = some (some { items := [{ text := trimSpace (str row), attrs := some (mkAttrs (stlAttrs {})) }] }, none) := by
  unfold openRow
  rw [openFold_plain row hs _ rfl]
  simp [appendOpen, hnb]

/-! ## text: every text over the repertoire -/

theorem insertMark_append (c k s : Nat) (q rest : List Nat) (hs : cccOf s = 0) :
    insertMark c k (q ++ s :: rest) = insertMark c k q ++ s :: rest := by
  induction q with
  | nil => simp [insertMark, hs]
  | cons x xs ih =>
    simp only [List.cons_append, insertMark]
    split
    · rw [ih]; rfl
    · rfl

theorem nfdStep_append (c s : Nat) (q rest : List Nat) (hs : cccOf s = 0) :
    nfdStep (q ++ s :: rest) c = nfdStep q c ++ s :: rest := by
  unfold nfdStep
  simp only
  split
  · rfl
  · exact insertMark_append _ _ _ _ _ hs

theorem nfdFold_append (s : Nat) (l q rest : List Nat) (hs : cccOf s = 0) :
    l.foldl nfdStep (q ++ s :: rest) = l.foldl nfdStep q ++ s :: rest := by
  induction l generalizing q with
  | nil => rfl
  | cons c cs ih => rw [List.foldl_cons, nfdStep_append _ _ _ _ hs, ih, List.foldl_cons]

theorem nfd_eq (t : List Nat) : nfd t = (nfdGo [] t).reverse := rfl

theorem nfdGo_unit (t out : List Nat) (h : startsStarter t = true) : nfdGo out t = nfdGo [] t ++ out := by
  unfold startsStarter at h
  unfold nfdGo
  cases hd : t.flatMap decomp with
  | nil => rw [hd] at h; cases h
  | cons s m =>
    rw [hd] at h
    have hs : cccOf s = 0 := by simpa using h
    have e1 : ∀ o, nfdStep o s = s :: o := by intro o; simp [nfdStep, hs]
    rw [List.foldl_cons, List.foldl_cons, e1, e1]
    have := nfdFold_append s m [] out hs
    have := nfdFold_append s m [] [] hs
    simp_all

theorem nfdGo_append (a b out : List Nat) : nfdGo out (a ++ b) = nfdGo (nfdGo out a) b := by
  unfold nfdGo; rw [List.flatMap_append, List.foldl_append]


theorem encStep_append (c : Nat) (q rest : Bytes) (hq : q ≠ []) : encStep (q ++ rest) c = encStep q c ++ rest := by
  unfold encStep
  cases q with
  | nil => exact absurd rfl hq
  | cons x xs =>
    split
    · rfl
    · split <;> rfl

theorem encStep_ne_nil (c : Nat) (q : Bytes) : encStep q c ≠ [] := by
  unfold encStep
  split
  · simp
  · split
    · cases q <;> simp
    · simp

theorem encFold_append (l : List Nat) (q rest : Bytes) (hq : q ≠ []) :
    l.foldl encStep (q ++ rest) = l.foldl encStep q ++ rest := by
  induction l generalizing q with
  | nil => rfl
  | cons c cs ih => rw [List.foldl_cons, encStep_append _ _ _ hq, ih _ (encStep_ne_nil _ _), List.foldl_cons]

theorem encGo_unit (t : List Nat) (out : Bytes) (h : startsBase t = true) :
    (nfd t).foldl encStep out = (nfd t).foldl encStep [] ++ out := by
  unfold startsBase at h
  cases hd : nfd t with
  | nil => rw [hd] at h; cases h
  | cons s m =>
    rw [hd] at h
    have e1 : ∀ o, encStep o s = encStep [] s ++ o := by
      intro o
      unfold encStep
      cases hu : Generated.STL.unicodeInv.lookup s with
      | some b => rfl
      | none =>
        cases hdi : Generated.STL.diacriticInv.lookup s with
        | some b => simp [hu, hdi] at h
        | none => rfl
    rw [List.foldl_cons, List.foldl_cons, e1 out, encFold_append _ _ _ (encStep_ne_nil _ _)]

theorem nfdGo_units (us : List Unit) (h : ∀ u ∈ us, u.good) (out : List Nat) :
    (nfdGo out (us.flatMap (·.text))).reverse = out.reverse ++ us.flatMap (fun u => nfd u.text) := by
  induction us generalizing out with
  | nil => simp [nfdGo]
  | cons u us ih =>
    have hu := h u (by simp)
    rw [List.flatMap_cons, nfdGo_append, nfdGo_unit _ _ hu.2.2.1, ih (fun v hv => h v (by simp [hv]))]
    simp [nfd_eq]

theorem nfd_units (us : List Unit) (h : ∀ u ∈ us, u.good) :
    nfd (us.flatMap (·.text)) = us.flatMap (fun u => nfd u.text) := by
  rw [nfd_eq, nfdGo_units us h []]; simp

theorem encGo_units (us : List Unit) (h : ∀ u ∈ us, u.good) (out : Bytes) :
    ((us.flatMap (fun u => nfd u.text)).foldl encStep out).reverse = out.reverse ++ us.flatMap (fun u => encodeText u.text) := by
  induction us generalizing out with
  | nil => simp
  | cons u us ih =>
    have hu := h u (by simp)
    rw [List.flatMap_cons, List.foldl_append, encGo_unit _ _ hu.2.2.2, ih (fun v hv => h v (by simp [hv]))]
    simp [encodeText]

theorem decodeAll_append (a b : Bytes) (acc : Option Nat) :
    decodeAll acc (a ++ b) = ((decodeAll acc a).1 ++ (decodeAll (decodeAll acc a).2 b).1, (decodeAll (decodeAll acc a).2 b).2) := by
  induction a generalizing acc with
  | nil => simp [decodeAll]
  | cons k ks ih => simp [decodeAll, ih, List.append_assoc]

/-- **Text round trip, every text over the repertoire.** For any sequence of units — table characters and
    letters carrying one diacritic — the writer emits exactly the units' bytes and the reader turns them
    back into the same text, with no diacritic left pending -/
theorem text_roundtrip (us : List Unit) (h : ∀ u ∈ us, u.good) :
    encodeText (us.flatMap (·.text)) = us.flatMap (·.bytes) ∧
    decodeAll none (us.flatMap (·.bytes)) = (us.flatMap (·.text), none) := by
  constructor
  · have := encGo_units us h []
    unfold encodeText
    rw [nfd_units us h, this]
    simp only [List.reverse_nil, List.nil_append]
    induction us with
    | nil => rfl
    | cons u us ih =>
      rw [List.flatMap_cons, List.flatMap_cons, (h u (by simp)).1, ih (fun v hv => h v (by simp [hv]))]
      exact encGo_units us (fun v hv => h v (by simp [hv])) []
  · induction us with
    | nil => rfl
    | cons u us ih =>
      have hu := h u (by simp)
      rw [List.flatMap_cons, List.flatMap_cons, decodeAll_append, hu.2.1]
      simp only
      rw [ih (fun v hv => h v (by simp [hv]))]


/-- the units of the Latin repertoire: a carried table character, or a letter with one floating diacritic -/
inductive RepUnit : Unit → Prop
  | ch (e : Nat × List Nat) (h : e ∈ carried) : RepUnit (charUnit e)
  | acc (a l : Nat) (ha : a ∈ accents) (hl : l ∈ letters) : RepUnit (accentUnit a l)

/-- **C05 text.** Every text made of repertoire units — in any order and of any length — is written as
    the concatenation of the units' bytes (diacritic before its letter) and read back unchanged -/
theorem repertoire_roundtrip (us : List Unit) (h : ∀ u ∈ us, RepUnit u) :
    encodeText (us.flatMap (·.text)) = us.flatMap (·.bytes) ∧
    decodeAll none (encodeText (us.flatMap (·.text))) = (us.flatMap (·.text), none) := by
  have hg : ∀ u ∈ us, u.good := by
    intro u hu
    cases h u hu with
    | ch e he => exact goodB_good _ (char_units_good e he)
    | acc a l ha hl => exact goodB_good _ (accent_units_good a ha l hl)
  have := text_roundtrip us hg
  exact ⟨this.1, by rw [this.1]; exact this.2⟩

/-! ## GSI fields -/

/-- a graphic ASCII byte (printable, not the space) -/
def graphic (b : Nat) : Prop := 0x21 ≤ b ∧ b ≤ 0x7E

theorem wsLen_graphic (b : Nat) (r : Bytes) (h : graphic b) : wsLen (b :: r) = 0 := by
  obtain ⟨h1, h2⟩ := h
  have a1 : asciiSpace b = false := by
    unfold asciiSpace
    have : ¬ b = 0x20 := by omega
    have : ¬ b ≤ 0x0D := by omega
    simp [*]
  have c1 : (b == 0xC2) = false := by simp; omega
  have c2 : (b == 0xE1) = false := by simp; omega
  have c3 : (b == 0xE2) = false := by simp; omega
  have c4 : (b == 0xE3) = false := by simp; omega
  unfold wsLen
  simp [a1, c1, c2, c3, c4]

theorem wsLenR_graphic (b : Nat) (r : Bytes) (h : graphic b) : wsLenR (b :: r) = 0 := by
  obtain ⟨h1, h2⟩ := h
  have a1 : asciiSpace b = false := by
    unfold asciiSpace
    have : ¬ b = 0x20 := by omega
    have : ¬ b ≤ 0x0D := by omega
    simp [*]
  have e1 : (b == 0x85) = false := by simp; omega
  have e2 : (b == 0xA0) = false := by simp; omega
  have e3 : (b == 0x80) = false := by simp; omega
  have e4 : (b == 0x9F) = false := by simp; omega
  have e5 : (b == 0xA8) = false := by simp; omega
  have e6 : (b == 0xA9) = false := by simp; omega
  have e7 : (b == 0xAF) = false := by simp; omega
  have e8 : decide (0x80 ≤ b) = false := by simp; omega
  unfold wsLenR
  simp only [a1]
  cases r with
  | nil => simp
  | cons c more =>
    cases more with
    | nil => simp [e1, e2]
    | cons d rest => simp [e1, e2, e3, e4, e5, e6, e7, e8]

theorem wsLen_space (r : Bytes) : wsLen (0x20 :: r) = 1 := by simp [wsLen, asciiSpace]
theorem wsLenR_space (r : Bytes) : wsLenR (0x20 :: r) = 1 := by simp [wsLenR, asciiSpace]

theorem trimWith_spaces (f : Bytes → Nat) (hf : ∀ r, f (0x20 :: r) = 1) (k fuel : Nat) (y : Bytes) (h : k ≤ fuel) :
    trimWith f fuel (List.replicate k 0x20 ++ y) = trimWith f (fuel - k) y := by
  induction k generalizing fuel with
  | zero => simp
  | succ k ih =>
    cases fuel with
    | zero => omega
    | succ fuel =>
      simp only [List.replicate_succ, List.cons_append, trimWith, hf]
      simp only [Nat.reduceBEq, Bool.false_eq_true, if_false, List.drop_one, List.tail_cons]
      rw [ih fuel (by omega)]
      congr 1
      omega

theorem trimWith_stop (f : Bytes → Nat) (fuel : Nat) (y : Bytes) (h : f y = 0) : trimWith f fuel y = y := by
  cases fuel with
  | zero => rfl
  | succ n => simp [trimWith, h]

theorem trimWith_nil (f : Bytes → Nat) (fuel : Nat) : trimWith f fuel [] = [] := by
  cases fuel with
  | zero => rfl
  | succ n =>
    simp only [trimWith]
    split
    · rfl
    · simp; exact trimWith_nil f n

/-- **GSI text fields.** A value that starts and ends with a graphic ASCII character (anything in
    between), padded with blanks to the width of its field by the writer, is read back unchanged by the
    reader's `TrimSpace`; the empty value too -/
theorem field_roundtrip (s : Bytes) (n : Nat) (hn : s.length ≤ n)
    (hfirst : ∀ b, s.head? = some b → graphic b) (hlast : ∀ b, s.getLast? = some b → graphic b) :
    trimB (padR 0x20 n s) = s := by
  have hpad : padR 0x20 n s = s ++ List.replicate (n - s.length) 0x20 := by
    unfold padR
    apply List.take_of_length_le
    simp; omega
  rw [hpad]
  cases s with
  | nil =>
    simp only [List.nil_append, List.length_nil, Nat.sub_zero]
    unfold trimB trimLeftB
    have := trimWith_spaces wsLen wsLen_space n (List.replicate n 0x20).length [] (by simp)
    simp only [List.append_nil] at this
    rw [this, trimWith_nil]
    rfl
  | cons a s' =>
    have ha : graphic a := hfirst a rfl
    unfold trimB
    have hl : trimLeftB (a :: s' ++ List.replicate (n - (a :: s').length) 0x20) = a :: s' ++ List.replicate (n - (a :: s').length) 0x20 := by
      unfold trimLeftB
      exact trimWith_stop _ _ _ (by rw [List.cons_append]; exact wsLen_graphic a _ ha)
    rw [hl]
    unfold trimRightB
    rw [List.reverse_append, List.reverse_replicate]
    obtain ⟨z, zs, hz⟩ : ∃ z zs, (a :: s').reverse = z :: zs := by
      cases h : (a :: s').reverse with
      | nil => simp at h
      | cons z zs => exact ⟨z, zs, rfl⟩
    have hzg : graphic z := by
      apply hlast z
      rw [List.getLast?_eq_head?_reverse, hz]; rfl
    rw [trimWith_spaces wsLenR wsLenR_space _ _ _ (by simp; omega), hz, trimWith_stop _ _ _ (wsLenR_graphic z zs hzg), ← hz]
    simp

theorem trimB_id (s : Bytes) (hfirst : ∀ b, s.head? = some b → graphic b) (hlast : ∀ b, s.getLast? = some b → graphic b) :
    trimB s = s := by
  have := field_roundtrip s s.length (Nat.le_refl _) hfirst hlast
  have hp : padR 0x20 s.length s = s := by unfold padR; simp
  rwa [hp] at this

theorem ofNat_digit {k : Nat} (h : k < 10) : Char.ofNat (digitChar k).toNat = digitChar k := by
  rcases digitChar_lt h with h|h|h|h|h|h|h|h|h|h <;> subst h <;> decide

instance (b : Nat) : Decidable (graphic b) := by unfold graphic; infer_instance

theorem digit_graphic {k : Nat} (h : k < 10) : graphic (digitChar k).toNat := by
  rcases digitChar_lt h with h|h|h|h|h|h|h|h|h|h <;> subst h <;> decide

/-- **GSI two-digit numbers** (revision number, maximum rows / characters): what the writer emits for
    `0 ≤ v < 100` is read back as `v` -/
theorem num2_roundtrip (v : Nat) (h : v < 100) : atoiField (trimB (num 2 (v : Int))) = some (some (v : Int)) := by
  have hnum : num 2 (v : Int) = ascii (dd v) := by
    unfold num padL
    have hi : itoa (v : Int) = itoaNat v := by unfold itoa; simp
    rw [hi]
    by_cases h1 : v < 10
    · have e1 : v / 10 = 0 := by omega
      have e2 : v % 10 = v := by omega
      simp [itoaNat_lt10 h1, dd, ascii, e1, e2, digitChar]
    · simp [itoaNat_lt100 (by omega) h, dd, ascii]
  rw [hnum]
  have hg1 : graphic (digitChar (v / 10)).toNat := digit_graphic (by omega)
  have hg2 : graphic (digitChar (v % 10)).toNat := digit_graphic (by omega)
  rw [trimB_id]
  · have hc : chars (ascii (dd v)) = dd v := by
      simp only [chars, ascii, dd, List.map_cons, List.map_nil]
      rw [ofNat_digit (by omega), ofNat_digit (by omega)]
    have hne : (ascii (dd v)).isEmpty = false := by simp [ascii, dd]
    unfold atoiField
    rw [hne, hc, atoi_dd h]
    rfl
  · intro b hb; simp [ascii, dd] at hb; rw [← hb]; exact hg1
  · intro b hb; simp [ascii, dd] at hb; rw [← hb]; exact hg2

/-! ## timecodes -/

/-- **Read then write changes no timecode**, both frame rates, every instant below 24 h, any
    programme-start offset (subtracted by the reader, added back by the repaired writer) -/
theorem rewrite_timecode (T off : Int) (fr : Nat) (hfr : fr = 25 ∨ fr = 30) (h0 : 0 ≤ T) (h1 : T < 86400000000000) :
    Duration.formatSTLBytes ((Duration.parseSTLBytes true (Duration.formatSTLBytes T fr) fr - off) + off) fr
      = Duration.formatSTLBytes T fr := by
  have : Duration.parseSTLBytes true (Duration.formatSTLBytes T fr) fr - off + off
      = Duration.parseSTLBytes true (Duration.formatSTLBytes T fr) fr := by omega
  rw [this]
  exact (C16.stl_bytes_rewrite T fr hfr h0 h1).1

/-- the timecode bytes the writer emits are in range: `h < 24`, `m, s < 60`, `f < fr` -/
theorem timecode_fields (T : Int) (fr : Nat) (hfr : fr = 25 ∨ fr = 30) (h0 : 0 ≤ T) (h1 : T < 86400000000000) :
    ∃ h m s f, Duration.formatSTLBytes T fr = [h, m, s, f] ∧ h < 24 ∧ m < 60 ∧ s < 60 ∧ f < fr :=
  (C16.stl_bytes_rewrite T fr hfr h0 h1).2

/-- vertical position: under the teletext display standards the byte written is within 1–23 -/
theorem vp_teletext (vp : Int) (dsc : Bytes) (h : dsc = [0x31] ∨ dsc = [0x32]) :
    1 ≤ vpByte vp dsc ∧ vpByte vp dsc ≤ 23 := by
  unfold vpByte
  rcases h with rfl | rfl <;> simp <;> split <;> split <;> omega

/-- justification: what the writer emits is read back as the same justification -/
theorem justification_roundtrip : ∀ j : Fin 5, j.val ≠ 0 → justOf (justCode (some (j.val : Int))) = j.val := by
  decide

end C05
end Astisub
