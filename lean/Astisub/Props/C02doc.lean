import Astisub.Lemmas.VTTDoc

/-!
# C02 (write → read) — what the WebVTT reader makes of what the WebVTT writer emitted

Statements about the models `VTT.write` / `VTT.read` / `VTT.parseText` / `VTT.step`
(`Model/VTT.lean`), the tokenizer model `Go.tokenize` and the two regular-expression recognisers,
for **all** inputs satisfying explicit decidable provisos (`Tag.wf`, `voiceOk`, `runOk`, `lineOk`,
`lineFit`, `optOk`, `cueOk`; each has a concrete example next to its definition in `Lemmas/VTT*.lean`).

* `line_roundtrip` — a written line is parsed back run by run: same voice, same texts, instants
  truncated to the millisecond, same tag stacks (under any outer stack), outer stack left as found.
* `timing_roundtrip`, `number_roundtrip` — the timing line with any subset of the six settings,
  and the cue number line.
* `written_lines`, `read_written_lines`, `write_read` — the document level for cue lists without
  comments, regions, style blocks and timestamp map.
* `write_read_comments_Statement` — NOT proved: the same with comment blocks.

Lines are lists of characters: the UTF-8 / line-scanner layer between `write` and `read`
(`Driver.docLines`) is not part of these statements; `write_read` says that the written text has
no carriage return and is cut at its line feeds.
-/

namespace Astisub
namespace C02doc
open Go VTT

/-- **Tag emission re-parses (line round trip).**  Let `l` be a line whose voice (if any) and
    tags are well formed, whose runs have visible NUL-free text, instants in `[0, 100 h)`, no
    colour class, and in which two neighbouring runs differ in their stacks or are separated by
    an inline timestamp (`lineOk`).  Parsing the written line (its bytes without the final line
    feed) under ANY outer stack `sa` yields: the stack `sa` again, the voice, and for every run
    in order its text, its instant truncated to the millisecond and the stack `sa ++ tags`. -/
theorem line_roundtrip (l : Line) (hok : lineOk l = true) (sa : List Tag) :
    lineBytes l = lineBody l ++ ['\n'] ∧
    parseText (lineBody l) sa = .ok (sa, { voice := l.voice, items := l.items.map (readItem sa) }) :=
  ⟨lineBytes_eq l, parseText_lineBody l hok sa⟩

/-- what `readItem` is, field by field: text kept, instant truncated, the stack is the outer stack
    followed by the run's own tags, nothing else -/
theorem readItem_fields (sa : List Tag) (li : LItem) :
    (readItem sa li).text = li.text ∧ (readItem sa li).startAt = li.startAt - li.startAt % 1000000 ∧
    (readItem sa li).attrs = tagsAttrs (sa ++ tagsOfAttrs li.attrs) ∧ (readItem sa li).style = none :=
  ⟨rfl, rfl, rfl, rfl⟩

/-- single run: `<ts>` + start tags + escaped text + end tags comes back as that one run -/
theorem single_run_roundtrip (li : LItem) (hok : runOk li = true) (sa : List Tag) :
    parseText (runBytes none none li) sa = .ok (sa, { voice := [], items := [readItem sa li] }) := by
  have h := parseText_lineBody { items := [li] } (by simp [lineOk, hok, sepRuns]) sa
  simpa [lineBody, itemsBytes] using h

/-- two runs: the tags they share stay open between them, the others are closed and opened -/
theorem two_runs_roundtrip (a b : LItem) (ha : runOk a = true) (hb : runOk b = true)
    (hsep : tagsOfAttrs a.attrs ≠ tagsOfAttrs b.attrs ∨ 0 < b.startAt) (sa : List Tag) :
    parseText (runBytes none (some b) a ++ runBytes (some a) none b) sa
      = .ok (sa, { voice := [], items := [readItem sa a, readItem sa b] }) := by
  have h := parseText_lineBody { items := [a, b] } (by
    simp only [lineOk, sepRuns, runTags, List.all_cons, List.all_nil, ha, hb]
    rcases hsep with h | h <;> simp [h]) sa
  simpa [lineBody, itemsBytes] using h

/-- **Timing line.**  Whatever the reader's state, the timing line the writer emits for instants
    in `[0, 100 h)` and any subset of the settings align / line / position / region / size /
    vertical (values non-empty, without white space, `:` and `>`; the region defined) lists the
    cue under construction and opens a new one with the instants truncated to the millisecond and
    exactly those settings. -/
theorem timing_roundtrip (st : St) (s e : Int) (hs0 : 0 ≤ s) (hs1 : s < 360000000000000)
    (he0 : 0 ≤ e) (he1 : e < 360000000000000) (al ln po rg sz ve : Option Str)
    (hal : optOk al = true) (hln : optOk ln = true) (hpo : optOk po = true) (hrg : optOk rg = true)
    (hsz : optOk sz = true) (hve : optOk ve = true)
    (hdef : ∀ r, rg = some r → st.regions.any (·.id = r) = true) :
    step st (some (timingLine s e al ln po rg sz ve)) =
      .ok { st with done := flush st,
                    cur := { index := st.index, startAt := s - s % 1000000, endAt := e - e % 1000000,
                             region := rg, comments := st.comments, lines := [],
                             attrs := some (mkAttrs [("WebVTTAlign", al), ("WebVTTLine", ln), ("WebVTTPosition", po),
                                                     ("WebVTTSize", sz), ("WebVTTVertical", ve)]) },
                    curListed := true, block := .text, index := 0, comments := [] } :=
  step_timing st s e hs0 hs1 he0 he1 al ln po rg sz ve hal hln hpo hrg hsz hve hdef

/-- `timingLine` is the timing line of `cueBytes` -/
theorem timing_is_written (s : Subs) (k : Nat) (it : CItem) (hc : it.comments = []) :
    cueBytes s k it = unlines ([itoaNat (k + 1), cueTiming s it] ++ it.lines.map lineBody) ++ ['\n'] :=
  cueBytes_eq s k it hc

/-- **Cue number.**  outside any block the written number line sets the index of the next cue -/
theorem number_roundtrip (st : St) (k : Nat) (hb : st.block = .none) (hk : k + 1 ≤ int64Max) :
    step st (some (itoaNat (k + 1))) = .ok { st with index := (k : Int) + 1 } :=
  step_number st k hb hk

/-- **Layout.**  For a cue list without comments, regions, style blocks and timestamp map the
    written document is: `WEBVTT`, then for every cue a blank line, its number, its timing line
    and its text lines — every line terminated by a line feed. -/
theorem written_lines (s : Subs) (hne : s.items ≠ []) (hc : ∀ it ∈ s.items, it.comments = [])
    (hreg : s.regions = []) (hsty : styleLines s = []) (hmeta : SRT.kvGet s.metadata "WebVTTTimestampMap" = none) :
    write s = some (unlines (docLineList s)) :=
  write_lines s hne hc hreg hsty hmeta

/-- **Reading the written lines.**  every cue comes back with its 1-based number, instants
    truncated to the millisecond, the settings the writer resolved, and its lines run by run -/
theorem read_written_lines (s : Subs) (hok : ∀ it ∈ s.items, cueOk s it = true) (hlen : s.items.length ≤ int64Max) :
    read ((docLineList s).map some) = .ok (readSubs s) :=
  read_docLineList s hok hlen

/-- **Write → read (document level).**  A non-empty cue list without regions, style blocks and
    timestamp map whose cues satisfy `cueOk` (no comments, no region, instants in `[0, 100 h)`,
    plain settings, every line `lineFit`) is written; the text contains no carriage return, and the
    reader, given the text cut at its line feeds, returns `readSubs s`: per cue the number `k+1`,
    the truncated instants, the resolved settings, and every line as `line_roundtrip` describes. -/
theorem write_read (s : Subs) (hne : s.items ≠ []) (hok : ∀ it ∈ s.items, cueOk s it = true)
    (hlen : s.items.length ≤ int64Max)
    (hreg : s.regions = []) (hsty : styleLines s = []) (hmeta : SRT.kvGet s.metadata "WebVTTTimestampMap" = none) :
    ∃ doc, write s = some doc ∧ '\r' ∉ doc ∧ read (textLines doc) = .ok (readSubs s) :=
  read_write s hne hok hlen hreg hsty hmeta

/-- the cues of `readSubs`, field by field -/
theorem readSubs_items (s : Subs) :
    (readSubs s).items = s.items.zipIdx.map fun x =>
      { index := (x.2 : Int) + 1, startAt := x.1.startAt - x.1.startAt % 1000000,
        endAt := x.1.endAt - x.1.endAt % 1000000, region := none, comments := [],
        lines := x.1.lines.map fun l => { voice := l.voice, items := l.items.map (readItem []) },
        attrs := some (mkAttrs [("WebVTTAlign", fallback x.1.attrs (styleAttrs s x.1.style) "WebVTTAlign"),
          ("WebVTTLine", fallback x.1.attrs (styleAttrs s x.1.style) "WebVTTLine"),
          ("WebVTTPosition", fallback x.1.attrs (styleAttrs s x.1.style) "WebVTTPosition"),
          ("WebVTTSize", fallback x.1.attrs (styleAttrs s x.1.style) "WebVTTSize"),
          ("WebVTTVertical", fallback x.1.attrs (styleAttrs s x.1.style) "WebVTTVertical")]) } :=
  rfl

/-! ### not proved -/

/-- a comment line that survives: trimmed, non-empty, one line, and not mistaken for a block start -/
def commentOk (c : Str) : Bool :=
  c != [] && trimSpace c == c && c.all (fun ch => !(ch == '\n' || ch == '\r')) && !contains arrow c &&
  c != "NOTE".toList && !hasPrefix "NOTE ".toList c && !hasPrefix "Region: ".toList c &&
  !hasPrefix "STYLE".toList c && !hasPrefix "X-TIMESTAMP-MAP".toList c

example : commentOk "translated by hand".toList = true := by decide

/-- UNPROVED (kept as the full target): `write_read` for cues that also carry comment blocks -/
def write_read_comments_Statement : Prop :=
  ∀ (s : Subs), s.items ≠ [] →
    (∀ it ∈ s.items, cueOk s { it with comments := [] } = true ∧ it.comments.all commentOk = true) →
    s.items.length ≤ int64Max → s.regions = [] → styleLines s = [] →
    SRT.kvGet s.metadata "WebVTTTimestampMap" = none →
    ∃ doc, write s = some doc ∧ '\r' ∉ doc ∧
      read (textLines doc) = .ok { readSubs s with
        items := s.items.zipIdx.map fun x => { readCue s x.2 x.1 with comments := x.1.comments } }

end C02doc
end Astisub
