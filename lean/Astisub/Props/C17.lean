import Astisub.Lemmas.Scan
import Astisub.Model.IO

/-!
# C17 — Parse result does not depend on how the reader delivers the bytes

`Go.scan` models `bufio.Scanner` with the split function of `newScanner` (repaired: a buffer that
ends in CR before EOF asks for more data; a line of more than `maxLineSize = 65535` bytes is
refused by the split function itself, and the scanner's buffer of `maxLineSize + 2` bytes is never
the limit — so that the too-long outcome is a function of the bytes, not of the line terminator or
of whether the last bytes come together with `io.EOF`); `IO.readFull`/`IO.stlBlocks` model `readNBytes`
(repaired: `io.ReadFull`) and the block loop of `ReadFromSTL`.  A *schedule* is any list of
chunks (one per `Read` call, `[]` = zero-length read).  Statements hold for every schedule and
every byte string.  TTML and teletext readers hand the stream to `encoding/xml` / `go-astits`:
for those two the property is checked by the `io.sched` correspondence stream only.
-/

namespace Astisub
namespace C17
open Go IO List

/-! ### the scanner: the whole result — tokens and error, the too-long outcome included — from the bytes -/

/-- **The result of a scan is a function of the bytes.** For every schedule `cs` and every end `e`
    whose run hits neither the empty-read limit nor a bad read count (a well-behaved reader never
    does: `noStall_bytewise`, `noStall_one_read`):
    * the tokens are the lines of the bytes before the first line of more than 65535 bytes;
    * the error is `finalErr e (firstLong bytes)`: nil / the reader's error when no line is too
      long; `bufio.ErrTooLong` when one is and the stream ends with `io.EOF`; the reader's error
      when one is and the stream ends with that error (`Scanner.setErr` keeps the first error
      that is not `io.EOF`) —
    * or, in that last case only (`e = fault`, a line too long), `bufio.ErrTooLong` if the split
      function saw the long line before the reader reported its error.
    For `e = eof` the two alternatives coincide: `scan_bytes_eof`. -/
theorem scan_bytes (cs : List (List UInt8)) (e : End) (h : NoStall (scan true [] cs e 0).2) :
    (scan true [] cs e 0).1 = linesBefore cs.flatten ∧
    ((scan true [] cs e 0).2 = finalErr e (firstLong cs.flatten) ∨
      (firstLong cs.flatten = true ∧ (scan true [] cs e 0).2 = some .tooLong)) := by
  simpa using scan_bytes_gen [] cs e 0 h

/-- Stream ending with `io.EOF`: tokens *and* error are determined by the bytes alone. -/
theorem scan_bytes_eof (cs : List (List UInt8)) (h : NoStall (scan true [] cs .eof 0).2) :
    scan true [] cs .eof 0 =
      (linesBefore cs.flatten, if firstLong cs.flatten then some .tooLong else none) := by
  simpa using Go.scan_bytes_eof [] cs 0 h

/-- Stream ending with a read error: the tokens are determined by the bytes; the error is never
    nil, and it is the reader's own unless a line is too long. -/
theorem scan_bytes_fault (cs : List (List UInt8)) (h : NoStall (scan true [] cs .fault 0).2) :
    (scan true [] cs .fault 0).1 = linesBefore cs.flatten ∧
    ((scan true [] cs .fault 0).2 = some .io ∨
      (firstLong cs.flatten = true ∧ (scan true [] cs .fault 0).2 = some .tooLong)) := by
  simpa [finalErr] using scan_bytes cs .fault h

/-- **Two deliveries of the same bytes give the same result — with no exception for long lines.**
    (Before the repair this needed the hypothesis that neither run ended with `bufio.ErrTooLong`;
    the pinned code does not satisfy the statement: `pinned_long_line_depends_on_delivery`.) -/
theorem schedule_independent_full (cs₁ cs₂ : List (List UInt8)) (hb : cs₁.flatten = cs₂.flatten)
    (h₁ : NoStall (scan true [] cs₁ .eof 0).2) (h₂ : NoStall (scan true [] cs₂ .eof 0).2) :
    scan true [] cs₁ .eof 0 = scan true [] cs₂ .eof 0 := by
  rw [scan_bytes_eof cs₁ h₁, scan_bytes_eof cs₂ h₂, hb]

/-- Hence every line-based reader (SRT, WebVTT, SSA — any function of the scanned lines and the
    scanner's error, including the failing cases and the too-long case) returns the same result
    for both deliveries. -/
theorem line_reader_independent_full {β : Type} (reader : List (List UInt8) × Option ScanErr → β)
    (cs₁ cs₂ : List (List UInt8)) (hb : cs₁.flatten = cs₂.flatten)
    (h₁ : NoStall (scan true [] cs₁ .eof 0).2) (h₂ : NoStall (scan true [] cs₂ .eof 0).2) :
    reader (scan true [] cs₁ .eof 0) = reader (scan true [] cs₂ .eof 0) := by
  rw [schedule_independent_full cs₁ cs₂ hb h₁ h₂]

/-- Under a read error the tokens are still schedule independent (the error is `io` or `tooLong`,
    never nil: `C18`). -/
theorem schedule_independent_fault_tokens (cs₁ cs₂ : List (List UInt8)) (hb : cs₁.flatten = cs₂.flatten)
    (h₁ : NoStall (scan true [] cs₁ .fault 0).2) (h₂ : NoStall (scan true [] cs₂ .fault 0).2) :
    (scan true [] cs₁ .fault 0).1 = (scan true [] cs₂ .fault 0).1 := by
  rw [(scan_bytes cs₁ .fault h₁).1, (scan_bytes cs₂ .fault h₂).1, hb]

/-- The hypothesis is satisfiable for every byte string: deliver it one byte per `Read`. The
    result is then *the* result of that byte string under every well-behaved delivery. -/
theorem bytewise (bs : List UInt8) :
    scan true [] (bs.map fun b => [b]) .eof 0 =
      (linesBefore bs, if firstLong bs then some .tooLong else none) := by
  have hfl : ∀ l : List UInt8, (l.map fun b => [b]).flatten = l := by
    intro l
    induction l with
    | nil => rfl
    | cons b bs ih => simp [ih]
  have h := scan_bytes_eof (bs.map fun b => [b]) (noStall_bytewise _ _ _ _ (by simp))
  rwa [hfl] at h

/-- "returns its last bytes together with end-of-file" is the same schedule followed by EOF:
    the model has no separate case for it (a `Read` returning `(n, io.EOF)` is a chunk of `n`
    bytes and then the end marker; a `Read` returning `(n, nil)` and the next one `(0, io.EOF)`
    behaves like the chunk, an empty chunk, and the end marker). The one-read delivery: -/
theorem one_read_full (bs : List UInt8) (hlen : bs.length ≤ bufSize true) :
    scan true [] [bs] .eof 0 = (linesBefore bs, if firstLong bs then some .tooLong else none) := by
  simpa using scan_bytes_eof [bs] (noStall_one_read bs .eof hlen)

/-- … and the same bytes with the end-of-file in a `Read` of its own -/
theorem one_read_then_eof (bs : List UInt8)
    (h : NoStall (scan true [] [bs, []] .eof 0).2) :
    scan true [] [bs, []] .eof 0 = (linesBefore bs, if firstLong bs then some .tooLong else none) := by
  simpa using scan_bytes_eof [bs, []] h

/-! ### the statements as they were before the repair (corollaries) -/

/-- The scanner's tokens are the lines of the bytes, whatever the schedule — as long as the run
    hits none of the scanner's limits (line length, 100 empty reads, bad read count). When the
    stream ends with a read error a final over-long line is not delivered and its
    `bufio.ErrTooLong` is masked by the read error: hence `linesBefore` (`= linesOf` when the
    stream ends with `io.EOF`: `tokens_are_lines_eof`). -/
theorem tokens_are_lines (cs : List (List UInt8)) (e : End) (h : LimitFree (scan true [] cs e 0).2) :
    (scan true [] cs e 0).1 = linesBefore cs.flatten ∧ (scan true [] cs e 0).2 = endErr e := by
  have := scan_spec [] cs e 0 h
  rw [this]; simp

theorem tokens_are_lines_eof (cs : List (List UInt8)) (h : LimitFree (scan true [] cs .eof 0).2) :
    (scan true [] cs .eof 0).1 = linesOf cs.flatten ∧ (scan true [] cs .eof 0).2 = none := by
  have := scan_spec_eof [] cs 0 h
  rw [this]; simp [linesOf]

/-- no error at all: every line of every byte was delivered, and the stream ended with `io.EOF` -/
theorem no_error_all_lines (cs : List (List UInt8)) (e : End) (h : (scan true [] cs e 0).2 = none) :
    e = .eof ∧ (scan true [] cs e 0).1 = linesOf cs.flatten := by
  have hlf : LimitFree (scan true [] cs e 0).2 := by
    rw [h]; exact ⟨by simp, by simp, by simp⟩
  cases e with
  | fault => exact absurd h (scan_fault true [] cs 0)
  | eof => exact ⟨rfl, (tokens_are_lines_eof cs hlf).1⟩

/-- Two deliveries of the same bytes give the same tokens and the same (absent) error. -/
theorem schedule_independent (cs₁ cs₂ : List (List UInt8)) (hb : cs₁.flatten = cs₂.flatten)
    (h₁ : LimitFree (scan true [] cs₁ .eof 0).2) (h₂ : LimitFree (scan true [] cs₂ .eof 0).2) :
    scan true [] cs₁ .eof 0 = scan true [] cs₂ .eof 0 :=
  schedule_independent_full cs₁ cs₂ hb h₁.noStall h₂.noStall

theorem line_reader_independent {β : Type} (reader : List (List UInt8) × Option ScanErr → β)
    (cs₁ cs₂ : List (List UInt8)) (hb : cs₁.flatten = cs₂.flatten)
    (h₁ : LimitFree (scan true [] cs₁ .eof 0).2) (h₂ : LimitFree (scan true [] cs₂ .eof 0).2) :
    reader (scan true [] cs₁ .eof 0) = reader (scan true [] cs₂ .eof 0) := by
  rw [schedule_independent cs₁ cs₂ hb h₁ h₂]

theorem one_read (bs : List UInt8) (h : LimitFree (scan true [] [bs] .eof 0).2) :
    (scan true [] [bs] .eof 0).1 = linesOf bs := by
  have := (tokens_are_lines_eof [bs] h).1
  simpa using this

/-! ### the longest line: 65535 bytes pass, 65536 fail — whatever ends the line, however it is delivered

`L` is any run of bytes without CR/LF (`NoEOL`), e.g. `List.replicate n 97`
(`noEOL_replicate`). Nothing here evaluates a 65536-element list. -/

/-- a final unterminated line of exactly 65536 bytes, delivered together with the end-of-file … -/
theorem long_final_line_with_eof (L : List UInt8) (h : NoEOL L) (hlen : L.length = maxLineSize + 1) :
    scan true [] [L] .eof 0 = ([], some .tooLong) := by
  have hl := lineTooLong_of_noEOL' h (by omega)
  rw [one_read_full L (by simp [bufSize]; omega), (firstLong_of_lineTooLong hl).1,
    (firstLong_of_lineTooLong hl).2]; rfl

/-- … and with the end-of-file in a `Read` of its own: the same (this was the defect) -/
theorem long_final_line_then_eof (L : List UInt8) (h : NoEOL L) (hlen : L.length = maxLineSize + 1) :
    scan true [] [L, []] .eof 0 = ([], some .tooLong) := by
  have hl := lineTooLong_of_noEOL' h (by omega)
  have hL : L.isEmpty = false := by cases L <;> simp_all
  rw [scan_start, hL]
  simp only [Bool.false_eq_true, ↓reduceIte]
  rw [if_neg (by simp [bufSize]; omega), scan_long hl]

/-- the pinned code: the first delivery passed, the second failed -/
theorem pinned_long_line_depends_on_delivery (L : List UInt8) (h : NoEOL L) (hlen : L.length = maxLineSize + 1) :
    scan false [] [L] .eof 0 = ([L], none) ∧ scan false [] [L, []] .eof 0 = ([], some .tooLong) := by
  have hL : L.isEmpty = false := by cases L <;> simp_all
  have hne : L ≠ [] := by intro h0; simp [h0] at hL
  have hsz : ¬ L.length > bufSize false := by simp [bufSize, maxTokenSize, maxLineSize] at hlen ⊢; omega
  constructor
  · rw [scan_start, hL]
    simp only [Bool.false_eq_true, ↓reduceIte]
    rw [if_neg hsz, scan_nil, drainL_false]
    have hs : splitLine false L true = .tok L.length L := by
      unfold splitLine
      have : (true && L.isEmpty) = false := by simp [hL]
      rw [this, breakEOL_noEOL h]; simp
    rw [drain_tok hs]; simp [drain_nil, finalErr]
  · rw [scan_start, hL]
    simp only [Bool.false_eq_true, ↓reduceIte]
    rw [if_neg hsz]
    have hm : splitLine false L false = .more := by
      unfold splitLine; rw [breakEOL_noEOL h]; simp
    rw [scan_more (by simp) hm, if_pos (by simp [bufSize, maxTokenSize, maxLineSize] at hlen ⊢; omega)]

/-- non-vacuity: such an `L` exists -/
theorem long_final_line_example :
    scan true [] [List.replicate (maxLineSize + 1) 97] .eof 0 = ([], some .tooLong) ∧
    scan true [] [List.replicate (maxLineSize + 1) 97, []] .eof 0 = ([], some .tooLong) :=
  ⟨long_final_line_with_eof _ (noEOL_replicate _) List.length_replicate,
   long_final_line_then_eof _ (noEOL_replicate _) List.length_replicate⟩

/-- one byte fewer passes, under both deliveries, and is delivered as the one line it is -/
theorem longest_line_passes (L : List UInt8) (h : NoEOL L) (hlen : L.length = maxLineSize) :
    scan true [] [L] .eof 0 = ([L], none) ∧ scan true [] [L, []] .eof 0 = ([L], none) := by
  have hne : L ≠ [] := by intro h0; simp [h0, maxLineSize] at hlen
  have hd := drainL_noEOL true h hne (by omega)
  have hb := drainL_bytes L
  rw [hd] at hb
  have h1 : linesBefore L = [L] := (congrArg Prod.fst hb).symm
  have h2 : firstLong L = false := (congrArg Prod.snd hb).symm
  have hL : L.isEmpty = false := by cases L <;> simp_all
  have hm : splitLine true L false = .more := by
    unfold splitLine; rw [breakEOL_noEOL h]; simp
  have hl : lineTooLong L = false := by simp [lineTooLong, breakEOL_noEOL h]; omega
  constructor
  · rw [one_read_full L (by simp [bufSize]; omega), h1, h2]; rfl
  · apply one_read_then_eof L ?_ |>.trans (by rw [h1, h2]; rfl)
    rw [scan_start, hL]
    simp only [Bool.false_eq_true, ↓reduceIte]
    rw [if_neg (by simp [bufSize]; omega), scan_more (by simp [hl]) hm,
      if_neg (by simp [bufSize]; omega)]
    simp only [List.isEmpty_nil, ↓reduceIte]
    rw [if_neg (by simp [maxEmptyReads]), scan_nil]
    exact noStall_finalErr .eof _

/-- under a read error both outcomes of `scan_bytes_fault` occur: the reader's error when the
    long line comes together with it, `bufio.ErrTooLong` when the split function saw the line
    first -/
theorem long_line_fault_both (L : List UInt8) (h : NoEOL L) (hlen : L.length = maxLineSize + 1) :
    scan true [] [L] .fault 0 = ([], some .io) ∧ scan true [] [L, []] .fault 0 = ([], some .tooLong) := by
  have hl := lineTooLong_of_noEOL' h (by omega)
  have hL : L.isEmpty = false := by cases L <;> simp_all
  constructor
  · rw [scan_start, hL]
    simp only [Bool.false_eq_true, ↓reduceIte]
    rw [if_neg (by simp [bufSize]; omega), scan_nil, drainL_long hl]; rfl
  · rw [scan_start, hL]
    simp only [Bool.false_eq_true, ↓reduceIte]
    rw [if_neg (by simp [bufSize]; omega), scan_long hl]

/-! ### the CR LF pair cut between two reads -/

theorem breakEOL_hi_cr : breakEOL [104, 105, 13] = ([104, 105], [13]) := by decide
theorem breakEOL_lf_x : breakEOL [10, 120] = ([], [10, 120]) := by decide

/-- repaired split function: a buffer ending in CR before EOF asks for more data -/
theorem cr_at_end_waits : splitLine true [104, 105, 13] false = .more := by decide

/-- pinned split function: it emitted the line at once — and the LF of the next read then
    produced a second, empty line (defect D1) -/
theorem cr_at_end_pinned : splitLine false [104, 105, 13] false = .tok 3 [104, 105] := by decide
theorem lf_alone_is_a_line : splitLine false [10, 120] false = .tok 1 [] := by decide

/-- with the repaired function the pair is one line break: once the LF is there, the token
    consumes both bytes -/
theorem crlf_one_break : splitLine true [104, 105, 13, 10, 120] false = .tok 4 [104, 105] := by decide

/-! ### fixed-size binary blocks (STL) -/

theorem readFull_spec (need : Nat) (cs : List (List UInt8)) :
    (readFull need cs).1 = cs.flatten.take need ∧ (readFull need cs).2.flatten = cs.flatten.drop need := by
  induction cs generalizing need with
  | nil => simp [readFull]
  | cons c cs ih =>
    unfold readFull
    by_cases h0 : need = 0
    · simp [h0]
    · simp only [h0, ↓reduceIte]
      by_cases hc : c.length ≤ need
      · simp only [hc, ↓reduceIte]
        obtain ⟨h1, h2⟩ := ih (need - c.length)
        constructor
        · rw [h1]; simp [List.take_append, List.take_of_length_le hc]
        · rw [h2]; simp [List.drop_append, List.drop_eq_nil_of_le hc]
      · simp only [hc, ↓reduceIte]
        have hlt : need < c.length := by omega
        constructor
        · simp [List.take_append_of_le_length (Nat.le_of_lt hlt)]
        · simp [List.drop_append_of_le_length (Nat.le_of_lt hlt)]

/-- a block split across several reads is still one block: what `readNBytes` returns, and
    what is left for the next block, depend on the bytes only -/
theorem block_independent (need : Nat) (cs₁ cs₂ : List (List UInt8)) (hb : cs₁.flatten = cs₂.flatten) :
    (readFull need cs₁).1 = (readFull need cs₂).1 ∧
      (readFull need cs₁).2.flatten = (readFull need cs₂).2.flatten := by
  rw [(readFull_spec need cs₁).1, (readFull_spec need cs₂).1, (readFull_spec need cs₁).2,
    (readFull_spec need cs₂).2, hb]
  exact ⟨rfl, rfl⟩

theorem ttiBlocks_independent (e : End) (fuel : Nat) (cs₁ cs₂ : List (List UInt8))
    (hb : cs₁.flatten = cs₂.flatten) : ttiBlocks e fuel cs₁ = ttiBlocks e fuel cs₂ := by
  induction fuel generalizing cs₁ cs₂ with
  | zero => rfl
  | succ fuel ih =>
    obtain ⟨h1, h2⟩ := block_independent 128 cs₁ cs₂ hb
    unfold ttiBlocks
    simp only [h1]
    rw [ih _ _ h2]

/-- the whole block structure of an STL file (GSI block, TTI blocks, how the stream ended) is a
    function of the byte sequence alone -/
theorem stl_blocks_independent (e : End) (cs₁ cs₂ : List (List UInt8)) (hb : cs₁.flatten = cs₂.flatten) :
    stlBlocks e cs₁ = stlBlocks e cs₂ := by
  obtain ⟨h1, h2⟩ := block_independent 1024 cs₁ cs₂ hb
  unfold stlBlocks
  simp only [h1, hb]
  rw [ttiBlocks_independent e _ _ _ h2]

end C17
end Astisub
