import Astisub.Lemmas.Scan
import Astisub.Model.IO

/-!
# C17 — Parse result does not depend on how the reader delivers the bytes

`Go.scan` models `bufio.Scanner` with the split function of `newScanner` (repaired: a buffer that
ends in CR before EOF asks for more data); `IO.readFull`/`IO.stlBlocks` model `readNBytes`
(repaired: `io.ReadFull`) and the block loop of `ReadFromSTL`.  A *schedule* is any list of
chunks (one per `Read` call, `[]` = zero-length read).  Statements hold for every schedule and
every byte string.  TTML and teletext readers hand the stream to `encoding/xml` / `go-astits`:
for those two the property is checked by the `io.sched` correspondence stream only.
-/

namespace Astisub
namespace C17
open Go IO List

/-- The scanner's tokens are the lines of the bytes, whatever the schedule — as long as the run
    hits none of the scanner's own limits (64 KiB token, 100 empty reads). -/
theorem tokens_are_lines (cs : List (List UInt8)) (e : End) (h : LimitFree (scan true [] cs e 0).2) :
    (scan true [] cs e 0).1 = linesOf cs.flatten ∧ (scan true [] cs e 0).2 = endErr e := by
  have := scan_spec [] cs e 0 h
  rw [this]; simp [linesOf]

/-- Two deliveries of the same bytes give the same tokens and the same (absent) error. -/
theorem schedule_independent (cs₁ cs₂ : List (List UInt8)) (hb : cs₁.flatten = cs₂.flatten)
    (h₁ : LimitFree (scan true [] cs₁ .eof 0).2) (h₂ : LimitFree (scan true [] cs₂ .eof 0).2) :
    scan true [] cs₁ .eof 0 = scan true [] cs₂ .eof 0 := by
  rw [scan_spec [] cs₁ .eof 0 h₁, scan_spec [] cs₂ .eof 0 h₂, hb]

/-- Hence every line-based reader (SRT, WebVTT, SSA — any function of the scanned lines and the
    scanner's error, including the failing cases) returns the same result for both deliveries. -/
theorem line_reader_independent {β : Type} (reader : List (List UInt8) × Option ScanErr → β)
    (cs₁ cs₂ : List (List UInt8)) (hb : cs₁.flatten = cs₂.flatten)
    (h₁ : LimitFree (scan true [] cs₁ .eof 0).2) (h₂ : LimitFree (scan true [] cs₂ .eof 0).2) :
    reader (scan true [] cs₁ .eof 0) = reader (scan true [] cs₂ .eof 0) := by
  rw [schedule_independent cs₁ cs₂ hb h₁ h₂]

/-- "returns its last bytes together with end-of-file" is the same schedule followed by EOF:
    the model has no separate case for it (a `Read` returning `(n, io.EOF)` is a chunk of `n`
    bytes and then the end marker), so the statements above cover it. The one-read delivery: -/
theorem one_read (bs : List UInt8) (h : LimitFree (scan true [] [bs] .eof 0).2) :
    (scan true [] [bs] .eof 0).1 = linesOf bs := by
  have := (tokens_are_lines [bs] .eof h).1
  simpa using this

/-! ### the CR LF pair cut between two reads -/

theorem breakEOL_hi_cr : breakEOL [104, 105, 13] = ([104, 105], [13]) := by decide
theorem breakEOL_lf_x : breakEOL [10, 120] = ([], [10, 120]) := by decide

/-- repaired split function: a buffer ending in CR before EOF asks for more data -/
theorem cr_at_end_waits : splitLine true [104, 105, 13] false = .more := by decide

/-- pinned split function: it emitted the line at once — and the LF of the next read then
    produced a second, empty line (defect D1) -/
theorem cr_at_end_pinned : splitLine false [104, 105, 13] false = .tok 3 [104, 105] := by decide
theorem lf_alone_is_a_line : splitLine false [10, 120] false = .tok 1 [] := by decide

/-- with the repaired function the pair is one line break: once the LF is there, the token
    consumes both bytes -/
theorem crlf_one_break : splitLine true [104, 105, 13, 10, 120] false = .tok 4 [104, 105] := by decide

/-! ### fixed-size binary blocks (STL) -/

theorem readFull_spec (need : Nat) (cs : List (List UInt8)) :
    (readFull need cs).1 = cs.flatten.take need ∧ (readFull need cs).2.flatten = cs.flatten.drop need := by
  induction cs generalizing need with
  | nil => simp [readFull]
  | cons c cs ih =>
    unfold readFull
    by_cases h0 : need = 0
    · simp [h0]
    · simp only [h0, ↓reduceIte]
      by_cases hc : c.length ≤ need
      · simp only [hc, ↓reduceIte]
        obtain ⟨h1, h2⟩ := ih (need - c.length)
        constructor
        · rw [h1]; simp [List.take_append, List.take_of_length_le hc]
        · rw [h2]; simp [List.drop_append, List.drop_eq_nil_of_le hc]
      · simp only [hc, ↓reduceIte]
        have hlt : need < c.length := by omega
        constructor
        · simp [List.take_append_of_le_length (Nat.le_of_lt hlt)]
        · simp [List.drop_append_of_le_length (Nat.le_of_lt hlt)]

/-- a block split across several reads is still one block: what `readNBytes` returns, and
    what is left for the next block, depend on the bytes only -/
theorem block_independent (need : Nat) (cs₁ cs₂ : List (List UInt8)) (hb : cs₁.flatten = cs₂.flatten) :
    (readFull need cs₁).1 = (readFull need cs₂).1 ∧
      (readFull need cs₁).2.flatten = (readFull need cs₂).2.flatten := by
  rw [(readFull_spec need cs₁).1, (readFull_spec need cs₂).1, (readFull_spec need cs₁).2,
    (readFull_spec need cs₂).2, hb]
  exact ⟨rfl, rfl⟩

theorem ttiBlocks_independent (e : End) (fuel : Nat) (cs₁ cs₂ : List (List UInt8))
    (hb : cs₁.flatten = cs₂.flatten) : ttiBlocks e fuel cs₁ = ttiBlocks e fuel cs₂ := by
  induction fuel generalizing cs₁ cs₂ with
  | zero => rfl
  | succ fuel ih =>
    obtain ⟨h1, h2⟩ := block_independent 128 cs₁ cs₂ hb
    unfold ttiBlocks
    simp only [h1]
    rw [ih _ _ h2]

/-- the whole block structure of an STL file (GSI block, TTI blocks, how the stream ended) is a
    function of the byte sequence alone -/
theorem stl_blocks_independent (e : End) (cs₁ cs₂ : List (List UInt8)) (hb : cs₁.flatten = cs₂.flatten) :
    stlBlocks e cs₁ = stlBlocks e cs₂ := by
  obtain ⟨h1, h2⟩ := block_independent 1024 cs₁ cs₂ hb
  unfold stlBlocks
  simp only [h1, hb]
  rw [ttiBlocks_independent e _ _ _ h2]

end C17
end Astisub
