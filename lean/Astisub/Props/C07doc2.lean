import Astisub.Props.C07doc
import Astisub.Lemmas.Conv2SSA
import Astisub.Lemmas.Conv2Chain
import Astisub.Lemmas.Conv2STL
import Astisub.Lemmas.Conv2Erase

/-!
# C07 (document level, second part) — conversion to SSA / ASS and to EBU STL preserves the cues

`Props/C07doc.lean` proves the conversion clause for the destinations `srt` and `vtt` and leaves two
statements open, `ssa_conv_Statement` and `stl_conv_Statement`.  This file proves both (`ssa_conv`,
`stl_conv`), for explicit decidable plainness predicates.

## SSA / ASS

`C07doc.ssa_conv_Statement` holds for the predicate `Conv2SSA.PlainSSA`: for **every** cue list `s` — whatever its source format
left in it — that is in range (`Driver.inRange "ssa"`, the check's own clause) and plain, writing `s`
with the SSA writer model and reading the bytes with the driver's byte-level SSA reader model
(`C07doc.viaSSA`: `SSA.write`, UTF-8, the 64 KiB line limit, the line scanner, decoding,
`SSA.read`, the 2⁶² instant limit — exactly what the `conv.pair` stream computes) succeeds and
returns `back` with

    Driver.convOk strict "ssa" s back = true      and      viewOf back = truncView 10000000 (viewOf s)

(same cues, same order, instants truncated to the centisecond, same text lines).

`Conv2SSA.PlainSSA s` (`Lemmas/Conv2SSA.lean`) asks for
* at least one cue; every cue has at least one line (a cue without text comes back with one empty line);
* every line plain: no run carries an SSA override block (`SSAEffect` absent or empty) and the line's
  text (runs concatenated) is `simpleText`, not empty, without a blank at either end — so no `{`, `}`,
  `\N`, `\n`;
* good cells: the cue's style name, voice and `SSAEffect` have no comma and no line feed, its
  `SSAMargin…` / `SSALayer` fit 64 bits;
* writable SSA tables: the script info the writer reads from the metadata (`Title`, `Comments`,
  `SSA…`) and the `SSA…` attributes of the styles are good in the sense of `Props/C04doc2.lean`, style
  identifiers are distinct;
* the written document passes the scanner: no carriage return, no line of 64 KiB or more (`docFit`).
Everything else is free: attributes of other formats anywhere, inline style references, start
offsets, comments, regions, indexes, how a line is cut into runs, voices, the cue's own SSA attributes.

Further: the SSA writer ignores foreign attributes (`ssa_write_ignores_foreign`); the destination `ass`;
the composition with `Driver.applyOps`; SubRip → SSA and SubRip → SSA → SubRip (only what centiseconds
lose is lost); witnesses showing which provisos the conclusion itself needs.

## EBU STL, display standard 0

`truncSTL` of the check is related to the frame floor of C05 (`truncSTL_is_floorFrame`,
`truncSTL_is_frameInstant`); for every cue list in range (`[0, 24 h)`), plain (`Conv2STL.PlainSTL`: every
run `simpleText`, not empty, no blank at either end; every line with a run; at most 112 encoded bytes per
cue) and with fitting metadata (`Conv2STL.stlMetaOK`), the writer model answers a file on the cues and
metadata the stream hands it, the reader model reads it, and `convOk` holds in both modes (`stl_conv_on`);
`stl_conv` is `C07doc.stl_conv_Statement` literally, for `Conv2STL.PlainSTLdoc`.  The other display
standards are the recorded known finding (D23).
-/

namespace Astisub
namespace C07doc2
open Go Spec.Conv Driver ConvView C07doc

/-! ## destination SSA -/

/-- **The SSA writer accepts plain cue lists with foreign attributes**: a plain cue list in range is
    representable in the sense of the SSA document round trip (`C04doc2.write_read`), and the writer
    answers a text -/
theorem ssa_plain_representable (s : Subs) (hr : inRange "ssa" s = true) (hp : Conv2SSA.PlainSSA s = true) :
    SSA.RepRead s ∧ ∃ out, SSA.write s = .ok out :=
  ⟨Conv2SSA.repRead_of_plain s hr hp, Conv2SSA.write_plain s hr hp⟩

/-- **The SSA writer ignores foreign attributes.**  `eraseSSA s` keeps of every run its text and
    `SSAEffect`; of every line its voice; of every cue its instants, style reference and the six cue-level
    `SSA…` attributes (`SSAEffect`, `SSALayer`, `SSAMarginLeft/Right/Vertical`, `SSAMarked`); of every style
    its identifier and the 23 `SSA…` style attributes; of the metadata `Comments`, `Title` and the `SSA…`
    keys — and drops everything else (`TTMLColor`, `WebVTT…`, `STL…`, `SRT…`, `Teletext…`, inline style
    references, start offsets, comments, regions, indexes, style parents …).  What `WriteToSSA` answers is
    the same, for EVERY cue list. -/
theorem ssa_write_ignores_foreign (s : Subs) : SSA.write (Conv2Erase.eraseSSA s) = SSA.write s :=
  Conv2Erase.ssa_write_erase s

/-- hence the whole conversion does not see them either, and neither does the view -/
theorem viaSSA_ignores_foreign (s : Subs) :
    viaSSA (Conv2Erase.eraseSSA s) = viaSSA s ∧ viewOf (Conv2Erase.eraseSSA s) = viewOf s := by
  refine ⟨?_, Conv2Erase.view_eraseSSA s⟩
  simp only [viaSSA, Conv2Erase.ssa_write_erase]

/-- what the conversion returns, explicitly: the normal form `SSA.norm s` of `Props/C04doc2.lean`
    (centisecond instants, every line one run, the cue's SSA cells made explicit, sorted styles, script info) -/
theorem ssa_conv_back (s : Subs) (hr : inRange "ssa" s = true) (hp : Conv2SSA.PlainSSA s = true) :
    viaSSA s = some (SSA.norm s) := by
  obtain ⟨out, hw⟩ := Conv2SSA.write_plain s hr hp
  simp only [viaSSA, hw, Conv2SSA.readBytes_written s out hr hp hw]

/-- the view of what comes back: the source's cues at centisecond resolution -/
theorem ssa_view (s : Subs) (hp : Conv2SSA.PlainSSA s = true) :
    viewOf (SSA.norm s) = truncView 10000000 (viewOf s) := Conv2SSA.view_norm s hp

/-- **C07, destination `ssa`.** For EVERY cue list in range and plain — whatever attributes other
    formats left in it — the conversion succeeds, and the check's predicate holds on (the cue list,
    the SSA file read back): same number of cues, same order, instants truncated to the centisecond,
    same text lines.  This is `ssa_conv_Statement` of `Props/C07doc.lean` for `Plain := PlainSSA`. -/
theorem ssa_conv : ssa_conv_Statement Conv2SSA.PlainSSA := by
  intro strict s hr hp
  have hv := Conv2SSA.view_norm s hp
  exact ⟨_, ssa_conv_back s hr hp,
    ConvView.convOk_of_view strict "ssa" (by decide) s _ (by rw [Conv2SSA.unit_ssa]; exact hv), hv⟩

/-- **C07, destination `ass`**: same codec, same unit -/
theorem ass_conv (strict : Bool) (s : Subs) (hr : inRange "ass" s = true) (hp : Conv2SSA.PlainSSA s = true) :
    ∃ back, viaSSA s = some back ∧ convOk strict "ass" s back = true ∧
      viewOf back = truncView (unitOfDst "ass") (viewOf s) := by
  have hr' : inRange "ssa" s = true := by
    rw [Conv2Chain.inRange_congr (d' := "ass") (by decide) (by decide)]; exact hr
  have hv := Conv2SSA.view_norm s hp
  rw [Conv2SSA.unit_ass]
  exact ⟨_, ssa_conv_back s hr' hp,
    ConvView.convOk_of_view strict "ass" (by decide) s _ (by rw [Conv2SSA.unit_ass]; exact hv), hv⟩

example : Conv2SSA.PlainSSA Conv2SSA.exampleForeign = true ∧ inRange "ssa" Conv2SSA.exampleForeign = true :=
  ⟨Conv2SSA.exampleForeign_plain, by decide⟩

/-! ## with operations in between -/

/-- **Operations, then SSA.**  Let `expected` be what the transformation models make of the source's
    cues under ANY operation sequence (`Driver.applyOps`), and `opsS` a cue list that shows exactly
    these cues (the correspondence clause of the check).  If `opsS` is in range and plain then it
    converts, `convOk` holds, and the SSA file read back shows the model's cues at centisecond
    resolution. -/
theorem ssa_conv_ops (strict : Bool) (src : Subs) (margs : List Subs) (ops : List String) (expected : List Item)
    (opsS : Subs) (_hops : applyOps (itemsOf src) (margs.map itemsOf) ops = some expected)
    (hcorr : vOfItems expected = viewOf opsS)
    (hr : inRange "ssa" opsS = true) (hp : Conv2SSA.PlainSSA opsS = true) :
    ∃ back, viaSSA opsS = some back ∧ convOk strict "ssa" opsS back = true ∧
      viewOf back = truncView 10000000 (vOfItems expected) := by
  rw [hcorr]
  exact ssa_conv strict opsS hr hp

/-- **Purely in the model**: the transformation models followed by the conversion to SSA -/
theorem ops_then_ssa (xs : List Item) (args : List (List Item)) (ops : List String) (ys : List Item)
    (_hops : applyOps xs args ops = some ys)
    (hr : inRange "ssa" (subsOfItems ys) = true) (hp : Conv2SSA.PlainSSA (subsOfItems ys) = true) :
    ∃ back, viaSSA (subsOfItems ys) = some back ∧ viewOf back = truncView 10000000 (vOfItems ys) := by
  obtain ⟨back, h1, _, h3⟩ := ssa_conv false _ hr hp
  exact ⟨back, h1, by rw [h3, view_subsOfItems]⟩

/-! ## one conversion after the other -/

/-- **SubRip, then SSA.** what SubRip returned for a plain cue list in range, every cue of which has
    text, converts to SSA (when the SSA document passes the scanner), and the SSA file read back shows
    the original cues at centisecond resolution -/
theorem srt_then_ssa (s : Subs) (hr : inRange "srt" s = true) (hp : ConvSRT.PlainSRT s = true)
    (hl : ∀ it ∈ s.items, it.lines ≠ [])
    (hfit : Conv2SSA.docFit (SRTDoc.norm (SRTDoc.mergeS s)) = true) :
    ∃ b1 b2, viaSRT s = some b1 ∧ viaSSA b1 = some b2 ∧
      convOk false "ssa" b1 b2 = true ∧ viewOf b2 = truncView 10000000 (viewOf s) := by
  obtain ⟨hr2, hp2⟩ := Conv2Chain.plainSSA_norm_srt s hr hp hl hfit
  obtain ⟨b2, h2, hc2, hv2⟩ := ssa_conv false _ hr2 hp2
  refine ⟨_, b2, srt_conv_back s hr hp, h2, hc2, ?_⟩
  rw [hv2, ConvSRT.view_norm_merge, Conv2Chain.truncView_ms_cs]

/-- **SubRip → SSA → SubRip loses only what centiseconds lose.** three conversions in a row succeed
    and the last file shows the original cues with instants truncated to the centisecond — exactly the
    view of the SSA file in the middle -/
theorem srt_ssa_srt (s : Subs) (hr : inRange "srt" s = true) (hp : ConvSRT.PlainSRT s = true)
    (hl : ∀ it ∈ s.items, it.lines ≠ [])
    (hfit : Conv2SSA.docFit (SRTDoc.norm (SRTDoc.mergeS s)) = true) :
    ∃ b1 b2 b3, viaSRT s = some b1 ∧ viaSSA b1 = some b2 ∧ viaSRT b2 = some b3 ∧
      viewOf b3 = truncView 10000000 (viewOf s) ∧ viewOf b3 = viewOf b2 := by
  obtain ⟨hr2, hp2⟩ := Conv2Chain.plainSSA_norm_srt s hr hp hl hfit
  have h2 := ssa_conv_back _ hr2 hp2
  have hv2 := Conv2SSA.view_norm _ hp2
  have hlen : (SRTDoc.norm (SRTDoc.mergeS s)).items.length ≤ int64Max := by
    have : (SRTDoc.norm (SRTDoc.mergeS s)).items.length = s.items.length := by
      simp [SRTDoc.norm, SRTDoc.mergeS, ConvChain.normItems_length]
    rw [this]
    simp only [ConvSRT.PlainSRT, Bool.and_eq_true, decide_eq_true_eq] at hp
    exact hp.1.2
  obtain ⟨hr3, hp3⟩ := Conv2Chain.plainSRT_norm_ssa _ hr2 hp2 hlen
  obtain ⟨b3, h3, _, hv3⟩ := srt_conv false _ hr3 hp3
  have e2 : viewOf (SSA.norm (SRTDoc.norm (SRTDoc.mergeS s))) = truncView 10000000 (viewOf s) := by
    rw [hv2, ConvSRT.view_norm_merge, Conv2Chain.truncView_ms_cs]
  refine ⟨_, _, b3, srt_conv_back s hr hp, h2, h3, ?_, ?_⟩
  · rw [hv3, e2, Conv2Chain.truncView_cs_ms]
  · rw [hv3, e2, Conv2Chain.truncView_cs_ms]

/-! ## SSA: which provisos are needed (witnesses)

Evaluated on the lines of the written text (`splitC '\n'`; the kernel does not evaluate the UTF-8 layer of
`viaSSA`) for cue lists without styles (`writeBare`, equal to `SSA.write` by `write_bare`: the kernel does
not evaluate the merge sort of the style table either). -/

/-- `WriteToSSA` on a cue list without style table -/
def writeBare (s : Subs) : SSA.Res Str :=
  SSA.writeCore (SSA.infoOfMeta s.metadata) (SSA.isV4plus s) [] (s.items.map fun it => (SSA.eventOfItem it).row (SSA.isV4plus s))

theorem write_bare (s : Subs) (hs : s.styles = []) (hne : s.items ≠ [])
    (hpos : ∀ it ∈ s.items, 0 ≤ it.startAt ∧ 0 ≤ it.endAt) : SSA.write s = writeBare s := by
  have hw : SSA.writerStyles s = [] := by simp [SSA.writerStyles, hs]
  have he : s.items.isEmpty = false := by cases h : s.items with
    | nil => exact absurd h hne
    | cons a r => rfl
  rw [SSA.write_eq, he, SSA.any_neg_false s.items hpos, hw]
  rfl

/-- `some b`: written and read; `b` = `convOk` holds and the view is the source's at centisecond resolution -/
def ssaOkL (s : Subs) : Option Bool :=
  match writeBare s with
  | .ok out => (match SSA.read (splitC '\n' out) with
    | .ok back => some (convOk false "ssa" s back && (viewOf back == truncView 10000000 (viewOf s)))
    | _ => none)
  | _ => none

/-- the same with `convOk` alone -/
def ssaOkC (s : Subs) : Option Bool :=
  match writeBare s with
  | .ok out => (match SSA.read (splitC '\n' out) with
    | .ok back => some (convOk false "ssa" s back)
    | _ => none)
  | _ => none

-- plain lines pass
example : ssaOkL (oneLine [{ text := "a".toList }, { text := " b".toList }]) = some true := by decide
-- needed: a comma in the style name shifts the columns of the Dialogue row, the reader fails
example : ssaOkL { items := [{ startAt := 0, endAt := 1000000000, style := some "a,b".toList,
                               lines := [{ items := [{ text := "a".toList }] }] }] } = none := by decide
-- needed: a line feed in the voice cuts the Dialogue line in two, the reader fails
example : ssaOkL { items := [{ startAt := 0, endAt := 1000000000,
                               lines := [{ voice := "x\ny".toList, items := [{ text := "a".toList }] }] }] } = none := by decide
-- needed for the view equality, not for `convOk`: a cue without text comes back with one empty line
example : ssaOkC { items := [{ startAt := 0, endAt := 1000000000, lines := [] }] } = some true ∧
          ssaOkL { items := [{ startAt := 0, endAt := 1000000000, lines := [] }] } = some false := by decide
-- needed for the view equality: `\N` in a text is a line break for the reader (`convOk` says nothing about
-- text that is not simple)
example : ssaOkL (oneLine [{ text := "a\\Nb".toList }]) = some false := by decide
-- provisos of the round-trip theorem only: a blank at the edge of a line is trimmed (the view disregards
-- white space); a run-level override block comes back as the run's `SSAEffect`
example : ssaOkL (oneLine [{ text := " a ".toList }]) = some true := by decide
example : ssaOkL (oneLine [{ text := "a".toList, attrs := some [("SSAEffect".toList, "{\\i1}".toList)] }]) = some true := by decide

/-! ## destination EBU STL, display standard 0 -/

/-- **`truncSTL` is the frame floor of C05.**  On instants that are not negative once the programme start
    is added, the truncation `Driver.convOk` expects of an STL destination is the frame floor the
    `stl.write` check expects (`Driver.STLD.floorFrame`, equal to the reader's `C05.frameInstant` by
    `C05.floorFrame_is_frameInstant`), shifted by the programme start -/
theorem truncSTL_is_floorFrame (fr : Nat) (hfr : fr = 25 ∨ fr = 30) (tcp t : Int) (h0 : 0 ≤ t + tcp) :
    truncSTL (fr : Int) tcp t = STLD.floorFrame fr (t + tcp) - tcp :=
  Conv2STL.truncSTL_floorFrame fr hfr tcp t h0

/-- **… and what the reader model computes**: the instant read back from the timecode written for
    `t + tcp`, minus the programme start read back from the GSI block, is `truncSTL fr tcp t` — when the
    programme start is frame-aligned (`frameInstant fr tcp = tcp`: it is when it was read from an STL file,
    and when it is 0).  For a programme start that is not frame-aligned the reader subtracts its frame
    floor while `truncSTL` subtracts `tcp` itself: the two differ by `tcp - frameInstant fr tcp`. -/
theorem truncSTL_is_frameInstant (fr : Nat) (hfr : fr = 25 ∨ fr = 30) (tcp t : Int) (h0 : 0 ≤ t + tcp)
    (h1 : t + tcp < 921600000000000) (ha : C05.frameInstant (fr : Int) tcp = tcp) :
    C05.frameInstant (fr : Int) (t + tcp) - C05.frameInstant (fr : Int) tcp = truncSTL (fr : Int) tcp t :=
  Conv2STL.truncSTL_frameInstant fr hfr tcp t h0 h1 ha

/-- the proviso is needed: with a programme start of 1 ns at 25 fps, the reader model returns 0 for a cue
    starting at 0 (both timecodes are `00:00:00:00`), while `truncSTL 25 1 0 = -1` -/
example : C05.frameInstant 25 (0 + 1) - C05.frameInstant 25 1 = 0 ∧ truncSTL 25 1 0 = -1 := by decide +kernel

/-- **What `convOk` needs for an STL destination**: the file read back shows the source's cues with
    instants at frame resolution (both modes of the check) -/
theorem convOk_of_view_stl (strict : Bool) (s back : Subs) (h : viewOf back = Conv2STL.truncViewSTL s) :
    convOk strict "stl" s back = true :=
  Conv2STL.convOk_of_view_stl strict s back h

/-- **C07, destination `stl`, display standard 0, written on day `now`.**  For EVERY cue list in range
    (instants in `[0, 24 h)`) and plain (`Conv2STL.PlainSTL`: every run simple text without a blank at either
    end, every line with a run, at most 112 encoded bytes per cue) — whatever attributes other formats left
    in it — whose metadata says display standard 0 and fits (`Conv2STL.stlMetaOK now`: the GSI block is
    well-formed, the programme start is not negative and frame-aligned, the writer's frame rate is the one
    the check derives): the writer model answers a file for the cues and metadata the stream hands it
    (`Driver.STLD.cueOf`, `metaOf`), the reader model reads the file, and the check's predicate holds on
    (the cue list, the cues read back), in both modes: same number of cues, same order, instants at frame
    resolution (`truncSTL`), same text lines -/
theorem stl_conv_on (now : STL.Date) (strict : Bool) (s : Subs) (hr : inRange "stl" s = true)
    (hp : Conv2STL.PlainSTL s = true)
    (hd : SRT.kvGet s.metadata "STLDisplayStandardCode" = some "0".toList)
    (hm : Conv2STL.stlMetaOK now s = true) :
    ∃ out md items, STL.write now (STLD.metaOf s.metadata) (s.items.map STLD.cueOf) = .ok out ∧
      STL.read false out = .ok (md, items) ∧ convOk strict "stl" s { items := items } = true ∧
      viewOf { items := items } = Conv2STL.truncViewSTL s := by
  obtain ⟨out, md, items, hw, hrd, hv⟩ := Conv2STL.stl_read_write now s hr hp hd hm
  exact ⟨out, md, items, hw, hrd, Conv2STL.convOk_of_view_stl strict s _ hv, hv⟩

/-- **C07, destination `stl`: `stl_conv_Statement` of `Props/C07doc.lean`** for `Plain := PlainSTLdoc`
    (plain, metadata that fits and carries both dates, so that the day of writing does not matter) -/
theorem stl_conv : stl_conv_Statement Conv2STL.PlainSTLdoc := by
  intro now s hr hp hd
  simp only [Conv2STL.PlainSTLdoc, Bool.and_eq_true] at hp
  obtain ⟨⟨hp1, hp2⟩, hp3⟩ := hp
  obtain ⟨out, md, items, hw, hrd, hc, _⟩ :=
    stl_conv_on now false s hr hp1 hd (Conv2STL.stlMetaOK_day STL.zeroDate now s hp2 hp3)
  exact ⟨out, md, items, hw, hrd, hc⟩

/-- what the view equality says cue by cue -/
theorem stl_view_facts (s back : Subs) (h : viewOf back = Conv2STL.truncViewSTL s) :
    back.items.length = s.items.length ∧
    ∀ (k : Nat) (a b : CItem), s.items[k]? = some a → back.items[k]? = some b →
      b.startAt = truncSTL (stlParams s).1 (stlParams s).2 a.startAt ∧
      b.endAt = truncSTL (stlParams s).1 (stlParams s).2 a.endAt ∧ (cueView b).lines = (cueView a).lines := by
  constructor
  · have := congrArg List.length h
    simpa [viewOf_eq, Conv2STL.truncViewSTL] using this
  · intro k a b ha hb
    have h1 : (viewOf back)[k]? = some (cueView b) := by simp [viewOf_eq, hb]
    have h2 : (Conv2STL.truncViewSTL s)[k]? = some (Conv2STL.truncCueSTL (stlParams s).1 (stlParams s).2 (cueView a)) := by
      simp [viewOf_eq, Conv2STL.truncViewSTL, ha]
    rw [h, h2] at h1
    have e := Option.some.inj h1
    refine ⟨?_, ?_, ?_⟩
    · have := congrArg VCue.startAt e; simpa [Conv2STL.truncCueSTL, cueView] using this.symm
    · have := congrArg VCue.endAt e; simpa [Conv2STL.truncCueSTL, cueView] using this.symm
    · have := congrArg VCue.lines e; simpa [Conv2STL.truncCueSTL] using this.symm

example : Conv2STL.PlainSTLdoc Conv2STL.exampleSTL = true ∧ inRange "stl" Conv2STL.exampleSTL = true ∧
    SRT.kvGet Conv2STL.exampleSTL.metadata "STLDisplayStandardCode" = some "0".toList :=
  ⟨Conv2STL.exampleSTL_doc, by decide, by decide⟩

/-- **Operations, then STL**: as for the other destinations -/
theorem stl_conv_ops (now : STL.Date) (strict : Bool) (src : Subs) (margs : List Subs) (ops : List String)
    (expected : List Item) (opsS : Subs)
    (_hops : applyOps (itemsOf src) (margs.map itemsOf) ops = some expected)
    (hcorr : vOfItems expected = viewOf opsS)
    (hr : inRange "stl" opsS = true) (hp : Conv2STL.PlainSTL opsS = true)
    (hd : SRT.kvGet opsS.metadata "STLDisplayStandardCode" = some "0".toList)
    (hm : Conv2STL.stlMetaOK now opsS = true) :
    ∃ out md items, STL.write now (STLD.metaOf opsS.metadata) (opsS.items.map STLD.cueOf) = .ok out ∧
      STL.read false out = .ok (md, items) ∧ convOk strict "stl" opsS { items := items } = true ∧
      viewOf { items := items } = (vOfItems expected).map (Conv2STL.truncCueSTL (stlParams opsS).1 (stlParams opsS).2) := by
  obtain ⟨out, md, items, hw, hrd, hc, hv⟩ := stl_conv_on now strict opsS hr hp hd hm
  refine ⟨out, md, items, hw, hrd, hc, ?_⟩
  rw [hv, Conv2STL.truncViewSTL, hcorr]

end C07doc2
end Astisub
