import Astisub.Model.SSA
import Astisub.Lemmas.SSAStr
import Astisub.Lemmas.SSAEvent
import Astisub.Lemmas.SSAText
import Astisub.Lemmas.SSAStyle
import Astisub.Lemmas.SSADoc

/-!
# C04 (document part) — SSA / ASS: what the writer emits is read back

`Props/C04.lean` proves the component laws (tables, booleans, colours, commas, event times).  This
file composes them into round trips of whole rows and texts of the model `SSA.write` / `SSA.read`
of the repaired `ssa.go`, for **all** values satisfying explicit decidable predicates:

* `event_row_roundtrip`: a `Dialogue` row written by `ssaEvent.string` for the writer's fixed
  Format (v4 and v4+) is parsed by `newSSAEventFromString` into the event it was written from,
  up to the normalisation `Event.norm` (centisecond times, explicit zero margins, …);
  `event_row_fixpoint`: events in normal form come back unchanged;
* `text_lines_roundtrip`, `line_runs_roundtrip`, `event_text_roundtrip`, `item_lines_roundtrip`:
  lines joined with `\n` and runs (override block + text) concatenated are cut back into the same
  lines and runs;
* `writer_format_shape`, `style_row_roundtrip`, `style_attrs_roundtrip`: for the Format the
  writer builds with `updateFormat` over any list of styles, every style's row is read back as
  the style's name and all of its attributes.

The predicates (`EventCells`, `LineOK`, `GoodLine`, `StyleOK`, `CellOK`) are decidable; after each
group an `example` shows a non-trivial value satisfying them.
-/

namespace Astisub
namespace C04doc
open Go SSA List

/-! ### 1. event rows -/

/-- **Event row round trip.** For every event whose `Style`, `Name`, `Effect` contain no comma, whose
    times are below 100 h and whose integers fit 64 bits — the text may contain anything — the row
    the writer emits (`ssaEvent.string`, v4 or v4+) is parsed with the writer's Format into the same
    event in normal form: times truncated to the centisecond, margins explicit, `Layer` (v4+) or
    `Marked` (v4) explicit, `*Default` renamed `Default`, text trimmed.  Nothing else changes, whatever
    commas the text contains. -/
theorem event_row_roundtrip (e : Event) (v4plus : Bool) (hdr : Str) (h : EventCells e) :
    eventRow hdr (e.row v4plus) (eventFormat v4plus) = some (e.norm hdr v4plus) := by
  cases v4plus
  · exact eventRow_row_v4 e hdr h
  · exact eventRow_row_v4plus e hdr h

/-- what was read back is in normal form: normalising again changes nothing -/
theorem event_norm_idem (e : Event) (v4plus : Bool) (hdr : Str) :
    (e.norm hdr v4plus).norm hdr v4plus = e.norm hdr v4plus := SSA.event_norm_idem e v4plus hdr

/-- **Event row fixpoint.** An event that is in normal form (e.g. one that was read) is parsed back
    from its row exactly: `parse (format, render row) = row`, all ten columns. -/
theorem event_row_fixpoint (e : Event) (v4plus : Bool) (h : EventCells e) (hn : e.norm e.category v4plus = e) :
    eventRow e.category (e.row v4plus) (eventFormat v4plus) = some e := by
  rw [event_row_roundtrip e v4plus e.category h, hn]

/-- … and writing what was read from a row gives the row again (write ∘ read ∘ write = write on rows):
    the normalisation does not show in the written row, provided the text needs no trimming. -/
theorem event_row_rewrite (e : Event) (v4plus : Bool) (hdr : Str) (h : EventCells e) (ht : Trimmed e.text)
    (hs : e.style ≠ "*Default".toList) :
    (e.norm hdr v4plus).row v4plus = e.row v4plus := by
  have hfmt : ∀ t : Int, TimeOK t → Duration.formatSSA (t - t % 10000000) = Duration.formatSSA t := by
    intro t ht
    obtain ⟨n, rfl⟩ : ∃ n : Nat, t = (n : Int) := ⟨t.toNat, by have := ht.1; omega⟩
    unfold Duration.formatSSA Duration.format
    have e1 : ((n : Int) - (n : Int) % 10000000).toNat = n - n % 10000000 := by omega
    rw [e1, Int.toNat_natCast]
    have a1 : (n - n % 10000000) / 3600000000000 = n / 3600000000000 := by omega
    have a2 : (n - n % 10000000) % 3600000000000 / 60000000000 = n % 3600000000000 / 60000000000 := by omega
    have a3 : (n - n % 10000000) % 60000000000 / 1000000000 = n % 60000000000 / 1000000000 := by omega
    have a4 : (n - n % 10000000) % 1000000000 / 1000000 / 10 ^ (3 - 2) = n % 1000000000 / 1000000 / 10 ^ (3 - 2) := by
      have : (10 : Nat) ^ (3 - 2) = 10 := rfl
      rw [this]; omega
    simp only [a1, a2, a3, a4]
  unfold Event.row Event.norm
  cases v4plus
  · simp only [Bool.false_eq_true, ↓reduceIte, hfmt _ h.start, hfmt _ h.stop, Option.getD_some, hs,
      trimSpace_of_trimmed ht, Option.some.injEq, decide_eq_true_eq]
  · simp only [↓reduceIte, hfmt _ h.start, hfmt _ h.stop, Option.getD_some, hs, trimSpace_of_trimmed ht]

/-- non-vacuity: an event with commas and an override block in the text, a negative margin, a `;` in the effect -/
def exEvent : Event :=
  { category := "Dialogue".toList, startAt := 3723450000000, endAt := 3725000000000, layer := some 3,
    marginL := some (-20), style := "Top".toList, name := "Bob".toList, effect := "Scroll up;20".toList,
    text := "{\\an8}Hello, world\\nbye".toList }

example : EventCells exEvent := by decide

/-! ### 2. text: lines and runs -/

/-- **Lines.** Lines that contain neither `\n` nor `\N` and need no trimming, joined with `\n` by the
    writer, are split by the reader (`\N` → `\n`, split at `\n`, trim) into exactly these lines. -/
theorem text_lines_roundtrip (ls : List Str) (hne : ls ≠ []) (h : ∀ L ∈ ls, LineOK L) :
    textLines (join "\\n".toList ls) = ls := textLines_join ls hne h

/-- **Runs.** The runs of a line — an optional plain first run, then runs that each start with an
    override block `{…}` (at least one character, no brace inside) followed by brace-free text,
    possibly empty — concatenated by the writer are cut by the reader's scanner
    (`ssaRegexpEffect`) into exactly these runs, override block and text of each. -/
theorem line_runs_roundtrip (runs : List Run) (h : GoodLine runs) :
    lineRuns (lineStr runs) = runs.map mkRun := lineRuns_lineStr runs h

/-- **Text.** Both together: the text the writer emits for lines of runs is read back as the same
    lines of the same runs. -/
theorem event_text_roundtrip (ls : List (List Run)) (hne : ls ≠ []) (hg : ∀ l ∈ ls, GoodLine l)
    (hl : ∀ l ∈ ls, LineOK (lineStr l)) :
    (textLines (join "\\n".toList (ls.map lineStr))).map lineRuns = ls.map fun l => l.map mkRun := by
  rw [textLines_join (ls.map lineStr) (by simpa using hne) (by
    intro L hL
    obtain ⟨l, hl', rfl⟩ := mem_map.mp hL
    exact hl l hl')]
  rw [map_map]
  apply map_congr_left
  intro l hl'
  exact lineRuns_lineStr l (hg l hl')

/-- what the writer emits for a run whose `LineItem` is `mkRun r` -/
theorem writer_run (r : Run) :
    (kvGet (mkRun r).attrs "SSAEffect").getD [] ++ (mkRun r).text = runStr r := by
  obtain ⟨eo, t⟩ := r
  cases eo <;> simp [mkRun, runStr, kvGet]

/-- the text `newSSAEventFromItem` builds for a cue whose lines are these lines of runs -/
theorem writer_text (it : CItem) (voice : Str) (ls : List (List Run))
    (h : it.lines = ls.map fun l => { voice := voice, items := l.map mkRun }) :
    (eventOfItem it).text = join "\\n".toList (ls.map lineStr) := by
  unfold eventOfItem
  simp only [h, map_map]
  congr 1
  apply map_congr_left
  intro l _
  simp only [Function.comp, lineStr, map_map]
  congr 1
  apply map_congr_left
  intro r _
  exact writer_run r

/-- **Cue lines.** A cue whose lines are lines of such runs is written to a text from which
    `ssaEvent.item` rebuilds the same lines and runs (the voice of every line is the event's `Name`). -/
theorem item_lines_roundtrip (ids : List Str) (e : Event) (ls : List (List Run)) (hne : ls ≠ [])
    (hg : ∀ l ∈ ls, GoodLine l) (hl : ∀ l ∈ ls, LineOK (lineStr l))
    (ht : e.text = join "\\n".toList (ls.map lineStr)) :
    (eventItem ids e).lines = ls.map fun l => { voice := e.name, items := l.map mkRun } := by
  have := event_text_roundtrip ls hne hg hl
  unfold eventItem
  simp only [ht]
  have h2 := congrArg (map fun its => ({ voice := e.name, items := its } : Line)) this
  rw [map_map, map_map] at h2
  exact h2

/-- non-vacuity: a line with a plain first run, two override blocks, an empty last text; commas allowed -/
example : GoodLine [(none, "Hello, ".toList), (some "{\\i1}".toList, "world".toList), (some "{\\i0}".toList, [])] := by
  decide
example : LineOK (lineStr [(none, "Hello, ".toList), (some "{\\i1}".toList, "world".toList), (some "{\\i0}".toList, [])]) := by
  decide
/-- the predicates do exclude something: a `\N` inside a line, an empty plain run in front of a block -/
example : ¬ LineOK "a\\Nb".toList := by decide
example : ¬ GoodLine [(none, []), (some "{\\i1}".toList, "world".toList)] := by decide

/-! ### 3. style rows -/

/-- **The writer's Format.** Whatever the styles are, the Format `WriteToSSA` builds with
    `updateFormat` is `Name` followed by pairwise distinct attribute columns, among them every
    attribute any of the styles has. -/
theorem writer_format_shape (styles : List Style) :
    styles.foldl (fun fmt st => updateFormat st fmt) ["Name".toList] = formatOf (formatFlds styles)
    ∧ (formatFlds styles).Nodup
    ∧ ∀ st ∈ styles, ∀ f, (st.vals.get f).isSome → f ∈ formatFlds styles :=
  ⟨writer_format styles, formatFlds_nodup styles, fun st h f hf => formatFlds_covering styles st h f hf⟩

/-- **Style row round trip.** For any Format `Name, <distinct attribute columns>` and any style
    whose values are good cells (booleans; 32-bit colours; 64-bit integers; doubles that survive
    `FormatFloat(·,'f',3)`/`ParseFloat` in the `Numconv` model; a non-empty comma-free font name),
    the row `ssaStyle.string` writes exists and `newSSAStyleFromString` reads it back as the
    style's name and exactly its attributes in these columns (any subset of the 23: an attribute
    the style does not have is written as an empty cell and stays unset). -/
theorem style_row_roundtrip (s : Style) (fs : List Fld) (hs : StyleOK s) (hnd : fs.Nodup) :
    ∃ row, s.row (formatOf fs) = some row ∧
      styleRow row (formatOf fs) = .ok { name := s.name, vals := pick s fs } := by
  obtain ⟨row, hrow⟩ := row_exists s fs hs
  exact ⟨row, hrow, styleRow_row s fs hs hnd row hrow⟩

/-- **Style attributes round trip.** With the Format the writer builds for a list of styles, each
    of these styles is written to a row that is read back as a style with the same name and,
    attribute by attribute (all 23), the same value or the same absence. -/
theorem style_attrs_roundtrip (styles : List Style) (s : Style) (hmem : s ∈ styles) (hs : StyleOK s) :
    ∃ row back, s.row (styles.foldl (fun fmt st => updateFormat st fmt) ["Name".toList]) = some row ∧
      styleRow row (styles.foldl (fun fmt st => updateFormat st fmt) ["Name".toList]) = .ok back ∧
      back.name = s.name ∧ (∀ f, back.vals.get f = s.vals.get f) ∧ back.toDef = s.toDef := by
  obtain ⟨hfmt, hnd, hcov⟩ := writer_format_shape styles
  rw [hfmt]
  obtain ⟨row, hrow, hback⟩ := style_row_roundtrip s (formatFlds styles) hs hnd
  have hget : ∀ f, (pick s (formatFlds styles)).get f = s.vals.get f :=
    pick_get_covering s _ (hcov s hmem)
  refine ⟨row, _, hrow, hback, rfl, hget, ?_⟩
  unfold Style.toDef
  simp only [hget]

/-- non-vacuity: a style with a boolean, a font name with a space, a float, a colour, a negative integer -/
def exStyle : Style :=
  { name := "Top".toList,
    vals := [(.bold, .b true), (.fontName, .s "Arial Black".toList), (.fontSize, .f 0x4034000000000000),
             (.primaryColour, .c 0x00FFFFFF), (.marginV, .i (-5))] }

example : StyleOK exStyle := by decide +kernel
/-- doubles that are not multiples of 1/1000 are covered too when they survive three decimals: 0.1 -/
example : floatOK 0x3FB999999999999A = true := by decide +kernel
/-- … and 1/3 is not -/
example : floatOK 0x3FD5555555555555 = false := by decide +kernel

/-! ### 4. the document: styles and events sections (proved), script info and fixpoint (stated) -/

/-- the styles and cues of a cue list can be written and read back: every style (sorted, as the
    writer sees it) is made of good cells and needs no trimming, every cue's event has good cells
    and a text that needs no trimming -/
def BodyOK (s : Subs) : Prop :=
  (∀ st ∈ writerStyles s, StyleOK st ∧ StyleTrimmed st) ∧
  (∀ e ∈ s.items.map eventOfItem, EventCells e ∧ Trimmed e.text)

instance (s : Subs) : Decidable (BodyOK s) :=
  inferInstanceAs (Decidable ((∀ st ∈ writerStyles s, StyleOK st ∧ StyleTrimmed st) ∧
    (∀ e ∈ s.items.map eventOfItem, EventCells e ∧ Trimmed e.text)))

/-- **Shape of the written document.** Whenever `WriteToSSA` succeeds its output is the script-info
    text followed by the lines of the styles block (absent without styles) and of the events block:
    section header, `Format:` line, one `Style:` / `Dialogue:` line per style / cue. -/
theorem document_shape (s : Subs) (out : Str) (h : write s = .ok out) :
    ∃ infoLines rows,
      allSome ((writerStyles s).map fun st => st.row (formatOf (formatFlds (writerStyles s)))) = some rows ∧
      out = unlines ("[Script Info]".toList :: infoLines
              ++ stylesBlock (isV4plus s) (formatFlds (writerStyles s)) rows
              ++ eventsBlock (isV4plus s) (s.items.map eventOfItem)) := by
  obtain ⟨infoTxt, rows, hi, hrows, rfl⟩ := write_ok_lines s out h
  obtain ⟨ls, rfl⟩ := info_bytes_lines _ _ hi
  exact ⟨ls, rows, hrows, by rw [unlines_append, unlines_append]⟩

/-- **Write → read, styles and events sections.** Let the script-info lines of the written document
    take the reader to a state `st0` (hypothesis: the script-info clause is not proved here).  Then
    for every cue list with `BodyOK` the rest of the document — styles block and events block — is
    scanned without error and the reader ends with exactly: the writer's styles, each with its
    name and its attributes in the Format's columns, and one event per cue, in normal form. -/
theorem document_body_roundtrip (s : Subs) (infoLines rows : List Str) (st0 : St) (hb : BodyOK s)
    (hrows : allSome ((writerStyles s).map fun st => st.row (formatOf (formatFlds (writerStyles s)))) = some rows)
    (hinfo : run {} ("[Script Info]".toList :: infoLines) = .ok st0) (hf : st0.first = false) :
    run {} ("[Script Info]".toList :: infoLines
            ++ stylesBlock (isV4plus s) (formatFlds (writerStyles s)) rows
            ++ eventsBlock (isV4plus s) (s.items.map eventOfItem))
      = .ok { st0 with
          sec := .events, format := eventFormat (isV4plus s),
          styles := st0.styles ++ (writerStyles s).map (fun st => { name := st.name, vals := pick st (formatFlds (writerStyles s)) }),
          events := st0.events ++ (s.items.map eventOfItem).map (Event.norm "Dialogue".toList (isV4plus s)) } := by
  rw [append_assoc, run_append_ok hinfo]
  exact run_body (isV4plus s) _ (formatFlds_nodup _) (writerStyles s) rows _ st0 hf hb.1 hrows hb.2

/-- non-vacuity of `BodyOK`: a style with a boolean, a font name and a font size; a cue with two lines, an override block, a comma -/
def exSubs : Subs :=
  { items := [{ startAt := 1000000000, endAt := 2500000000, style := some "Top".toList,
                attrs := some [("SSAMarginLeft".toList, "12".toList)],
                lines := [{ voice := "Bob".toList, items := [mkRun (none, "Hello, ".toList), mkRun (some "{\\i1}".toList, "world".toList)] },
                          { voice := "Bob".toList, items := [mkRun (none, "bye".toList)] }] }],
    styles := [{ id := "Top".toList, attrs := some [("SSABold".toList, "true".toList), ("SSAFontName".toList, "Arial Black".toList),
                                                     ("SSAFontSize".toList, "f4626322717216342016".toList)] }],
    metadata := some [("SSAScriptType".toList, "v4.00+".toList)] }

example : BodyOK exSubs := by
  have h : writerStyles exSubs = exSubs.styles.map styleOfDef := by
    simp [writerStyles, exSubs]
  unfold BodyOK
  rw [h]
  decide +kernel

/-! #### not proved: the statements -/

/-- UNPROVED (statement only). Document-level write → read: for a representable cue list the reader,
    given the lines of the written text, answers `norm s` — the cues rebuilt from the normalised
    events against the written style names, the styles with their attributes, the metadata of the
    script info.  `Rep` is the representability predicate (at least `BodyOK`, a script info whose
    strings need no trimming and whose `Timer` survives `FormatFloat(-1)`/`ParseFloat`, distinct
    style names) and `norm` the normal form; both are parameters because they are not fixed here. -/
def write_read_Statement (Rep : Subs → Prop) (norm : Subs → Subs) : Prop :=
  ∀ s out, Rep s → write s = .ok out → SSA.read (splitC '\n' out) = .ok (norm s)

/-- UNPROVED (statement only). The rewrite fixpoint: writing what was read back gives the same text,
    so write ∘ read ∘ write = write. -/
def rewrite_fixpoint_Statement (Rep : Subs → Prop) (norm : Subs → Subs) : Prop :=
  ∀ s, Rep s → write (norm s) = write s

end C04doc
end Astisub
