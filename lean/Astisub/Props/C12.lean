import Astisub.Model.Ops
import Astisub.Model.Graph
import Astisub.Spec.OpsSpec

/-!
# C12 — Order is a stable sort by start; Merge is an ordered union, receiver wins

`Ops.order` models `Subtitles.Order` (`sort.SliceStable` on `StartAt`), `Ops.mergeItems` and
`Graph.mergeDefs` model `Subtitles.Merge`.  All statements hold for lists and maps of any size.
-/

namespace Astisub
namespace C12
open Ops List

theorem leStart_trans (a b c : Item) : leStart a b → leStart b c → leStart a c := by
  simp only [leStart, decide_eq_true_eq]; omega

theorem leStart_total (a b : Item) : (leStart a b || leStart b a) = true := by
  simp only [leStart, Bool.or_eq_true, decide_eq_true_eq]; omega

/-- ordering rearranges the same cues: nothing lost, nothing duplicated -/
theorem order_perm (xs : List Item) : order xs ~ xs := mergeSort_perm xs leStart

/-- starts are non-decreasing afterwards -/
theorem order_sorted (xs : List Item) : (order xs).Pairwise (fun a b => a.startAt ≤ b.startAt) := by
  have := pairwise_mergeSort leStart_trans leStart_total xs
  exact this.imp (by intro a b h; simpa [leStart] using h)

/-- cues with equal starts (more generally: any pair already in order) keep their relative order -/
theorem order_stable (xs : List Item) (a b : Item) (hab : a.startAt ≤ b.startAt)
    (h : [a, b] <+ xs) : [a, b] <+ order xs :=
  pair_sublist_mergeSort leStart_trans leStart_total (by simpa [leStart] using hab) h

/-- every already-sorted sub-sequence of the input survives in order (full stability) -/
theorem order_stable_sublist (xs c : List Item) (hc : c.Pairwise (fun a b => a.startAt ≤ b.startAt))
    (h : c <+ xs) : c <+ order xs :=
  sublist_mergeSort leStart_trans leStart_total (hc.imp (by intro a b h; simpa [leStart] using h)) h

/-- an ordered list is left as it is -/
theorem order_of_sorted (xs : List Item) (h : xs.Pairwise (fun a b => a.startAt ≤ b.startAt)) :
    order xs = xs :=
  mergeSort_of_pairwise (h.imp (by intro a b h; simpa [leStart] using h))

theorem order_idem (xs : List Item) : order (order xs) = order xs :=
  order_of_sorted _ (order_sorted xs)

/-- merging: exactly the cues of A and of B -/
theorem merge_perm (a b : List Item) : mergeItems a b ~ a ++ b := order_perm _

theorem merge_sorted (a b : List Item) :
    (mergeItems a b).Pairwise (fun x y => x.startAt ≤ y.startAt) := order_sorted _

/-- on equal starts A's cue comes ahead of B's -/
theorem merge_receiver_first (a b : List Item) (x y : Item) (hx : x ∈ a) (hy : y ∈ b)
    (h : x.startAt = y.startAt) : [x, y] <+ mergeItems a b := by
  apply order_stable _ x y (by omega)
  have h1 : [x] <+ a := singleton_sublist.mpr hx
  have h2 : [y] <+ b := singleton_sublist.mpr hy
  exact h1.append h2

/-- … and the relative order inside A (and inside B) on equal starts is kept -/
theorem merge_stable_left (a b : List Item) (x y : Item) (hxy : [x, y] <+ a)
    (h : x.startAt ≤ y.startAt) : [x, y] <+ mergeItems a b :=
  order_stable _ x y h (hxy.trans (sublist_append_left a b))

theorem merge_stable_right (a b : List Item) (x y : Item) (hxy : [x, y] <+ b)
    (h : x.startAt ≤ y.startAt) : [x, y] <+ mergeItems a b :=
  order_stable _ x y h (hxy.trans (sublist_append_right a b))

/-! ### regions and styles -/

open Graph

/-- `other`'s keys equal its definitions' identifiers (what every reader and `NewSubtitles`
    user produces) -/
def IdKeyed {D : Type} (idOf : D → String) (m : List (String × D)) : Prop := ∀ kd ∈ m, kd.1 = idOf kd.2

theorem lookup_append_singleton {D : Type} (acc : List (String × D)) (k : String) (d : D) (q : String) :
    (acc ++ [(k, d)]).lookup q = (acc.lookup q <|> if q = k then some d else none) := by
  induction acc with
  | nil =>
    simp only [List.nil_append, List.lookup, Option.orElse]
    by_cases h : q = k
    · subst h; simp
    · have : (q == k) = false := by simpa using h
      simp [this, h]
  | cons hd tl ih =>
    obtain ⟨k', d'⟩ := hd
    simp only [List.cons_append, List.lookup]
    cases hq : q == k' <;> simp [ih]

/-- Merge: the receiver's definition wins on an identifier clash, otherwise the argument's
    (first listed) definition is added: `lookup id (merge A B) = lookup id A <|> lookup id B`. -/
theorem mergeDefs_lookup {D : Type} (idOf : D → String) (mine other : List (String × D))
    (hk : IdKeyed idOf other) (q : String) :
    (mergeDefs idOf mine other).lookup q = (mine.lookup q <|> other.lookup q) := by
  unfold mergeDefs
  induction other generalizing mine with
  | nil => simp
  | cons kd rest ih =>
    have hkd : kd.1 = idOf kd.2 := hk kd (by simp)
    have hrest : IdKeyed idOf rest := fun x hx => hk x (by simp [hx])
    obtain ⟨k, d⟩ := kd
    simp only at hkd
    simp only [List.foldl_cons]
    rw [ih _ hrest]
    simp only [List.lookup]
    cases hl : (mine.lookup (idOf d)).isSome
    · -- not present: appended
      simp only [Bool.false_eq_true, ↓reduceIte, lookup_append_singleton]
      by_cases hq : q = idOf d
      · subst hq
        have hn : mine.lookup (idOf d) = none := by
          cases h : mine.lookup (idOf d) <;> simp_all
        simp [hn, hkd]
      · have : (q == k) = false := by rw [hkd]; simpa using hq
        simp [hq, this]
    · -- present: skipped; and then `q = id d` resolves in `mine` anyway
      simp only [↓reduceIte]
      by_cases hq : q = idOf d
      · subst hq
        obtain ⟨v, hv⟩ := Option.isSome_iff_exists.mp hl
        simp [hv]
      · have : (q == k) = false := by rw [hkd]; simpa using hq
        simp [this]

/-- the receiver's own definitions are never replaced or removed, whatever the argument -/
theorem mergeDefs_prefix {D : Type} (idOf : D → String) (mine other : List (String × D)) :
    mine <+: mergeDefs idOf mine other := by
  unfold mergeDefs
  induction other generalizing mine with
  | nil => simp
  | cons kd rest ih =>
    simp only [List.foldl_cons]
    split
    · exact ih mine
    · exact (List.prefix_append mine _).trans (ih _)

end C12
end Astisub
