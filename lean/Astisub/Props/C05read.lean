import Astisub.Lemmas.STLRead2Why

/-!
# C05 (read clause) — EBU STL: the reader model returns exactly what a well-formed file denotes

`Props/C05doc.lean`, `Props/C05doc2.lean` prove the write clause (files produced by the writer model).  This file
proves the READ clause for **every** input: whenever the independent decoder `Spec.STL.decode` (written from Tech 3264, `none` outside its
class) accepts a byte string `doc` and denotes `d`, the model of `ReadFromSTL` succeeds on `doc`, and what it
returns is a function of `d` whose view under the `stl.read` check is `d` again.  Nothing is assumed about where
`doc` comes from; all three display standards (0 open subtitling, 1 / 2 teletext) and both frame rates are covered,
with and without `IgnoreTimecodeStartOfProgramme`.

* `read_decode` — MAIN, structural form: `STL.read ig doc = .ok (docMeta d, d.cues.map (docCue d.dsc d.mnr))`.
* `read_decode_view` — MAIN, as the clauses of the `stl.read` case of `Driver/STL.lean` (`readWhy`) state it, on the
  model's answer: frame rate / display standard / language, GSI text fields, dates / numbers, programme start,
  number of cues, timecodes, `cueView`, `propagationOK`, maximum rows in `STLPosition`.
* `read_why` — the predicate `Driver.STLD.readWhy` itself returns no failed clause on any answer that parses into the
  model's answer (hypotheses: the canonical print / parse of the protocol, which is not proved here).
* layer by layer: `gsi_block` and the field readers (`gsi_text_field`, `gsi_number`, `gsi_date`, `gsi_timecode`),
  `open_row`, `teletext_row`, `tti_block_open`, `tti_block_teletext`, `block_loop_fuel`.
* `decoded_cues_wellformed`, `language_names` — facts about the decoder's class used by the views.

No hypothesis beyond `Spec.STL.decode ig doc = some d` was needed: no document of the decoder's class was found on
which the model differs.  Nothing is left as an unproved statement.

Vocabulary (defined in `Lemmas/STLRead2*.lean`): `docMeta d` — the `Meta` record with the decoder's values
(language: the library's name for the code, or empty); `docCue dsc mnr c` — the `CItem` with the decoder's times,
`itemAttrs c.just c.vp mnr c.nrows`, and per line the items `runItem dsc r` (`openItem`: text + the three STL flags;
`teleItem`: also colour, sizes and blank counts); `Seg`, `itemOf`, `runOf` — a run as (trimmed text, three optional
flags), as line item, as decoder run (from `Lemmas/STL2Tok.lean`); `CueOK`, `RunOK`, `OpenRun`, `ColOK` — decidable
facts about decoder output; `MetaCarried a m` — the attribute list `a` carries the metadata `m` key by key.
-/

namespace Astisub
namespace C05
open Go STL

/-! ## MAIN -/

/-- **Read clause, structural form.**  For every byte string `doc` and both settings of
    `IgnoreTimecodeStartOfProgramme`: if the independent decoder accepts `doc` and denotes `d`, the model of
    `ReadFromSTL` succeeds on `doc` and returns the metadata `docMeta d` and exactly one cue `docCue d.dsc d.mnr c`
    per cue `c` of `d`, in order (user-data blocks skipped by both). -/
theorem read_decode (ig : Bool) (doc : Bytes) (d : Spec.STL.Doc) (h : Spec.STL.decode ig doc = some d) :
    STL.read ig doc = .ok (docMeta d, d.cues.map (docCue d.dsc (d.mnr : Int))) :=
  read_of_decode ig doc d h

/-- the metadata returned, field by field (definition of `docMeta`) -/
theorem docMeta_fields (d : Spec.STL.Doc) :
    docMeta d =
      { framerate := (d.fr : Int), language := (languageOf d.lang).getD [], country := d.texts.getD 7 [],
        creation := some { yy := d.cd.1, mm := d.cd.2.1, dd := d.cd.2.2 }, dsc := [0x30 + d.dsc],
        editorContact := d.texts.getD 10 [], editorName := d.texts.getD 9 [], maxChars := some (d.mnc : Int),
        maxRows := some (d.mnr : Int), origEpisode := d.texts.getD 1 [], publisher := d.texts.getD 8 [],
        revisionDate := some { yy := d.rd.1, mm := d.rd.2.1, dd := d.rd.2.2 }, revisionNumber := (d.rn : Int),
        slr := d.texts.getD 6 [], tcp := d.tcpNs, translEpisode := d.texts.getD 3 [], translProgram := d.texts.getD 2 [],
        translContact := d.texts.getD 5 [], translName := d.texts.getD 4 [], title := d.texts.getD 0 [] } := rfl

/-- the cue returned, field by field (definition of `docCue`, `runItem`, `openItem`, `teleItem`) -/
theorem docCue_fields (dsc : Nat) (mnr : Int) (c : Spec.STL.Cue) :
    docCue dsc mnr c =
      { startAt := c.startNs, endAt := c.endNs, attrs := itemAttrs c.just c.vp mnr c.nrows,
        lines := c.lines.map fun l => { items := l.map (runItem dsc) } } ∧
    (∀ r, runItem 0 r = { text := r.text, attrs := some (mkAttrs (stlAttrs { italics := r.italic, underline := r.underline, boxing := r.boxing })) }) ∧
    (∀ r, dsc ≠ 0 → runItem dsc r = { text := r.text, attrs := some (mkAttrs (stlAttrs (lstyR r) ++
      [("TeletextColor", r.color.map colorSSA), ("TTMLColor", r.color.map colorTTML),
       ("TeletextDoubleHeight", optB r.dh), ("TeletextDoubleSize", optB r.ds), ("TeletextDoubleWidth", optB r.dw),
       ("TeletextSpacesBefore", some (itoaNat r.spacesBefore)), ("TeletextSpacesAfter", some (itoaNat r.spacesAfter))])) }) :=
  ⟨rfl, fun _ => rfl, fun r h => by rw [runItem_tele dsc h]; rfl⟩

/-- **Read clause, as the `stl.read` check states it** (the clauses of `Driver.STLD.readWhy`, in its order, on the
    model's answer).  If the decoder accepts `doc` and denotes `d`, the reader model returns metadata `m` and cues
    `items` such that
    * frame rate and display standard code are `d`'s; the language is the library's name for a code it knows
      (`language_names`);
    * the eleven GSI text values are `d.texts`;
    * creation / revision date, revision number, maximum characters / rows are `d`'s;
    * the programme start is `d.tcpNs` (0 when ignored);
    * there are as many cues as `d` has, with the same two instants each;
    * the check's view `cueView` of every cue (times, justification code, vertical position, number of rows, and
      the runs with all their attributes, read back out of the attribute lists) is the cue `d` denotes;
    * the derived attributes (`WebVTTAlign`, `WebVTTLine`, `TTMLColor`) are the ones the check recomputes;
    * the second component of every `STLPosition` is `d.mnr`. -/
theorem read_decode_view (ig : Bool) (doc : Bytes) (d : Spec.STL.Doc) (h : Spec.STL.decode ig doc = some d) :
    ∃ m items, STL.read ig doc = .ok (m, items) ∧
      m.framerate = (d.fr : Int) ∧ m.dsc = [48 + d.dsc] ∧ m.language = (languageOf d.lang).getD [] ∧
      [m.title, m.origEpisode, m.translProgram, m.translEpisode, m.translName, m.translContact, m.slr, m.country,
        m.publisher, m.editorName, m.editorContact] = d.texts ∧
      m.creation = some { yy := d.cd.1, mm := d.cd.2.1, dd := d.cd.2.2 } ∧
      m.revisionDate = some { yy := d.rd.1, mm := d.rd.2.1, dd := d.rd.2.2 } ∧
      m.revisionNumber = (d.rn : Int) ∧ m.maxChars = some (d.mnc : Int) ∧ m.maxRows = some (d.mnr : Int) ∧
      m.tcp = d.tcpNs ∧
      items.length = d.cues.length ∧
      items.map (fun it => (it.startAt, it.endAt)) = d.cues.map (fun c => (c.startNs, c.endNs)) ∧
      items.map Driver.STLD.cueView = d.cues.map some ∧
      items.all Driver.STLD.propagationOK = true ∧
      (items.all fun it => (Driver.STLD.posOf it.attrs).any fun p => p.2.1 == (d.mnr : Int)) = true := by
  have hok := decode_cues_ok ig doc d h
  refine ⟨_, _, read_of_decode ig doc d h, rfl, rfl, rfl, texts_eleven ig doc d (decode_inv ig doc d h), rfl, rfl, rfl, rfl,
    rfl, rfl, by simp, ?_, ?_, ?_, ?_⟩
  · rw [List.map_map]; rfl
  · rw [List.map_map]
    exact List.map_congr_left fun c hc => cueView_docCue d.dsc d.mnr c (hok c hc)
  · rw [List.all_eq_true]
    intro it hit
    obtain ⟨c, hc, rfl⟩ := List.mem_map.mp hit
    exact propagationOK_docCue d.dsc d.mnr c (hok c hc)
  · rw [List.all_eq_true]
    intro it hit
    obtain ⟨c, _, rfl⟩ := List.mem_map.mp hit
    exact maxRows_docCue d.dsc d.mnr c

/-- **The predicate of the `stl.read` stream on the model's answer.**  `Driver.STLD.readWhy ig doc impl` lists the
    failed clauses of the property for the answer tokens `impl`.  For every document the decoder accepts and every
    answer `"ok" :: rest` whose tokens parse (`Proto.decSubs`) into a value `s` carrying the reader model's answer —
    the cues of `read_decode` and, key by key, its metadata (`MetaCarried`) — the list is empty.
    (That the printed form of the model's answer parses back into such an `s` is the protocol's print / parse round
    trip, exercised on every case by the stream, not proved here.) -/
theorem read_why (ig : Bool) (doc : Bytes) (d : Spec.STL.Doc) (rest : List String) (s : Subs)
    (h : Spec.STL.decode ig doc = some d) (hdec : Proto.decSubs rest = some (s, []))
    (hitems : s.items = d.cues.map (docCue d.dsc (d.mnr : Int))) (hmeta : MetaCarried s.metadata (docMeta d)) :
    Driver.STLD.readWhy ig doc ("ok" :: rest) = [] :=
  readWhy_model ig doc d rest s h hdec hitems hmeta

/-- outside the decoder's class the predicate says nothing -/
theorem read_why_outside (ig : Bool) (doc : Bytes) (impl : List String) (h : Spec.STL.decode ig doc = none) :
    Driver.STLD.readWhy ig doc impl = [] := by
  unfold Driver.STLD.readWhy; rw [h]

/-- **Language names.**  The five language codes the library knows, and what `docMeta` shows for them; for any
    other code the language is empty (and the check claims nothing). -/
theorem language_names :
    (languageOf (lit "0F")).getD [] = lit "french" ∧ (languageOf (lit "09")).getD [] = lit "english" ∧
    (languageOf (lit "1E")).getD [] = lit "norwegian" ∧ (languageOf (lit "69")).getD [] = lit "japanese" ∧
    (languageOf (lit "75")).getD [] = lit "chinese" := by decide

/-- **What the decoder denotes is well formed**: every cue has a justification code 0–3; under display standard 0
    its runs carry no teletext attribute and no blank count, under 1 / 2 a colour is one of the eight (`CueOK`). -/
theorem decoded_cues_wellformed (ig : Bool) (doc : Bytes) (d : Spec.STL.Doc) (h : Spec.STL.decode ig doc = some d) :
    ∀ c ∈ d.cues, c.just ≤ 3 ∧ ∀ l ∈ c.lines, ∀ r ∈ l, if d.dsc = 0 then OpenRun r else ColOK r :=
  decode_cues_ok ig doc d h

/-- the check reads a cue of the model back as the decoder's cue (`cueView ∘ docCue = some`, on well-formed cues) -/
theorem cue_view (dsc mnr : Nat) (c : Spec.STL.Cue) (h : CueOK dsc c) :
    Driver.STLD.cueView (docCue dsc (mnr : Int) c) = some c :=
  cueView_docCue dsc mnr c h

/-- the check reads a run of the model back as the decoder's run, under either kind of display standard -/
theorem run_view (dsc : Nat) (r : Spec.STL.Run) (h : RunOK dsc r) : Driver.STLD.runView (runItem dsc r) = r :=
  runView_runItem dsc r h

/-! ## (1) GSI block -/

/-- **GSI block.**  For every file the decoder accepts, `parseGSIBlock` on the first 1024 bytes succeeds and every value
    it keeps is the decoder's (`gsiOfSpec`: character table 12336, language code, frame rate, display standard, the
    eleven text values, dates, numbers; `tcp` is the programme start as read, before `ignore` is applied). -/
theorem gsi_block (ig : Bool) (doc : Bytes) (d : Spec.STL.Doc) (h : Spec.STL.decode ig doc = some d) :
    ∃ tcp : Int, parseGSI (doc.take 1024) = some (gsiOfSpec d.fr d.dsc d.lang d.texts d.cd d.rd d.rn d.mnc d.mnr tcp) ∧
      d.tcpNs = (if ig then 0 else tcp) ∧ (d.fr = 25 ∨ d.fr = 30) :=
  parseGSI_of_decode ig doc d (decode_inv ig doc d h)

/-- **Text field**, any block, any position: a field of printable ASCII the decoder reads (blanks removed at both
    ends) is read by the model's `TrimSpace` as the same bytes -/
theorem gsi_text_field (b : Bytes) (lo n : Nat) (t : Bytes) (h : Spec.STL.textField b lo n = some t) :
    field b lo (lo + n) = t :=
  textField_field b lo n t h

/-- **Two-digit number** (revision number, maximum characters / rows): same value through `strconv.Atoi` -/
theorem gsi_number (b : Bytes) (lo v : Nat) (h : Spec.STL.numField b lo 2 = some v) :
    atoiField (field b lo (lo + 2)) = some (some (v : Int)) :=
  atoiField_two b lo (lo + 2) v rfl h

/-- **Date** `YYMMDD`: a date the decoder accepts is parsed by the model of `time.Parse("060102")` into the same
    year (two digits), month, day -/
theorem gsi_date (b : Bytes) (lo : Nat) (t : Nat × Nat × Nat) (h : Spec.STL.dateField b lo = some t) :
    dateField (field b lo (lo + 6)) = some { yy := t.1, mm := t.2.1, dd := t.2.2 } :=
  date_of_spec b lo (lo + 6) t rfl h

/-- **Textual timecode** `HHMMSSFF` (programme start, first cue): an in-range timecode denotes the same instant
    for the decoder (least instant of the frame) and for the model of `parseDurationSTL`, at any positive frame rate -/
theorem gsi_timecode (b : Bytes) (lo fr : Nat) (T : Int) (hfr : 0 < fr) (h : Spec.STL.tcText b lo fr = some T) :
    gsiTimecode (field b lo (lo + 8)) (fr : Int) = some T :=
  tc_of_spec b lo (lo + 8) fr T rfl hfr h

/-! ## (2) TTI framing -/

/-- **TTI block, display standard 0.**  For every 128-byte block the decoder accepts at `fr` frames per second with the
    offset `off` (user data: `r = none`, otherwise the cue denoted): the reader model with the same frame rate,
    display standard code `'0'`, entered without a pending diacritic, skips it / returns `docCue 0` of that cue — same
    binary timecodes minus `off`, justification, vertical position, number of rows, lines — and leaves no diacritic
    pending for the next block. -/
theorem tti_block_open (g : GSI) (fr : Nat) (off : Int) (p : Bytes) (r : Option Spec.STL.Cue)
    (hfr : g.m.framerate = (fr : Int)) (hpos : 0 < fr) (hdsc : g.m.dsc = [0x30])
    (h : Spec.STL.tti fr 0 off p = some r) :
    ttiItem g off none p = some (r.map (docCue 0 (g.m.maxRows.getD 0)), none) :=
  (tti_agree_open g fr off p r hfr hpos hdsc h).1

/-- **TTI block, display standards 1 and 2.** -/
theorem tti_block_teletext (g : GSI) (fr dsc : Nat) (off : Int) (p : Bytes) (r : Option Spec.STL.Cue)
    (hfr : g.m.framerate = (fr : Int)) (hpos : 0 < fr) (hne : dsc ≠ 0) (hdsc : g.m.dsc = [0x30 + dsc])
    (h : Spec.STL.tti fr dsc off p = some r) :
    ttiItem g off none p = some (r.map (docCue dsc (g.m.maxRows.getD 0)), none) :=
  tti_agree_tele g fr dsc off p r hfr hpos hne hdsc h

/-- the block loop: any fuel that is at least the number of bytes cuts the same 128-byte blocks (the decoder uses the
    file length, the model the length of the rest + 1) -/
theorem block_loop_fuel (fuel : Nat) (b : Bytes) (h : b.length ≤ fuel) : chunks 128 fuel b = chunks 128 b.length b :=
  chunks_fuel fuel b h

/-! ## (3) open-subtitling rows -/

/-- **Open-subtitling row, arbitrary bytes.**  For every byte sequence the decoder accepts as a row (table characters,
    floating diacritic + letter pairs, the six style codes, filler 0x8F) denoting the runs `res`: there are segments
    `segs` (trimmed text, three optional flags) with `res = segs.map runOf`, and `parseOpenSubtitleRow`, entered
    without a pending diacritic, returns the line of the items `segs.map itemOf` (no line when there is no run) and
    leaves no diacritic pending. -/
theorem open_row (row : Bytes) (res : List Spec.STL.Run) (h : Spec.STL.openRow row {} [] [] = some res) :
    ∃ segs : List Seg, res = segs.map runOf ∧
      STL.openRow none row = some (if segs.isEmpty then none else some { items := segs.map itemOf }, none) :=
  open_row_agree row res h

/-- the same from any state of the decoder: the model's loop state stays the image (`mst`) of the decoder's state
    (style, pending text, closed runs) — the simulation relation, step by step along the decoder's recursion -/
theorem open_row_simulation (row : Bytes) (a : AS) (res : List Spec.STL.Run)
    (h : Spec.STL.openRow row (ssty a.s) a.t (a.out.map runOf) = some res) :
    ∃ a' : AS, openFold (mst a) row = some (mst a') ∧ res = (absEnd a').map runOf :=
  open_sim row.length row (Nat.le_refl _) a res h

/-! ## (4) teletext rows -/

/-- **Teletext row, arbitrary bytes.**  For every byte sequence the decoder accepts as a row under display standard
    1 / 2 (start / end box, colours, sizes, style codes — none redundant —, characters, diacritic + letter pairs, filler)
    denoting the runs `res`: `parseTeletextRow`, entered without a pending diacritic, returns the line of the items
    `res.map teleItem` (no line when there is no run) and leaves no diacritic pending. -/
theorem teletext_row (row : Bytes) (res : List Spec.STL.Run) (h : Spec.STL.teleRow row {} 0 [] [] = some res) :
    STL.teleRow none row = (if res.isEmpty then none else some { items := res.map teleItem }, none) :=
  tele_row_agree row res h

/-- the same from any state of the decoder (style, box state 0 / 1 / 2, pending text, closed runs): the model's state
    is `tst` of it — same style pointers, `started` iff inside the box, same text, closed runs as items -/
theorem teletext_row_simulation (row : Bytes) (s : Spec.STL.Sty) (box : Nat) (t : Str) (acc res : List Spec.STL.Run)
    (h : Spec.STL.teleRow row s box t acc = some res) :
    appendTele (row.foldl teleStep (tst s box t acc)) = res.map teleItem ∧
      (row.foldl teleStep (tst s box t acc)).acc = none :=
  tele_sim row.length row (Nat.le_refl _) s box t acc res h

/-! ## the hypotheses are satisfiable (non-vacuity) -/

namespace ExampleRead

/-- (a) a hand-made open-subtitling file (not writer output): display standard 0, 25 fps, language 0F, creation date
    29 February 2000, bytes 373–1023 of the GSI block zero -/
def gsiO : Bytes :=
  lit "850" ++ lit "STL25.01" ++ lit "0" ++ lit "00" ++ lit "0F" ++ padR 0x20 32 (lit "Titre") ++ List.replicate 160 0x20
    ++ List.replicate 16 0x20 ++ lit "000229" ++ lit "991231" ++ lit "00" ++ lit "00001" ++ lit "00001" ++ lit "001"
    ++ lit "38" ++ lit "11" ++ lit "0" ++ lit "00000000" ++ lit "00000000" ++ lit "1" ++ lit "1" ++ lit "   "
    ++ List.replicate 96 0x20 ++ List.replicate 651 0x00

/-- a cue 00:00:01:00 – 23:59:59:24 (the last frame of the day), right-justified: italics on, "Caf", floating acute + e,
    italics off, " x"; line break; filler, "½ Ω"; line break; a blank and a style code (a row without a run) -/
def ttiO : Bytes :=
  [0, 1, 0, 0xFF, 0] ++ [0, 0, 1, 0] ++ [23, 59, 59, 24] ++ [0, 3, 1]
    ++ padR 0x8F 112 [0x80, 0x43, 0x61, 0x66, 0xC2, 0x65, 0x81, 0x20, 0x78, 0x8A, 0x8F, 0xBD, 0x20, 0xE0, 0x8A, 0x20, 0x84]

def docO : Bytes := gsiO ++ ttiO

/-- what `docO` denotes: three rows in the text field, two lines with runs -/
def dO : Spec.STL.Doc :=
  { fr := 25, dsc := 0, lang := lit "0F", texts := [lit "Titre", [], [], [], [], [], [], [], [], [], []],
    cd := (0, 2, 29), rd := (99, 12, 31), rn := 0, mnc := 38, mnr := 11, tcpNs := 0,
    cues := [{ startNs := 1000000000, endNs := 86399960000000, just := 3, vp := 0, nrows := 3,
               lines := [[{ text := "Café".toList, italic := some true }, { text := "x".toList, italic := some false }],
                         [{ text := "½ Ω".toList }]] }] }

/-- `docO` is in the decoder's class (with the programme start ignored) -/
theorem docO_denotes : Spec.STL.decode true docO = some dO := by decide +kernel

example : STL.read true docO = .ok (docMeta dO, dO.cues.map (docCue 0 11)) := read_decode true docO dO docO_denotes

/-- (b) a hand-made teletext file: GSI block for display standard 1, 30 fps, programme start 10:00:00:00, language 09 -/
def gsiT : Bytes :=
  lit "850" ++ lit "STL30.01" ++ lit "1" ++ lit "00" ++ lit "09" ++ padR 0x20 32 (lit "A title") ++ List.replicate 160 0x20
    ++ padR 0x20 16 (lit "REF 1") ++ lit "260927" ++ lit "260927" ++ lit "03" ++ lit "00002" ++ lit "00002" ++ lit "001"
    ++ lit "40" ++ lit "23" ++ lit "1" ++ lit "10000000" ++ lit "10000100" ++ lit "1" ++ lit "1" ++ lit "FRA"
    ++ List.replicate 96 0x20 ++ List.replicate 651 0x20

/-- a cue 10:00:01:00 – 10:00:02:15, row 20, centred: double height, start box twice, yellow, "H", e with a floating
    acute, end box twice; line break; start box, italics on, " ok ", end box; filler -/
def ttiT : Bytes :=
  [0, 1, 0, 0xFF, 0] ++ [10, 0, 1, 0] ++ [10, 0, 2, 15] ++ [20, 2, 0]
    ++ padR 0x8F 112 [0x0D, 0x0B, 0x0B, 0x03, 0x48, 0xC2, 0x65, 0x0A, 0x0A, 0x8A, 0x0B, 0x0B, 0x80, 0x20, 0x6F, 0x6B, 0x20, 0x0A]

/-- a user-data block (extension block number 0xFE) -/
def ttiU : Bytes := [0, 2, 0, 0xFE, 0] ++ List.replicate 123 0x41

def docT : Bytes := gsiT ++ ttiT ++ ttiU

/-- what `docT` denotes (programme start not ignored), in full: one cue (the user-data block is skipped), times relative
    to the programme start; first row: colour 3 + double height, "H" + e with acute; second row: italics, " ok " with one
    blank counted on each side -/
def dT : Spec.STL.Doc :=
  { fr := 30, dsc := 1, lang := lit "09",
    texts := [lit "A title", [], [], [], [], [], lit "REF 1", lit "FRA", [], [], []],
    cd := (26, 9, 27), rd := (26, 9, 27), rn := 3, mnc := 40, mnr := 23, tcpNs := 36000000000000,
    cues := [{ startNs := 1000000000, endNs := 2500000000, just := 2, vp := 20, nrows := 2,
               lines := [[{ text := "Hé".toList, color := some 3, dh := some true }],
                         [{ text := "ok".toList, italic := some true, spacesBefore := 1, spacesAfter := 1 }]] }] }

/-- `docT` is in the decoder's class -/
theorem docT_denotes : Spec.STL.decode false docT = some dT := by decide +kernel

/-- so, by `read_decode`, the reader model's answer on `docT` is known without running it -/
example : STL.read false docT = .ok (docMeta dT, dT.cues.map (docCue 1 23)) := read_decode false docT dT docT_denotes

/-- the decidable side conditions of the view lemmas on concrete values -/
example : OpenRun { text := "a".toList, italic := some true } ∧ ¬ OpenRun { text := "a".toList, color := some 3 } := by decide
example : ColOK { text := "a".toList, color := some 3 } ∧ ¬ ColOK { text := "a".toList, color := some 9 } := by decide
example : RunOK 1 { text := "a".toList, color := some 7, dh := some true, spacesBefore := 2 } ∧
    RunOK 0 { text := "a".toList, boxing := some false } := by decide
example : CueOK 1
    { startNs := 0, endNs := 1, just := 3, vp := 20, nrows := 1,
      lines := [[{ text := "Hé".toList, color := some 3, dh := some true }]] } := by decide
/-- … and they hold for everything the decoder denotes for `docT` (by `decoded_cues_wellformed`) -/
example : ∀ d, Spec.STL.decode false docT = some d → ∀ c ∈ d.cues, CueOK d.dsc c :=
  fun d h => decode_cues_ok false docT d h

/-- the metadata attribute list of the canonical answer for `docT`, as `Proto.decSubs` delivers it (sorted keys,
    values as characters): it carries `docMeta` of what `docT` denotes — the hypothesis `hmeta` of `read_why` -/
def attrsT : Attrs := some [
  ("Framerate".toList, "30".toList), ("Language".toList, "english".toList), ("STLCountryOfOrigin".toList, "FRA".toList),
  ("STLCreationDate".toList, "260927".toList), ("STLDisplayStandardCode".toList, "1".toList),
  ("STLMaximumNumberOfDisplayableCharactersInAnyTextRow".toList, "40".toList),
  ("STLMaximumNumberOfDisplayableRows".toList, "23".toList), ("STLRevisionDate".toList, "260927".toList),
  ("STLRevisionNumber".toList, "3".toList), ("STLSubtitleListReferenceCode".toList, "REF 1".toList),
  ("STLTimecodeStartOfProgramme".toList, "36000000000000".toList), ("Title".toList, "A title".toList)]

theorem intOf_lit (n : Nat) (s : Str) (h : itoaNat n = s) : Driver.STLD.intOf s = some (n : Int) := h ▸ intOf_itoaNat n

/-- `attrsT` carries the metadata of the model's answer for `docT` (hypothesis `hmeta` of `read_why`, on a concrete value) -/
example : MetaCarried attrsT (docMeta dT) where
  framerate := by
    have k : Driver.STLD.kv attrsT "Framerate" = some "30".toList := by decide
    rw [k]; simp only [Option.bind_some, intOf_lit 30 "30".toList (by decide)]; rfl
  revisionNumber := by
    have k : Driver.STLD.kv attrsT "STLRevisionNumber" = some "3".toList := by decide
    rw [k]; simp only [Option.bind_some, intOf_lit 3 "3".toList (by decide)]; rfl
  tcp := by
    have k : Driver.STLD.kv attrsT "STLTimecodeStartOfProgramme" = some "36000000000000".toList := by decide
    rw [k]; simp only [Option.bind_some, intOf_lit 36000000000000 "36000000000000".toList (by decide +kernel)]; rfl
  dsc := by decide +kernel
  language := by decide +kernel
  title := by decide +kernel
  origEpisode := by decide +kernel
  translProgram := by decide +kernel
  translEpisode := by decide +kernel
  translName := by decide +kernel
  translContact := by decide +kernel
  slr := by decide +kernel
  country := by decide +kernel
  publisher := by decide +kernel
  editorName := by decide +kernel
  editorContact := by decide +kernel
  creation := by decide +kernel
  revisionDate := by decide +kernel
  maxChars := by decide +kernel
  maxRows := by decide +kernel

end ExampleRead

end C05
end Astisub
