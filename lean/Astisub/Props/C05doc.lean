import Astisub.Lemmas.STLDomain
import Astisub.Lemmas.STLTime
import Astisub.Driver.STL

/-!
# C05 (documents) — EBU STL: block and whole-file round trips of the model, for all inputs

`Props/C05.lean` proves the component laws (tables, text, fields, timecodes).  This file composes them into
statements about whole blocks and whole files of `Model/STL.lean`:

* `tti_roundtrip` — the 128 bytes the writer emits for a cue are parsed back into that cue;
* `gsi_roundtrip` — the 1024 bytes the writer emits for the metadata are parsed back into that metadata;
* `stl_roundtrip` (end to end), `file_roundtrip`, `write_read`, `write_read_meta` — the writer answers, and
  reading the written file (display standard 0) returns the metadata and the cues, in a normal form that is
  spelled out (`gsiBack`, `ttiCue`);
* what the normal form does to the values: `frame_floor`, `frame_idempotent`, `times_exact`, `tti_cue_exact`,
  `stl_roundtrip_times`, `gsi_roundtrip_exact`, `vp_open`, `row_line_trimmed`;
* not proved, kept as a statement: `tti_roundtrip_multirun_Statement` (lines made of several runs).

Vocabulary (defined in `Lemmas/STL*.lean`, all predicates decidable):

* `RRun` — one row of a cue: a list of repertoire units (`C05.RepUnit`: a carried table character, or a letter with
  one floating diacritic) in one style (italics / underline / boxing on or off); `RRun.ok`: the units are
  repertoire units and the text is not blank.  `RRun.line` is the line the reader returns for the row.
* `RCue` — a cue whose lines are such rows; `RCue.ok`: all rows ok and the encoded text fits the 112-byte field.
* `GsiOK g` — the GSI values fit their fields (see its doc comment); `MetaOK now m first` — the same on the
  metadata the caller passes, before the writer's defaults.
* `frameInstant fr T` — the instant the reader computes from the timecode the writer emits for `T`.
* `gsiBack g` — the `GSI` the reader returns for the block written from `g`; `ttiCue R G off c rows` — the cue
  the reader (with GSI `R`, subtracting the programme start `off`) returns for the block written from `c`.
-/

namespace Astisub
namespace C05
open Go STL

/-! ## TTI block -/

/-- **TTI block round trip.**  For every cue whose lines are repertoire rows (one run per line, any of the
    three style flags, text not blank) and whose encoded text fits the 112-byte text field, whatever the
    times, justification, vertical position and subtitle number: the open-subtitling reader (display standard
    0, same frame rate as the writer, fresh decoder state) parses the 128 bytes the writer emits into exactly
    one cue — `ttiCue`:
    the two times are the frame instants of the written times minus the reader's programme start,
    the attributes are those of the written justification code and vertical position byte with the number of
    rows, and the lines are the rows' lines (text trimmed, style attributes set iff switched on);
    no diacritic is left pending for the next block. -/
theorem tti_roundtrip (R : GSI) (G : WGSI) (off : Int) (idx : Nat) (c : RCue)
    (hfr : R.m.framerate = G.m.framerate) (hdsc : R.m.dsc = [0x30]) (hok : c.ok) :
    ttiItem R off none (ttiBytes G idx c.toW) = some (some (ttiCue R G off c.toW c.rows), none) :=
  ttiItem_ttiBytes R G off idx c.toW c.rows hfr hdsc rfl hok.1 hok.2

/-- the cue read back, field by field (this is the definition of `ttiCue`, restated so that the statement
    above can be read without opening the lemma files) -/
theorem ttiCue_fields (R : GSI) (G : WGSI) (off : Int) (c : RCue) :
    ttiCue R G off c.toW c.rows =
      { startAt := frameInstant G.m.framerate (c.startAt + G.m.tcp) - off,
        endAt := frameInstant G.m.framerate (c.endAt + G.m.tcp) - off,
        attrs := itemAttrs (justCode c.just) (vpByte (c.vp.getD 20) G.m.dsc) (R.m.maxRows.getD 0) (max 1 c.rows.length),
        lines := c.rows.map fun r =>
          { items := [{ text := trimSpace (str r.text), attrs := some (mkAttrs (stlAttrs r.sty)) }] } } := rfl

/-- the text of a row that has no blank at either end comes back unchanged -/
theorem row_line_trimmed (r : RRun) (h : trimSpace (str r.text) = str r.text) :
    r.line = { items := [{ text := str r.text, attrs := some (mkAttrs (stlAttrs r.sty)) }] } := by
  unfold RRun.line; rw [h]

/-- **frame floor.**  The instant read back from a written timecode is the start of the frame the written
    instant lies in: not later, and at most `10⁹ / fr` ns earlier (both frame rates, every instant below 256 h) -/
theorem frame_floor (T : Int) (fr : Nat) (hfr : fr = 25 ∨ fr = 30) (h0 : 0 ≤ T) (h1 : T < 921600000000000) :
    frameInstant (fr : Int) T ≤ T ∧ T - frameInstant (fr : Int) T ≤ 1000000000 / (fr : Int) :=
  frameInstant_floor T fr hfr h0 h1

/-- **reading is idempotent on timecodes**: an instant that was read back is written and read back as itself
    (this is `C05.rewrite_timecode` seen from the reader's side) -/
theorem frame_idempotent (T : Int) (fr : Nat) (hfr : fr = 25 ∨ fr = 30) (h0 : 0 ≤ T) (h1 : T < 86400000000000) :
    FrameAligned (fr : Int) (frameInstant (fr : Int) T) :=
  frameInstant_idem T fr hfr h0 h1

/-- **exact times.**  When the written instants (cue time + programme start) are frame-aligned and the reader
    subtracts the programme start the writer added, the cue times come back exactly -/
theorem times_exact (R : GSI) (G : WGSI) (c : RCue)
    (hs : FrameAligned G.m.framerate (c.startAt + G.m.tcp)) (he : FrameAligned G.m.framerate (c.endAt + G.m.tcp)) :
    (ttiCue R G G.m.tcp c.toW c.rows).startAt = c.startAt ∧ (ttiCue R G G.m.tcp c.toW c.rows).endAt = c.endAt := by
  unfold FrameAligned at hs he
  unfold ttiCue
  simp only [RCue.toW, hs, he]
  omega

/-- under display standard 0 a vertical position within a byte is written as it is -/
theorem vp_open (vp : Int) (h0 : 0 ≤ vp) (h1 : vp < 256) : vpByte vp [0x30] = vp.toNat := by
  unfold vpByte
  have c1 : (([0x30] : Bytes) == [0x31] || ([0x30] : Bytes) == [0x32]) = false := by decide
  simp only [c1, Bool.and_false, Bool.false_eq_true, if_false]
  omega

/-- **the cue comes back.**  Display standard 0, justification 1–4, vertical position within a byte, frame-aligned
    times, reader subtracting the programme start the writer added: the cue read back has exactly the written
    times, the written vertical position, a justification code that denotes the written justification, and the
    rows' lines -/
theorem tti_cue_exact (R : GSI) (G : WGSI) (c : RCue) (j vp : Int) (hdsc : G.m.dsc = [0x30])
    (hj : c.just = some j) (hj1 : 1 ≤ j) (hj4 : j ≤ 4) (hvp : c.vp = some vp) (hv0 : 0 ≤ vp) (hv1 : vp < 256)
    (hs : FrameAligned G.m.framerate (c.startAt + G.m.tcp)) (he : FrameAligned G.m.framerate (c.endAt + G.m.tcp)) :
    ttiCue R G G.m.tcp c.toW c.rows =
      { startAt := c.startAt, endAt := c.endAt,
        attrs := itemAttrs (justCode (some j)) vp.toNat (R.m.maxRows.getD 0) (max 1 c.rows.length),
        lines := c.rows.map RRun.line } ∧
    (justOf (justCode (some j)) : Int) = j := by
  constructor
  · obtain ⟨h1, h2⟩ := times_exact R G c hs he
    unfold ttiCue at h1 h2 ⊢
    simp only at h1 h2
    simp only [h1, h2]
    simp only [RCue.toW, hj, hvp, Option.getD_some, hdsc, vp_open vp hv0 hv1]
  · have : j = 1 ∨ j = 2 ∨ j = 3 ∨ j = 4 := by omega
    rcases this with rfl | rfl | rfl | rfl <;> decide

/-! ## GSI block -/

/-- **GSI block round trip.**  For every `gsiBlock` value whose fields the format can carry (`GsiOK`: frame rate
    25 / 30, text values that fit and start and end with a graphic ASCII character, existing dates, numbers
    within 0–99, timecodes below 100 h), the reader parses the 1024 bytes the writer emits into `gsiBack g`:
    character table 12336, the language code, and the metadata as given — except that the language is the
    name the library knows for the code, unset options show the defaults that were written, and the programme
    start is the instant of its frame. -/
theorem gsi_roundtrip (g : WGSI) (h : GsiOK g) : parseGSI (gsiBytes g) = some (gsiBack g) :=
  parseGSI_gsiBytes g h

/-- the value read back, field by field (definition of `gsiBack`) -/
theorem gsiBack_fields (g : WGSI) :
    gsiBack g =
      { cct := 12336, langCode := g.langCode, tcpFull := frameInstant g.m.framerate g.m.tcp,
        m := { g.m with language := (languageOf g.langCode).getD [],
                        creation := some (g.m.creation.getD zeroDate), revisionDate := some (g.m.revisionDate.getD zeroDate),
                        maxChars := some (g.m.maxChars.getD 0), maxRows := some (g.m.maxRows.getD 0),
                        tcp := frameInstant g.m.framerate g.m.tcp } } := rfl

/-- **GSI block round trip, exact.**  If moreover all optional values are set, the language is the one the
    language code stands for and the programme start is frame-aligned, the metadata comes back identical:
    `parseGSI (gsiBytes g) = g` -/
theorem gsi_roundtrip_exact (g : WGSI) (h : GsiOK g)
    (hc : g.m.creation.isSome) (hr : g.m.revisionDate.isSome) (hmc : g.m.maxChars.isSome) (hmr : g.m.maxRows.isSome)
    (hl : g.m.language = (languageOf g.langCode).getD []) (ht : FrameAligned g.m.framerate g.m.tcp) :
    parseGSI (gsiBytes g) = some { m := g.m, cct := 12336, langCode := g.langCode, tcpFull := g.m.tcp } := by
  rw [gsi_roundtrip g h]
  unfold gsiBack
  unfold FrameAligned at ht
  obtain ⟨m, lc, n, tcf⟩ := g
  obtain ⟨cd, hcd⟩ := Option.isSome_iff_exists.mp hc
  obtain ⟨rd, hrd⟩ := Option.isSome_iff_exists.mp hr
  obtain ⟨mc, hmcd⟩ := Option.isSome_iff_exists.mp hmc
  obtain ⟨mr, hmrd⟩ := Option.isSome_iff_exists.mp hmr
  simp only at hcd hrd hmcd hmrd hl ht ⊢
  cases m
  simp_all

/-! ## whole file, display standard 0 -/

/-- **File round trip.**  For every list of well-formed cues (`RCue.ok`) and metadata for which the writer's
    GSI block is well-formed and says "open subtitling", reading the written bytes — with or without
    `IgnoreTimecodeStartOfProgramme` — succeeds and returns the normal form: the metadata `gsiBack`
    (programme start zeroed on request) and, cue by cue, `ttiCue` with the programme start subtracted. -/
theorem file_roundtrip (ig : Bool) (now : Date) (md : Option Meta) (cs : List RCue)
    (hG : GsiOK (newGSI now md (cs.map RCue.toW))) (hdsc : (newGSI now md (cs.map RCue.toW)).m.dsc = [0x30])
    (hok : ∀ c ∈ cs, c.ok) :
    STL.read ig (writeBody now md (cs.map RCue.toW))
      = .ok (readMeta ig (gsiBack (newGSI now md (cs.map RCue.toW))),
             cs.map fun c => ttiCue (gsiBack (newGSI now md (cs.map RCue.toW))) (newGSI now md (cs.map RCue.toW))
               (readMeta ig (gsiBack (newGSI now md (cs.map RCue.toW)))).tcp c.toW c.rows) :=
  read_writeBody ig now md cs hG hdsc hok

/-- **write → read.**  The same through `WriteToSTL`: whenever the writer model produces a file `b` for such
    input, `ReadFromSTL` on `b` returns the normal form -/
theorem write_read (ig : Bool) (now : Date) (md : Option Meta) (cs : List RCue) (b : Bytes)
    (hG : GsiOK (newGSI now md (cs.map RCue.toW))) (hdsc : (newGSI now md (cs.map RCue.toW)).m.dsc = [0x30])
    (hok : ∀ c ∈ cs, c.ok) (hw : write now md (cs.map RCue.toW) = .ok b) :
    STL.read ig b
      = .ok (readMeta ig (gsiBack (newGSI now md (cs.map RCue.toW))),
             cs.map fun c => ttiCue (gsiBack (newGSI now md (cs.map RCue.toW))) (newGSI now md (cs.map RCue.toW))
               (readMeta ig (gsiBack (newGSI now md (cs.map RCue.toW)))).tcp c.toW c.rows) := by
  unfold write at hw
  split at hw
  · cases hw
  · split at hw
    · cases hw
    · rw [← Res.ok.inj hw]
      exact file_roundtrip ig now md cs hG hdsc hok

/-- **write → read, from the caller's metadata.**  The hypotheses on the GSI block follow from a decidable
    condition on the metadata passed to the writer (`MetaOK`: display standard 0, frame rate 25 / 30, values
    that fit their fields, …): the writer's defaults keep it well-formed -/
theorem write_read_meta (ig : Bool) (now : Date) (m : Meta) (cs : List RCue) (b : Bytes)
    (hm : MetaOK now m (firstStart (cs.map RCue.toW))) (hok : ∀ c ∈ cs, c.ok)
    (hw : write now (some m) (cs.map RCue.toW) = .ok b) :
    STL.read ig b
      = .ok (readMeta ig (gsiBack (newGSI now (some m) (cs.map RCue.toW))),
             cs.map fun c => ttiCue (gsiBack (newGSI now (some m) (cs.map RCue.toW))) (newGSI now (some m) (cs.map RCue.toW))
               (readMeta ig (gsiBack (newGSI now (some m) (cs.map RCue.toW)))).tcp c.toW c.rows) :=
  write_read ig now (some m) cs b (newGSI_ok now m _ hm).1 (newGSI_ok now m _ hm).2 hok hw

/-- **EBU STL round trip, display standard 0 (end to end).**  For every non-empty list of well-formed cues
    (`RCue.ok`) with non-negative times and every well-formed metadata (`MetaOK`, programme start ≥ 0): the
    writer model produces a file, and the reader model — with or without `IgnoreTimecodeStartOfProgramme` —
    reads that file back into the normal form: metadata `gsiBack`, cues `ttiCue`. -/
theorem stl_roundtrip (ig : Bool) (now : Date) (m : Meta) (cs : List RCue) (hne : cs ≠ [])
    (hm : MetaOK now m (firstStart (cs.map RCue.toW))) (htcp : 0 ≤ m.tcp)
    (hok : ∀ c ∈ cs, c.ok) (ht : ∀ c ∈ cs, TimesOK m.tcp c) :
    ∃ b, write now (some m) (cs.map RCue.toW) = .ok b ∧
      STL.read ig b
        = .ok (readMeta ig (gsiBack (newGSI now (some m) (cs.map RCue.toW))),
               cs.map fun c => ttiCue (gsiBack (newGSI now (some m) (cs.map RCue.toW))) (newGSI now (some m) (cs.map RCue.toW))
                 (readMeta ig (gsiBack (newGSI now (some m) (cs.map RCue.toW)))).tcp c.toW c.rows) :=
  ⟨_, write_ok now m cs hne htcp hok ht, write_read_meta ig now m cs _ hm hok (write_ok now m cs hne htcp hok ht)⟩

/-- **… and the times are exact when they are frame-aligned.**  If the programme start and every cue time
    (plus programme start) are instants the format carries exactly, the cues read back (programme start not
    ignored) have exactly the times that were written -/
theorem stl_roundtrip_times (now : Date) (m : Meta) (cs : List RCue) (b : Bytes)
    (hm : MetaOK now m (firstStart (cs.map RCue.toW))) (hok : ∀ c ∈ cs, c.ok)
    (hw : write now (some m) (cs.map RCue.toW) = .ok b)
    (ha : FrameAligned m.framerate m.tcp)
    (hc : ∀ c ∈ cs, FrameAligned m.framerate (c.startAt + m.tcp) ∧ FrameAligned m.framerate (c.endAt + m.tcp)) :
    ∃ md items, STL.read false b = .ok (md, items) ∧
      items.map (fun it => (it.startAt, it.endAt)) = cs.map fun c => (c.startAt, c.endAt) := by
  refine ⟨_, _, write_read_meta false now m cs b hm hok hw, ?_⟩
  have hfr : (newGSI now (some m) (cs.map RCue.toW)).m.framerate = m.framerate := by
    have hdfc : (dfcOf m.framerate).isSome = true := by rcases hm.1 with e | e <;> rw [e] <;> decide
    unfold newGSI; simp only [hdfc, if_true]
  have htcp : (newGSI now (some m) (cs.map RCue.toW)).m.tcp = m.tcp := rfl
  rw [List.map_map]
  apply List.map_congr_left
  intro c hcm
  obtain ⟨h1, h2⟩ := hc c hcm
  unfold FrameAligned at ha h1 h2
  simp only [Function.comp, ttiCue, readMeta, gsiBack, Bool.false_eq_true, if_false, hfr, htcp, RCue.toW, ha, h1, h2]
  congr 1 <;> omega

/-- the number of cues read is the number of cues written -/
theorem write_read_count (ig : Bool) (now : Date) (m : Meta) (cs : List RCue) (b : Bytes)
    (hm : MetaOK now m (firstStart (cs.map RCue.toW))) (hok : ∀ c ∈ cs, c.ok)
    (hw : write now (some m) (cs.map RCue.toW) = .ok b) :
    ∃ md items, STL.read ig b = .ok (md, items) ∧ items.length = cs.length ∧
      items.map (·.lines) = cs.map fun c => c.rows.map RRun.line :=
  ⟨_, _, write_read_meta ig now m cs b hm hok hw, by simp, by simp [ttiCue]⟩

/-! ## not proved: lines made of several runs -/

/-- repertoire text: the concatenation of repertoire units -/
def RepText (t : List Nat) : Prop := ∃ us : List Unit, (∀ u ∈ us, RepUnit u) ∧ t = us.flatMap (·.text)

/-- **UNPROVED — statement only.**  The general form of `tti_roundtrip` for lines made of *several* runs (the
    writer separates runs by a blank; the reader starts a new run at every style code, so adjacent runs of
    the same style come back as one): the block is parsed into one cue whose lines, with adjacent runs of equal
    effective style merged (`Driver.STLD.mergeRuns`, the view the `stl.write` stream compares on every run in
    its clause "text read back"), are the written lines under the same view.
    `tti_roundtrip` is the proved part: one run per line, where no merging is involved. -/
def tti_roundtrip_multirun_Statement : Prop :=
  ∀ (R : GSI) (G : WGSI) (off : Int) (idx : Nat) (c : WCue),
    R.m.framerate = G.m.framerate → R.m.dsc = [0x30] →
    (∀ l ∈ c.lines, l ≠ [] ∧ ∀ r ∈ l, RepText r.text ∧ trimSpace (str r.text) = str r.text ∧ r.text ≠ [] ∧
        ¬ Go.contains "  ".toList (str r.text) = true) →
    (encodeText (cueString c)).length ≤ 112 →
    ∃ it : CItem, ttiItem R off none (ttiBytes G idx c) = some (some it, none) ∧
      it.lines.map (fun l => Driver.STLD.mergeRuns (l.items.map fun li => (li.text, Driver.STLD.effSty li)))
        = c.lines.map (fun l => Driver.STLD.mergeRuns (l.map fun r => (str r.text, (r.italics, r.underline, r.boxing))))

/-! ## the hypotheses are satisfiable (non-vacuity) -/

namespace Example

/-- "Café" in italics, then "½ Ω" plain, on two rows -/
def row1 : RRun :=
  { units := [charUnit (0x43, [0x43]), charUnit (0x61, [0x61]), charUnit (0x66, [0x66]), accentUnit 0xC2 0x65], italics := true }
def row2 : RRun := { units := [charUnit (0xBD, [0xBD]), charUnit (0x20, [0x20]), charUnit (0xE0, [0x3A9])] }

def cue1 : RCue := { startAt := 1000000000, endAt := 2040000000, just := some 3, vp := some 20, rows := [row1, row2] }
def cue2 : RCue := { startAt := 3000000000, endAt := 4000000000, rows := [row2] }

def meta1 : Meta :=
  { framerate := 25, dsc := [0x30], title := lit "A title", country := lit "FRA", language := lit "french",
    revisionNumber := 3, tcp := 36000000000000 }

def day : Date := { yy := 26, mm := 9, dd := 27 }

def gsi1 : WGSI := newGSI day (some meta1) [cue1.toW, cue2.toW]

example : row1.text = [0x43, 0x61, 0x66, 0xE9] := by decide +kernel
example : row1.ok := by decide +kernel
example : row2.ok := by decide +kernel
example : cue1.ok := by decide +kernel
example : cue2.ok := by decide +kernel
example : MetaOK day meta1 (firstStart [cue1.toW, cue2.toW]) := by decide +kernel
example : GsiOK gsi1 := by decide +kernel
example : gsi1.m.dsc = [0x30] := by decide +kernel
example : FrameAligned 25 (cue1.endAt + meta1.tcp) := by decide +kernel
example : dateOK day = true := by decide
example : fieldOK 32 (lit "A title") = true := by decide
/-- the writer model does produce a file for this input, so `write_read_meta` applies to it -/
example : writeUnmodelled (some meta1) [cue1.toW, cue2.toW] = false := by decide +kernel
example : ∀ c ∈ [cue1, cue2], TimesOK meta1.tcp c := by decide
example : FrameAligned meta1.framerate meta1.tcp := by decide +kernel

end Example

end C05
end Astisub
