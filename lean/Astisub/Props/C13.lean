import Astisub.Lemmas.Optimize

/-!
# C13 — Optimize drops only unreachable definitions; RemoveStyling drops only styling

`Graph.optimize` models `Subtitles.Optimize` / `removeUnusedRegionsAndStyles` loop by loop,
including the visited-set early exit of the inheritance walk added by the `fix:` commit;
`Spec.optimizeSpec` is the declarative closure (no visited set, whole chains).
Statements hold for every reference graph in which one identifier names one definition
(`Consistent`): any number of cues, runs, regions, styles, any inheritance depth, shared parents,
unused and shared definitions, dangling references, keys that differ from identifiers.
-/

namespace Astisub
namespace C13
open Graph Spec List

def itemChains (items : List GItem) : List IdChain := items.flatMap (fun it => it.style :: it.runs)

theorem markItems_eq (items : List GItem) (ur us : List String) :
    items.foldl markStep (ur, us)
    = ((items.filterMap (·.region)).reverse ++ ur, (itemChains items).foldl markChain us) := by
  induction items generalizing ur us with
  | nil => simp [itemChains]
  | cons it rest ih =>
    simp only [foldl_cons, markStep, ih, itemChains, flatMap_cons, foldl_append, filterMap_cons]
    cases it.region <;> simp

theorem markItems_spec (items : List GItem) :
    markItems items = ((items.filterMap (·.region)).reverse, (itemChains items).foldl markChain []) := by
  unfold markItems
  rw [markItems_eq]; simp

theorem sweepRegions_eq (usedR : List String) (regions accR : List (String × RegionDef)) (accS : List String) :
    regions.foldl (sweepStep usedR) (accR, accS)
    = (accR ++ regions.filter (fun kr => kr.2.id ∈ usedR),
       ((regions.filter (fun kr => kr.2.id ∈ usedR)).map (·.2.style)).foldl markChain accS) := by
  induction regions generalizing accR accS with
  | nil => simp
  | cons kr rest ih =>
    simp only [foldl_cons, sweepStep]
    by_cases h : kr.2.id ∈ usedR
    · simp [h, ih]
    · simp [h, ih]

theorem mem_allChains_of_item (g : Graph) : ∀ c ∈ itemChains g.items, c ∈ allChains g := by
  intro c hc; unfold allChains; exact mem_append_left _ hc

theorem mem_allChains_of_region (g : Graph) (rs : List (String × RegionDef)) (h : rs ⊆ g.regions) :
    ∀ c ∈ rs.map (·.2.style), c ∈ allChains g := by
  intro c hc
  obtain ⟨kr, hkr, rfl⟩ := mem_map.mp hc
  unfold allChains
  exact mem_append_right _ (mem_map.mpr ⟨kr, h hkr, rfl⟩)

/-- Main theorem: on a list with at least one cue, the code keeps exactly the region
    definitions some cue refers to and exactly the style definitions that are reachable —
    directly, through a run, through a used region, or through inheritance — and leaves the
    cues and the kept definitions untouched. On an empty list it does nothing. -/
theorem optimize_spec (g : Graph) (hc : Consistent g) : optimize g = optimizeSpec g := by
  unfold optimize optimizeSpec
  by_cases he : g.items.isEmpty
  · simp [he]
  · simp only [he, Bool.false_eq_true, ↓reduceIte]
    rw [markItems_spec]
    simp only
    unfold sweepRegions
    rw [sweepRegions_eq]
    simp only [nil_append]
    have hR : ∀ r, r ∈ (g.items.filterMap (·.region)).reverse ↔ r ∈ usedRegionIds g := by
      intro r; simp [usedRegionIds]
    have hfilt : g.regions.filter (fun kr => kr.2.id ∈ (g.items.filterMap (·.region)).reverse) = usedRegions g := by
      unfold usedRegions
      apply filter_congr
      intro kr _
      simp only [decide_eq_decide]
      exact hR _
    rw [hfilt]
    -- membership in the final used-style set = reachability
    have hcl0 : Closed g [] := by intro c _ id r _ hid; cases hid
    have ⟨h1, h2⟩ := foldl_markChain_spec g hc (itemChains g.items) (mem_allChains_of_item g) [] hcl0
    have ⟨h3, _⟩ := foldl_markChain_spec g hc ((usedRegions g).map (·.2.style))
      (mem_allChains_of_region g _ (by unfold usedRegions; exact fun x hx => (mem_filter.mp hx).1)) _ h2
    have hS : ∀ x, x ∈ ((usedRegions g).map (·.2.style)).foldl markChain ((itemChains g.items).foldl markChain [])
        ↔ Reach g x := by
      intro x
      rw [h3, h1]
      unfold Reach roots
      simp only [not_mem_nil, false_or, mem_append, itemChains]
      constructor
      · rintro (⟨c, hc, hx⟩ | ⟨c, hc, hx⟩)
        · exact ⟨c, Or.inl hc, hx⟩
        · exact ⟨c, Or.inr hc, hx⟩
      · rintro ⟨c, hc | hc, hx⟩
        · exact Or.inl ⟨c, hc, hx⟩
        · exact Or.inr ⟨c, hc, hx⟩
    congr 1
    apply filter_congr
    intro ks _
    simp only [decide_eq_decide]
    exact hS _

/-- cues are untouched -/
theorem optimize_items (g : Graph) : (optimize g).items = g.items := by
  unfold optimize
  split
  · rfl
  · rfl

/-- an empty list is left alone -/
theorem optimize_empty (g : Graph) (h : g.items = []) : optimize g = g := by
  simp [optimize, h]

/-- a style definition survives iff it was there and is reachable (keyed by its identifier) -/
theorem styles_exact (g : Graph) (hc : Consistent g) (hne : g.items ≠ []) (ks : String × StyleDef) :
    ks ∈ (optimize g).styles ↔ ks ∈ g.styles ∧ Reach g ks.2.id := by
  rw [optimize_spec g hc]
  have : g.items.isEmpty = false := by cases h : g.items <;> simp_all
  simp [optimizeSpec, this]

/-- a region definition survives iff it was there and some cue refers to it -/
theorem regions_exact (g : Graph) (hc : Consistent g) (hne : g.items ≠ []) (kr : String × RegionDef) :
    kr ∈ (optimize g).regions ↔ kr ∈ g.regions ∧ kr.2.id ∈ usedRegionIds g := by
  rw [optimize_spec g hc]
  have : g.items.isEmpty = false := by cases h : g.items <;> simp_all
  simp [optimizeSpec, this, usedRegions]

theorem usedRegionIds_optimizeSpec (g : Graph) : usedRegionIds (optimizeSpec g) = usedRegionIds g := by
  unfold optimizeSpec usedRegionIds; split <;> rfl

theorem roots_optimizeSpec (g : Graph) : roots (optimizeSpec g) = roots g := by
  unfold roots usedRegions
  rw [usedRegionIds_optimizeSpec]
  unfold optimizeSpec
  split
  · rfl
  · simp only [usedRegions, filter_filter, Bool.and_self]

/-- every reference left in the list still resolves -/
theorem refs_resolve (g : Graph) (hc : Consistent g) (h : RefsResolve g) : RefsResolve (optimize g) := by
  rw [optimize_spec g hc]
  obtain ⟨hs, hr⟩ := h
  refine ⟨?_, ?_⟩
  · intro c hcr id hid
    rw [roots_optimizeSpec] at hcr
    have hin := hs c hcr id hid
    obtain ⟨ks, hks, hidk⟩ := mem_map.mp hin
    unfold optimizeSpec
    split
    · exact hin
    · apply mem_map.mpr
      refine ⟨ks, mem_filter.mpr ⟨hks, ?_⟩, hidk⟩
      simp only [decide_eq_true_eq]
      exact ⟨c, hcr, by rw [hidk]; exact hid⟩
  · intro r hrm
    rw [usedRegionIds_optimizeSpec] at hrm
    have hin := hr r hrm
    obtain ⟨kr, hkr, hidk⟩ := mem_map.mp hin
    unfold optimizeSpec
    split
    · exact hin
    · apply mem_map.mpr
      refine ⟨kr, ?_, hidk⟩
      unfold usedRegions
      exact mem_filter.mpr ⟨hkr, by simp only [decide_eq_true_eq]; rw [hidk]; exact hrm⟩

theorem reach_optimizeSpec (g : Graph) (id : String) : Reach (optimizeSpec g) id ↔ Reach g id := by
  unfold Reach; rw [roots_optimizeSpec]

/-- doing it twice changes nothing more -/
theorem optimizeSpec_idem (g : Graph) : optimizeSpec (optimizeSpec g) = optimizeSpec g := by
  by_cases he : g.items.isEmpty
  · have : optimizeSpec g = g := by simp [optimizeSpec, he]
    rw [this, this]
  · have hg : optimizeSpec g = { g with regions := usedRegions g, styles := g.styles.filter (fun ks => decide (Reach g ks.2.id)) } := by
      simp [optimizeSpec, he]
    have hu := usedRegionIds_optimizeSpec g
    have hre := reach_optimizeSpec g
    generalize optimizeSpec g = g' at *
    subst hg
    unfold optimizeSpec
    simp only [he, Bool.false_eq_true, ↓reduceIte]
    congr 1
    · unfold usedRegions at *
      simp only at hu ⊢
      rw [hu]
      simp only [filter_filter, Bool.and_self]
    · simp only [filter_filter]
      apply filter_congr
      intro ks _
      have := hre ks.2.id
      simp only [this, Bool.and_self]

theorem allChains_optimizeSpec_subset (g : Graph) : allChains (optimizeSpec g) ⊆ allChains g := by
  unfold optimizeSpec
  split
  · exact Subset.refl _
  · intro c hc
    unfold allChains at hc ⊢
    rcases mem_append.mp hc with h | h
    · exact mem_append_left _ h
    · apply mem_append_right
      obtain ⟨kr, hkr, rfl⟩ := mem_map.mp h
      exact mem_map.mpr ⟨kr, (mem_filter.mp hkr).1, rfl⟩

theorem optimize_idem (g : Graph) (hc : Consistent g) : optimize (optimize g) = optimize g := by
  have hc' : Consistent (optimizeSpec g) := by
    intro c₁ h₁ c₂ h₂
    exact hc c₁ (allChains_optimizeSpec_subset g h₁) c₂ (allChains_optimizeSpec_subset g h₂)
  rw [optimize_spec g hc, optimize_spec _ hc', optimizeSpec_idem]

/-! ### RemoveStyling -/

/-- no region, style or style reference is left anywhere -/
theorem removeStyling_clean (g : Graph) :
    (removeStyling g).regions = [] ∧ (removeStyling g).styles = [] ∧
      ∀ it ∈ (removeStyling g).items, it.style = [] ∧ it.region = none ∧ ∀ r ∈ it.runs, r = [] := by
  refine ⟨rfl, rfl, ?_⟩
  intro it hit
  obtain ⟨a, _, rfl⟩ := mem_map.mp hit
  refine ⟨rfl, rfl, ?_⟩
  intro r hr
  obtain ⟨_, _, rfl⟩ := mem_map.mp hr
  rfl

/-- the number of cues and of runs per cue (hence order, timing, text and voices, which the
    operation does not address at all) is untouched -/
theorem removeStyling_shape (g : Graph) :
    (removeStyling g).items.map (·.runs.length) = g.items.map (·.runs.length) := by
  simp [removeStyling]

end C13
end Astisub
