import Astisub.Lemmas.SSARead2Final
import Astisub.Lemmas.SSARead2Write

/-!
# C04 (read clause) — SSA / ASS: the reader model agrees with the independent decoder on well-formed documents

The read clause of C04 says: *reading any well-formed document returns exactly what it denotes*.  The independent
decoder `Spec.SSA.decode` (written from the format description) defines both "well-formed" (`decode text = some g`)
and "denotes" (`g`).  The `ssa.read` stream evaluates, on every generated case, `Driver.SSAD.readOk`:
`decodeLine doc = some text → decode text = some g → view (answer) == some g`.  This file proves that predicate for
the *model's* answer, for **all** documents of an explicit decidable class — not only for written ones.

**Finding.**  The statement is false for the whole class of the decoder (`read_Statement_false`): there are three
families of documents the decoder accepts and on which the model of `ReadFromSSAWithOptions` provably answers
something else (each with a concrete document, checked by the kernel):

1. `cexBigInt`, `cexShadowedBig` — an integer of more than 64 bits (script info, style column, `Layer`, margins, hour
   field): the decoder reads arbitrary-length digit strings, `strconv.Atoi` reports a range error.  This includes a
   script-info line that a later line of the same key overrides: the library parses every line.
2. `cexBom` — a byte-order mark followed by blanks before the first section header: the library trims the line *before*
   it removes the mark (the header then starts with a blank and is not recognised), the decoder after.
3. `cexDotI` — `İ` (U+0130) in a section name (`[Scrİpt Info]`): `strings.ToLower` maps it to ASCII `i` (likewise
   `K` U+212A to `k`), so the library enters the section; the decoder lower-cases ASCII only and skips it as unknown.

(A fourth family found on the way — an *unparsable* numeric script-info value overridden by a later line, e.g.
`PlayResX: abc` then `PlayResX: 5` — was resolved upstream while this file was written: `Spec.SSA.infoOf` now rejects a
document unless every occurrence of a numeric key is well-formed; `cexShadowedOld` records that the decoder now
answers `none` on it.)

`InClass text` (decidable, `Lemmas/SSARead2Defs.lean`) excludes exactly these: `bomOk`, `headersOk`, `infoOk`
(every script-info line of an integer key carries a 64-bit integer, overridden or not — that it is an integer at all
is the decoder's business), `ints64` (the integers of the decoded document, hour fields included, fit 64 bits).
Under it the clause is proved in full:

* `read_view`       — characters: `∃ s, SSA.read (lines of text) = .ok s ∧ view s = some g`;
* `readBytes_view`  — bytes, exactly the model side of the `ssa.read` stream (`Driver.SSAD.readBytes`);
* `readOk_model`    — `Driver.SSAD.readOk` with the model's answer in place of the implementation's.

and layer by layer (each for all inputs of its own class): bytes → lines (`bytes_to_lines`), raw lines → decoder's
lines incl. the byte-order mark (`lines_clean`), section headers (`section_header`), body lines (`body_line`), grouping
(`grouping`), scalar cells (`cell_int`, `cell_bool`, `cell_colour`, `cell_float`, `cell_time`), `Key: value`
(`key_value`), a `Style:` row under any accepted Format (`style_row`), a `Dialogue:` row under any accepted Format
(`dialogue_row`), event text (`event_text`: `\N`/`\n` splitting and `{…}` blocks, for every text the decoder accepts),
script info (`script_info_line`, `script_info_view`), whole sections (`styles_section`, `events_section`,
`info_section`, `unknown_section`).

Nothing in this file is left as an unproved statement except `read_Statement` itself, which is *refuted*.
`C04doc2.decode_write_Statement` (the decoder accepts what the writer produces, and the view of what is read back is
the same denotation): its second conjunct is derived here from its first (`decode_write_second_half`, for written
texts without CR that are in `InClass`); the first conjunct (`decode (write s) = denote s`) remains open.
-/

namespace Astisub
namespace C04read
open Go SSA SSAR
open Spec.SSA (decode view GDoc)

/-! ## 0. the statement, and why it needs a class -/

/-- MAIN as first asked (REFUTED below, see `read_Statement_false`): for every text the decoder accepts, the reader
    model, given the lines the scanner cuts the text into, succeeds and the view of its answer is what the decoder
    says the text denotes. -/
def read_Statement : Prop :=
  ∀ (text : Str) (g : GDoc), decode text = some g →
    ∃ s, SSA.read (Spec.SSA.splitLines text []) = .ok s ∧ view s = some g

/-- `Driver.SSAD.readOk` with the model's answer `r` in place of the implementation's printed answer -/
def readOkModel (doc : List UInt8) (r : Res Subs) : Bool :=
  match Driver.decodeLine doc with
  | none => true
  | some text =>
    match decode text with
    | none => true
    | some g =>
      match r with
      | .ok s => view s == some g
      | _ => false

/-- an unparsable `PlayResX` overridden by a later line (no longer in the decoder's class) -/
def cexShadowedOld : Str := "[Script Info]\nPlayResX: abc\nPlayResX: 5\n".toList
/-- a `PlayResX` beyond 64 bits overridden by a later line -/
def cexShadowedBig : Str := "[Script Info]\nPlayResX: 99999999999999999999\nPlayResX: 5\n".toList
/-- an integer beyond 64 bits -/
def cexBigInt : Str := "[Script Info]\nPlayResX: 99999999999999999999\n".toList
/-- a byte-order mark followed by blanks -/
def cexBom : Str := "﻿  [Script Info]\nTitle: x\n".toList
/-- `İ` in a section name -/
def cexDotI : Str := "[Scrİpt Info]\nTitle: x\n".toList

/-- the view of the model's answer, `none` when the model fails -/
def modelView (text : Str) : Option GDoc :=
  match SSA.read (Spec.SSA.splitLines text []) with
  | .ok s => view s
  | _ => none

set_option maxRecDepth 100000 in
/-- **Finding (1).** The decoder accepts both documents; the reader model answers an error. -/
theorem cex_errors :
    (decode cexShadowedBig).isSome = true ∧ SSA.read (Spec.SSA.splitLines cexShadowedBig []) = .err ∧
    (decode cexBigInt).isSome = true ∧ SSA.read (Spec.SSA.splitLines cexBigInt []) = .err := by
  decide +kernel

set_option maxRecDepth 100000 in
/-- **Finding (2).** The decoder accepts the document; the reader model succeeds with another denotation (the
    title is lost). -/
theorem cex_bom_differs :
    (decode cexBom).isSome = true ∧ (modelView cexBom).isSome = true ∧ modelView cexBom ≠ decode cexBom := by
  decide +kernel

set_option maxRecDepth 100000 in
/-- **Finding (3).** The decoder accepts the document; the reader model succeeds with another denotation (an unknown
    section is read as script info). -/
theorem cex_dotI_differs :
    (decode cexDotI).isSome = true ∧ (modelView cexDotI).isSome = true ∧ modelView cexDotI ≠ decode cexDotI := by
  decide +kernel

set_option maxRecDepth 100000 in
/-- each of the documents is outside `InClass`, the last two for their own clause; the formerly accepted
    `cexShadowedOld` is now outside the decoder's class -/
theorem cex_outside_class :
    InClass cexShadowedBig = false ∧ InClass cexBigInt = false ∧ InClass cexBom = false ∧ InClass cexDotI = false ∧
    bomOk cexBom = false ∧ headersOk (specLines cexDotI) = false ∧ decode cexShadowedOld = none := by
  decide +kernel

/-- **MAIN is false without a class.** -/
theorem read_Statement_false : ¬ read_Statement := by
  intro h
  have hd := cex_errors.1
  cases hg : decode cexShadowedBig with
  | none => rw [hg] at hd; cases hd
  | some g =>
    obtain ⟨s, hs, _⟩ := h cexShadowedBig g hg
    rw [cex_errors.2.1] at hs
    cases hs

/-! ## 1. the class -/

/-- script info: a byte-order mark, a comment, CR LF line ends, a string and an integer key, an unknown section -/
def exampleInfo : Str := "﻿[Script Info]\r\n; c\r\nTitle: t\r\nPlayResX: 64\r\n\r\n[Fonts]\r\nx: y\r\n".toList

/-- styles: a hexadecimal and a decimal colour, the `TertiaryColour` alias, a boolean -/
def exampleStyles : Str := "[V4 Styles]\nFormat: Name, PrimaryColour, TertiaryColour, Bold\nStyle: D,&Hff,255,-1\n".toList

/-- events: permuted / missing columns, a `Comment:` event, a `*`-prefixed style reference, an override block, a line
    break and a text containing a comma -/
def exampleEvents : Str :=
  "[Events]\nFormat: Start, Style, Text\nComment: x\nDialogue: 0:00:01.00,*D,a{\\i1}b\\Nc, d\n".toList

/- non-vacuity: the examples are in the class and the decoder reads them as expected (three small documents rather
   than one: kernel evaluation of `decode` takes seconds per hundred characters) -/

set_option maxRecDepth 100000 in
example : InClass exampleInfo = true ∧
    ((decode exampleInfo).map fun g => (g.comments, g.info.length)) = some (["c".toList], 2) := by decide +kernel

set_option maxRecDepth 100000 in
example : InClass exampleStyles = true ∧
    ((decode exampleStyles).map fun g => g.styles.map (·.attrs.length)) = some [3] := by decide +kernel

set_option maxRecDepth 100000 in
example : InClass exampleEvents = true ∧
    ((decode exampleEvents).map fun g => g.events.map (fun e => (e.startCs, e.lines.map (·.length)))) =
      some [(100, [2, 1])] := by decide +kernel

/-- the small predicates: 64-bit integers, hour fields, plain section names, a body line (`BodyLine`: not a header,
    not empty) and a header, admitted script-info lines -/
example : In64 (-9223372036854775808) = true ∧ In64 9223372036854775808 = false ∧
    hoursOk 359999 = true ∧ hoursOk (9223372036854775808 * 360000) = false ∧
    plainName "[V4+ Styles]".toList = true ∧ plainName "[Scrİpt Info]".toList = false ∧
    Spec.SSA.secKind "Title: x".toList = none ∧ (Spec.SSA.secKind "[Events]".toList).isSome = true ∧
    infoLineOk "PlayResX: 640".toList = true ∧ infoLineOk "PlayResX: 99999999999999999999".toList = false ∧
    lineSyn "Timer: 100,0000".toList = true ∧ lineSyn "Timer: fast".toList = false := by
  decide +kernel

/-! ## 2. the read clause -/

/-- **Read clause (characters).** For every text the decoder accepts as `g` and that is in the class, the reader
    model — given the lines the scanner cuts the text into (LF, CR LF, lone CR) — succeeds, and the driver's view of
    its answer (comments, script info, styles sorted by name, events with resolved style references, lines, runs)
    is exactly `g`. -/
theorem read_view (text : Str) (g : GDoc) (hd : decode text = some g) (hc : InClass text = true) :
    ∃ s, SSA.read (Spec.SSA.splitLines text []) = .ok s ∧ view s = some g :=
  SSAR.read_view text g hd hc

/-- **Read clause (bytes), as the `ssa.read` stream computes the model's side.** If the bytes are valid UTF-8 for
    `text`, the decoder accepts `text` as `g`, `text` is in the class, and the driver's model of `ReadFromSSA`
    (`readBytes`: scanner model on the bytes, per-line UTF-8 decoding, `SSA.read`, wrap-around guard) is defined
    (`some r`, not "unmodelled"), then `r` is a success and its view is `g`. -/
theorem readBytes_view (doc : List UInt8) (text : Str) (g : GDoc) (hdl : Driver.decodeLine doc = some text)
    (hd : decode text = some g) (hc : InClass text = true) (r : Res Subs) (hr : Driver.SSAD.readBytes doc = some r) :
    ∃ s, r = .ok s ∧ view s = some g :=
  SSAR.readBytes_view doc text g hdl hd hc r hr

/-- **The driver's predicate holds for the model's answer.** `readOk` with the model's answer substituted is `true`
    on every input whose text (if the bytes are UTF-8 at all) is in the class — including all the inputs on which
    the predicate is trivially true (not UTF-8, not accepted by the decoder). -/
theorem readOk_model (doc : List UInt8) (r : Res Subs) (hr : Driver.SSAD.readBytes doc = some r)
    (hc : ∀ text, Driver.decodeLine doc = some text → InClass text = true) : readOkModel doc r = true := by
  unfold readOkModel
  cases hdl : Driver.decodeLine doc with
  | none => simp only
  | some text =>
    simp only
    cases hd : decode text with
    | none => simp only
    | some g =>
      obtain ⟨s, hs, hv⟩ := readBytes_view doc text g hdl hd (hc text hdl) r hr
      subst hs
      simp only [hv, beq_self_eq_true]

/-! ## 3. layer by layer -/

/-- **Bytes → lines.** Cutting the bytes of a UTF-8 text with the scanner model and decoding each line gives the lines
    the decoder's own splitter cuts the text into. -/
theorem bytes_to_lines (doc : List UInt8) (text : Str) (h : Driver.decodeLine doc = some text) :
    Driver.docLines doc = (Spec.SSA.splitLines text []).map some :=
  docLines_of_decode doc text h

/-- **Raw lines → the decoder's lines.** Trimming, skipping blank lines and removing the byte-order mark the way the
    loop of `ReadFromSSAWithOptions` does ends like the clean loop (`runL`, no trimming, no mark) over the decoder's
    lines, when a mark is not followed by blanks and the first non-blank line starts with `[`. -/
theorem lines_clean (text : Str) (hb : bomOk text = true)
    (hfirst : ∀ l ls, specLines text = l :: ls → l.head? = some '[') :
    finish (run {} (Spec.SSA.splitLines text [])) = finish (runL {} (specLines text)) :=
  finish_run_lines text hb hfirst

/-- **Section header.** On a line the decoder classifies as a header of kind `k` (no `İ`/`K` in it) the loop enters
    the section of that kind (and forgets the Format of the previous styles / events section). -/
theorem section_header (st : St) (l : Str) (k : Spec.SSA.SecKind) (hk : Spec.SSA.secKind l = some k)
    (hp : plainName l = true) : stepL st l = .ok (enter k st) :=
  stepL_header st l k hk hp

/-- **Body line.** On any other non-empty line the loop acts on the decoder's classification of it: nothing in an
    unknown section; a comment is collected; a line without `:` (or starting with `:`) is skipped; a `Key: value` line
    reaches the section's handler with the decoder's key and value. -/
theorem body_line (st : St) (l : Str) (hl : Spec.SSA.secKind l = none) (hne : l ≠ []) (hf : st.first = false) :
    stepL st l =
      if st.sec = .unknown then .ok st else
      match Spec.SSA.classify l with
      | .comment c => .ok { st with info := { st.info with comments := st.info.comments ++ [c] } }
      | .junk => .ok st
      | .kv k v => if l.head? = some ':' then .ok st else kvStep st k v :=
  stepL_body st l hl hne hf

/-- **Grouping.** What `Spec.SSA.sections` returns is the list of lines cut into header + body, header + body, … -/
theorem grouping (lines : List Str) (secs : List (Spec.SSA.SecKind × List Str)) (h : Spec.SSA.sections lines = some secs) :
    Grouped lines secs :=
  sections_grouped lines secs h

/-- **Integer cells**: what the decoder reads as `v`, `strconv.Atoi` reads as `v` when `v` fits 64 bits. -/
theorem cell_int {s : Str} {v : Int} (h : Spec.SSA.intOf s = some v) (hr : In64 v = true) : atoi s = some v :=
  atoi_of_intOf h hr

/-- **Boolean cells**: `-1`, `1` are true and `0` is false for both. -/
theorem cell_bool {s : Str} {b : Bool} (h : Spec.SSA.boolOf s = some b) : decide (atoiLoose s ≠ 0) = b :=
  atoiLoose_of_boolOf h

/-- **Colour cells**, `&H` + up to 8 hexadecimal digits or a decimal 32-bit integer (signed or unsigned). -/
theorem cell_colour {s : Str} {c : Nat} (h : Spec.SSA.colourOf s = some c) : parseColour s = some c ∧ c < 4294967296 :=
  parseColour_of_colourOf h

/-- **Float cells**: a plain decimal is read as the same double (`strconv.ParseFloat` model = nearest double). -/
theorem cell_float {s : Str} {b : Nat} (h : Spec.SSA.floatOf s = some b) : parseFloat s = .ok b :=
  parseFloat_of_floatOf h

/-- **Time cells** `H:MM:SS.cc` (any number of hour digits fitting 64 bits): same instant, in nanoseconds. -/
theorem cell_time {s : Str} {cs : Int} (h : Spec.SSA.timeOf s = some cs) (hr : hoursOk cs = true) :
    Duration.parseSSA s = some (cs * 10000000) ∧ 0 ≤ cs :=
  parseSSA_of_timeOf h hr

/-- **`Key: value`**: the decoder's splitter and `strings.Split(line, ":")` + `Join` agree on every line. -/
theorem key_value (line : Str) :
    Spec.SSA.keyValue line =
      if (splitC ':' line).length < 2 then none
      else some (trimSpace ((splitC ':' line).headD []), trimSpace (join [':'] (splitC ':' line).tail)) :=
  keyValue_split line

/-- **Style row.** Under any Format the decoder accepts (any permutation / subset of the columns, `TertiaryColour`
    as an alias), a row the decoder reads as `gs` (64-bit integers) is read by `newSSAStyleFromString` as a style whose
    view is `gs`: same name, same attributes with the same typed values, empty cells unset. -/
theorem style_row (format : List Str) (v : Str) (gs : Spec.SSA.GStyle)
    (hnd : Spec.SSA.nodup (format.map Spec.SSA.normCol) = true)
    (hall : (format.map Spec.SSA.normCol).all (fun c => c = "Name" || (Spec.SSA.styleTable.lookup c).isSome) = true)
    (hrow : specStyleRow (format.map Spec.SSA.normCol) v = some gs) (h64 : attrs64 gs.attrs = true) :
    ∃ ms, styleRow v format = .ok ms ∧ styleView ms = some gs :=
  styleRow_spec format v gs hnd hall hrow h64

/-- **Dialogue row.** Under any Format the decoder accepts, a row the decoder reads as `r` (64-bit integers) is read
    by `newSSAEventFromString`, and for every set of style names (none starting with `*`) the view of the item
    `ssaEvent.item` builds is the decoder's event with its style reference resolved (`*Default` and `*`-prefixed
    names included), the last column absorbing the commas. -/
theorem dialogue_row (format : List Str) (v : Str) (r : Spec.SSA.REvent)
    (hnd : Spec.SSA.nodup (format.map String.ofList) = true)
    (hall : (format.map String.ofList).all (fun c => Spec.SSA.eventCols.contains c) = true)
    (h : Spec.SSA.eventOf (format.map String.ofList) v = some r) (h64 : event64 r.ev = true) :
    ∃ e, eventRow "Dialogue".toList v format = some e ∧ e.category = "Dialogue".toList ∧
      ∀ names : List Str, (∀ n ∈ names, n.head? ≠ some '*') →
        Spec.SSA.eventView (eventItem names e) = some { r.ev with style := Spec.SSA.resolve names r.styleName } :=
  eventRow_spec format v r hnd hall h h64

/-- **Event text.** For every text the decoder accepts (no stray braces, no empty block): the library's
    `ReplaceAll(\N → \n)` + `Split(\n)` + trim gives the decoder's lines, and its greedy regular expression
    `\{[^\{]+\}` cuts every line into the decoder's runs. -/
theorem event_text (t : Str) (gl : List (List Spec.SSA.GRun)) (h : Spec.SSA.textOf t = some gl) :
    (textLines (trimSpace t)).map (fun s => (lineRuns s).map runView) = gl :=
  textLines_textOf t gl h

/-- the `\N` / `\n` half of `event_text`, for **every** string -/
theorem event_text_lines (u : Str) :
    splitOn "\\n".toList (replaceAll "\\N".toList "\\n".toList u) = Spec.SSA.cutLines u [] :=
  splitOn_replaceAll u

/-- **One script-info line.** `ssaScriptInfo.parse` succeeds on every admitted `Key: value` pair and keeps "the last
    line of every key, typed". -/
theorem script_info_line (b : Info) (k v : Str) (kvs : List (String × Str)) (hrel : InfoRel b.vals kvs)
    (hok : kvOk k v = true) :
    ∃ b', b.parse k v = .ok b' ∧ b'.comments = b.comments ∧ InfoRel b'.vals (kvs ++ [(String.ofList k, v)]) :=
  parse_rel b k v kvs hrel hok

/-- **Script info, viewed.** "Last line of every key, typed" is what the decoder computes (`infoOf`). -/
theorem script_info_view (b : Info) (ls : List Str) (gi : List (String × Spec.SSA.GVal)) (hrel : InfoRel b.vals (kvsOf ls))
    (hi : Spec.SSA.infoOf ls = some gi) : Spec.SSA.attrsView Spec.SSA.infoTable b.metadata = some gi :=
  info_view b ls gi hrel hi

/-- **Unknown section.** Nothing of it reaches the state. -/
theorem unknown_section (body : List Str) (st : St) (hs : st.sec = .unknown) (hf : st.first = false)
    (hb : ∀ l ∈ body, BodyLine l) : runL st body = .ok st :=
  run_unknown body st hs hf hb

/-- the decoder's guard: in a script info it accepts, every line has the syntax its key asks for -/
theorem script_info_syntax {ls : List Str} {gi : List (String × Spec.SSA.GVal)} (h : Spec.SSA.infoOf ls = some gi) :
    ∀ l ∈ ls, lineSyn l = true :=
  lineSyn_of_infoOf h

/-- **Script-info section.** Over its body the loop collects the comments and keeps "the last line of every key,
    typed" (`lineSyn`: numeric keys carry numbers; `infoLineOk`: integers fit 64 bits). -/
theorem info_section (body : List Str) (st : St) (kvs : List (String × Str)) (hs : st.sec = .scriptInfo)
    (hf : st.first = false) (hb : ∀ l ∈ body, BodyLine l) (hsyn : ∀ l ∈ body, lineSyn l = true)
    (hok : ∀ l ∈ body, infoLineOk l = true) (hrel : InfoRel st.info.vals kvs) :
    ∃ st', runL st body = .ok st' ∧ st'.sec = .scriptInfo ∧ st'.first = false ∧ st'.styles = st.styles ∧
      st'.events = st.events ∧ st'.info.comments = st.info.comments ++ Spec.SSA.commentsOf body ∧
      InfoRel st'.info.vals (kvs ++ kvsOf body) :=
  run_info_sec body st kvs hs hf hb hsyn hok hrel

/-- **Styles section.** The loop and `Spec.SSA.stylesOf` stay related line by line (`FmtS`: same Format). -/
theorem styles_section (body : List Str) (st : St) (fmt : Option (List String)) (gss : List Spec.SSA.GStyle)
    (hs : st.sec = .styles) (hf : st.first = false) (hb : ∀ l ∈ body, BodyLine l) (hfmt : FmtS st.format fmt)
    (hd : Spec.SSA.stylesOf body fmt = some gss) (h64 : ∀ gs ∈ gss, attrs64 gs.attrs = true) :
    ∃ st', runL st body = .ok st' ∧ st'.sec = .styles ∧ st'.first = false ∧ st'.events = st.events ∧
      st'.info.vals = st.info.vals ∧ st'.info.comments = st.info.comments ++ Spec.SSA.commentsOf body ∧
      ∃ ms, st'.styles = st.styles ++ ms ∧ ms.map styleView = gss.map some :=
  run_styles_sec body st fmt gss hs hf hb hfmt hd h64

/-- **Events section.** The loop and `Spec.SSA.eventsOf` stay related line by line (`FmtE`, `EvRel`). -/
theorem events_section (body : List Str) (st : St) (fmt : Option (List String)) (rs : List Spec.SSA.REvent)
    (hs : st.sec = .events) (hf : st.first = false) (hb : ∀ l ∈ body, BodyLine l) (hfmt : FmtE st.format fmt)
    (hd : Spec.SSA.eventsOf body fmt = some rs) (h64 : ∀ r ∈ rs, event64 r.ev = true) :
    ∃ st', runL st body = .ok st' ∧ st'.sec = .events ∧ st'.first = false ∧ st'.styles = st.styles ∧
      st'.info.vals = st.info.vals ∧ st'.info.comments = st.info.comments ++ Spec.SSA.commentsOf body ∧
      ∃ es, st'.events = st.events ++ es ∧ EvRel es rs :=
  run_events_sec body st fmt rs hs hf hb hfmt hd h64

/-! ## 4. written documents -/

/-- without CR in the text, `ReadFromSSA` on the `strings.Split(text, "\n")` lines (the form `C04doc2.write_read` uses) and
    on the scanner's lines answer the same -/
theorem read_split_lines (text : Str) (h : '\r' ∉ text) :
    SSA.read (splitC '\n' text) = SSA.read (Spec.SSA.splitLines text []) :=
  read_splitC text h

/-- **Second half of `C04doc2.decode_write_Statement`, given the first.** For every representable cue list (`RepRead`)
    whose written text `out` contains no CR, is accepted by the decoder as `want` and is in `InClass`: the view of
    the normal form `norm s` (= what the reader answers on `out`, `C04doc2.write_read`) is `want`. -/
theorem decode_write_second_half (s : Subs) (out : Str) (want : GDoc) (hr : RepRead s) (hw : write s = .ok out)
    (hcr : '\r' ∉ out) (hd : decode out = some want) (hc : InClass out = true) :
    view (norm s) = some want :=
  decode_write_view s out want hr hw hcr hd hc

end C04read
end Astisub
