import Astisub.Lemmas.VTT3Layer
import Astisub.Lemmas.VTT3W
import Astisub.Props.C02doc2

/-!
# C02 (read clause, second pass) — WebVTT: inline timestamps on the read side; W2: the independent decoder on
written documents

`Props/C02read.lean` proved the judgement of the `vtt.read` case of `Driver/VTT.lean` for the reader model's own
answer on every accepted document of the decidable class `InClass`, which excluded every line with an inline
timestamp (`<` + digit) wholesale.  This file removes that exclusion:

* `InClass2` is `InClass` with cue-text lines containing inline timestamps `<mm:ss.ttt>` / `<hh…:mm:ss.ttt>` in
  any position (before or after tags, several per line, before white space, at the end of the line) —
  `inClass_sub`: every document of `InClass` is in `InClass2`;
* `read_view2` — from the bytes, exactly as the driver now compares:
  `(Spec.VTT.decode text).map Driver.zeroTs` against the reader's view, both under `Spec.VTT.norm`
  (`zeroTs`: an inline timestamp of zero is "no timestamp" to the library);
* `read_view2_chars`, `read_not_err2`, `read_ok2` — on character lines, and spelled out;
* `text_line2` — the cue-text layer on its own, for a line with inline timestamps: the reader's items are the
  decoder's runs up to white-space-only runs (which `norm` drops) and zero timestamps;
* `inline_ts_match`, `inline_ts_parse` — every inline timestamp the decoder accepts is one match of the
  library's expression `<((?:\d{2,}:)?\d{2}:\d{2}\.\d{3})>` and is parsed to the same instant.

One further real difference was found among the lines with inline timestamps, and is kept out of the class
explicitly (`lineOK2`: on a line with an inline timestamp no piece of text — between two `<…>`s — that is blank only
after decoding the character references, i.e. white space with at least one `&nbsp;`; `chunkOK`):

8. `<00:01.000>&nbsp;<b>x</b>`: the library decides whether a piece of text is blank on the RAW text
   (`strings.TrimSpace` before `unescapeHTML`: `&nbsp;` is not blank), the decoder on the decoded text
   (U+00A0 is white space for `strings.TrimSpace`).  The library therefore attaches the pending timestamp to the
   run `U+00A0` (which `norm` then drops as white space only, with the timestamp) and the decoder to the next
   run `x`.  Witness: `findingNbsp…` below.  Without a pending timestamp the two readings agree; the class
   keeps such pieces on lines without inline timestamp, and `&nbsp;` next to other text everywhere
   (`lineOK2_of_noNbsp`: in particular every line without `&nbsp;` whose tags are in the class).

The known difference `<00:00.000>text` (decoder: `ts = some 0`, library: no timestamp) is resolved by `zeroTs`
as in the driver; no other difference was found (exhaustive comparison by `#eval` over all sequences of up to
four of the pieces `a`, ` `, three timestamps, `<b> </b> <v A> </v> <i.c x> </i> &amp; &nbsp;` and a line break).

Second part (W2, section "the independent decoder on written documents" below): `decode_write` — for every cue
list satisfying `DocOk` (C02doc2) and the decidable extra proviso `VTT3W.DocW2`, the independent decoder accepts
what the writer model produces and denotes the view the `vtt.write` check expects
(`(Spec.VTT.decode text).map norm == want`); `written_accepted`, `written_text_accepted`, `written_in_class` are its
three ingredients on their own; `decode_write_partial` is `C02doc2.decode_write_Statement` with one further
hypothesis (`classW2`), the statement itself stays open (`decode_write_Statement_of_class`).
Lemmas: `VTT3WText*.lean` (the decoder on a written cue-text line), `VTT3WDoc*.lean` (on the block structure of a
written document), `VTT3WView*.lean` (view of `wanted2` = view of `vttWanted`), `VTT3W.lean` (assembly).

Proof of the first part: `Lemmas/VTT3Ts.lean` (timestamps), `VTT3Tok.lean` (the reader's text token `pre <t1> x1 … <tn> xn`:
`splitTs`, `textToken`), `VTT3Text.lean` (simulation: an inline timestamp does not end the reader's text token —
`Rel2` relates the decoder's state with the reader's state at the START of the open token), `VTT3Doc*.lean`
(document level: the relation `R` of the first pass up to `norm ∘ zeroTs` on the cues), `VTT3Layer.lean`.
-/

namespace Astisub
namespace C02read2
open Go Spec.VTT VTTRead

/-! ### the class -/

/-- `InClass2` is decidable and not empty: timestamps before text, after a tag, before white space and a tag,
    with hours, a zero timestamp, at the end of a line; a voice, a character reference
    (kept short: `decide` runs the decoder's block splitter in the kernel) -/
def exampleDoc : Str :=
  "WEBVTT\n\n00:01 --> 00:09\n<v B><00:01.000>a &amp; <c.b><00:00:02.500> <i>b</i></c><00:00.000>c\nd<00:03.000>".toList

set_option maxRecDepth 8000 in
theorem inClass2_example : InClass2 exampleDoc = true := by decide

set_option maxRecDepth 8000 in
theorem decode_example : (decode exampleDoc).isSome = true := by decide

set_option maxRecDepth 8000 in
/-- … and it is outside the class of the first pass -/
theorem example_not_inClass : InClass exampleDoc = false := by decide

/-- the class is wider than the class of the first pass -/
theorem inClass_sub (doc : Str) (h : InClass doc = true) : InClass2 doc = true :=
  inClass2_of_inClass doc h

/-! ### the headline theorems -/

/-- **Read clause with inline timestamps, from the bytes — exactly the `vtt.read` predicate.**  For every byte
    string `doc` that is UTF-8 text `text`, in the class `InClass2`, well-formed for the independent decoder with
    denotation `g'` after `zeroTs` (`(decode text).map Driver.zeroTs = some g'`: an inline timestamp of zero
    counts as no timestamp): the reader model run on the scanner lines of the bytes either is not covered by
    the tokenizer / overflow model (`unmodelled`: the driver does not judge such a case) or succeeds with a cue
    list whose normalised WebVTT view is the normalised `g'`. -/
theorem read_view2 (doc : List UInt8) (text : Str) (g' : GDoc)
    (hdec : Driver.decodeLine doc = some text) (hin : InClass2 text = true)
    (h : (decode text).map Driver.zeroTs = some g') :
    Good (VTT.read (Driver.docLines doc)) g' := by
  cases hd : decode text with
  | none => rw [hd] at h; cases h
  | some g =>
    rw [hd] at h
    simp only [Option.map_some, Option.some.injEq] at h
    subst h
    exact read_bytes2 doc text g hdec hin hd

/-- The same on the character lines of the text (LF, CRLF, lone CR each end a line). -/
theorem read_view2_chars (text : Str) (g : GDoc) (hin : InClass2 text = true) (h : decode text = some g) :
    Good (VTT.read ((splitLines text []).map some)) (Driver.zeroTs g) :=
  read_chars2 text g hin h

/-- Spelled out (1): on such a document the reader model never answers with an error. -/
theorem read_not_err2 (doc : List UInt8) (text : Str) (g : GDoc)
    (hdec : Driver.decodeLine doc = some text) (hin : InClass2 text = true) (h : decode text = some g) :
    VTT.read (Driver.docLines doc) ≠ .err := by
  intro e
  rcases read_bytes2 doc text g hdec hin h with h1 | ⟨s, h1, _⟩ <;> rw [e] at h1 <;> cases h1

/-- Spelled out (2): whatever cue list the reader model returns, its normalised view is the normalised
    denotation of the document with zero inline timestamps erased. -/
theorem read_ok2 (doc : List UInt8) (text : Str) (g : GDoc) (s : Subs)
    (hdec : Driver.decodeLine doc = some text) (hin : InClass2 text = true) (h : decode text = some g)
    (hr : VTT.read (Driver.docLines doc) = .ok s) :
    (Driver.vttView s).map norm = some (norm (Driver.zeroTs g)) := by
  rcases read_bytes2 doc text g hdec hin h with h1 | ⟨s', h1, h2⟩
  · rw [hr] at h1; cases h1
  · rw [hr] at h1; cases h1; exact h2

/-- The cue-text layer on its own: a line of cue text the decoder accepts, in the class `lineOK2` (inline
    timestamps anywhere), is parsed by the reader model (tokenizer, tag expression, inline-timestamp
    expression, text tokens) into the same tag stack and voice and into items `rs.map runItem2`, where the
    runs `rs` are the decoder's runs up to white-space-only runs (`nb`: `Spec.VTT.norm` drops them) and each item
    is viewed by the driver as its run with a zero timestamp erased — for any stack of tags left open by the
    previous lines of the cue. -/
theorem text_line2 (l : Str) (stack : List GTag) (st : TextSt) (hok : lineOK2 l = true)
    (hstack : (∀ t ∈ stack, goodName t.name = true) ∧ (∀ t ∈ stack, tagOK t = true))
    (h : textLine (l.length + 2) l { stack := stack } = some st) :
    VTT.parseText l (stack.map modelTag) = .unmodelled ∨
    ∃ rs : List GRun,
      VTT.parseText l (stack.map modelTag) =
        .ok (st.stack.map modelTag, { voice := st.voice.getD [], items := rs.map runItem2 }) ∧
      rs.filter nb = st.runs.filter nb ∧
      ∀ r ∈ rs, runView (runItem2 r) = some (zeroTsRun r) :=
  (textLayer2.agree l stack st hok hstack h).2

/-- Every inline timestamp the decoder accepts (`(\d{2,6}:)?\d\d:\d\d\.\d{3}` with minutes and seconds below 60)
    is one match of the library's inline-timestamp expression: the capture is the timestamp, the match ends at
    its `>`. -/
theorem inline_ts_match (body : Str) (t : Nat) (h : inlineTs body = some t) (rest : Str) :
    tsAt (body ++ '>' :: rest) = some (body, rest) :=
  tsAt_inline h rest

/-- … is within the number range of the model, and the library's `parseDuration` gives the same instant. -/
theorem inline_ts_parse (body : Str) (t : Nat) (h : inlineTs body = some t) :
    VTT.smallNumbers body = true ∧ Duration.parseVTT body = some ((t : Int) * 1000000) :=
  ⟨small_inline h, parse_inline h⟩

/-! ### the difference that remains: kept out of the class, with a witness -/

/-- Finding 8: an inline timestamp followed by `&nbsp;` and a tag -/
def findingNbsp : Str := "WEBVTT\n\n00:01.000 --> 00:02.000\n<00:01.000>&nbsp;<b>x</b>".toList

set_option maxRecDepth 8000 in
theorem findingNbsp_decoded : (decode findingNbsp).isSome = true := by decide
set_option maxRecDepth 8000 in
theorem findingNbsp_outside : InClass2 findingNbsp = false := by decide

/-- the decoder gives the timestamp to `x` (the white space `U+00A0` before the tag is dropped) … -/
theorem findingNbsp_decoder :
    (textLine 40 "<00:01.000>&nbsp;<b>x</b>".toList {}).map (·.runs) =
      some [{ text := "x".toList, tags := [{ name := "b".toList, classes := [], annotation := [] }], ts := some 1000 }] := by
  decide

/-- … the reader model gives it to the run `U+00A0` (dropped by `norm` as white space only, with the timestamp):
    `x` has no timestamp -/
theorem findingNbsp_reader :
    (match VTT.parseText "<00:01.000>&nbsp;<b>x</b>".toList [] with
     | .ok (_, l) => some l.items
     | _ => none) =
      some [{ text := [Char.ofNat 0xA0], startAt := 1000000000, attrs := none },
            { text := "x".toList, startAt := 0, attrs := VTT.tagsAttrs [{ name := "b".toList }] }] := by
  decide

/-! ### W2: the independent decoder on written documents -/

/-- both provisos are satisfiable at once: `VTT3W.exWritten` has a timestamp map, a STYLE block, two regions (one
    inheriting from a style), a comment block whose lines look like block starts, a voice, a cue referring to a
    region, settings and escaped text -/
theorem exWritten_docOk : VTT.DocOk VTT3W.exWritten = true := VTT3W.exWritten_ok
theorem exWritten_docW2 : VTT3W.DocW2 VTT3W.exWritten = true := VTT3W.exWritten_w2

/-- **W2 — decoder acceptance.**  For every cue list satisfying `DocOk` (the proviso of the document-level
    write → read theorem `C02doc2.write_read_doc`) and the decidable extra proviso `VTT3W.docW2` (fewer than 2^62
    cues; no `-->` in the first line of a comment and no `NOTE<tab>` at the start of a later one; CSS lines not
    starting with `NOTE<tab>`; region `lines` values of at most 18 digits without sign; MPEGTS an unsigned
    decimal below 2^62 — each with a witness in `Lemmas/VTT3WDocWitness.lean`), given that the decoder accepts the
    text lines of every cue (`written_text_accepted`): the independent decoder accepts the written document, and
    the lines of its cues are what `cueText` makes of the written text lines. -/
theorem written_accepted (s : Subs) (hok : VTT.DocOk s = true) (hx : VTT3W.docW2 s = true)
    (ht : ∀ it ∈ s.items, (cueText (it.lines.map VTT.lineBody) []).isSome = true) :
    ∃ g, decode (VTT.unlines (VTT.docLines2 s)) = some g ∧ g.cues.map (·.lines) = s.items.map VTT3W.glOf :=
  VTT3W.decode_docLines2 s hok hx ht

/-- **W2 — the text lines.**  The decoder accepts every written cue-text line (`lineFit`: what `DocOk` asks of a
    line; `lineW2`: every inline instant is 0 or at least 1 ms, no `|` / form feed in the voice, no form feed in a
    tag annotation), ends with every tag closed, gives no run the timestamp 0, and the line is in the class of the
    read theorem. -/
theorem written_text_accepted (l : Line) (hfit : VTT.lineFit l = true) (hx : VTT3W.lineW2 l = true) :
    (∃ st, textLine ((VTT.lineBody l).length + 2) (VTT.lineBody l) { stack := [] } = some st ∧
      st.stack = [] ∧ (∀ r ∈ st.runs, r.ts ≠ some 0)) ∧
    lineOK2 (VTT.lineBody l) = true :=
  ⟨VTT3W.textLine_lineBody l hfit hx, VTT3W.lineOK2_lineBody l hfit hx⟩

/-- **W2 — the class.**  The written document lies in `InClass2` (given the lines that the class predicate takes
    for cue text in the STYLE and region blocks are in the class: `metaTextW2`). -/
theorem written_in_class (s : Subs) (hok : VTT.DocOk s = true) (hx : VTT3W.docW2 s = true)
    (hl : ∀ it ∈ s.items, ∀ l ∈ it.lines, lineOK2 (VTT.lineBody l) = true)
    (hm : VTT3W.metaTextW2 lineOK2 s = true) :
    InClass2 (VTT.unlines (VTT.docLines2 s)) = true :=
  VTT3W.inClass_docLines2 lineOK2 s hok hx hl hm

/-- **W2 — agreement (the first conjunct of the `vtt.write` predicate), whole documents.**  For every cue list
    satisfying `DocOk` and `VTT3W.DocW2` (= `docW2`, `viewW2`: LOCAL of the timestamp map a whole number of
    milliseconds, every text line `lineW2`, `metaTextW2`): the view the check expects exists, the independent
    decoder accepts the written document, and what it denotes is that view, both normalised — as
    `Driver.handleVTT` compares `(Spec.VTT.decode text).map norm == want`.
    Proof: `written_accepted` + `written_in_class` + `read_view2` + `C02doc2.write_read_doc_bytes` + the view of
    `wanted2 s` is the view of `Driver.vttWanted s` (`VTT3W.view_wanted2`). -/
theorem decode_write (s : Subs) (hok : VTT.DocOk s = true) (hx : VTT3W.DocW2 s = true) (doc : Str)
    (hw : VTT.write s = some doc) :
    (Driver.vttView (Driver.vttWanted s)).isSome = true ∧
    (∃ g, decode doc = some g) ∧
    (decode doc).map norm = (Driver.vttView (Driver.vttWanted s)).map norm :=
  VTT3W.decode_write s hok hx doc hw

/-- **W2 — `C02doc2.decode_write_Statement` under the class provisos.**  The statement left open by the second
    pass (cue lists without comments, regions, STYLE block and timestamp map; fewer than 2^62 cues; no inline
    instant strictly between 0 and 1 ms), with ONE further hypothesis `VTT3W.classW2`: no `|` / form feed in a
    voice, no form feed in a tag annotation, no text line that reads as a region definition with a `lines` value of
    more than 18 digits.  These come from the class of the read theorem (`InClass2`), through which the
    agreement is concluded; no counterexample to the full statement is known. -/
theorem decode_write_partial (s : Subs) (hne : s.items ≠ []) (hok : ∀ it ∈ s.items, VTT.cueOk s it = true)
    (hlen : s.items.length < 2 ^ 62) (hreg : s.regions = []) (hsty : VTT.styleLines s = [])
    (hmeta : SRT.kvGet s.metadata "WebVTTTimestampMap" = none)
    (hts : ∀ it ∈ s.items, ∀ l ∈ it.lines, ∀ li ∈ l.items, li.startAt = 0 ∨ 1000000 ≤ li.startAt)
    (hcl : VTT3W.classW2 s = true) (doc : Str) (hw : VTT.write s = some doc) :
    (Driver.vttView (Driver.vttWanted s)).isSome = true ∧
    (decode doc).map norm = (Driver.vttView (Driver.vttWanted s)).map norm :=
  VTT3W.decode_write_plain s hne hok hlen hreg hsty hmeta hts hcl doc hw

/-- `C02doc2.decode_write_Statement` follows for the cue lists in the class -/
theorem decode_write_Statement_of_class
    (hall : ∀ s : Subs, (∀ it ∈ s.items, VTT.cueOk s it = true) → VTT3W.classW2 s = true) :
    C02doc2.decode_write_Statement := by
  intro s hne hok hlen hreg hsty hmeta hts doc hw
  exact decode_write_partial s hne hok hlen hreg hsty hmeta hts (hall s hok) doc hw

end C02read2
end Astisub
