import Astisub.Model.Ops
import Astisub.Spec.OpsSpec

/-!
# C14 — ForceDuration trims to d and pads with a filler so the list lasts exactly d

Statements are about `Ops.forceDuration`, the literal model of `Subtitles.ForceDuration`
(`subtitles.go`), for **every** ordered timeline (starts and ends non-decreasing, start ≤ end
per cue, any length), every `d ≥ 1 ms` and both values of the filler flag.
-/

namespace Astisub
namespace C14
open Ops Spec

theorem duration_eq_lastEnd (xs : List Item) : duration xs = lastEnd xs := rfl

/-- on a list whose starts are non-decreasing, the scan-until-first-late-cue of the code
    keeps exactly the cues that start before `d` -/
theorem fdScan_eq_kept (d : Int) (xs : List Item) (h : Ordered xs) : fdScan d xs = keptSpec d xs := by
  induction xs with
  | nil => simp [fdScan, keptSpec]
  | cons it rest ih =>
    have hrest : Ordered rest := (List.pairwise_cons.mp h).2
    have hle : ∀ b ∈ rest, it.startAt ≤ b.startAt := fun b hb => ((List.pairwise_cons.mp h).1 b hb).1
    unfold fdScan keptSpec
    by_cases hs : it.startAt ≥ d
    · -- everything after starts at or after d as well
      have : rest.filter (fun it => decide (it.startAt < d)) = [] := by
        apply List.filter_eq_nil_iff.mpr
        intro b hb
        have := hle b hb
        simp; omega
      have hlt : ¬ (it.startAt < d) := by omega
      simp [hs, List.filter_cons, hlt, this]
    · have hlt : it.startAt < d := by omega
      have ih' := ih hrest
      unfold keptSpec at ih'
      simp only [hs, ↓reduceIte, List.filter_cons, hlt, decide_true, List.map_cons, ih']
      rfl

theorem getLast?_ordered_end (xs : List Item) (h : Ordered xs) :
    ∀ it ∈ xs, it.endAt ≤ lastEnd xs := by
  induction xs with
  | nil => intro it hit; cases hit
  | cons x rest ih =>
    have hrest : Ordered rest := (List.pairwise_cons.mp h).2
    intro it hit
    cases rest with
    | nil =>
      simp at hit; subst hit; simp [lastEnd]
    | cons y ys =>
      have hl : lastEnd (x :: y :: ys) = lastEnd (y :: ys) := by
        simp [lastEnd, List.getLast?_cons_cons]
      rw [hl]
      rcases List.mem_cons.mp hit with rfl | hm
      · have h1 := ((List.pairwise_cons.mp h).1 y (by simp)).2
        have h2 := ih hrest y (by simp)
        omega
      · exact ih hrest it hm

/-- a timeline that already ends before `d` is kept whole -/
theorem kept_all (d : Int) (xs : List Item) (h : Ordered xs) (hw : WF xs) (hd : lastEnd xs < d) :
    keptSpec d xs = xs := by
  unfold keptSpec
  have hf : xs.filter (fun it => decide (it.startAt < d)) = xs := by
    apply List.filter_eq_self.mpr
    intro a ha
    have := getLast?_ordered_end xs h a ha
    have := hw a ha
    simp; omega
  rw [hf]
  conv => rhs; rw [← List.map_id xs]
  apply List.map_congr_left
  intro a ha
  have := getLast?_ordered_end xs h a ha
  simp [clipEnd]; omega

/-- Main theorem: the model of the code equals the specification: a list lasting exactly `d`
    is unchanged; otherwise exactly the cues starting at or after `d` are removed, exactly the
    remaining cues ending after `d` are shortened to end at `d`, all others are untouched
    (same identity, times, content), and the filler `[d - 1 ms, d)` with text `...` is appended
    iff it was requested and what remains ends before `d` (or nothing remains). -/
theorem forceDuration_spec (d : Int) (b : Bool) (xs : List Item) (h : Ordered xs) (hw : WF xs) :
    forceDuration d b xs = forceDurationSpec d b xs := by
  unfold forceDuration forceDurationSpec
  simp only [duration_eq_lastEnd]
  by_cases heq : lastEnd xs = d
  · simp [heq]
  · simp only [heq, ↓reduceIte]
    by_cases hgt : lastEnd xs > d
    · simp only [hgt, ↓reduceIte, fdScan_eq_kept d xs h, filler, fillerSpec, millisecond]
      by_cases hb : b = true <;> simp [hb]
    · have hlt : lastEnd xs < d := by omega
      simp only [hgt, ↓reduceIte, kept_all d xs h hw hlt, filler, fillerSpec, millisecond]
      by_cases hb : b = true <;> simp [hb, hlt]

/-- a list already lasting exactly `d` is returned unchanged -/
theorem equal_unchanged (d : Int) (b : Bool) (xs : List Item) (h : duration xs = d) :
    forceDuration d b xs = xs := by
  simp [forceDuration, h]

/-- without a filler request nothing is appended: the result is exactly the kept cues -/
theorem no_filler (d : Int) (xs : List Item) (h : Ordered xs) (hw : WF xs) (hne : lastEnd xs ≠ d) :
    forceDuration d false xs = keptSpec d xs := by
  rw [forceDuration_spec d false xs h hw]
  simp [forceDurationSpec, hne]

theorem lastEnd_append_singleton (xs : List Item) (it : Item) : lastEnd (xs ++ [it]) = it.endAt := by
  simp [lastEnd]

theorem lastEnd_kept_le (d : Int) (xs : List Item) (hd : 0 ≤ d) : lastEnd (keptSpec d xs) ≤ d := by
  unfold lastEnd
  cases hl : (keptSpec d xs).getLast? with
  | none => simpa using hd
  | some it =>
    have hm : it ∈ keptSpec d xs := List.mem_of_getLast? hl
    unfold keptSpec at hm
    obtain ⟨a, _, rfl⟩ := List.mem_map.mp hm
    simp only [clipEnd]
    split <;> simp <;> omega

/-- with a filler the list lasts exactly `d` afterwards -/
theorem duration_exact (d : Int) (xs : List Item) (h : Ordered xs) (hw : WF xs) (hd : 0 ≤ d) :
    duration (forceDuration d true xs) = d := by
  rw [forceDuration_spec d true xs h hw, duration_eq_lastEnd]
  unfold forceDurationSpec
  by_cases heq : lastEnd xs = d
  · simp [heq]
  · simp only [heq, ↓reduceIte, Bool.true_and]
    by_cases hlt : lastEnd (keptSpec d xs) < d
    · simp [hlt, lastEnd_append_singleton, fillerSpec]
    · have := lastEnd_kept_le d xs hd
      simp only [hlt, decide_false, Bool.false_eq_true, ↓reduceIte]
      omega

/-- "removes every cue that starts at or after d" / "leaves all other cues" — by identity -/
theorem kept_uids (d : Int) (xs : List Item) :
    (keptSpec d xs).map (·.uid) = (xs.filter (fun it => decide (it.startAt < d))).map (·.uid) := by
  unfold keptSpec
  simp only [List.map_map]
  apply List.map_congr_left
  intro a _
  simp only [Function.comp, clipEnd]
  split <;> rfl

/-- a kept cue is shortened iff it ended after `d`; otherwise it is untouched -/
theorem clip_exact (d : Int) (it : Item) :
    (it.endAt > d → clipEnd d it = { it with endAt := d }) ∧ (it.endAt ≤ d → clipEnd d it = it) := by
  constructor <;> intro h <;> simp [clipEnd] <;> omega

end C14
end Astisub
