import Astisub.Lemmas.TTMLDocRead

/-!
# C03 (write → read) — what the TTML reader makes of what the TTML writer emitted

Statements about the models `TTML.write` / `TTML.read` (`Model/TTML.lean`) for **all** cue lists
satisfying the decidable proviso `TTMLDoc.rep` (a concrete non-trivial value satisfying it:
`TTMLDoc.sample`, checked by `decide` next to the definition in `Lemmas/TTMLDocRead.lean`).

**Interface.**  The two models do not meet at a token list.  `TTML.write` ends at the element tree
handed to `xml.Encoder` (`List WTok`); `TTML.read` starts at the `TTMLIn` value `xml.Decoder.Decode`
filled (`TIn`: the attribute fields, and for every `<p>` the tokens of `"<p>" + stripIndent(innerxml) +
"</p>"`).  `encoding/xml` in both directions is an **assumed contract**, written down as the function
`TTMLDoc.unmarshal ix : List WTok → Option TIn` in `Lemmas/TTMLDocXml.lean` (a path-tracking decoder:
fields found by local name, last attribute wins, `begin` / `end` collected, style attributes decoded
by the reader model's own `itemOfStart`, indentation absent, the inner XML *bytes* of a paragraph an
arbitrary function `ix` of its tokens — every statement is for all `ix`).  The contract is claimed
for XML-legal character data only (`TTMLDoc.xmlCarries`; no proof needs it).

* `time_roundtrip` — `begin` / `end` as written are resolved to the instant truncated to the millisecond.
* `attrs_roundtrip`, `attr_field_roundtrip` — `style` and the `tts:*` attributes of an element.
* `body_roundtrip` — spans and `<br/>` of a paragraph come back as the same lines and runs.
* `defs_roundtrip` — `style` / `region` definitions.
* `unmarshal_written`, `write_read` — the document.
* `styleAttributes_field_Statement` — NOT proved (a statement about the reader's attribute conversion alone).
-/

namespace Astisub
namespace C03doc
open Go TTML TTMLDoc

/-- **Time (target 1).**  For every instant `0 ≤ t < 100 h` the text `WriteToTTML` prints
    (`hh:mm:ss.mmm`) is read by `TTMLInDuration.UnmarshalText` as a clock time without frames or ticks
    and resolved — whatever the document's frame rate and tick rate — to `t` truncated to the
    millisecond: the latest millisecond not after `t`. -/
theorem time_roundtrip (t : Int) (h0 : 0 ≤ t) (h1 : t < 360000000000000) (fr tr : Int) :
    timeExpr (Duration.formatTTML t) = some { d := t - t % 1000000 } ∧
    instant (Duration.formatTTML t) fr tr = some (t - t % 1000000) ∧
    t - t % 1000000 ≤ t ∧ t < t - t % 1000000 + 1000000 ∧ (t - t % 1000000) % 1000000 = 0 :=
  ⟨timeExpr_formatTTML t h0 h1, instant_formatTTML t h0 h1 fr tr, by omega, by omega, by omega⟩

/-- **Attributes of an element (target 3).**  The attribute list the writer puts on a `span`, `p`,
    `style` or `region` — optional `style` reference, then the `tts:*` attributes of the table in
    struct order — is decoded (as the tokenizer reports it, prefixes unresolved) into: the reference
    (`""` when absent or empty) and the fields `inKV a` of `TTMLInStyleAttributes`.  Proviso: `zIndex`,
    if set, is an integer (`attrsOk`). -/
theorem attrs_roundtrip (name : Str) (r : Option Str) (a : Attrs) (hok : attrsOk a = true) :
    itemOfStart name ((optAttr "style" r ++ outAttrs a).map rawAttr) {}
      = some { name := name, style := (normRef r).getD [], text := [], attrs := inKV a } :=
  itemOfStart_written name r a hok

/-- … and `inKV a` holds, for every row `(Field, localName)` of `attrTable`, under `Field` exactly the
    value of `TTML<Field>` in `a` (nothing when it is not set); `ZIndex` is the integer printed canonically. -/
theorem attr_field_roundtrip (a : Attrs) (p : String × String) (hp : p ∈ attrTable) :
    (p.1 ≠ "ZIndex" → TTML.get (inKV a) p.1 = kvGet a ("TTML" ++ p.1)) ∧
    (p.1 = "ZIndex" → TTML.get (inKV a) p.1 = (kvGet a "TTMLZIndex").bind fun v => (parseIntAttr v).map itoa) := by
  refine ⟨inKV_get_str a hp, fun hz => ?_⟩
  rw [inKV_get a hp, hz]
  have e : ("TTML" ++ "ZIndex" : String) = "TTMLZIndex" := by decide
  rw [e]
  cases kvGet a "TTMLZIndex" with
  | none => rfl
  | some v => simp [inVal]

/-- **Cue body (target 2).**  Let `ls` be the lines of a cue, every run representable (`runOk`: no
    line feed in the text, `zIndex` an integer, style reference empty or in `styleIds`).  The
    tokens of the re-tokenised paragraph (`pToks ls`: `<p>`, one `<span>` per run, one `<br/>`
    between two lines, `</p>`) are decoded — `"\n"` before every `br`, `TTMLInItems.UnmarshalXML` —
    into one item per span and per `br`, and the line splitter returns the same lines with the same
    runs: same text, same style reference, attributes `styleAttributes (inKV attrs)`, no time
    stamp.  A cue without lines comes back with one empty line (`normLines`). -/
theorem body_roundtrip (styleIds : List Str) (ls : List Line)
    (h : ∀ l ∈ ls, ∀ li ∈ l.items, runOk styleIds li = true) :
    decodeItems (pToks ls) true = .ok (itemsOf ls) ∧
    linesLoop styleIds (itemsOf ls) [] [] = some (normLines ls) :=
  ⟨decodeItems_pToks ls (fun l hl li hli => by
      have := h l hl li hli
      simp only [runOk, Bool.and_eq_true] at this
      exact this.1.1),
   linesLoop_itemsOf styleIds ls h⟩

/-- what `normLines` is: for a cue with at least one line, line by line and run by run -/
theorem normLines_fields (l : Line) (ls : List Line) :
    normLines (l :: ls) = (l :: ls).map fun l => ({ voice := [], items := l.items.map fun li =>
      { text := li.text, startAt := 0, style := normRef li.style, attrs := some (styleAttributes (inKV li.attrs)) } } : Line) :=
  rfl

/-- **Definitions (target 3).**  A `style` / `region` start tag is decoded into identifier, parent
    reference and attributes; and with pairwise distinct identifiers the reader's "a later definition
    replaces an earlier one" keeps every definition: the map it builds is the written list (identifier order). -/
theorem defs_roundtrip (l : List Def) (hnd : (l.map (·.id)).Nodup) :
    (∀ d ∈ l, attrsOk d.attrs = true → mkDef (headerAttrs d) = some (inDef d)) ∧
    lastWins (((sortDefs l).map inDef).map defOfIn) = (sortDefs l).map normDef :=
  ⟨fun d _ hok => mkDef_header d hok, lastWins_written l hnd⟩

/-- **The contract applied to the writer's output.**  For a non-empty cue list whose `zIndex` values are
    integers, `WriteToTTML` succeeds and `encoding/xml` hands `ReadFromTTML` the value `tinOfSubs ix s`:
    no frame / tick rate, the language code, title, copyright, the styles and regions in identifier
    order, and per cue the raw `begin` / `end`, `region`, `style`, attributes and paragraph tokens. -/
theorem unmarshal_written (ix : List XTok → Str) (s : Subs) (hne : s.items.isEmpty = false)
    (hok : attrsOkAll s = true) :
    ∃ w, write s = some w ∧ unmarshal ix w = some (tinOfSubs ix s) :=
  unmarshal_write ix s hne hok

theorem rep_attrsOkAll (s : Subs) (h : rep s = true) : s.items.isEmpty = false ∧ attrsOkAll s = true := by
  simp only [rep, Bool.and_eq_true, List.all_eq_true, decide_eq_true_eq, Bool.not_eq_true'] at h
  obtain ⟨⟨⟨⟨⟨hne, _⟩, _⟩, hst⟩, hrg⟩, hit⟩ := h
  refine ⟨hne, ?_⟩
  simp only [attrsOkAll, Bool.and_eq_true, List.all_eq_true]
  refine ⟨⟨fun d hd => ?_, fun d hd => ?_⟩, fun it hi => ?_⟩
  · have := hst d hd; simp only [defOk, Bool.and_eq_true] at this; exact this.1
  · have := hrg d hd; simp only [defOk, Bool.and_eq_true] at this; exact this.1
  · have := hit it hi; simp only [cueOk, Bool.and_eq_true] at this; exact this.1.1.1.2

/-- **Document (target 4): write → read.**  For every representable cue list `s` (`rep`: at least one
    cue, distinct style / region identifiers, references empty or defined, instants in `[0, 100 h)`,
    `zIndex` integers, no line feed in a run's text) whose character data XML can carry, `WriteToTTML`
    succeeds and `ReadFromTTML` of what `encoding/xml` delivers for the written tree — whatever the
    bytes of the paragraphs' inner XML are (`ix`) — returns `norm s`: the same cues (instants truncated
    to the millisecond, lines and runs kept, attributes through `styleAttributes`), the styles and
    regions in identifier order, title, copyright and language. -/
theorem write_read (ix : List XTok → Str) (s : Subs) (h : rep s = true) (_hlegal : xmlCarries s = true) :
    ∃ w, write s = some w ∧ TTML.read (unmarshal ix w) = .ok (norm s) := by
  obtain ⟨hne, hok⟩ := rep_attrsOkAll s h
  obtain ⟨w, hw, hu⟩ := unmarshal_write ix s hne hok
  exact ⟨w, hw, by rw [hu]; exact read_tinOfSubs ix s h⟩

/-- the number of cues, and per cue the number of lines and of runs per line, survive (cues without lines get one empty line) -/
theorem norm_shape (s : Subs) :
    (norm s).items.length = s.items.length ∧
    ∀ it ∈ s.items, it.lines ≠ [] →
      (normItem it).lines.map (fun l => l.items.map (·.text)) = it.lines.map (fun l => l.items.map (·.text)) := by
  refine ⟨by simp [norm], fun it _ hne => ?_⟩
  cases hl : it.lines with
  | nil => exact absurd hl hne
  | cons l ls =>
    simp [normItem, hl, normLines, normLine, normLItem, Function.comp_def]

/-- the written language comes back when it is one of the five the library knows -/
theorem language_roundtrip : ∀ p ∈ languages,
    languageOf (langIn (some [("Language".toList, p.2)])) = some p.2 := by decide

/-- NOT PROVED (statement about `TTMLInStyleAttributes.styleAttributes()` alone, kept for a later round):
    the canonical attribute list the reader returns carries under `TTML<Field>` exactly the decoded field. -/
def styleAttributes_field_Statement : Prop :=
  ∀ (kv : KV) (p : String × String), p ∈ attrTable →
    kvGet (some (styleAttributes kv)) ("TTML" ++ p.1) = TTML.get kv p.1

end C03doc
end Astisub
