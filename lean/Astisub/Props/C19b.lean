import Astisub.Props.C19
import Astisub.Model.STL
import Astisub.Model.TTML
import Astisub.Driver.STL

/-!
# C19 (continued) — the EBU STL and TTML writers do not depend on map iteration order

Same statement as `C19.srt_deterministic` / `C19.ssa_deterministic` / `C19.vtt_deterministic` for the two
remaining writer models.

* The STL writer model `STL.write now md cues` takes the *view* of a `Subs` value that `WriteToSTL` reads:
  the metadata (`Driver.STLD.metaOf s.metadata`) and, for every cue, its times, justification, vertical
  position and runs (`Driver.STLD.cueOf`).  These are exactly the arguments the `stl.write` stream feeds
  to the model on every run; `stlWriteSubs` names that composition.  Neither view looks at
  `Subs.styles` or `Subs.regions`.
* The TTML writer model `TTML.write` emits the `<styling>` and `<layout>` children in identifier order
  (`TTML.sortDefs`), everything else comes from the cues and the metadata.
-/

namespace Astisub
namespace C19
open List

/-- `WriteToSTL` on a `Subs` value: the writer model applied to the view of the value that the
    `stl.write` stream hands to it (`now` = the clock reading used for the default dates) -/
def stlWriteSubs (now : Astisub.STL.Date) (s : Subs) : Astisub.STL.Res Astisub.STL.Bytes :=
  Astisub.STL.write now (Driver.STLD.metaOf s.metadata) (s.items.map Driver.STLD.cueOf)

/-- EBU STL: the bytes written depend on the cues and the metadata only; the style and region maps are
    not looked at, so their enumeration order cannot matter -/
theorem stl_deterministic (now : Astisub.STL.Date) (s₁ s₂ : Subs) (h : SameUpToMapOrder s₁ s₂) :
    stlWriteSubs now s₁ = stlWriteSubs now s₂ := by
  unfold stlWriteSubs; rw [h.items, h.metadata]

/-- the same statement on the raw writer model: equal views give equal bytes (the model is a function of
    the view and of nothing else — in particular not of styles and regions) -/
theorem stl_deterministic_view (now : Astisub.STL.Date) (s₁ s₂ : Subs) (h : SameUpToMapOrder s₁ s₂) :
    Astisub.STL.write now (Driver.STLD.metaOf s₁.metadata) (s₁.items.map Driver.STLD.cueOf)
      = Astisub.STL.write now (Driver.STLD.metaOf s₂.metadata) (s₂.items.map Driver.STLD.cueOf) :=
  stl_deterministic now s₁ s₂ h

/-- TTML: `<style>` and `<region>` elements are emitted in identifier order, so two enumerations of the
    same style / region maps give the same element tree -/
theorem ttml_deterministic (s₁ s₂ : Subs) (h : SameUpToMapOrder s₁ s₂) : TTML.write s₁ = TTML.write s₂ := by
  have hs := sort_perm_invariant _ _ h.styles h.stylesNodup
  have hr := sort_perm_invariant _ _ h.regions h.regionsNodup
  unfold leId at hs hr
  unfold TTML.write TTML.sortDefs
  simp only [h.items, h.metadata, hs, hr]

/-! ### non-vacuity: two different enumerations of a two-entry style map and a two-entry region map -/

private def dA : Def := { id := "a".toList }
private def dB : Def := { id := "b".toList, ref := some "a".toList }
private def cue : CItem := { startAt := 0, endAt := 1000000000, lines := [{ items := [{ text := "x".toList }] }] }
private def sub1 : Subs := { items := [cue], styles := [dA, dB], regions := [dB, dA] }
private def sub2 : Subs := { items := [cue], styles := [dB, dA], regions := [dA, dB] }

example : SameUpToMapOrder sub1 sub2 :=
  { items := rfl, metadata := rfl, styles := Perm.swap _ _ _, regions := Perm.swap _ _ _,
    stylesNodup := by decide, regionsNodup := by decide }

example : sub1 ≠ sub2 := by decide

end C19
end Astisub
