import Astisub.Lemmas.OPSStable
import Astisub.Lemmas.OPSCut
import Astisub.Lemmas.OPSInverse
import Astisub.Lemmas.OPSInverseOrder

/-!
# C10 / C11 / C12 — the transformation laws that were left open

* **C12** `C12.stable_sort_unique`: a stable sort of a duplicate-free list is unique, so
  `Ops.order` (= `List.mergeSort`) describes `sort.SliceStable` whatever algorithm Go uses.
* **C10** `C10.cut_eq_cutSpec`, `C10.cut_length`, `C10.fragment_length_closed`, `C10.fragment_ok`:
  the inner loop of `Fragment` equals the executable specification; closed formula for the count.
* **C11** `C11.unfragment_fragment`, `C11.unfragment_fragment_ordered`: `Unfragment` undoes `Fragment`.

All statements are about the functions of `Model/Ops.lean`, for every input satisfying the
hypotheses written in the statement.
-/

namespace Astisub

/-! ## C12 — uniqueness of a stable sort -/

namespace C12
open Ops List

/-- **A stable sort is unique.**  Let `xs` be a list of pairwise different cues and `ys` any list
    that (1) has exactly the cues of `xs`, (2) is ordered by start, (3) keeps the relative order
    that `xs` gives to any two cues with the same start.  Then `ys` is `Ops.order xs`.
    Hence every correct `sort.SliceStable` returns the list the model returns. -/
theorem stable_sort_unique (xs ys : List Item) (hn : xs.Nodup) (hp : ys ~ xs)
    (hs : ys.Pairwise (fun a b => a.startAt ≤ b.startAt))
    (hst : ∀ a b : Item, a.startAt = b.startAt → [a, b] <+ xs → [a, b] <+ ys) :
    ys = order xs :=
  OPS.stableSort_unique (key := (·.startAt)) hn ⟨hp, hs, hst⟩ (OPS.order_stableSortOf xs)

/-- … and `Ops.order xs` itself satisfies (1)–(3), so the three conditions characterise it -/
theorem order_is_stable_sort (xs : List Item) :
    order xs ~ xs ∧ (order xs).Pairwise (fun a b => a.startAt ≤ b.startAt) ∧
      ∀ a b : Item, a.startAt = b.startAt → [a, b] <+ xs → [a, b] <+ order xs :=
  ⟨order_perm xs, order_sorted xs, fun a b h => order_stable xs a b (by omega)⟩

/-- non-vacuity: a duplicate-free list with equal starts -/
example : ([⟨1, 5, 9, [["a"]], 0⟩, ⟨2, 0, 3, [["b"]], 0⟩, ⟨3, 5, 7, [["c"]], 0⟩] : List Item).Nodup := by
  decide

/-- Why `Nodup` is assumed: with repeated (indistinguishable) cues the pairwise notion of
    stability no longer pins the list down.  For `xs = [a, b, a, b]` (equal starts) the list
    `[b, a, b, a]` satisfies (1)–(3) but is not `order xs = xs`. -/
example : ∃ xs ys : List Item, ys ~ xs ∧ ys.Pairwise (fun a b => a.startAt ≤ b.startAt) ∧
    (∀ a b : Item, a.startAt = b.startAt → [a, b] <+ xs → [a, b] <+ ys) ∧ ys ≠ order xs := by
  let a : Item := ⟨1, 0, 1, [], 0⟩
  let b : Item := ⟨2, 0, 1, [], 0⟩
  refine ⟨[a, b, a, b], [b, a, b, a], by decide, by decide, ?_, ?_⟩
  · intro x y _ h
    have hm := OPS.pair_sublist_mem h
    have hx : x = a ∨ x = b := by have := hm.1; simp at this; rcases this with h | h | h | h <;> simp [h]
    have hy : y = a ∨ y = b := by have := hm.2; simp at this; rcases this with h | h | h | h <;> simp [h]
    rcases hx with rfl | rfl <;> rcases hy with rfl | rfl <;> decide
  · rw [order_of_sorted _ (by decide)]
    decide

end C12

/-! ## C10 — the pieces of one cue, in closed form -/

namespace C10
open Ops Spec List

/-- `Spec.multiplesIn f s e` is the list of the multiples of `f` strictly between `s` and `e` … -/
theorem mem_multiplesIn (f : Int) (hf : 0 < f) (s e m : Int) :
    m ∈ multiplesIn f s e ↔ isMultiple f m ∧ s < m ∧ m < e := OPS.mem_multiplesIn f hf s e m

/-- … each exactly once, ascending; so its length is the number of such multiples -/
theorem multiplesIn_increasing (f : Int) (hf : 0 < f) (s e : Int) :
    (multiplesIn f s e).Pairwise (· < ·) := OPS.multiplesIn_increasing f hf s e

/-- **The inner loop of `Fragment` equals its executable specification**: for every cue (also
    empty or inverted ones) and every period `f > 0`, the loop model `Ops.cut` returns exactly
    the list `Spec.cutSpec` prescribes — the pieces `[s,b₁),[b₁,b₂),…,[b_k,e)` for the multiples
    `b₁<…<b_k` of `f` strictly inside the cue, the original (its identity) last, copies before. -/
theorem cut_eq_cutSpec (f : Int) (hf : 0 < f) (it : Item) : cut f it = cutSpec f it :=
  OPS.cut_eq_cutSpec f hf it

/-- **Count per cue**: one piece plus one per multiple of `f` strictly inside the cue. -/
theorem cut_length (f : Int) (hf : 0 < f) (it : Item) :
    (cut f it).length = 1 + (multiplesIn f it.startAt it.endAt).length := by
  rw [OPS.cut_eq_cutAt f hf, OPS.cutAt_length]

/-- **Count for the list** (closed formula): the number of cues after `Fragment` is the number of
    cues before plus the number of (cue, multiple of `f` strictly inside that cue) pairs. -/
theorem fragment_length_closed (f : Int) (hf : 0 < f) (xs : List Item) :
    (fragment f xs).length =
      xs.length + (xs.map (fun it => (multiplesIn f it.startAt it.endAt).length)).sum := by
  rw [fragment_length f hf]
  have hfun : (fun it => (cut f it).length) =
      (fun it => 1 + (multiplesIn f it.startAt it.endAt).length) := funext (cut_length f hf)
  rw [hfun]
  induction xs with
  | nil => rfl
  | cons c t ih =>
    simp only [map_cons, sum_cons, length_cons]
    omega

/-- `Fragment` returns a rearrangement of the specified pieces of every cue … -/
theorem fragment_perm_spec (f : Int) (hf : 0 < f) (xs : List Item) :
    fragment f xs ~ xs.flatMap (cutSpec f) := by
  have h : xs.flatMap (cut f) = xs.flatMap (cutSpec f) :=
    congrArg (fun g => xs.flatMap g) (funext (cut_eq_cutSpec f hf))
  rw [← h]
  exact fragment_perm f hf xs

/-- … so the executable C10 predicate `Spec.fragmentOk`, which the harness evaluates on the real
    implementation's output, holds of the model's output for every input list and every `f > 0`
    (ordered by start, and exactly the multiset of specified pieces). -/
theorem fragment_ok (f : Int) (hf : 0 < f) (xs : List Item) : fragmentOk f xs (fragment f xs) = true := by
  unfold fragmentOk
  rw [Bool.and_eq_true, OPS.sortedByStart_iff, isPerm_iff]
  refine ⟨?_, fragment_perm_spec f hf xs⟩
  unfold fragment
  by_cases h : xs = [] ∨ f ≤ 0
  · rcases h with h | h
    · subst h; simp
    · omega
  · simp only [h, ↓reduceIte]
    exact C12.order_sorted _

end C10

/-! ## C11 — `Unfragment` undoes `Fragment` -/

namespace C11
open Ops Spec List

/-- what is compared: start, end, text and content (lines and payload) of a cue — not its identity
    (`Fragment` returns fresh copies for all pieces but the last) -/
abbrev cueKey (it : Item) : Int × Int × String × (List (List String) × Nat) := OPS.cueKey it

/-- the hypotheses of the inverse law (decidable): ordered by start, every cue has positive
    length, no two cues at different positions have the same text and touching intervals -/
def InverseHyp (xs : List Item) : Prop :=
  xs.Pairwise (fun a b => a.startAt ≤ b.startAt) ∧ (∀ it ∈ xs, it.startAt < it.endAt) ∧
    xs.Pairwise (fun a b => ¬ Touch a b)

instance (xs : List Item) : Decidable (InverseHyp xs) := by unfold InverseHyp; infer_instance

/-- non-vacuity: overlapping cues with different texts, two cues with the same start, the same
    text twice separated by a gap of one unit, cues that `Fragment 1000` cuts into 3, 2, 1, 4 pieces -/
example : InverseHyp [⟨1, 0, 2500, [["a"]], 7⟩, ⟨2, 2000, 4000, [["b"]], 0⟩, ⟨3, 2000, 2100, [["c"]], 0⟩,
    ⟨4, 2501, 6000, [["a"]], 1⟩] := by
  decide

/-- the same hypothesis with positions, as in the property text -/
theorem pairwise_not_touch_iff (xs : List Item) :
    xs.Pairwise (fun a b => ¬ Touch a b) ↔
      ∀ (i j : Nat) (hi : i < xs.length) (hj : j < xs.length), i < j → ¬ Touch xs[i] xs[j] :=
  pairwise_iff_getElem

/-- **Inverse law.**  Let `f > 0` and let `xs` be ordered by start, with every cue of positive
    length and no two cues (at different positions) with the same text touching.  Then
    `Unfragment (Fragment f xs)` has exactly the cues of `xs` — same start, end, text, content,
    with multiplicity — and is ordered by start. -/
theorem unfragment_fragment (f : Int) (hf : 0 < f) (xs : List Item) (h : InverseHyp xs) :
    (unfragment (fragment f xs)).map cueKey ~ xs.map cueKey ∧
      (unfragment (fragment f xs)).Pairwise (fun a b => a.startAt ≤ b.startAt) :=
  ⟨OPS.unfragment_fragment_perm f hf xs ⟨h.2.1, h.2.2⟩, ordered _⟩

/-- **Inverse law, with order.**  Under the same hypotheses the cues even come back in the same
    order (cues with equal starts included): position by position the result has the start, end,
    text and content of `xs`. -/
theorem unfragment_fragment_ordered (f : Int) (hf : 0 < f) (xs : List Item) (h : InverseHyp xs) :
    (unfragment (fragment f xs)).map cueKey = xs.map cueKey :=
  OPS.unfragment_fragment_eq_keys f hf xs h.1 ⟨h.2.1, h.2.2⟩

/-- The multiset form does not need `xs` to be ordered. -/
theorem unfragment_fragment_unordered (f : Int) (hf : 0 < f) (xs : List Item)
    (hpos : ∀ it ∈ xs, it.startAt < it.endAt) (hnt : xs.Pairwise (fun a b => ¬ Touch a b)) :
    (unfragment (fragment f xs)).map cueKey ~ xs.map cueKey :=
  OPS.unfragment_fragment_perm f hf xs ⟨hpos, hnt⟩

/-- Consequence: the number of cues is restored. -/
theorem unfragment_fragment_length (f : Int) (hf : 0 < f) (xs : List Item) (h : InverseHyp xs) :
    (unfragment (fragment f xs)).length = xs.length := by
  have := congrArg length (unfragment_fragment_ordered f hf xs h)
  simpa using this

/-- The third hypothesis is also necessary: whenever `Unfragment` of *any* list returns the cues
    of `xs` (as a multiset of start, end, text, content), no two cues of `xs` with the same text
    touch — because `Unfragment` never leaves such a pair (`C11.no_touch`). -/
theorem inverse_only_if_not_touching (xs ys : List Item)
    (h : (unfragment ys).map cueKey ~ xs.map cueKey) : xs.Pairwise (fun a b => ¬ Touch a b) := by
  let TouchK (k1 k2 : Int × Int × String × (List (List String) × Nat)) : Prop :=
    k1.2.2.1 = k2.2.2.1 ∧ k1.1 ≤ k2.2.1 ∧ k2.1 ≤ k1.2.1
  have h1 : ((unfragment ys).map cueKey).Pairwise (fun a b => ¬ TouchK a b) :=
    pairwise_map.mpr (no_touch ys)
  have hsymm : ∀ {a b}, ¬ TouchK a b → ¬ TouchK b a := by
    intro a b hn ⟨e1, e2, e3⟩
    exact hn ⟨e1.symm, e3, e2⟩
  exact pairwise_map.mp ((Perm.pairwise_iff hsymm h).mp h1)

end C11
end Astisub
