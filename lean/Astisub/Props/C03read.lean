import Astisub.Lemmas.TTMLRead2Main

/-!
# C03 (read clause) — TTML: the reader model returns what a well-formed document denotes

The read clause of C03 says: *reading any well-formed TTML document returns exactly what it denotes*.  The independent
decoder `Spec.TTML.decode` (written from the TTML description) defines both "well-formed" (`decode toks = some d`)
and "denotes" (`d`).  The `ttml.read` stream (`Driver/TTML.lean`) evaluates on every generated case

    toksOk → decode (specToks toks) = some d → answer = "ok" s ∧ readOk d s

where `toks` is the name-space-resolved token list `encoding/xml` reports for the document, and the reader model
`TTML.read` is run on the *other* view of the same bytes: the `TTMLIn` value `xml.Decoder.Decode` filled, with the
re-tokenised paragraphs.  This file proves that predicate for the **model's** answer, for all documents of an explicit
decidable class and every `TTMLIn` view that belongs to the token list.

**The XML layer is a contract** (DESIGN 3.6), here written down as the decidable relation `TTMLR.contractOk toks tin`
(`Lemmas/TTMLRead2Defs.lean`): `TTMLR.unmarshal` is `Decode(&TTMLIn)` as a path-tracking function of the tokens
(attributes found by local name in any name space, last value of a string field, every value of an `int` /
`UnmarshalText` field, `title` / `copyright` character data, everything else skipped), and `TTMLR.subOk` says what
the re-tokenised `"<p>" + stripIndent(innerxml) + "</p>"` is for a paragraph of the decoder's class: `<p>`, then the
paragraph's own tokens up to name spaces and white-space-only character data directly inside `<p>`, then `</p>`.
It is an assumption about `encoding/xml` and about indentation stripping on bytes; nothing below proves it.

**Findings.**  The clause is false on the whole class of the decoder (`read_Statement_false`).  Three families of
documents are accepted by the decoder while the reader model (fed by a view satisfying the contract) provably answers
something else; each has a concrete document checked by the kernel:

1. `cexDecl` — a name-space declaration whose prefix is a name the library matches (`xmlns:color="red"` on `<p>`): read
   as the styling attribute `tts:color` (known finding `ttml-xmlns-prefix-read-as-styling-attribute`).
2. `cexBig` — a number beyond 64 bits (`end="99999999999999999999h"`): the decoder computes with exact rationals, the
   library reports a range error.
3. `cexBr` — `<br tts:zIndex="auto"/>` directly inside `<p>`: the decoder ignores the attributes of a line break, the
   library decodes the element into a `TTMLInItem` and fails on the integer.  (New; not in `known_findings.json`.)

`TTMLR.InClass toks` (decidable) excludes exactly these families (checked on every start tag, so also on foreign
elements both sides skip).  The other known finding (a line feed inside a run) is excluded by the decoder itself.

* `read_decode`     — MAIN: `∃ s, TTML.read tin = .ok s ∧ readOk d s`.
* `readCheck_model` — MAIN as the driver evaluates it (`readCheck` = the predicate of the `ttml.read` case with the
  model's answer in place of the implementation's).
* layer by layer: `time_expression` (every syntactic form, frame and tick rate), `attributes` / `attributes_item` /
  `reference` (one start tag), `styleAttributes_field` (closes `C03doc.styleAttributes_field_Statement`),
  `paragraph_shape` (decoder ⇒ grammar + lines), `paragraph_items` / `paragraph_lines` / `paragraph_retokenised`
  (model on a grammatical paragraph, and on any token list equal to it up to `canon`), `definitions`
  (`lastWins`, identifier order), `metadata`, `language`, `document` (decoder and contract in lockstep).

Nothing in this file is left as an unproved statement except `read_Statement`, which is refuted.
-/

namespace Astisub
namespace C03read
open Go TTML TTMLR
open Driver.TTMLD (specToks readOk ttmlAttrsOf)

/-! ## 0. the statement, and why it needs a class -/

/-- MAIN as first asked (REFUTED below): for every token list the decoder accepts and every `TTMLIn` view belonging to
    it, the reader model succeeds and its answer passes the check against the decoded document. -/
def read_Statement : Prop :=
  ∀ (toks : List XTok) (tin : Option TIn) (d : Spec.TTML.GDoc),
    Spec.TTML.decode (specToks toks) = some d → contractOk toks tin = true →
    ∃ s, TTML.read tin = .ok s ∧ readOk d s = true

/-- the predicate of the `ttml.read` case of `Driver.handleTTML`, with the model's answer `r` in place of the
    implementation's printed answer -/
def readCheck (toks : List XTok) (toksOk : Bool) (r : Res Subs) : Bool :=
  if !toksOk then true else
  match Spec.TTML.decode (specToks toks) with
  | none => true
  | some d =>
    match r with
    | .ok s => readOk d s
    | _ => false

def ns : Str := "http://www.w3.org/ns/ttml".toList
def tts : Str := "http://www.w3.org/ns/ttml#styling".toList
def xmlNs : Str := "http://www.w3.org/XML/1998/namespace".toList
def st (n : String) (a : List XAttr) : XTok := .start ns n.toList a
def en (n : String) : XTok := .stop ns n.toList
def tx (s : String) : XTok := .text s.toList
def at_ (sp : Str) (n v : String) : XAttr := (sp, n.toList, v.toList)

/-- a `TTMLIn` view that satisfies the contract: the fields `unmarshal` finds, and for every paragraph its own tokens
    between `<p>` and `</p>` (what re-tokenising gives when there is no indentation) -/
def viewOf (toks : List XTok) : Option TIn :=
  (unmarshal toks).map fun t => { t with subs := t.subs.map fun s => { s with toks := pStart :: s.toks ++ [pStop] } }

/-- `xmlns:color="red"` on a paragraph -/
def cexDecl : List XTok :=
  [st "tt" [], st "body" [], st "div" [],
   st "p" [at_ [] "begin" "1s", at_ [] "end" "2s", at_ "xmlns".toList "color" "red"],
   tx "x", en "p", en "div", en "body", en "tt"]

/-- a number beyond 64 bits -/
def cexBig : List XTok :=
  [st "tt" [], st "body" [], st "div" [],
   st "p" [at_ [] "begin" "1s", at_ [] "end" "99999999999999999999h"],
   tx "x", en "p", en "div", en "body", en "tt"]

/-- a line break with a `zIndex` that is not an integer -/
def cexBr : List XTok :=
  [st "tt" [], st "body" [], st "div" [],
   st "p" [at_ [] "begin" "1s", at_ [] "end" "2s"],
   tx "x", st "br" [at_ tts "zIndex" "auto"], en "br", en "p", en "div", en "body", en "tt"]

set_option maxRecDepth 100000 in
/-- **Finding (1).** The decoder accepts the document (no styling attribute on the cue), the view satisfies the
    contract, the reader model succeeds and answers a cue *with* `TTMLColor` — the check fails. -/
theorem cexDecl_differs :
    (Spec.TTML.decode (specToks cexDecl)).isSome = true ∧ contractOk cexDecl (viewOf cexDecl) = true ∧
    (match TTML.read (viewOf cexDecl) with | .ok _ => true | _ => false) = true ∧
    readCheck cexDecl true (TTML.read (viewOf cexDecl)) = false ∧ InClass cexDecl = false := by
  decide +kernel

set_option maxRecDepth 100000 in
/-- **Findings (2), (3).** The decoder accepts both documents, the views satisfy the contract, the reader model
    answers an error. -/
theorem cex_errors :
    (Spec.TTML.decode (specToks cexBig)).isSome = true ∧ contractOk cexBig (viewOf cexBig) = true ∧
    (match TTML.read (viewOf cexBig) with | .err => true | _ => false) = true ∧ InClass cexBig = false ∧
    (Spec.TTML.decode (specToks cexBr)).isSome = true ∧ contractOk cexBr (viewOf cexBr) = true ∧
    (match TTML.read (viewOf cexBr) with | .err => true | _ => false) = true ∧ InClass cexBr = false := by
  decide +kernel

/-- **MAIN is false without a class.** -/
theorem read_Statement_false : ¬ read_Statement := by
  intro h
  obtain ⟨hd, hk, he, _⟩ := cex_errors
  cases hg : Spec.TTML.decode (specToks cexBig) with
  | none => rw [hg] at hd; cases hd
  | some d =>
    obtain ⟨s, hs, _⟩ := h cexBig (viewOf cexBig) d hg hk
    rw [hs] at he
    cases he

/-! ## 1. the class and the contract are inhabited -/

/-- name-space declarations, `xml:lang`, frame and tick rate, title, a style chain, a region, a paragraph with a
    clock time with frames and an offset, indentation, a bare text, a span with a comment and a `<br/>` inside, a
    `<br/>` between spans, an empty span; a paragraph with times in ticks and frames -/
def sample : List XTok :=
  [st "tt" [at_ "xmlns".toList "tts" "http://www.w3.org/ns/ttml#styling", at_ [] "xmlns" "http://www.w3.org/ns/ttml",
            at_ xmlNs "lang" "en-US", at_ [] "frameRate" "25", at_ [] "tickRate" " 10 "],
   tx "\n ", st "head" [], st "metadata" [], st "title" [], tx "T", en "title", en "metadata",
   st "styling" [], st "style" [at_ xmlNs "id" "s1", at_ tts "color" "red"], en "style",
     st "style" [at_ xmlNs "id" "s0", at_ [] "style" "s1", at_ tts "zIndex" " -3 "], en "style", en "styling",
   st "layout" [], st "region" [at_ xmlNs "id" "r1", at_ [] "style" "s0", at_ tts "origin" "10% 80%"], en "region", en "layout",
   en "head", st "body" [], st "div" [],
   st "p" [at_ [] "begin" "00:00:01:05", at_ [] "end" "2.5s", at_ [] "region" "r1", at_ tts "textAlign" "center"],
     tx "\n   ", tx "hello ", st "span" [at_ [] "style" "s1", at_ tts "color" "blue"], tx "a", .other, tx "b",
       st "br" [], .other, en "br", tx "c", en "span",
     st "br" [], en "br", tx "\n  ", st "span" [], en "span", en "p",
   st "p" [at_ [] "begin" "10t", at_ [] "end" "3f"], en "p",
   en "div", en "body", en "tt"]

set_option maxRecDepth 100000 in
/-- non-vacuity: `sample` is in the class, the decoder accepts it (two cues, two styles, one region), and its view
    satisfies the contract -/
theorem sample_ok :
    InClass sample = true ∧ contractOk sample (viewOf sample) = true ∧
    ((Spec.TTML.decode (specToks sample)).map fun d => (d.cues.length, d.styles.length, d.regions.length)) = some (2, 2, 1) := by
  decide +kernel

/-! ## 2. MAIN -/

/-- **Read clause.**  For every token list `toks` of the class that the independent decoder accepts and denotes `d`,
    and every `TTMLIn` view `tin` that `encoding/xml` may deliver for it (the contract): the model of `ReadFromTTML`
    succeeds, and its answer `s` passes the check of the `ttml.read` stream against `d` — as many cues as `d` has, and
    per cue both instants within 1 ns of the exact rational instants (equal when those are whole nanoseconds), the
    same style and region reference, the same styling attributes, the same lines of runs (text, style reference,
    styling attributes); the styles and the regions of `d` in identifier order with their parent / style references
    and attributes; title, copyright; the language name when the library knows the primary subtag. -/
theorem read_decode (toks : List XTok) (tin : Option TIn) (d : Spec.TTML.GDoc)
    (hd : Spec.TTML.decode (specToks toks) = some d) (hc : InClass toks = true) (hk : contractOk toks tin = true) :
    ∃ s, TTML.read tin = .ok s ∧ readOk d s = true :=
  read_main toks tin d hd hc hk

/-- **Read clause, as the `ttml.read` check evaluates it**, on the model's answer: for every document of the class
    and every view belonging to it the predicate holds (trivially when tokenising failed or the decoder rejects). -/
theorem readCheck_model (toks : List XTok) (toksOk : Bool) (tin : Option TIn)
    (hc : InClass toks = true) (hk : contractOk toks tin = true) :
    readCheck toks toksOk (TTML.read tin) = true := by
  unfold readCheck
  cases toksOk with
  | false => rfl
  | true =>
    simp only [Bool.not_true, Bool.false_eq_true, if_false]
    cases hd : Spec.TTML.decode (specToks toks) with
    | none => rfl
    | some d =>
      obtain ⟨s, hs, hok⟩ := read_main toks tin d hd hc hk
      simp only [hs, hok]

/-! ## 3. layer by layer -/

/-- **(1) Time expressions.**  Every string the decoder reads as a time expression — `hh:mm:ss`, `hh:mm:ss.f`
    (1–3 digits), `hh:mm:ss:ff`, `n[.n]` + `h|m|s|ms|f|t` — under every frame rate and tick rate: when its numbers fit
    64 bits (`timeFits`; frame rate at most `math.MaxInt64`), `TTMLInDuration.UnmarshalText` accepts it and
    `duration()` is the exact rational instant `q` within 1 ns, never negative (equal when `q` is whole). -/
theorem time_expression (s : Str) (fr tr : Nat) (q : Nat × Nat)
    (h : Spec.TTML.denote s fr tr = some q) (hf : timeFits s = true) (hfr : fr ≤ TTMLR.int64Max) :
    ∃ d, TTML.timeExpr s = some d ∧ Spec.TTML.within1 (TTML.duration d (fr : Int) (tr : Int)) q = true :=
  denote_timeExpr s fr tr q h hf hfr

example : timeFits "00:00:01:05".toList = true ∧ timeFits "2.5s".toList = true ∧ timeFits "10t".toList = true := by decide

/-- `timeFits` is needed: decoder accepts, `UnmarshalText` fails -/
theorem time_expression_needs_fit :
    (Spec.TTML.denote "99999999999999999999h".toList 0 0).isSome = true ∧ TTML.timeExpr "99999999999999999999h".toList = none :=
  timeFits_needed.1

/-- **(3) Attributes of a start tag.**  When the decoder reads the styling attributes `sa` off an attribute list of
    the class, `encoding/xml` fills `TTMLInStyleAttributes` with fields `kv` (contract) whose view under the check —
    through `styleAttributes` and back out of the canonical attribute list — is `sa` (`zIndex` as the same integer). -/
theorem attributes (a : List XAttr) (sa : Spec.TTML.AttrL) (hfit : a.all attrFits = true)
    (h : Spec.TTML.styling a = some sa) :
    ∃ kv, inAttrs a = some kv ∧ ttmlAttrsOf (some (styleAttributes kv)) = sa := by
  obtain ⟨kv, h1, h2⟩ := styling_inAttrs a sa hfit h
  exact ⟨kv, h1, by rw [view_styleAttributes]; exact h2⟩

/-- … and the reader model's own decoding of a `span` / `br` start tag (`TTMLInItem`) finds the same fields. -/
theorem attributes_item (name : Str) (a : List XAttr) (kv : KV) (h : inAttrs a = some kv) :
    ∃ it, itemOfStart name a {} = some it ∧ it.name = name ∧ it.text = [] ∧ it.style = lastAttr a "style" ∧
      ttmlAttrsOf (some (styleAttributes it.attrs)) = ttmlAttrsOf (some (styleAttributes kv)) := by
  obtain ⟨it, h1, h2, h3, h4, h5⟩ := itemOfStart_get name a kv h
  exact ⟨it, h1, h2, h3, h4, view_get_congr _ _ h5⟩

/-- a `style` / `region` reference: absent on both sides, or the same non-empty identifier -/
theorem reference (a : List XAttr) (name : String) (r : Option Str) (hm : name.toList ∈ matchedNames)
    (hfit : a.all attrFits = true) (h : Spec.TTML.ref? a name = some r) :
    lastAttr a name = r.getD [] ∧ (∀ v, r = some v → v ≠ []) :=
  ref_lastAttr a name r hm hfit h

/-- the canonical attribute list the reader returns carries under `TTML<Field>` exactly the decoded field
    (this is `C03doc.styleAttributes_field_Statement`, left open there) -/
theorem styleAttributes_field (kv : KV) (p : String × String) (hp : p ∈ attrTable) :
    kvGet (some (styleAttributes kv)) ("TTML" ++ p.1) = TTML.get kv p.1 :=
  TTMLR.styleAttributes_field kv p hp

/-- **(2) One paragraph, decoder side.**  From a state directly inside `<p>` (no span open), whenever the decoder runs
    to a finished document, the tokens up to the paragraph's end tag have the shape `ParaBody r its` — bare texts,
    indentation, comments, `br`, `span` with texts / comments / `br` — and the cue it appends has the lines
    `semP mkTG mkSG its`: a bare text and every segment of a span is a run, a `br` ends a line. -/
theorem paragraph_shape (T : List XTok) (base : Spec.TTML.St) (p : Spec.TTML.PState) (stF : Spec.TTML.St)
    (hs : p.span = none) (hb : p.inBr = false) (hl : base.path.length = 4) (hfit : T.all tokFits = true)
    (hrun : Spec.TTML.run (specToks T) (inP base [] p) = some stF) (hfin : stF.finished = true) :
    ∃ r R its, T = r ++ R ∧ ParaBody r its ∧ good its ∧
      Spec.TTML.run (specToks R) (closeP base p (semP mkTG mkSG its (p.done, p.cur))) = some stF :=
  (para_all T).1 base p stF hs hb hl hfit hrun hfin

/-- **(2) One paragraph, model side.**  On a grammatical paragraph the `<br/>` trick and `TTMLInItems.UnmarshalXML`
    return one item per bare text, `br` and `span` (its text: the segments joined by line feeds) … -/
theorem paragraph_items (sp n : Str) (a : List XAttr) (r : List XTok) (its : List PItem) (items : List InItem)
    (hn : isBr n = false) (h : ParaBody r its) (hi : itemsM its = some items) :
    decodeItems (.start sp n a :: r) true = .ok items :=
  decodeItems_para sp n a r its items hn h hi

/-- … the line splitter turns them into the lines `semP mkTM mkSM its` … -/
theorem paragraph_lines (styles : List Str) (r : List XTok) (its : List PItem) (items : List InItem)
    (h : ParaBody r its) (hi : itemsM its = some items) (hs : stylesOk styles its = true) :
    linesLoop styles items [] [] =
      some (((semP mkTM mkSM its ([], [])).1 ++ [(semP mkTM mkSM its ([], [])).2]).map mkLine) := by
  have := linesLoop_para styles r its items h hi hs [] []
  simpa using this

/-- … and the answer only depends on the tokens up to name spaces and white-space-only character data directly
    inside `<p>` (for **all** token lists): this is what makes the re-tokenised paragraph as good as the original. -/
theorem paragraph_retokenised (sp n sp' n' : Str) (a a' : List XAttr) (r₁ r₂ : List XTok)
    (hn : isBr n = false) (hn' : isBr n' = false) (h : canon 0 r₁ = canon 0 r₂) :
    decodeItems (.start sp n a :: r₁) true = decodeItems (.start sp' n' a' :: r₂) true :=
  decodeItems_canon sp n sp' n' a a' r₁ r₂ hn hn' h

/-- **(3) Definitions.**  `style` / `region` elements related one by one (`DefRel`: same identifier, same parent /
    style reference, same attributes under the view) with pairwise distinct identifiers: what the reader keeps
    (`lastWins`) is, in identifier order, what the decoder lists. -/
theorem definitions (gs : List Spec.TTML.GDef) (ds : List InDef) (h : All2 DefRel gs ds)
    (hn : Spec.TTML.nodup (gs.map (·.id)) = true) :
    Driver.TTMLD.defsOf (lastWins (ds.map toDef)) = Driver.TTMLD.sortG gs :=
  defs_view gs ds h hn

/-- **(4) Metadata.** title, copyright and language of the answer are the `TTMLIn` fields … -/
theorem metadata (t : TIn) :
    (kvGet (metadataOf t) "Title").getD [] = t.title ∧ (kvGet (metadataOf t) "TTMLCopyright").getD [] = t.copyright ∧
    kvGet (metadataOf t) "Language" = languageOf t.lang :=
  ⟨metadata_title t, metadata_copyright t, metadata_language t⟩

/-- … and whenever the primary subtag of `xml:lang` is one of the five the library knows, the library's look-up of the
    first two characters finds the same name. -/
theorem language (lang n : Str) (h : Spec.TTML.languageName lang = some n) : TTML.languageOf lang = some n :=
  language_view lang n h

/-- **(5) The document: decoder and contract in lockstep.**  If the decoder accepts a token list of the class,
    `Decode(&TTMLIn)` (contract) succeeds, and the two final states are related (`Rel`): same frame / tick rate, title,
    copyright, language, definitions related one by one, and per cue the raw `begin` / `end` texts whose denotation
    is the cue's instants, references, attributes, and a grammatical paragraph whose lines are the cue's. -/
theorem document (toks : List XTok) (d : Spec.TTML.GDoc) (h : Spec.TTML.decode (specToks toks) = some d)
    (hc : InClass toks = true) :
    ∃ stF uF, stF.doc = d ∧ finalOk d = true ∧ unmarshal toks = some (tinOf uF) ∧ Rel stF uF :=
  decode_unmarshal toks d h hc

end C03read
end Astisub
