import Astisub.Lemmas.OpsAdd

/-!
# C09 — Sync: shift moves every cue by exactly d, clamps at 0, drops only dead cues

Statements are about `Ops.add`, the loop-faithful model of `Subtitles.Add`
(`subtitles.go`), for **every** list and **every** `d`.
-/

namespace Astisub
namespace C09
open Ops Spec

/-- Main theorem.  On every well-formed list (start ≤ end per cue; any order, overlaps,
    duplicates, any length) `Add d` returns exactly the cues whose end stays positive, in
    their original order, with the same identity and content, both boundaries moved by
    exactly `d` and a negative start clamped to 0. -/
theorem add_spec (d : Int) (xs : List Item) (h : WF xs) : add d xs = addSpec d xs := by
  rw [add_eq_filterMap]
  unfold addSpec
  induction xs with
  | nil => simp
  | cons it xs ih =>
    have hit : it.startAt ≤ it.endAt := h it (by simp)
    have hxs : WF xs := fun x hx => h x (by simp [hx])
    rw [List.filterMap_cons, shift1_spec d it hit, ih hxs]
    by_cases hs : survives d it <;> simp [List.filter_cons, hs]

/-- survivors move by exactly `d` (start clamped at 0), identity and content are kept -/
theorem shifted_fields (d : Int) (it : Item) :
    (shifted d it).endAt = it.endAt + d ∧ (shifted d it).startAt = max 0 (it.startAt + d) ∧
    (shifted d it).uid = it.uid ∧ (shifted d it).content = it.content := by
  simp [shifted, Item.content]

theorem nodup_map_inj {α β} {f : α → β} {l : List α} (h : (l.map f).Nodup) {a b : α}
    (ha : a ∈ l) (hb : b ∈ l) (hab : f a = f b) : a = b := by
  induction l with
  | nil => cases ha
  | cons x xs ih =>
    simp only [List.map_cons, List.nodup_cons, List.mem_map, not_exists, not_and] at h
    rcases List.mem_cons.mp ha with rfl | ha' <;> rcases List.mem_cons.mp hb with rfl | hb'
    · rfl
    · exact absurd hab.symm (h.1 b hb')
    · exact absurd hab (h.1 a ha')
    · exact ih h.2 ha' hb'

/-- exactly the dead cues are removed: a cue of the input is represented in the output
    (by identity) iff its shifted end is strictly positive — stated on lists with distinct
    identities. -/
theorem removed_iff (d : Int) (xs : List Item) (h : WF xs) (it : Item) (hit : it ∈ xs)
    (hnd : (xs.map (·.uid)).Nodup) :
    it.uid ∉ (add d xs).map (·.uid) ↔ it.endAt + d ≤ 0 := by
  rw [add_spec d xs h]
  unfold addSpec
  simp only [List.map_map]
  have hm : ((fun x : Item => x.uid) ∘ shifted d) = (fun x : Item => x.uid) := by
    funext x; simp [shifted]
  rw [hm]
  constructor
  · intro hn
    by_cases hpos : it.endAt + d ≤ 0
    · exact hpos
    exfalso
    apply hn
    apply List.mem_map.mpr
    refine ⟨it, List.mem_filter.mpr ⟨hit, (survives_iff _ _).mpr ?_⟩, rfl⟩
    omega
  · intro hle hmem
    obtain ⟨y, hy, hyu⟩ := List.mem_map.mp hmem
    have ⟨hyx, hys⟩ := List.mem_filter.mp hy
    have : y = it := nodup_map_inj hnd hyx hit hyu
    subst this
    have := (survives_iff _ _).mp hys; omega

/-- order is preserved: the surviving identities are a sublist of the original ones -/
theorem order_kept (d : Int) (xs : List Item) (h : WF xs) :
    ((add d xs).map (·.uid)).Sublist (xs.map (·.uid)) := by
  rw [add_spec d xs h]
  unfold addSpec
  simp only [List.map_map]
  have hm : ((fun x : Item => x.uid) ∘ shifted d) = (fun x : Item => x.uid) := by
    funext x; simp [shifted]
  rw [hm]
  exact List.Sublist.map _ List.filter_sublist

/-- a cue that is neither clamped nor removed by the shift is restored exactly by the
    shift back. -/
theorem inverse_item (d : Int) (it : Item) (h : it.startAt ≤ it.endAt)
    (hs : 0 ≤ it.startAt) (he : 0 < it.endAt) (hsd : 0 ≤ it.startAt + d) (hed : 0 < it.endAt + d) :
    survives d it = true ∧ survives (-d) (shifted d it) = true ∧
      shifted (-d) (shifted d it) = it := by
  refine ⟨(survives_iff _ _).mpr hed, (survives_iff _ _).mpr ?_, ?_⟩
  · simp only [shifted]
    omega
  cases it with
  | mk uid s e l p =>
    simp only [shifted] at *
    have h1 : max 0 (s + d) = s + d := by omega
    have h2 : max 0 (s + d + -d) = s := by omega
    have h3 : e + d + -d = e := by omega
    simp only [h1, h2, h3]

theorem wf_add (d : Int) (xs : List Item) (h : WF xs) : WF (add d xs) := by
  rw [add_spec d xs h]
  intro y hy
  unfold addSpec at hy
  obtain ⟨x, hx, rfl⟩ := List.mem_map.mp hy
  have hx' := (List.mem_filter.mp hx).1
  have hsv := (survives_iff _ _).mp (List.mem_filter.mp hx).2
  have := h x hx'
  simp only [shifted]; omega

/-- Shifting by `d` then by `-d`: every cue of the input that was neither clamped nor removed
    (start ≥ 0 before and after, end > 0 before and after) is back, unchanged, and every cue
    of the result is the restoration of a cue of the input. -/
theorem inverse (d : Int) (xs : List Item) (h : WF xs)
    (hall : ∀ it ∈ xs, 0 ≤ it.startAt ∧ 0 < it.endAt ∧ 0 ≤ it.startAt + d ∧ 0 < it.endAt + d) :
    add (-d) (add d xs) = xs := by
  have hwf2 : WF (add d xs) := wf_add d xs h
  rw [add_spec (-d) _ hwf2, add_spec d xs h]
  unfold addSpec
  induction xs with
  | nil => simp
  | cons it xs ih =>
    have hit := hall it (by simp)
    have ⟨h1, h2, h3⟩ := inverse_item d it (h it (by simp)) hit.1 hit.2.1 hit.2.2.1 hit.2.2.2
    have hxs : WF xs := fun x hx => h x (by simp [hx])
    have hallxs : ∀ it ∈ xs, 0 ≤ it.startAt ∧ 0 < it.endAt ∧ 0 ≤ it.startAt + d ∧ 0 < it.endAt + d :=
      fun x hx => hall x (by simp [hx])
    have hwf2' : WF (add d xs) := wf_add d xs hxs
    simp only [List.filter_cons, h1, ↓reduceIte, List.map_cons, h2, h3]
    congr 1
    exact ih hxs hallxs hwf2'

/-- The general inverse law of the property: after `add d` then `add (-d)`, a cue of the
    input that was neither clamped nor removed in either pass is present unchanged. -/
theorem inverse_mem (d : Int) (xs : List Item) (h : WF xs) (it : Item) (hit : it ∈ xs)
    (hs : 0 ≤ it.startAt) (he : 0 < it.endAt) (hsd : 0 ≤ it.startAt + d) (hed : 0 < it.endAt + d) :
    it ∈ add (-d) (add d xs) := by
  have hwf2 : WF (add d xs) := wf_add d xs h
  have ⟨h1, h2, h3⟩ := inverse_item d it (h it hit) hs he hsd hed
  rw [add_spec (-d) _ hwf2, add_spec d xs h]
  unfold addSpec
  apply List.mem_map.mpr
  refine ⟨shifted d it, List.mem_filter.mpr ⟨?_, h2⟩, h3⟩
  exact List.mem_map.mpr ⟨it, List.mem_filter.mpr ⟨hit, h1⟩, rfl⟩

end C09
end Astisub
